#!/usr/bin/env python3
# bin/leafgen.py — tie A, part 2: translate a whitelist of small pure functions
# of /repo/elfio/*.hpp from clang's *typed* AST (every node carries its C++
# type, implicit conversions are explicit nodes) into Gallina over N with the
# wrap-around of the node's unsigned type at every arithmetic node.
# Anything outside the supported subset makes generation fail (treated like a
# broken proof).  Output: coq/Gen_leaf.v.  coq/Tie_leaf.v proves the generated
# functions equal to the model's.
import json, os, re, subprocess, sys, tempfile
from concurrent.futures import ThreadPoolExecutor
VERIF = os.path.dirname(os.path.dirname(os.path.abspath(__file__)))
REPO = os.environ.get("VERIF_REPO", "/repo")
OUT = os.path.join(VERIF, "coq", "Gen_leaf.v")

class Unsupported(Exception):
    pass

UTYPES = {"unsigned char": 8, "unsigned short": 16, "unsigned int": 32, "unsigned long": 64, "unsigned long long": 64}

def ctype(node):
    ty = node.get("type", {})
    t = ty.get("desugaredQualType") or ty.get("qualType", "")
    t = t.replace("const ", "").strip()
    if t.endswith("*"):
        return ("ptr", 0)
    if t == "bool":
        return ("bool", 1)
    if t in UTYPES:
        return ("u", UTYPES[t])
    if t in ("int", "char", "signed char", "short", "long", "long long"):
        return ("i", {"int": 32, "char": 8, "signed char": 8, "short": 16}.get(t, 64))
    raise Unsupported("type " + t)

class Ctx:
    def __init__(self):
        self.lets = []          # (name, expr)
        self.env = {}           # C variable -> current Gallina name
        self.n = 0
        self.params = []        # Gallina parameters in order of first use / declaration
        self.bools = set()      # parameters of C++ type bool
    def fresh(self, base):
        self.n += 1
        return "%s%d" % (base, self.n)
    def bind(self, var, expr):
        nm = self.fresh(var + "_")
        self.lets.append((nm, expr))
        self.env[var] = nm
    def param(self, name):
        if name not in self.params:
            self.params.append(name)
        return name

def expr(n, cx):
    """returns a Gallina term (of type N, or bool for C++ bool)"""
    k = n["kind"]
    ins = [c for c in n.get("inner", [])]
    if k in ("ParenExpr", "ExprWithCleanups", "ConstantExpr"):
        return expr(ins[0], cx)
    if k == "ImplicitCastExpr" or k in ("CStyleCastExpr", "CXXFunctionalCastExpr", "CXXStaticCastExpr"):
        ck = n.get("castKind")
        sub = expr(ins[0], cx)
        if ck in ("LValueToRValue", "NoOp", "FunctionToPointerDecay"):
            return sub
        if ck == "IntegralCast":
            # signed values are carried as their two's-complement representative in [0, 2^w)
            src, dst = ctype(ins[0]), ctype(n)
            if src[0] == "bool" or dst[0] == "bool":
                raise Unsupported("integral cast %s -> %s" % (src, dst))
            if dst[1] < src[1]:
                return "(wrap %d %s)" % (dst[1], sub)      # narrowing: low bits of the representative
            if dst[1] == src[1]:
                return sub                              # same width: same representative
            if src[0] == "u":
                return sub                              # zero extension
            if nonneg(ins[0]):
                return sub                              # sign extension of a provably non-negative value
            raise Unsupported("sign extension %s -> %s of a possibly negative value" % (src, dst))
        if ck == "IntegralToBoolean":
            return "(negb (%s =? 0))" % sub
        raise Unsupported("cast kind %s" % ck)
    if k == "IntegerLiteral":
        return n["value"]
    if k == "CharacterLiteral":
        return str(n["value"])
    if k == "CXXBoolLiteralExpr":
        return "true" if n["value"] else "false"
    if k == "DeclRefExpr":
        name = n["referencedDecl"]["name"]
        if ctype(n)[0] == "ptr":
            return "PTR:" + name
        if name in cx.env:
            return cx.env[name]
        return cx.param(name)
    if k == "MemberExpr" and ins and ins[0]["kind"] == "CXXThisExpr":
        nm = n["name"]
        if ctype(n)[0] == "bool":
            cx.bools.add(nm)
        return cx.param(nm)
    if k == "CXXMemberCallExpr":
        me = ins[0]
        if me["kind"] != "MemberExpr" or len(ins) != 1:
            raise Unsupported("member call with arguments")
        return cx.param(me["name"])
    if k == "UnaryOperator":
        op = n["opcode"]
        if op == "*":
            # dereference of the (possibly advanced) input pointer: the current input byte
            if ctype(ins[0])[0] != "ptr":
                raise Unsupported("deref of non-pointer")
            return cx.param("c")
        sub = expr(ins[0], cx)
        t = ctype(n)
        if op == "~" and t[0] == "u":
            return "(unot %d %s)" % (t[1], sub)
        if op == "!" and t[0] == "bool":
            return "(negb %s)" % sub
        if op in ("++", "--") and ctype(n)[0] == "ptr":
            return sub
        raise Unsupported("unary " + op)
    if k == "BinaryOperator":
        op = n["opcode"]
        if op == "=":
            raise Unsupported("assignment inside an expression")
        a, b = expr(ins[0], cx), expr(ins[1], cx)
        t = ctype(n)
        ta = ctype(ins[0])
        if op in ("&&", "||"):
            return "(%s %s %s)" % (a, "&&" if op == "&&" else "||", b)
        if op in ("<", "<=", ">", ">=", "==", "!="):
            if ta[0] == "i" and op not in ("==", "!=") and not (nonneg(ins[0]) and nonneg(ins[1])):
                raise Unsupported("signed comparison")
            m = {"<": "(%s <? %s)", "<=": "(%s <=? %s)", ">": "(%s <? %s)", ">=": "(%s <=? %s)",
                 "==": "(%s =? %s)", "!=": "(negb (%s =? %s))"}[op]
            return m % ((b, a) if op in (">", ">=") else (a, b))
        if t[0] not in ("u", "i"):
            raise Unsupported("arithmetic in type %s" % (t,))
        w = t[1]
        # signed +, -, *, << : two's-complement wrap (what GCC/clang generate; an overflow is reported
        # by UBSan separately); signed >> only for provably non-negative left operands
        if op in ("<<", ">>") and not nonneg(ins[1]):
            raise Unsupported("shift by a possibly negative amount")
        if op == "+": return "(uadd %d %s %s)" % (w, a, b)
        if op == "-": return "(usub %d %s %s)" % (w, a, b)
        if op == "*": return "(umul %d %s %s)" % (w, a, b)
        if op == "<<": return "(ushl %d %s %s)" % (w, a, b)
        if op == ">>":
            if t[0] == "i" and not nonneg(ins[0]):
                raise Unsupported("right shift of a possibly negative value")
            return "(N.shiftr %s %s)" % (a, b)
        if op == "&": return "(N.land %s %s)" % (a, b)
        if op == "|": return "(N.lor %s %s)" % (a, b)
        if op == "^": return "(N.lxor %s %s)" % (a, b)
        raise Unsupported("binary " + op)
    if k == "ConditionalOperator":
        return "(if %s then %s else %s)" % (expr(ins[0], cx), expr(ins[1], cx), expr(ins[2], cx))
    raise Unsupported("expression node " + k)

def ubound(n):
    """static upper bound of the two's-complement representative of an integer expression (None: unknown)"""
    k = n["kind"]
    ins = n.get("inner", [])
    try:
        t = ctype(n)
    except Unsupported:
        return None
    full = (1 << t[1]) - 1 if t[0] in ("u", "i") else None
    if k in ("IntegerLiteral", "CharacterLiteral"):
        v = int(n["value"])
        return v if v >= 0 else None
    if k in ("ParenExpr", "ExprWithCleanups", "ConstantExpr"):
        return ubound(ins[0])
    if k in ("ImplicitCastExpr", "CStyleCastExpr", "CXXFunctionalCastExpr", "CXXStaticCastExpr"):
        ck = n.get("castKind")
        if ck in ("LValueToRValue", "NoOp"):
            b = ubound(ins[0])
            return b if b is not None else (full if t[0] == "u" else None)
        if ck == "IntegralCast":
            src = ctype(ins[0]); b = ubound(ins[0])
            if b is None and src[0] == "u":
                b = (1 << src[1]) - 1
            if b is None:
                return None
            if t[1] < src[1]:
                return min(b, (1 << t[1]) - 1)
            if src[0] == "i" and b >= (1 << (src[1] - 1)) and t[1] > src[1]:
                return None
            return b
        return None
    if k == "BinaryOperator":
        op = n["opcode"]
        a, b = ubound(ins[0]), ubound(ins[1])
        if op == "&":
            c = [x for x in (a, b) if x is not None]
            return min(c) if c else None
        if op in ("|", "^") and a is not None and b is not None:
            return (1 << max(a.bit_length(), b.bit_length())) - 1
        if op == ">>" and a is not None:
            r = ins[1]
            while r["kind"] in ("ImplicitCastExpr", "ParenExpr"):
                r = r["inner"][0]
            if r["kind"] == "IntegerLiteral":
                return a >> int(r["value"])
            return a
        if op == "<<" and a is not None:
            r = ins[1]
            while r["kind"] in ("ImplicitCastExpr", "ParenExpr"):
                r = r["inner"][0]
            if r["kind"] == "IntegerLiteral" and (a << int(r["value"])) <= full:
                return a << int(r["value"])
        return None
    if k == "DeclRefExpr" and t[0] == "u":
        return full
    return None

def nonneg(n):
    """the expression's value is provably non-negative (unsigned type, or signed with a static bound below 2^(w-1))"""
    t = ctype(n)
    if t[0] == "u":
        return True
    b = ubound(n)
    return b is not None and b < (1 << (t[1] - 1))

def is_nonneg_small(n):
    k = n["kind"]
    if k in ("IntegerLiteral", "CharacterLiteral"):
        return int(n["value"]) >= 0
    if k in ("ImplicitCastExpr", "ParenExpr"):
        inner = n["inner"][0]
        if n.get("castKind") == "IntegralCast":
            s = ctype(inner)
            return s[0] == "u" and s[1] < 32 or is_nonneg_small(inner)
        return is_nonneg_small(inner)
    return False

def stmt(n, cx):
    k = n["kind"]
    ins = n.get("inner", [])
    if k == "CompoundStmt":
        for c in ins:
            stmt(c, cx)
        return
    if k == "DeclStmt":
        for d in ins:
            if d["kind"] != "VarDecl" or not d.get("inner"):
                raise Unsupported("declaration without initialiser")
            cx.bind(d["name"], expr(d["inner"][0], cx))
        return
    if k == "BinaryOperator" and n["opcode"] == "=":
        lhs = ins[0]
        if lhs["kind"] != "DeclRefExpr":
            raise Unsupported("assignment to non-variable")
        cx.bind(lhs["referencedDecl"]["name"], expr(ins[1], cx))
        return
    if k == "CompoundAssignOperator":
        lhs = ins[0]
        if lhs["kind"] != "DeclRefExpr":
            raise Unsupported("compound assignment to non-variable")
        var = lhs["referencedDecl"]["name"]
        cur = cx.env.get(var) or cx.param(var)
        rhs = expr(ins[1], cx)
        t = ctype(n)
        if t[0] != "u":
            raise Unsupported("compound assignment in type %s" % (t,))
        op = n["opcode"][:-1]
        e = {"^": "(N.lxor %s %s)", "&": "(N.land %s %s)", "|": "(N.lor %s %s)",
             "+": "(uadd %d %%s %%s)" % t[1], "-": "(usub %d %%s %%s)" % t[1],
             "<<": "(ushl %d %%s %%s)" % t[1], ">>": "(N.shiftr %s %s)"}.get(op)
        if e is None:
            raise Unsupported("compound op " + op)
        cx.bind(var, e % (cur, rhs))
        return
    if k == "IfStmt":
        cond = expr(ins[0], cx)
        before = dict(cx.env)
        stmt(ins[1], cx)
        after_then = dict(cx.env)
        cx.env = dict(before)
        if len(ins) > 2:
            stmt(ins[2], cx)
        after_else = dict(cx.env)
        for v in set(after_then) | set(after_else):
            a, b = after_then.get(v, before.get(v)), after_else.get(v, before.get(v))
            if a != b:
                if a is None or b is None:
                    raise Unsupported("variable declared in one branch only")
                cx.env[v] = before.get(v)
                cx.bind(v, "(if %s then %s else %s)" % (cond, a, b))
        return
    if k == "NullStmt":
        return
    raise Unsupported("statement node " + k)

def find_body(fn):
    for c in fn.get("inner", []):
        if c["kind"] == "CompoundStmt":
            return c
    return None

def emit(name, params, cx, result):
    s = "Definition %s %s :=\n" % (name, " ".join("(%s : %s)" % (p, "bool" if p in cx.bools else "N") for p in params) if params else "")
    for nm, e in cx.lets:
        s += "  let %s := %s in\n" % (nm, e)
    return s + "  %s.\n" % result

def is_end_test(cond):
    """*p != '\\0'  or  c != '\\0'"""
    if cond["kind"] != "BinaryOperator" or cond["opcode"] != "!=":
        return False
    r = cond["inner"][1]
    while r["kind"] in ("ImplicitCastExpr", "ParenExpr"):
        r = r["inner"][0]
    return r["kind"] in ("CharacterLiteral", "IntegerLiteral") and int(r["value"]) == 0

def gen_hash(fn, name):
    """uint32_t f( const unsigned char* p ) { T h = INIT; ... loop over bytes { BODY } return h; }
    -> gen_<f>_init and gen_<f>_step (state variables..., c)."""
    body = find_body(fn)
    cx = Ctx()
    loop = None
    for s in body["inner"]:
        if s["kind"] == "DeclStmt":
            stmt(s, cx)
        elif s["kind"] in ("WhileStmt", "ForStmt"):
            loop = s
        elif s["kind"] == "ReturnStmt":
            ret = s
        else:
            raise Unsupported("statement %s in %s" % (s["kind"], name))
    inits = dict(cx.lets)
    state = [v for v in cx.env]
    init_defs = "".join("Definition gen_%s_init_%s : N := %s.\n" % (name, v, inits[cx.env[v]]) for v in state)
    if loop["kind"] == "WhileStmt":
        cond, lbody = loop["inner"][0], loop["inner"][1]
    else:
        parts = loop["inner"]          # init, (condvar), cond, inc, body
        cond, lbody = parts[2], parts[4]
        # for ( unsigned char c = *s; c != 0; c = *++s ): the byte variable is c
        init = parts[0]
        if init["kind"] != "DeclStmt" or init["inner"][0]["name"] != "c":
            raise Unsupported("for-loop shape in " + name)
    if not is_end_test(cond):
        raise Unsupported("loop test is not a NUL test in " + name)
    cx2 = Ctx()
    for v in state:
        cx2.env[v] = v
    stmt(lbody, cx2)
    rv = ret["inner"][0]
    while rv["kind"] in ("ImplicitCastExpr", "ParenExpr"):
        rv = rv["inner"][0]
    rvar = rv["referencedDecl"]["name"]
    params = state + ["c"]
    return init_defs + emit("gen_%s_step" % name, params, cx2, cx2.env[rvar]), rvar

def gen_pure(fn, name, gname=None):
    body = find_body(fn)
    cx = Ctx()
    for p in fn.get("inner", []):
        if p["kind"] == "ParmVarDecl" and ctype(p)[0] != "ptr":
            cx.param(p["name"])
    res = seq_result(body["inner"], cx, name)
    return emit(gname or ("gen_" + name), cx.params, cx, res)

def only_return(n):
    """a statement that is just `return e;` (possibly wrapped in braces)"""
    while n["kind"] == "CompoundStmt" and len(n.get("inner", [])) == 1:
        n = n["inner"][0]
    return n if n["kind"] == "ReturnStmt" else None

def seq_result(stmts, cx, name):
    """value returned by a statement list; `if (c) return e;` becomes `if c then e else <rest>`
    (the let-bindings of the rest are hoisted: every translated expression is total and pure)"""
    for i, s in enumerate(stmts):
        if s["kind"] == "ReturnStmt":
            return expr(s["inner"][0], cx)
        if s["kind"] == "IfStmt" and len(s["inner"]) == 2 and only_return(s["inner"][1]):
            cond = expr(s["inner"][0], cx)
            early = expr(only_return(s["inner"][1])["inner"][0], cx)
            rest = seq_result(stmts[i + 1:], cx, name)
            return "(if %s then %s else %s)" % (cond, early, rest)
        stmt(s, cx)
    raise Unsupported("no return in " + name)

def gen_method_int(fn, gname):
    """static int f( unsigned args ) { return <unsigned expression>; } whose result the callers store in an
    Elf_Word: the value they see is the expression reduced to 32 bits (unsigned -> int -> Elf_Word)."""
    if (fn.get("type", {}).get("qualType", "")).split("(")[0].strip() != "int":
        raise Unsupported("return type of " + gname)
    body = find_body(fn)
    cx = Ctx()
    for p in fn.get("inner", []):
        if p["kind"] == "ParmVarDecl":
            cx.param(p["name"])
    rets = [s for s in body["inner"] if s["kind"] == "ReturnStmt"]
    if len(rets) != 1 or len(body["inner"]) != 1:
        raise Unsupported("body shape of " + gname)
    e = rets[0]["inner"][0]
    # the conversion of the unsigned result to the int return type
    while e["kind"] == "ImplicitCastExpr" and e.get("castKind") == "IntegralCast" and ctype(e) == ("i", 32):
        e = e["inner"][0]
    return emit(gname, cx.params, cx, "(wrap 32 %s)" % expr(e, cx))


def all_docs(filt, td):
    tu = os.path.join(td, filt + ".cpp")
    with open(tu, "w") as f:
        f.write("#include <elfio/elfio.hpp>\n")
    p = subprocess.run(["clang++", "-std=c++17", "-I" + REPO, "-fsyntax-only", "-Xclang", "-ast-dump=json",
                        "-Xclang", "-ast-dump-filter=" + filt, tu], stdout=subprocess.PIPE, stderr=subprocess.PIPE, timeout=300)
    if p.returncode != 0:
        raise Unsupported("clang failed on %s: %s" % (filt, p.stderr.decode()[-500:]))
    txt = p.stdout.decode(); dec = json.JSONDecoder(); i = 0; docs = []
    while i < len(txt):
        while i < len(txt) and txt[i] in " \n\r\t":
            i += 1
        if i >= len(txt):
            break
        obj, j = dec.raw_decode(txt, i); docs.append(obj); i = j
    return docs


def gen_sym_and_type(td):
    out = []
    seen = set()
    for d in all_docs("get_sym_and_type", td):
        if d.get("kind") != "ClassTemplateSpecializationDecl":
            continue
        targs = [c for c in d.get("inner", []) if c.get("kind") == "TemplateArgument"]
        if len(targs) != 1:
            raise Unsupported("template arguments of get_sym_and_type")
        tname = targs[0]["type"]["qualType"].split("::")[-1]
        for m in d.get("inner", []):
            if m.get("kind") == "CXXMethodDecl" and m.get("name") in ("get_r_sym", "get_r_type") and find_body(m):
                g = "gen_%s_%s" % (m["name"], tname)
                out.append(gen_method_int(m, g)); seen.add(g)
    want = {"gen_%s_%s" % (m, t) for m in ("get_r_sym", "get_r_type") for t in ("Elf32_Rel", "Elf32_Rela", "Elf64_Rel", "Elf64_Rela")}
    if seen != want:
        raise Unsupported("specialisations of get_sym_and_type found: %s" % sorted(seen))
    return "\n".join(out)


def gen_convertor(td):
    """endianness_convertor::operator() for the three unsigned widths -> gen_conv16/32/64 need_conversion value"""
    out = []
    recs = [d for d in all_docs("endianness_convertor", td) if d.get("kind") == "CXXRecordDecl" and d.get("inner")]
    if len(recs) != 1:
        raise Unsupported("%d definitions of endianness_convertor" % len(recs))
    for w, ty in ((16, "uint16_t"), (32, "uint32_t"), (64, "uint64_t")):
        ms = [m for m in recs[0]["inner"] if m.get("kind") == "CXXMethodDecl" and m.get("name") == "operator()"
              and m.get("type", {}).get("qualType", "").replace(" ", "") == "%s(%s)const" % (ty, ty) and find_body(m)]
        if len(ms) != 1:
            raise Unsupported("%d definitions of endianness_convertor::operator()(%s)" % (len(ms), ty))
        text = gen_pure(ms[0], "conv%d" % w)
        if not text.startswith("Definition gen_conv%d (value : N) (need_conversion : bool) :=" % w):
            raise Unsupported("parameters of the %d-bit convertor: %s" % (w, text.splitlines()[0]))
        out.append(text)
    return "\n".join(out)

WRAPPERS = """#include <elfio/elfio.hpp>
using namespace ELFIO;
namespace verif_wrap {
// the macros of elf_types.hpp at the argument/result types of their call sites in elfio_symbols.hpp / elfio_relocation.hpp
unsigned char w_st_bind( unsigned char st_info ) { return ELF_ST_BIND( st_info ); }
unsigned char w_st_type( unsigned char st_info ) { return ELF_ST_TYPE( st_info ); }
unsigned char w_st_info( unsigned char bind, unsigned char type ) { return ELF_ST_INFO( bind, type ); }
Elf_Xword w_r_info32( Elf_Word symbol, unsigned int type ) { return ELF32_R_INFO( (Elf_Xword)symbol, type ); }
Elf_Xword w_r_info64( Elf_Word symbol, unsigned int type ) { return ELF64_R_INFO( (Elf_Xword)symbol, type ); }
}
"""
WRAPPED = ["w_st_bind", "w_st_type", "w_st_info", "w_r_info32", "w_r_info64"]

def gen_wrappers(td):
    tu = os.path.join(td, "wrap.cpp")
    with open(tu, "w") as f:
        f.write(WRAPPERS)
    p = subprocess.run(["clang++", "-std=c++17", "-I" + REPO, "-fsyntax-only", "-Xclang", "-ast-dump=json",
                        "-Xclang", "-ast-dump-filter=verif_wrap", tu], stdout=subprocess.PIPE, stderr=subprocess.PIPE, timeout=300)
    if p.returncode != 0:
        raise Unsupported("clang failed on the macro wrappers: %s" % p.stderr.decode()[-500:])
    txt = p.stdout.decode(); dec = json.JSONDecoder(); i = 0; fns = {}
    while i < len(txt):
        while i < len(txt) and txt[i] in " \n\r\t":
            i += 1
        if i >= len(txt):
            break
        obj, j = dec.raw_decode(txt, i); i = j
        stack = [obj]
        while stack:
            d = stack.pop()
            if d.get("kind") == "FunctionDecl" and d.get("name") in WRAPPED and find_body(d):
                fns[d["name"]] = d
            stack.extend(c for c in d.get("inner", []) if isinstance(c, dict))
    out = []
    for nm in WRAPPED:
        if nm not in fns:
            raise Unsupported("wrapper %s not found in the AST" % nm)
        out.append(gen_pure(fns[nm], nm, "gen_" + nm[2:]))
    return "\n".join(out)


def ast_of(name, td):
    tu = os.path.join(td, name + ".cpp")
    with open(tu, "w") as f:
        f.write("#include <elfio/elfio.hpp>\n")
    p = subprocess.run(["clang++", "-std=c++17", "-I" + REPO, "-fsyntax-only", "-Xclang", "-ast-dump=json",
                        "-Xclang", "-ast-dump-filter=" + name, tu], stdout=subprocess.PIPE, stderr=subprocess.PIPE, timeout=300)
    if p.returncode != 0:
        raise Unsupported("clang failed on %s: %s" % (name, p.stderr.decode()[-500:]))
    txt = p.stdout.decode(); dec = json.JSONDecoder(); i = 0; docs = []
    while i < len(txt):
        while i < len(txt) and txt[i] in " \n\r\t":
            i += 1
        if i >= len(txt):
            break
        obj, j = dec.raw_decode(txt, i); docs.append(obj); i = j
    cands = [d for d in docs if d.get("kind") in ("FunctionDecl", "CXXMethodDecl") and d.get("name") == name and find_body(d)]
    if len(cands) != 1:
        raise Unsupported("%d definitions of %s" % (len(cands), name))
    return cands[0]

TARGETS = [("elf_hash", "hash"), ("elf_gnu_hash", "hash"), ("is_sect_in_seg", "pure"),
           ("is_offset_in_section", "pure"), ("get_virtual_addr", "pure")]

def generate():
    with tempfile.TemporaryDirectory(prefix="verif_leaf_") as td:
        with ThreadPoolExecutor(max_workers=8) as ex:
            asts = list(ex.map(lambda t: ast_of(t[0], td), TARGETS))
        spec = gen_sym_and_type(td)
        spec += "\n" + gen_convertor(td) + "\n" + gen_wrappers(td)
    out = ["(* Gen_leaf.v — GENERATED by bin/leafgen.py from the typed clang AST of /repo/elfio/*.hpp; do not edit. *)",
           "From Coq Require Import NArith Bool.", "From ElfioV Require Import Bytes Leaf_ops.", "Local Open Scope N_scope.", ""]
    for (name, kind), fn in zip(TARGETS, asts):
        if kind == "hash":
            text, _ = gen_hash(fn, name)
        else:
            text = gen_pure(fn, name)
        out.append(text)
    out.append(spec)
    return "\n".join(out) + "\n"

def main():
    try:
        text = generate()
    except Unsupported as e:
        print("leafgen: cannot translate:", e); sys.exit(1)
    old = open(OUT).read() if os.path.exists(OUT) else None
    if old != text:
        with open(OUT, "w") as f:
            f.write(text)
        print("leafgen: wrote", OUT)
    else:
        print("leafgen: unchanged")

if __name__ == "__main__":
    main()
