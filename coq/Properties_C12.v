(* Properties_C12.v — C12: dynamic sections round-trip and end at the first DT_NULL. *)
From ElfioV Require Import Bytes Mem Stream SectionData SectionData_proofs Strings Elfio Table Accessors Tables_proofs.
Local Open Scope N_scope.

(* every entry of a table built from ABI-encoded entries is returned unchanged
   (value 0 for tags that carry none, truncated to the class width) *)
Theorem C12_entry_roundtrip :
  forall c e s (es : list dyn_entry) j d,
    Inv s -> contents s = concat (map (dyn_enc c e) es) ->
    sh_entsize s = dyn_esz c -> sh_size s < 2 ^ 61 ->
    nth_optN es j = Some d -> de_tag d < 2 ^ (xw c - 1) ->
    dyn_raw_core c e s (s_data s) j = Ok (dyn_view c d).
Proof. exact dyn_raw_roundtrip. Qed.
Print Assumptions C12_entry_roundtrip.

(* the counting loop stops at the first DT_NULL; the reported count includes it
   and never exceeds what the section holds *)
Theorem C12_count_upto_first_null :
  forall c e s (es : list dyn_entry) fuel,
    Inv s -> contents s = concat (map (dyn_enc c e) es) ->
    sh_entsize s = dyn_esz c -> sh_size s < 2 ^ 61 ->
    Forall (fun d => de_tag d < 2 ^ (xw c - 1)) es -> lenN es < lenN fuel ->
    exists i, dyn_count_core fuel c e s (s_data s) 0 (lenN es) = Ok i /\
      N.min (lenN es) (i + 1) = N.min (lenN es) (first_null es + 1) /\
      N.min (lenN es) (i + 1) <= lenN es.
Proof. exact dyn_reported_count. Qed.
Print Assumptions C12_count_upto_first_null.

(* since the repair of the stale cache: adding through an accessor resets its
   cached count, so the same accessor answers like a fresh one *)
Theorem C12_add_invalidates_cache :
  forall junk el a tag value el' a',
    dyn_add_entry junk el a tag value = Ok (el', a') -> da_num a' = 0 /\ da_sec a' = da_sec a.
Proof.
  intros junk el a tag value el' a'. unfold dyn_add_entry.
  destruct (get_sec el (da_sec a)) as [s|]; [|discriminate].
  destruct (append_data _ _ _ _) as [s1|f]; cbn [bind]; [|discriminate].
  intros [= <- <-]. split; reflexivity.
Qed.
Print Assumptions C12_add_invalidates_cache.

Example C12_example :
  first_null [mkDynEntry 1 5; mkDynEntry 0 0; mkDynEntry 14 9] = 1.
Proof. reflexivity. Qed.

(* non-vacuity for the 64-bit tag width (the bound above is 2^63 there): an ELF64 table whose first entry has the tag
   2^32 - non-zero, with zero low 32 bits - followed by DT_NEEDED and DT_NULL: the first entry is read back with its tag,
   and the count stops at the real DT_NULL (index 2), not at the first entry *)
Definition ex_wide : list dyn_entry := [mkDynEntry 4294967296 7; mkDynEntry 1 5; mkDynEntry 0 0].
Definition ex_wide_sec : section :=
  let d := concat (map (dyn_enc C64 LSB) ex_wide) in
  with_entsize (with_size (with_data (with_type (new_section C64) 6) (Some d) (lenN d)) (lenN d)) 16.
Example C12_wide_tag_example :
  dyn_raw_core C64 LSB ex_wide_sec (s_data ex_wide_sec) 0 = Ok (4294967296, 7) /\
  dyn_count_core [0; 0; 0; 0] C64 LSB ex_wide_sec (s_data ex_wide_sec) 0 3 = Ok 2 /\
  Forall (fun d => de_tag d < 2 ^ (xw C64 - 1)) ex_wide.
Proof. split; [vm_compute; reflexivity|]. split; [vm_compute; reflexivity|]. repeat constructor; vm_compute; reflexivity. Qed.
