(* Properties_C19.v — C19: a moved-to object is complete and independent of its source. *)
From ElfioV Require Import Bytes Mem Stream SectionData Strings Elfio Table Accessors Loader Layout Writer Script World_proofs.
Local Open Scope N_scope.

(* In the model an object is a value (header, sections, segments, translator,
   compression flag, stream) stored under an identity; every operation acts on
   the value stored under the current identity.  That the implementation's
   objects behave like such values — no pointer from the destination back into
   the source — is exactly what the differential run observes (canonical
   observations before/after the source's storage is destroyed or reused). *)

Theorem C19_move_construct :
  forall w dst src e a al,
    dst <> src -> obj_get w src = Some (e, a, al) ->
    exists w', step_world w (OpMoveCtor dst src) = Some (Ok (w', [])) /\
      obj_get w' dst = Some (e, [], al) /\
      obj_get w' src = Some (moved_from e false, [], []) /\
      (forall j, j <> dst -> j <> src -> obj_get w' j = obj_get w j).
Proof. exact move_ctor_spec. Qed.
Print Assumptions C19_move_construct.

Theorem C19_move_assign :
  forall w dst src e a al d,
    dst <> src -> obj_get w src = Some (e, a, al) -> obj_get w dst = Some d ->
    exists w', step_world w (OpMoveAssign dst src) = Some (Ok (w', [])) /\
      obj_get w' dst = Some (e, [], al) /\
      obj_get w' src = Some (moved_from e true, [], []) /\
      (forall j, j <> dst -> j <> src -> obj_get w' j = obj_get w j).
Proof. exact move_assign_spec. Qed.
Print Assumptions C19_move_assign.

(* destroying, overwriting or re-using the source leaves the destination as it is *)
Theorem C19_destroy_is_local :
  forall w k, k <> w_cur w ->
    exists w', step_world w (OpDestroy k) = Some (Ok (w', [])) /\ forall j, j <> k -> obj_get w' j = obj_get w j.
Proof. exact destroy_spec. Qed.
Print Assumptions C19_destroy_is_local.

Theorem C19_overwrite_is_local :
  forall w k v j, j <> k -> obj_get (obj_put w k v) j = obj_get w j.
Proof. exact obj_put_other. Qed.
Print Assumptions C19_overwrite_is_local.

(* the source remains a well-defined empty object ... *)
Theorem C19_source_is_empty :
  forall e b,
    el_hdr (moved_from e b) = None /\ el_secs (moved_from e b) = [] /\ el_segs (moved_from e b) = [] /\
    el_xlat (moved_from e b) = [] /\ el_compr (moved_from e b) = false /\ el_stream (moved_from e b) = None.
Proof. exact moved_from_is_empty. Qed.
Print Assumptions C19_source_is_empty.

(* ... and re-initialising or loading into a used object does not depend on the
   sections, segments and stream it held *)
Theorem C19_create_on_used_object :
  forall junk el1 el2 c e,
    el_xlat el1 = el_xlat el2 -> el_pos el1 = el_pos el2 -> el_compr el1 = el_compr el2 -> el_stream el1 = el_stream el2 ->
    create junk el1 c e = create junk el2 c e.
Proof. exact create_ignores_contents. Qed.
Print Assumptions C19_create_on_used_object.

Theorem C19_load_into_used_object :
  forall junk el1 el2 k content lazy,
    el_xlat el1 = el_xlat el2 -> el_pos el1 = el_pos el2 -> el_compr el1 = el_compr el2 -> el_hdr el1 = el_hdr el2 ->
    load junk el1 k content lazy = load junk el2 k content lazy.
Proof. exact load_ignores_contents. Qed.
Print Assumptions C19_load_into_used_object.

(* when the input passes the identification stage (16 bytes, magic, class, byte order) the previous header does not
   matter either: the load is a function of the input, the translator, and nothing else of the object's past *)
Theorem C19_load_into_used_object_any_header :
  forall junk el1 el2 k content lazy,
    el_xlat el1 = el_xlat el2 -> el_pos el1 = el_pos el2 -> el_compr el1 = el_compr el2 ->
    ident_accepted (el_xlat el1) k content = true ->
    load junk el1 k content lazy = load junk el2 k content lazy.
Proof. exact load_ignores_header. Qed.
Print Assumptions C19_load_into_used_object_any_header.

(* the hypothesis cannot be dropped: an input refused at the identification stage leaves the previous header
   behind. This is the open finding refused-load-keeps-header, replayed on the library by corpus/C19/refused_load_keeps_header.script *)
Theorem C19_refuted_refused_load_forgets_header :
  exists el1 el2 k content lazy,
    el_xlat el1 = el_xlat el2 /\ el_pos el1 = el_pos el2 /\ el_compr el1 = el_compr el2 /\
    el_secs el1 = el_secs el2 /\ el_segs el1 = el_segs el2 /\
    load (fun _ => 0) el1 k content lazy <> load (fun _ => 0) el2 k content lazy.
Proof. exact load_refused_keeps_header_refuted. Qed.
Print Assumptions C19_refuted_refused_load_forgets_header.

Definition with_pos_example : elfio := mkElfio (Some (new_header C64 LSB)) [] [] [(1, 2, 3)] 99 false None.
Example C19_example :
  let w := obj_put (mkWorld (empty_elfio true)) 7 (with_pos_example, [], [3]) in
  exists w', step_world w (OpMoveCtor 9 7) = Some (Ok (w', [])) /\ obj_get w' 9 = Some (with_pos_example, [], [3]) /\
             obj_get w' 0 = Some (empty_elfio true, [], []).
Proof. vm_compute. eexists. repeat split; reflexivity. Qed.
