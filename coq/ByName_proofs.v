(* ByName_proofs.v — C09: symbol lookup by name.  On an object whose symbol, string and hash sections
   no longer change under data requests ("quiet": the first get_data() has happened, or loading is off),
   get_symbol( name, ... ) answers exactly as a linear scan of the table would — whatever the hash table
   that accompanies the symbol table contains: a hash hit is accepted only after the name was compared,
   and a miss falls back to the scan. *)
From ElfioV Require Import Bytes Mem Stream SectionData SectionData_proofs Strings Elfio Table Accessors.
From Coq Require Import ZifyBool ZifyN ZifyNat.
Local Open Scope N_scope.

Lemma updN_same {A} (l : list A) : forall i x, nth_optN l i = Some x -> updN l i x = l.
Proof.
  induction l as [|y t IH]; intros i x H; [reflexivity|]. cbn [nth_optN] in H. cbn [updN].
  destruct (i =? 0); [now injection H as ->|]. f_equal. now apply IH.
Qed.

(* a data request leaves the section as it is *)
Definition quiet (s : section) : Prop := negb (s_loaded s) && s_can_load s = false.

Section ByName.
  Variable junk : N -> N.

  Lemma el_sec_get_data_quiet el i s : get_sec el i = Some s -> quiet s -> el_sec_get_data junk el i = Ok (el, s_data s).
  Proof.
    intros Hg Hq. unfold el_sec_get_data. rewrite Hg. unfold sec_get_data. unfold quiet in Hq. rewrite Hq. cbn [bind].
    unfold upd_sec. unfold get_sec in Hg. rewrite (updN_same _ _ _ Hg). destruct el; reflexivity.
  Qed.

  Lemma sec_data_quiet el i s : get_sec el i = Some s -> quiet s -> sec_data junk el i = Ok (el, s_data s, s).
  Proof. intros Hg Hq. unfold sec_data. rewrite (el_sec_get_data_quiet el i s Hg Hq). cbn [bind]. now rewrite Hg. Qed.

  (* every data request leaves the section quiet: either it is marked loaded, or loading is switched off *)
  Lemma sec_load_data_ok_loaded st t s st1 s1 al : sec_load_data junk st t s = Ok (st1, s1, true, al) -> s_loaded s1 = true.
  Proof.
    unfold sec_load_data. intro H.
    repeat match type of H with
           | context [if ?c then _ else _] => destruct c
           | context [match ?x with _ => _ end] => destruct x
           end; try discriminate; injection H as _ <- _; destruct s; reflexivity.
  Qed.
  Lemma sec_get_data_makes_quiet st t s st1 s1 al : sec_get_data junk st t s = Ok (st1, s1, al) -> quiet s1.
  Proof.
    unfold sec_get_data, quiet. destruct (negb (s_loaded s) && s_can_load s) eqn:E; intro H.
    - destruct (sec_load_data junk st t s) as [[[[st' s'] ok] al']|] eqn:L; cbn [bind] in H; [|discriminate].
      injection H as _ <- _. destruct ok.
      + rewrite (sec_load_data_ok_loaded _ _ _ _ _ _ L). reflexivity.
      + destruct s'; cbn. apply andb_false_r.
    - injection H as _ <- _. exact E.
  Qed.
  Lemma quiet_after_get_data el i el1 p s1 : el_sec_get_data junk el i = Ok (el1, p) -> get_sec el1 i = Some s1 -> quiet s1.
  Proof.
    unfold el_sec_get_data. destruct (get_sec el i) as [s|] eqn:Hg; [|discriminate].
    destruct (sec_get_data junk (el_stream el) (el_xlat el) s) as [[[st1 s2] al]|] eqn:E; cbn [bind]; [|discriminate].
    intros [= <- _] Hg1. pose proof (sec_get_data_makes_quiet _ _ _ _ _ _ E) as Q.
    assert (get_sec (upd_sec el i s2) i = Some s2).
    { unfold get_sec, upd_sec. cbn. apply nth_optN_updN_same. apply nth_optN_lt in Hg. exact Hg. }
    unfold get_sec, upd_sec in *. cbn in Hg1, H. rewrite H in Hg1. injection Hg1 as <-. exact Q.
  Qed.

  (* the sections a symbol table look-up touches are quiet *)
  Definition quiet_symtab (el : elfio) (symsec : N) : Prop :=
    exists s, get_sec el symsec = Some s /\ quiet s /\
              (forall st, get_sec el (wrap16 (sh_link s)) = Some st -> quiet st).

  Lemma lookup_str_same el k idx el1 r :
    (forall st, get_sec el k = Some st -> quiet st) -> lookup_str junk el k idx = Ok (el1, r) -> el1 = el.
  Proof.
    intros Hq H. unfold lookup_str in H. destruct (get_sec el k) as [st|] eqn:Hg; [|now injection H as <- _].
    rewrite (sec_data_quiet el k st Hg (Hq st eq_refl)) in H. cbn [bind] in H.
    destruct (get_string_raw _ _ _); cbn [bind] in H; [now injection H as <- _|discriminate].
  Qed.

  Lemma get_symbol_same el symsec i el1 r :
    quiet_symtab el symsec -> get_symbol junk el symsec i = Ok (el1, r) -> el1 = el.
  Proof.
    intros (s & Hg & Hq & Hl) H. unfold get_symbol in H. rewrite (sec_data_quiet el symsec s Hg Hq) in H. cbn [bind] in H.
    destruct (sym_get_core _ _ _ _ _ _) as [o|]; cbn [bind] in H; [|discriminate].
    destruct o as [y|]; [|now injection H as <- _].
    destruct (lookup_str junk el (wrap16 (sh_link s)) (st_name y)) as [[el2 nm]|] eqn:El; cbn [bind] in H; [|discriminate].
    apply (lookup_str_same _ _ _ _ _ Hl) in El. subst el2. now injection H as <- _.
  Qed.

  (* a symbol whose name could not be resolved is reported with the empty name *)
  Lemma get_symbol_unnamed el symsec i el1 v :
    get_symbol junk el symsec i = Ok (el1, Some v) -> sv_named v = false -> sv_name v = [].
  Proof.
    intros H Hn. unfold get_symbol in H.
    destruct (sec_data junk el symsec) as [[[e1 p] s]|]; cbn [bind] in H; [|discriminate].
    destruct (sym_get_core _ _ _ _ _ _) as [o|]; cbn [bind] in H; [|discriminate].
    destruct o as [y|]; [|discriminate].
    destruct (lookup_str junk e1 _ _) as [[el2 nm]|]; cbn [bind] in H; [|discriminate].
    injection H as _ <-. cbn in *. destruct nm; [discriminate|reflexivity].
  Qed.

  (* "the symbol at some index is v" *)
  Definition is_symbol (el : elfio) (symsec : N) (v : symview) : Prop :=
    exists y, get_symbol junk el symsec y = Ok (el, Some v).

  (* ---------- SysV hash walk ---------- *)
  (* what the walk carries: when the carried name is the queried one, the carried attributes are those of a symbol *)
  Definition carried_ok (el : elfio) (symsec : N) (name : bytes) (cur : symview) : Prop :=
    sv_name cur = name -> is_symbol el symsec cur.

  Lemma walk_get_step el symsec name y cur el1 cur1 fl :
    quiet_symtab el symsec ->
    walk_get junk el symsec y cur = Ok (el1, cur1, fl) ->
    (sv_name cur <> name \/ (cur = empty_view /\ name <> [])) ->
    el1 = el /\ carried_ok el symsec name cur1.
  Proof.
    intros Q H Hc. unfold walk_get in H.
    destruct (get_symbol junk el symsec y) as [[e1 r]|] eqn:Eg; cbn [bind] in H; [|discriminate].
    pose proof (get_symbol_same _ _ _ _ _ Q Eg) as ->.
    destruct r as [v|].
    - injection H as <- <- _. split; [reflexivity|]. intro Hn.
      destruct (sv_named v) eqn:En; [exists y; exact Eg|].
      cbn in Hn. destruct Hc as [Hc|[-> Hne]]; [congruence|]. cbn in Hn. congruence.
    - injection H as <- <- _. split; [reflexivity|]. intro Hn.
      destruct Hc as [Hc|[-> Hne]]; [congruence|]. cbn in Hn. congruence.
  Qed.

  Lemma sysv_walk_sound fuel hp enc name nbucket nchain : forall el symsec y steps cur el1 cur1,
    quiet_symtab el symsec -> carried_ok el symsec name cur ->
    sysv_walk junk fuel el symsec hp enc name nbucket nchain y steps cur = Ok (el1, cur1) ->
    el1 = el /\ carried_ok el symsec name cur1.
  Proof.
    induction fuel as [|u f IH]; intros el symsec y steps cur el1 cur1 Q C H.
    - cbn [sysv_walk] in H. destruct (_ && _); [discriminate|]. now injection H as <- <-.
    - cbn [sysv_walk] in H.
      destruct (negb (bytes_eqb (sv_name cur) name) && negb (y =? 0) && (y <? nchain) && (steps <? nchain)) eqn:Ec;
        [|now injection H as <- <-].
      assert (Hne : sv_name cur <> name).
      { repeat (apply andb_true_iff in Ec; destruct Ec as [Ec _]). apply negb_true_iff in Ec.
        intro E. apply bytes_eqb_spec in E. congruence. }
      destruct (rd_word enc hp _ 4) as [y1|]; cbn [bind] in H; [|discriminate].
      destruct (walk_get junk el symsec y1 cur) as [[[e1 c1] fl]|] eqn:Ew; cbn [bind] in H; [|discriminate].
      destruct (walk_get_step _ _ name _ _ _ _ _ Q Ew (or_introl Hne)) as [-> C1].
      eapply IH; eauto.
  Qed.

  Theorem hash_lookup_sound el symsec hashsec name el1 v :
    quiet_symtab el symsec -> (forall hs, get_sec el hashsec = Some hs -> quiet hs) -> name <> [] ->
    hash_lookup junk el symsec hashsec name = Ok (el1, Some v) ->
    el1 = el /\ is_symbol el symsec v /\ sv_name v = name.
  Proof.
    intros Q Qh Hne H. unfold hash_lookup in H.
    destruct (sec_data junk el hashsec) as [[[e1 hp] hs]|] eqn:Es; cbn [bind] in H; [|discriminate].
    assert (e1 = el) as ->.
    { unfold sec_data in Es. destruct (get_sec el hashsec) as [h0|] eqn:Hg.
      - rewrite (el_sec_get_data_quiet el hashsec h0 Hg (Qh h0 eq_refl)) in Es. cbn [bind] in Es. rewrite Hg in Es. now injection Es as <- _ _.
      - unfold el_sec_get_data in Es. rewrite Hg in Es. discriminate. }
    destruct hp as [hb|]; [|discriminate].
    destruct (sh_size hs <? 8); [discriminate|].
    destruct (rd_word _ _ 0 4) as [nbucket|]; cbn [bind] in H; [|discriminate].
    destruct (rd_word _ _ 4 4) as [nchain|]; cbn [bind] in H; [|discriminate].
    destruct (_ || _); [discriminate|].
    destruct (rd_word _ _ _ 4) as [y|]; cbn [bind] in H; [|discriminate].
    destruct (walk_get junk el symsec y empty_view) as [[[e2 cur] fl]|] eqn:Ew; cbn [bind] in H; [|discriminate].
    destruct (walk_get_step _ _ name _ _ _ _ _ Q Ew (or_intror (conj eq_refl Hne))) as [-> C1].
    destruct (sysv_walk junk _ el symsec _ _ name nbucket nchain y 0 cur) as [[e3 cur1]|] eqn:Es2; cbn [bind] in H; [|discriminate].
    destruct (sysv_walk_sound _ _ _ _ _ _ _ _ _ _ _ _ _ Q C1 Es2) as [-> C2].
    destruct (bytes_eqb (sv_name cur1) name) eqn:Eb; [|discriminate].
    injection H as <- <-. apply bytes_eqb_spec in Eb. split; [reflexivity|]. split; [apply C2; exact Eb|exact Eb].
  Qed.

  (* ---------- GNU hash walk ---------- *)
  Lemma gnu_walk_sound fuel hp enc name chains_off chains_num symoffset hash : forall el symsec ci ch symname el1 v,
    quiet_symtab el symsec -> symname <> name ->
    gnu_walk junk fuel el symsec hp enc name chains_off chains_num symoffset hash ci ch symname = Ok (el1, Some v) ->
    el1 = el /\ is_symbol el symsec v /\ sv_name v = name.
  Proof.
    induction fuel as [|u f IH]; intros el symsec ci ch symname el1 v Q Hs H; [discriminate|].
    cbn [gnu_walk] in H.
    destruct (N.shiftr ch 1 =? N.shiftr hash 1).
    - destruct (get_symbol junk el symsec (wrap32 (ci + symoffset))) as [[e1 r]|] eqn:Eg; cbn [bind] in H; [|discriminate].
      pose proof (get_symbol_same _ _ _ _ _ Q Eg) as ->.
      destruct r as [w|]; cbn [bind] in H.
      + destruct (bytes_eqb name (if sv_named w then sv_name w else symname)) eqn:Eb.
        * injection H as <- <-. apply bytes_eqb_spec in Eb. split; [reflexivity|].
          destruct (sv_named w) eqn:En; [|congruence]. split; [eexists; exact Eg|congruence].
        * assert (Hs1 : (if sv_named w then sv_name w else symname) <> name).
          { intro E. symmetry in E. apply bytes_eqb_spec in E. congruence. }
          destruct (N.land ch 1 =? 1); [discriminate|]. destruct (chains_num <=? _); [discriminate|].
          destruct (rd_word enc hp _ 4) as [c2|]; cbn [bind] in H; [|discriminate].
          eapply IH; eauto.
      + destruct (N.land ch 1 =? 1); [discriminate|]. destruct (chains_num <=? _); [discriminate|].
        destruct (rd_word enc hp _ 4) as [c2|]; cbn [bind] in H; [|discriminate].
        eapply IH; eauto.
    - cbn [bind] in H. destruct (N.land ch 1 =? 1); [discriminate|]. destruct (chains_num <=? _); [discriminate|].
      destruct (rd_word enc hp _ 4) as [c2|]; cbn [bind] in H; [|discriminate].
      eapply IH; eauto.
  Qed.

  Theorem gnu_hash_lookup_sound el symsec hashsec name el1 v :
    quiet_symtab el symsec -> (forall hs, get_sec el hashsec = Some hs -> quiet hs) -> name <> [] ->
    gnu_hash_lookup junk el symsec hashsec name = Ok (el1, Some v) ->
    el1 = el /\ is_symbol el symsec v /\ sv_name v = name.
  Proof.
    intros Q Qh Hne H. unfold gnu_hash_lookup in H.
    destruct (sec_data junk el hashsec) as [[[e1 hp] hs]|] eqn:Es; cbn [bind] in H; [|discriminate].
    assert (e1 = el) as ->.
    { unfold sec_data in Es. destruct (get_sec el hashsec) as [h0|] eqn:Hg.
      - rewrite (el_sec_get_data_quiet el hashsec h0 Hg (Qh h0 eq_refl)) in Es. cbn [bind] in Es. rewrite Hg in Es. now injection Es as <- _ _.
      - unfold el_sec_get_data in Es. rewrite Hg in Es. discriminate. }
    destruct hp as [hb|]; [|discriminate].
    destruct (sh_size hs <? 16); [discriminate|].
    destruct (rd_word _ _ 0 4) as [nbuckets|]; cbn [bind] in H; [|discriminate].
    destruct (rd_word _ _ 4 4) as [symoffset|]; cbn [bind] in H; [|discriminate].
    destruct (rd_word _ _ 8 4) as [bloom_size|]; cbn [bind] in H; [|discriminate].
    destruct (rd_word _ _ 12 4) as [bloom_shift|]; cbn [bind] in H; [|discriminate].
    destruct (_ || _); [discriminate|].
    destruct (rd_word _ _ _ _) as [bw|]; cbn [bind] in H; [|discriminate].
    destruct (negb _); [discriminate|].
    destruct (rd_word _ _ _ 4) as [bv|]; cbn [bind] in H; [|discriminate].
    destruct (symoffset <=? bv); [|discriminate].
    destruct (_ <=? _); [discriminate|].
    destruct (rd_word _ _ _ 4) as [ch|]; cbn [bind] in H; [|discriminate].
    eapply gnu_walk_sound; eauto.
  Qed.

  (* ---------- the linear scan ---------- *)
  Definition no_match (el : elfio) (symsec : N) (name : bytes) (lo hi : N) : Prop :=
    forall k w, lo <= k < hi -> get_symbol junk el symsec k = Ok (el, Some w) -> sv_name w <> name.

  Lemma scan_names_spec fuel name : forall el symsec i n el1 r,
    quiet_symtab el symsec ->
    scan_names junk fuel el symsec name i n = Ok (el1, r) ->
    el1 = el /\
    match r with
    | Some v => exists j, i <= j < n /\ get_symbol junk el symsec j = Ok (el, Some v) /\ sv_name v = name /\
                          no_match el symsec name i j
    | None => no_match el symsec name i n
    end.
  Proof.
    induction fuel as [|u f IH]; intros el symsec i n el1 r Q H.
    - cbn [scan_names] in H. destruct (N.ltb_spec i n); [discriminate|]. injection H as <- <-. split; [reflexivity|].
      intros k w Hk. lia.
    - cbn [scan_names] in H. destruct (N.ltb_spec i n) as [Hi|Hi].
      + destruct (get_symbol junk el symsec i) as [[e1 r0]|] eqn:Eg; cbn [bind] in H; [|discriminate].
        pose proof (get_symbol_same _ _ _ _ _ Q Eg) as ->.
        assert (Rest : forall el1 r, scan_names junk f el symsec name (i + 1) n = Ok (el1, r) ->
                        (forall w, r0 = Some w -> sv_name w <> name) ->
                        el1 = el /\ match r with
                          | Some v => exists j, i <= j < n /\ get_symbol junk el symsec j = Ok (el, Some v) /\ sv_name v = name /\ no_match el symsec name i j
                          | None => no_match el symsec name i n end).
        { intros e2 r2 H2 Hno. destruct (IH _ _ _ _ _ _ Q H2) as [-> Hr]. split; [reflexivity|].
          assert (Hext : forall hi, no_match el symsec name (i + 1) hi -> no_match el symsec name i hi).
          { intros hi Hm k w Hk Hgk. destruct (N.eq_dec k i) as [->|Hki].
            - rewrite Eg in Hgk. injection Hgk as Hr0. now apply (Hno w Hr0).
            - apply (Hm k w); [lia|exact Hgk]. }
          destruct r2 as [v|].
          - destruct Hr as (j & Hj & Gj & Nj & Mj). exists j. repeat split; try lia; auto.
          - now apply Hext. }
        destruct r0 as [w|].
        * destruct (bytes_eqb (sv_name w) name) eqn:Eb.
          -- injection H as <- <-. apply bytes_eqb_spec in Eb. split; [reflexivity|].
             exists i. repeat split; try lia; auto. intros k w' Hk. lia.
          -- apply Rest; [exact H|]. intros w' [= <-] E. apply bytes_eqb_spec in E. congruence.
        * apply Rest; [exact H|]. intros w' Hw. discriminate.
      + injection H as <- <-. split; [reflexivity|]. intros k w Hk. lia.
  Qed.

  Lemma gnu_walk_same fuel hp enc name : forall el symsec co cn so hsh ci ch sn e rr,
    quiet_symtab el symsec ->
    gnu_walk junk fuel el symsec hp enc name co cn so hsh ci ch sn = Ok (e, rr) -> e = el.
  Proof.
    induction fuel as [|u f IHf]; intros el symsec co cn so hsh ci ch sn e rr Q Hw; [discriminate|].
    cbn [gnu_walk] in Hw.
    destruct (N.shiftr ch 1 =? N.shiftr hsh 1).
    - destruct (get_symbol junk el symsec (wrap32 (ci + so))) as [[e6 r6]|] eqn:Eg; cbn [bind] in Hw; [|discriminate].
      pose proof (get_symbol_same _ _ _ _ _ Q Eg) as ->.
      destruct r6 as [w|]; cbn [bind] in Hw.
      + destruct (bytes_eqb name _); [now injection Hw as <- _|].
        destruct (N.land ch 1 =? 1); [now injection Hw as <- _|]. destruct (cn <=? _); [now injection Hw as <- _|].
        destruct (rd_word enc hp _ 4) as [c2|]; cbn [bind] in Hw; [|discriminate]. eapply IHf; eauto.
      + destruct (N.land ch 1 =? 1); [now injection Hw as <- _|]. destruct (cn <=? _); [now injection Hw as <- _|].
        destruct (rd_word enc hp _ 4) as [c2|]; cbn [bind] in Hw; [|discriminate]. eapply IHf; eauto.
    - cbn [bind] in Hw. destruct (N.land ch 1 =? 1); [now injection Hw as <- _|]. destruct (cn <=? _); [now injection Hw as <- _|].
      destruct (rd_word enc hp _ 4) as [c2|]; cbn [bind] in Hw; [|discriminate]. eapply IHf; eauto.
  Qed.

  (* ---------- get_symbol( name, ... ) ---------- *)
  Theorem get_symbol_by_name_spec el symsec s name el1 r :
    get_sec el symsec = Some s -> quiet_symtab el symsec ->
    (forall hi hs h, find_hash (el_secs el) 0 (s_index s) = Some (hi, hs) -> get_sec el hi = Some h -> quiet h) ->
    name <> [] ->
    get_symbol_by_name junk el symsec name = Ok (el1, r) ->
    el1 = el /\
    match r with
    | Some v => is_symbol el symsec v /\ sv_name v = name
    | None => no_match el symsec name 0 (get_symbols_num el s)
    end.
  Proof.
    intros Hg Q Qh Hne H. unfold get_symbol_by_name in H. rewrite Hg in H.
    set (step := match find_hash (el_secs el) 0 (s_index s) with Some _ => _ | None => _ end) in H.
    assert (St : forall e1 r1, step = Ok (e1, r1) -> e1 = el /\ (forall v, r1 = Some v -> is_symbol el symsec v /\ sv_name v = name)).
    { subst step. intros e1 r1 Hs. destruct (find_hash (el_secs el) 0 (s_index s)) as [[hi hs]|] eqn:Ef.
      - specialize (Qh hi hs).
        destruct (hi =? 0); [injection Hs as <- <-; split; [reflexivity|discriminate]|].
        destruct (if sh_type hs =? SHT_HASH then hash_lookup junk el symsec hi name else Ok (el, None)) as [[e2 r2]|] eqn:E1;
          cbn [bind] in Hs; [|discriminate].
        assert (S1 : e2 = el /\ (forall v, r2 = Some v -> is_symbol el symsec v /\ sv_name v = name)).
        { destruct (sh_type hs =? SHT_HASH).
          - destruct r2 as [v|].
            + destruct (hash_lookup_sound el symsec hi name e2 v Q (fun h Hh => Qh h eq_refl Hh) Hne E1) as (-> & A & B).
              split; [reflexivity|]. intros v' [= <-]. auto.
            + unfold hash_lookup in E1.
              (* a miss: only the object identity is needed *)
              destruct (sec_data junk el hi) as [[[e3 hp] hs3]|] eqn:Es; cbn [bind] in E1; [|discriminate].
              assert (e3 = el) as ->.
              { unfold sec_data in Es. destruct (get_sec el hi) as [h0|] eqn:Hgh.
                - rewrite (el_sec_get_data_quiet el hi h0 Hgh (Qh h0 eq_refl eq_refl)) in Es. cbn [bind] in Es. rewrite Hgh in Es. now injection Es as <- _ _.
                - unfold el_sec_get_data in Es. rewrite Hgh in Es. discriminate. }
              destruct hp as [hb|]; [|injection E1 as <-; split; [reflexivity|discriminate]].
              destruct (sh_size hs3 <? 8); [injection E1 as <-; split; [reflexivity|discriminate]|].
              destruct (rd_word _ _ 0 4) as [nbucket|]; cbn [bind] in E1; [|discriminate].
              destruct (rd_word _ _ 4 4) as [nchain|]; cbn [bind] in E1; [|discriminate].
              destruct (_ || _); [injection E1 as <-; split; [reflexivity|discriminate]|].
              destruct (rd_word _ _ _ 4) as [y|]; cbn [bind] in E1; [|discriminate].
              destruct (walk_get junk el symsec y empty_view) as [[[e4 cur] fl]|] eqn:Ew; cbn [bind] in E1; [|discriminate].
              destruct (walk_get_step _ _ name _ _ _ _ _ Q Ew (or_intror (conj eq_refl Hne))) as [-> C1].
              destruct (sysv_walk junk _ el symsec _ _ name nbucket nchain y 0 cur) as [[e5 cur1]|] eqn:Es2; cbn [bind] in E1; [|discriminate].
              destruct (sysv_walk_sound _ _ _ _ _ _ _ _ _ _ _ _ _ Q C1 Es2) as [-> C2].
              injection E1 as <- _. split; [reflexivity|discriminate].
          - injection E1 as <- <-. split; [reflexivity|discriminate]. }
        destruct S1 as [-> S1].
        destruct ((sh_type hs =? SHT_GNU_HASH) || (sh_type hs =? DT_GNU_HASH_c)).
        + destruct r1 as [v|].
          * destruct (gnu_hash_lookup_sound el symsec hi name e1 v Q (fun h Hh => Qh h eq_refl Hh) Hne Hs) as (-> & A & B).
            split; [reflexivity|]. intros v' [= <-]. auto.
          * (* a miss of the GNU look-up: object identity *)
            unfold gnu_hash_lookup in Hs.
            destruct (sec_data junk el hi) as [[[e3 hp] hs3]|] eqn:Es; cbn [bind] in Hs; [|discriminate].
            assert (e3 = el) as ->.
            { unfold sec_data in Es. destruct (get_sec el hi) as [h0|] eqn:Hgh.
              - rewrite (el_sec_get_data_quiet el hi h0 Hgh (Qh h0 eq_refl eq_refl)) in Es. cbn [bind] in Es. rewrite Hgh in Es. now injection Es as <- _ _.
              - unfold el_sec_get_data in Es. rewrite Hgh in Es. discriminate. }
            destruct hp as [hb|]; [|injection Hs as <-; split; [reflexivity|discriminate]].
            destruct (sh_size hs3 <? 16); [injection Hs as <-; split; [reflexivity|discriminate]|].
            destruct (rd_word _ _ 0 4) as [nbuckets|]; cbn [bind] in Hs; [|discriminate].
            destruct (rd_word _ _ 4 4) as [symoffset|]; cbn [bind] in Hs; [|discriminate].
            destruct (rd_word _ _ 8 4) as [bloom_size|]; cbn [bind] in Hs; [|discriminate].
            destruct (rd_word _ _ 12 4) as [bloom_shift|]; cbn [bind] in Hs; [|discriminate].
            destruct (_ || _); [injection Hs as <-; split; [reflexivity|discriminate]|].
            destruct (rd_word _ _ _ _) as [bw|]; cbn [bind] in Hs; [|discriminate].
            destruct (negb _); [injection Hs as <-; split; [reflexivity|discriminate]|].
            destruct (rd_word _ _ _ 4) as [bv|]; cbn [bind] in Hs; [|discriminate].
            destruct (symoffset <=? bv); [|injection Hs as <-; split; [reflexivity|discriminate]].
            destruct (_ <=? _); [injection Hs as <-; split; [reflexivity|discriminate]|].
            destruct (rd_word _ _ _ 4) as [ch|]; cbn [bind] in Hs; [|discriminate].
            apply gnu_walk_same in Hs; [|exact Q]. subst e1. split; [reflexivity|discriminate].
        + injection Hs as <- <-. split; [reflexivity|exact S1].
      - injection Hs as <- <-. split; [reflexivity|discriminate]. }
    destruct step as [[e1 r1]|] eqn:Est; cbn [bind] in H; [|discriminate].
    destruct (St e1 r1 eq_refl) as [-> S1].
    destruct r1 as [v|].
    - injection H as <- <-. split; [reflexivity|]. now apply S1.
    - rewrite Hg in H. destruct (scan_names_spec _ _ _ _ _ _ _ _ Q H) as [-> Hr]. split; [reflexivity|].
      destruct r as [v|]; [|exact Hr].
      destruct Hr as (j & _ & Gj & Nj & _). split; [exists j; exact Gj|exact Nj].
  Qed.

  (* with unique names the answer is THE symbol of that name, found or not exactly as by a linear scan *)
  Corollary get_symbol_by_name_unique el symsec s name el1 r :
    get_sec el symsec = Some s -> quiet_symtab el symsec ->
    (forall hi hs h, find_hash (el_secs el) 0 (s_index s) = Some (hi, hs) -> get_sec el hi = Some h -> quiet h) ->
    name <> [] ->
    (forall v w, is_symbol el symsec v -> is_symbol el symsec w -> sv_name v = sv_name w -> v = w) ->
    get_symbol_by_name junk el symsec name = Ok (el1, r) ->
    forall k w, k < get_symbols_num el s -> get_symbol junk el symsec k = Ok (el, Some w) -> sv_name w = name -> r = Some w.
  Proof.
    intros Hg Q Qh Hne Hu H k w Hk Gk Nk.
    destruct (get_symbol_by_name_spec el symsec s name el1 r Hg Q Qh Hne H) as [_ Hr].
    destruct r as [v|].
    - destruct Hr as [Iv Nv]. f_equal. apply Hu; [exact Iv|exists k; exact Gk|congruence].
    - exfalso. apply (Hr k w); [lia|exact Gk|exact Nk].
  Qed.
End ByName.
