(* Data_proofs.v — C15/C17: what a data request delivers is a function of the
   file bytes at the (translated) range alone: independent of when it is asked,
   of the stream position, of a release in between, of the rest of the file. *)
From ElfioV Require Import Bytes Mem Stream SectionData Strings Elfio Table Loader Load_proofs.
From Coq Require Import ZifyBool ZifyN ZifyNat.
Local Open Scope N_scope.

Lemma lenN_sliceN_in {A} (l : list A) off n : off + n <= lenN l -> lenN (sliceN l off n) = n.
Proof. intros H. unfold sliceN. rewrite lenN_firstnN, lenN_skipnN. lia. Qed.

Lemma to_of_signed (v : N) : v < 2 ^ 63 -> Z.to_N (to_signed64 v) = v /\ (0 <= to_signed64 v)%Z.
Proof.
  intros H. unfold to_signed64. rewrite N.mod_small by lia.
  destruct (N.ltb_spec v (2 ^ 63)); [|lia]. split; lia.
Qed.

(* a stream that has not failed delivers the file's bytes at any in-range request *)
Lemma seek_read st off n :
  is_fail st = false -> is_len st = lenN (is_content st) -> off < 2 ^ 63 -> off + n <= lenN (is_content st) ->
  snd (read (seekg st (to_signed64 off)) n) = sliceN (is_content st) off n /\
  is_fail (fst (read (seekg st (to_signed64 off)) n)) = false.
Proof.
  intros Hf Hl Ho Hin. destruct (to_of_signed off Ho) as [T1 T2].
  assert (S : seekg st (to_signed64 off) = mkIstream (is_kind st) (is_content st) (is_len st) false off).
  { unfold seekg. rewrite Hf. destruct (Z.ltb_spec (to_signed64 off) 0); [lia|]. rewrite T1.
    destruct (is_kind st); [|reflexivity]. destruct (N.ltb_spec (is_len st) off); [lia|reflexivity]. }
  rewrite S. unfold read. cbn [is_fail is_content is_pos].
  rewrite (lenN_sliceN_in _ off n Hin). rewrite N.ltb_irrefl. cbn. auto.
Qed.

Section WithEnv.
  Variable junk : N -> N.

  (* a section whose bytes are really in the file *)
  Definition sec_loadable (t : xlat) (content : bytes) (s : section) : Prop :=
    s_data s = None /\ sh_type s <> SHT_NULL /\ sh_type s <> SHT_NOBITS /\ 0 < sh_size s /\
    sec_file_off t s + sh_size s <= lenN content /\ lenN content < 2 ^ 63 /\ lenN content <= s_stream_size s.

  (* the request succeeds and yields exactly the file bytes, NUL-terminated *)
  Theorem sec_load_data_complete st t s :
    is_fail st = false -> st_inv st -> sec_loadable t (is_content st) s ->
    exists st1 s1,
      sec_load_data junk (Some st) t s = Ok (Some st1, s1, true, [sh_size s + 1]) /\
      s_data s1 = Some (sliceN (is_content st) (sec_file_off t s) (sh_size s) ++ [0]) /\
      is_fail st1 = false /\ is_content st1 = is_content st /\ st_inv st1 /\ hdr_same s s1 /\ s_loaded s1 = true /\
      s_lazy s1 = s_lazy s /\ s_can_load s1 = s_can_load s.
  Proof.
    intros Hf Hi (Hd & Hn1 & Hn2 & Hsz & Hin & H63 & Hss). unfold sec_load_data. fold (sec_file_off t s).
    set (off := sec_file_off t s) in *. set (size := sh_size s) in *. set (ss := s_stream_size s) in *.
    destruct (N.ltb_spec ss off); [lia|]. destruct (N.ltb_spec ss size); [lia|]. cbn [orb].
    destruct (N.ltb_spec (ss - off) size); [lia|]. rewrite Hd.
    apply N.eqb_neq in Hn1, Hn2. rewrite Hn1, Hn2. cbn [orb].
    destruct (N.ltb_spec (SIZE_MAX - 1) size); [unfold SIZE_MAX in *; lia|].
    destruct (N.eqb_spec size 0); [lia|].
    destruct (seek_read st off size Hf Hi ltac:(lia) Hin) as [R1 R2].
    destruct (read (seekg st (to_signed64 off)) size) as [st2 got] eqn:ER. cbn [fst snd] in R1, R2. subst got.
    rewrite (lenN_sliceN_in _ off size Hin), N.eqb_refl.
    pose proof (read_content (seekg st (to_signed64 off)) size) as (C1 & C2 & C3). rewrite ER in C1, C2, C3. cbn [fst] in *.
    pose proof (seekg_content st (to_signed64 off)) as (D1 & D2 & D3).
    eexists st2, _. split; [reflexivity|]. split; [reflexivity|]. split; [exact R2|]. split; [congruence|].
    split; [unfold st_inv in *; congruence|]. split; [unfold hdr_same; cbn; repeat split|]. repeat split.
  Qed.

  (* C15: the data a lazily loaded section yields on request equals what an
     eager load stored, whatever happened to the stream position in between *)
  Corollary lazy_equals_eager st_eager st_lazy t s :
    is_fail st_eager = false -> st_inv st_eager -> is_fail st_lazy = false -> st_inv st_lazy ->
    is_content st_lazy = is_content st_eager ->
    sec_loadable t (is_content st_eager) s ->
    exists a sa b sb,
      sec_load_data junk (Some st_eager) t s = Ok (Some a, sa, true, [sh_size s + 1]) /\
      sec_load_data junk (Some st_lazy) t s = Ok (Some b, sb, true, [sh_size s + 1]) /\
      s_data sa = s_data sb.
  Proof.
    intros F1 I1 F2 I2 Hc Hl.
    destruct (sec_load_data_complete st_eager t s F1 I1 Hl) as (a & sa & E1 & D1 & _).
    assert (Hl2 : sec_loadable t (is_content st_lazy) s) by (rewrite Hc; exact Hl).
    destruct (sec_load_data_complete st_lazy t s F2 I2 Hl2) as (b & sb & E2 & D2 & _).
    exists a, sa, b, sb. split; [exact E1|]. split; [exact E2|]. rewrite D1, D2, Hc. reflexivity.
  Qed.

  (* C15: releasing the data of a lazily loaded section and asking again gives the same bytes *)
  Theorem free_then_get st t s s1 st1 :
    is_fail st = false -> st_inv st -> sec_loadable t (is_content st) s -> s_lazy s = true -> s_can_load s = true ->
    sec_load_data junk (Some st) t s = Ok (Some st1, s1, true, [sh_size s + 1]) ->
    exists st2 s2 al,
      sec_get_data junk (Some st1) t (free_data s1) = Ok (Some st2, s2, al) /\ s_data s2 = s_data s1.
  Proof.
    intros Hf Hi Hl Hz Hcl E.
    destruct (sec_load_data_complete st t s Hf Hi Hl) as (st1' & s1' & E' & D1 & F1 & C1 & I1 & HS & Ld & Z1 & Z2).
    rewrite E in E'. injection E' as <- <-.
    assert (Hz1 : s_lazy s1 = true) by congruence. assert (Hcl1 : s_can_load s1 = true) by congruence.
    assert (Ef : free_data s1 = with_load_flags (with_data s1 None (s_data_size s1)) true false true).
    { unfold free_data. rewrite Hz1, Hcl1. reflexivity. }
    rewrite Ef. set (sf := with_load_flags (with_data s1 None (s_data_size s1)) true false true).
    assert (Hlf : sec_loadable t (is_content st1) sf).
    { destruct Hl as (Hd & Hn1 & Hn2 & Hsz & Hin & H63 & Hss). destruct HS as (_ & HT & _ & _ & HO & HZ & _ & _ & _ & _ & HSS & _).
      unfold sec_loadable, sec_file_off in *. cbn. rewrite HT, HO, HZ, HSS, C1. repeat split; auto. }
    destruct (sec_load_data_complete st1 t sf F1 I1 Hlf) as (st2 & s2 & E2 & D2 & _).
    unfold sec_get_data. change (negb (s_loaded sf) && s_can_load sf) with true. cbv iota.
    rewrite E2. cbn [bind]. eexists _, _, _. split; [reflexivity|]. rewrite D2, D1.
    destruct HS as (_ & HT & _ & _ & HO & HZ & _). unfold sec_file_off. cbn. rewrite HO, HZ, C1. reflexivity.
  Qed.

  (* C15: address translation.  A container holds the image's pieces at
     displaced positions; if the translated range of the container holds the
     bytes the plain image holds at the section's range, both loads store the same data. *)
  Theorem translated_equals_plain st_plain st_cont t s :
    is_fail st_plain = false -> st_inv st_plain -> is_fail st_cont = false -> st_inv st_cont ->
    sec_loadable [] (is_content st_plain) s -> sec_loadable t (is_content st_cont) s ->
    sliceN (is_content st_cont) (sec_file_off t s) (sh_size s) = sliceN (is_content st_plain) (sec_file_off [] s) (sh_size s) ->
    exists a sa b sb al bl,
      sec_load_data junk (Some st_plain) [] s = Ok (Some a, sa, true, al) /\
      sec_load_data junk (Some st_cont) t s = Ok (Some b, sb, true, bl) /\
      s_data sa = s_data sb.
  Proof.
    intros F1 I1 F2 I2 L1 L2 Hs.
    destruct (sec_load_data_complete st_plain [] s F1 I1 L1) as (a & sa & E1 & D1 & _).
    destruct (sec_load_data_complete st_cont t s F2 I2 L2) as (b & sb & E2 & D2 & _).
    eexists a, sa, b, sb, _, _. split; [exact E1|]. split; [exact E2|]. rewrite D1, D2, Hs. reflexivity.
  Qed.

  (* C17: a prefix of the file.  If the section's range lies inside the prefix,
     loading from the prefix and from the whole file store the same data ... *)
  Lemma sliceN_prefix {A} (l : list A) k off n : off + n <= k -> sliceN (firstnN l k) off n = sliceN l off n.
  Proof.
    intros H. unfold sliceN. rewrite !firstnN_firstn, !skipnN_skipn. rewrite skipn_firstn_comm, firstn_firstn.
    f_equal. lia.
  Qed.

  Theorem prefix_same_data kind (full : bytes) (k : N) t s :
    k <= lenN full -> lenN full < 2 ^ 63 ->
    let pre := firstnN full k in
    forall sp sf, hdr_same s sp -> hdr_same s sf -> s_data sp = None -> s_data sf = None ->
      s_stream_size sp = lenN pre -> s_stream_size sf = lenN full ->
      sh_type s <> SHT_NULL -> sh_type s <> SHT_NOBITS -> 0 < sh_size s ->
      forall st1 s1 ok al,
        sec_load_data junk (Some (open_istream kind pre)) t sp = Ok (st1, s1, ok, al) ->
        forall d, s_data s1 = Some d ->
        exists st2 s2, sec_load_data junk (Some (open_istream kind full)) t sf = Ok (Some st2, s2, true, [sh_size sf + 1]) /\
                       s_data s2 = Some d.
  Proof.
    intros Hk H63 pre sp sf HSp HSf Dp Df SSp SSf Hn1 Hn2 Hsz st1 s1 ok al E d Hd.
    assert (Lp : lenN pre = k) by (unfold pre; rewrite lenN_firstnN; lia).
    destruct HSp as (_ & TP & _ & _ & OP & ZP & _). destruct HSf as (_ & TF & _ & _ & OF & ZF & _).
    assert (Fp : fits sp) by (unfold fits; rewrite Dp; exact I).
    destruct (sec_load_data_total junk (open_istream kind pre) t sp Fp) as (st1' & s1' & ok' & al' & E' & _ & _ & _ & _ & _ & _ & _ & Hfrom).
    rewrite E in E'. injection E' as -> -> -> ->.
    destruct (Hfrom Dp d Hd ltac:(lia)) as [Hdd Hrange]. cbn [is_content open_istream] in Hdd.
    assert (Offs : sec_file_off t sp = sec_file_off t sf) by (unfold sec_file_off; congruence).
    assert (Lf : sec_loadable t (is_content (open_istream kind full)) sf).
    { unfold sec_loadable. cbn [is_content open_istream]. rewrite Df, TF, ZF, SSf, <- Offs. rewrite SSp, ZP in Hrange.
      repeat split; auto; lia. }
    destruct (sec_load_data_complete (open_istream kind full) t sf eq_refl eq_refl Lf) as (st2 & s2 & E2 & D2 & _).
    exists st2, s2. split; [exact E2|]. rewrite D2, Hdd. cbn [is_content open_istream].
    rewrite <- Offs, ZF, ZP. f_equal. f_equal. symmetry. apply sliceN_prefix. rewrite SSp, ZP, Lp in Hrange. exact Hrange.
  Qed.
End WithEnv.
