(* Properties_C01.v — C01: loading and inspecting arbitrary bytes is memory-safe
   and terminates; no data buffer requested by a load exceeds the input (+1). *)
From ElfioV Require Import Bytes Mem Stream SectionData Strings Elfio Table Accessors Loader Load_proofs Safety_proofs Modinfo_proofs.
Local Open Scope N_scope.

(* load() on ANY byte string, eager or lazy, from a string or a file stream,
   into any object (fresh or previously used), with any contents of
   uninitialised memory: returns (no Fault: no out-of-bounds access, null
   dereference, division by zero, or non-termination in the model), leaves an
   object every resident buffer of which covers its section/segment, and — when
   no address translation is installed — never requests a buffer larger than
   the input plus the terminator byte. *)
Theorem C01_load_total_and_bounded :
  forall (junk : N -> N) (el : elfio) (k : skind) (content : bytes) (lazy : bool),
    exists el' ok allocs,
      load junk el k content lazy = Ok (el', ok, allocs) /\
      loaded_ok content k el' /\
      (xlat_empty (el_xlat el) = true -> Forall (fun n => n <= lenN content + 1) allocs).
Proof. exact load_total. Qed.
Print Assumptions C01_load_total_and_bounded.

(* section data requested later (lazy objects) obey the same bound and keep the invariant *)
Theorem C01_section_data_request :
  forall junk content k el i s0,
    loaded_ok content k el -> get_sec el i = Some s0 ->
    exists el1 s1,
      sec_data junk el i = Ok (el1, s_data s1, s1) /\
      loaded_ok content k el1 /\ same_shape el el1 /\ get_sec el1 i = Some s1 /\
      buf_ok s1 (s_data s1) /\ hdr_same s0 s1.
Proof. exact sec_data_total. Qed.
Print Assumptions C01_section_data_request.

Theorem C01_segment_data_request :
  forall (junk : N -> N) content k el j g0,
    loaded_ok content k el -> get_seg el j = Some g0 ->
    exists el1 g1, el_seg_get_data el j = Ok (el1, g_data g1) /\ loaded_ok content k el1 /\ same_shape el el1 /\
      get_seg el1 j = Some g1 /\ gfits g1 /\ p_filesz g1 = p_filesz g0.
Proof. exact el_seg_get_data_total. Qed.
Print Assumptions C01_segment_data_request.

(* the readers named by the property, on any loaded object and any index *)
Theorem C01_string_reader :
  forall junk content k el strsec idx,
    loaded_ok content k el ->
    exists el1 r, lookup_str junk el strsec idx = Ok (el1, r) /\ loaded_ok content k el1 /\ same_shape el el1.
Proof. exact lookup_str_total. Qed.
Print Assumptions C01_string_reader.

Theorem C01_symbol_by_index :
  forall junk content k el symsec index s0,
    loaded_ok content k el -> get_sec el symsec = Some s0 ->
    exists el1 r, get_symbol junk el symsec index = Ok (el1, r) /\ loaded_ok content k el1 /\ same_shape el el1.
Proof. exact get_symbol_total. Qed.
Print Assumptions C01_symbol_by_index.

Theorem C01_dynamic_reader :
  forall junk content k el a index,
    loaded_ok content k el ->
    (forall s, get_sec el (da_sec a) = Some s -> da_num a <= sh_size s / sh_entsize s) ->
    (exists s, get_sec el (da_sec a) = Some s) ->
    exists el1 a1 r, dyn_get_entry junk el a index = Ok (el1, a1, r) /\ loaded_ok content k el1 /\ same_shape el el1.
Proof. exact dyn_get_entry_total. Qed.
Print Assumptions C01_dynamic_reader.

(* notes: sections/segments below 1 GiB (the walker advances by a 32-bit sum) *)
Theorem C01_note_walker :
  forall junk content k el t,
    loaded_ok content k el -> lenN content < 2 ^ 30 ->
    match t with NoteSec i => exists s, get_sec el i = Some s /\ sh_size s < 2 ^ 30
               | NoteSeg j => exists g, get_seg el j = Some g /\ p_filesz g < 2 ^ 30 end ->
    exists el1 a, note_new junk el t = Ok (el1, a) /\ loaded_ok content k el1 /\ same_shape el el1 /\
                  na_target a = t /\ note_starts_ok el1 a.
Proof. exact note_new_total. Qed.
Print Assumptions C01_note_walker.

Theorem C01_note_reader :
  forall junk content k el a index,
    loaded_ok content k el ->
    (match na_target a with
     | NoteSec i => exists s b, get_sec el i = Some s /\ s_loaded s = true /\ s_data s = Some b /\ sh_size s < 2 ^ 30 /\
                                Forall (note_pos_ok (el_enc el) b (sh_size s)) (na_starts a)
     | NoteSeg j => exists g b, get_seg el j = Some g /\ g_loaded g = true /\ g_data g = Some b /\ p_filesz g < 2 ^ 30 /\
                                Forall (note_pos_ok (el_enc el) b (p_filesz g)) (na_starts a)
     end) ->
    exists el1 r, note_get junk el a index = Ok (el1, r).
Proof. exact note_get_total. Qed.
Print Assumptions C01_note_reader.

(* module information: the reader relies on the NUL the loader writes after the
   section's bytes (C01_loaded_data_is_terminated); with it, it returns for any contents *)
Theorem C01_modinfo_reader :
  forall junk content k el sec s0,
    loaded_ok content k el -> get_sec el sec = Some s0 ->
    (forall el1 s1 b, sec_data junk el sec = Ok (el1, Some b, s1) -> 0 < sh_size s1 -> terminated b (sh_size s1)) ->
    exists el1 a, mod_new junk el sec = Ok (el1, a).
Proof. exact mod_new_total. Qed.
Print Assumptions C01_modinfo_reader.

Theorem C01_loaded_data_is_terminated :
  forall junk st0 t s st1 s1 ok al d,
    fits s -> s_data s = None -> 0 < sh_size s ->
    sec_load_data junk (Some st0) t s = Ok (st1, s1, ok, al) -> s_data s1 = Some d ->
    terminated d (sh_size s1).
Proof. exact loaded_data_terminated. Qed.
Print Assumptions C01_loaded_data_is_terminated.

(* non-vacuity: a 64-byte header-only image loads; 3 bytes of garbage are refused; both obey the bound *)
Definition ex_img : bytes :=
  [127; 69; 76; 70; 1; 1; 1; 0; 0; 0; 0; 0; 0; 0; 0; 0;  1; 0; 3; 0; 1; 0; 0; 0; 0; 0; 0; 0; 0; 0; 0; 0;
   0; 0; 0; 0; 0; 0; 0; 0; 52; 0; 0; 0; 0; 0; 0; 0; 0; 0; 0; 0].
Example C01_example :
  (exists el' al, load (fun _ => 170) (empty_elfio false) StringBuf ex_img false = Ok (el', true, al)) /\
  (exists el' al, load (fun _ => 170) (empty_elfio false) StringBuf [1; 2; 3] true = Ok (el', false, al)).
Proof. split; vm_compute; eauto. Qed.
