(* Versions_proofs.v — C14: version-requirement (.gnu.version_r) and version-definition (.gnu.version_d)
   sections holding the gABI/LSB encoding of a list of records are reported record by record as encoded.
   The encodings below follow the layouts tied to /repo's elf_types.hpp by Tie_abi (tie_verneed, tie_vernaux,
   tie_verdef, tie_verdaux): the literal offsets the model reads at are the generated ones. *)
From ElfioV Require Import Bytes Mem Stream SectionData SectionData_proofs Strings Elfio Table Accessors Notes_proofs.
From Coq Require Import ZifyBool ZifyN ZifyNat.
Local Open Scope N_scope.

(* ---- reading field k of a fixed-layout record that sits anywhere in a buffer ---- *)
Fixpoint fields_before (ws : list nat) (k : nat) : N :=
  match k, ws with
  | S k', w :: ws' => N.of_nat w + fields_before ws' k'
  | _, _ => 0
  end.

Lemma rd_word_field e : forall (ws : list nat) (vs : list N) (k : nat) (pre post : bytes) w v,
  nth_error ws k = Some w -> nth_error vs k = Some v -> length vs = length ws -> v < 256 ^ N.of_nat w ->
  rd_word e (Some (pre ++ enc_fields e ws vs ++ post)) (lenN pre + fields_before ws k) w = Ok v.
Proof.
  induction ws as [|w0 ws IH]; intros vs k pre post w v Hw Hv Hl Hlt; [destruct k; discriminate|].
  destruct vs as [|v0 vs]; [discriminate|]. cbn [enc_fields].
  destruct k as [|k].
  - cbn in Hw, Hv. injection Hw as <-. injection Hv as <-. cbn [fields_before]. rewrite N.add_0_r.
    unfold rd_word. rewrite <- app_assoc.
    rewrite <- (lenN_enc_uint e w0 v0) at 1. rewrite rd_mid. cbn [bind]. f_equal. now apply dec_enc_uint_small.
  - cbn in Hw, Hv. cbn [fields_before].
    replace (pre ++ (enc_uint e w0 v0 ++ enc_fields e ws vs) ++ post)
      with ((pre ++ enc_uint e w0 v0) ++ enc_fields e ws vs ++ post) by (now rewrite <- !app_assoc).
    replace (lenN pre + (N.of_nat w0 + fields_before ws k)) with (lenN (pre ++ enc_uint e w0 v0) + fields_before ws k)
      by (rewrite lenN_app, lenN_enc_uint; lia).
    apply IH; auto; cbn in Hl; lia.
Qed.

(* ================= version requirements ================= *)
Record vaux := mkVaux { va_hash : N; va_flags : N; va_other : N; va_name : N }.
Record vneed := mkVneed { vq_version : N; vq_file : N; vq_first : vaux; vq_more : list vaux }.

Definition vernaux_layout : list nat := [4; 2; 2; 4; 4]%nat.      (* vna_hash vna_flags vna_other vna_name vna_next *)
Definition verneed_layout : list nat := [2; 2; 4; 4; 4]%nat.      (* vn_version vn_cnt vn_file vn_aux vn_next *)

Definition enc_vaux (e : endian) (last : bool) (a : vaux) : bytes :=
  enc_fields e vernaux_layout [va_hash a; va_flags a; va_other a; va_name a; if last then 0 else 16].
Fixpoint enc_vauxs (e : endian) (a : vaux) (more : list vaux) : bytes :=
  match more with
  | [] => enc_vaux e true a
  | b :: t => enc_vaux e false a ++ enc_vauxs e b t
  end.
Definition vneed_size (r : vneed) : N := 16 + 16 * (1 + lenN (vq_more r)).
Definition enc_vneed (e : endian) (last : bool) (r : vneed) : bytes :=
  enc_fields e verneed_layout [vq_version r; 1 + lenN (vq_more r); vq_file r; 16; if last then 0 else vneed_size r]
  ++ enc_vauxs e (vq_first r) (vq_more r).
Fixpoint enc_vneeds (e : endian) (l : list vneed) : bytes :=
  match l with
  | [] => []
  | [r] => enc_vneed e true r
  | r :: t => enc_vneed e false r ++ enc_vneeds e t
  end.

Definition vaux_wf (a : vaux) : Prop := va_hash a < 2 ^ 32 /\ va_flags a < 2 ^ 16 /\ va_other a < 2 ^ 16 /\ va_name a < 2 ^ 32.
Definition vneed_wf (r : vneed) : Prop :=
  vq_version r < 2 ^ 16 /\ vq_file r < 2 ^ 32 /\ vaux_wf (vq_first r) /\ lenN (vq_more r) < 2 ^ 16 - 1.

Lemma lenN_enc_vaux e l a : lenN (enc_vaux e l a) = 16.
Proof. unfold enc_vaux. now rewrite lenN_enc_fields. Qed.
Lemma lenN_enc_vauxs e : forall more a, lenN (enc_vauxs e a more) = 16 * (1 + lenN more).
Proof.
  induction more as [|b t IH]; intro a; cbn [enc_vauxs]; [rewrite lenN_enc_vaux; cbn [lenN]; lia|].
  rewrite lenN_app, lenN_enc_vaux, IH, lenN_cons. lia.
Qed.
Lemma lenN_enc_vneed e l r : lenN (enc_vneed e l r) = vneed_size r.
Proof. unfold enc_vneed, vneed_size. rewrite lenN_app, lenN_enc_fields by reflexivity. rewrite lenN_enc_vauxs. reflexivity. Qed.

Definition vneeds_size (l : list vneed) : N := fold_right (fun r acc => vneed_size r + acc) 0 l.
Lemma lenN_enc_vneeds e : forall l, lenN (enc_vneeds e l) = vneeds_size l.
Proof.
  induction l as [|r t IH]; [reflexivity|]. destruct t as [|r2 t].
  - cbn [enc_vneeds vneeds_size fold_right]. rewrite lenN_enc_vneed. lia.
  - change (enc_vneeds e (r :: r2 :: t)) with (enc_vneed e false r ++ enc_vneeds e (r2 :: t)).
    rewrite lenN_app, lenN_enc_vneed, IH. reflexivity.
Qed.
Lemma vneed_size_ge r : 32 <= vneed_size r.
Proof. unfold vneed_size. lia. Qed.

(* the raw fields the accessor reports for a record: those of the record and of its first auxiliary entry *)
Definition vneed_raw (r : vneed) : verneed_raw :=
  mkVNraw (vq_version r) (vq_file r) (va_hash (vq_first r)) (va_flags (vq_first r)) (va_other (vq_first r)) (va_name (vq_first r)).

(* reads inside one record placed anywhere *)
Lemma enc_vauxs_first e a more : exists rest l, enc_vauxs e a more = enc_vaux e l a ++ rest.
Proof. destruct more as [|b t]; [exists [], true; now rewrite app_nil_r | exists (enc_vauxs e b t), false; reflexivity]. Qed.

Lemma vneed_reads e (pre post : bytes) last r :
  vneed_wf r ->
  let b := pre ++ enc_vneed e last r ++ post in
  let off := lenN pre in
  rd_word e (Some b) off 2 = Ok (vq_version r) /\
  rd_word e (Some b) (off + 4) 4 = Ok (vq_file r) /\
  rd_word e (Some b) (off + 8) 4 = Ok 16 /\
  rd_word e (Some b) (off + 12) 4 = Ok (if last then 0 else vneed_size r) /\
  rd_word e (Some b) (off + 16) 4 = Ok (va_hash (vq_first r)) /\
  rd_word e (Some b) (off + 16 + 4) 2 = Ok (va_flags (vq_first r)) /\
  rd_word e (Some b) (off + 16 + 6) 2 = Ok (va_other (vq_first r)) /\
  rd_word e (Some b) (off + 16 + 8) 4 = Ok (va_name (vq_first r)).
Proof.
  intros (Hv & Hf & (Hh & Hfl & Ho & Hn) & Hm) b off.
  assert (Hsz : vneed_size r < 2 ^ 32) by (unfold vneed_size; change (2 ^ 16) with 65536 in Hm; change (2 ^ 32) with 4294967296; lia).
  set (hd := [vq_version r; 1 + lenN (vq_more r); vq_file r; 16; if last then 0 else vneed_size r]).
  assert (B1 : b = pre ++ enc_fields e verneed_layout hd ++ (enc_vauxs e (vq_first r) (vq_more r) ++ post)).
  { unfold b, enc_vneed. now rewrite <- !app_assoc. }
  destruct (enc_vauxs_first e (vq_first r) (vq_more r)) as (rest & l & Ea).
  set (ax := [va_hash (vq_first r); va_flags (vq_first r); va_other (vq_first r); va_name (vq_first r); if l then 0 else 16]).
  assert (B2 : b = (pre ++ enc_fields e verneed_layout hd) ++ enc_fields e vernaux_layout ax ++ (rest ++ post)).
  { rewrite B1, Ea. unfold enc_vaux. now rewrite <- !app_assoc. }
  assert (L2 : lenN (pre ++ enc_fields e verneed_layout hd) = off + 16).
  { rewrite lenN_app, lenN_enc_fields by reflexivity. reflexivity. }
  repeat split.
  - rewrite B1. replace off with (off + fields_before verneed_layout 0) by (cbn; lia).
    apply rd_word_field with (k := 0%nat); try reflexivity. exact Hv.
  - rewrite B1. change (off + 4) with (off + fields_before verneed_layout 2).
    apply rd_word_field with (k := 2%nat); try reflexivity. exact Hf.
  - rewrite B1. change (off + 8) with (off + fields_before verneed_layout 3).
    apply rd_word_field with (k := 3%nat); try reflexivity.
  - rewrite B1. change (off + 12) with (off + fields_before verneed_layout 4).
    apply rd_word_field with (k := 4%nat); try reflexivity. destruct last; [cbn; lia|exact Hsz].
  - rewrite B2, <- L2. replace (lenN (pre ++ enc_fields e verneed_layout hd)) with (lenN (pre ++ enc_fields e verneed_layout hd) + fields_before vernaux_layout 0) by (cbn; lia).
    apply rd_word_field with (k := 0%nat); try reflexivity. exact Hh.
  - rewrite B2, <- L2. change 4 with (fields_before vernaux_layout 1).
    apply rd_word_field with (k := 1%nat); try reflexivity. exact Hfl.
  - rewrite B2, <- L2. change 6 with (fields_before vernaux_layout 2).
    apply rd_word_field with (k := 2%nat); try reflexivity. exact Ho.
  - rewrite B2, <- L2. change 8 with (fields_before vernaux_layout 3).
    apply rd_word_field with (k := 3%nat); try reflexivity. exact Hn.
Qed.

(* walking vn_next [no] times from the start of a table reaches record [no] *)
Lemma ver_chain_vneeds e : forall (l : list vneed) (pre post : bytes) fuel no size,
  Forall vneed_wf l -> no < lenN l -> no < lenN fuel -> lenN pre + vneeds_size l <= size ->
  ver_chain fuel e (Some (pre ++ enc_vneeds e l ++ post)) size 16 12 (lenN pre) no
  = Ok (Some (lenN pre + vneeds_size (firstnN l no))).
Proof.
  induction l as [|r t IH]; intros pre post fuel no size Hwf Hno Hfu Hsz; [cbn [lenN] in Hno; lia|].
  destruct fuel as [|u f]; [cbn [lenN] in Hfu; lia|].
  cbn [ver_chain]. destruct (N.eqb_spec no 0) as [->|Hn0].
  - rewrite firstnN_0. cbn [vneeds_size fold_right]. now rewrite N.add_0_r.
  - rewrite lenN_cons in Hno. rewrite lenN_cons in Hfu. destruct t as [|r2 t']; [cbn [lenN] in Hno; lia|].
    inversion Hwf as [|? ? Hr Ht]; subst.
    change (enc_vneeds e (r :: r2 :: t')) with (enc_vneed e false r ++ enc_vneeds e (r2 :: t')).
    rewrite <- app_assoc.
    destruct (vneed_reads e pre (enc_vneeds e (r2 :: t') ++ post) false r Hr) as (_ & _ & _ & Hnx & _).
    cbn zeta in Hnx. rewrite Hnx. cbn [bind].
    pose proof (vneed_size_ge r) as G1. pose proof (vneed_size_ge r2) as G2.
    destruct (N.eqb_spec (vneed_size r) 0); [lia|].
    assert (Hs2 : vneeds_size (r :: r2 :: t') = vneed_size r + (vneed_size r2 + vneeds_size t')) by reflexivity.
    destruct (N.ltb_spec (size - 16) (lenN pre + vneed_size r)); [lia|].
    replace (pre ++ enc_vneed e false r ++ enc_vneeds e (r2 :: t') ++ post)
      with ((pre ++ enc_vneed e false r) ++ enc_vneeds e (r2 :: t') ++ post) by (now rewrite <- !app_assoc).
    replace (lenN pre + vneed_size r) with (lenN (pre ++ enc_vneed e false r)) by (rewrite lenN_app, lenN_enc_vneed; reflexivity).
    rewrite IH; try assumption; try lia.
    + rewrite lenN_app, lenN_enc_vneed.
      change (firstnN (r :: r2 :: t') no) with (if no =? 0 then [] else r :: firstnN (r2 :: t') (no - 1)).
      destruct (N.eqb_spec no 0); [lia|].
      set (X := firstnN (r2 :: t') (no - 1)). change (vneeds_size (r :: X)) with (vneed_size r + vneeds_size X).
      f_equal. f_equal. lia.
    + rewrite lenN_app, lenN_enc_vneed. rewrite Hs2 in Hsz. change (vneeds_size (r2 :: t')) with (vneed_size r2 + vneeds_size t'). lia.
Qed.

Lemma vneeds_split e : forall (l : list vneed) no r,
  nth_optN l no = Some r ->
  exists last pre rest, enc_vneeds e l = pre ++ enc_vneed e last r ++ rest /\ lenN pre = vneeds_size (firstnN l no).
Proof.
  induction l as [|r0 t IH]; intros no r Hn; [discriminate|].
  cbn [nth_optN] in Hn. destruct (N.eqb_spec no 0) as [->|Hn0].
  - injection Hn as <-. rewrite firstnN_0. destruct t as [|r2 t'].
    + exists true, [], []. split; [cbn [enc_vneeds app]; now rewrite app_nil_r|reflexivity].
    + exists false, [], (enc_vneeds e (r2 :: t')). split; reflexivity.
  - destruct t as [|r2 t']; [discriminate|].
    destruct (IH (no - 1) r Hn) as (last & pre & rest & E & L).
    exists last, (enc_vneed e false r0 ++ pre), rest. split.
    + change (enc_vneeds e (r0 :: r2 :: t')) with (enc_vneed e false r0 ++ enc_vneeds e (r2 :: t')). rewrite E. now rewrite <- !app_assoc.
    + rewrite lenN_app, lenN_enc_vneed, L.
      change (firstnN (r0 :: r2 :: t') no) with (if no =? 0 then [] else r0 :: firstnN (r2 :: t') (no - 1)).
      destruct (N.eqb_spec no 0); [lia|]. reflexivity.
Qed.

Lemma Forall_nth_optN {A} (P : A -> Prop) (l : list A) : forall n x, Forall P l -> nth_optN l n = Some x -> P x.
Proof.
  induction l as [|y t IH]; intros n x Hf Hn; [discriminate|]. inversion Hf; subst. cbn [nth_optN] in Hn.
  destruct (n =? 0); [injection Hn as <-; assumption|eauto].
Qed.

(* C14: the accessor's fixed-layout part reports record [no] of a version-requirement table as encoded
   (version, file-name index, and hash / flags / other / name index of its first auxiliary entry);
   [post]: whatever follows the table inside the section, [extra]: the bytes of the buffer behind the section *)
Theorem verneed_table_entry e (l : list vneed) (post extra : bytes) no r fuel :
  Forall vneed_wf l -> nth_optN l no = Some r -> no < lenN fuel ->
  verneed_core e (Some ((enc_vneeds e l ++ post) ++ extra)) fuel (lenN (enc_vneeds e l ++ post)) no = Ok (Some (vneed_raw r)).
Proof.
  intros Hwf Hn Hfu. unfold verneed_core.
  pose proof (nth_optN_lt _ _ _ Hn) as Hlt.
  assert (Hsz : lenN (enc_vneeds e l ++ post) = vneeds_size l + lenN post) by (rewrite lenN_app, lenN_enc_vneeds; reflexivity).
  rewrite <- app_assoc.
  pose proof (ver_chain_vneeds e l [] (post ++ extra) fuel no (lenN (enc_vneeds e l ++ post)) Hwf Hlt Hfu) as Hc.
  cbn [app lenN] in Hc. rewrite !N.add_0_l in Hc. rewrite Hc by (rewrite Hsz; lia). cbn [bind]. clear Hc.
  destruct (vneeds_split e l no r Hn) as (last & pre & rest & E & L).
  pose proof (Forall_nth_optN _ _ _ _ Hwf Hn) as Hr.
  assert (Hin : vneeds_size (firstnN l no) + vneed_size r <= vneeds_size l).
  { rewrite <- L, <- (lenN_enc_vneed e last r), <- (lenN_enc_vneeds e l), E, !lenN_app. lia. }
  rewrite <- L. rewrite E. rewrite <- !app_assoc.
  destruct (vneed_reads e pre (rest ++ post ++ extra) last r Hr) as (R1 & R2 & R3 & R4 & R5 & R6 & R7 & R8).
  cbn zeta in *. rewrite R3. cbn [bind].
  pose proof (vneed_size_ge r).
  destruct (N.ltb_spec (lenN (pre ++ enc_vneed e last r ++ rest ++ post) - 16) (lenN pre + 16)) as [Hb|Hb].
  { rewrite !lenN_app, lenN_enc_vneed in Hb. lia. }
  rewrite R2, R8, R1, R5, R6, R7. cbn [bind]. reflexivity.
Qed.

(* ================= version definitions ================= *)
Record vdef := mkVdef { vf_flags : N; vf_ndx : N; vf_hash : N; vf_name : N; vf_more : list N (* names of further verdaux entries *) }.

Definition verdaux_layout : list nat := [4; 4]%nat.               (* vda_name vda_next *)
Definition verdef_layout : list nat := [2; 2; 2; 2; 4; 4; 4]%nat.  (* vd_version vd_flags vd_ndx vd_cnt vd_hash vd_aux vd_next *)

Definition enc_vdaux (e : endian) (last : bool) (name : N) : bytes :=
  enc_fields e verdaux_layout [name; if last then 0 else 8].
Fixpoint enc_vdauxs (e : endian) (a : N) (more : list N) : bytes :=
  match more with
  | [] => enc_vdaux e true a
  | b :: t => enc_vdaux e false a ++ enc_vdauxs e b t
  end.
Definition vdef_size (r : vdef) : N := 20 + 8 * (1 + lenN (vf_more r)).
Definition enc_vdef (e : endian) (last : bool) (r : vdef) : bytes :=
  enc_fields e verdef_layout [1; vf_flags r; vf_ndx r; 1 + lenN (vf_more r); vf_hash r; 20; if last then 0 else vdef_size r]
  ++ enc_vdauxs e (vf_name r) (vf_more r).
Fixpoint enc_vdefs (e : endian) (l : list vdef) : bytes :=
  match l with
  | [] => []
  | [r] => enc_vdef e true r
  | r :: t => enc_vdef e false r ++ enc_vdefs e t
  end.
Definition vdef_wf (r : vdef) : Prop :=
  vf_flags r < 2 ^ 16 /\ vf_ndx r < 2 ^ 16 /\ vf_hash r < 2 ^ 32 /\ vf_name r < 2 ^ 32 /\ lenN (vf_more r) < 2 ^ 16 - 1.

Lemma lenN_enc_vdaux e l a : lenN (enc_vdaux e l a) = 8.
Proof. unfold enc_vdaux. now rewrite lenN_enc_fields. Qed.
Lemma lenN_enc_vdauxs e : forall more a, lenN (enc_vdauxs e a more) = 8 * (1 + lenN more).
Proof.
  induction more as [|b t IH]; intro a; cbn [enc_vdauxs]; [rewrite lenN_enc_vdaux; cbn [lenN]; lia|].
  rewrite lenN_app, lenN_enc_vdaux, IH, lenN_cons. lia.
Qed.
Lemma lenN_enc_vdef e l r : lenN (enc_vdef e l r) = vdef_size r.
Proof. unfold enc_vdef, vdef_size. rewrite lenN_app, lenN_enc_fields by reflexivity. rewrite lenN_enc_vdauxs. reflexivity. Qed.
Definition vdefs_size (l : list vdef) : N := fold_right (fun r acc => vdef_size r + acc) 0 l.
Lemma lenN_enc_vdefs e : forall l, lenN (enc_vdefs e l) = vdefs_size l.
Proof.
  induction l as [|r t IH]; [reflexivity|]. destruct t as [|r2 t].
  - cbn [enc_vdefs vdefs_size fold_right]. rewrite lenN_enc_vdef. lia.
  - change (enc_vdefs e (r :: r2 :: t)) with (enc_vdef e false r ++ enc_vdefs e (r2 :: t)).
    rewrite lenN_app, lenN_enc_vdef, IH. reflexivity.
Qed.
Lemma vdef_size_ge r : 28 <= vdef_size r.
Proof. unfold vdef_size. lia. Qed.

Definition vdef_raw (r : vdef) : verdef_raw := mkVDraw (vf_flags r) (vf_ndx r) (vf_hash r) (vf_name r).

Lemma enc_vdauxs_first e a more : exists rest l, enc_vdauxs e a more = enc_vdaux e l a ++ rest.
Proof. destruct more as [|b t]; [exists [], true; now rewrite app_nil_r | exists (enc_vdauxs e b t), false; reflexivity]. Qed.

Lemma vdef_reads e (pre post : bytes) last r :
  vdef_wf r ->
  let b := pre ++ enc_vdef e last r ++ post in
  let off := lenN pre in
  rd_word e (Some b) (off + 2) 2 = Ok (vf_flags r) /\
  rd_word e (Some b) (off + 4) 2 = Ok (vf_ndx r) /\
  rd_word e (Some b) (off + 8) 4 = Ok (vf_hash r) /\
  rd_word e (Some b) (off + 12) 4 = Ok 20 /\
  rd_word e (Some b) (off + 16) 4 = Ok (if last then 0 else vdef_size r) /\
  rd_word e (Some b) (off + 20) 4 = Ok (vf_name r).
Proof.
  intros (Hfl & Hnd & Hh & Hn & Hm) b off.
  assert (Hsz : vdef_size r < 2 ^ 32) by (unfold vdef_size; change (2 ^ 16) with 65536 in Hm; change (2 ^ 32) with 4294967296; lia).
  set (hd := [1; vf_flags r; vf_ndx r; 1 + lenN (vf_more r); vf_hash r; 20; if last then 0 else vdef_size r]).
  assert (B1 : b = pre ++ enc_fields e verdef_layout hd ++ (enc_vdauxs e (vf_name r) (vf_more r) ++ post)).
  { unfold b, enc_vdef. now rewrite <- !app_assoc. }
  destruct (enc_vdauxs_first e (vf_name r) (vf_more r)) as (rest & l & Ea).
  set (ax := [vf_name r; if l then 0 else 8]).
  assert (B2 : b = (pre ++ enc_fields e verdef_layout hd) ++ enc_fields e verdaux_layout ax ++ (rest ++ post)).
  { rewrite B1, Ea. unfold enc_vdaux. now rewrite <- !app_assoc. }
  assert (L2 : lenN (pre ++ enc_fields e verdef_layout hd) = off + 20).
  { rewrite lenN_app, lenN_enc_fields by reflexivity. reflexivity. }
  repeat split.
  - rewrite B1. change (off + 2) with (off + fields_before verdef_layout 1).
    apply rd_word_field with (k := 1%nat); try reflexivity. exact Hfl.
  - rewrite B1. change (off + 4) with (off + fields_before verdef_layout 2).
    apply rd_word_field with (k := 2%nat); try reflexivity. exact Hnd.
  - rewrite B1. change (off + 8) with (off + fields_before verdef_layout 4).
    apply rd_word_field with (k := 4%nat); try reflexivity. exact Hh.
  - rewrite B1. change (off + 12) with (off + fields_before verdef_layout 5).
    apply rd_word_field with (k := 5%nat); try reflexivity.
  - rewrite B1. change (off + 16) with (off + fields_before verdef_layout 6).
    apply rd_word_field with (k := 6%nat); try reflexivity. destruct last; [reflexivity|exact Hsz].
  - rewrite B2, <- L2. replace (lenN (pre ++ enc_fields e verdef_layout hd)) with (lenN (pre ++ enc_fields e verdef_layout hd) + fields_before verdaux_layout 0) by (cbn; lia).
    apply rd_word_field with (k := 0%nat); try reflexivity. exact Hn.
Qed.

Lemma ver_chain_vdefs e : forall (l : list vdef) (pre post : bytes) fuel no size,
  Forall vdef_wf l -> no < lenN l -> no < lenN fuel -> lenN pre + vdefs_size l <= size ->
  ver_chain fuel e (Some (pre ++ enc_vdefs e l ++ post)) size 20 16 (lenN pre) no
  = Ok (Some (lenN pre + vdefs_size (firstnN l no))).
Proof.
  induction l as [|r t IH]; intros pre post fuel no size Hwf Hno Hfu Hsz; [cbn [lenN] in Hno; lia|].
  destruct fuel as [|u f]; [cbn [lenN] in Hfu; lia|].
  cbn [ver_chain]. destruct (N.eqb_spec no 0) as [->|Hn0].
  - rewrite firstnN_0. cbn [vdefs_size fold_right]. now rewrite N.add_0_r.
  - rewrite lenN_cons in Hno. rewrite lenN_cons in Hfu. destruct t as [|r2 t']; [cbn [lenN] in Hno; lia|].
    inversion Hwf as [|? ? Hr Ht]; subst.
    change (enc_vdefs e (r :: r2 :: t')) with (enc_vdef e false r ++ enc_vdefs e (r2 :: t')).
    rewrite <- app_assoc.
    destruct (vdef_reads e pre (enc_vdefs e (r2 :: t') ++ post) false r Hr) as (_ & _ & _ & _ & Hnx & _).
    cbn zeta in Hnx. rewrite Hnx. cbn [bind].
    pose proof (vdef_size_ge r) as G1. pose proof (vdef_size_ge r2) as G2.
    destruct (N.eqb_spec (vdef_size r) 0); [lia|].
    assert (Hs2 : vdefs_size (r :: r2 :: t') = vdef_size r + (vdef_size r2 + vdefs_size t')) by reflexivity.
    destruct (N.ltb_spec (size - 20) (lenN pre + vdef_size r)); [lia|].
    replace (pre ++ enc_vdef e false r ++ enc_vdefs e (r2 :: t') ++ post)
      with ((pre ++ enc_vdef e false r) ++ enc_vdefs e (r2 :: t') ++ post) by (now rewrite <- !app_assoc).
    replace (lenN pre + vdef_size r) with (lenN (pre ++ enc_vdef e false r)) by (rewrite lenN_app, lenN_enc_vdef; reflexivity).
    rewrite IH; try assumption; try lia.
    + rewrite lenN_app, lenN_enc_vdef.
      change (firstnN (r :: r2 :: t') no) with (if no =? 0 then [] else r :: firstnN (r2 :: t') (no - 1)).
      destruct (N.eqb_spec no 0); [lia|].
      set (X := firstnN (r2 :: t') (no - 1)). change (vdefs_size (r :: X)) with (vdef_size r + vdefs_size X).
      f_equal. f_equal. lia.
    + rewrite lenN_app, lenN_enc_vdef. rewrite Hs2 in Hsz. change (vdefs_size (r2 :: t')) with (vdef_size r2 + vdefs_size t'). lia.
Qed.

Lemma vdefs_split e : forall (l : list vdef) no r,
  nth_optN l no = Some r ->
  exists last pre rest, enc_vdefs e l = pre ++ enc_vdef e last r ++ rest /\ lenN pre = vdefs_size (firstnN l no).
Proof.
  induction l as [|r0 t IH]; intros no r Hn; [discriminate|].
  cbn [nth_optN] in Hn. destruct (N.eqb_spec no 0) as [->|Hn0].
  - injection Hn as <-. rewrite firstnN_0. destruct t as [|r2 t'].
    + exists true, [], []. split; [cbn [enc_vdefs app]; now rewrite app_nil_r|reflexivity].
    + exists false, [], (enc_vdefs e (r2 :: t')). split; reflexivity.
  - destruct t as [|r2 t']; [discriminate|].
    destruct (IH (no - 1) r Hn) as (last & pre & rest & E & L).
    exists last, (enc_vdef e false r0 ++ pre), rest. split.
    + change (enc_vdefs e (r0 :: r2 :: t')) with (enc_vdef e false r0 ++ enc_vdefs e (r2 :: t')). rewrite E. now rewrite <- !app_assoc.
    + rewrite lenN_app, lenN_enc_vdef, L.
      change (firstnN (r0 :: r2 :: t') no) with (if no =? 0 then [] else r0 :: firstnN (r2 :: t') (no - 1)).
      destruct (N.eqb_spec no 0); [lia|]. reflexivity.
Qed.

(* C14: record [no] of a version-definition table is reported as encoded (flags, version index, hash and the
   name index of its first auxiliary entry) *)
Theorem verdef_table_entry e (l : list vdef) (post extra : bytes) no r fuel :
  Forall vdef_wf l -> nth_optN l no = Some r -> no < lenN fuel ->
  verdef_core e (Some ((enc_vdefs e l ++ post) ++ extra)) fuel (lenN (enc_vdefs e l ++ post)) no = Ok (Some (vdef_raw r)).
Proof.
  intros Hwf Hn Hfu. unfold verdef_core.
  pose proof (nth_optN_lt _ _ _ Hn) as Hlt.
  assert (Hsz : lenN (enc_vdefs e l ++ post) = vdefs_size l + lenN post) by (rewrite lenN_app, lenN_enc_vdefs; reflexivity).
  rewrite <- app_assoc.
  pose proof (ver_chain_vdefs e l [] (post ++ extra) fuel no (lenN (enc_vdefs e l ++ post)) Hwf Hlt Hfu) as Hc.
  cbn [app lenN] in Hc. rewrite !N.add_0_l in Hc. rewrite Hc by (rewrite Hsz; lia). cbn [bind]. clear Hc.
  destruct (vdefs_split e l no r Hn) as (last & pre & rest & E & L).
  pose proof (Forall_nth_optN _ _ _ _ Hwf Hn) as Hr.
  assert (Hin : vdefs_size (firstnN l no) + vdef_size r <= vdefs_size l).
  { rewrite <- L, <- (lenN_enc_vdef e last r), <- (lenN_enc_vdefs e l), E, !lenN_app. lia. }
  rewrite <- L. rewrite E. rewrite <- !app_assoc.
  destruct (vdef_reads e pre (rest ++ post ++ extra) last r Hr) as (R1 & R2 & R3 & R4 & R5 & R6).
  cbn zeta in *. rewrite R4. cbn [bind].
  pose proof (vdef_size_ge r).
  destruct (N.ltb_spec (lenN (pre ++ enc_vdef e last r ++ rest ++ post) - 8) (lenN pre + 20)) as [Hb|Hb].
  { rewrite !lenN_app, lenN_enc_vdef in Hb. lia. }
  rewrite R6, R1, R2, R3. cbn [bind]. reflexivity.
Qed.
