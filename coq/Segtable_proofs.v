(* Segtable_proofs.v — C02/C17: the loop of load_segments over a program header table of any length, on a stream
   that holds the complete file or any prefix of it: every entry that lies inside the stream is reported field by
   field, with the members the rule selects; at the first entry cut by the end of the stream the loop stops with
   "not good" and reports nothing for it. *)
From ElfioV Require Import Bytes Mem Stream SectionData Strings Elfio Table Loader Load_proofs Data_proofs Codec_proofs
     Reader_proofs Prefix_proofs Reload_oneseg.
From Coq Require Import ZifyBool ZifyN ZifyNat.
Local Open Scope N_scope.

Section WithEnv.
  Variable junk : N -> N.

  Definition seg_reported (secs : list section) (g r : segment) : Prop :=
    same_phdr g r /\ g_sections r = map wrap16 (seg_members g secs) /\ g_cls r = g_cls g.

  Theorem load_segments_loop_of_prefix enc c phoff es (f : bytes) n secs : forall (segs : list segment) fuel st i racc allocs,
    is_fail st = false -> st_inv st -> is_content st = firstnN f n -> phoff < 2 ^ 62 -> phdr_size c <= es ->
    phoff + (i + lenN segs) * es < 2 ^ 62 ->
    Forall (fun g => g_cls g = c /\ phdr_wf g) segs ->
    (forall k g, nth_optN segs k = Some g -> phoff + (i + k) * es + phdr_size c <= lenN f /\
                                             sliceN f (phoff + (i + k) * es) (phdr_size c) = phdr_bytes enc g) ->
    (length segs <= fuel)%nat ->
    exists st' loaded ok allocs',
      load_segments_loop fuel st [] secs enc c phoff es i (i + lenN segs) true racc allocs = Ok (st', rev loaded ++ racc, ok, allocs') /\
      Forall2 (seg_reported secs) (firstn (length loaded) segs) loaded /\
      (ok = true -> length loaded = length segs) /\
      ((forall k, k < lenN segs -> phoff + (i + k) * es + phdr_size c <= n) -> ok = true).
  Proof.
    induction segs as [|g t IH]; intros fuel st i racc allocs Hf Hi Hc H62 Hes Hb1 Hwf Hsl Hfuel.
    - cbn [lenN] in *. rewrite N.add_0_r. exists st, [], true, allocs. cbn [rev app length firstn].
      destruct fuel; cbn [load_segments_loop]; [|rewrite N.ltb_irrefl]; repeat split; auto; constructor.
    - rewrite lenN_cons in *. destruct fuel as [|fu]; [cbn in Hfuel; lia|]. cbn [length] in Hfuel.
      inversion Hwf as [|? ? [Hcl Hw] Hwt]; subst.
      cbn [load_segments_loop]. destruct (N.ltb_spec i (i + (1 + lenN t))); [|lia].
      rewrite (table_pos_plain junk) by lia.
      destruct (Hsl 0 g eq_refl) as [Hin0 Hs0]. rewrite N.add_0_r in Hin0, Hs0.
      destruct (N.le_gt_cases (phoff + i * es + phdr_size (g_cls g)) n) as [Hle|Hgt].
      + (* the entry lies inside the prefix *)
        assert (Hsl' : sliceN (firstnN f n) (phoff + i * es) (phdr_size (g_cls g)) = phdr_bytes enc g).
        { rewrite <- Hs0. unfold sliceN. rewrite !firstnN_firstn, !skipnN_skipn.
          rewrite skipn_firstn_comm, firstn_firstn. f_equal. lia. }
        destruct (segment_load_reports_lazy junk st enc (g_cls g) (phoff + i * es) g Hf Hi ltac:(lia)
                    ltac:(rewrite Hc, lenN_firstnN_min; lia) eq_refl Hw ltac:(rewrite Hc; exact Hsl'))
          as (st1 & r & -> & F1 & I1 & C1 & SP & GS & GC & GD). cbn [bind negb orb]. rewrite F1.
        set (g2 := seg_with_index r (wrap16 i)).
        destruct (add_indices_fields junk (seg_members g2 secs) g2) as (SP3 & GS3 & GC3 & GI3 & _). cbv zeta in *.
        set (g3 := fold_left (fun g idx => seg_add_section_index g idx 0) (seg_members g2 secs) g2) in *.
        replace (i + (1 + lenN t)) with ((i + 1) + lenN t) by lia. cbn [app].
        destruct (IH fu st1 (i + 1) (g3 :: racc) allocs F1 I1 ltac:(congruence) H62 Hes) as (st' & loaded & ok & allocs' & -> & H2 & H3 & H4).
        * lia. * exact Hwt.
        * intros k g' Hk. replace (i + 1 + k) with (i + (k + 1)) by lia. apply Hsl.
          cbn [nth_optN]. destruct (N.eqb_spec (k + 1) 0); [lia|]. now replace (k + 1 - 1) with k by lia.
        * lia.
        * exists st', (g3 :: loaded), ok, allocs'. cbn [rev length firstn]. rewrite <- app_assoc. cbn [app].
          split; [reflexivity|]. split; [|split; [intros Hok; rewrite (H3 Hok); reflexivity|]].
          2:{ intros Hn. apply H4. intros k Hk. replace (i + 1 + k) with (i + (k + 1)) by lia. apply Hn. lia. }
          constructor; [|exact H2].
          assert (Hm : seg_members g2 secs = seg_members g secs).
          { rewrite !seg_members_exact. f_equal. apply filter_ext. intros s.
            destruct SP as (G1 & G2 & G3 & G4 & G5 & G6 & G7 & G8). unfold member_spec, g2. cbn [p_type p_offset p_vaddr p_filesz p_memsz seg_with_index].
            now rewrite G1, G3, G4, G6, G7. }
          unfold seg_reported. split; [|split].
          -- destruct SP as (G1 & G2 & G3 & G4 & G5 & G6 & G7 & G8). destruct SP3 as (K1 & K2 & K3 & K4 & K5 & K6 & K7 & K8).
             unfold same_phdr. repeat split; unfold g2 in *; cbn [p_type p_flags p_offset p_vaddr p_paddr p_filesz p_memsz p_align seg_with_index] in *; congruence.
          -- rewrite GS3, <- Hm. unfold g2. cbn [g_sections seg_with_index]. now rewrite GS.
          -- rewrite GC3. unfold g2. cbn [g_cls seg_with_index]. exact GC.
      + (* the entry is cut by the end of the prefix: the loop stops, nothing is reported for it *)
        destruct (segment_load_total junk st [] enc (g_cls g) (Z.of_N (phoff + i * es)) true Hi) as (st1 & g1 & ok1 & al & E & _).
        pose proof (segment_load_cut_entry_fails junk st enc (g_cls g) (phoff + i * es) true st1 g1 ok1 al Hf Hi ltac:(lia)
                      ltac:(rewrite Hc, lenN_firstnN_min; lia) E) as F1.
        rewrite E. cbn [bind]. rewrite F1, orb_true_r.
        exists st1, [], false, (al ++ allocs). cbn [rev app length firstn].
        split; [reflexivity|]. split; [constructor|]. split; [discriminate|]. intros Hn. exfalso.
        specialize (Hn 0 ltac:(lia)). rewrite N.add_0_r in Hn. lia.
  Qed.

  (* the complete file: every entry reported, the loop ends "good" *)
  Corollary load_segments_loop_reports enc c phoff es secs (segs : list segment) fuel st i racc allocs :
    is_fail st = false -> st_inv st -> phoff < 2 ^ 62 -> phdr_size c <= es ->
    phoff + (i + lenN segs) * es < 2 ^ 62 ->
    Forall (fun g => g_cls g = c /\ phdr_wf g) segs ->
    (forall k g, nth_optN segs k = Some g -> phoff + (i + k) * es + phdr_size c <= lenN (is_content st) /\
                                             sliceN (is_content st) (phoff + (i + k) * es) (phdr_size c) = phdr_bytes enc g) ->
    (length segs <= fuel)%nat ->
    exists st' loaded allocs',
      load_segments_loop fuel st [] secs enc c phoff es i (i + lenN segs) true racc allocs = Ok (st', rev loaded ++ racc, true, allocs') /\
      Forall2 (seg_reported secs) segs loaded.
  Proof.
    intros Hf Hi H62 Hes Hb1 Hwf Hsl Hfuel.
    destruct (load_segments_loop_of_prefix enc c phoff es (is_content st) (lenN (is_content st)) secs segs fuel st i racc allocs Hf Hi
                ltac:(symmetry; apply firstnN_all; lia) H62 Hes Hb1 Hwf Hsl Hfuel) as (st' & loaded & ok & allocs' & E & H2 & H3 & H4).
    assert (Hok : ok = true).
    { apply H4. intros k Hk. destruct (nth_optN_some segs k Hk) as (g & Hg). exact (proj1 (Hsl k g Hg)). }
    subst ok. exists st', loaded, allocs'. split; [exact E|].
    rewrite (H3 eq_refl) in H2. rewrite <- (firstn_all segs). exact H2.
  Qed.
End WithEnv.
