(* Properties_C06.v — C06: saving is deterministic and idempotent. *)
From ElfioV Require Import Bytes Mem Stream SectionData Strings Elfio Table Loader Layout Writer Layout_proofs Segment_proofs Oneseg_proofs Oneseg_again Accessors ByName_proofs Save_twice Oneseg_writer Save_twice_oneseg Oneseg_members Reader_proofs Writer_proofs.
From Coq Require Import Sorted.
Local Open Scope N_scope.

(* save() is a function of the object and the stream: the model has no hidden
   state, so the same object yields the same bytes (determinism holds by
   construction of the model; that the implementation has no hidden state
   either is what the differential double-save run checks). *)
Theorem C06_deterministic :
  forall junk el os r1 r2, save junk el os = r1 -> save junk el os = r2 -> r1 = r2.
Proof. intros; congruence. Qed.
Print Assumptions C06_deterministic.

(* The first save records the offsets it chose; the second pass re-derives
   exactly the same layout from them (objects without segments). *)
Theorem C06_second_layout_is_identity :
  forall el h0 bound,
    el_hdr el = Some h0 -> el_segs el = [] ->
    bound <= 2 ^ 64 -> Forall (fun s => bound <= 2 ^ xw (s_cls s)) (el_secs el) ->
    e_ehsize h0 + budget (el_secs el) + 16 < bound ->
    exists el', layout el = Ok (el', true) /\ layout el' = Ok (el', true).
Proof.
  intros el h0 bound H1 H2 H3 H4 H5.
  destruct (layout_noseg el h0 bound H1 H2 H3 H4 H5) as (el' & ? & ? & ? & E & _ & _ & _ & _ & _ & _ & _ & E2). eauto.
Qed.
Print Assumptions C06_second_layout_is_identity.

(* the section placement loop alone, for any position and any section list *)
Theorem C06_free_sections_idempotent :
  forall todo pre pos todo' pos',
    layout_free_sections [] (pre ++ todo) (lenN pre) todo pos = (pre ++ todo', pos') ->
    layout_free_sections [] (pre ++ todo') (lenN pre) todo' pos = (pre ++ todo', pos').
Proof. exact lfs_idempotent. Qed.
Print Assumptions C06_free_sections_idempotent.

(* A segment of automatically addressed, non-empty allocated data members: the
   first pass records addresses and offsets; a second pass from the same file
   position, with fresh "generated" flags, re-derives exactly the same segment
   and sections (the gaps now come from the recorded addresses). *)
Theorem C06_segment_second_pass_is_identity :
  forall h g secs gen pos bound ms g' secs' gen' pos',
    let idxs := g_sections g in
    let align := if 0 <? p_align g then p_align g else 1 in
    lenN idxs < 2 ^ 16 -> idxs <> [] ->
    g_offset_set g = false -> p_type g <> PT_PHDR ->
    NoDup idxs -> Forall2 (fun i s => nth_optN secs i = Some s) idxs ms ->
    Forall auto_member ms -> Forall (fun s => bound <= 2 ^ xw (s_cls s)) ms -> Forall (fun s => sh_size s <> 0) ms ->
    (forall i, In i idxs -> nth_optN gen i = Some false) ->
    bound <= 2 ^ 63 -> bound <= 2 ^ xw (g_cls g) -> p_align g < 2 ^ 63 ->
    p_vaddr g + pos + align + mbudget ms < bound -> 0 < pos ->
    layout_one_segment h g secs gen pos = Ok (g', secs', gen', pos', true) ->
    exists gen'', layout_one_segment h g' secs' gen pos = Ok (g', secs', gen'', pos', true).
Proof. exact layout_one_segment_again. Qed.
Print Assumptions C06_segment_second_pass_is_identity.

(* ... and the whole layout step for an object with ONE such segment plus any sections outside it (the class of
   C04_layout_with_one_segment): the second save() starts from the object the first one left - header with the
   table offsets, segment with its offset and sizes, sections with their offsets and addresses - and re-derives
   exactly that object, so it plans exactly the same writes *)
Theorem C06_second_layout_is_identity_one_segment :
  forall el h0 g bound ms,
    let idxs := g_sections g in
    let align := if 0 <? p_align g then p_align g else 1 in
    let secs := el_secs el in
    let pos0 := e_ehsize h0 + e_phentsize h0 in
    el_hdr el = Some h0 -> el_segs el = [g] -> lenN secs < 2 ^ 16 ->
    lenN idxs < 2 ^ 16 -> idxs <> [] -> g_offset_set g = false -> p_type g <> PT_PHDR -> NoDup idxs ->
    Forall2 (fun i s => nth_optN secs i = Some s) idxs ms ->
    Forall auto_member ms -> Forall (fun s => sh_addralign s <= p_align g) ms -> Forall (fun s => sh_size s <> 0) ms ->
    bound <= 2 ^ 63 -> Forall (fun s => bound <= 2 ^ xw (s_cls s)) secs -> bound <= 2 ^ xw (g_cls g) ->
    p_align g < 2 ^ 63 -> 0 < pos0 ->
    p_vaddr g + pos0 + align + mbudget ms + budget secs + 16 < bound ->
    exists el', layout el = Ok (el', true) /\ layout el' = Ok (el', true).
Proof. exact layout_oneseg_twice. Qed.
Print Assumptions C06_second_layout_is_identity_one_segment.

(* From the layout to the bytes.  Let a first save() of el0 succeed in forcing the data (results sta/secsa,
   stb/segsb) and in laying the object out as el1, let the layout step be the identity on el1 (the theorems above),
   and let data requests leave el1's sections and segments as they are (sections: [quiet], true of every section
   after its first get_data(), C09_quiet_after_first_request; segments: [seg_stable]).  Then a second save() - of
   the object the first one left, into the same kind of stream - writes exactly the same bytes, returns the same
   verdict and leaves the same object. *)
Theorem C06_second_save_writes_the_same_bytes :
  forall junk el0 os el1 sta secsa stb segsb h,
    os_bad os = false -> el_hdr el0 = Some h ->
    force_sections junk (el_stream el0) (el_xlat el0) (el_secs el0) [] = Ok (sta, secsa) ->
    force_segments sta (el_xlat el0) (el_segs el0) [] = Ok (stb, segsb) ->
    layout (with_stream (with_segs (with_secs el0 secsa) segsb) stb) = Ok (el1, true) ->
    layout el1 = Ok (el1, true) ->
    Forall quiet (el_secs el1) -> Forall offset_norm (el_secs el1) ->
    Forall (seg_stable (el_stream el1) (el_xlat el1)) (el_segs el1) ->
    forall r, save junk el0 os = Ok r -> save junk el1 os = Ok (el1, snd (fst r), snd r).
Proof. exact save_twice_identical. Qed.
Print Assumptions C06_second_save_writes_the_same_bytes.

(* all of it discharged for objects without segments whose sections have been requested (or saved) before:
   whatever save() returned - object, stream, verdict - saving the returned object returns again *)
Theorem C06_second_save_identical_without_segments :
  forall junk el0 os h0 bound,
    os_bad os = false -> el_hdr el0 = Some h0 -> el_segs el0 = [] -> Forall quiet (el_secs el0) ->
    bound <= 2 ^ 64 -> Forall (fun s => bound <= 2 ^ xw (s_cls s)) (el_secs el0) ->
    e_ehsize h0 + budget (el_secs el0) + 16 < bound ->
    forall r, save junk el0 os = Ok r -> save junk (fst (fst r)) os = Ok r.
Proof. exact save_twice_noseg. Qed.
Print Assumptions C06_second_save_identical_without_segments.

(* ... and for objects with one segment of automatically addressed, non-empty allocated data members plus free
   sections, built through the API (the segment record holds no data and came from no stream; no address
   translation), whose sections have been requested before *)
Theorem C06_second_save_identical_one_segment :
  forall junk el0 os h0 g bound ms,
    let idxs := g_sections g in
    let align := if 0 <? p_align g then p_align g else 1 in
    let secs := el_secs el0 in
    let pos0 := e_ehsize h0 + e_phentsize h0 in
    os_bad os = false -> xlat_empty (el_xlat el0) = true ->
    el_hdr el0 = Some h0 -> el_segs el0 = [g] -> lenN secs < 2 ^ 16 ->
    lenN idxs < 2 ^ 16 -> idxs <> [] -> g_offset_set g = false -> p_type g <> PT_PHDR -> NoDup idxs ->
    Forall2 (fun i s => nth_optN secs i = Some s) idxs ms ->
    Forall auto_member ms -> Forall (fun s => sh_addralign s <= p_align g) ms -> Forall (fun s => sh_size s <> 0) ms ->
    bound <= 2 ^ 63 -> Forall (fun s => bound <= 2 ^ xw (s_cls s)) secs -> bound <= 2 ^ xw (g_cls g) ->
    p_align g < 2 ^ 63 -> 0 < pos0 ->
    p_vaddr g + pos0 + align + mbudget ms + budget secs + 16 < bound ->
    Forall quiet secs -> g_data g = None -> g_stream_size g = 0 -> g_loaded g = false ->
    (forall s, In s secs -> s_index s = 0 -> csize s = 0) ->
    forall r, save junk el0 os = Ok r -> save junk (fst (fst r)) os = Ok r.
Proof. exact save_twice_oneseg. Qed.
Print Assumptions C06_second_save_identical_one_segment.

(* what a load of the saved file makes of the segment.  load() rebuilds the member list from the headers alone
   (C02_membership_rule: seg_members = the sections that member_spec accepts, in index order).  Applied to the
   segment and the section headers as the layout above leaves them - which are the ones the file carries - the
   rule accepts exactly the sections the segment was saved with (members: non-empty, allocated, not thread-local;
   the other sections: thread-local, or allocated below the segment, or not allocated), and when the member list
   was in index order the reloaded list IS the saved list - the premise the second save of the reloaded object
   needs.  (Where the member list was not in index order the reloaded list differs: the open finding
   member-order.) *)
Theorem C06_reload_recovers_members_one_segment :
  forall el h0 g bound ms,
    let idxs := g_sections g in
    let align := if 0 <? p_align g then p_align g else 1 in
    let secs := el_secs el in
    let pos0 := e_ehsize h0 + e_phentsize h0 in
    el_hdr el = Some h0 -> el_segs el = [g] -> lenN secs < 2 ^ 16 ->
    lenN idxs < 2 ^ 16 -> idxs <> [] -> g_offset_set g = false -> p_type g <> PT_PHDR -> NoDup idxs ->
    Forall2 (fun i s => nth_optN secs i = Some s) idxs ms ->
    Forall auto_member ms -> Forall (fun s => sh_addralign s <= p_align g) ms ->
    bound <= 2 ^ 64 -> Forall (fun s => bound <= 2 ^ xw (s_cls s)) secs -> bound <= 2 ^ xw (g_cls g) ->
    p_align g < 2 ^ 63 ->
    p_vaddr g + pos0 + align + mbudget ms + budget secs + 16 < bound ->
    indexed_from 0 secs -> p_type g <> PT_TLS -> Forall (fun s => sh_size s <> 0) ms ->
    (forall j s, ~ In j idxs -> nth_optN secs j = Some s ->
       is_tls s \/ (is_alloc s /\ sh_addr s < p_vaddr g) \/ (~ is_alloc s /\ (s_index s = 0 -> sh_offset s < pos0))) ->
    exists el' g',
      layout el = Ok (el', true) /\ el_segs el' = [g'] /\ g_sections g' = idxs /\ indexed_from 0 (el_secs el') /\
      (p_vaddr g + p_memsz g' < 2 ^ 64 ->
         (forall j, In j (seg_members g' (el_secs el')) <-> In j idxs) /\
         (StronglySorted N.lt idxs -> seg_members g' (el_secs el') = idxs)).
Proof. exact oneseg_layout_members. Qed.
Print Assumptions C06_reload_recovers_members_one_segment.

(* non-vacuity: ELF32, a PT_LOAD segment at 0x8048004 (align 0x1000) holding two program sections, a free section behind *)
Definition ex1_ms (i al sz : N) : section :=
  with_index (with_flags (with_size (with_addralign (with_type (new_section C32) 1) al) sz) 2) i.
Definition ex1_seg : segment :=
  seg_add_section_index (seg_add_section_index (seg_set (seg_set (seg_set (new_segment C32) GType 1) GVaddr 134512644) GAlign 4096) 1 16) 2 4.
Example C06_one_segment_example :
  let fs (i : N) := with_index (with_size (with_addralign (with_type (new_section C32) 1) 1) 7) i in
  let el := with_segs (with_secs (with_hdr (empty_elfio false) (Some (new_header C32 LSB)))
                                 [ex1_ms 0 0 0; ex1_ms 1 16 5; ex1_ms 2 4 3; fs 3]) [ex1_seg] in
  exists el', layout el = Ok (el', true) /\ layout el' = Ok (el', true) /\ map sh_offset (el_secs el') = [0; 4112; 4120; 4123] /\
              Forall auto_member [ex1_ms 1 16 5; ex1_ms 2 4 3].
Proof.
  eexists. split; [vm_compute; reflexivity|]. split; [vm_compute; reflexivity|]. split; [vm_compute; reflexivity|].
  repeat constructor; vm_compute; discriminate.
Qed.

Example C06_one_segment_members_example :
  let fs (i : N) := with_index (with_size (with_addralign (with_type (new_section C32) 1) 1) 7) i in
  let el := with_segs (with_secs (with_hdr (empty_elfio false) (Some (new_header C32 LSB)))
                                 [ex1_ms 0 0 0; ex1_ms 1 16 5; ex1_ms 2 4 3; fs 3]) [ex1_seg] in
  exists el' g', layout el = Ok (el', true) /\ el_segs el' = [g'] /\ seg_members g' (el_secs el') = [1; 2] /\
                 g_sections ex1_seg = [1; 2] /\ p_vaddr ex1_seg + p_memsz g' < 2 ^ 64 /\
                 is_alloc (ex1_ms 0 0 0) /\ sh_addr (ex1_ms 0 0 0) < p_vaddr ex1_seg /\ ~ is_alloc (fs 3).
Proof.
  eexists _, _. split; [vm_compute; reflexivity|]. split; [reflexivity|]. vm_compute. repeat split; try reflexivity. discriminate.
Qed.

(* evaluation (a test, not a theorem): the one-segment object above, saved twice from its fresh state into an
   unbounded stream: same verdict, same bytes, and the second save leaves the object the first one left *)
Example C06_one_segment_two_saves :
  let fs (i : N) := with_index (with_size (with_addralign (with_type (new_section C32) 1) 1) 7) i in
  let el := with_segs (with_secs (with_hdr (empty_elfio false) (Some (new_header C32 LSB)))
                                 [ex1_ms 0 0 0; ex1_ms 1 16 5; ex1_ms 2 4 3; fs 3]) [ex1_seg] in
  match save (fun _ => 0) el (new_ostream None) with
  | Ok (el1, os1, ok1) =>
      ok1 = true /\ lenN (os_bytes os1) = 4304 /\
      match save (fun _ => 0) el1 (new_ostream None) with
      | Ok (el2, os2, ok2) => ok2 = true /\ os_bytes os2 = os_bytes os1 /\ el2 = el1
      | Fault _ => False
      end
  | Fault _ => False
  end.
Proof. vm_compute. repeat split; reflexivity. Qed.

Definition mk (i ty al sz : N) : section :=
  with_index (with_size (with_addralign (with_type (new_section C64) ty) al) sz) i.
Definition ex_el : elfio :=
  with_secs (with_hdr (empty_elfio false) (Some (new_header C64 MSB)))
            [mk 0 0 0 0; mk 1 1 4 7; mk 2 8 32 64; mk 3 1 16 1].
Example C06_example :
  exists el', layout ex_el = Ok (el', true) /\ layout el' = Ok (el', true) /\
              map sh_offset (el_secs el') = [0; 64; 96; 96].
Proof. eexists. split; [vm_compute; reflexivity|]. split; vm_compute; reflexivity. Qed.
