(* Extract.v — extraction of the executable model (ExtrOcamlBasic only). *)
From ElfioV Require Import Bytes Mem Stream SectionData Strings Elfio Script.
Require Import ExtrOcamlBasic.
Extraction Language OCaml.
Extraction "model.ml" run_script N.mul N.add N.div_eucl N.of_nat N.to_nat.
