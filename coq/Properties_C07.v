(* Properties_C07.v — C07: section data editing behaves like editing a byte string.
   Statements only; proofs live in SectionData_proofs.v. *)
From ElfioV Require Import Bytes Mem SectionData SectionData_proofs.
Local Open Scope N_scope.

(* Any sequence of replace / append / insert on a section satisfying the
   representation invariant (every freshly created section does; so does every
   section whose data is resident) runs without a memory fault, for every
   content of uninitialised memory, and leaves size and data equal to those of
   the byte string subjected to the same operations. *)
Theorem C07_refines_bytestring :
  forall (junk : N -> N) (xlat_empty : bool) (s : section) (ops : list dop),
    Inv s -> sh_size s + sum_len ops < size_bound (s_cls s) ->
    exists s', drun junk xlat_empty ops s = Ok s' /\ Inv s' /\
      contents s' = spec_run ops (contents s) /\ sh_size s' = lenN (contents s').
Proof. exact drun_refines. Qed.
Print Assumptions C07_refines_bytestring.

(* an insert beyond the current size changes nothing (instance of the spec) *)
Theorem C07_insert_beyond_is_noop :
  forall c pos raw, lenN c < pos -> spec_step c (DInsert pos raw) = c.
Proof. intros c pos raw H. cbn [spec_step]. destruct (N.ltb_spec (lenN c) pos); [reflexivity|lia]. Qed.
Print Assumptions C07_insert_beyond_is_noop.

Theorem C07_fresh_section_satisfies_Inv : forall c, Inv (new_section c).
Proof. exact new_section_Inv. Qed.
Print Assumptions C07_fresh_section_satisfies_Inv.

Theorem C07_nobits_never_acquires_data :
  forall (junk : N -> N) (xlat_empty : bool) (s : section) (ops : list dop),
    sh_type s = SHT_NOBITS ->
    exists s', drun junk xlat_empty ops s = Ok s' /\ s_data s' = s_data s /\ sh_type s' = SHT_NOBITS.
Proof. exact nobits_never_acquires_data. Qed.
Print Assumptions C07_nobits_never_acquires_data.

(* non-vacuity: a concrete history that reallocates and then inserts in place *)
Example C07_example :
  let s0 := with_type (new_section C64) 1 in
  Inv s0 /\
  option_map contents
    (match drun (fun _ => 170) true [DSet [1;2;3]; DAppend [4;5]; DInsert 1 [9]; DInsert 7 [8]] s0 with
     | Ok s => Some s | Fault _ => None end) = Some [1;9;2;3;4;5].
Proof. split; [unfold Inv; cbn; repeat split; try lia; discriminate|vm_compute; reflexivity]. Qed.
