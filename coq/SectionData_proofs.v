(* SectionData_proofs.v — section data editing refines byte-string editing (C07). *)
From ElfioV Require Import Bytes Mem SectionData.
From Coq Require Import ZifyBool ZifyN ZifyNat.
Local Open Scope N_scope.

Lemma skipnN_firstnN_comm {A} (l : list A) m n :
  skipnN (firstnN l n) m = firstnN (skipnN l m) (n - m).
Proof.
  rewrite !skipnN_skipn, !firstnN_firstn, skipn_firstn_comm. f_equal. lia.
Qed.

Lemma pow_xw_le c : 2 ^ xw c <= 2 ^ 64.
Proof. destruct c; cbn [xw]; apply N.pow_le_mono_r; lia. Qed.

(* size bound below which no header truncation and no capacity overflow occurs *)
Definition size_bound (c : cls) : N := match c with C32 => 2 ^ 32 | C64 => 2 ^ 61 end.

Lemma size_bound_xw c n : n < size_bound c -> n < 2 ^ xw c.
Proof. destruct c; cbn [size_bound xw]; [tauto|]. intros H. eapply N.lt_trans; [exact H|]. apply N.pow_lt_mono_r; lia. Qed.
Lemma size_bound_61 c n : n < size_bound c -> n < 2 ^ 61.
Proof. destruct c; cbn [size_bound]; [|tauto]. intros H. eapply N.lt_trans; [exact H|]. apply N.pow_lt_mono_r; lia. Qed.

Definition Inv (s : section) : Prop :=
  sh_type s <> SHT_NOBITS /\
  s_data_size s <= 3 * sh_size s /\
  match s_data s with
  | None => sh_size s = 0 /\ s_data_size s = 0
  | Some b => sh_size s <= s_data_size s /\ s_data_size s <= lenN b
  end.

Lemma wrap_small w v : v < 2 ^ w -> wrap w v = v.
Proof. intros; unfold wrap; now apply N.mod_small. Qed.

Lemma lenN_contents s : Inv s -> lenN (contents s) = sh_size s.
Proof.
  intros (_ & _ & H). unfold contents. destruct (s_data s) as [b|].
  - rewrite lenN_firstnN. lia.
  - cbn. lia.
Qed.

Section Proofs.
  Variable junk : N -> N.
  Variable xe : bool.

  Ltac simp_fields :=
    cbn [s_cls s_index s_name sh_name sh_type sh_flags sh_addr sh_offset sh_size sh_link sh_info
         sh_addralign sh_entsize s_data s_data_size s_addr_set s_stream_size s_lazy s_loaded s_can_load
         with_size with_data with_stream_size] in *.

  Lemma set_data_spec s raw :
    sh_type s <> SHT_NOBITS -> lenN raw < size_bound (s_cls s) ->
    let s' := set_data xe s raw in
    Inv s' /\ contents s' = raw /\ sh_size s' = lenN raw /\ s_cls s' = s_cls s /\ sh_type s' = sh_type s.
  Proof.
    intros Hty Hb. unfold set_data.
    destruct (N.eqb_spec (sh_type s) SHT_NOBITS) as [E|_]; [contradiction|].
    apply size_bound_xw in Hb.
    assert (W : wrap (xw (s_cls s)) (lenN raw) = lenN raw) by now apply wrap_small.
    destruct xe; unfold Inv, contents; simp_fields; rewrite W;
      (repeat split; try assumption; try lia; try (apply firstnN_all; lia)).
  Qed.

  Lemma set_data_nobits s raw :
    sh_type s = SHT_NOBITS -> s_data (set_data xe s raw) = s_data s.
  Proof.
    intros E. unfold set_data. rewrite E, N.eqb_refl. destruct xe; reflexivity.
  Qed.

  Lemma insert_data_nobits s pos raw :
    sh_type s = SHT_NOBITS -> insert_data junk xe s pos raw = Ok s.
  Proof. intros E. unfold insert_data. now rewrite E, N.eqb_refl. Qed.

  Lemma insert_data_spec s pos raw :
    Inv s -> sh_size s + lenN raw < size_bound (s_cls s) ->
    exists s', insert_data junk xe s pos raw = Ok s' /\ Inv s' /\
      contents s' = spec_step (contents s) (DInsert pos raw) /\
      s_cls s' = s_cls s /\ sh_type s' = sh_type s /\ sh_size s' <= sh_size s + lenN raw.
  Proof.
    intros HI Hb. pose proof (lenN_contents s HI) as Hlen.
    destruct HI as (Hty & H3 & HD).
    pose proof (size_bound_xw _ _ Hb) as Hxw. pose proof (size_bound_61 _ _ Hb) as H61.
    pose proof (pow_xw_le (s_cls s)) as Hle64.
    assert (P61 : 2 ^ 61 * 8 = 2 ^ 64) by reflexivity.
    assert (PX : XWORD_MAX = 2 ^ 64 - 1) by reflexivity.
    unfold insert_data.
    destruct (N.eqb_spec (sh_type s) SHT_NOBITS) as [E|_]; [contradiction|].
    assert (Hres : (match s_data s with None => true | Some _ => false end) && negb (sh_size s =? 0) = false).
    { destruct (s_data s); [reflexivity|]. destruct HD as [-> _]. reflexivity. }
    rewrite Hres.
    cbn [spec_step]. rewrite Hlen.
    destruct (N.ltb_spec (sh_size s) pos) as [Hpos|Hpos].
    { exists s. repeat split; try assumption; lia. }
    destruct (N.ltb_spec (XWORD_MAX - sh_size s) (lenN raw)) as [Hov|_]; [lia|].
    (* the old contents, split at pos:  A ++ T *)
    set (size := sh_size s) in *. set (lr := lenN raw) in *.
    set (A := match s_data s with Some b => firstnN b pos | None => [] end).
    set (T := match s_data s with Some b => sliceN b pos (size - pos) | None => [] end).
    assert (HA : lenN A = pos).
    { unfold A. destruct (s_data s) as [b|]; [rewrite lenN_firstnN; lia | cbn; lia]. }
    assert (HT : lenN T = size - pos).
    { unfold T, sliceN. destruct (s_data s) as [b|]; [rewrite lenN_firstnN, lenN_skipnN; lia | cbn; lia]. }
    assert (RA : rd (s_data s) 0 pos = Ok A).
    { unfold A. destruct (s_data s) as [b|].
      - rewrite rd_some by lia. unfold sliceN. now rewrite skipnN_0.
      - replace pos with 0 by lia. reflexivity. }
    assert (RT : rd (s_data s) pos (size - pos) = Ok T).
    { unfold T. destruct (s_data s) as [b|].
      - apply rd_some. lia.
      - replace (size - pos) with 0 by lia. apply rd_empty. }
    assert (Spec : A ++ raw ++ T = firstnN (contents s) pos ++ raw ++ skipnN (contents s) pos).
    { unfold A, T, contents, sliceN. destruct (s_data s) as [b|].
      - fold size. rewrite firstnN_firstnN, skipnN_firstnN_comm.
        replace (N.min pos size) with pos by lia. reflexivity.
      - reflexivity. }
    destruct (N.leb_spec (size + lr) (s_data_size s)) as [Hcap|Hcap].
    - (* in place: copy_backward, then copy *)
      rewrite RT. cbn [bind].
      assert (W : exists d2, (d1 <- wr (s_data s) (pos + lr) T ;; wr d1 pos raw) = Ok d2 /\
                   match d2 with
                   | Some b2 => s_data_size s <= lenN b2 /\ firstnN b2 (size + lr) = A ++ raw ++ T
                   | None => size + lr = 0 /\ s_data_size s = 0 /\ A ++ raw ++ T = []
                   end).
      { destruct (s_data s) as [b|] eqn:Eb.
        - destruct HD as [Hs Hd].
          rewrite wr_some by lia. cbn [bind].
          set (d1 := overlay b (pos + lr) T).
          assert (Hd1 : lenN d1 = lenN b) by (apply lenN_overlay; lia).
          rewrite wr_some by (fold lr; lia).
          eexists; split; [reflexivity|]. cbn beta iota.
          split; [rewrite lenN_overlay by (fold lr; lia); lia|].
          unfold overlay at 1. fold lr.
          assert (F1 : firstnN d1 pos = A).
          { unfold d1, overlay, A. rewrite firstnN_app_le by (rewrite lenN_firstnN; lia).
            rewrite firstnN_firstnN. f_equal. lia. }
          assert (S1 : skipnN d1 (pos + lr) = T ++ skipnN b (pos + lr + lenN T)).
          { unfold d1, overlay. apply skipnN_app_exact. rewrite lenN_firstnN. lia. }
          rewrite F1, S1, !app_assoc.
          apply firstnN_app_exact. rewrite !lenN_app. fold lr. lia.
        - destruct HD as [Hs0 Hd0].
          assert (T = []) as -> by (apply lenN_0; lia).
          assert (raw = []) as -> by (apply lenN_0; fold lr; lia).
          assert (A = []) as -> by (apply lenN_0; lia).
          exists None. split; [reflexivity|]. repeat split; lia. }
      destruct W as (d2 & EW & Hd2).
      destruct (wr (s_data s) (pos + lr) T) as [d1|f] eqn:E1; cbn [bind] in EW |- *; [|discriminate].
      rewrite EW. cbn [bind].
      eexists; split; [reflexivity|].
      destruct d2 as [b2|].
      + destruct Hd2 as [L2 C2]. rewrite <- Spec.
        unfold Inv, contents; destruct xe; simp_fields; rewrite wrap_small by lia;
          (repeat split; try assumption; try lia);
          destruct (s_data s); lia.
      + destruct Hd2 as (Z0 & D0 & C0). rewrite <- Spec.
        unfold Inv, contents; destruct xe; simp_fields; rewrite wrap_small by lia;
          (repeat split; try assumption; try lia); rewrite C0; reflexivity.
    - (* reallocation: 2 * data_size + size *)
      destruct (N.ltb_spec (XWORD_MAX / 2) (s_data_size s)) as [Hbad|_].
      { assert (XWORD_MAX / 2 = 2 ^ 63 - 1) by reflexivity. lia. }
      destruct (N.ltb_spec (XWORD_MAX - 2 * s_data_size s) lr) as [Hbad|_]; [lia|].
      set (nds := 2 * s_data_size s + lr).
      set (nd := alloc junk nds).
      assert (Hnd : lenN nd = nds) by apply lenN_alloc.
      assert (Hds : size <= s_data_size s).
      { destruct (s_data s); lia. }
      rewrite RA. cbn [bind].
      (* decompose the new buffer as X ++ Y ++ Z ++ R3 *)
      destruct (split_at nd pos ltac:(lia)) as (X & R1 & End & HX).
      assert (HR1 : lenN R1 = nds - pos) by (rewrite End, lenN_app in Hnd; lia).
      destruct (split_at R1 lr ltac:(lia)) as (Y & R2 & ER1 & HY).
      assert (HR2 : lenN R2 = nds - pos - lr) by (rewrite ER1, lenN_app in HR1; lia).
      destruct (split_at R2 (size - pos) ltac:(lia)) as (Z & R3 & ER2 & HZ).
      rewrite wr_some by lia. cbn [bind].
      assert (O1 : overlay nd 0 A = A ++ R1).
      { rewrite End. change (X ++ R1) with ([] ++ X ++ R1). rewrite overlay_mid by (cbn; lia). reflexivity. }
      rewrite O1.
      rewrite wr_some by (rewrite lenN_app; fold lr; lia). cbn [bind].
      assert (O2 : overlay (A ++ R1) pos raw = A ++ raw ++ R2).
      { rewrite ER1. apply overlay_mid; [assumption|fold lr; lia]. }
      rewrite O2, RT. cbn [bind].
      rewrite wr_some by (rewrite !lenN_app; fold lr; lia). cbn [bind].
      assert (O3 : overlay (A ++ raw ++ R2) (pos + lr) T = A ++ raw ++ T ++ R3).
      { rewrite ER2, (app_assoc A raw (Z ++ R3)).
        rewrite overlay_mid; [now rewrite <- app_assoc | rewrite lenN_app; fold lr; lia | lia]. }
      rewrite O3.
      eexists; split; [reflexivity|].
      assert (Lfin : lenN (A ++ raw ++ T ++ R3) = nds).
      { rewrite <- Hnd, End, ER1, ER2, !lenN_app. fold lr. lia. }
      assert (Cfin : firstnN (A ++ raw ++ T ++ R3) (size + lr) = A ++ raw ++ T).
      { rewrite !app_assoc. apply firstnN_app_exact. rewrite !lenN_app. fold lr. lia. }
      rewrite <- Spec.
      unfold Inv, contents; destruct xe; simp_fields; rewrite wrap_small by lia;
        (repeat split; try assumption; try lia).
  Qed.

  Lemma append_data_spec s raw :
    Inv s -> sh_size s + lenN raw < size_bound (s_cls s) ->
    exists s', append_data junk xe s raw = Ok s' /\ Inv s' /\
      contents s' = contents s ++ raw /\
      s_cls s' = s_cls s /\ sh_type s' = sh_type s /\ sh_size s' <= sh_size s + lenN raw.
  Proof.
    intros HI Hb. unfold append_data.
    destruct (insert_data_spec s (sh_size s) raw HI Hb) as (s' & E & HI' & C & R).
    exists s'. split; [assumption|]. split; [assumption|]. split; [|assumption].
    rewrite C. cbn [spec_step]. pose proof (lenN_contents s HI) as L. rewrite L.
    destruct (N.ltb_spec (sh_size s) (sh_size s)); [lia|].
    rewrite firstnN_all, skipnN_all by lia. now rewrite app_nil_r.
  Qed.

  Fixpoint sum_len (ops : list dop) : N :=
    match ops with
    | [] => 0
    | DSet r :: t | DAppend r :: t | DInsert _ r :: t => lenN r + sum_len t
    end.

  Theorem drun_refines s ops :
    Inv s -> sh_size s + sum_len ops < size_bound (s_cls s) ->
    exists s', drun junk xe ops s = Ok s' /\ Inv s' /\
      contents s' = spec_run ops (contents s) /\ sh_size s' = lenN (contents s').
  Proof.
    revert s; induction ops as [|o t IH]; intros s HI Hb.
    - exists s. cbn [drun spec_run fold_left].
      split; [reflexivity|]. split; [assumption|]. split; [reflexivity|].
      symmetry; now apply lenN_contents.
    - cbn [drun spec_run fold_left].
      assert (Hstep : exists s1, dstep junk xe s o = Ok s1 /\ Inv s1 /\
                 contents s1 = spec_step (contents s) o /\ s_cls s1 = s_cls s /\
                 sh_size s1 + sum_len t < size_bound (s_cls s)).
      { destruct o as [raw|raw|pos raw]; cbn [sum_len dstep] in *.
        - destruct HI as (Hty & _).
          destruct (set_data_spec s raw Hty ltac:(lia)) as (I1 & C1 & S1 & K1 & _).
          eexists; split; [reflexivity|].
          split; [exact I1|]. split; [exact C1|]. split; [exact K1|]. rewrite S1. lia.
        - destruct (append_data_spec s raw HI ltac:(lia)) as (s1 & E & I1 & C1 & K1 & _ & S1).
          exists s1. split; [exact E|]. split; [exact I1|]. split; [exact C1|]. split; [exact K1|]. lia.
        - destruct (insert_data_spec s pos raw HI ltac:(lia)) as (s1 & E & I1 & C1 & K1 & _ & S1).
          exists s1. split; [exact E|]. split; [exact I1|]. split; [exact C1|]. split; [exact K1|]. lia. }
      destruct Hstep as (s1 & -> & I1 & C1 & K1 & B1). cbn [bind].
      rewrite <- K1 in B1.
      destruct (IH s1 I1 B1) as (s' & E & I' & C' & S').
      exists s'. split; [exact E|]. split; [exact I'|]. split; [|exact S']. now rewrite <- C1.
  Qed.

  (* No-bits sections never acquire data *)
  Theorem nobits_never_acquires_data s ops :
    sh_type s = SHT_NOBITS ->
    exists s', drun junk xe ops s = Ok s' /\ s_data s' = s_data s /\ sh_type s' = SHT_NOBITS.
  Proof.
    revert s; induction ops as [|o t IH]; intros s Hty.
    - exists s. now cbn.
    - cbn [drun]. destruct o as [raw|raw|pos raw]; cbn [dstep].
      + cbn [bind].
        assert (T1 : sh_type (set_data xe s raw) = SHT_NOBITS).
        { unfold set_data. rewrite Hty, N.eqb_refl. destruct xe; exact Hty. }
        destruct (IH _ T1) as (s' & E & D & T). exists s'. repeat split; try assumption.
        rewrite D. now apply set_data_nobits.
      + unfold append_data. rewrite insert_data_nobits by assumption. cbn [bind]. now apply IH.
      + rewrite insert_data_nobits by assumption. cbn [bind]. now apply IH.
  Qed.
End Proofs.

(* fresh sections satisfy the invariant *)
Lemma new_section_Inv c : Inv (new_section c).
Proof. unfold Inv, new_section; cbn. repeat split; try lia. discriminate. Qed.
