(* Reader_proofs.v — C02: what load() reports is what the bytes say. *)
From ElfioV Require Import Bytes Mem Stream SectionData SectionData_proofs Strings Strings_proofs Elfio Table Loader Load_proofs Data_proofs Codec_proofs.
From Coq Require Import ZifyBool ZifyN ZifyNat.
Local Open Scope N_scope.

(* the identification check and header decode of load(), as a function of the bytes *)
Definition parse_header (content : bytes) : option ehdr :=
  let ident := firstnN content 16 in
  if negb (lenN ident =? 16) then None
  else if negb ((nthN ident 0 0 =? 127) && (nthN ident 1 0 =? 69) && (nthN ident 2 0 =? 76) && (nthN ident 3 0 =? 70)) then None
  else
    let cb := nthN ident 4 0 in let db := nthN ident 5 0 in
    if negb ((cb =? 2) || (cb =? 1)) then None
    else if negb ((db =? 1) || (db =? 2)) then None
    else
      let c := if cb =? 2 then C64 else C32 in
      let e := if db =? 1 then LSB else MSB in
      if lenN content <? ehdr_size c then None
      else Some (ehdr_of_bytes c e (firstnN content (ehdr_size c))).

Lemma sliceN_0 {A} (l : list A) n : sliceN l 0 n = firstnN l n.
Proof. unfold sliceN. now rewrite skipnN_0. Qed.

Lemma read_at_0 k content n :
  let st := seekg (open_istream k content) 0%Z in
  snd (read st n) = firstnN content n /\ is_content (fst (read st n)) = content /\ st_inv (fst (read st n)) /\
  is_kind (fst (read st n)) = k.
Proof.
  cbv zeta. unfold open_istream, seekg. cbn [is_fail]. cbn [Z.ltb Z.compare is_kind is_len Z.to_N].
  assert (S : (match k with StringBuf => if lenN content <? 0 then mkIstream k content (lenN content) true 0 else mkIstream k content (lenN content) false 0
                          | FileBuf => mkIstream k content (lenN content) false 0 end) = mkIstream k content (lenN content) false 0).
  { destruct k; [destruct (N.ltb_spec (lenN content) 0); [lia|]|]; reflexivity. }
  cbn [is_content is_pos]. rewrite S. unfold read. cbn [is_fail is_content is_pos is_kind is_len].
  rewrite sliceN_0. destruct (_ <? n); cbn; repeat split.
Qed.

Section WithEnv.
  Variable junk : N -> N.

  (* the header the loaded object reports is the decode of the first bytes of
     the file; it is not changed by the section and segment passes *)
  Theorem load_reports_header el k content lazy h :
    xlat_empty (el_xlat el) = true -> parse_header content = Some h ->
    exists el' ok al, load junk el k content lazy = Ok (el', ok, al) /\ el_hdr el' = Some h.
  Proof.
    intros Hx Hp. unfold load. destruct (el_xlat el) as [|x xs] eqn:Ex; [|discriminate]. cbn [xlat_apply].
    destruct (read_at_0 k content 16) as (R1 & R2 & R3 & R4). cbv zeta in *.
    destruct (read (seekg (open_istream k content) 0) 16) as [st2 ident] eqn:ER. cbn [fst snd] in *. subst ident.
    unfold parse_header in Hp.
    destruct (negb (lenN (firstnN content 16) =? 16)); [discriminate|].
    destruct (negb _); [discriminate|].
    destruct (negb ((nthN (firstnN content 16) 4 0 =? 2) || _)); [discriminate|].
    destruct (negb ((nthN (firstnN content 16) 5 0 =? 1) || _)); [discriminate|].
    set (c := if nthN (firstnN content 16) 4 0 =? 2 then C64 else C32) in *.
    set (e := if nthN (firstnN content 16) 5 0 =? 1 then LSB else MSB) in *.
    destruct (N.ltb_spec (lenN content) (ehdr_size c)) as [|Hlen]; [discriminate|]. injection Hp as <-.
    (* second read, again from position 0 *)
    assert (S3 : seekg st2 0 = mkIstream (is_kind st2) content (is_len st2) (is_fail st2) (if is_fail st2 then is_pos st2 else 0)).
    { unfold seekg. destruct (is_fail st2) eqn:F; [destruct st2; cbn in *; subst; reflexivity|].
      cbn [Z.ltb Z.compare Z.to_N]. rewrite <- R2. destruct (is_kind st2); [destruct (N.ltb_spec (is_len st2) 0); [lia|]|]; reflexivity. }
    assert (F2 : is_fail st2 = false).
    { revert ER. unfold read, seekg, open_istream. cbn [is_fail Z.ltb Z.compare is_kind is_len Z.to_N].
      destruct k; [destruct (N.ltb_spec (lenN content) 0); [lia|]|]; cbn [is_fail is_content is_pos];
        rewrite sliceN_0; (destruct (N.ltb_spec (lenN (firstnN content 16)) 16) as [Hs|Hs];
          [rewrite lenN_firstnN in Hs; destruct c; cbn in Hlen; lia|]); intros [= <-]; reflexivity. }
    rewrite S3, F2. unfold read at 1. cbn [is_fail is_content is_pos is_kind is_len]. rewrite sliceN_0.
    assert (LL : lenN (firstnN content (ehdr_size c)) = ehdr_size c) by (rewrite lenN_firstnN; lia).
    rewrite LL, N.ltb_irrefl. cbv beta iota. rewrite LL, N.eqb_refl. cbn [negb].
    assert (FS : fill_struct (ehdr_bytes (new_header c e)) (firstnN content (ehdr_size c)) = firstnN content (ehdr_size c)).
    { unfold fill_struct. rewrite LL. rewrite skipnN_all; [apply app_nil_r|].
      rewrite lenN_ehdr_bytes by (destruct c, e; reflexivity). cbn. lia. }
    rewrite FS.
    set (h1 := ehdr_of_bytes c e (firstnN content (ehdr_size c))).
    set (st4 := mkIstream (is_kind st2) content (is_len st2) false (0 + ehdr_size c)).
    assert (I4 : st_inv st4) by (unfold st_inv in *; cbn; congruence).
    destruct (load_sections_total junk content k st4 (with_stream (with_hdr (with_segs (with_secs el []) []) (Some h1)) (Some st4)) h1 lazy I4
                ltac:(reflexivity) ltac:(exact R4) ltac:(reflexivity) ltac:(reflexivity) ltac:(reflexivity))
      as (st5 & el2 & al1 & -> & (F5 & S5 & stx & Esx & C5 & I5 & K5) & Es2 & H2 & X2 & G2 & L1).
    cbn [bind]. rewrite Es2 in Esx. injection Esx as <-.
    destruct (load_segments_total junk content st5 (with_stream el2 (Some st5)) h1 lazy I5 C5)
      as (st6 & el3 & ok & al2 & -> & FG & S3' & X3 & H3 & _).
    { cbn. exact H2. } { cbn. rewrite G2. reflexivity. }
    cbn [bind]. eexists _, _, _. split; [reflexivity|]. cbn. rewrite H3. cbn. exact H2.
  Qed.

  (* ... and on a file that begins with the encoding of a header, that header *)
  Theorem parse_header_of_encoding h rest :
    ehdr_wf h ->
    nthN (e_ident h) 0 0 = 127 -> nthN (e_ident h) 1 0 = 69 -> nthN (e_ident h) 2 0 = 76 -> nthN (e_ident h) 3 0 = 70 ->
    nthN (e_ident h) 4 0 = cls_byte (e_cls h) -> nthN (e_ident h) 5 0 = enc_byte (e_enc h) ->
    parse_header (ehdr_bytes h ++ rest) = Some h.
  Proof.
    intros Hwf M0 M1 M2 M3 M4 M5. pose proof Hwf as (Hi & _).
    assert (L : lenN (ehdr_bytes h) = ehdr_size (e_cls h)) by now apply lenN_ehdr_bytes.
    assert (F16 : firstnN (ehdr_bytes h ++ rest) 16 = e_ident h).
    { unfold ehdr_bytes. rewrite <- app_assoc. now apply firstnN_app_exact. }
    unfold parse_header. rewrite F16, Hi, M0, M1, M2, M3, M4, M5. cbn [N.eqb Pos.eqb negb andb].
    assert (C : (if cls_byte (e_cls h) =? 2 then C64 else C32) = e_cls h) by (destruct (e_cls h); reflexivity).
    assert (E : (if enc_byte (e_enc h) =? 1 then LSB else MSB) = e_enc h) by (destruct (e_enc h); reflexivity).
    assert (B1 : negb ((cls_byte (e_cls h) =? 2) || (cls_byte (e_cls h) =? 1)) = false) by (destruct (e_cls h); reflexivity).
    assert (B2 : negb ((enc_byte (e_enc h) =? 1) || (enc_byte (e_enc h) =? 2)) = false) by (destruct (e_enc h); reflexivity).
    rewrite B1, B2, C, E. rewrite lenN_app, L.
    destruct (N.ltb_spec (ehdr_size (e_cls h) + lenN rest) (ehdr_size (e_cls h))); [lia|].
    rewrite firstnN_app_exact by exact L. f_equal. now apply ehdr_roundtrip.
  Qed.

  (* a section header table entry: the section reports the fields encoded there *)
  Theorem section_load_reports st enc c idx (pos : N) lazy s' :
    is_fail st = false -> st_inv st -> pos < 2 ^ 63 -> pos + shdr_size c <= lenN (is_content st) ->
    s_cls s' = c -> shdr_wf s' ->
    sliceN (is_content st) pos (shdr_size c) = shdr_bytes enc s' ->
    exists st' r al,
      section_load junk st [] enc (with_index (new_section c) idx) (Z.of_N pos) lazy = Ok (st', r, al) /\
      sh_name r = sh_name s' /\ sh_type r = sh_type s' /\ sh_flags r = sh_flags s' /\ sh_addr r = sh_addr s' /\
      sh_offset r = sh_offset s' /\ sh_size r = sh_size s' /\ sh_link r = sh_link s' /\ sh_info r = sh_info s' /\
      sh_addralign r = sh_addralign s' /\ sh_entsize r = sh_entsize s' /\ s_index r = idx.
  Proof.
    intros Hf Hi Hp Hin Hc Hwf Hsl. rewrite section_load_unfold. cbn [xlat_empty xlat_apply].
    unfold section_load_rest. cbn [xlat_apply]. set (s0 := with_index (new_section c) idx).
    assert (E1 : seekg_end st = mkIstream (is_kind st) (is_content st) (is_len st) false (is_len st)).
    { unfold seekg_end. now rewrite Hf. }
    rewrite E1. set (st1 := mkIstream (is_kind st) (is_content st) (is_len st) false (is_len st)).
    assert (Hz : Z.of_N pos = to_signed64 pos).
    { unfold to_signed64. rewrite N.mod_small by lia. destruct (N.ltb_spec pos (2 ^ 63)); lia. }
    rewrite Hz.
    destruct (seek_read st1 pos (shdr_size c) eq_refl Hi Hp Hin) as [R1 R2].
    change (s_cls s0) with c.
    destruct (read (seekg st1 (to_signed64 pos)) (shdr_size c)) as [st3 got] eqn:ER. cbn [fst snd] in R1, R2.
    change (is_content st1) with (is_content st) in R1. subst got. rewrite Hsl.
    rewrite (lenN_shdr_bytes enc s'), Hc, N.eqb_refl. cbn [negb].
    assert (FS : fill_struct (shdr_bytes enc s0) (shdr_bytes enc s') = shdr_bytes enc s').
    { unfold fill_struct. rewrite skipnN_all; [apply app_nil_r|]. rewrite !lenN_shdr_bytes, Hc. cbn. lia. }
    rewrite FS.
    set (r1 := sec_with_raw enc (with_stream_size s0 (tellg_size st1)) (shdr_bytes enc s')).
    destruct (shdr_roundtrip enc (with_stream_size s0 (tellg_size st1)) s' ltac:(cbn; congruence) Hwf)
      as (A1 & A2 & A3 & A4 & A5 & A6 & A7 & A8 & A9 & A10). cbv zeta in *. fold r1 in A1, A2, A3, A4, A5, A6, A7, A8, A9, A10.
    set (r2 := with_load_flags r1 lazy (s_loaded r1) (s_can_load r1)).
    destruct (lazy || s_loaded r2).
    - exists st3, r2, []. split; [reflexivity|]. unfold r2. cbn. repeat split; assumption.
    - assert (F2 : fits r2) by (unfold fits; cbn; exact I).
      destruct (sec_get_data_total junk st3 [] r2 F2) as (st4 & r3 & al & -> & _ & HS & _).
      cbn [bind]. exists st4, r3, al. split; [reflexivity|].
      destruct HS as (B1 & B2 & B3 & B4 & B5 & B6 & B7 & B8 & B9 & B10 & _ & _ & B13 & _).
      rewrite B1, B2, B3, B4, B5, B6, B7, B8, B9, B10, B13. unfold r2. cbn. repeat split; assumption.
  Qed.

  Theorem section_load_reports_lazy st enc c idx (pos : N) s' :
    is_fail st = false -> st_inv st -> pos < 2 ^ 63 -> pos + shdr_size c <= lenN (is_content st) ->
    s_cls s' = c -> shdr_wf s' ->
    sliceN (is_content st) pos (shdr_size c) = shdr_bytes enc s' ->
    exists st' r al,
      section_load junk st [] enc (with_index (new_section c) idx) (Z.of_N pos) true = Ok (st', r, al) /\
      is_fail st' = false /\ st_inv st' /\ is_content st' = is_content st /\ is_kind st' = is_kind st /\
      s_data r = None /\ s_stream_size r = lenN (is_content st) /\ s_cls r = c /\ al = [] /\
      sh_name r = sh_name s' /\ sh_type r = sh_type s' /\ sh_flags r = sh_flags s' /\ sh_addr r = sh_addr s' /\
      sh_offset r = sh_offset s' /\ sh_size r = sh_size s' /\ sh_link r = sh_link s' /\ sh_info r = sh_info s' /\
      sh_addralign r = sh_addralign s' /\ sh_entsize r = sh_entsize s' /\ s_index r = idx.
  Proof.
    intros Hf Hi Hp Hin Hc Hwf Hsl. rewrite section_load_unfold. cbn [xlat_empty xlat_apply].
    unfold section_load_rest. cbn [xlat_apply]. set (s0 := with_index (new_section c) idx).
    assert (E1 : seekg_end st = mkIstream (is_kind st) (is_content st) (is_len st) false (is_len st)).
    { unfold seekg_end. now rewrite Hf. }
    rewrite E1. set (st1 := mkIstream (is_kind st) (is_content st) (is_len st) false (is_len st)).
    assert (Hz : Z.of_N pos = to_signed64 pos).
    { unfold to_signed64. rewrite N.mod_small by lia. destruct (N.ltb_spec pos (2 ^ 63)); lia. }
    rewrite Hz.
    destruct (seek_read st1 pos (shdr_size c) eq_refl Hi Hp Hin) as [R1 R2].
    change (s_cls s0) with c.
    destruct (read (seekg st1 (to_signed64 pos)) (shdr_size c)) as [st3 got] eqn:ER. cbn [fst snd] in R1, R2.
    change (is_content st1) with (is_content st) in R1. subst got. rewrite Hsl.
    rewrite (lenN_shdr_bytes enc s'), Hc, N.eqb_refl. cbn [negb].
    assert (FS : fill_struct (shdr_bytes enc s0) (shdr_bytes enc s') = shdr_bytes enc s').
    { unfold fill_struct. rewrite skipnN_all; [apply app_nil_r|]. rewrite !lenN_shdr_bytes, Hc. cbn. lia. }
    rewrite FS.
    set (r1 := sec_with_raw enc (with_stream_size s0 (tellg_size st1)) (shdr_bytes enc s')).
    destruct (shdr_roundtrip enc (with_stream_size s0 (tellg_size st1)) s' ltac:(cbn; congruence) Hwf)
      as (A1 & A2 & A3 & A4 & A5 & A6 & A7 & A8 & A9 & A10). cbv zeta in *. fold r1 in A1, A2, A3, A4, A5, A6, A7, A8, A9, A10.
    set (r2 := with_load_flags r1 true (s_loaded r1) (s_can_load r1)).
    cbn [orb]. exists st3, r2, []. split; [reflexivity|].
    pose proof (read_content (seekg st1 (to_signed64 pos)) (shdr_size c)) as (M1 & M2 & M3). rewrite ER in M1, M2, M3. cbn [fst] in *.
    pose proof (seekg_content st1 (to_signed64 pos)) as (N1 & N2 & N3).
    split; [exact R2|]. split; [unfold st_inv in *; cbn in *; congruence|]. split; [cbn in *; congruence|]. split; [cbn in *; congruence|].
    split; [reflexivity|]. split; [unfold r2, r1; cbn; unfold tellg_size; cbn; exact Hi|]. split; [reflexivity|]. split; [reflexivity|].
    unfold r2. cbn. repeat split; assumption.
  Qed.

  (* the whole section header table: every entry is reported, in order *)
  Definition same_hdr (s r : section) : Prop :=
    sh_name r = sh_name s /\ sh_type r = sh_type s /\ sh_flags r = sh_flags s /\ sh_addr r = sh_addr s /\
    sh_offset r = sh_offset s /\ sh_size r = sh_size s /\ sh_link r = sh_link s /\ sh_info r = sh_info s /\
    sh_addralign r = sh_addralign s /\ sh_entsize r = sh_entsize s.

  Lemma table_pos_plain shoff i es : shoff < 2 ^ 63 -> table_pos shoff i es = Z.of_N (shoff + i * es).
  Proof.
    intros H. unfold table_pos, to_signed64. rewrite N.mod_small by lia.
    destruct (N.ltb_spec shoff (2 ^ 63)); lia.
  Qed.

  Theorem load_sections_loop_reports enc c shoff es : forall (secs : list section) fuel st i racc allocs,
    is_fail st = false -> st_inv st -> shoff < 2 ^ 62 -> shdr_size c <= es ->
    shoff + (i + lenN secs) * es < 2 ^ 62 -> shoff + (i + lenN secs) * es <= lenN (is_content st) ->
    Forall (fun s => s_cls s = c /\ shdr_wf s) secs ->
    (forall k s, nth_optN secs k = Some s -> sliceN (is_content st) (shoff + (i + k) * es) (shdr_size c) = shdr_bytes enc s) ->
    (length secs <= fuel)%nat ->
    exists st' loaded,
      load_sections_loop junk fuel st [] c enc shoff es i (i + lenN secs) true racc allocs = Ok (st', rev loaded ++ racc, allocs) /\
      is_fail st' = false /\ st_inv st' /\ is_content st' = is_content st /\
      Forall2 same_hdr secs loaded /\
      Forall (fun r => s_data r = None /\ s_stream_size r = lenN (is_content st) /\ s_cls r = c) loaded /\
      (forall k r, nth_optN loaded k = Some r -> s_index r = wrap16 (i + k)).
  Proof.
    induction secs as [|s t IH]; intros fuel st i racc allocs Hf Hi H62 Hes Hb1 Hb2 Hwf Hsl Hfuel.
    - cbn [lenN] in *. rewrite N.add_0_r. exists st, []. cbn [rev app].
      destruct fuel; cbn [load_sections_loop]; [|rewrite N.ltb_irrefl]; repeat split; auto; intros k r Hk; discriminate.
    - rewrite lenN_cons in *. destruct fuel as [|f]; [cbn in Hfuel; lia|]. cbn [length] in Hfuel.
      inversion Hwf as [|? ? [Hc Hw] Hwt]; subst.
      cbn [load_sections_loop]. destruct (N.ltb_spec i (i + (1 + lenN t))); [|lia].
      rewrite table_pos_plain by lia.
      assert (Hs0 : sliceN (is_content st) (shoff + i * es) (shdr_size (s_cls s)) = shdr_bytes enc s).
      { specialize (Hsl 0 s eq_refl). now rewrite N.add_0_r in Hsl. }
      destruct (section_load_reports_lazy st enc (s_cls s) (wrap16 i) (shoff + i * es) s Hf Hi) as
        (st1 & r & al & -> & F1 & I1 & C1 & K1 & D1 & SS1 & CL1 & -> & A1 & A2 & A3 & A4 & A5 & A6 & A7 & A8 & A9 & A10 & A11);
        [nia|nia|reflexivity|exact Hw|exact Hs0|].
      cbn [bind app].
      set (r' := with_addr r (sh_addr r)).
      replace (i + (1 + lenN t)) with ((i + 1) + lenN t) by lia.
      destruct (IH f st1 (i + 1) (r' :: racc) allocs F1 I1 H62 Hes) as (st' & loaded & -> & F' & I' & C' & H2 & H3 & H4).
      + lia. + rewrite C1. lia. + exact Hwt.
      + intros k s' Hk. rewrite C1. replace (i + 1 + k) with (i + (k + 1)) by lia. apply Hsl.
        cbn [nth_optN]. destruct (N.eqb_spec (k + 1) 0); [lia|]. now replace (k + 1 - 1) with k by lia.
      + lia.
      + exists st', (r' :: loaded). cbn [rev]. rewrite <- app_assoc. cbn [app].
        split; [reflexivity|]. split; [exact F'|]. split; [exact I'|]. split; [congruence|]. split.
        * constructor; [|exact H2]. unfold same_hdr, r'. cbn [sh_name sh_type sh_flags sh_addr sh_offset sh_size sh_link sh_info sh_addralign sh_entsize with_addr].
          destruct Hw as (_ & _ & _ & Hwa & _). rewrite CL1. unfold wrap. rewrite N.mod_small by (rewrite A4; unfold fw in Hwa; destruct (s_cls s); exact Hwa).
          repeat split; assumption.
        * split.
          -- constructor; [|rewrite <- C1; exact H3]. unfold r'. cbn. rewrite CL1. auto.
          -- intros k r0 Hk. cbn [nth_optN] in Hk. destruct (N.eqb_spec k 0) as [->|Hk0].
             ++ injection Hk as <-. unfold r'. cbn [s_index with_addr]. rewrite A11. now rewrite N.add_0_r.
             ++ rewrite (H4 _ _ Hk). f_equal. lia.
  Qed.

  (* a section's name is the NUL-terminated string found at its name offset in
     the section-name string table *)
  Theorem name_is_cstring_at_offset (b : bytes) size idx nm :
    size <= lenN b ->
    get_string_raw (Some b) size idx = Ok (Some nm) ->
    idx + lenN nm < size /\ nul_free nm /\ sliceN (firstnN b size) idx (lenN nm + 1) = nm ++ [0].
  Proof.
    intros Hs H. rewrite get_string_contents in H by exact Hs. injection H as H.
    destruct (gs_c_sound _ _ _ H) as (A & B & C). rewrite lenN_firstnN in A. split; [lia|]. auto.
  Qed.

  (* which sections a segment reports as members *)
  Definition member_spec (g : segment) (s : section) : bool :=
    let inside :=
      if N.land (sh_flags s) SHF_ALLOC =? SHF_ALLOC
      then is_sect_in_seg (sh_addr s) (sh_size s) (p_vaddr g) (wrap64 (p_vaddr g + p_memsz g))
      else is_sect_in_seg (sh_offset s) (sh_size s) (p_offset g) (wrap64 (p_offset g + p_filesz g)) in
    let tls := N.land (sh_flags s) SHF_TLS =? SHF_TLS in
    inside && negb (((p_type g =? PT_TLS) && negb tls) || (tls && negb (p_type g =? PT_TLS))).

  Lemma seg_members_acc g secs : forall acc,
    fold_left (fun acc s => if member_spec g s then acc ++ [s_index s] else acc) secs acc =
    acc ++ map s_index (filter (member_spec g) secs).
  Proof.
    induction secs as [|s t IH]; intro acc; cbn [fold_left filter map]; [now rewrite app_nil_r|].
    rewrite IH. destruct (member_spec g s); cbn [map]; [rewrite <- app_assoc|]; reflexivity.
  Qed.

  Theorem seg_members_exact g secs : seg_members g secs = map s_index (filter (member_spec g) secs).
  Proof. unfold seg_members. change (map s_index (filter (member_spec g) secs)) with ([] ++ map s_index (filter (member_spec g) secs)).
    rewrite <- (seg_members_acc g secs []). reflexivity. Qed.
End WithEnv.
