(* Prefix_proofs.v — C17: the ELF header a truncated file yields.  Loading a prefix of a file either fails
   or reports exactly the header the complete file reports. *)
From ElfioV Require Import Bytes Mem Stream SectionData SectionData_proofs Strings Strings_proofs Elfio Table Loader Load_proofs Data_proofs Codec_proofs Reader_proofs.
From Coq Require Import ZifyBool ZifyN ZifyNat.
Local Open Scope N_scope.

Lemma lenN_firstnN_min {A} (l : list A) n : lenN (firstnN l n) = N.min n (lenN l).
Proof. rewrite firstnN_firstn, !lenN_length, firstn_length. lia. Qed.

Lemma ehdr_size_ge c : 52 <= ehdr_size c.
Proof. destruct c; vm_compute; discriminate. Qed.

(* the header decode of a prefix, when it succeeds, is the header decode of the whole file *)
Lemma parse_header_prefix (f : bytes) n h : parse_header (firstnN f n) = Some h -> parse_header f = Some h.
Proof.
  unfold parse_header. rewrite firstnN_firstnN.
  destruct (N.eqb_spec (lenN (firstnN f (N.min 16 n))) 16) as [E16|]; cbn [negb]; [|discriminate].
  rewrite lenN_firstnN_min in E16.
  assert (Hn : 16 <= n) by lia. assert (Hf : 16 <= lenN f) by lia.
  replace (N.min 16 n) with 16 by lia.
  destruct (N.eqb_spec (lenN (firstnN f 16)) 16) as [_|X]; [|rewrite lenN_firstnN_min in X; lia]. cbn [negb].
  destruct (negb (_ && _ && _ && _)); [discriminate|].
  destruct (negb ((nthN (firstnN f 16) 4 0 =? 2) || _)); [discriminate|].
  destruct (negb ((nthN (firstnN f 16) 5 0 =? 1) || _)); [discriminate|].
  set (c := if nthN (firstnN f 16) 4 0 =? 2 then C64 else C32).
  rewrite lenN_firstnN_min.
  destruct (N.ltb_spec (N.min n (lenN f)) (ehdr_size c)); [discriminate|].
  destruct (N.ltb_spec (lenN f) (ehdr_size c)); [lia|].
  rewrite firstnN_firstnN. replace (N.min (ehdr_size c) n) with (ehdr_size c) by lia. auto.
Qed.

Lemma read_got_content st n : lenN (snd (read st n)) <= lenN (is_content st).
Proof.
  unfold read. destruct (is_fail st); [cbn; lia|].
  assert (H : lenN (sliceN (is_content st) (is_pos st) n) <= lenN (is_content st)).
  { unfold sliceN. rewrite lenN_firstnN, lenN_skipnN. lia. }
  destruct (_ <? n); cbn [snd]; exact H.
Qed.

Section WithEnv.
  Variable junk : N -> N.

  (* without a decodable header load() reports failure *)
  Theorem load_fails_without_header el k content lazy :
    xlat_empty (el_xlat el) = true -> parse_header content = None ->
    exists el' al, load junk el k content lazy = Ok (el', false, al).
  Proof.
    intros Hx Hp. unfold load. destruct (el_xlat el) as [|x xs] eqn:Ex; [|discriminate]. cbn [xlat_apply].
    destruct (read_at_0 k content 16) as (R1 & R2 & R3 & R4). cbv zeta in *.
    destruct (read (seekg (open_istream k content) 0) 16) as [st2 ident] eqn:ER. cbn [fst snd] in *. subst ident.
    unfold parse_header in Hp.
    destruct (negb (lenN (firstnN content 16) =? 16)); [eauto|].
    destruct (negb _); [eauto|].
    destruct (negb ((nthN (firstnN content 16) 4 0 =? 2) || _)); [eauto|].
    destruct (negb ((nthN (firstnN content 16) 5 0 =? 1) || _)); [eauto|].
    set (c := if nthN (firstnN content 16) 4 0 =? 2 then C64 else C32) in *.
    destruct (N.ltb_spec (lenN content) (ehdr_size c)) as [Hlt|]; [|discriminate].
    (* the second read starts at 0 again on the same content *)
    destruct (read (seekg st2 0) (ehdr_size c)) as [st4 got] eqn:ER2.
    assert (Hgot : lenN got <= lenN content).
    { pose proof (read_got_content (seekg st2 0) (ehdr_size c)) as H. rewrite ER2 in H. cbn [snd fst] in H.
      destruct (seekg_content st2 0%Z) as (Sc & _). rewrite Sc, R2 in H. exact H. }
    destruct (N.eqb_spec (lenN got) (ehdr_size c)); [lia|]. cbn [negb]. eauto.
  Qed.

  (* a table entry that is not completely inside the stream reads as an empty section: every field zero *)
  Definition hdr_all_zero (r : section) : Prop :=
    sh_name r = 0 /\ sh_type r = 0 /\ sh_flags r = 0 /\ sh_addr r = 0 /\ sh_offset r = 0 /\ sh_size r = 0 /\
    sh_link r = 0 /\ sh_info r = 0 /\ sh_addralign r = 0 /\ sh_entsize r = 0 /\ s_data r = None.

  Lemma zero_header_fields c enc idx ss lazy :
    let s0 := with_index (new_section c) idx in
    let z := sec_with_raw enc (with_stream_size s0 ss) (repeatN 0 (shdr_size (s_cls s0))) in
    hdr_all_zero (with_load_flags z lazy (s_loaded z) (s_can_load z)).
  Proof. destruct c, enc; repeat split. Qed.

  Lemma short_read st (pos : N) n :
    is_fail st = false -> st_inv st -> pos < 2 ^ 63 -> lenN (is_content st) < pos + n -> 0 < n ->
    lenN (snd (read (seekg st (to_signed64 pos)) n)) <> n.
  Proof.
    intros Hf Hi Hp Hout Hn. destruct (to_of_signed pos Hp) as [T1 T2].
    unfold seekg. rewrite Hf. destruct (Z.ltb_spec (to_signed64 pos) 0); [lia|]. rewrite T1.
    assert (Hs : forall st2, is_content st2 = is_content st -> is_pos st2 = pos -> lenN (snd (read st2 n)) <> n).
    { intros st2 Hc Hps. unfold read. destruct (is_fail st2); [cbn; lia|].
      assert (L : lenN (sliceN (is_content st2) (is_pos st2) n) < n).
      { unfold sliceN. rewrite lenN_firstnN, lenN_skipnN, Hc, Hps. lia. }
      destruct (_ <? n); cbn [snd]; lia. }
    destruct (is_kind st).
    - destruct (N.ltb_spec (is_len st) pos).
      + unfold read. cbn [is_fail snd lenN]. lia.
      + apply Hs; reflexivity.
    - apply Hs; reflexivity.
  Qed.

  Theorem section_load_cut_entry_is_empty st enc c idx (pos : N) lazy :
    is_fail st = false -> st_inv st -> pos < 2 ^ 63 -> lenN (is_content st) < pos + shdr_size c ->
    exists st' r,
      section_load junk st [] enc (with_index (new_section c) idx) (Z.of_N pos) lazy = Ok (st', r, []) /\ hdr_all_zero r.
  Proof.
    intros Hf Hi Hp Hout. rewrite section_load_unfold. cbn [xlat_empty xlat_apply].
    unfold section_load_rest. cbn [xlat_apply]. set (s0 := with_index (new_section c) idx).
    assert (E1 : seekg_end st = mkIstream (is_kind st) (is_content st) (is_len st) false (is_len st)).
    { unfold seekg_end. now rewrite Hf. }
    rewrite E1. set (st1 := mkIstream (is_kind st) (is_content st) (is_len st) false (is_len st)).
    assert (Hz : Z.of_N pos = to_signed64 pos).
    { unfold to_signed64. rewrite N.mod_small by lia. destruct (N.ltb_spec pos (2 ^ 63)); lia. }
    rewrite Hz. change (s_cls s0) with c.
    pose proof (short_read st1 pos (shdr_size c) eq_refl Hi Hp Hout ltac:(destruct c; vm_compute; reflexivity)) as Hsh.
    destruct (read (seekg st1 (to_signed64 pos)) (shdr_size c)) as [st3 got] eqn:ER. cbn [snd] in Hsh.
    destruct (N.eqb_spec (lenN got) (shdr_size c)); [contradiction|]. cbn [negb].
    eexists _, _. split; [reflexivity|]. apply zero_header_fields.
  Qed.

  (* C17, section header table: entry [pos .. pos + size) of a file, read from any prefix of the file, is reported
     either with exactly the fields the complete file yields or as an empty section (every field zero, no data) *)
  Theorem prefix_section_header_absent_or_identical k (f : bytes) n enc c idx (pos : N) lazy s' :
    pos < 2 ^ 63 -> pos + shdr_size c <= lenN f -> s_cls s' = c -> shdr_wf s' ->
    sliceN f pos (shdr_size c) = shdr_bytes enc s' ->
    exists st' r al,
      section_load junk (open_istream k (firstnN f n)) [] enc (with_index (new_section c) idx) (Z.of_N pos) lazy = Ok (st', r, al) /\
      ((sh_name r = sh_name s' /\ sh_type r = sh_type s' /\ sh_flags r = sh_flags s' /\ sh_addr r = sh_addr s' /\
        sh_offset r = sh_offset s' /\ sh_size r = sh_size s' /\ sh_link r = sh_link s' /\ sh_info r = sh_info s' /\
        sh_addralign r = sh_addralign s' /\ sh_entsize r = sh_entsize s') \/ hdr_all_zero r).
  Proof.
    intros Hp Hin Hc Hwf Hsl.
    destruct (N.le_gt_cases (pos + shdr_size c) n) as [Hle|Hgt].
    - assert (Hsl' : sliceN (firstnN f n) pos (shdr_size c) = shdr_bytes enc s').
      { rewrite <- Hsl. unfold sliceN. rewrite !firstnN_firstn, !skipnN_skipn.
        rewrite skipn_firstn_comm, firstn_firstn. f_equal. lia. }
      destruct (section_load_reports junk (open_istream k (firstnN f n)) enc c idx pos lazy s' eq_refl eq_refl Hp
                  ltac:(cbn [is_content open_istream]; rewrite lenN_firstnN_min; lia) Hc Hwf Hsl')
        as (st' & r & al & E & A1 & A2 & A3 & A4 & A5 & A6 & A7 & A8 & A9 & A10 & _).
      exists st', r, al. split; [exact E|]. left. repeat split; assumption.
    - destruct (section_load_cut_entry_is_empty (open_istream k (firstnN f n)) enc c idx pos lazy eq_refl eq_refl Hp
                  ltac:(cbn [is_content open_istream]; rewrite lenN_firstnN_min; lia)) as (st' & r & E & Z).
      exists st', r, []. split; [exact E|]. right. exact Z.
  Qed.

  (* ... and so does every entry read from a stream that has already failed *)
  Lemma section_load_failed_is_empty st enc c idx pos lazy :
    is_fail st = true ->
    exists r, section_load junk st [] enc (with_index (new_section c) idx) pos lazy = Ok (st, r, []) /\ hdr_all_zero r /\ s_index r = idx.
  Proof.
    intros Hf. rewrite section_load_unfold. cbn [xlat_empty xlat_apply]. unfold section_load_rest. cbn [xlat_apply].
    rewrite (seekg_end_failed st Hf), (seekg_failed st _ Hf), (read_failed st _ Hf).
    change (s_cls (with_index (new_section c) idx)) with c.
    destruct (N.eqb_spec (lenN (@nil N)) (shdr_size c)) as [E|_]; [destruct c; discriminate E|]. cbn [negb].
    eexists. split; [reflexivity|]. split; [apply zero_header_fields|]. destruct c, enc; reflexivity.
  Qed.

  (* the whole section header table of a prefix.  [secs] are encoded entry after entry at shoff of the complete file
     f; the stream holds a prefix of f (any length), in any state.  The loop of load_sections reports, index by
     index, either exactly the encoded header fields or an empty section - never anything else *)
  Definition same_or_empty (s r : section) : Prop := same_hdr s r \/ hdr_all_zero r.

  Theorem load_sections_loop_of_prefix enc c shoff es (f : bytes) n : forall (secs : list section) fuel st i racc allocs,
    st_inv st -> is_content st = firstnN f n -> shoff < 2 ^ 62 -> shdr_size c <= es ->
    shoff + (i + lenN secs) * es < 2 ^ 62 ->
    Forall (fun s => s_cls s = c /\ shdr_wf s) secs ->
    (forall k s, nth_optN secs k = Some s -> shoff + (i + k) * es + shdr_size c <= lenN f /\
                                             sliceN f (shoff + (i + k) * es) (shdr_size c) = shdr_bytes enc s) ->
    (length secs <= fuel)%nat ->
    exists st' loaded allocs',
      load_sections_loop junk fuel st [] c enc shoff es i (i + lenN secs) true racc allocs = Ok (st', rev loaded ++ racc, allocs') /\
      st_inv st' /\ is_content st' = firstnN f n /\ Forall2 same_or_empty secs loaded.
  Proof.
    induction secs as [|s t IH]; intros fuel st i racc allocs Hi Hc H62 Hes Hb1 Hwf Hsl Hfuel.
    - cbn [lenN] in *. rewrite N.add_0_r. exists st, [], allocs. cbn [rev app].
      destruct fuel; cbn [load_sections_loop]; [|rewrite N.ltb_irrefl]; repeat split; auto; constructor.
    - rewrite lenN_cons in *. destruct fuel as [|fu]; [cbn in Hfuel; lia|]. cbn [length] in Hfuel.
      inversion Hwf as [|? ? [Hcl Hw] Hwt]; subst.
      cbn [load_sections_loop]. destruct (N.ltb_spec i (i + (1 + lenN t))); [|lia].
      rewrite (table_pos_plain junk) by lia.
      destruct (Hsl 0 s eq_refl) as [Hin0 Hs0]. rewrite N.add_0_r in Hin0, Hs0.
      assert (Hstep : exists st1 r al, section_load junk st [] enc (with_index (new_section (s_cls s)) (wrap16 i)) (Z.of_N (shoff + i * es)) true = Ok (st1, r, al) /\
                        st_inv st1 /\ is_content st1 = firstnN f n /\ ((same_hdr s r /\ s_cls r = s_cls s) \/ hdr_all_zero r)).
      { destruct (section_load_total junk st [] enc (s_cls s) (wrap16 i) (Z.of_N (shoff + i * es)) true Hi) as (st1 & r & al & E & _ & C1 & I1 & _).
        exists st1, r, al. split; [exact E|]. split; [exact I1|]. split; [congruence|].
        destruct (is_fail st) eqn:Hf.
        - destruct (section_load_failed_is_empty st enc (s_cls s) (wrap16 i) (Z.of_N (shoff + i * es)) true Hf) as (r0 & E0 & Z0 & _).
          rewrite E in E0. injection E0 as _ <- _. right. exact Z0.
        - destruct (N.le_gt_cases (shoff + i * es + shdr_size (s_cls s)) n) as [Hle|Hgt].
          + assert (Hsl' : sliceN (firstnN f n) (shoff + i * es) (shdr_size (s_cls s)) = shdr_bytes enc s).
            { rewrite <- Hs0. unfold sliceN. rewrite !firstnN_firstn, !skipnN_skipn.
              rewrite skipn_firstn_comm, firstn_firstn. f_equal. lia. }
            destruct (section_load_reports_lazy junk st enc (s_cls s) (wrap16 i) (shoff + i * es) s Hf Hi ltac:(lia)
                        ltac:(rewrite Hc, lenN_firstnN_min; lia) eq_refl Hw ltac:(rewrite Hc; exact Hsl'))
              as (st' & r' & al' & E' & _ & _ & _ & _ & _ & _ & CL1 & _ & A1 & A2 & A3 & A4 & A5 & A6 & A7 & A8 & A9 & A10 & _).
            rewrite E in E'. injection E' as _ <- _. left. split; [unfold same_hdr; repeat split; assumption|exact CL1].
          + destruct (section_load_cut_entry_is_empty st enc (s_cls s) (wrap16 i) (shoff + i * es) true Hf Hi ltac:(lia)
                        ltac:(rewrite Hc, lenN_firstnN_min; lia)) as (st' & r' & E' & Z').
            rewrite E in E'. injection E' as _ <- _. right. exact Z'. }
      destruct Hstep as (st1 & r & al & -> & I1 & C1 & SE). cbn [bind].
      set (r' := with_addr r (sh_addr r)).
      replace (i + (1 + lenN t)) with ((i + 1) + lenN t) by lia.
      destruct (IH fu st1 (i + 1) (r' :: racc) (al ++ allocs) I1 C1 H62 Hes) as (st' & loaded & allocs' & -> & I' & C' & H2).
      + lia. + exact Hwt.
      + intros k s' Hk. replace (i + 1 + k) with (i + (k + 1)) by lia. apply Hsl.
        cbn [nth_optN]. destruct (N.eqb_spec (k + 1) 0); [lia|]. now replace (k + 1 - 1) with k by lia.
      + lia.
      + exists st', (r' :: loaded), allocs'. cbn [rev]. rewrite <- app_assoc. cbn [app].
        split; [reflexivity|]. split; [exact I'|]. split; [exact C'|].
        constructor; [|exact H2].
        destruct SE as [[SH CL]|Z].
        * left. unfold same_hdr, r' in *. cbn [sh_name sh_type sh_flags sh_addr sh_offset sh_size sh_link sh_info sh_addralign sh_entsize with_addr].
          destruct SH as (A1 & A2 & A3 & A4 & A5 & A6 & A7 & A8 & A9 & A10).
          destruct Hw as (_ & _ & _ & Hwa & _). rewrite CL. unfold wrap. rewrite N.mod_small by (rewrite A4; unfold fw in Hwa; destruct (s_cls s); exact Hwa).
          repeat split; assumption.
        * right. unfold hdr_all_zero, r' in *. cbn [sh_name sh_type sh_flags sh_addr sh_offset sh_size sh_link sh_info sh_addralign sh_entsize with_addr s_data].
          destruct Z as (Z1 & Z2 & Z3 & Z4 & Z5 & Z6 & Z7 & Z8 & Z9 & Z10 & Z11). rewrite Z4. unfold wrap. rewrite N.mod_0_l by (apply N.pow_nonzero; lia).
          repeat split; assumption.
  Qed.

  (* ---------- program header table ---------- *)
  Lemma read_short_fails st (pos : N) n :
    is_fail st = false -> st_inv st -> pos < 2 ^ 63 -> lenN (is_content st) < pos + n -> 0 < n ->
    is_fail (fst (read (seekg st (to_signed64 pos)) n)) = true.
  Proof.
    intros Hf Hi Hp Hout Hn. destruct (to_of_signed pos Hp) as [T1 T2].
    unfold seekg. rewrite Hf. destruct (Z.ltb_spec (to_signed64 pos) 0); [lia|]. rewrite T1.
    assert (Hs : forall st2, is_fail st2 = false -> is_content st2 = is_content st -> is_pos st2 = pos -> is_fail (fst (read st2 n)) = true).
    { intros st2 Hf2 Hc Hps. unfold read. rewrite Hf2.
      assert (L : lenN (sliceN (is_content st2) (is_pos st2) n) < n).
      { unfold sliceN. rewrite lenN_firstnN, lenN_skipnN, Hc, Hps. lia. }
      destruct (N.ltb_spec (lenN (sliceN (is_content st2) (is_pos st2) n)) n); [reflexivity|lia]. }
    destruct (is_kind st).
    - destruct (N.ltb_spec (is_len st) pos).
      + unfold read. reflexivity.
      + apply Hs; reflexivity.
    - apply Hs; reflexivity.
  Qed.

  Lemma seg_load_data_keeps_failure st0 t g sto g1 ok al :
    is_fail st0 = true -> seg_load_data (Some st0) t g = Ok (sto, g1, ok, al) -> exists st1, sto = Some st1 /\ is_fail st1 = true.
  Proof.
    intros Hf H. unfold seg_load_data in H.
    destruct (_ || _); [injection H as <- _ _ _; eauto|].
    destruct (_ <? _); [injection H as <- _ _ _; eauto|].
    destruct (_ || _); [injection H as <- _ _ _; eauto|].
    destruct (_ <? _); [injection H as <- _ _ _; eauto|].
    rewrite (seekg_failed st0 _ Hf), (read_failed st0 _ Hf) in H. rewrite Hf in H. injection H as <- _ _ _. eauto.
  Qed.

  (* a program header entry that is not completely inside the stream leaves the stream failed ... *)
  Theorem segment_load_cut_entry_fails st enc c (pos : N) lazy st1 g1 ok al :
    is_fail st = false -> st_inv st -> pos < 2 ^ 63 -> lenN (is_content st) < pos + phdr_size c ->
    segment_load st [] enc (new_segment c) (Z.of_N pos) lazy = Ok (st1, g1, ok, al) -> is_fail st1 = true.
  Proof.
    intros Hf Hi Hp Hout H. unfold segment_load in H. cbn [xlat_empty xlat_apply] in H.
    assert (E1 : seekg_end st = mkIstream (is_kind st) (is_content st) (is_len st) false (is_len st)).
    { unfold seekg_end. now rewrite Hf. }
    rewrite E1 in H. set (stA := mkIstream (is_kind st) (is_content st) (is_len st) false (is_len st)) in *.
    assert (Hz : Z.of_N pos = to_signed64 pos).
    { unfold to_signed64. rewrite N.mod_small by lia. destruct (N.ltb_spec pos (2 ^ 63)); lia. }
    rewrite Hz in H. change (g_cls (new_segment c)) with c in H.
    pose proof (read_short_fails stA pos (phdr_size c) eq_refl Hi Hp Hout ltac:(destruct c; vm_compute; reflexivity)) as Hsh.
    destruct (read (seekg stA (to_signed64 pos)) (phdr_size c)) as [st3 got] eqn:ER. cbn [fst] in Hsh.
    destruct (lazy || _); [now injection H as <- _ _ _|].
    destruct (seg_load_data (Some st3) [] _) as [[[[sto g2] ok2] al2]|] eqn:El; cbn [bind] in H; [|discriminate].
    destruct (seg_load_data_keeps_failure _ _ _ _ _ _ _ Hsh El) as (st4 & -> & F4). now injection H as <- _ _ _.
  Qed.

  (* ... and the segment loop stops there with "not good": load() reports failure, nothing of the entry is kept *)
  Theorem load_segments_cut_entry_fails f st secs enc c offset entsize i num lazy racc allocs :
    is_fail st = false -> st_inv st -> i < num ->
    table_pos offset i entsize = Z.of_N (Z.to_N (table_pos offset i entsize)) ->
    Z.to_N (table_pos offset i entsize) < 2 ^ 63 ->
    lenN (is_content st) < Z.to_N (table_pos offset i entsize) + phdr_size c ->
    forall r, load_segments_loop (S f) st [] secs enc c offset entsize i num lazy racc allocs = Ok r ->
    snd (fst r) = false /\ snd (fst (fst r)) = racc.
  Proof.
    intros Hf Hi Hlt Hpos Hp Hout r H. cbn [load_segments_loop] in H.
    destruct (N.ltb_spec i num); [|lia].
    destruct (segment_load st [] enc (new_segment c) (table_pos offset i entsize) lazy) as [[[[st1 g1] ok] al]|] eqn:E;
      cbn [bind] in H; [|discriminate].
    rewrite Hpos in E. pose proof (segment_load_cut_entry_fails _ _ _ _ _ _ _ _ _ Hf Hi Hp Hout E) as F1.
    rewrite F1, orb_true_r in H. injection H as <-. split; reflexivity.
  Qed.

  (* C17: the header of a truncated file.  Whatever prefix of a file with a decodable header is loaded, either the
     load reports failure, or the object reports exactly the header the complete file yields *)
  Theorem prefix_header_absent_or_identical el k (f : bytes) n lazy h :
    xlat_empty (el_xlat el) = true -> parse_header f = Some h ->
    (exists el' al, load junk el k (firstnN f n) lazy = Ok (el', false, al)) \/
    (exists el' ok al, load junk el k (firstnN f n) lazy = Ok (el', ok, al) /\ el_hdr el' = Some h).
  Proof.
    intros Hx Hp. destruct (parse_header (firstnN f n)) as [h'|] eqn:E.
    - right. pose proof (parse_header_prefix f n h' E) as E2. rewrite Hp in E2. injection E2 as <-.
      now apply load_reports_header.
    - left. now apply load_fails_without_header.
  Qed.
End WithEnv.
