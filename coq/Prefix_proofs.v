(* Prefix_proofs.v — C17: the ELF header a truncated file yields.  Loading a prefix of a file either fails
   or reports exactly the header the complete file reports. *)
From ElfioV Require Import Bytes Mem Stream SectionData SectionData_proofs Strings Strings_proofs Elfio Table Loader Load_proofs Data_proofs Codec_proofs Reader_proofs.
From Coq Require Import ZifyBool ZifyN ZifyNat.
Local Open Scope N_scope.

Lemma lenN_firstnN_min {A} (l : list A) n : lenN (firstnN l n) = N.min n (lenN l).
Proof. rewrite firstnN_firstn, !lenN_length, firstn_length. lia. Qed.

Lemma ehdr_size_ge c : 52 <= ehdr_size c.
Proof. destruct c; vm_compute; discriminate. Qed.

(* the header decode of a prefix, when it succeeds, is the header decode of the whole file *)
Lemma parse_header_prefix (f : bytes) n h : parse_header (firstnN f n) = Some h -> parse_header f = Some h.
Proof.
  unfold parse_header. rewrite firstnN_firstnN.
  destruct (N.eqb_spec (lenN (firstnN f (N.min 16 n))) 16) as [E16|]; cbn [negb]; [|discriminate].
  rewrite lenN_firstnN_min in E16.
  assert (Hn : 16 <= n) by lia. assert (Hf : 16 <= lenN f) by lia.
  replace (N.min 16 n) with 16 by lia.
  destruct (N.eqb_spec (lenN (firstnN f 16)) 16) as [_|X]; [|rewrite lenN_firstnN_min in X; lia]. cbn [negb].
  destruct (negb (_ && _ && _ && _)); [discriminate|].
  destruct (negb ((nthN (firstnN f 16) 4 0 =? 2) || _)); [discriminate|].
  destruct (negb ((nthN (firstnN f 16) 5 0 =? 1) || _)); [discriminate|].
  set (c := if nthN (firstnN f 16) 4 0 =? 2 then C64 else C32).
  rewrite lenN_firstnN_min.
  destruct (N.ltb_spec (N.min n (lenN f)) (ehdr_size c)); [discriminate|].
  destruct (N.ltb_spec (lenN f) (ehdr_size c)); [lia|].
  rewrite firstnN_firstnN. replace (N.min (ehdr_size c) n) with (ehdr_size c) by lia. auto.
Qed.

Lemma read_got_content st n : lenN (snd (read st n)) <= lenN (is_content st).
Proof.
  unfold read. destruct (is_fail st); [cbn; lia|].
  assert (H : lenN (sliceN (is_content st) (is_pos st) n) <= lenN (is_content st)).
  { unfold sliceN. rewrite lenN_firstnN, lenN_skipnN. lia. }
  destruct (_ <? n); cbn [snd]; exact H.
Qed.

Section WithEnv.
  Variable junk : N -> N.

  (* without a decodable header load() reports failure *)
  Theorem load_fails_without_header el k content lazy :
    xlat_empty (el_xlat el) = true -> parse_header content = None ->
    exists el' al, load junk el k content lazy = Ok (el', false, al).
  Proof.
    intros Hx Hp. unfold load. destruct (el_xlat el) as [|x xs] eqn:Ex; [|discriminate]. cbn [xlat_apply].
    destruct (read_at_0 k content 16) as (R1 & R2 & R3 & R4). cbv zeta in *.
    destruct (read (seekg (open_istream k content) 0) 16) as [st2 ident] eqn:ER. cbn [fst snd] in *. subst ident.
    unfold parse_header in Hp.
    destruct (negb (lenN (firstnN content 16) =? 16)); [eauto|].
    destruct (negb _); [eauto|].
    destruct (negb ((nthN (firstnN content 16) 4 0 =? 2) || _)); [eauto|].
    destruct (negb ((nthN (firstnN content 16) 5 0 =? 1) || _)); [eauto|].
    set (c := if nthN (firstnN content 16) 4 0 =? 2 then C64 else C32) in *.
    destruct (N.ltb_spec (lenN content) (ehdr_size c)) as [Hlt|]; [|discriminate].
    (* the second read starts at 0 again on the same content *)
    destruct (read (seekg st2 0) (ehdr_size c)) as [st4 got] eqn:ER2.
    assert (Hgot : lenN got <= lenN content).
    { pose proof (read_got_content (seekg st2 0) (ehdr_size c)) as H. rewrite ER2 in H. cbn [snd fst] in H.
      destruct (seekg_content st2 0%Z) as (Sc & _). rewrite Sc, R2 in H. exact H. }
    destruct (N.eqb_spec (lenN got) (ehdr_size c)); [lia|]. cbn [negb]. eauto.
  Qed.

  (* C17: the header of a truncated file.  Whatever prefix of a file with a decodable header is loaded, either the
     load reports failure, or the object reports exactly the header the complete file yields *)
  Theorem prefix_header_absent_or_identical el k (f : bytes) n lazy h :
    xlat_empty (el_xlat el) = true -> parse_header f = Some h ->
    (exists el' al, load junk el k (firstnN f n) lazy = Ok (el', false, al)) \/
    (exists el' ok al, load junk el k (firstnN f n) lazy = Ok (el', ok, al) /\ el_hdr el' = Some h).
  Proof.
    intros Hx Hp. destruct (parse_header (firstnN f n)) as [h'|] eqn:E.
    - right. pose proof (parse_header_prefix f n h' E) as E2. rewrite Hp in E2. injection E2 as <-.
      now apply load_reports_header.
    - left. now apply load_fails_without_header.
  Qed.
End WithEnv.
