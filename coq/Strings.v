(* Strings.v — string_section_accessor (elfio_strings.hpp:51-121) over a
   section whose data is resident (the accessor calls section::get_data()
   first; residency is handled by the caller in Elfio.v). *)
From ElfioV Require Import Bytes Mem SectionData.
Local Open Scope N_scope.

Definition WORD_MAX := 4294967295.

(* get_string( Elf_Word index ): [data] is what get_data() returned, [size]
   is get_size().  Result: None = nullptr, Some (k, s) = pointer to data+index,
   denoting the C string s (bytes up to the first NUL). *)
Definition get_string_raw (data : ptr) (size : N) (index : N) : res (option bytes) :=
  match data with
  | None => Ok None
  | Some b =>
      if size <=? index then Ok None
      else
        let remaining := size - index in
        (* memchr( str, 0, remaining ) scans data+index .. data+index+remaining and
           stops at the first NUL; it runs past the allocation only when the
           allocation is shorter than the section size and holds no NUL *)
        match find0 (skipnN b index) remaining 0 with
        | Some k => Ok (Some (firstnN (skipnN b index) k))
        | None => if lenN b <? size then Fault OobRead else Ok None
        end
  end.

Definition get_string (s : section) (index : N) : res (option bytes) :=
  get_string_raw (s_data s) (sh_size s) index.

Section WithEnv.
  Variable junk : N -> N.
  Variable xe : bool.

  (* add_string( const char* str ) with str = the NUL-free bytes [str] *)
  Definition add_string (s : section) (str : bytes) : res (section * N) :=
    let cur := wrap32 (sh_size s) in
    '(s1, cur1) <- (if cur =? 0
                    then s' <- append_data junk xe s [0] ;; Ok (s', cur + 1)
                    else Ok (s, cur)) ;;
    let str_len := lenN str in
    if WORD_MAX - 1 <? str_len then Ok (s1, 0)
    else
      let append_size := wrap32 (str_len + 1) in
      if WORD_MAX - cur1 <? append_size then Ok (s1, 0)
      else
        s2 <- append_data junk xe s1 (str ++ [0]) ;;
        Ok (s2, cur1).
End WithEnv.
