(* Mem.v — memory accesses as result values.  A C++ pointer is [option bytes]
   (None = nullptr, Some b = an allocation of exactly [lenN b] bytes).  Every
   dereference of the C++ is a call to [rd]/[wr]; they return [Fault] exactly
   when the C++ would touch memory outside the allocation or through null.
   Empty ranges never fault (std::copy(p, p, q) is a no-op even for null p). *)
From ElfioV Require Import Bytes.
Local Open Scope N_scope.

Inductive fault :=
| OobRead | OobWrite | NullDeref | DivZero | NullString | UseAfterFree | Hang | PopEmpty | Abort.

Inductive res (A : Type) : Type :=
| Ok (a : A)
| Fault (f : fault).
Arguments Ok {A} a.
Arguments Fault {A} f.

Definition bind {A B} (r : res A) (k : A -> res B) : res B :=
  match r with Ok a => k a | Fault f => Fault f end.
Notation "x <- r ;; k" := (bind r (fun x => k)) (at level 61, r at next level, right associativity).
Notation "' p <- r ;; k" := (bind r (fun p => k)) (at level 61, p pattern, r at next level, right associativity).

Definition is_ok {A} (r : res A) : bool := match r with Ok _ => true | Fault _ => false end.

Definition ptr := option bytes.

Definition rd (p : ptr) (off n : N) : res bytes :=
  if n =? 0 then Ok []
  else match p with
       | None => Fault NullDeref
       | Some b => if off + n <=? lenN b then Ok (sliceN b off n) else Fault OobRead
       end.

Definition wr (p : ptr) (off : N) (bs : bytes) : res ptr :=
  if lenN bs =? 0 then Ok p
  else match p with
       | None => Fault NullDeref
       | Some b => if off + lenN bs <=? lenN b then Ok (Some (overlay b off bs)) else Fault OobWrite
       end.

(* a single word read through a pointer cast: *(T* )(p + off) *)
Definition rd_word (e : endian) (p : ptr) (off : N) (nbytes : nat) : res N :=
  bs <- rd p off (N.of_nat nbytes) ;; Ok (dec_uint e bs).

(* fresh allocation: contents are whatever the allocator left there, given by
   [junk] (index -> byte); theorems quantify over every [junk] *)
Fixpoint iota_pos (start : N) (p : positive) : list N :=
  match p with
  | xH => [start]
  | xO q => iota_pos start q ++ iota_pos (start + Npos q) q
  | xI q => start :: iota_pos (start + 1) q ++ iota_pos (start + 1 + Npos q) q
  end.
Definition iotaN (n : N) : list N := match n with N0 => [] | Npos p => iota_pos 0 p end.
Definition alloc (junk : N -> N) (n : N) : bytes := map junk (iotaN n).

Lemma lenN_iota_pos start p : lenN (iota_pos start p) = Npos p.
Proof.
  revert start; induction p as [q IH|q IH|]; intro start; cbn [iota_pos].
  - rewrite lenN_cons, lenN_app, !IH. lia.
  - rewrite lenN_app, !IH. lia.
  - reflexivity.
Qed.
Lemma lenN_alloc junk n : lenN (alloc junk n) = n.
Proof.
  unfold alloc. rewrite lenN_map. destruct n as [|p]; [reflexivity|]. apply lenN_iota_pos.
Qed.

Lemma rd_ok p off n bs : rd p off n = Ok bs -> lenN bs = n.
Proof.
  unfold rd. destruct (N.eqb_spec n 0) as [->|Hn]; [intros [= <-]; reflexivity|].
  destruct p as [b|]; [|discriminate].
  destruct (N.leb_spec (off + n) (lenN b)); [|discriminate].
  intros [= <-]. unfold sliceN. rewrite lenN_firstnN, lenN_skipnN. lia.
Qed.

Lemma rd_empty p off : rd p off 0 = Ok [].
Proof. reflexivity. Qed.
Lemma wr_empty p off : wr p off [] = Ok p.
Proof. reflexivity. Qed.
Lemma rd_some b off n : off + n <= lenN b -> rd (Some b) off n = Ok (sliceN b off n).
Proof.
  intros H. unfold rd. destruct (N.eqb_spec n 0) as [->|_].
  - unfold sliceN. now rewrite firstnN_0.
  - destruct (N.leb_spec (off + n) (lenN b)); [reflexivity|lia].
Qed.
Lemma wr_some b off bs : off + lenN bs <= lenN b -> wr (Some b) off bs = Ok (Some (overlay b off bs)).
Proof.
  intros H. unfold wr. destruct (N.eqb_spec (lenN bs) 0) as [E|_].
  - apply lenN_0 in E. subst bs. unfold overlay. cbn [lenN length N.of_nat app].
    rewrite N.add_0_r, firstnN_skipnN. reflexivity.
  - destruct (N.leb_spec (off + lenN bs) (lenN b)); [reflexivity|lia].
Qed.
