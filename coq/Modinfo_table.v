(* Modinfo_table.v — C14: the attributes of a module-info section written as
   field=value NUL records are the attributes the accessor reports, in order. *)
From ElfioV Require Import Bytes Mem Stream SectionData Strings Elfio Table Accessors Arrange_proofs Ostream_proofs Notes_proofs.
From Coq Require Import ZifyBool ZifyN ZifyNat.
Local Open Scope N_scope.

Definition attr := (bytes * bytes)%type.
Definition attr_rec (a : attr) : bytes := fst a ++ [61] ++ snd a ++ [0].
Definition attr_ok (a : attr) : Prop := Forall (fun x => x <> 0 /\ x <> 61) (fst a) /\ Forall (fun x => x <> 0) (snd a).

Lemma split_eq_field f v : Forall (fun x => x <> 0 /\ x <> 61) f -> split_eq (f ++ 61 :: v) = Some (f, v).
Proof.
  induction 1 as [|x t [_ Hx] Ht IH]; cbn [app split_eq]; [reflexivity|].
  destruct (N.eqb_spec x 61); [contradiction|]. now rewrite IH.
Qed.

Lemma skip_nul_zeros fuel (pre zs rest : bytes) size :
  Forall (fun x => x = 0) zs -> lenN pre + lenN zs <= size -> size <= lenN (pre ++ zs ++ rest) ->
  (lenN pre + lenN zs = size \/ exists x r, rest = x :: r /\ x <> 0) -> lenN zs < lenN fuel ->
  skip_nul fuel (Some (pre ++ zs ++ rest)) size (lenN pre) = Ok (lenN pre + lenN zs).
Proof.
  revert pre fuel. induction zs as [|z t IH]; intros pre fuel Hz Hs Hb Hend Hf.
  - cbn [app lenN] in *. rewrite N.add_0_r in *. destruct fuel as [|u f]; [cbn in Hf; lia|]. cbn [skip_nul].
    destruct (N.ltb_spec (lenN pre) size) as [Hlt|]; [|reflexivity].
    destruct Hend as [He|(x & r & -> & Hx)]; [lia|].
    rewrite lenN_app, lenN_cons in Hb.
    rewrite rd_some by (rewrite lenN_app, lenN_cons; lia). cbn [bind].
    replace (lenN pre) with (lenN pre + 0) at 1 by lia. rewrite sliceN_app_r.
    unfold sliceN. cbn [skipnN firstnN N.eqb nthN]. destruct (N.eqb_spec x 0); [contradiction|reflexivity].
  - inversion Hz as [|? ? Hz1 Hz2]; subst. rewrite lenN_cons in *. destruct fuel as [|u f]; [cbn in Hf; lia|]. rewrite lenN_cons in Hf.
    cbn [skip_nul]. destruct (N.ltb_spec (lenN pre) size); [|lia].
    rewrite rd_some by (rewrite !lenN_app, lenN_cons; lia). cbn [bind].
    replace (lenN pre) with (lenN pre + 0) at 1 by lia. rewrite sliceN_app_r.
    unfold sliceN. cbn [app skipnN firstnN N.eqb nthN].
    replace (pre ++ 0 :: t ++ rest) with ((pre ++ [0]) ++ t ++ rest) by (rewrite <- app_assoc; reflexivity).
    replace (lenN pre + 1) with (lenN (pre ++ [0])) by (rewrite lenN_app; reflexivity).
    rewrite IH; [rewrite lenN_app; cbn [lenN]; f_equal; lia|exact Hz2| | | |lia].
    + rewrite lenN_app. cbn [lenN]. lia.
    + rewrite <- app_assoc. exact Hb.
    + rewrite lenN_app. cbn [lenN]. destruct Hend as [He|He]; [left; lia|right; exact He].
Qed.

Theorem mod_parse_table : forall (attrs : list attr) (pre zs post : bytes) fuel acc,
  Forall attr_ok attrs -> Forall (fun x => x = 0) zs ->
  let recs := concat (map attr_rec attrs) in
  let size := lenN pre + lenN zs + lenN recs in
  2 * lenN attrs + 2 <= lenN fuel ->
  mod_parse fuel (Some (pre ++ zs ++ recs ++ post)) size (lenN pre) acc = Ok (acc ++ attrs).
Proof.
  induction attrs as [|[f v] t IH]; intros pre zs post fuel acc Ha Hz; cbv zeta; intros Hf.
  - cbn [map concat lenN] in *. rewrite N.add_0_r. cbn [app]. rewrite app_nil_r.
    destruct fuel as [|u1 [|u2 f2]]; try (cbn in Hf; lia). cbn [mod_parse].
    destruct (N.ltb_spec (lenN pre) (lenN pre + lenN zs)) as [Hlt|Hge]; [|reflexivity].
    rewrite (skip_nul_zeros (0 :: pre ++ zs ++ post) pre zs post (lenN pre + lenN zs) Hz); try lia.
    + cbn [bind]. rewrite !N.ltb_irrefl. reflexivity.
    + rewrite !lenN_app. lia.
    + rewrite lenN_cons, !lenN_app. lia.
  - inversion Ha as [|? ? [Hfo Hvo] Hat]; subst. cbn [fst snd] in Hfo, Hvo.
    cbn [map concat] in *. change (attr_rec (f, v)) with (f ++ [61] ++ v ++ [0]) in *.
    set (info := f ++ [61] ++ v). set (rest := concat (map attr_rec t)) in *.
    assert (Hinfo : Forall (fun b => b <> 0) info).
    { unfold info. apply Forall_app. split; [eapply Forall_impl; [|exact Hfo]; cbn; tauto|].
      apply Forall_app. split; [constructor; [discriminate|constructor]|exact Hvo]. }
    assert (Hne : exists x r, info = x :: r) by (unfold info; destruct f; cbn; eauto).
    replace ((f ++ [61] ++ v ++ [0]) ++ rest) with (info ++ 0 :: rest) by (unfold info; now rewrite <- !app_assoc).
    rewrite lenN_cons in Hf. destruct fuel as [|u1 f1]; [cbn in Hf; lia|]. rewrite lenN_cons in Hf.
    set (b := pre ++ zs ++ (info ++ 0 :: rest) ++ post).
    set (size := lenN pre + lenN zs + lenN (info ++ 0 :: rest)).
    assert (Hsz : size = lenN pre + lenN zs + lenN info + 1 + lenN rest) by (unfold size; rewrite lenN_app, lenN_cons; lia).
    assert (Hb : lenN b = size + lenN post) by (unfold b, size; rewrite !lenN_app; lia).
    cbn [mod_parse]. destruct (N.ltb_spec (lenN pre) size) as [_|Hbad]; [|destruct Hne as (x & r & E); rewrite E, lenN_cons in Hsz; lia].
    unfold b. rewrite (skip_nul_zeros (0 :: pre ++ zs ++ (info ++ 0 :: rest) ++ post) pre zs ((info ++ 0 :: rest) ++ post) size Hz); try lia.
    2:{ fold b. lia. }
    2:{ right. destruct Hne as (x & r & E). exists x, (r ++ (0 :: rest) ++ post). split.
        - rewrite E. cbn [app]. now rewrite <- !app_assoc.
        - rewrite E in Hinfo. now inversion Hinfo. }
    2:{ fold b. rewrite lenN_cons, Hb. lia. }
    cbn [bind]. fold b.
    destruct (N.ltb_spec (lenN pre + lenN zs) size) as [_|Hbad]; [|destruct Hne as (x & r & E); rewrite E, lenN_cons in Hsz; lia].
    (* the C string at the record start *)
    assert (Hskip : skipnN b (lenN pre + lenN zs) = info ++ 0 :: (rest ++ post)).
    { unfold b. rewrite app_assoc. rewrite skipnN_app_exact by (rewrite lenN_app; reflexivity). now rewrite <- app_assoc. }
    unfold cstring_at. rewrite Hskip.
    rewrite (find0_app_nul info (rest ++ post) (lenN b) 0 Hinfo) by lia. cbn [bind].
    rewrite N.add_0_l, firstnN_app_exact by reflexivity.
    assert (Esplit : mod_split info = (f, v)) by (unfold mod_split, info; cbn [app]; now rewrite (split_eq_field f v Hfo)).
    rewrite Esplit.
    (* continue after the record: the terminator is the next run of zeros *)
    replace b with ((pre ++ zs ++ info) ++ [0] ++ rest ++ post) by (unfold b; now rewrite <- !app_assoc).
    replace (lenN pre + lenN zs + lenN info) with (lenN (pre ++ zs ++ info)) by (rewrite !lenN_app; lia).
    replace size with (lenN (pre ++ zs ++ info) + lenN [0] + lenN rest) by (rewrite Hsz, !lenN_app; cbn [lenN]; lia).
    rewrite (IH (pre ++ zs ++ info) [0] post f1 (acc ++ [(f, v)]) Hat ltac:(repeat constructor) ltac:(lia)).
    now rewrite <- app_assoc.
Qed.

(* lookup of an attribute by field name: the value of the first attribute with that field *)
Theorem mod_find_first (l : list attr) field v :
  mod_find l field = Some v <->
  exists pre post, l = pre ++ (field, v) :: post /\ Forall (fun a => fst a <> field) pre.
Proof.
  split.
  - induction l as [|[f x] t IH]; cbn [mod_find]; [discriminate|].
    destruct (bytes_eqb field f) eqn:E.
    + intros [= ->]. apply bytes_eqb_spec in E. subst f. exists [], t. split; [reflexivity|constructor].
    + intros H. destruct (IH H) as (pre & post & -> & Hp). exists ((f, x) :: pre), post. split; [reflexivity|].
      constructor; [|exact Hp]. cbn. intro Hf. subst f. assert (bytes_eqb field field = true) by now apply bytes_eqb_spec. congruence.
  - intros (pre & post & -> & Hp). induction Hp as [|[f x] t Hf Ht IH]; cbn [app mod_find].
    + assert (E : bytes_eqb field field = true) by now apply bytes_eqb_spec. now rewrite E.
    + cbn in Hf. destruct (bytes_eqb field f) eqn:E; [apply bytes_eqb_spec in E; congruence|exact IH].
Qed.
