(* Properties_C14.v — C14: array and symbol-version tables round-trip in the declared byte order. *)
From ElfioV Require Import Bytes Mem Stream SectionData SectionData_proofs Strings Elfio Table Accessors Tables_proofs Modinfo_table Versions_proofs.
Local Open Scope N_scope.

Theorem C14_array_roundtrip :
  forall e w s (es : list N) j a,
    Inv s -> 0 < w -> contents s = concat (map (arr_enc e w) es) ->
    sh_size s < 2 ^ 61 -> nth_optN es j = Some a ->
    arr_get_core e s (s_data s) w j = Ok (Some (wrap (8 * w) a)).
Proof. exact arr_roundtrip. Qed.
Print Assumptions C14_array_roundtrip.

Theorem C14_array_out_of_range_refused :
  forall e w s (es : list N) j p,
    Inv s -> 0 < w -> contents s = concat (map (arr_enc e w) es) -> lenN es <= j ->
    arr_get_core e s p w j = Ok None.
Proof. exact arr_out_of_range. Qed.
Print Assumptions C14_array_out_of_range_refused.

(* version indices: the accessor works in the host's byte order; when the
   file's declared order is the host's the table is the ABI table and every
   index reads back unchanged.  (For files of the other byte order the
   statement is false of the code: known finding versym-byte-order.) *)
Theorem C14_versym_roundtrip_partial :
  forall host s (es : list N) j v p,
    Inv s -> contents s = concat (map (fun x => enc_uint host 2 (wrap16 x)) es) ->
    sh_size s < 2 ^ 32 -> nth_optN es j = Some v -> p = s_data s ->
    rd_word host p (j * 2) 2 = Ok (wrap16 v).
Proof. exact versym_roundtrip_hostorder. Qed.
Print Assumptions C14_versym_roundtrip_partial.

(* the full statement fails on the model of the unrepaired accessor: a version
   index added to an MSB file on an LSB host is stored in LSB order *)
Theorem C14_versym_refuted_other_byte_order :
  exists v, enc_uint LSB 2 (wrap16 v) <> enc_uint MSB 2 (wrap16 v).
Proof. exists 255. vm_compute. discriminate. Qed.
Print Assumptions C14_versym_refuted_other_byte_order.

(* module information: a section holding the records field=value NUL (what
   add_attribute appends) is reported as exactly those attributes, in order —
   whatever run of NUL bytes precedes the records and whatever follows the section *)
Theorem C14_modinfo_attributes_reported :
  forall (attrs : list attr) (pre zs post : bytes) fuel acc,
    Forall attr_ok attrs -> Forall (fun x => x = 0) zs ->
    let recs := concat (map attr_rec attrs) in
    let size := lenN pre + lenN zs + lenN recs in
    2 * lenN attrs + 2 <= lenN fuel ->
    mod_parse fuel (Some (pre ++ zs ++ recs ++ post)) size (lenN pre) acc = Ok (acc ++ attrs).
Proof. exact mod_parse_table. Qed.
Print Assumptions C14_modinfo_attributes_reported.

(* ... and by field name: the value of the first attribute with that field *)
Theorem C14_modinfo_by_field_name :
  forall (l : list attr) field v,
    mod_find l field = Some v <->
    exists pre post, l = pre ++ (field, v) :: post /\ Forall (fun a => fst a <> field) pre.
Proof. exact mod_find_first. Qed.
Print Assumptions C14_modinfo_by_field_name.

(* version requirements: a section that begins with the encoding of a list of Verneed records (each followed by
   its Vernaux entries, chained by vn_next / vna_next as linkers emit them), in the file's byte order, is
   reported record by record as encoded: version and file-name index of the record, hash / flags / other /
   name index of its first auxiliary entry (the one the accessor reports).  [verneed_get] is this function
   followed by the two string look-ups in the linked string table. *)
Theorem C14_verneed_entries_reported :
  forall e (l : list vneed) (post extra : bytes) no r fuel,
    Forall vneed_wf l -> nth_optN l no = Some r -> no < lenN fuel ->
    verneed_core e (Some ((enc_vneeds e l ++ post) ++ extra)) fuel (lenN (enc_vneeds e l ++ post)) no
    = Ok (Some (vneed_raw r)).
Proof. exact verneed_table_entry. Qed.
Print Assumptions C14_verneed_entries_reported.

(* version definitions likewise: flags, version index, hash and the name index of the first Verdaux entry *)
Theorem C14_verdef_entries_reported :
  forall e (l : list vdef) (post extra : bytes) no r fuel,
    Forall vdef_wf l -> nth_optN l no = Some r -> no < lenN fuel ->
    verdef_core e (Some ((enc_vdefs e l ++ post) ++ extra)) fuel (lenN (enc_vdefs e l ++ post)) no
    = Ok (Some (vdef_raw r)).
Proof. exact verdef_table_entry. Qed.
Print Assumptions C14_verdef_entries_reported.

(* the hypotheses are satisfiable, and the encoding is the gABI one: two requirement records (the first with two
   auxiliary entries) in big-endian order, read back through the accessor's function *)
Example C14_verneed_example :
  let l := [mkVneed 1 17 (mkVaux 110530967 0 3 27) [mkVaux 157882997 0 2 38]; mkVneed 1 49 (mkVaux 221783 2 4 60) []] in
  Forall vneed_wf l /\
  firstnN (enc_vneeds MSB l) 16 = [0; 1; 0; 2; 0; 0; 0; 17; 0; 0; 0; 16; 0; 0; 0; 48] /\
  verneed_core MSB (Some (enc_vneeds MSB l ++ [0])) (0 :: enc_vneeds MSB l) (lenN (enc_vneeds MSB l)) 1
  = Ok (Some (mkVNraw 1 49 221783 2 4 60)).
Proof. split; [repeat constructor|]. vm_compute. split; reflexivity. Qed.

Example C14_example : arr_enc MSB 4 305419896 = [18; 52; 86; 120].
Proof. reflexivity. Qed.
