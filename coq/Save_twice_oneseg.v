(* Save_twice_oneseg.v — C06 at the level of the bytes for objects with one segment of automatically addressed members. *)
From ElfioV Require Import Bytes Mem Stream SectionData SectionData_proofs Strings Elfio Table Accessors Loader Layout Writer
  Load_proofs Data_proofs Layout_proofs Segment_proofs Oneseg_proofs Oneseg_writer Oneseg_again ByName_proofs Save_twice.
From Coq Require Import ZifyBool ZifyN ZifyNat.
Local Open Scope N_scope.

(* the segment pass changes sizes and offset of the segment record, not what it holds or where it came from *)
Lemma layout_one_segment_keeps_origin h g secs gen pos g' secs' gen' pos' ok :
  layout_one_segment h g secs gen pos = Ok (g', secs', gen', pos', ok) ->
  g_data g' = g_data g /\ g_stream_size g' = g_stream_size g /\ g_loaded g' = g_loaded g.
Proof.
  intros H. unfold layout_one_segment in H.
  match type of H with context [bind ?X _] => destruct X as [[[[a b] c] d]|] eqn:E1 end; cbn [bind] in H; [|discriminate].
  destruct (write_segment_data g a _ _) as [[w ok']|]; cbn [bind] in H; [|discriminate].
  destruct ok'.
  - injection H as <- _ _ _ _. destruct (p_memsz _ <? _); destruct g; repeat split.
  - injection H as <- _ _ _ _. repeat split.
Qed.

(* a segment built through the API (no data, no stream) stays as it is under data requests once it has an offset *)
Lemma seg_stable_api st g :
  g_data g = None -> g_stream_size g = 0 -> 0 < p_offset g -> p_offset g < 2 ^ 63 -> seg_stable st [] g.
Proof.
  intros Hd Hs Ho Ho2. unfold seg_stable, seg_get_data. destruct (g_loaded g) eqn:Hl; [reflexivity|].
  unfold seg_load_data. destruct ((p_type g =? PT_NULL) || (p_filesz g =? 0)); cbn [bind]; [reflexivity|].
  cbn [xlat_apply]. destruct (to_of_signed (p_offset g) Ho2) as [T1 T2].
  assert (E : of_signed64 (to_signed64 (p_offset g)) = p_offset g).
  { unfold of_signed64. rewrite Z.mod_small; [exact T1|]. split; [exact T2|].
    assert (Z.of_N (Z.to_N (to_signed64 (p_offset g))) = to_signed64 (p_offset g)) by lia.
    rewrite T1 in H. change (2 ^ 63) with 9223372036854775808 in Ho2. lia. }
  rewrite E, Hs. destruct (N.ltb_spec 0 (p_offset g)); [|lia]. cbn [bind].
  f_equal. f_equal. f_equal. destruct g; cbn in *. subst. reflexivity.
Qed.

Definition same_origin (g g' : segment) : Prop :=
  g_data g' = g_data g /\ g_stream_size g' = g_stream_size g /\ g_loaded g' = g_loaded g.

Lemma calc_seg_align_origin secs g g1 : calc_seg_align secs g = Ok g1 -> same_origin g g1.
Proof.
  unfold calc_seg_align. generalize (firstnN (g_sections g) (seg_sections_num g)). intro l.
  assert (G : forall l (acc : res segment) g1,
            fold_left (fun acc idx => g0 <- acc ;; match nth_optN secs idx with
                                                   | None => Fault OobRead
                                                   | Some s => Ok (if p_align g0 <? sh_addralign s then seg_set g0 GAlign (sh_addralign s) else g0)
                                                   end) l acc = Ok g1 ->
            exists g0, acc = Ok g0 /\ same_origin g0 g1).
  { clear. induction l as [|i t IH]; intros acc g1 H; cbn [fold_left] in H.
    - exists g1. split; [exact H|repeat split].
    - destruct (IH _ _ H) as (g2 & E & O). destruct acc as [g0|]; cbn [bind] in E; [|discriminate].
      exists g0. split; [reflexivity|]. destruct (nth_optN secs i); [|discriminate]. injection E as <-.
      destruct O as (O1 & O2 & O3). destruct (p_align g0 <? _); repeat split; cbn in *; congruence. }
  intro H. destruct (G _ _ _ H) as (g0 & E & O). injection E as <-. exact O.
Qed.

(* the layout step of an object with one segment leaves one segment, of the same origin *)
Lemma layout_single_segment_origin el g el' :
  el_segs el = [g] -> layout el = Ok (el', true) -> exists g', el_segs el' = [g'] /\ same_origin g g'.
Proof.
  intros Hs H. unfold layout in H. destruct (el_hdr el) as [h0|]; [|discriminate]. rewrite Hs in H.
  cbn [map_res bind] in H.
  destruct (calc_seg_align (el_secs el) g) as [ga|] eqn:Ec; cbn [bind] in H; [|discriminate].
  pose proof (calc_seg_align_origin _ _ _ Ec) as (A1 & A2 & A3).
  rewrite ordered_single in H. cbn [bind layout_segments nth_optN N.eqb] in H.
  match type of H with context [layout_one_segment ?a ?b ?c ?d ?e] => destruct (layout_one_segment a b c d e) as [[[[[g1 s1] gen1] p1] ok1]|] eqn:El end;
    cbn [bind] in H; [|discriminate].
  destruct (layout_one_segment_keeps_origin _ _ _ _ _ _ _ _ _ _ El) as (B1 & B2 & B3).
  destruct ok1; cbn [updN N.eqb layout_segments bind] in H.
  - destruct (layout_free_sections _ _ _ _ _) as [s3 p2]. injection H as <-. exists g1. split; [reflexivity|].
    repeat split; congruence.
  - discriminate.
Qed.

Lemma relaid_quiet s s' : relaid s s' -> quiet s -> quiet s'.
Proof. intros [->|[(o & ->)|(a & o & ->)]] Q; exact Q. Qed.

(* C06, the bytes: an object with one segment of automatically addressed members plus free sections, built through the
   API (the segment holds no data of its own and came from no stream), whose sections have been requested before:
   whatever save() returned - object, stream, verdict - saving the returned object returns again *)
Theorem save_twice_oneseg junk el0 os h0 g bound ms :
  let idxs := g_sections g in
  let align := if 0 <? p_align g then p_align g else 1 in
  let secs := el_secs el0 in
  let pos0 := e_ehsize h0 + e_phentsize h0 in
  os_bad os = false -> xlat_empty (el_xlat el0) = true ->
  el_hdr el0 = Some h0 -> el_segs el0 = [g] -> lenN secs < 2 ^ 16 ->
  lenN idxs < 2 ^ 16 -> idxs <> [] -> g_offset_set g = false -> p_type g <> PT_PHDR -> NoDup idxs ->
  Forall2 (fun i s => nth_optN secs i = Some s) idxs ms ->
  Forall auto_member ms -> Forall (fun s => sh_addralign s <= p_align g) ms -> Forall (fun s => sh_size s <> 0) ms ->
  bound <= 2 ^ 63 -> Forall (fun s => bound <= 2 ^ xw (s_cls s)) secs -> bound <= 2 ^ xw (g_cls g) ->
  p_align g < 2 ^ 63 -> 0 < pos0 ->
  p_vaddr g + pos0 + align + mbudget ms + budget secs + 16 < bound ->
  Forall quiet secs -> g_data g = None -> g_stream_size g = 0 -> g_loaded g = false ->
  (forall s, In s secs -> s_index s = 0 -> csize s = 0) ->
  forall r, save junk el0 os = Ok r -> save junk (fst (fst r)) os = Ok r.
Proof.
  cbv zeta. intros Hos Hx Hh Hs Hnsec Hlen Hne Hof Hty Hnd HF Hauto Hdom Hnz Hb63 Hcls Hbg Hal Hp0 Hbud Q Hgd Hgs Hgl Hnull r H.
  set (align := if 0 <? p_align g then p_align g else 1) in *.
  destruct (layout_oneseg el0 h0 g bound ms Hh Hs Hnsec Hlen Hne Hof Hty Hnd HF Hauto Hdom ltac:(lia) Hcls Hbg Hal)
    as (el1 & g' & secs' & ss & pos1 & pos2 & L1 & Eh & Eg & Es & Ex & _ & Est & S1 & S2 & S3 & O1 & V1 & F1 & F2 &
        (G1 & G2 & G3 & G4 & G5 & G6 & G7 & G8) & MC & PL & FR & LN & CH & B1 & B2).
  { fold align. lia. }
  destruct (layout_oneseg_twice el0 h0 g bound ms Hh Hs Hnsec Hlen Hne Hof Hty Hnd HF Hauto Hdom Hnz Hb63 Hcls Hbg Hal Hp0)
    as (el1' & L1' & L2). { fold align. lia. }
  rewrite L1 in L1'. injection L1' as <-.
  destruct (layout_single_segment_origin el0 g el1 Hs L1) as (g'' & Eg'' & (D1 & D2 & D3)).
  rewrite Eg in Eg''. injection Eg'' as <-.
  (* the sections of el1 *)
  assert (HR : Forall2 relaid (el_secs el0) secs').
  { apply Forall2_of_nth; [exact LN|]. intros j x Hj.
    destruct (in_dec N.eq_dec j (g_sections g)) as [Hin|Hnin].
    - destruct (Forall2_both_In _ _ _ _ j HF PL Hin) as (s & _ & Hsj & (a & o & Hs1)).
      rewrite Hj in Hsj. injection Hsj as <-. exists (with_offset (with_addr x a) o). split; [exact Hs1|right; right; eauto].
    - destruct (FR j x Hnin Hj) as (s' & Hs' & K). exists s'. split; [exact Hs'|now apply keeps_relaid]. }
  assert (Hback : forall s', In s' secs' -> exists s, In s (el_secs el0) /\ relaid s s').
  { clear - HR. induction HR as [|s s' t t' Hk HK IH]; intros x Hx; [contradiction|]. destruct Hx as [<-|Hx].
    - exists s. split; [now left|exact Hk].
    - destruct (IH x Hx) as (y & Hy & R). exists y. split; [now right|exact R]. }
  assert (Q1 : Forall quiet (el_secs el1)).
  { rewrite Es. clear - HR Q. induction HR as [|s s' t t' Hk HK IH]; [constructor|]. inversion Q; subst.
    constructor; [eapply relaid_quiet; eauto|auto]. }
  assert (Hnull' : forall j s, nth_optN secs' j = Some s -> s_index s = 0 -> csize s = 0).
  { intros j s Hj H0. destruct (Hback s (nth_optN_In _ _ _ Hj)) as (s0 & I0 & R).
    destruct (relaid_attrs _ _ R) as (A1 & _ & _ & _ & _ & _ & _ & A8 & _). rewrite A8. apply Hnull; [exact I0|congruence]. }
  assert (Hcarry : forall i s, In i (g_sections g) -> nth_optN secs' i = Some s -> csize s = sh_size s).
  { intros i s Hi Hsi. destruct (Forall2_both_In _ _ _ _ i HF PL Hi) as (s0 & I0 & _ & (a & o & Hs1)).
    rewrite Hsi in Hs1. injection Hs1 as ->. rewrite Forall_forall in Hauto.
    destruct (Hauto s0 I0) as (_ & T1 & T2 & _). unfold csize, carries. cbn [sh_type with_offset with_addr sh_size].
    apply N.eqb_neq in T1, T2. now rewrite T1, T2. }
  pose proof (mchain_bounds _ _ _ _ _ _ MC) as Bm. pose proof (chain_bounds _ _ _ CH) as Bc.
  assert (N1 : Forall offset_norm (el_secs el1)).
  { rewrite Es. apply Forall_forall. intros s' Hin. destruct (N.eq_dec (s_index s') 0) as [E0|E0]; [now left|right].
    apply with_offset_self. destruct (In_nth_optN _ _ Hin) as (j & Hj).
    destruct (Hback s' Hin) as (s0 & I0 & R). destruct (relaid_attrs _ _ R) as (_ & Acls & _).
    assert (Hcl : bound <= 2 ^ xw (s_cls s')) by (rewrite Acls; rewrite Forall_forall in Hcls; now apply Hcls).
    destruct (N.eq_dec (csize s') 0) as [Z|Z].
    - (* without file contents: a member sits inside the chain, a free section in the free chain *)
      destruct (in_dec N.eq_dec j (g_sections g)) as [Hm|Hf].
      + destruct (mchain_member _ _ _ _ _ _ j MC Hm) as (sx & Sx & M1 & M2 & _). rewrite Hj in Sx. injection Sx as <-. lia.
      + assert (Hfl : In s' (free_list [g'] 0 secs')).
        { apply (free_list_In [g'] secs' 0 j s' Hj). rewrite N.add_0_l.
          apply (free_iff g g' G1 Hlen). exact Hf. }
        destruct (chain_member _ _ _ s' CH Hfl E0) as (C1 & C2 & _). lia.
    - destruct (oneseg_data_bounds g g' secs' ss pos1 pos2 MC CH G1 Hlen Hcarry Hnull' j s' Hj Z) as (_ & X2 & _). lia. }
  assert (S1' : Forall (seg_stable (el_stream el1) (el_xlat el1)) (el_segs el1)).
  { rewrite Eg, Ex. destruct (el_xlat el0) as [|x xs]; [|discriminate]. constructor; [|constructor].
    apply seg_stable_api; [congruence|congruence|rewrite O1; lia|rewrite O1; lia]. }
  assert (F1' : force_sections junk (el_stream el0) (el_xlat el0) (el_secs el0) [] = Ok (el_stream el0, el_secs el0))
    by (now rewrite (force_sections_quiet junk _ _ _ [] Q)).
  assert (F2' : force_segments (el_stream el0) (el_xlat el0) (el_segs el0) [] = Ok (el_stream el0, el_segs el0)).
  { rewrite Hs. cbn [force_segments]. unfold seg_get_data. rewrite Hgl. unfold seg_load_data.
    (* before the first layout the segment has no file size *)
    destruct ((p_type g =? PT_NULL) || (p_filesz g =? 0)) eqn:E0; cbn [bind rev_append]; [reflexivity|].
    destruct (el_xlat el0) as [|x xs]; [|discriminate]. cbn [xlat_apply]. rewrite Hgs.
    destruct (N.ltb_spec 0 (of_signed64 (to_signed64 (p_offset g)))).
    - cbn [bind rev_append]. do 3 f_equal. destruct g; cbn in *; subst; reflexivity.
    - destruct ((0 <? p_filesz g) || (0 - of_signed64 (to_signed64 (p_offset g)) <? p_filesz g)) eqn:E1; cbn [bind rev_append].
      + do 3 f_equal. destruct g; cbn in *; subst; reflexivity.
      + apply orb_false_iff in E0. destruct E0 as [_ E0]. apply N.eqb_neq in E0.
        apply orb_false_iff in E1. destruct E1 as [E1 _]. apply N.ltb_ge in E1. lia. }
  pose proof (save_twice_identical junk el0 os el1 _ _ _ _ h0 Hos Hh F1' F2' ltac:(rewrite with_parts_id; exact L1) L2 Q1 N1 S1' r H) as H2.
  assert (E1 : fst (fst r) = el1).
  { unfold save in H. rewrite Hos, Hh, F1' in H. cbn [bind] in H. rewrite F2' in H. cbn [bind] in H.
    rewrite with_parts_id, L1 in H. cbn [bind negb] in H. rewrite Eh in H.
    match type of H with context [save_header ?a ?b ?c] => destruct (save_header a b c) as [os1 ok1] end.
    destruct ok1; cbn [negb] in H; [|now injection H as <-].
    match type of H with context [sections_plan ?a ?b ?c ?d ?e ?f ?g0 ?h1 ?i1] =>
      destruct (sections_plan a b c d e f g0 h1 i1) as [[[st1 secs1] plan]|] eqn:E end; cbn [bind] in H; [|discriminate].
    destruct (sections_plan_quiet junk _ _ _ _ _ _ _ _ _ _ _ Q1 N1 E) as [-> ->]. cbn [rev_append] in H.
    assert (Eid : with_stream (with_secs el1 (el_secs el1)) (el_stream el1) = el1) by (destruct el1; reflexivity).
    rewrite Eid in H.
    destruct (os_abort (exec_plan os1 plan)); [discriminate|].
    destruct (os_bad (exec_plan os1 plan)); [now injection H as <-|].
    destruct (os_abort _); [discriminate|]. now injection H as <-. }
  rewrite E1, H2. destruct r as [[a b] c]. cbn in *. now subst a.
Qed.
