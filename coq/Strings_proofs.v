(* Strings_proofs.v — C08: added strings stay retrievable; lookups are safe. *)
From ElfioV Require Import Bytes Mem SectionData SectionData_proofs Strings.
From Coq Require Import ZifyBool ZifyN ZifyNat.
Local Open Scope N_scope.

(* lookup as a function of the logical contents only *)
Definition gs_c (c : bytes) (i : N) : option bytes :=
  if lenN c <=? i then None
  else match find0 (skipnN c i) (lenN c - i) 0 with
       | Some k => Some (firstnN (skipnN c i) k)
       | None => None
       end.

Lemma find0_bound l limit acc k : find0 l limit acc = Some k -> acc <= k /\ k - acc < limit /\ k - acc < lenN l.
Proof.
  revert limit acc; induction l as [|b t IH]; intros limit acc; cbn [find0]; [discriminate|].
  destruct (N.eqb_spec limit 0); [discriminate|].
  rewrite lenN_cons.
  destruct (N.eqb_spec b 0).
  - intros [= <-]. lia.
  - intros H. apply IH in H. lia.
Qed.

Lemma find0_firstnN l n limit acc : limit <= n -> find0 (firstnN l n) limit acc = find0 l limit acc.
Proof.
  revert n limit acc; induction l as [|b t IH]; intros n limit acc Hl; cbn [firstnN find0]; [reflexivity|].
  destruct (N.eqb_spec n 0) as [->|Hn].
  - assert (limit = 0) as -> by lia. reflexivity.
  - cbn [find0]. destruct (N.eqb_spec limit 0); [reflexivity|].
    destruct (N.eqb_spec b 0); [reflexivity|]. apply IH. lia.
Qed.

Lemma find0_app_some l r limit limit' acc k :
  find0 l limit acc = Some k -> limit <= limit' -> find0 (l ++ r) limit' acc = Some k.
Proof.
  revert limit limit' acc; induction l as [|b t IH]; intros limit limit' acc; cbn [find0 app]; [discriminate|].
  destruct (N.eqb_spec limit 0); [discriminate|]. intros H Hl.
  destruct (N.eqb_spec limit' 0); [lia|].
  destruct (N.eqb_spec b 0); [assumption|].
  eapply IH; [eassumption|lia].
Qed.

(* the accessor's answer depends on the logical contents only *)
Lemma get_string_contents b size i :
  size <= lenN b -> get_string_raw (Some b) size i = Ok (gs_c (firstnN b size) i).
Proof.
  intros Hs. unfold get_string_raw, gs_c. rewrite lenN_firstnN.
  replace (N.min size (lenN b)) with size by lia.
  destruct (N.leb_spec size i) as [|Hi]; [reflexivity|].
  rewrite skipnN_firstnN_comm, find0_firstnN by lia.
  destruct (find0 (skipnN b i) (size - i) 0) as [k|] eqn:E.
  - apply find0_bound in E. rewrite firstnN_firstnN. do 3 f_equal. lia.
  - destruct (N.ltb_spec (lenN b) size); [lia|reflexivity].
Qed.

Lemma get_string_Inv s i : Inv s -> get_string s i = Ok (gs_c (contents s) i).
Proof.
  intros (_ & _ & H). unfold get_string, contents. destruct (s_data s) as [b|].
  - apply get_string_contents. lia.
  - unfold gs_c. cbn. destruct (N.leb_spec 0 i); [reflexivity|lia].
Qed.

(* later appends never disturb an existing string *)
Lemma gs_c_app c r i t : gs_c c i = Some t -> gs_c (c ++ r) i = Some t.
Proof.
  unfold gs_c. rewrite lenN_app.
  destruct (N.leb_spec (lenN c) i) as [|Hi]; [discriminate|].
  destruct (N.leb_spec (lenN c + lenN r) i); [lia|].
  destruct (find0 (skipnN c i) (lenN c - i) 0) as [k|] eqn:E; [|discriminate].
  intros [= <-].
  rewrite skipnN_app_le by lia.
  erewrite find0_app_some; [|eassumption|lia].
  apply find0_bound in E. rewrite firstnN_app_le by lia. reflexivity.
Qed.

(* a string appended with its terminator is found at the old end *)
Lemma gs_c_new c str r : nul_free str -> gs_c (c ++ str ++ 0 :: r) (lenN c) = Some str.
Proof.
  intros Hn. unfold gs_c. rewrite !lenN_app, lenN_cons.
  destruct (N.leb_spec (lenN c + (lenN str + (1 + lenN r))) (lenN c)); [lia|].
  rewrite skipnN_app_exact by reflexivity.
  rewrite find0_app_nul by (assumption || lia).
  rewrite N.add_0_l. f_equal. apply firstnN_app_exact. reflexivity.
Qed.

Lemma find0_prefix_acc l lim acc k : find0 l lim acc = Some k ->
  nul_free (firstnN l (k - acc)) /\ firstnN l (k - acc + 1) = firstnN l (k - acc) ++ [0].
Proof.
  revert lim acc k. induction l as [|b t IH]; intros lim acc k; cbn [find0]; [discriminate|].
  destruct (N.eqb_spec lim 0); [discriminate|].
  destruct (N.eqb_spec b 0) as [->|Hb].
  - intros [= <-]. rewrite N.sub_diag. cbn. split; [apply Forall_nil|now rewrite firstnN_0].
  - intros H. pose proof (find0_bound _ _ _ _ H) as (Hacc & _).
    destruct (IH _ _ _ H) as [I1 I2].
    cbn [firstnN]. destruct (N.eqb_spec (k - acc) 0); [lia|].
    destruct (N.eqb_spec (k - acc + 1) 0); [lia|].
    replace (k - acc - 1) with (k - N.succ acc) by lia.
    replace (k - acc + 1 - 1) with (k - N.succ acc + 1) by lia.
    split; [apply Forall_cons; assumption|]. cbn [app]. now rewrite I2.
Qed.
Lemma find0_prefix l lim k : find0 l lim 0 = Some k ->
  nul_free (firstnN l k) /\ firstnN l (k + 1) = firstnN l k ++ [0].
Proof. intros H. apply find0_prefix_acc in H. now rewrite N.sub_0_r in H. Qed.

(* every answer points at a NUL-terminated string wholly inside the section *)
Lemma gs_c_sound c i t :
  gs_c c i = Some t ->
  i + lenN t < lenN c /\ nul_free t /\ sliceN c i (lenN t + 1) = t ++ [0].
Proof.
  unfold gs_c. destruct (N.leb_spec (lenN c) i) as [|Hi]; [discriminate|].
  destruct (find0 (skipnN c i) (lenN c - i) 0) as [k|] eqn:E; [|discriminate].
  intros [= <-].
  pose proof (find0_bound _ _ _ _ E) as (_ & Hk & Hk').
  rewrite lenN_skipnN in Hk'. rewrite lenN_firstnN, lenN_skipnN.
  replace (N.min k (lenN c - i)) with k by lia.
  split; [lia|]. unfold sliceN. now apply find0_prefix in E.
Qed.

Section Proofs.
  Variable junk : N -> N.
  Variable xe : bool.

  Definition str_ok (s : section) : Prop := Inv s /\ sh_size s < 2 ^ 32.

  (* one add_string step on a string section *)
  Lemma add_string_spec s str :
    Inv s -> nul_free str -> sh_size s + lenN str + 2 < 2 ^ 32 ->
    exists s' idx, add_string junk xe s str = Ok (s', idx) /\ Inv s' /\
      s_cls s' = s_cls s /\
      contents s' = (if sh_size s =? 0 then [0] else contents s) ++ str ++ [0] /\
      idx = (if sh_size s =? 0 then 1 else sh_size s) /\
      sh_size s' = idx + lenN str + 1.
  Proof.
    intros HI Hn Hb. unfold add_string.
    assert (B32 : forall c n, n < 2 ^ 32 -> n < size_bound c).
    { intros c n H. destruct c; cbn [size_bound]; [assumption|].
      eapply N.lt_trans; [eassumption|]. apply N.pow_lt_mono_r; lia. }
    assert (W : wrap32 (sh_size s) = sh_size s) by (apply wrap_small; lia).
    rewrite W.
    assert (WM : WORD_MAX = 2 ^ 32 - 1) by reflexivity.
    destruct (N.eqb_spec (sh_size s) 0) as [E0|E0].
    - destruct (append_data_spec junk xe s [0] HI) as (s1 & -> & I1 & C1 & K1 & _ & S1).
      { apply B32. cbn. lia. }
      cbn [bind].
      pose proof (lenN_contents _ I1) as L1. rewrite C1, lenN_app in L1.
      pose proof (lenN_contents _ HI) as L0. cbn [lenN length N.of_nat] in L1.
      destruct (N.ltb_spec (WORD_MAX - 1) (lenN str)); [lia|].
      assert (W2 : wrap32 (lenN str + 1) = lenN str + 1) by (apply wrap_small; lia).
      rewrite W2, E0. destruct (N.ltb_spec (WORD_MAX - (0 + 1)) (lenN str + 1)); [lia|].
      destruct (append_data_spec junk xe s1 (str ++ [0]) I1) as (s2 & -> & I2 & C2 & K2 & _ & S2).
      { apply B32. rewrite lenN_app. cbn [lenN length N.of_nat]. lia. }
      cbn [bind]. exists s2, (0 + 1). split; [reflexivity|]. split; [assumption|].
      split; [congruence|].
      assert (contents s = []) as Ec by (apply lenN_0; lia).
      split; [rewrite C2, C1, Ec; reflexivity|]. split; [reflexivity|].
      pose proof (lenN_contents _ I2) as L2. rewrite C2, C1, Ec, !lenN_app in L2.
      cbn [lenN length N.of_nat app] in L2. lia.
    - cbn [bind].
      destruct (N.ltb_spec (WORD_MAX - 1) (lenN str)); [lia|].
      assert (W2 : wrap32 (lenN str + 1) = lenN str + 1) by (apply wrap_small; lia).
      rewrite W2. destruct (N.ltb_spec (WORD_MAX - sh_size s) (lenN str + 1)); [lia|].
      destruct (append_data_spec junk xe s (str ++ [0]) HI) as (s2 & -> & I2 & C2 & K2 & _ & S2).
      { apply B32. rewrite lenN_app. cbn [lenN length N.of_nat]. lia. }
      cbn [bind]. exists s2, (sh_size s). split; [reflexivity|]. split; [assumption|].
      split; [assumption|]. split; [exact C2|]. split; [reflexivity|].
      pose proof (lenN_contents _ I2) as L2. pose proof (lenN_contents _ HI) as L0.
      rewrite C2, !lenN_app in L2. cbn [lenN length N.of_nat] in L2. lia.
  Qed.

  (* the returned index retrieves the string; earlier answers are preserved;
     index 0 of a non-empty table is the empty string *)
  Theorem add_string_retrievable s str :
    Inv s -> nul_free str -> sh_size s + lenN str + 2 < 2 ^ 32 ->
    exists s' idx, add_string junk xe s str = Ok (s', idx) /\ Inv s' /\
      get_string s' idx = Ok (Some str) /\
      (forall j t, get_string s j = Ok (Some t) -> get_string s' j = Ok (Some t)) /\
      (sh_size s = 0 -> get_string s' 0 = Ok (Some [])) /\
      sh_size s' <= (if sh_size s =? 0 then 1 else sh_size s) + lenN str + 1.
  Proof.
    intros HI Hn Hb.
    destruct (add_string_spec s str HI Hn Hb) as (s' & idx & E & I' & K & C & Ei & S').
    exists s', idx. split; [exact E|]. split; [exact I'|].
    rewrite (get_string_Inv s' idx I').
    pose proof (lenN_contents _ HI) as L0.
    split; [|split; [|split]].
    - rewrite C, Ei. destruct (N.eqb_spec (sh_size s) 0) as [E0|E0].
      + f_equal. change 1 with (lenN [0]). apply gs_c_new. assumption.
      + f_equal. rewrite <- L0. apply gs_c_new. assumption.
    - intros j t Hj. rewrite (get_string_Inv s j HI) in Hj. injection Hj as Hj.
      rewrite (get_string_Inv s' j I'), C. f_equal.
      destruct (N.eqb_spec (sh_size s) 0) as [E0|E0].
      + assert (contents s = []) as Ec by (apply lenN_0; lia). rewrite Ec in Hj.
        unfold gs_c in Hj. cbn in Hj. destruct (N.leb_spec 0 j); [discriminate|lia].
      + now apply gs_c_app.
    - intros E0. rewrite (get_string_Inv s' 0 I'), C, E0. cbn [N.eqb]. f_equal.
      change ([0] ++ str ++ [0]) with ([] ++ [] ++ 0 :: (str ++ [0])).
      change 0 with (lenN (@nil N)) at 1. apply gs_c_new. apply Forall_nil.
    - rewrite S', Ei. lia.
  Qed.

End Proofs.

  (* any lookup on any table whose buffer is at least as long as its size:
     null, or a NUL-terminated string wholly inside the section; never a fault *)
  Theorem lookup_safe b size i :
    size <= lenN b ->
    get_string_raw (Some b) size i = Ok None \/
    exists t, get_string_raw (Some b) size i = Ok (Some t) /\
      i + lenN t < size /\ nul_free t /\ sliceN b i (lenN t + 1) = t ++ [0].
  Proof.
    intros Hs. rewrite get_string_contents by assumption.
    destruct (gs_c (firstnN b size) i) as [t|] eqn:E; [right|left; reflexivity].
    exists t. split; [reflexivity|].
    destruct (gs_c_sound _ _ _ E) as (H1 & H2 & H3).
    rewrite lenN_firstnN in H1. split; [lia|]. split; [assumption|].
    rewrite <- H3. unfold sliceN. rewrite skipnN_firstnN_comm, firstnN_firstnN.
    f_equal. lia.
  Qed.

  Theorem lookup_null_safe size i : get_string_raw None size i = Ok None.
  Proof. reflexivity. Qed.
