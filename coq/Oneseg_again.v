(* Oneseg_again.v — C06 for objects with one segment of automatically addressed members: the layout half of a
   second save() re-derives exactly the object the first one left (same header, same segment, same sections),
   so the second file is the first. *)
From ElfioV Require Import Bytes Mem Stream SectionData SectionData_proofs Strings Elfio Table Loader Layout Layout_proofs Segment_proofs Oneseg_proofs.
From Coq Require Import ZifyBool ZifyN ZifyNat.
Local Open Scope N_scope.

(* ---------- the free-section pass again, with segments present ---------- *)
Lemma lfs_shape_gen segs : forall todo pre pos,
  exists todo' pos', layout_free_sections segs (pre ++ todo) (lenN pre) todo pos = (pre ++ todo', pos') /\ lenN todo' = lenN todo.
Proof.
  induction todo as [|sec t IH]; intros pre pos; cbn [layout_free_sections].
  - exists [], pos. auto.
  - destruct (sec_without_segment segs (lenN pre)).
    + rewrite updN_mid.
      match goal with |- context [layout_free_sections segs (pre ++ ?s1 :: t) _ t ?p2] =>
        replace (pre ++ s1 :: t) with ((pre ++ [s1]) ++ t) by (rewrite <- app_assoc; reflexivity);
        replace (lenN pre + 1) with (lenN (pre ++ [s1])) by (rewrite lenN_app; cbn; lia);
        destruct (IH (pre ++ [s1]) p2) as (t' & pos' & -> & HL); exists (s1 :: t'), pos' end.
      rewrite <- app_assoc. split; [reflexivity|]. rewrite !lenN_cons. lia.
    + replace (pre ++ sec :: t) with ((pre ++ [sec]) ++ t) by (rewrite <- app_assoc; reflexivity).
      replace (lenN pre + 1) with (lenN (pre ++ [sec])) by (rewrite lenN_app; cbn; lia).
      destruct (IH (pre ++ [sec]) pos) as (t' & pos' & -> & HL). exists (sec :: t'), pos'.
      rewrite <- app_assoc. split; [reflexivity|]. rewrite !lenN_cons. lia.
Qed.

Theorem lfs_idempotent_gen segs : forall todo pre pos todo' pos',
  layout_free_sections segs (pre ++ todo) (lenN pre) todo pos = (pre ++ todo', pos') ->
  layout_free_sections segs (pre ++ todo') (lenN pre) todo' pos = (pre ++ todo', pos').
Proof.
  induction todo as [|sec t IH]; intros pre pos todo' pos' H.
  - cbn [layout_free_sections] in H. injection H as H1 H2. rewrite app_nil_r in H1.
    assert (todo' = []) by (apply (app_inv_head pre); rewrite app_nil_r; symmetry; exact H1). subst. reflexivity.
  - cbn [layout_free_sections] in H. destruct (sec_without_segment segs (lenN pre)) eqn:Ef.
    + rewrite updN_mid in H.
      set (align := sh_addralign sec) in *.
      set (pos1 := if (1 <? align) && negb (pos mod align =? 0) then add64 pos (align - pos mod align) else pos) in *.
      set (sec1 := if s_index sec =? 0 then sec else with_offset sec pos1) in *.
      set (pos2 := if negb (sh_type sec1 =? SHT_NOBITS) && negb (sh_type sec1 =? SHT_NULL) then add64 pos1 (sh_size sec1) else pos1) in *.
      replace (pre ++ sec1 :: t) with ((pre ++ [sec1]) ++ t) in H by (rewrite <- app_assoc; reflexivity).
      replace (lenN pre + 1) with (lenN (pre ++ [sec1])) in H by (rewrite lenN_app; cbn; lia).
      destruct (lfs_shape_gen segs t (pre ++ [sec1]) pos2) as (t' & p' & E & _).
      rewrite E in H. injection H as H1 H2. rewrite <- app_assoc in H1. apply app_inv_head in H1. subst todo' p'.
      change ([sec1] ++ t') with (sec1 :: t').
      cbn [layout_free_sections]. rewrite Ef, updN_mid.
      assert (A1 : sh_addralign sec1 = align) by (unfold sec1; destruct (s_index sec =? 0); reflexivity).
      rewrite A1. fold pos1.
      assert (S1 : (if s_index sec1 =? 0 then sec1 else with_offset sec1 pos1) = sec1).
      { unfold sec1. destruct (s_index sec =? 0) eqn:E0; [rewrite E0; reflexivity|]. cbn [s_index with_offset]. rewrite E0. reflexivity. }
      rewrite S1. fold pos2.
      replace (pre ++ sec1 :: t') with ((pre ++ [sec1]) ++ t') by (rewrite <- app_assoc; reflexivity).
      replace (lenN pre + 1) with (lenN (pre ++ [sec1])) by (rewrite lenN_app; cbn; lia).
      apply IH. exact E.
    + replace (pre ++ sec :: t) with ((pre ++ [sec]) ++ t) in H by (rewrite <- app_assoc; reflexivity).
      replace (lenN pre + 1) with (lenN (pre ++ [sec])) in H by (rewrite lenN_app; cbn; lia).
      destruct (lfs_shape_gen segs t (pre ++ [sec]) pos) as (t' & p' & E & _).
      rewrite E in H. injection H as H1 H2. rewrite <- app_assoc in H1. apply app_inv_head in H1. subst todo' p'.
      change ([sec] ++ t') with (sec :: t').
      cbn [layout_free_sections]. rewrite Ef.
      replace (pre ++ sec :: t') with ((pre ++ [sec]) ++ t') by (rewrite <- app_assoc; reflexivity).
      replace (lenN pre + 1) with (lenN (pre ++ [sec])) by (rewrite lenN_app; cbn; lia).
      apply IH. exact E.
Qed.

(* ---------- the segment pass again, on a list that agrees with the first pass's result on the members ---------- *)
Lemma mend_frame secsA secsB idxs : (forall i, In i idxs -> nth_optN secsB i = nth_optN secsA i) ->
  forall lo, mend secsB idxs lo = mend secsA idxs lo.
Proof.
  induction idxs as [|i t IH]; intros Hf lo; [reflexivity|]. cbn [mend]. rewrite (Hf i (or_introl eq_refl)).
  destruct (nth_optN secsA i); [|reflexivity]. apply IH. intros j Hj. apply Hf. now right.
Qed.

Theorem layout_one_segment_again_frame h g secs gen pos bound ms g' secs' gen' pos' secs2 :
  let idxs := g_sections g in
  let align := if 0 <? p_align g then p_align g else 1 in
  lenN idxs < 2 ^ 16 -> idxs <> [] ->
  g_offset_set g = false -> p_type g <> PT_PHDR ->
  NoDup idxs -> Forall2 (fun i s => nth_optN secs i = Some s) idxs ms ->
  Forall auto_member ms -> Forall (fun s => bound <= 2 ^ xw (s_cls s)) ms -> Forall (fun s => sh_size s <> 0) ms ->
  (forall i, In i idxs -> nth_optN gen i = Some false) ->
  bound <= 2 ^ 63 -> bound <= 2 ^ xw (g_cls g) -> p_align g < 2 ^ 63 ->
  p_vaddr g + pos + align + mbudget ms < bound -> 0 < pos ->
  layout_one_segment h g secs gen pos = Ok (g', secs', gen', pos', true) ->
  (forall i, In i idxs -> nth_optN secs2 i = nth_optN secs' i) ->
  exists gen'', layout_one_segment h g' secs2 gen pos = Ok (g', secs2, gen'', pos', true).
Proof.
  cbv zeta. intros Hlen Hne Hos Hty Hnd HF Hauto Hcls Hnz Hgen Hb63 Hbg Hal Hbud Hpos E Hfr.
  destruct (layout_one_segment_auto h g secs gen pos bound ms Hlen Hne Hos Hty Hnd HF Hauto Hcls Hgen ltac:(lia) Hbg Hal Hbud)
    as (g1 & secs1 & gen1 & pos1 & seg_start & E1 & S1 & S2 & S3 & O1 & V1 & F1 & M1 & Ch & Fr & Ln & (G1 & G2 & G3 & G4 & G5 & _) & Pe & Pl & Hdef & Hpb).
  cbv zeta in *. rewrite E in E1. injection E1 as <- <- <- <-.
  set (align := if 0 <? p_align g then p_align g else 1) in *.
  unfold layout_one_segment.
  assert (Hn : seg_sections_num g' = lenN (g_sections g)).
  { unfold seg_sections_num. rewrite G1. unfold wrap16, wrap. apply N.mod_small. exact Hlen. }
  rewrite Hn, G1, firstnN_all by lia.
  assert (E0 : ((p_type g' =? PT_PHDR) && (lenN (g_sections g) =? 0)) = false).
  { destruct (g_sections g); [contradiction|]. rewrite lenN_cons. destruct (N.eqb_spec (1 + lenN l) 0); [lia|]. now rewrite andb_false_r. }
  rewrite E0, G2, O1.
  destruct (N.eqb_spec seg_start 0); [lia|]. cbn [andb].
  destruct (N.ltb_spec 0 (lenN (g_sections g))) as [_|Hz]; [|destruct (g_sections g); [contradiction|rewrite lenN_cons in Hz; lia]].
  destruct (g_sections g) as [|i0 t0] eqn:Eg; [contradiction|].
  assert (Hfirst : seg_section_at g' 0 = i0) by (unfold seg_section_at; rewrite G1; reflexivity).
  rewrite Hfirst. unfold gen_get at 1. rewrite (Hgen i0 (or_introl eq_refl)). cbn [bind negb].
  rewrite G3, V1. fold align.
  rewrite <- Hdef. cbn [bind].
  specialize (Pl Hnz).
  assert (Hme : mend secs2 (i0 :: t0) seg_start = mend secs' (i0 :: t0) seg_start) by (apply mend_frame; exact Hfr).
  assert (Hb : p_vaddr g' + mend secs2 (i0 :: t0) seg_start < 2 ^ 63).
  { rewrite Hme, V1, <- Pe. lia. }
  destruct (write_segment_data_placed g' seg_start (i0 :: t0) (mkW secs2 gen seg_start 0 0) Hnd) as (gen'' & ->).
  { exact Hgen. }
  { intros i Hi. cbn [ws_secs]. rewrite (Hfr i Hi). now apply Pl. }
  { cbn [ws_secs ws_pos]. apply mchain_tighten with (hi := pos').
    apply (mchain_frame g' seg_start secs' secs2); [exact Hfr|]. now apply (mchain_same_vaddr g g'). }
  { cbn; lia. } { reflexivity. } { cbn; lia. } { exact Hb. }
  cbn [bind ws_pos ws_secs ws_fsz ws_mem]. rewrite Hme, <- Pe.
  rewrite <- F1.
  destruct (N.ltb_spec (p_memsz (seg_set g' GFilesz (p_filesz g'))) (p_filesz g')) as [Hlt|Hge].
  { cbn [p_memsz seg_set] in Hlt. lia. }
  replace (seg_set (seg_set g' GFilesz (p_filesz g')) GOffset seg_start) with g'.
  { exists gen''. reflexivity. }
  symmetry. rewrite <- O1. apply seg_set_noop; [exact G2| |].
  - rewrite G5, F1. pose proof (mchain_bounds _ _ _ _ _ _ Ch). lia.
  - rewrite G5, O1. lia.
Qed.

(* ---------- the whole layout step twice ---------- *)
Lemma hdr_prep1_idem h nsec p : hdr_prep1 (hdr_set (hdr_prep1 h nsec) HShoff p) nsec = hdr_prep1 h nsec.
Proof. destruct h; reflexivity. Qed.

Lemma calc_seg_align_noop' secs g :
  (forall i, In i (firstnN (g_sections g) (seg_sections_num g)) -> exists s, nth_optN secs i = Some s /\ sh_addralign s <= p_align g) ->
  calc_seg_align secs g = Ok g.
Proof.
  unfold calc_seg_align. generalize (firstnN (g_sections g) (seg_sections_num g)). intro l.
  induction l as [|i t IH]; intro H; [reflexivity|].
  cbn [fold_left bind]. destruct (H i (or_introl eq_refl)) as (s & -> & Ha).
  destruct (N.ltb_spec (p_align g) (sh_addralign s)); [lia|]. apply IH. intros j Hj. apply H. now right.
Qed.

Theorem layout_oneseg_twice el h0 g bound ms :
  let idxs := g_sections g in
  let align := if 0 <? p_align g then p_align g else 1 in
  let secs := el_secs el in
  let pos0 := e_ehsize h0 + e_phentsize h0 in
  el_hdr el = Some h0 -> el_segs el = [g] -> lenN secs < 2 ^ 16 ->
  lenN idxs < 2 ^ 16 -> idxs <> [] -> g_offset_set g = false -> p_type g <> PT_PHDR -> NoDup idxs ->
  Forall2 (fun i s => nth_optN secs i = Some s) idxs ms ->
  Forall auto_member ms -> Forall (fun s => sh_addralign s <= p_align g) ms -> Forall (fun s => sh_size s <> 0) ms ->
  bound <= 2 ^ 63 -> Forall (fun s => bound <= 2 ^ xw (s_cls s)) secs -> bound <= 2 ^ xw (g_cls g) ->
  p_align g < 2 ^ 63 -> 0 < pos0 ->
  p_vaddr g + pos0 + align + mbudget ms + budget secs + 16 < bound ->
  exists el', layout el = Ok (el', true) /\ layout el' = Ok (el', true).
Proof.
  cbv zeta. intros Hh Hs Hnsec Hlen Hne Hos Hty Hnd HF Hauto Hdom Hnz Hb63 Hcls Hbg Hal Hp0 Hbud.
  set (align := if 0 <? p_align g then p_align g else 1) in *.
  assert (Ha1 : 1 <= align) by (unfold align; destruct (N.ltb_spec 0 (p_align g)); lia).
  assert (Hn : seg_sections_num g = lenN (g_sections g)).
  { unfold seg_sections_num, wrap16, wrap. apply N.mod_small. exact Hlen. }
  assert (Hms_in : forall s, In s ms -> In s (el_secs el)).
  { clear - HF. induction HF as [|i s t mt Hi HFt IH]; intros x Hx; [contradiction|].
    destruct Hx as [<-|Hx]; [now apply nth_optN_In in Hi|now apply IH]. }
  assert (Hcls_ms : Forall (fun s => bound <= 2 ^ xw (s_cls s)) ms).
  { apply Forall_forall. intros s Hsin. rewrite Forall_forall in Hcls. apply Hcls. now apply Hms_in. }
  (* ---- first pass, as in layout_oneseg ---- *)
  unfold layout at 1. rewrite Hh, Hs. cbn [lenN].
  change (wrap16 (N.succ 0)) with 1. cbn [N.ltb N.compare Pos.compare Pos.compare_cont].
  set (nsec := wrap16 (lenN (el_secs el))).
  assert (Ensec : nsec = lenN (el_secs el)) by (unfold nsec, wrap16, wrap; apply N.mod_small; exact Hnsec).
  cbn [map_res bind].
  rewrite (calc_seg_align_noop (el_secs el) g ms) by (try (rewrite Hn, firstnN_all by lia); assumption).
  cbn [bind]. rewrite ordered_single. cbn [bind layout_segments nth_optN N.eqb].
  change (hdr_set (hdr_set (hdr_set (hdr_set h0 HPhnum 1) HPhoff (e_ehsize (hdr_set h0 HPhnum 1))) HShnum nsec) HShoff 0)
    with (hdr_prep1 h0 nsec).
  set (h4 := hdr_prep1 h0 nsec).
  assert (P0 : add64 (e_ehsize h4) (wrap64 (e_phentsize h4 * e_phnum h4)) = e_ehsize h0 + e_phentsize h0).
  { replace (e_ehsize h4) with (e_ehsize h0) by (destruct h0; reflexivity).
    replace (e_phentsize h4) with (e_phentsize h0) by (destruct h0; reflexivity).
    replace (e_phnum h4) with 1 by (destruct h0; reflexivity).
    rewrite N.mul_1_r. unfold wrap64. rewrite wrap_small by lia. apply add64_id. lia. }
  rewrite P0. set (pos0 := e_ehsize h0 + e_phentsize h0) in *.
  assert (Hgen0 : forall i, In i (g_sections g) -> nth_optN (repeatN false nsec) i = Some false).
  { intros i Hi. apply nth_optN_repeatN. rewrite Ensec.
    destruct (Forall2_both_In _ _ _ _ i HF HF Hi) as (s & _ & Hsi & _). exact (nth_optN_lt _ _ _ Hsi). }
  destruct (layout_one_segment_auto h4 g (el_secs el) (repeatN false nsec) pos0 bound ms Hlen Hne Hos Hty Hnd HF Hauto Hcls_ms Hgen0)
    as (g' & secs1 & gen' & pos1 & ss & E1 & A1 & A2 & A3 & A4 & A5 & A6 & A7 & A8 & A9 & A10 & A11 & A12 & _ & _ & A15 & A16);
    try assumption; try lia.
  cbv zeta in E1. rewrite E1. cbn [bind updN N.eqb layout_segments].
  assert (HR : Forall2 placed_or_same (el_secs el) secs1).
  { apply Forall2_of_nth; [exact A10|]. intros j x Hj.
    destruct (in_dec N.eq_dec j (g_sections g)) as [Hin|Hnin].
    - destruct (Forall2_both_In _ _ _ _ j HF A16 Hin) as (s & _ & Hsj & (a & o & Hs1)).
      rewrite Hj in Hsj. injection Hsj as <-. exists (with_offset (with_addr x a) o). split; [exact Hs1|right; eauto].
    - exists x. split; [rewrite (A9 j Hnin); exact Hj|now left]. }
  destruct (lfs_spec_gen bound [g'] secs1 [] pos1 ltac:(lia) (cls_placed (fun c => bound <= 2 ^ xw c) _ _ HR Hcls))
    as (secs' & pos2 & E2 & K & Ch & Le & Nm).
  { rewrite (budget_placed _ _ HR). lia. }
  cbn [app lenN] in E2, Ch, Nm. rewrite E2.
  assert (P3 : add64 pos2 (16 - pos2 mod 16) = pos2 + (16 - pos2 mod 16)).
  { apply add64_id. assert (pos2 mod 16 < 16) by (apply N.mod_lt; lia). rewrite (budget_placed _ _ HR) in Le. lia. }
  rewrite P3. set (pos3 := pos2 + (16 - pos2 mod 16)).
  destruct A11 as (G1 & G2 & G3 & G4 & G5 & G6 & G7 & G8).
  assert (Hmem : forall k, In k (g_sections g) -> nth_optN secs' k = nth_optN secs1 k).
  { intros k Hk. apply Nm. rewrite N.add_0_l, sws_single by (rewrite G1; exact Hlen). rewrite G1.
    apply is_member_In in Hk. now rewrite Hk. }
  assert (LN : lenN secs' = lenN (el_secs el)) by (rewrite (Forall2_lenN _ _ _ K); exact A10).
  eexists. split; [reflexivity|].
  (* ---- second pass ---- *)
  unfold layout. cbn [el_hdr el_segs el_secs el_xlat el_compr el_stream lenN].
  change (wrap16 (N.succ 0)) with 1. cbn [N.ltb N.compare Pos.compare Pos.compare_cont].
  rewrite LN. fold nsec.
  change (hdr_set (hdr_set (hdr_set (hdr_set (hdr_set h4 HShoff pos3) HPhnum 1) HPhoff (e_ehsize (hdr_set (hdr_set h4 HShoff pos3) HPhnum 1))) HShnum nsec) HShoff 0)
    with (hdr_prep1 (hdr_set h4 HShoff pos3) nsec).
  unfold h4 at 1 2 3 4. rewrite hdr_prep1_idem. fold h4. rewrite P0.
  cbn [map_res bind].
  assert (Hn' : seg_sections_num g' = lenN (g_sections g)).
  { unfold seg_sections_num. rewrite G1. unfold wrap16, wrap. apply N.mod_small. exact Hlen. }
  rewrite (calc_seg_align_noop' secs' g').
  2:{ rewrite Hn', G1, firstnN_all by lia. intros i Hi.
      destruct (Forall2_both_In _ _ _ _ i HF A16 Hi) as (s & Hsin & _ & (a & o & Hs1)).
      exists (with_offset (with_addr s a) o). rewrite (Hmem i Hi). split; [exact Hs1|].
      rewrite G3. rewrite Forall_forall in Hdom. exact (Hdom s Hsin). }
  cbn [bind]. rewrite ordered_single. cbn [bind layout_segments nth_optN N.eqb].
  destruct (layout_one_segment_again_frame h4 g (el_secs el) (repeatN false nsec) pos0 bound ms g' secs1 gen' pos1 secs'
              Hlen Hne Hos Hty Hnd HF Hauto Hcls_ms Hnz Hgen0 Hb63 Hbg Hal ltac:(fold align; lia) Hp0 E1 Hmem) as (gen'' & ->).
  cbn [bind updN N.eqb layout_segments].
  pose proof (lfs_idempotent_gen [g'] secs1 [] pos1 secs' pos2 E2) as E3. cbn [app lenN] in E3. rewrite E3.
  rewrite P3. reflexivity.
Qed.
