(* Tie_conv.v — tie A, part 3: the endianness convertor and the symbol/relocation info macros,
   translated from the clang AST of /repo (Gen_leaf.v, regenerated on every run), implement what the
   model assumes: the model decodes a field of a file with byte order e as [dec_uint e bytes] and
   encodes it as [enc_uint e n v]; the C++ reads/writes the bytes in host order and passes the value
   through endianness_convertor::operator() when the file's order differs from the host's. *)
From Coq Require Import NArith Bool List Lia ZifyBool ZifyN.
Import ListNotations.
From ElfioV Require Import Bytes Mem Stream SectionData Strings Elfio Table Accessors Leaf_ops Gen_leaf.
Local Open Scope N_scope.
Ltac Zify.zify_post_hook ::= Z.div_mod_to_equations.
Lemma land_shifted_byte v s : N.land v (N.shiftl 255 s) = N.shiftl (N.land (N.shiftr v s) 255) s.
Proof.
  apply N.bits_inj; intro i. rewrite N.land_spec.
  destruct (N.lt_ge_cases i s) as [Hi|Hi].
  - rewrite !N.shiftl_spec_low by assumption. apply andb_false_r.
  - rewrite !N.shiftl_spec_high' by assumption. rewrite N.land_spec, N.shiftr_spec'.
    replace (i - s + s) with i by lia. reflexivity.
Qed.

Lemma byte_at v k : N.land v (255 * 2 ^ k) = ((v / 2 ^ k) mod 256) * 2 ^ k.
Proof.
  rewrite <- (N.shiftl_mul_pow2 255 k), land_shifted_byte, N.shiftl_mul_pow2, N.shiftr_div_pow2.
  change 255 with (N.ones 8). rewrite N.land_ones. reflexivity.
Qed.

Lemma lor_high_low b k a : a < 2 ^ k -> N.lor (b * 2 ^ k) a = b * 2 ^ k + a.
Proof. intro H. rewrite N.lor_comm, lor_disjoint by assumption. lia. Qed.

Lemma conv16_bytes b0 b1 : b0 < 256 -> b1 < 256 -> gen_conv16 (b0 + 256 * b1) true = b1 + 256 * b0.
Proof.
  intros H0 H1. unfold gen_conv16. cbn [negb].
  set (v := b0 + 256 * b1).
  change 255 with (255 * 2 ^ 0). change 65280 with (255 * 2 ^ 8). rewrite !byte_at.
  assert (E0 : (v / 2 ^ 0) mod 256 = b0) by (subst v; change (2 ^ 0) with 1; lia).
  assert (E1 : (v / 2 ^ 8) mod 256 = b1) by (subst v; change (2 ^ 8) with 256; lia).
  rewrite E0, E1. unfold ushl, wrap. rewrite N.shiftl_mul_pow2, N.shiftr_div_pow2.
  change (2 ^ 0) with 1. change (2 ^ 8) with 256. change (2 ^ 16) with 65536. change (2 ^ 32) with 4294967296.
  rewrite N.div_mul by discriminate.
  replace ((b0 * 1 * 256) mod 4294967296 mod 65536) with (b0 * 2 ^ 8) by (change (2 ^ 8) with 256; lia).
  rewrite lor_high_low by (change (2 ^ 8) with 256; lia). change (2 ^ 8) with 256. lia.
Qed.

Lemma conv32_bytes b0 b1 b2 b3 : b0 < 256 -> b1 < 256 -> b2 < 256 -> b3 < 256 ->
  gen_conv32 (b0 + 256 * (b1 + 256 * (b2 + 256 * b3))) true = b3 + 256 * (b2 + 256 * (b1 + 256 * b0)).
Proof.
  intros H0 H1 H2 H3. unfold gen_conv32. cbn [negb].
  set (v := b0 + 256 * (b1 + 256 * (b2 + 256 * b3))).
  change 255 with (255 * 2 ^ 0). change 65280 with (255 * 2 ^ 8). change 16711680 with (255 * 2 ^ 16).
  change 4278190080 with (255 * 2 ^ 24). rewrite !byte_at.
  assert (E0 : (v / 2 ^ 0) mod 256 = b0) by (subst v; change (2 ^ 0) with 1; lia).
  assert (E1 : (v / 2 ^ 8) mod 256 = b1) by (subst v; change (2 ^ 8) with 256; lia).
  assert (E2 : (v / 2 ^ 16) mod 256 = b2) by (subst v; change (2 ^ 16) with 65536; lia).
  assert (E3 : (v / 2 ^ 24) mod 256 = b3) by (subst v; change (2 ^ 24) with 16777216; lia).
  rewrite E0, E1, E2, E3. clearbody v. unfold ushl, wrap. rewrite !N.shiftl_mul_pow2, !N.shiftr_div_pow2.
  change (2 ^ 0) with 1. change (2 ^ 8) with 256. change (2 ^ 16) with 65536. change (2 ^ 24) with 16777216. change (2 ^ 32) with 4294967296.
  replace ((b0 * 1 * 16777216) mod 4294967296) with (b0 * 2 ^ 24) by (change (2 ^ 24) with 16777216; lia).
  replace ((b1 * 256 * 256) mod 4294967296) with (b1 * 65536) by lia.
  replace (b2 * 65536 / 256) with (b2 * 256) by lia.
  replace (b3 * 16777216 / 16777216) with b3 by lia.
  rewrite lor_high_low by (change (2 ^ 24) with 16777216; lia).
  replace (b0 * 2 ^ 24 + b1 * 65536) with ((b0 * 256 + b1) * 2 ^ 16) by (change (2 ^ 24) with 16777216; change (2 ^ 16) with 65536; lia).
  rewrite lor_high_low by (change (2 ^ 16) with 65536; lia).
  replace ((b0 * 256 + b1) * 2 ^ 16 + b2 * 256) with (((b0 * 256 + b1) * 256 + b2) * 2 ^ 8) by (change (2 ^ 16) with 65536; change (2 ^ 8) with 256; lia).
  rewrite lor_high_low by (change (2 ^ 8) with 256; lia). change (2 ^ 8) with 256. lia.
Qed.


Ltac npow := repeat match goal with
  | |- context [2 ^ ?k] => let c := eval vm_compute in (2 ^ k) in change (2 ^ k) with c
  end.
Lemma byte_of_sum lo bi hi k : lo < 2 ^ k -> bi < 256 -> ((lo + 2 ^ k * (bi + 256 * hi)) / 2 ^ k) mod 256 = bi.
Proof.
  intros Hlo Hbi. rewrite (N.mul_comm (2 ^ k)), N.div_add by (apply N.pow_nonzero; discriminate).
  rewrite N.div_small by assumption. cbn [N.add]. rewrite (N.mul_comm 256), N.mod_add by discriminate.
  apply N.mod_small. assumption.
Qed.
Lemma byte_of_top lo bi k : lo < 2 ^ k -> bi < 256 -> ((lo + 2 ^ k * bi) / 2 ^ k) mod 256 = bi.
Proof. intros Hlo Hbi. replace bi with (bi + 256 * 0) at 1 by lia. now apply byte_of_sum. Qed.

Lemma shl_small b j k m w : b < 256 -> m = j + k -> m + 8 <= w -> (b * 2 ^ j * 2 ^ k) mod 2 ^ w = b * 2 ^ m.
Proof.
  intros Hb -> Hw. rewrite <- N.mul_assoc, <- N.pow_add_r. apply N.mod_small.
  apply N.lt_le_trans with (2 ^ 8 * 2 ^ (j + k)).
  - apply N.mul_lt_mono_pos_r; [|exact Hb]. apply N.neq_0_lt_0, N.pow_nonzero. discriminate.
  - rewrite <- N.pow_add_r. apply N.pow_le_mono_r; [discriminate|lia].
Qed.
Lemma shr_exact b j k m : j = m + k -> b * 2 ^ j / 2 ^ k = b * 2 ^ m.
Proof.
  intros ->. rewrite N.pow_add_r, N.mul_assoc. apply N.div_mul. apply N.pow_nonzero. discriminate.
Qed.
Lemma byte_shl_lt b m k : b < 256 -> m + 8 <= k -> b * 2 ^ m < 2 ^ k.
Proof.
  intros Hb Hk. apply N.lt_le_trans with (2 ^ 8 * 2 ^ m).
  - apply N.mul_lt_mono_pos_r; [|exact Hb]. apply N.neq_0_lt_0, N.pow_nonzero. discriminate.
  - rewrite <- N.pow_add_r. apply N.pow_le_mono_r; [discriminate|lia].
Qed.
Lemma conv64_bytes b0 b1 b2 b3 b4 b5 b6 b7 :
  b0 < 256 -> b1 < 256 -> b2 < 256 -> b3 < 256 -> b4 < 256 -> b5 < 256 -> b6 < 256 -> b7 < 256 ->
  gen_conv64 (b0 + 256 * (b1 + 256 * (b2 + 256 * (b3 + 256 * (b4 + 256 * (b5 + 256 * (b6 + 256 * (b7)))))))) true
  = b7 + 256 * (b6 + 256 * (b5 + 256 * (b4 + 256 * (b3 + 256 * (b2 + 256 * (b1 + 256 * (b0))))))).
Proof.
  intros H0 H1 H2 H3 H4 H5 H6 H7. unfold gen_conv64. cbn [negb].
  set (v := b0 + 256 * (b1 + 256 * (b2 + 256 * (b3 + 256 * (b4 + 256 * (b5 + 256 * (b6 + 256 * (b7)))))))).
  change 255 with (255 * 2 ^ 0). change 65280 with (255 * 2 ^ 8). change 16711680 with (255 * 2 ^ 16). change 4278190080 with (255 * 2 ^ 24). change 1095216660480 with (255 * 2 ^ 32). change 280375465082880 with (255 * 2 ^ 40). change 71776119061217280 with (255 * 2 ^ 48). change 18374686479671623680 with (255 * 2 ^ 56). rewrite !byte_at.
  assert (E0 : (v / 2 ^ 0) mod 256 = b0).
  { replace v with (0 + 2 ^ 0 * (b0 + 256 * (b1 + 256 * (b2 + 256 * (b3 + 256 * (b4 + 256 * (b5 + 256 * (b6 + 256 * (b7))))))))) by (subst v; npow; lia). apply byte_of_sum; [npow; lia|assumption]. }
  assert (E1 : (v / 2 ^ 8) mod 256 = b1).
  { replace v with ((b0) + 2 ^ 8 * (b1 + 256 * (b2 + 256 * (b3 + 256 * (b4 + 256 * (b5 + 256 * (b6 + 256 * (b7)))))))) by (subst v; npow; lia). apply byte_of_sum; [npow; lia|assumption]. }
  assert (E2 : (v / 2 ^ 16) mod 256 = b2).
  { replace v with ((b0 + 256 * (b1)) + 2 ^ 16 * (b2 + 256 * (b3 + 256 * (b4 + 256 * (b5 + 256 * (b6 + 256 * (b7))))))) by (subst v; npow; lia). apply byte_of_sum; [npow; lia|assumption]. }
  assert (E3 : (v / 2 ^ 24) mod 256 = b3).
  { replace v with ((b0 + 256 * (b1 + 256 * (b2))) + 2 ^ 24 * (b3 + 256 * (b4 + 256 * (b5 + 256 * (b6 + 256 * (b7)))))) by (subst v; npow; lia). apply byte_of_sum; [npow; lia|assumption]. }
  assert (E4 : (v / 2 ^ 32) mod 256 = b4).
  { replace v with ((b0 + 256 * (b1 + 256 * (b2 + 256 * (b3)))) + 2 ^ 32 * (b4 + 256 * (b5 + 256 * (b6 + 256 * (b7))))) by (subst v; npow; lia). apply byte_of_sum; [npow; lia|assumption]. }
  assert (E5 : (v / 2 ^ 40) mod 256 = b5).
  { replace v with ((b0 + 256 * (b1 + 256 * (b2 + 256 * (b3 + 256 * (b4))))) + 2 ^ 40 * (b5 + 256 * (b6 + 256 * (b7)))) by (subst v; npow; lia). apply byte_of_sum; [npow; lia|assumption]. }
  assert (E6 : (v / 2 ^ 48) mod 256 = b6).
  { replace v with ((b0 + 256 * (b1 + 256 * (b2 + 256 * (b3 + 256 * (b4 + 256 * (b5)))))) + 2 ^ 48 * (b6 + 256 * (b7))) by (subst v; npow; lia). apply byte_of_sum; [npow; lia|assumption]. }
  assert (E7 : (v / 2 ^ 56) mod 256 = b7).
  { replace v with ((b0 + 256 * (b1 + 256 * (b2 + 256 * (b3 + 256 * (b4 + 256 * (b5 + 256 * (b6))))))) + 2 ^ 56 * b7) by (subst v; npow; lia). apply byte_of_top; [npow; lia|assumption]. }
  rewrite E0, E1, E2, E3, E4, E5, E6, E7. clearbody v. unfold ushl, wrap. rewrite !N.shiftl_mul_pow2, !N.shiftr_div_pow2.
  rewrite (shl_small b0 0 56 56 64) by (assumption || reflexivity || discriminate).
  rewrite (shl_small b1 8 40 48 64) by (assumption || reflexivity || discriminate).
  rewrite (shl_small b2 16 24 40 64) by (assumption || reflexivity || discriminate).
  rewrite (shl_small b3 24 8 32 64) by (assumption || reflexivity || discriminate).
  rewrite (shr_exact b4 32 8 24) by reflexivity.
  rewrite (shr_exact b5 40 24 16) by reflexivity.
  rewrite (shr_exact b6 48 40 8) by reflexivity.
  rewrite (shr_exact b7 56 56 0) by reflexivity. change (b7 * 2 ^ 0) with (b7 * 1). rewrite (N.mul_1_r b7).
  rewrite lor_high_low by (first [apply byte_shl_lt; [assumption|discriminate] | assumption]).
  replace (b0 * 2 ^ 56 + b1 * 2 ^ 48) with ((b0 * 256 + b1) * 2 ^ 48) by (npow; lia).
  rewrite lor_high_low by (first [apply byte_shl_lt; [assumption|discriminate] | assumption]).
  replace ((b0 * 256 + b1) * 2 ^ 48 + b2 * 2 ^ 40) with (((b0 * 256 + b1) * 256 + b2) * 2 ^ 40) by (npow; lia).
  rewrite lor_high_low by (first [apply byte_shl_lt; [assumption|discriminate] | assumption]).
  replace (((b0 * 256 + b1) * 256 + b2) * 2 ^ 40 + b3 * 2 ^ 32) with ((((b0 * 256 + b1) * 256 + b2) * 256 + b3) * 2 ^ 32) by (npow; lia).
  rewrite lor_high_low by (first [apply byte_shl_lt; [assumption|discriminate] | assumption]).
  replace ((((b0 * 256 + b1) * 256 + b2) * 256 + b3) * 2 ^ 32 + b4 * 2 ^ 24) with (((((b0 * 256 + b1) * 256 + b2) * 256 + b3) * 256 + b4) * 2 ^ 24) by (npow; lia).
  rewrite lor_high_low by (first [apply byte_shl_lt; [assumption|discriminate] | assumption]).
  replace (((((b0 * 256 + b1) * 256 + b2) * 256 + b3) * 256 + b4) * 2 ^ 24 + b5 * 2 ^ 16) with ((((((b0 * 256 + b1) * 256 + b2) * 256 + b3) * 256 + b4) * 256 + b5) * 2 ^ 16) by (npow; lia).
  rewrite lor_high_low by (first [apply byte_shl_lt; [assumption|discriminate] | assumption]).
  replace ((((((b0 * 256 + b1) * 256 + b2) * 256 + b3) * 256 + b4) * 256 + b5) * 2 ^ 16 + b6 * 2 ^ 8) with (((((((b0 * 256 + b1) * 256 + b2) * 256 + b3) * 256 + b4) * 256 + b5) * 256 + b6) * 2 ^ 8) by (npow; lia).
  rewrite lor_high_low by (first [apply byte_shl_lt; [assumption|discriminate] | assumption]).
  npow. lia.
Qed.

(* ---- the convertor in terms of the model's byte-order codecs ---- *)
Lemma is_bytes_2 b0 b1 : is_bytes [b0; b1] -> b0 < 256 /\ b1 < 256.
Proof. intro H. inversion H as [|? ? A H1]; subst. inversion H1; subst. auto. Qed.

Theorem tie_conv_off : forall v, gen_conv16 v false = v /\ gen_conv32 v false = v /\ gen_conv64 v false = v.
Proof. intro v. repeat split. Qed.

(* reading: the host (LSB) word run through the convertor is the big-endian reading of the same bytes *)
Theorem tie_conv16_read : forall bs, length bs = 2%nat -> is_bytes bs -> gen_conv16 (dec_uint LSB bs) true = dec_uint MSB bs.
Proof.
  intros bs Hl Hb. destruct bs as [|b0 [|b1 [|]]]; try discriminate Hl.
  unfold is_bytes in Hb. repeat match goal with H : Forall _ (_ :: _) |- _ => inversion H; clear H; subst end.
  cbn [dec_uint dec_le rev app]. rewrite !N.mul_0_r, !N.add_0_r. now apply conv16_bytes.
Qed.
Theorem tie_conv32_read : forall bs, length bs = 4%nat -> is_bytes bs -> gen_conv32 (dec_uint LSB bs) true = dec_uint MSB bs.
Proof.
  intros bs Hl Hb. destruct bs as [|b0 [|b1 [|b2 [|b3 [|]]]]]; try discriminate Hl.
  unfold is_bytes in Hb. repeat match goal with H : Forall _ (_ :: _) |- _ => inversion H; clear H; subst end.
  cbn [dec_uint dec_le rev app]. rewrite !N.mul_0_r, !N.add_0_r. now apply conv32_bytes.
Qed.
Theorem tie_conv64_read : forall bs, length bs = 8%nat -> is_bytes bs -> gen_conv64 (dec_uint LSB bs) true = dec_uint MSB bs.
Proof.
  intros bs Hl Hb. destruct bs as [|b0 [|b1 [|b2 [|b3 [|b4 [|b5 [|b6 [|b7 [|]]]]]]]]]; try discriminate Hl.
  unfold is_bytes in Hb. repeat match goal with H : Forall _ (_ :: _) |- _ => inversion H; clear H; subst end.
  cbn [dec_uint dec_le rev app]. rewrite !N.mul_0_r, !N.add_0_r. now apply conv64_bytes.
Qed.

(* writing: the bytes of the converted value in host (LSB) order are the big-endian encoding of the value *)
Lemma conv_write_from_read (n : nat) (conv : N -> bool -> N) :
  (forall bs, length bs = n -> is_bytes bs -> conv (dec_uint LSB bs) true = dec_uint MSB bs) ->
  forall v, v < 256 ^ N.of_nat n -> enc_uint LSB n (conv v true) = enc_uint MSB n v.
Proof.
  intros Hr v Hv.
  rewrite <- (dec_enc_uint_small LSB n v Hv) at 1.
  rewrite Hr by (apply enc_uint_length || apply enc_uint_is_bytes).
  cbn [dec_uint enc_uint].
  assert (L : length (rev (enc_le n v)) = n) by (rewrite rev_length; apply enc_le_length).
  rewrite <- L at 1. rewrite enc_dec_le by (apply Forall_rev, enc_le_is_bytes). reflexivity.
Qed.
Theorem tie_conv16_write : forall v, v < 2 ^ 16 -> enc_uint LSB 2 (gen_conv16 v true) = enc_uint MSB 2 v.
Proof. exact (conv_write_from_read 2 gen_conv16 tie_conv16_read). Qed.
Theorem tie_conv32_write : forall v, v < 2 ^ 32 -> enc_uint LSB 4 (gen_conv32 v true) = enc_uint MSB 4 v.
Proof. exact (conv_write_from_read 4 gen_conv32 tie_conv32_read). Qed.
Theorem tie_conv64_write : forall v, v < 2 ^ 64 -> enc_uint LSB 8 (gen_conv64 v true) = enc_uint MSB 8 v.
Proof. exact (conv_write_from_read 8 gen_conv64 tie_conv64_read). Qed.

(* ---- symbol info macros (ELF_ST_BIND / ELF_ST_TYPE / ELF_ST_INFO at the types of their call sites) ---- *)
Theorem tie_st_bind : forall i, i < 256 -> gen_st_bind i = N.shiftr i 4.
Proof.
  intros i Hi. unfold gen_st_bind, wrap. apply N.mod_small. rewrite N.shiftr_div_pow2. change (2 ^ 4) with 16. change (2 ^ 8) with 256. lia.
Qed.
Theorem tie_st_type : forall i, gen_st_type i = N.land i 15.
Proof.
  intro i. unfold gen_st_type, wrap. apply N.mod_small. change 15 with (N.ones 4). rewrite N.land_ones. change (2 ^ 4) with 16. change (2 ^ 8) with 256. lia.
Qed.
(* ELF_ST_INFO is the ABI packing: binding in the high, type in the low four bits; what get_symbol unpacks *)
Theorem tie_st_info : forall b t, b < 16 -> t < 256 ->
  gen_st_info b t = b * 16 + t mod 16 /\ gen_st_bind (gen_st_info b t) = b /\ gen_st_type (gen_st_info b t) = t mod 16.
Proof.
  intros b t Hb Ht.
  assert (E : gen_st_info b t = b * 16 + t mod 16).
  { unfold gen_st_info, uadd, ushl, wrap. rewrite N.shiftl_mul_pow2. change 15 with (N.ones 4). rewrite N.land_ones.
    change (2 ^ 4) with 16. change (2 ^ 8) with 256. change (2 ^ 32) with 4294967296. lia. }
  split; [exact E|]. rewrite tie_st_type, E. unfold gen_st_bind, wrap. rewrite N.shiftr_div_pow2.
  change 15 with (N.ones 4). rewrite N.land_ones. change (2 ^ 4) with 16. change (2 ^ 8) with 256. split; lia.
Qed.

(* ---- relocation info packing (ELF32_R_INFO / ELF64_R_INFO at the types of their call sites) ---- *)
Theorem tie_r_info32 : forall s t, s < 2 ^ 32 -> wrap32 (gen_r_info32 s t) = r_info C32 s t.
Proof.
  intros s t Hs. unfold gen_r_info32, r_info, uadd, ushl, wrap32, wrap64, wrap8. rewrite N.shiftl_mul_pow2.
  change (2 ^ 8) with 256. unfold wrap.
  assert (Hm : (s * 256) mod 2 ^ 64 = s * 256) by (apply N.mod_small; change (2 ^ 32) with 4294967296 in Hs; change (2 ^ 64) with 18446744073709551616; lia).
  rewrite Hm. f_equal. apply N.mod_small.
  change (2 ^ 32) with 4294967296 in Hs; change (2 ^ 64) with 18446744073709551616. change (2 ^ 8) with 256.
  pose proof (N.mod_lt t 256). lia.
Qed.
Theorem tie_r_info64 : forall s t, t < 2 ^ 32 -> gen_r_info64 s t = r_info C64 s t.
Proof.
  intros s t Ht. unfold gen_r_info64, r_info, uadd, ushl, wrap64, wrap32. rewrite N.shiftl_mul_pow2.
  change 4294967295 with (N.ones 32). rewrite N.land_ones. reflexivity.
Qed.
