(* Validate_writer.v — C20: validate() has no complaint about what the writer
   lays out for an object without segments. *)
From ElfioV Require Import Bytes Mem Stream SectionData Elfio Table Layout Writer Validate_proofs Layout_proofs.
From Coq Require Import ZifyBool ZifyN ZifyNat.
Local Open Scope N_scope.

Lemma nth_pair_split {A} (l : list A) : forall i j a b, i < j -> nth_optN l i = Some a -> nth_optN l j = Some b ->
  exists pre mid post, l = pre ++ a :: mid ++ b :: post.
Proof.
  induction l as [|x t IH]; intros i j a b Hij Ha Hb; cbn [nth_optN] in Ha, Hb; [discriminate|].
  destruct (N.eqb_spec j 0) as [Ej|Hj]; [lia|].
  destruct (N.eqb_spec i 0) as [Ei|Hi].
  - injection Ha as ->. rewrite nth_optN_nth_error in Hb. apply nth_error_split in Hb. destruct Hb as (l1 & l2 & -> & _).
    exists [], l1, l2. reflexivity.
  - destruct (IH (i - 1) (j - 1) a b ltac:(lia) Ha Hb) as (pre & mid & post & ->).
    exists (x :: pre), mid, post. reflexivity.
Qed.

(* in a chain, two sections that both occupy file space (in validate()'s sense)
   and carry their data are not reported as overlapping *)
Theorem chain_pairs_not_reported secs lo hi i j a b :
  chain secs lo hi -> hi < 2 ^ 64 ->
  (forall s, In s secs -> sh_type s = SHT_NULL -> sh_size s = 0) ->
  (forall s, In s secs -> s_index s = 0 -> sh_size s = 0 \/ sh_type s = SHT_NOBITS \/ sh_offset s = 0) ->
  i < j -> nth_optN secs i = Some a -> nth_optN secs j = Some b ->
  sections_overlap_reported a b = false.
Proof.
  intros Hch Hhi Hnull Hzero Hij Ha Hb.
  destruct (nth_pair_split secs i j a b Hij Ha Hb) as (pre & mid & post & E).
  assert (Ia : In a secs) by (rewrite E; apply in_or_app; right; now left).
  assert (Ib : In b secs) by (rewrite E; apply in_or_app; right; right; apply in_or_app; right; now left).
  destruct (sections_overlap_reported a b) eqn:Er; [|reflexivity]. exfalso.
  destruct (reported_occupies a b Er) as [(Ta & Sa & Oa) (Tb & Sb & Ob)].
  (* both have a non-zero index: index 0 would contradict "occupies" *)
  assert (Hia : s_index a <> 0).
  { intro E0. destruct (Hzero a Ia E0) as [H|[H|H]]; [lia|contradiction|lia]. }
  assert (Hib : s_index b <> 0).
  { intro E0. destruct (Hzero b Ib E0) as [H|[H|H]]; [lia|contradiction|lia]. }
  pose proof (chain_disjoint secs lo hi pre a mid b post Hch E Hia Hib) as Hd.
  destruct (chain_member secs lo hi a Hch Ia Hia) as (_ & Ea & _).
  destruct (chain_member secs lo hi b Hch Ib Hib) as (_ & Eb & _).
  assert (Ca : csize a = sh_size a).
  { unfold csize, carries. apply N.eqb_neq in Ta. rewrite Ta. cbn [negb andb].
    destruct (N.eqb_spec (sh_type a) SHT_NULL) as [En|_]; [rewrite (Hnull a Ia En) in Sa; lia|reflexivity]. }
  assert (Cb : csize b = sh_size b).
  { unfold csize, carries. apply N.eqb_neq in Tb. rewrite Tb. cbn [negb andb].
    destruct (N.eqb_spec (sh_type b) SHT_NULL) as [En|_]; [rewrite (Hnull b Ib En) in Sb; lia|reflexivity]. }
  rewrite Ca in *. rewrite Cb in *.
  assert (Fa : in_file a) by (unfold in_file; lia). assert (Fb : in_file b) by (unfold in_file; lia).
  apply (overlap_reported_iff a b (conj Ta (conj Sa Oa)) (conj Tb (conj Sb Ob)) Fa Fb) in Er.
  destruct Er as (x & [X1 X2] & [X3 X4]). lia.
Qed.

(* validate() accepts the layout the writer produces for an object without segments *)
Theorem validate_accepts_noseg_layout el h0 bound :
  el_hdr el = Some h0 -> el_segs el = [] ->
  bound <= 2 ^ 63 -> Forall (fun s => bound <= 2 ^ xw (s_cls s)) (el_secs el) ->
  e_ehsize h0 + budget (el_secs el) + 16 < bound ->
  lenN (el_secs el) < 2 ^ 16 ->
  (forall s, In s (el_secs el) -> sh_type s = SHT_NULL -> sh_size s = 0) ->
  (forall s, In s (el_secs el) -> s_index s = 0 -> sh_size s = 0 \/ sh_type s = SHT_NOBITS) ->
  exists el', layout el = Ok (el', true) /\ validate el' = [].
Proof.
  intros Hh Hs Hb Hc Hbud Hn Hnull Hzero.
  destruct (layout_noseg el h0 bound Hh Hs ltac:(lia) Hc Hbud) as (el' & secs' & h' & pos' & E & Es & Eg & _ & K & Ch & _ & Le & _).
  exists el'. split; [exact E|]. subst secs'.
  assert (Hlen : lenN (el_secs el') = lenN (el_secs el)) by (eapply Forall2_lenN; eauto).
  (* attributes other than the offset are kept, so the side conditions carry over *)
  assert (Hkeep : forall s', In s' (el_secs el') -> exists s, In s (el_secs el) /\ sh_type s' = sh_type s /\ sh_size s' = sh_size s /\ s_index s' = s_index s).
  { clear - K. induction K as [|s s' t t' Hk HK IH]; intros x Hx; [contradiction|].
    destruct Hx as [<-|Hx].
    - exists s. split; [now left|]. destruct Hk as [->|[_ ->]]; repeat split.
    - destruct (IH x Hx) as (y & Hy & R). exists y. split; [now right|exact R]. }
  apply validate_clean.
  - rewrite Hlen. exact Hn.
  - rewrite Eg. cbn. lia.
  - intros i j a b Hij Ha Hb'.
    apply (chain_pairs_not_reported (el_secs el') (e_ehsize h0) pos' i j a b Ch); try assumption; try lia.
    + intros s Hin Ht. destruct (Hkeep s Hin) as (s0 & H0 & T & Z & _). rewrite Z. apply (Hnull s0 H0). congruence.
    + intros s Hin Hi. destruct (Hkeep s Hin) as (s0 & H0 & T & Z & I0).
      destruct (Hzero s0 H0 ltac:(congruence)) as [H|H]; [left; congruence|right; left; congruence].
  - rewrite Eg. intros g sec [].
Qed.
