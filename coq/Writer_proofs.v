(* Writer_proofs.v — C03/C04 for objects without segments: the ranges save()
   writes (ELF header, every section's data, every section header) are pairwise
   disjoint, hence each appears verbatim in the saved file. *)
From ElfioV Require Import Bytes Mem Stream SectionData Strings Elfio Table Loader Layout Writer
     Ostream_proofs Codec_proofs Layout_proofs.
From Coq Require Import ZifyBool ZifyN ZifyNat.
Local Open Scope N_scope.

(* byte ranges [start, start+len) *)
Definition rng_disjoint (a b : N * N) : Prop := fst a + snd a <= fst b \/ fst b + snd b <= fst a \/ snd a = 0 \/ snd b = 0.

Definition hdr_range (eh : N) : N * N := (0, eh).
Definition data_range (s : section) : N * N := (sh_offset s, csize s).
Definition shdr_range (shoff es : N) (s : section) : N * N := (shoff + es * s_index s, shdr_size (s_cls s)).

(* positions in the section list are the section indices *)
Fixpoint indexed_from (i : N) (l : list section) : Prop :=
  match l with [] => True | s :: t => s_index s = i /\ indexed_from (i + 1) t end.

Lemma indexed_from_member l : forall i s, indexed_from i l -> In s l -> i <= s_index s.
Proof.
  induction l as [|x t IH]; intros i s H Hin; [contradiction|]. cbn [indexed_from] in H. destruct H as [H1 H2].
  destruct Hin as [->|Hin]; [lia|]. specialize (IH _ _ H2 Hin). lia.
Qed.

Lemma indexed_from_split l : forall i pre a mid b post, indexed_from i l -> l = pre ++ a :: mid ++ b :: post -> s_index a < s_index b.
Proof.
  induction l as [|x t IH]; intros i pre a mid b post H E; [destruct pre; discriminate|].
  cbn [indexed_from] in H. destruct H as [H1 H2]. destruct pre as [|p pre']; cbn [app] in E; injection E as -> ->.
  - pose proof (indexed_from_member _ _ b H2 ltac:(apply in_or_app; right; now left)). lia.
  - eapply IH; eauto.
Qed.

Section Disjoint.
  Variables (eh shoff es pos' : N) (secs : list section).
  Hypothesis Hchain : chain secs eh pos'.
  Hypothesis Hidx : indexed_from 0 secs.
  Hypothesis Hsh : pos' <= shoff.
  Hypothesis Hes : forall s, In s secs -> shdr_size (s_cls s) <= es.
  Hypothesis Hnull : forall s, In s secs -> s_index s = 0 -> csize s = 0.

  Lemma data_after_header s : In s secs -> rng_disjoint (hdr_range eh) (data_range s).
  Proof.
    intros Hin. unfold rng_disjoint, hdr_range, data_range. cbn [fst snd].
    destruct (N.eq_dec (s_index s) 0) as [E|E]; [right; right; right; now apply Hnull|].
    destruct (chain_member _ _ _ s Hchain Hin E) as (A & _). left. lia.
  Qed.

  Lemma table_after_data s t : In s secs -> In t secs -> rng_disjoint (data_range s) (shdr_range shoff es t).
  Proof.
    intros Hs Ht. unfold rng_disjoint, data_range, shdr_range. cbn [fst snd].
    destruct (N.eq_dec (s_index s) 0) as [E|E]; [right; right; left; now apply Hnull|].
    destruct (chain_member _ _ _ s Hchain Hs E) as (_ & B & _). left. lia.
  Qed.

  Lemma table_after_header t : rng_disjoint (hdr_range eh) (shdr_range shoff es t).
  Proof.
    unfold rng_disjoint, hdr_range, shdr_range. cbn [fst snd]. pose proof (chain_bounds _ _ _ Hchain). left. lia.
  Qed.

  Lemma table_entries_disjoint pre a mid b post : secs = pre ++ a :: mid ++ b :: post ->
    rng_disjoint (shdr_range shoff es a) (shdr_range shoff es b).
  Proof.
    intros E. pose proof (indexed_from_split _ _ _ _ _ _ _ Hidx E) as Hlt.
    assert (Ha : In a secs) by (rewrite E; apply in_or_app; right; now left).
    unfold rng_disjoint, shdr_range. cbn [fst snd]. left. specialize (Hes a Ha). nia.
  Qed.

  Lemma data_disjoint pre a mid b post : secs = pre ++ a :: mid ++ b :: post ->
    rng_disjoint (data_range a) (data_range b).
  Proof.
    intros E. unfold rng_disjoint, data_range. cbn [fst snd].
    assert (Ha : In a secs) by (rewrite E; apply in_or_app; right; now left).
    assert (Hb : In b secs) by (rewrite E; apply in_or_app; right; right; apply in_or_app; right; now left).
    destruct (N.eq_dec (s_index a) 0) as [Ea|Ea]; [right; right; left; now apply Hnull|].
    destruct (N.eq_dec (s_index b) 0) as [Eb|Eb]; [right; right; right; now apply Hnull|].
    left. eapply chain_disjoint; eauto.
  Qed.
End Disjoint.

(* The layout of an object without segments provides exactly these premises. *)
Theorem noseg_ranges_disjoint el h0 bound :
  el_hdr el = Some h0 -> el_segs el = [] ->
  bound <= 2 ^ 64 -> Forall (fun s => bound <= 2 ^ xw (s_cls s)) (el_secs el) ->
  e_ehsize h0 + budget (el_secs el) + 16 < bound -> bound <= 2 ^ xw (e_cls h0) ->
  indexed_from 0 (el_secs el) ->
  exists el' h',
    layout el = Ok (el', true) /\ el_hdr el' = Some h' /\ indexed_from 0 (el_secs el') /\
    exists pos', chain (el_secs el') (e_ehsize h') pos' /\ pos' <= e_shoff h' /\ e_ehsize h' = e_ehsize h0 /\
                 e_shentsize h' = e_shentsize h0.
Proof.
  intros Hh Hs Hb Hc Hbud Hcls Hidx.
  destruct (layout_noseg el h0 bound Hh Hs Hb Hc Hbud) as (el' & secs' & h' & pos' & E & Es & _ & Eh & K & Ch & Hh' & Le & _).
  exists el', h'. split; [exact E|]. split; [exact Eh|]. rewrite Es. split.
  - (* indices are kept by the layout *)
    clear - K Hidx. revert Hidx. generalize 0. induction K as [|s s' t t' Hk HK IH]; intros i Hi; [exact I|].
    cbn [indexed_from] in *. destruct Hi as [Hi1 Hi2]. split; [|now apply IH].
    destruct Hk as [->| ->]; [exact Hi1|cbn; exact Hi1].
  - exists pos'. rewrite Hh'.
    assert (F1 : e_ehsize (hdr_set (hdr_prep h0 (wrap16 (lenN (el_secs el)))) HShoff (pos' + (16 - pos' mod 16))) = e_ehsize h0) by (destruct h0; reflexivity).
    assert (F2 : e_shentsize (hdr_set (hdr_prep h0 (wrap16 (lenN (el_secs el)))) HShoff (pos' + (16 - pos' mod 16))) = e_shentsize h0) by (destruct h0; reflexivity).
    assert (F3 : e_shoff (hdr_set (hdr_prep h0 (wrap16 (lenN (el_secs el)))) HShoff (pos' + (16 - pos' mod 16))) =
                 wrap (xw (e_cls h0)) (pos' + (16 - pos' mod 16))) by (destruct h0; reflexivity).
    rewrite F1, F2, F3. split; [exact Ch|]. split; [|split; reflexivity].
    assert (pos' mod 16 < 16) by (apply N.mod_lt; lia).
    unfold wrap. rewrite N.mod_small by lia. lia.
Qed.
