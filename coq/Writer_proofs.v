(* Writer_proofs.v — C03/C04 for objects without segments: the ranges save()
   writes (ELF header, every section's data, every section header) are pairwise
   disjoint, hence each appears verbatim in the saved file. *)
From ElfioV Require Import Bytes Mem Stream SectionData Strings Elfio Table Loader Layout Writer
     Ostream_proofs Codec_proofs Layout_proofs.
From Coq Require Import ZifyBool ZifyN ZifyNat.
Local Open Scope N_scope.

(* byte ranges [start, start+len) *)
Definition rng_disjoint (a b : N * N) : Prop := fst a + snd a <= fst b \/ fst b + snd b <= fst a \/ snd a = 0 \/ snd b = 0.

Lemma rng_disjoint_sym a b : rng_disjoint a b -> rng_disjoint b a.
Proof. unfold rng_disjoint. tauto. Qed.

Definition hdr_range (eh : N) : N * N := (0, eh).
Definition data_range (s : section) : N * N := (sh_offset s, csize s).
Definition shdr_range (shoff es : N) (s : section) : N * N := (shoff + es * s_index s, shdr_size (s_cls s)).

(* positions in the section list are the section indices *)
Fixpoint indexed_from (i : N) (l : list section) : Prop :=
  match l with [] => True | s :: t => s_index s = i /\ indexed_from (i + 1) t end.

Lemma indexed_from_member l : forall i s, indexed_from i l -> In s l -> i <= s_index s.
Proof.
  induction l as [|x t IH]; intros i s H Hin; [contradiction|]. cbn [indexed_from] in H. destruct H as [H1 H2].
  destruct Hin as [->|Hin]; [lia|]. specialize (IH _ _ H2 Hin). lia.
Qed.

Lemma indexed_from_split l : forall i pre a mid b post, indexed_from i l -> l = pre ++ a :: mid ++ b :: post -> s_index a < s_index b.
Proof.
  induction l as [|x t IH]; intros i pre a mid b post H E; [destruct pre; discriminate|].
  cbn [indexed_from] in H. destruct H as [H1 H2]. destruct pre as [|p pre']; cbn [app] in E; injection E as -> ->.
  - pose proof (indexed_from_member _ _ b H2 ltac:(apply in_or_app; right; now left)). lia.
  - eapply IH; eauto.
Qed.

Section Disjoint.
  Variables (eh shoff es pos' : N) (secs : list section).
  Hypothesis Hchain : chain secs eh pos'.
  Hypothesis Hidx : indexed_from 0 secs.
  Hypothesis Hsh : pos' <= shoff.
  Hypothesis Hes : forall s, In s secs -> shdr_size (s_cls s) <= es.
  Hypothesis Hnull : forall s, In s secs -> s_index s = 0 -> csize s = 0.

  Lemma data_after_header s : In s secs -> rng_disjoint (hdr_range eh) (data_range s).
  Proof.
    intros Hin. unfold rng_disjoint, hdr_range, data_range. cbn [fst snd].
    destruct (N.eq_dec (s_index s) 0) as [E|E]; [right; right; right; now apply Hnull|].
    destruct (chain_member _ _ _ s Hchain Hin E) as (A & _). left. lia.
  Qed.

  Lemma table_after_data s t : In s secs -> In t secs -> rng_disjoint (data_range s) (shdr_range shoff es t).
  Proof.
    intros Hs Ht. unfold rng_disjoint, data_range, shdr_range. cbn [fst snd].
    destruct (N.eq_dec (s_index s) 0) as [E|E]; [right; right; left; now apply Hnull|].
    destruct (chain_member _ _ _ s Hchain Hs E) as (_ & B & _). left. lia.
  Qed.

  Lemma table_after_header t : rng_disjoint (hdr_range eh) (shdr_range shoff es t).
  Proof.
    unfold rng_disjoint, hdr_range, shdr_range. cbn [fst snd]. pose proof (chain_bounds _ _ _ Hchain). left. lia.
  Qed.

  Lemma table_entries_disjoint pre a mid b post : secs = pre ++ a :: mid ++ b :: post ->
    rng_disjoint (shdr_range shoff es a) (shdr_range shoff es b).
  Proof.
    intros E. pose proof (indexed_from_split _ _ _ _ _ _ _ Hidx E) as Hlt.
    assert (Ha : In a secs) by (rewrite E; apply in_or_app; right; now left).
    unfold rng_disjoint, shdr_range. cbn [fst snd]. left. specialize (Hes a Ha). nia.
  Qed.

  Lemma data_disjoint pre a mid b post : secs = pre ++ a :: mid ++ b :: post ->
    rng_disjoint (data_range a) (data_range b).
  Proof.
    intros E. unfold rng_disjoint, data_range. cbn [fst snd].
    assert (Ha : In a secs) by (rewrite E; apply in_or_app; right; now left).
    assert (Hb : In b secs) by (rewrite E; apply in_or_app; right; right; apply in_or_app; right; now left).
    destruct (N.eq_dec (s_index a) 0) as [Ea|Ea]; [right; right; left; now apply Hnull|].
    destruct (N.eq_dec (s_index b) 0) as [Eb|Eb]; [right; right; right; now apply Hnull|].
    left. eapply chain_disjoint; eauto.
  Qed.
End Disjoint.

(* The layout of an object without segments provides exactly these premises. *)
Theorem noseg_ranges_disjoint el h0 bound :
  el_hdr el = Some h0 -> el_segs el = [] ->
  bound <= 2 ^ 64 -> Forall (fun s => bound <= 2 ^ xw (s_cls s)) (el_secs el) ->
  e_ehsize h0 + budget (el_secs el) + 16 < bound -> bound <= 2 ^ xw (e_cls h0) ->
  indexed_from 0 (el_secs el) ->
  exists el' h',
    layout el = Ok (el', true) /\ el_hdr el' = Some h' /\ indexed_from 0 (el_secs el') /\
    exists pos', chain (el_secs el') (e_ehsize h') pos' /\ pos' <= e_shoff h' /\ e_ehsize h' = e_ehsize h0 /\
                 e_shentsize h' = e_shentsize h0.
Proof.
  intros Hh Hs Hb Hc Hbud Hcls Hidx.
  destruct (layout_noseg el h0 bound Hh Hs Hb Hc Hbud) as (el' & secs' & h' & pos' & E & Es & _ & Eh & K & Ch & Hh' & Le & _).
  exists el', h'. split; [exact E|]. split; [exact Eh|]. rewrite Es. split.
  - (* indices are kept by the layout *)
    clear - K Hidx. revert Hidx. generalize 0. induction K as [|s s' t t' Hk HK IH]; intros i Hi; [exact I|].
    cbn [indexed_from] in *. destruct Hi as [Hi1 Hi2]. split; [|now apply IH].
    destruct Hk as [->|[_ ->]]; [exact Hi1|cbn; exact Hi1].
  - exists pos'. rewrite Hh'.
    assert (F1 : e_ehsize (hdr_set (hdr_prep h0 (wrap16 (lenN (el_secs el)))) HShoff (pos' + (16 - pos' mod 16))) = e_ehsize h0) by (destruct h0; reflexivity).
    assert (F2 : e_shentsize (hdr_set (hdr_prep h0 (wrap16 (lenN (el_secs el)))) HShoff (pos' + (16 - pos' mod 16))) = e_shentsize h0) by (destruct h0; reflexivity).
    assert (F3 : e_shoff (hdr_set (hdr_prep h0 (wrap16 (lenN (el_secs el)))) HShoff (pos' + (16 - pos' mod 16))) =
                 wrap (xw (e_cls h0)) (pos' + (16 - pos' mod 16))) by (destruct h0; reflexivity).
    rewrite F1, F2, F3. split; [exact Ch|]. split; [|split; reflexivity].
    assert (pos' mod 16 < 16) by (apply N.mod_lt; lia).
    unfold wrap. rewrite N.mod_small by lia. lia.
Qed.

(* ---------- from disjoint ranges to visible writes ---------- *)
Definition wrange (w : N * bytes) : N * N := (fst w, lenN (snd w)).

Lemma disjoint_not_in_range (w w' : N * bytes) i :
  rng_disjoint (wrange w) (wrange w') -> in_range w i = true -> in_range w' i = false.
Proof.
  unfold rng_disjoint, wrange, in_range. cbn [fst snd]. intros H Hi.
  apply andb_true_iff in Hi. destruct Hi as [H1 H2]. apply N.leb_le in H1. apply N.ltb_lt in H2.
  destruct (N.leb_spec (fst w') i); destruct (N.ltb_spec i (fst w' + lenN (snd w'))); cbn [andb]; try reflexivity. lia.
Qed.

(* every pair of writes of the plan, in plan order, is disjoint *)
Fixpoint all_disjoint (p : list (N * bytes)) : Prop :=
  match p with
  | [] => True
  | w :: t => Forall (fun w' => rng_disjoint (wrange w) (wrange w')) t /\ all_disjoint t
  end.

Lemma all_disjoint_split p : forall before w after, all_disjoint p -> p = before ++ w :: after ->
  Forall (fun w' => rng_disjoint (wrange w) (wrange w')) after.
Proof.
  induction p as [|x t IH]; intros before w after H E; [destruct before; discriminate|].
  cbn [all_disjoint] in H. destruct H as [H1 H2]. destruct before as [|b bs]; cbn [app] in E; injection E as -> ->.
  - exact H1.
  - eapply IH; eauto.
Qed.

(* a plan of pairwise disjoint writes on a fresh stream: every write is in the file, verbatim *)
Theorem disjoint_plan_all_visible (p : list (N * bytes)) :
  all_disjoint p -> plan_small 0 p ->
  forall w, In w p -> sliceN (os_bytes (exec_plan (new_ostream None) p)) (fst w) (lenN (snd w)) = snd w.
Proof.
  intros Hd Hs w Hin. destruct (in_split _ _ Hin) as (before & after & E). rewrite E.
  destruct new_ostream_ok as [Ok0 G0].
  apply plan_slice_visible; try assumption.
  - rewrite <- E. exact Hs.
  - intros w' i Hw' Hi. pose proof (all_disjoint_split p before w after Hd E) as Hall.
    rewrite Forall_forall in Hall. eapply disjoint_not_in_range; eauto.
Qed.

(* the ELF header write of save() on a fresh stream is the first planned write *)
Lemma save_header_is_planned h :
  fst (save_header h [] (new_ostream None)) = exec_plan (new_ostream None) [(0, ehdr_bytes h)].
Proof. reflexivity. Qed.

(* what save() writes for an object without segments, as one plan *)
Definition sec_writes (enc : endian) (shoff es : N) (s : section) : list (N * bytes) :=
  (shoff + es * s_index s, shdr_bytes enc s) ::
  (if negb (csize s =? 0) then match s_data s with Some b => [(sh_offset s, firstnN b (sh_size s))] | None => [] end else []).
Definition noseg_plan (h : ehdr) (secs : list section) : list (N * bytes) :=
  (0, ehdr_bytes h) :: flat_map (sec_writes (e_enc h) (e_shoff h) (e_shentsize h)) secs.

Section Plan.
  Variables (h : ehdr) (secs : list section) (pos' : N).
  Hypothesis Hchain : chain secs (e_ehsize h) pos'.
  Hypothesis Hidx : indexed_from 0 secs.
  Hypothesis Hsh : pos' <= e_shoff h.
  Hypothesis Hes : forall s, In s secs -> shdr_size (s_cls s) <= e_shentsize h.
  Hypothesis Hnull : forall s, In s secs -> s_index s = 0 -> csize s = 0.
  Hypothesis Hident : lenN (e_ident h) = 16.
  Hypothesis Heh : e_ehsize h = ehdr_size (e_cls h).
  Hypothesis Hdata : forall s b, In s secs -> s_data s = Some b -> sh_size s <= lenN b.

  Lemma wrange_hdr : wrange (0, ehdr_bytes h) = hdr_range (e_ehsize h).
  Proof. unfold wrange, hdr_range. cbn [fst snd]. now rewrite lenN_ehdr_bytes, Heh. Qed.

  Lemma sec_writes_ranges s w : In s secs -> In w (sec_writes (e_enc h) (e_shoff h) (e_shentsize h) s) ->
    wrange w = shdr_range (e_shoff h) (e_shentsize h) s \/ (wrange w = data_range s /\ csize s <> 0).
  Proof.
    intros Hs Hw. unfold sec_writes in Hw. destruct Hw as [<-|Hw].
    - left. unfold wrange, shdr_range. cbn [fst snd]. now rewrite lenN_shdr_bytes.
    - destruct (N.eqb_spec (csize s) 0) as [E|E]; cbn [negb] in Hw; [contradiction|].
      destruct (s_data s) as [b|] eqn:Ed; [|contradiction]. destruct Hw as [<-|[]]. right. split; [|exact E].
      unfold wrange, data_range. cbn [fst snd]. rewrite lenN_firstnN.
      assert (csize s = sh_size s) by (unfold csize in *; destruct (carries s); [reflexivity|contradiction]).
      pose proof (Hdata s b Hs Ed). f_equal. lia.
  Qed.

  (* any two writes belonging to two different sections of the list (in order) are disjoint *)
  Lemma cross_disjoint pre a mid b post wa wb : secs = pre ++ a :: mid ++ b :: post ->
    In wa (sec_writes (e_enc h) (e_shoff h) (e_shentsize h) a) -> In wb (sec_writes (e_enc h) (e_shoff h) (e_shentsize h) b) ->
    rng_disjoint (wrange wa) (wrange wb).
  Proof.
    intros E Ha Hb.
    assert (Ia : In a secs) by (rewrite E; apply in_or_app; right; now left).
    assert (Ib : In b secs) by (rewrite E; apply in_or_app; right; right; apply in_or_app; right; now left).
    destruct (sec_writes_ranges a wa Ia Ha) as [Ra|[Ra _]]; destruct (sec_writes_ranges b wb Ib Hb) as [Rb|[Rb _]]; rewrite Ra, Rb.
    - eapply table_entries_disjoint; eauto.
    - apply rng_disjoint_sym. eapply table_after_data; eauto.
    - eapply table_after_data; eauto.
    - eapply data_disjoint; eauto.
  Qed.

  Lemma all_disjoint_app x y :
    all_disjoint x -> all_disjoint y ->
    (forall wa wb, In wa x -> In wb y -> rng_disjoint (wrange wa) (wrange wb)) -> all_disjoint (x ++ y).
  Proof.
    induction x as [|w t IH]; intros Hx Hy Hc; cbn [app all_disjoint]; [exact Hy|].
    cbn [all_disjoint] in Hx. destruct Hx as [H1 H2]. split.
    - apply Forall_app. split; [exact H1|]. apply Forall_forall. intros wb Hb. apply Hc; [now left|exact Hb].
    - apply IH; auto. intros wa wb Ha Hb. apply Hc; [now right|exact Hb].
  Qed.

  Lemma sec_writes_self s : In s secs -> all_disjoint (sec_writes (e_enc h) (e_shoff h) (e_shentsize h) s).
  Proof.
    intros Hs. unfold sec_writes. destruct (N.eqb_spec (csize s) 0) as [E|E]; cbn [negb]; [cbn; auto|].
    destruct (s_data s) as [b|] eqn:Ed; [|cbn; auto]. cbn [all_disjoint]. split; [|cbn; auto].
    constructor; [|constructor].
    assert (R1 : wrange (e_shoff h + e_shentsize h * s_index s, shdr_bytes (e_enc h) s) = shdr_range (e_shoff h) (e_shentsize h) s).
    { unfold wrange, shdr_range. cbn [fst snd]. now rewrite lenN_shdr_bytes. }
    assert (R2 : wrange (sh_offset s, firstnN b (sh_size s)) = data_range s).
    { unfold wrange, data_range. cbn [fst snd]. rewrite lenN_firstnN.
      assert (csize s = sh_size s) by (unfold csize in *; destruct (carries s); [reflexivity|contradiction]).
      pose proof (Hdata s b Hs Ed). f_equal. lia. }
    rewrite R1, R2. apply rng_disjoint_sym. eapply table_after_data; eauto.
  Qed.

  Lemma flat_all_disjoint : forall l pre, secs = pre ++ l ->
    all_disjoint (flat_map (sec_writes (e_enc h) (e_shoff h) (e_shentsize h)) l).
  Proof.
    induction l as [|a t IH]; intros pre E; cbn [flat_map]; [exact I|].
    assert (Ia : In a secs) by (rewrite E; apply in_or_app; right; now left).
    apply all_disjoint_app.
    - now apply sec_writes_self.
    - apply (IH (pre ++ [a])). rewrite <- app_assoc. exact E.
    - intros wa wb Ha Hb. apply in_flat_map in Hb. destruct Hb as (b & Hbt & Hwb).
      destruct (in_split _ _ Hbt) as (mid & post & Et).
      eapply (cross_disjoint pre a mid b post); eauto. rewrite E, Et. reflexivity.
  Qed.

  Theorem noseg_plan_disjoint : all_disjoint (noseg_plan h secs).
  Proof.
    unfold noseg_plan. cbn [all_disjoint]. split; [|apply (flat_all_disjoint secs []); reflexivity].
    apply Forall_forall. intros w Hw. apply in_flat_map in Hw. destruct Hw as (s & Hs & Hw).
    rewrite wrange_hdr. destruct (sec_writes_ranges s w Hs Hw) as [R|[R _]]; rewrite R.
    - eapply table_after_header; eauto.
    - eapply data_after_header; eauto.
  Qed.

  (* every write of the plan — ELF header, each section header, each section's
     data — is found verbatim in the saved file *)
  Theorem noseg_file_contents :
    plan_small 0 (noseg_plan h secs) ->
    let file := os_bytes (exec_plan (new_ostream None) (noseg_plan h secs)) in
    sliceN file 0 (ehdr_size (e_cls h)) = ehdr_bytes h /\
    (forall s, In s secs ->
       sliceN file (e_shoff h + e_shentsize h * s_index s) (shdr_size (s_cls s)) = shdr_bytes (e_enc h) s) /\
    (forall s b, In s secs -> csize s <> 0 -> s_data s = Some b ->
       sliceN file (sh_offset s) (sh_size s) = firstnN b (sh_size s)).
  Proof.
    intros Hs. cbv zeta. pose proof noseg_plan_disjoint as Hd.
    split; [|split].
    - pose proof (disjoint_plan_all_visible _ Hd Hs (0, ehdr_bytes h) ltac:(now left)) as V. cbn [fst snd] in V.
      now rewrite lenN_ehdr_bytes in V.
    - intros s Hin.
      pose proof (disjoint_plan_all_visible _ Hd Hs (e_shoff h + e_shentsize h * s_index s, shdr_bytes (e_enc h) s)) as V.
      cbn [fst snd] in V. rewrite lenN_shdr_bytes in V. apply V. right. apply in_flat_map. exists s. split; [exact Hin|now left].
    - intros s b Hin Hc Ed.
      pose proof (disjoint_plan_all_visible _ Hd Hs (sh_offset s, firstnN b (sh_size s))) as V. cbn [fst snd] in V.
      rewrite lenN_firstnN in V. replace (N.min (sh_size s) (lenN b)) with (sh_size s) in V by (pose proof (Hdata s b Hin Ed); lia).
      apply V. right. apply in_flat_map. exists s. split; [exact Hin|]. unfold sec_writes. right.
      destruct (N.eqb_spec (csize s) 0); [contradiction|]. cbn [negb]. rewrite Ed. now left.
  Qed.
End Plan.

(* ---------- what sections_plan emits ---------- *)
Section PlanOf.
  Variable junk : N -> N.

  Definition ready (s : section) : Prop :=
    sh_offset s < 2 ^ xw (s_cls s) /\
    (csize s <> 0 -> forall b, s_data s = Some b -> s_loaded s = true /\ sh_size s <= lenN b).

  Lemma entry_pos_plain shoff es idx : shoff < 2 ^ 63 -> entry_pos shoff es idx = shoff + es * idx.
  Proof.
    intros H. unfold entry_pos, to_signed64. rewrite N.mod_small by lia.
    destruct (N.ltb_spec shoff (2 ^ 63)); lia.
  Qed.

  Lemma with_offset_same s : sh_offset s < 2 ^ xw (s_cls s) -> with_offset s (sh_offset s) = s.
  Proof. intros H. destruct s; cbn in *. unfold with_offset; cbn. f_equal. unfold wrap. now apply N.mod_small. Qed.

  Lemma csize_nonzero_b s :
    negb (csize s =? 0) = negb (sh_type s =? SHT_NOBITS) && negb (sh_type s =? SHT_NULL) && negb (sh_size s =? 0).
  Proof.
    unfold csize, carries. destruct (negb (sh_type s =? SHT_NOBITS) && negb (sh_type s =? SHT_NULL)); cbn [andb]; reflexivity.
  Qed.

  Lemma section_plan_ready enc st t s hpos : ready s ->
    section_plan junk false enc st t s hpos =
      Ok (st, s, (hpos, shdr_bytes enc s) ::
                 (if negb (csize s =? 0) then match s_data s with Some b => [(sh_offset s, firstnN b (sh_size s))] | None => [] end else [])).
  Proof.
    intros [Ho Hr]. unfold section_plan.
    assert (E1 : (if s_index s =? 0 then s else with_offset s (sh_offset s)) = s).
    { destruct (s_index s =? 0); [reflexivity|now apply with_offset_same]. }
    rewrite E1, csize_nonzero_b.
    destruct (negb (sh_type s =? SHT_NOBITS) && negb (sh_type s =? SHT_NULL) && negb (sh_size s =? 0)) eqn:Ec; cbn [andb]; [|reflexivity].
    destruct (s_data s) as [b|] eqn:Ed; [|reflexivity]. unfold is_compressed. cbn [andb].
    assert (Hc : csize s <> 0).
    { intro Hz. pose proof (csize_nonzero_b s) as Hb. rewrite Ec, Hz in Hb. discriminate. }
    destruct (Hr Hc b eq_refl) as [Hl Hb].
    unfold sec_get_data. rewrite Hl. cbn [negb andb bind]. rewrite Ed.
    rewrite rd_some by lia. cbn [bind]. unfold sliceN. rewrite skipnN_0. reflexivity.
  Qed.

  Theorem sections_plan_noseg enc h st : forall todo done acc,
    e_shoff h < 2 ^ 63 -> Forall ready todo ->
    sections_plan junk false enc h [] st done todo acc =
      Ok (st, rev_append done [] ++ todo, acc ++ flat_map (sec_writes enc (e_shoff h) (e_shentsize h)) todo).
  Proof.
    induction todo as [|s t IH]; intros done acc H63 Hr; cbn [sections_plan flat_map].
    - now rewrite !app_nil_r.
    - inversion Hr as [|? ? Hs Ht]; subst.
      rewrite (section_plan_ready enc st [] s _ Hs). cbn [bind].
      rewrite IH by assumption. f_equal. f_equal; [f_equal|].
      + rewrite !rev_append_rev. cbn [rev]. rewrite !app_nil_r, <- app_assoc. reflexivity.
      + rewrite <- app_assoc. f_equal. unfold sec_writes. rewrite entry_pos_plain by exact H63. reflexivity.
  Qed.
End PlanOf.
