(* Properties_C17.v — C17: a truncated file never yields wrong data. *)
From ElfioV Require Import Bytes Mem Stream SectionData Strings Elfio Table Loader Load_proofs Data_proofs Codec_proofs Reader_proofs Prefix_proofs Reload_oneseg Segtable_proofs.
Local Open Scope N_scope.

(* loading any prefix (any bytes at all) returns without a fault *)
Theorem C17_prefix_load_is_safe :
  forall junk el kind (full : bytes) k lazy,
    exists el' ok allocs, load junk el kind (firstnN full k) lazy = Ok (el', ok, allocs) /\
                          loaded_ok (firstnN full k) kind el'.
Proof.
  intros. destruct (load_total junk el kind (firstnN full k) lazy) as (el' & ok & al & H1 & H2 & _). eauto.
Qed.
Print Assumptions C17_prefix_load_is_safe.

(* no section ever exposes bytes that are not in the file: data that appears
   is the file's bytes at the section's range, which lies inside the stream *)
Theorem C17_data_comes_from_the_file :
  forall junk st0 t s,
    fits s ->
    exists st1 s1 ok al,
      sec_load_data junk (Some st0) t s = Ok (Some st1, s1, ok, al) /\
      (s_data s = None -> forall d, s_data s1 = Some d -> 0 < sh_size s ->
         d = sliceN (is_content st0) (sec_file_off t s) (sh_size s) ++ [0] /\
         sec_file_off t s + sh_size s <= s_stream_size s).
Proof.
  intros junk st0 t s Hf.
  destruct (sec_load_data_total junk st0 t s Hf) as (st1 & s1 & ok & al & E & _ & _ & _ & _ & _ & _ & _ & H).
  eauto 10.
Qed.
Print Assumptions C17_data_comes_from_the_file.

Theorem C17_segment_data_comes_from_the_file :
  forall (junk : N -> N) st0 t g,
    exists st1 g1 ok al,
      seg_load_data (Some st0) t g = Ok (Some st1, g1, ok, al) /\
      (forall d, al <> [] -> g_data g1 = Some d ->
         d = sliceN (is_content st0) (seg_file_off t g) (p_filesz g) ++ [0] /\
         seg_file_off t g + p_filesz g <= g_stream_size g).
Proof.
  intros junk st0 t g.
  destruct (seg_load_data_total junk st0 t g) as (st1 & g1 & ok & al & E & _ & _ & _ & _ & _ & _ & _ & _ & H).
  eauto 10.
Qed.
Print Assumptions C17_segment_data_comes_from_the_file.

(* whatever data the prefix yields for a section, the complete file yields the same *)
Theorem C17_prefix_data_agrees :
  forall junk kind (full : bytes) (k : N) t s,
    k <= lenN full -> lenN full < 2 ^ 63 ->
    let pre := firstnN full k in
    forall sp sf, hdr_same s sp -> hdr_same s sf -> s_data sp = None -> s_data sf = None ->
      s_stream_size sp = lenN pre -> s_stream_size sf = lenN full ->
      sh_type s <> SHT_NULL -> sh_type s <> SHT_NOBITS -> 0 < sh_size s ->
      forall st1 s1 ok al,
        sec_load_data junk (Some (open_istream kind pre)) t sp = Ok (st1, s1, ok, al) ->
        forall d, s_data s1 = Some d ->
        exists st2 s2, sec_load_data junk (Some (open_istream kind full)) t sf = Ok (Some st2, s2, true, [sh_size sf + 1]) /\
                       s_data s2 = Some d.
Proof. exact prefix_same_data. Qed.
Print Assumptions C17_prefix_data_agrees.

(* the ELF header: whatever prefix of a file with a decodable header (magic, class and byte-order bytes accepted, at
   least the header's length) is loaded, either load() reports failure, or the object reports exactly the header the
   complete file yields - a cut inside the header never yields a successful load with partly read fields *)
Theorem C17_prefix_header_absent_or_identical :
  forall junk el k (f : bytes) n lazy h,
    xlat_empty (el_xlat el) = true -> parse_header f = Some h ->
    (exists el' al, load junk el k (firstnN f n) lazy = Ok (el', false, al)) \/
    (exists el' ok al, load junk el k (firstnN f n) lazy = Ok (el', ok, al) /\ el_hdr el' = Some h).
Proof. exact prefix_header_absent_or_identical. Qed.
Print Assumptions C17_prefix_header_absent_or_identical.

(* the section header table: an entry read from any prefix of a file is reported either with exactly the fields the
   complete file yields (the entry lies inside the prefix) or as an empty section - every field zero, no data (the
   cut falls before its end; after the repair of the defect this check found: partly read fields used to be reported) *)
Theorem C17_prefix_section_header_absent_or_identical :
  forall junk k (f : bytes) n enc c idx (pos : N) lazy s',
    pos < 2 ^ 63 -> pos + shdr_size c <= lenN f -> s_cls s' = c -> shdr_wf s' ->
    sliceN f pos (shdr_size c) = shdr_bytes enc s' ->
    exists st' r al,
      section_load junk (open_istream k (firstnN f n)) [] enc (with_index (new_section c) idx) (Z.of_N pos) lazy = Ok (st', r, al) /\
      ((sh_name r = sh_name s' /\ sh_type r = sh_type s' /\ sh_flags r = sh_flags s' /\ sh_addr r = sh_addr s' /\
        sh_offset r = sh_offset s' /\ sh_size r = sh_size s' /\ sh_link r = sh_link s' /\ sh_info r = sh_info s' /\
        sh_addralign r = sh_addralign s' /\ sh_entsize r = sh_entsize s') \/ hdr_all_zero r).
Proof. exact prefix_section_header_absent_or_identical. Qed.
Print Assumptions C17_prefix_section_header_absent_or_identical.

(* the program header table: an entry that is not completely inside the stream leaves the stream failed (whatever
   was read of it is not reported as a segment: see the next theorem) ... *)
Theorem C17_cut_program_header_entry_fails_the_stream :
  forall st enc c (pos : N) lazy st1 g1 ok al,
    is_fail st = false -> st_inv st -> pos < 2 ^ 63 -> lenN (is_content st) < pos + phdr_size c ->
    segment_load st [] enc (new_segment c) (Z.of_N pos) lazy = Ok (st1, g1, ok, al) -> is_fail st1 = true.
Proof. exact (segment_load_cut_entry_fails (fun _ => 0)). Qed.
Print Assumptions C17_cut_program_header_entry_fails_the_stream.

(* ... and the loop over the table stops at that entry with "not good" - load() returns false - and the list of
   segments is what it was before the entry: no segment with partly read fields is ever reported *)
Theorem C17_cut_program_header_entry_fails_the_load :
  forall f st secs enc c offset entsize i num lazy racc allocs,
    is_fail st = false -> st_inv st -> i < num ->
    table_pos offset i entsize = Z.of_N (Z.to_N (table_pos offset i entsize)) ->
    Z.to_N (table_pos offset i entsize) < 2 ^ 63 ->
    lenN (is_content st) < Z.to_N (table_pos offset i entsize) + phdr_size c ->
    forall r, load_segments_loop (S f) st [] secs enc c offset entsize i num lazy racc allocs = Ok r ->
    snd (fst r) = false /\ snd (fst (fst r)) = racc.
Proof. exact (load_segments_cut_entry_fails (fun _ => 0)). Qed.
Print Assumptions C17_cut_program_header_entry_fails_the_load.

(* THE WHOLE SECTION HEADER TABLE of a prefix.  [secs] are encoded entry after entry (entry size es >= the header
   size) at shoff of the complete file f; the stream holds the first n bytes of f - any n - and is in any state, good
   or failed.  The loop of load_sections reports, index by index, either exactly the encoded header fields or an
   empty section (every field zero, no data): nothing in between, for any cut *)
Theorem C17_prefix_section_table_absent_or_identical :
  forall junk enc c shoff es (f : bytes) n (secs : list section) fuel st i racc allocs,
    st_inv st -> is_content st = firstnN f n -> shoff < 2 ^ 62 -> shdr_size c <= es ->
    shoff + (i + lenN secs) * es < 2 ^ 62 ->
    Forall (fun s => s_cls s = c /\ shdr_wf s) secs ->
    (forall k s, nth_optN secs k = Some s -> shoff + (i + k) * es + shdr_size c <= lenN f /\
                                             sliceN f (shoff + (i + k) * es) (shdr_size c) = shdr_bytes enc s) ->
    (length secs <= fuel)%nat ->
    exists st' loaded allocs',
      load_sections_loop junk fuel st [] c enc shoff es i (i + lenN secs) true racc allocs = Ok (st', rev loaded ++ racc, allocs') /\
      st_inv st' /\ is_content st' = firstnN f n /\ Forall2 same_or_empty secs loaded.
Proof. exact load_sections_loop_of_prefix. Qed.
Print Assumptions C17_prefix_section_table_absent_or_identical.

(* THE WHOLE PROGRAM HEADER TABLE of a prefix.  [segs] are encoded entry after entry at phoff of the complete file f;
   the stream holds the first n bytes.  The loop of load_segments reports a list of segments that is an initial part
   of the table, each with exactly the encoded fields and the members the rule selects (never a segment with partly
   read fields); when it reports "good" the list is the whole table; and it reports "good" whenever every entry lies
   inside the prefix *)
Theorem C17_prefix_program_table_initial_part :
  forall enc c phoff es (f : bytes) n secs (segs : list segment) fuel st i racc allocs,
    is_fail st = false -> st_inv st -> is_content st = firstnN f n -> phoff < 2 ^ 62 -> phdr_size c <= es ->
    phoff + (i + lenN segs) * es < 2 ^ 62 ->
    Forall (fun g => g_cls g = c /\ phdr_wf g) segs ->
    (forall k g, nth_optN segs k = Some g -> phoff + (i + k) * es + phdr_size c <= lenN f /\
                                             sliceN f (phoff + (i + k) * es) (phdr_size c) = phdr_bytes enc g) ->
    (length segs <= fuel)%nat ->
    exists st' loaded ok allocs',
      load_segments_loop fuel st [] secs enc c phoff es i (i + lenN segs) true racc allocs = Ok (st', rev loaded ++ racc, ok, allocs') /\
      Forall2 (seg_reported secs) (firstn (length loaded) segs) loaded /\
      (ok = true -> length loaded = length segs) /\
      ((forall k, k < lenN segs -> phoff + (i + k) * es + phdr_size c <= n) -> ok = true).
Proof. exact (load_segments_loop_of_prefix (fun _ => 0)). Qed.
Print Assumptions C17_prefix_program_table_initial_part.

(* ... and an input without a decodable header is refused, whatever else it holds *)
Theorem C17_no_header_no_load :
  forall junk el k content lazy,
    xlat_empty (el_xlat el) = true -> parse_header content = None ->
    exists el' al, load junk el k content lazy = Ok (el', false, al).
Proof. exact load_fails_without_header. Qed.
Print Assumptions C17_no_header_no_load.

(* non-vacuity: section bytes 2..5 of a 10-byte file; prefix of 6 bytes yields them, prefix of 5 yields nothing *)
Definition ex_full : bytes := [0; 1; 2; 3; 4; 5; 6; 7; 8; 9].
Definition ex_sec (ss : N) : section :=
  with_stream_size (with_size (with_offset (with_type (new_section C64) SHT_PROGBITS) 2) 4) ss.
Example C17_example :
  (exists st1 s1 al, sec_load_data (fun _ => 0) (Some (open_istream StringBuf (firstnN ex_full 6))) [] (ex_sec 6) = Ok (st1, s1, true, al) /\
                     s_data s1 = Some [2; 3; 4; 5; 0]) /\
  (exists st1 s1 al, sec_load_data (fun _ => 0) (Some (open_istream StringBuf (firstnN ex_full 5))) [] (ex_sec 5) = Ok (st1, s1, false, al) /\
                     s_data s1 = None).
Proof. split; vm_compute; eauto. Qed.
