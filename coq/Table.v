(* Table.v — fixed-layout records and tables of them.
   A record layout is a list of field widths (bytes); [enc_fields]/[dec_fields]
   are the gABI encoding in a given byte order.  A table is the concatenation of
   equally sized encoded entries; entry j sits at offset j * entry size. *)
From ElfioV Require Import Bytes Mem SectionData SectionData_proofs.
From Coq Require Import ZifyBool ZifyN ZifyNat.
Local Open Scope N_scope.

Fixpoint enc_fields (e : endian) (ws : list nat) (vs : list N) : bytes :=
  match ws, vs with
  | w :: ws', v :: vs' => enc_uint e w v ++ enc_fields e ws' vs'
  | _, _ => []
  end.

Fixpoint dec_fields (e : endian) (ws : list nat) (bs : bytes) : list N :=
  match ws with
  | [] => []
  | w :: ws' => dec_uint e (firstnN bs (N.of_nat w)) :: dec_fields e ws' (skipnN bs (N.of_nat w))
  end.

Fixpoint trunc_fields (ws : list nat) (vs : list N) : list N :=
  match ws, vs with
  | w :: ws', v :: vs' => (v mod 256 ^ N.of_nat w) :: trunc_fields ws' vs'
  | _, _ => []
  end.

Definition layout_size (ws : list nat) : N := N.of_nat (fold_right Nat.add 0%nat ws).

Lemma lenN_enc_fields e ws vs : length vs = length ws -> lenN (enc_fields e ws vs) = layout_size ws.
Proof.
  revert vs; induction ws as [|w ws IH]; intros [|v vs] H; cbn [enc_fields]; try discriminate; [reflexivity|].
  cbn in H. rewrite lenN_app, lenN_enc_uint, IH by lia. unfold layout_size. cbn [fold_right]. lia.
Qed.

Lemma dec_enc_fields e ws vs : length vs = length ws ->
  dec_fields e ws (enc_fields e ws vs) = trunc_fields ws vs.
Proof.
  revert vs; induction ws as [|w ws IH]; intros [|v vs] H; cbn [enc_fields dec_fields trunc_fields];
    try discriminate; [reflexivity|].
  cbn in H. rewrite firstnN_app_exact by apply lenN_enc_uint.
  rewrite skipnN_app_exact by apply lenN_enc_uint.
  rewrite dec_enc_uint, IH by lia. reflexivity.
Qed.

Lemma enc_fields_is_bytes e ws vs : is_bytes (enc_fields e ws vs).
Proof.
  revert vs; induction ws as [|w ws IH]; intros [|v vs]; cbn [enc_fields]; try constructor.
  apply Forall_app; split; [apply enc_uint_is_bytes|apply IH].
Qed.

(* appending extra bytes after a record does not disturb decoding *)
Lemma dec_fields_app e ws bs rest : layout_size ws <= lenN bs ->
  dec_fields e ws (bs ++ rest) = dec_fields e ws bs.
Proof.
  revert bs; induction ws as [|w ws IH]; intros bs H; cbn [dec_fields]; [reflexivity|].
  unfold layout_size in H. cbn [fold_right] in H.
  rewrite firstnN_app_le by lia. rewrite skipnN_app_le by lia.
  rewrite IH; [reflexivity|]. rewrite lenN_skipnN. unfold layout_size. lia.
Qed.

(* ---- tables ---- *)
Lemma nth_optN_app_new {E} (es : list E) x : nth_optN (es ++ [x]) (lenN es) = Some x.
Proof.
  induction es as [|y t IH]; [reflexivity|].
  cbn [app nth_optN]. rewrite lenN_cons. destruct (N.eqb_spec (1 + lenN t) 0); [lia|].
  replace (1 + lenN t - 1) with (lenN t) by lia. exact IH.
Qed.

Lemma nth_optN_app_old {E} (es : list E) x j y : nth_optN es j = Some y -> nth_optN (es ++ [x]) j = Some y.
Proof.
  revert j; induction es as [|z t IH]; intros j; cbn [app nth_optN]; [discriminate|].
  destruct (N.eqb_spec j 0); [tauto|]. apply IH.
Qed.

Lemma nth_optN_lt {E} (es : list E) j y : nth_optN es j = Some y -> j < lenN es.
Proof.
  revert j; induction es as [|z t IH]; intros j; cbn [nth_optN]; [discriminate|].
  rewrite lenN_cons. destruct (N.eqb_spec j 0); [lia|]. intros H. apply IH in H. lia.
Qed.

Lemma nth_optN_ge {E} (es : list E) j : lenN es <= j -> nth_optN es j = None.
Proof.
  revert j; induction es as [|z t IH]; intros j; cbn [nth_optN]; [reflexivity|].
  rewrite lenN_cons. destruct (N.eqb_spec j 0); [lia|]. intros H. apply IH. lia.
Qed.


Lemma nth_optN_some {E} (es : list E) j : j < lenN es -> exists x, nth_optN es j = Some x.
Proof.
  revert j; induction es as [|z t IH]; intros j; cbn [nth_optN]; [cbn; lia|].
  rewrite lenN_cons. destruct (N.eqb_spec j 0); [eauto|]. intros H. apply IH. lia.
Qed.

Section TableLemmas.
  Context {E : Type}.
  Variable enc : E -> bytes.
  Variable esz : N.
  Hypothesis enc_len : forall x, lenN (enc x) = esz.

  Lemma lenN_concat_enc es : lenN (concat (map enc es)) = lenN es * esz.
  Proof.
    induction es as [|x t IH]; cbn [map concat]; [reflexivity|].
    rewrite lenN_app, enc_len, IH, lenN_cons. lia.
  Qed.

  Lemma slice_concat_enc es j x :
    nth_optN es j = Some x -> sliceN (concat (map enc es)) (j * esz) esz = enc x.
  Proof.
    revert j; induction es as [|y t IH]; intros j; cbn [nth_optN]; [discriminate|].
    cbn [map concat]. destruct (N.eqb_spec j 0) as [->|Hj].
    - intros [= ->]. unfold sliceN. rewrite N.mul_0_l, skipnN_0. apply firstnN_app_exact, enc_len.
    - intros H. unfold sliceN.
      rewrite skipnN_app_ge by (rewrite enc_len; nia).
      rewrite enc_len. replace (j * esz - esz) with ((j - 1) * esz) by nia.
      now apply IH.
  Qed.

  Lemma concat_map_app_one es x : concat (map enc (es ++ [x])) = concat (map enc es) ++ enc x.
  Proof. rewrite map_app, concat_app. cbn [map concat]. now rewrite app_nil_r. Qed.

  (* reading entry j of a section whose logical contents are a table *)
  Lemma table_read s es j x :
    Inv s -> contents s = concat (map enc es) -> nth_optN es j = Some x ->
    rd (s_data s) (j * esz) esz = Ok (enc x).
  Proof.
    intros HI HC Hn.
    pose proof (lenN_contents s HI) as HL. rewrite HC, lenN_concat_enc in HL.
    pose proof (nth_optN_lt _ _ _ Hn) as Hj.
    destruct HI as (_ & _ & HD). unfold contents in HC.
    assert (HB : j * esz + esz <= sh_size s) by nia.
    destruct (s_data s) as [b|].
    - rewrite rd_some by lia.
      rewrite <- (slice_concat_enc es j x Hn), <- HC.
      unfold sliceN. rewrite skipnN_firstnN_comm, firstnN_firstnN.
      replace (N.min esz (sh_size s - j * esz)) with esz by lia. reflexivity.
    - destruct HD as [H0 _]. assert (esz = 0) as Ez by lia.
      assert (enc x = []) as -> by (apply lenN_0; rewrite enc_len; exact Ez).
      rewrite Ez. reflexivity.
  Qed.
  Lemma table_data_some s es j x :
    Inv s -> contents s = concat (map enc es) -> nth_optN es j = Some x -> 0 < esz ->
    exists b, s_data s = Some b.
  Proof.
    intros HI HC Hn Hp.
    pose proof (lenN_contents s HI) as HL. rewrite HC, lenN_concat_enc in HL.
    pose proof (nth_optN_lt _ _ _ Hn) as Hj.
    destruct HI as (_ & _ & HD). destruct (s_data s) as [b|]; [eauto|].
    destruct HD as [H0 _]. nia.
  Qed.
End TableLemmas.

(* ---- building a table by successive append_data calls ---- *)
Section AppendAll.
  Variable junk : N -> N.
  Variable xe : bool.

  Fixpoint append_all (s : section) (chunks : list bytes) : res section :=
    match chunks with
    | [] => Ok s
    | c :: t => s1 <- append_data junk xe s c ;; append_all s1 t
    end.

  Lemma append_all_spec s chunks :
    Inv s -> sh_size s + lenN (concat chunks) < size_bound (s_cls s) ->
    exists s', append_all s chunks = Ok s' /\ Inv s' /\
      contents s' = contents s ++ concat chunks /\
      s_cls s' = s_cls s /\ sh_type s' = sh_type s.
  Proof.
    revert s; induction chunks as [|c t IH]; intros s HI Hb; cbn [append_all concat] in *.
    - exists s. rewrite app_nil_r. split; [reflexivity|]. split; [exact HI|]. split; [reflexivity|]. split; reflexivity.
    - rewrite lenN_app in Hb.
      destruct (append_data_spec junk xe s c HI ltac:(lia)) as (s1 & -> & I1 & C1 & K1 & T1 & S1).
      cbn [bind].
      destruct (IH s1 I1) as (s' & E & I' & C' & K' & T'); [rewrite K1; lia|].
      exists s'. split; [exact E|]. split; [exact I'|].
      split; [rewrite C', C1, app_assoc; reflexivity|]. split; congruence.
  Qed.
End AppendAll.
