(* Table.v — fixed-layout records and tables of them.
   A record layout is a list of field widths (bytes); [enc_fields]/[dec_fields]
   are the gABI encoding in a given byte order.  A table is the concatenation of
   equally sized encoded entries; entry j sits at offset j * entry size. *)
From ElfioV Require Import Bytes Mem SectionData SectionData_proofs.
From Coq Require Import ZifyBool ZifyN ZifyNat.
Local Open Scope N_scope.

Fixpoint enc_fields (e : endian) (ws : list nat) (vs : list N) : bytes :=
  match ws, vs with
  | w :: ws', v :: vs' => enc_uint e w v ++ enc_fields e ws' vs'
  | _, _ => []
  end.

Fixpoint dec_fields (e : endian) (ws : list nat) (bs : bytes) : list N :=
  match ws with
  | [] => []
  | w :: ws' => dec_uint e (firstnN bs (N.of_nat w)) :: dec_fields e ws' (skipnN bs (N.of_nat w))
  end.

Fixpoint trunc_fields (ws : list nat) (vs : list N) : list N :=
  match ws, vs with
  | w :: ws', v :: vs' => (v mod 256 ^ N.of_nat w) :: trunc_fields ws' vs'
  | _, _ => []
  end.

Definition layout_size (ws : list nat) : N := N.of_nat (fold_right Nat.add 0%nat ws).

Lemma lenN_enc_fields e ws vs : length vs = length ws -> lenN (enc_fields e ws vs) = layout_size ws.
Proof.
  revert vs; induction ws as [|w ws IH]; intros [|v vs] H; cbn [enc_fields]; try discriminate; [reflexivity|].
  cbn in H. rewrite lenN_app, lenN_enc_uint, IH by lia. unfold layout_size. cbn [fold_right]. lia.
Qed.

Lemma dec_enc_fields e ws vs : length vs = length ws ->
  dec_fields e ws (enc_fields e ws vs) = trunc_fields ws vs.
Proof.
  revert vs; induction ws as [|w ws IH]; intros [|v vs] H; cbn [enc_fields dec_fields trunc_fields];
    try discriminate; [reflexivity|].
  cbn in H. rewrite firstnN_app_exact by apply lenN_enc_uint.
  rewrite skipnN_app_exact by apply lenN_enc_uint.
  rewrite dec_enc_uint, IH by lia. reflexivity.
Qed.

Lemma enc_fields_is_bytes e ws vs : is_bytes (enc_fields e ws vs).
Proof.
  revert vs; induction ws as [|w ws IH]; intros [|v vs]; cbn [enc_fields]; try constructor.
  apply Forall_app; split; [apply enc_uint_is_bytes|apply IH].
Qed.

(* appending extra bytes after a record does not disturb decoding *)
Lemma dec_fields_app e ws bs rest : layout_size ws <= lenN bs ->
  dec_fields e ws (bs ++ rest) = dec_fields e ws bs.
Proof.
  revert bs; induction ws as [|w ws IH]; intros bs H; cbn [dec_fields]; [reflexivity|].
  unfold layout_size in H. cbn [fold_right] in H.
  rewrite firstnN_app_le by lia. rewrite skipnN_app_le by lia.
  rewrite IH; [reflexivity|]. rewrite lenN_skipnN. unfold layout_size. lia.
Qed.

(* ---- tables ---- *)
Section TableLemmas.
  Context {E : Type}.
  Variable enc : E -> bytes.
  Variable esz : N.
  Hypothesis enc_len : forall x, lenN (enc x) = esz.

  Lemma lenN_concat_enc es : lenN (concat (map enc es)) = lenN es * esz.
  Proof.
    induction es as [|x t IH]; cbn [map concat]; [reflexivity|].
    rewrite lenN_app, enc_len, IH, lenN_cons. lia.
  Qed.

  Lemma slice_concat_enc es j x :
    nth_optN es j = Some x -> sliceN (concat (map enc es)) (j * esz) esz = enc x.
  Proof.
    revert j; induction es as [|y t IH]; intros j; cbn [nth_optN]; [discriminate|].
    cbn [map concat]. destruct (N.eqb_spec j 0) as [->|Hj].
    - intros [= ->]. unfold sliceN. rewrite N.mul_0_l, skipnN_0. apply firstnN_app_exact, enc_len.
    - intros H. unfold sliceN.
      rewrite skipnN_app_ge by (rewrite enc_len; nia).
      rewrite enc_len. replace (j * esz - esz) with ((j - 1) * esz) by nia.
      now apply IH.
  Qed.

  Lemma nth_optN_app_new (es : list E) x : nth_optN (es ++ [x]) (lenN es) = Some x.
  Proof.
    induction es as [|y t IH]; [reflexivity|].
    cbn [app nth_optN]. rewrite lenN_cons. destruct (N.eqb_spec (1 + lenN t) 0); [lia|].
    replace (1 + lenN t - 1) with (lenN t) by lia. exact IH.
  Qed.

  Lemma nth_optN_app_old (es : list E) x j y : nth_optN es j = Some y -> nth_optN (es ++ [x]) j = Some y.
  Proof.
    revert j; induction es as [|z t IH]; intros j; cbn [app nth_optN]; [discriminate|].
    destruct (N.eqb_spec j 0); [tauto|]. apply IH.
  Qed.

  Lemma nth_optN_lt (es : list E) j y : nth_optN es j = Some y -> j < lenN es.
  Proof.
    revert j; induction es as [|z t IH]; intros j; cbn [nth_optN]; [discriminate|].
    rewrite lenN_cons. destruct (N.eqb_spec j 0); [lia|]. intros H. apply IH in H. lia.
  Qed.

  Lemma nth_optN_ge (es : list E) j : lenN es <= j -> nth_optN es j = None.
  Proof.
    revert j; induction es as [|z t IH]; intros j; cbn [nth_optN]; [reflexivity|].
    rewrite lenN_cons. destruct (N.eqb_spec j 0); [lia|]. intros H. apply IH. lia.
  Qed.

  Lemma concat_map_app_one es x : concat (map enc (es ++ [x])) = concat (map enc es) ++ enc x.
  Proof. rewrite map_app, concat_app. cbn [map concat]. now rewrite app_nil_r. Qed.

  (* reading entry j of a section whose logical contents are a table *)
  Lemma table_read s es j x :
    Inv s -> contents s = concat (map enc es) -> nth_optN es j = Some x ->
    rd (s_data s) (j * esz) esz = Ok (enc x).
  Proof.
    intros HI HC Hn.
    pose proof (lenN_contents s HI) as HL. rewrite HC, lenN_concat_enc in HL.
    pose proof (nth_optN_lt _ _ _ Hn) as Hj.
    destruct HI as (_ & _ & HD). unfold contents in HC.
    assert (HB : j * esz + esz <= sh_size s) by nia.
    destruct (s_data s) as [b|].
    - rewrite rd_some by lia.
      rewrite <- (slice_concat_enc es j x Hn), <- HC.
      unfold sliceN. rewrite skipnN_firstnN_comm, firstnN_firstnN.
      replace (N.min esz (sh_size s - j * esz)) with esz by lia. reflexivity.
    - destruct HD as [H0 _]. assert (esz = 0) as Ez by lia.
      assert (enc x = []) as -> by (apply lenN_0; rewrite enc_len; exact Ez).
      rewrite Ez. reflexivity.
  Qed.
End TableLemmas.
