(* Properties_C13.v — C13: notes; out-of-range indices are refused. *)
From ElfioV Require Import Bytes Mem Stream SectionData SectionData_proofs Strings Elfio Table Accessors Notes_proofs.
From Coq Require Import ZifyBool ZifyN ZifyNat.
Local Open Scope N_scope.

(* asking for a note index that does not exist returns false without touching
   anything: no memory access, no change of the object *)
Theorem C13_out_of_range_refused :
  forall junk el a i, lenN (na_starts a) <= wrap32 i -> note_get junk el a i = Ok (el, None).
Proof.
  intros junk el a i H. unfold note_get.
  destruct (N.leb_spec (lenN (na_starts a)) (wrap32 i)); [reflexivity|lia].
Qed.
Print Assumptions C13_out_of_range_refused.

(* ABI encoding: namesz (with terminator), descsz, type, then name and
   descriptor each padded to four bytes *)
Theorem C13_encoding_shape :
  forall e ty name desc, lenN name + 1 < 2 ^ 32 -> lenN desc < 2 ^ 32 ->
    exists rest,
      enc_note e ty name desc =
        enc_uint e 4 (lenN name + 1) ++ enc_uint e 4 (lenN desc) ++ enc_uint e 4 (wrap32 ty) ++ name ++ [0] ++ rest.
Proof.
  intros e ty name desc Hn Hd. unfold enc_note.
  unfold wrap32. rewrite (wrap_small 32 (lenN name + 1)) by exact Hn.
  rewrite (wrap_small 32 (lenN desc)) by exact Hd. fold wrap32.
  eexists. reflexivity.
Qed.
Print Assumptions C13_encoding_shape.

(* a note stored with this encoding anywhere in a section or segment (bytes
   [pre] before it, [post] after it) is returned unchanged when read at its
   start position: type, name, descriptor (absent when empty) and its size *)
Theorem C13_note_returned_unchanged :
  forall e (pre post : bytes) ty name desc size,
    let b := pre ++ enc_note e ty name desc ++ post in
    let pos := lenN pre in
    lenN name + 4 < 2 ^ 32 -> lenN desc + 3 < 2 ^ 32 ->
    pos + lenN (enc_note e ty name desc) <= size -> size < 2 ^ 63 ->
    note_at e (Some b) size pos =
      Ok (Some (mkNoteview (wrap32 ty) name (if lenN desc =? 0 then None else Some desc) (lenN desc))).
Proof. exact note_at_roundtrip. Qed.
Print Assumptions C13_note_returned_unchanged.

(* a new accessor over a table of notes (section or covering segment, whatever
   precedes and follows the table) finds exactly the notes' start positions *)
Theorem C13_walker_finds_every_note :
  forall e (ns : list note3) (pre post : bytes) fuel acc,
    Forall note_small ns ->
    let tblb := concat (map (rec3 e) ns) in
    let size := lenN pre + lenN tblb in
    size < 2 ^ 30 -> lenN ns < lenN fuel ->
    note_walk fuel (Some (pre ++ tblb ++ post)) e size (lenN pre) acc = Ok (acc ++ starts_from e (lenN pre) ns).
Proof. exact note_walk_table. Qed.
Print Assumptions C13_walker_finds_every_note.

(* adding notes one after the other (add_note on the section): the section's
   contents become the concatenation of the records and the adding accessor
   records exactly the records' start positions — the positions at which
   C13_note_returned_unchanged reads them back, and which a new accessor's
   walker finds (C13_walker_finds_every_note) *)
Theorem C13_add_note_bookkeeping :
  forall (junk : N -> N) (xe : bool) e (ns : list note3) s starts,
    Inv s -> sh_size s + lenN (concat (map (rec3 e) ns)) < size_bound (s_cls s) ->
    exists s', note_adds junk xe e s starts ns = Ok (s', starts ++ starts_from e (sh_size s) ns) /\
      Inv s' /\ contents s' = contents s ++ concat (map (rec3 e) ns) /\ s_cls s' = s_cls s.
Proof. exact note_adds_spec. Qed.
Print Assumptions C13_add_note_bookkeeping.

(* the walker over add_note's output finds the notes; reading them back gives
   the original fields (concrete two-note table, both byte orders) *)
Example C13_example :
  let tbl e := enc_note e 1 [71; 78; 85] [1; 2; 3; 4; 5] ++ enc_note e 3 [] [] in
  (forall e, note_walk (0 :: tbl e) (Some (tbl e)) e (lenN (tbl e)) 0 [] = Ok [0; 24]) /\
  lenN (tbl LSB) = 40.
Proof. split; [intros []; vm_compute; reflexivity|vm_compute; reflexivity]. Qed.
