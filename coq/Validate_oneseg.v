(* Validate_oneseg.v — C20: validate() has no complaint about what the writer lays out for an object with one
   segment of automatically addressed members (plus any sections outside it). *)
From ElfioV Require Import Bytes Mem Stream SectionData SectionData_proofs Strings Elfio Table Loader Layout Writer
  Layout_proofs Segment_proofs Validate_proofs Writer_proofs Oneseg_proofs Oneseg_writer Validate_writer.
From Coq Require Import ZifyBool ZifyN ZifyNat.
Local Open Scope N_scope.

Lemma find_prog_section_In secs off sec : find_prog_section secs off = Some sec ->
  In sec secs /\ sh_type sec = SHT_PROGBITS /\ is_offset_in_section off sec = true.
Proof.
  induction secs as [|s t IH]; cbn [find_prog_section]; [discriminate|].
  destruct ((sh_type s =? SHT_PROGBITS) && is_offset_in_section off s) eqn:E.
  - intros [= <-]. apply andb_true_iff in E. destruct E as [E1 E2]. apply N.eqb_eq in E1. split; [now left|split; assumption].
  - intros H. destruct (IH H) as (A & B & C). split; [now right|split; assumption].
Qed.

Theorem validate_accepts_oneseg_layout el h0 g bound ms :
  let idxs := g_sections g in
  let align := if 0 <? p_align g then p_align g else 1 in
  let secs := el_secs el in
  let pos0 := e_ehsize h0 + e_phentsize h0 in
  el_hdr el = Some h0 -> el_segs el = [g] -> lenN secs < 2 ^ 16 ->
  lenN idxs < 2 ^ 16 -> idxs <> [] -> g_offset_set g = false -> p_type g <> PT_PHDR -> NoDup idxs ->
  Forall2 (fun i s => nth_optN secs i = Some s) idxs ms ->
  Forall auto_member ms -> Forall (fun s => sh_addralign s <= p_align g) ms ->
  bound <= 2 ^ 63 -> Forall (fun s => bound <= 2 ^ xw (s_cls s)) secs -> bound <= 2 ^ xw (g_cls g) ->
  p_align g < 2 ^ 63 ->
  p_vaddr g + pos0 + align + mbudget ms + budget secs + 16 < bound ->
  (forall s, In s secs -> sh_type s = SHT_NULL -> sh_size s = 0) ->
  (forall s, In s secs -> s_index s = 0 -> sh_size s = 0 \/ sh_type s = SHT_NOBITS) ->
  exists el', layout el = Ok (el', true) /\ validate el' = [].
Proof.
  cbv zeta. intros Hh Hs Hnsec Hlen Hne Hos Hty Hnd HF Hauto Hdom Hb63 Hcls Hbg Hal Hbud Hnull Hzero.
  set (align := if 0 <? p_align g then p_align g else 1) in *.
  destruct (layout_oneseg el h0 g bound ms Hh Hs Hnsec Hlen Hne Hos Hty Hnd HF Hauto Hdom ltac:(lia) Hcls Hbg Hal)
    as (el' & g' & secs' & ss & pos1 & pos2 & EL & Eh & Eg & Es & _ & _ & _ & S1 & S2 & S3 & O1 & V1 & F1 & F2 &
        (G1 & G2 & G3 & G4 & G5 & G6 & G7 & G8) & MC & PL & FR & LN & CH & B1 & B2).
  { fold align. lia. }
  fold align in S2, S3.
  exists el'. split; [exact EL|].
  (* sections before / after *)
  assert (HR : Forall2 relaid (el_secs el) secs').
  { apply Forall2_of_nth; [exact LN|]. intros j x Hj.
    destruct (in_dec N.eq_dec j (g_sections g)) as [Hin|Hnin].
    - destruct (Forall2_both_In _ _ _ _ j HF PL Hin) as (s & _ & Hsj & (a & o & Hs1)).
      rewrite Hj in Hsj. injection Hsj as <-. exists (with_offset (with_addr x a) o). split; [exact Hs1|right; right; eauto].
    - destruct (FR j x Hnin Hj) as (s' & Hs' & K). exists s'. split; [exact Hs'|now apply keeps_relaid]. }
  assert (Hback : forall s', In s' secs' -> exists s, In s (el_secs el) /\ relaid s s').
  { clear - HR. induction HR as [|s s' t t' Hk HK IH]; intros x Hx; [contradiction|]. destruct Hx as [<-|Hx].
    - exists s. split; [now left|exact Hk].
    - destruct (IH x Hx) as (y & Hy & R). exists y. split; [now right|exact R]. }
  assert (Hnull' : forall j s, nth_optN secs' j = Some s -> s_index s = 0 -> csize s = 0).
  { intros j s Hj H0. destruct (Hback s (nth_optN_In _ _ _ Hj)) as (s0 & I0 & R).
    destruct (relaid_attrs _ _ R) as (A1 & _ & _ & _ & _ & _ & _ & A8 & _). rewrite A8.
    destruct (Hzero s0 I0 ltac:(congruence)) as [Z|Z]; unfold csize, carries.
    - rewrite Z. now destruct (_ && _).
    - apply N.eqb_eq in Z. now rewrite Z. }
  assert (Hcarry : forall i s, In i (g_sections g) -> nth_optN secs' i = Some s -> csize s = sh_size s).
  { intros i s Hi Hsi. destruct (Forall2_both_In _ _ _ _ i HF PL Hi) as (s0 & I0 & _ & (a & o & Hs1)).
    rewrite Hsi in Hs1. injection Hs1 as ->. rewrite Forall_forall in Hauto.
    destruct (Hauto s0 I0) as (_ & T1 & T2 & _). unfold csize, carries. cbn [sh_type with_offset with_addr sh_size].
    apply N.eqb_neq in T1, T2. now rewrite T1, T2. }
  pose proof (mchain_bounds _ _ _ _ _ _ MC) as Bm. pose proof (chain_bounds _ _ _ CH) as Bc.
  apply validate_clean.
  - rewrite Es, LN. exact Hnsec.
  - rewrite Eg. cbn. lia.
  - (* no pair is reported as overlapping *)
    rewrite Es. intros i j a b Hij Ha Hb.
    destruct (sections_overlap_reported a b) eqn:Er; [|reflexivity]. exfalso.
    destruct (reported_occupies a b Er) as [(Ta & Sa & Oa) (Tb & Sb & Ob)].
    assert (Cz : forall k s, nth_optN secs' k = Some s -> sh_type s <> SHT_NOBITS -> 0 < sh_size s -> csize s = sh_size s).
    { intros k s Hk Tk Sk. destruct (Hback s (nth_optN_In _ _ _ Hk)) as (s0 & I0 & R).
      destruct (relaid_attrs _ _ R) as (_ & _ & A3 & A4 & _). unfold csize, carries.
      apply N.eqb_neq in Tk. rewrite Tk. cbn [negb andb].
      destruct (N.eqb_spec (sh_type s) SHT_NULL) as [En|_]; [|reflexivity].
      rewrite A3 in En. rewrite A4, (Hnull s0 I0 En) in Sk. lia. }
    pose proof (Cz i a Ha Ta Sa) as Ca. pose proof (Cz j b Hb Tb Sb) as Cb.
    pose proof (oneseg_data_disjoint g g' secs' ss pos1 pos2 MC CH G1 Hlen Hcarry Hnull' i j a b ltac:(lia) Ha Hb Hnd) as Hd.
    destruct (oneseg_data_bounds g g' secs' ss pos1 pos2 MC CH G1 Hlen Hcarry Hnull' i a Ha ltac:(lia)) as (_ & Xa & _).
    destruct (oneseg_data_bounds g g' secs' ss pos1 pos2 MC CH G1 Hlen Hcarry Hnull' j b Hb ltac:(lia)) as (_ & Xb & _).
    assert (Fa : in_file a) by (unfold in_file; lia). assert (Fb : in_file b) by (unfold in_file; lia).
    apply (overlap_reported_iff a b (conj Ta (conj Sa Oa)) (conj Tb (conj Sb Ob)) Fa Fb) in Er.
    destruct Er as (x & [X1 X2] & [X3 X4]). unfold rng_disjoint, data_range in Hd. cbn [fst snd] in Hd. lia.
  - (* the loadable segment agrees with the program section found at its offset *)
    rewrite Eg, Es. intros g0 sec [<-|[]] Hpt Hfz Hfind.
    destruct (find_prog_section_In _ _ _ Hfind) as (Hin & Tp & Hoff).
    destruct (In_nth_optN _ _ Hin) as (k & Hk).
    unfold is_offset_in_section in Hoff. apply andb_true_iff in Hoff. destruct Hoff as [L1 L2].
    apply N.leb_le in L1. apply N.ltb_lt in L2. rewrite O1 in L1, L2.
    assert (Hsz : sh_size sec <> 0).
    { intro Z. rewrite Z, N.add_0_r in L2. unfold wrap64 in L2. rewrite wrap_small in L2 by lia. lia. }
    assert (Cs : csize sec = sh_size sec).
    { unfold csize, carries. rewrite Tp. reflexivity. }
    destruct (oneseg_data_bounds g g' secs' ss pos1 pos2 MC CH G1 Hlen Hcarry Hnull' k sec Hk ltac:(lia)) as (Y1 & Y2 & Y3 & Y4).
    destruct (in_dec N.eq_dec k (g_sections g)) as [Hmem|Hfree].
    + destruct (mchain_member _ _ _ _ _ _ k MC Hmem) as (s0 & S0 & M1 & M2 & _ & Ma & Mb).
      rewrite Hk in S0. injection S0 as <-.
      assert (Eo : sh_offset sec = ss) by lia.
      assert (Ea : sh_addr sec = p_vaddr g) by lia.
      unfold get_virtual_addr. rewrite O1, V1, Ea, Eo.
      rewrite add64_id by lia. rewrite sub64_id by lia. lia.
    + specialize (Y4 Hfree). rewrite F1 in Hfz. lia.
Qed.
