(* Properties_C15.v — C15: lazy loading and address translation do not change
   the data that is observed (section level; whole-object equivalence is
   carried by the correspondence run). *)
From ElfioV Require Import Bytes Mem Stream SectionData Strings Elfio Table Loader Load_proofs Data_proofs.
Local Open Scope N_scope.

(* What a data request stores is the file's bytes at the (translated) range,
   NUL-terminated — whenever it is made and wherever the stream stands. *)
Theorem C15_request_yields_file_bytes :
  forall junk st t s,
    is_fail st = false -> st_inv st -> sec_loadable t (is_content st) s ->
    exists st1 s1,
      sec_load_data junk (Some st) t s = Ok (Some st1, s1, true, [sh_size s + 1]) /\
      s_data s1 = Some (sliceN (is_content st) (sec_file_off t s) (sh_size s) ++ [0]) /\
      is_fail st1 = false /\ is_content st1 = is_content st /\ st_inv st1 /\ hdr_same s s1 /\ s_loaded s1 = true /\
      s_lazy s1 = s_lazy s /\ s_can_load s1 = s_can_load s.
Proof. exact sec_load_data_complete. Qed.
Print Assumptions C15_request_yields_file_bytes.

Theorem C15_lazy_equals_eager :
  forall junk st_eager st_lazy t s,
    is_fail st_eager = false -> st_inv st_eager -> is_fail st_lazy = false -> st_inv st_lazy ->
    is_content st_lazy = is_content st_eager ->
    sec_loadable t (is_content st_eager) s ->
    exists a sa b sb,
      sec_load_data junk (Some st_eager) t s = Ok (Some a, sa, true, [sh_size s + 1]) /\
      sec_load_data junk (Some st_lazy) t s = Ok (Some b, sb, true, [sh_size s + 1]) /\
      s_data sa = s_data sb.
Proof. exact lazy_equals_eager. Qed.
Print Assumptions C15_lazy_equals_eager.

Theorem C15_release_then_request :
  forall junk st t s s1 st1,
    is_fail st = false -> st_inv st -> sec_loadable t (is_content st) s -> s_lazy s = true -> s_can_load s = true ->
    sec_load_data junk (Some st) t s = Ok (Some st1, s1, true, [sh_size s + 1]) ->
    exists st2 s2 al,
      sec_get_data junk (Some st1) t (free_data s1) = Ok (Some st2, s2, al) /\ s_data s2 = s_data s1.
Proof. exact free_then_get. Qed.
Print Assumptions C15_release_then_request.

Theorem C15_translated_equals_plain :
  forall junk st_plain st_cont t s,
    is_fail st_plain = false -> st_inv st_plain -> is_fail st_cont = false -> st_inv st_cont ->
    sec_loadable [] (is_content st_plain) s -> sec_loadable t (is_content st_cont) s ->
    sliceN (is_content st_cont) (sec_file_off t s) (sh_size s) = sliceN (is_content st_plain) (sec_file_off [] s) (sh_size s) ->
    exists a sa b sb al bl,
      sec_load_data junk (Some st_plain) [] s = Ok (Some a, sa, true, al) /\
      sec_load_data junk (Some st_cont) t s = Ok (Some b, sb, true, bl) /\
      s_data sa = s_data sb.
Proof. exact translated_equals_plain. Qed.
Print Assumptions C15_translated_equals_plain.

(* non-vacuity: a 4-byte section at offset 2 of a 10-byte stream, plain and
   through a translation that maps offset 2 to offset 5 of a container *)
Definition ex_s : section :=
  with_stream_size (with_size (with_offset (with_type (new_section C64) SHT_PROGBITS) 2) 4) 10.
Definition ex_plain := open_istream StringBuf [0; 1; 2; 3; 4; 5; 6; 7; 8; 9].
Definition ex_cont := open_istream StringBuf [9; 9; 9; 9; 9; 2; 3; 4; 5; 9].
Example C15_example :
  sec_loadable [] (is_content ex_plain) ex_s /\ sec_loadable [(2, 4, 5)] (is_content ex_cont) ex_s /\
  (exists st1 s1 al, sec_load_data (fun _ => 0) (Some ex_plain) [] ex_s = Ok (st1, s1, true, al) /\ s_data s1 = Some [2; 3; 4; 5; 0]) /\
  (exists st1 s1 al, sec_load_data (fun _ => 0) (Some ex_cont) [(2, 4, 5)] ex_s = Ok (st1, s1, true, al) /\ s_data s1 = Some [2; 3; 4; 5; 0]).
Proof.
  split; [|split; [|split]].
  - unfold sec_loadable. vm_compute. repeat split; try discriminate; intro; discriminate.
  - unfold sec_loadable. vm_compute. repeat split; try discriminate; intro; discriminate.
  - vm_compute. eauto.
  - vm_compute. eauto.
Qed.
