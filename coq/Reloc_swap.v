(* Reloc_swap.v — C11: swap_symbols( first, second ) applies the exchange to the
   symbol index of every entry of the table and changes nothing else. *)
From ElfioV Require Import Bytes Mem Stream SectionData SectionData_proofs Strings Elfio Table Accessors
  Arrange_proofs Layout_proofs Reloc_proofs.
From Coq Require Import ZifyBool ZifyN ZifyNat.
Local Open Scope N_scope.
Ltac Zify.zify_post_hook ::= Z.div_mod_to_equations.

Definition with_sym (r : rel_entry) (y : N) : rel_entry := mkRelEntry (re_offset r) y (re_type r) (re_addend r).
Definition swap_entry (a b : N) (r : rel_entry) : rel_entry := with_sym r (swap1 a b (re_symbol r)).

Lemma with_sym_same r : with_sym r (re_symbol r) = r.
Proof. destruct r; reflexivity. Qed.

Lemma wrap_sext c x : x < 2 ^ xw c -> wrap (xw c) (sext (xw c) x) = x.
Proof.
  destruct c; cbn [xw]; unfold sext, wrap, wrap64, wrap; intros H.
  - change (32 - 1) with 31. change (2 ^ 31) with 2147483648. change (2 ^ 32) with 4294967296 in *.
    change (2 ^ 64) with 18446744073709551616.
    destruct (N.ltb_spec x 2147483648); lia.
  - change (64 - 1) with 63. change (2 ^ 63) with 9223372036854775808.
    change (2 ^ 64) with 18446744073709551616 in *.
    destruct (N.ltb_spec x 9223372036854775808); lia.
Qed.

(* set_entry is handed the values get_entry reported: the entry it writes is the
   old entry with the new symbol *)
Lemma rel_enc_view c e is_rela r y :
  let v := rel_view c is_rela r in
  rel_enc c e is_rela (mkRelEntry (rv_offset v) y (rv_type v) (rv_addend v)) = rel_enc c e is_rela (with_sym r y).
Proof.
  cbv zeta. unfold rel_enc, enc_rel, rel_view, with_sym. cbn [re_offset re_symbol re_type re_addend rv_offset rv_type rv_addend].
  rewrite wrap_wrap. destruct is_rela; [|reflexivity].
  rewrite wrap_sext; [reflexivity|]. unfold wrap. apply N.mod_lt. apply N.pow_nonzero. lia.
Qed.

Lemma updN_updN {A} (l : list A) i x y : updN (updN l i x) i y = updN l i y.
Proof.
  revert i; induction l as [|h t IH]; intros i; cbn [updN]; [reflexivity|].
  destruct (N.eqb_spec i 0) as [->|H]; cbn [updN].
  - reflexivity.
  - destruct (N.eqb_spec i 0); [contradiction|]. now rewrite IH.
Qed.

Lemma updN_same_value_loc {A} (l : list A) i x : nth_optN l i = Some x -> updN l i x = l.
Proof.
  revert i; induction l as [|h t IH]; intros i H; cbn [updN nth_optN] in *; [reflexivity|].
  destruct (N.eqb_spec i 0); [congruence|]. now rewrite IH.
Qed.

Lemma nth_optN_mid {A} (pre : list A) x t : nth_optN (pre ++ x :: t) (lenN pre) = Some x.
Proof.
  induction pre as [|h p IH]; cbn [app nth_optN].
  - reflexivity.
  - rewrite lenN_cons. destruct (N.eqb_spec (1 + lenN p) 0); [lia|].
    replace (1 + lenN p - 1) with (lenN p) by lia. exact IH.
Qed.

(* with_load_flags only touches the residency flags *)
Definition wlf (s : section) (l cl : bool) : section := with_load_flags s (s_lazy s) l cl.

Section Swap.
  Variable junk : N -> N.

  (* a data request on a section whose buffer is resident changes at most the residency flags *)
  Lemma sec_get_data_resident st t s b : s_data s = Some b ->
    exists l cl, sec_get_data junk st t s = Ok (st, wlf s l cl, []).
  Proof.
    intros Hb. unfold sec_get_data.
    destruct (negb (s_loaded s) && s_can_load s).
    - unfold sec_load_data.
      destruct (_ <? _); cbn [bind]; [exists (s_loaded s), false; reflexivity|].
      destruct (_ || _); cbn [bind]; [exists (s_loaded s), false; reflexivity|].
      rewrite Hb. cbn [bind]. exists true, (s_can_load s). reflexivity.
    - exists (s_loaded s), (s_can_load s). destruct s; reflexivity.
  Qed.

  Variable el0 : elfio.
  Variable relsec : N.
  Variable c : cls.
  Variable e : endian.
  Variable is_rela : bool.
  Variable sz : N.
  Hypothesis Hrel : relsec < lenN (el_secs el0).
  Hypothesis Hc : acls el0 = c.
  Hypothesis He : el_enc el0 = e.
  Hypothesis Hsz : sz < size_bound c.

  Definition tbl (es : list rel_entry) : bytes := concat (map (rel_enc c e is_rela) es).

  Definition sec_ok (es : list rel_entry) (s : section) : Prop :=
    Inv s /\ s_cls s = c /\ contents s = tbl es /\
    sh_type s = (if is_rela then SHT_RELA else SHT_REL) /\ sh_entsize s = rel_esz c is_rela /\ sh_size s = sz.

  Definition st_ok (es : list rel_entry) (el : elfio) : Prop :=
    exists s, el = upd_sec el0 relsec s /\ sec_ok es s.

  Lemma wlf_ok es s l cl : sec_ok es s -> sec_ok es (wlf s l cl).
  Proof. unfold sec_ok, Inv, contents, wlf. cbn. tauto. Qed.

  Lemma get_upd s : get_sec (upd_sec el0 relsec s) relsec = Some s.
  Proof. unfold get_sec, upd_sec. cbn [el_secs with_secs]. now apply nth_optN_updN_same. Qed.

  Lemma upd_upd s s' : upd_sec (upd_sec el0 relsec s) relsec s' = upd_sec el0 relsec s'.
  Proof. unfold upd_sec, with_secs. cbn. now rewrite updN_updN. Qed.

  Lemma acls_upd s : acls (upd_sec el0 relsec s) = c.
  Proof. rewrite <- Hc. reflexivity. Qed.
  Lemma enc_upd s : el_enc (upd_sec el0 relsec s) = e.
  Proof. rewrite <- He. reflexivity. Qed.

  Lemma sec_data_step s b : s_data s = Some b ->
    exists l cl, sec_data junk (upd_sec el0 relsec s) relsec = Ok (upd_sec el0 relsec (wlf s l cl), s_data s, wlf s l cl).
  Proof.
    intros Hb. unfold sec_data, el_sec_get_data. rewrite get_upd.
    destruct (sec_get_data_resident (el_stream (upd_sec el0 relsec s)) (el_xlat (upd_sec el0 relsec s)) s b Hb) as (l & cl & E).
    rewrite E. cbn [bind]. exists l, cl.
    replace (with_stream (upd_sec (upd_sec el0 relsec s) relsec (wlf s l cl)) (el_stream (upd_sec el0 relsec s)))
      with (upd_sec el0 relsec (wlf s l cl)).
    2:{ rewrite upd_upd. reflexivity. }
    rewrite get_upd. reflexivity.
  Qed.

  Lemma num_ok es s : sec_ok es s -> rel_entries_num s = lenN es.
  Proof. intros (HI & _ & HC & _ & HE & _). exact (rel_num_table c e is_rela s es HI HC HE). Qed.

  Lemma get_step es el i r : st_ok es el -> nth_optN es i = Some r -> rel_fits c r ->
    exists el1, rel_get_entry junk el relsec i = Ok (el1, Some (rel_view c is_rela r)) /\ st_ok es el1.
  Proof.
    intros (s & -> & Hs) Hn Hf.
    pose proof (num_ok es s Hs) as Hnum.
    pose proof Hs as (HI & HK & HC & HT & HE & HS).
    pose proof (nth_optN_lt _ _ _ Hn) as Hi.
    destruct (table_data_some (rel_enc c e is_rela) (rel_esz c is_rela) (rel_enc_len c e is_rela) s es i r HI HC Hn
                (rel_esz_pos c is_rela)) as [b Eb].
    unfold rel_get_entry. rewrite get_upd, acls_upd.
    assert (Nd : rel_needs_data c s i = true).
    { unfold rel_needs_data. rewrite Hnum, HT, HE.
      destruct (N.leb_spec (lenN es) i); [lia|]. destruct is_rela, c; reflexivity. }
    rewrite Nd.
    destruct (sec_data_step s b Eb) as (l & cl & E). rewrite E. cbn [bind].
    rewrite acls_upd, enc_upd.
    rewrite (rel_roundtrip c e is_rela s es i r HI HK HC HT HE ltac:(rewrite HS; exact Hsz) Hn Hf). cbn [bind].
    eexists. split; [reflexivity|]. exists (wlf s l cl). split; [reflexivity|]. now apply wlf_ok.
  Qed.

  Lemma set_step es el i r off y ty ad : st_ok es el -> nth_optN es i = Some r ->
    exists el1, rel_set_entry junk el relsec i off y ty ad = Ok (el1, true) /\
                st_ok (updN es i (mkRelEntry off y ty ad)) el1.
  Proof.
    intros (s & -> & Hs) Hn.
    pose proof (num_ok es s Hs) as Hnum.
    pose proof Hs as (HI & HK & HC & HT & HE & HS).
    pose proof (nth_optN_lt _ _ _ Hn) as Hi.
    destruct (table_data_some (rel_enc c e is_rela) (rel_esz c is_rela) (rel_enc_len c e is_rela) s es i r HI HC Hn
                (rel_esz_pos c is_rela)) as [b Eb].
    unfold rel_set_entry. rewrite get_upd, Hnum.
    destruct (N.leb_spec (lenN es) i); [lia|].
    assert (Ty : negb ((sh_type s =? SHT_REL) || (sh_type s =? SHT_RELA)) = false) by (rewrite HT; destruct is_rela; reflexivity).
    rewrite Ty.
    destruct (sec_data_step s b Eb) as (l & cl & E). rewrite E. cbn [bind].
    rewrite acls_upd, enc_upd.
    pose proof (wlf_ok es s l cl Hs) as (HI1 & HK1 & HC1 & HT1 & HE1 & HS1).
    destruct (rel_set_changes_only_that_entry c e is_rela (wlf s l cl) es i r (mkRelEntry off y ty ad)
                HI1 HK1 HC1 HT1 HE1 ltac:(rewrite HS1; exact Hsz) Hn) as (b' & Eset & HI' & HC' & HS').
    cbn [re_offset re_symbol re_type re_addend] in Eset.
    change (rel_set_core c e (wlf s l cl) (s_data (wlf s l cl)) i off y ty ad)
      with (rel_set_core c e s (s_data s) i off y ty ad) in Eset.
    rewrite Eset. cbn [bind]. rewrite upd_upd.
    eexists. split; [reflexivity|]. eexists. split; [reflexivity|].
    unfold sec_ok. split; [exact HI'|]. split; [exact HK1|]. split; [exact HC'|]. split; [exact HT1|]. split; [exact HE1|].
    rewrite HS'. exact HS1.
  Qed.

  Lemma st_ok_enc_eq l1 r' r'' l2 el : rel_enc c e is_rela r' = rel_enc c e is_rela r'' ->
    st_ok (l1 ++ r' :: l2) el -> st_ok (l1 ++ r'' :: l2) el.
  Proof.
    intros Heq (s & -> & HI & HK & HC & R). exists s. split; [reflexivity|].
    unfold sec_ok. split; [exact HI|]. split; [exact HK|]. split; [|exact R].
    rewrite HC. unfold tbl. rewrite !map_app. cbn [map]. now rewrite Heq.
  Qed.

  Lemma swap_loop_eq fuel el first second i last :
    swap_loop junk fuel el relsec first second i last =
    match get_sec el relsec with
    | None => Fault NullDeref
    | Some s =>
        if i <? rel_entries_num s then
          match fuel with
          | [] => Fault Hang
          | _ :: f =>
              '(el1, r) <- rel_get_entry junk el relsec i ;;
              let v := match r with Some v => v | None => last end in
              '(el2, _) <- (if rv_symbol v =? first
                            then rel_set_entry junk el1 relsec i (rv_offset v) (wrap32 second) (rv_type v) (rv_addend v)
                            else Ok (el1, true)) ;;
              '(el3, _) <- (if rv_symbol v =? second
                            then rel_set_entry junk el2 relsec i (rv_offset v) (wrap32 first) (rv_type v) (rv_addend v)
                            else Ok (el2, true)) ;;
              swap_loop junk f el3 relsec first second (wrap32 (i + 1)) v
          end
        else Ok el
    end.
  Proof. destruct fuel; reflexivity. Qed.

  Lemma sym_fits_32 y : sym_fits c y -> wrap32 y = y.
  Proof.
    intros H. apply wrap_small. destruct c; cbn [sym_fits] in H; [|exact H].
    eapply N.lt_trans; [exact H|]. apply N.pow_lt_mono_r; lia.
  Qed.

  (* one trip of the loop body on entry [r] at position [lenN l1] *)
  Lemma swap_body a b l1 r l2 el : sym_fits c a -> sym_fits c b -> rel_fits c r ->
    st_ok (l1 ++ r :: l2) el ->
    let i := lenN l1 in
    let v := rel_view c is_rela r in
    exists el1 el2 el3 x1 x2,
      rel_get_entry junk el relsec i = Ok (el1, Some v) /\
      (if rv_symbol v =? a then rel_set_entry junk el1 relsec i (rv_offset v) (wrap32 b) (rv_type v) (rv_addend v)
       else Ok (el1, true)) = Ok (el2, x1) /\
      (if rv_symbol v =? b then rel_set_entry junk el2 relsec i (rv_offset v) (wrap32 a) (rv_type v) (rv_addend v)
       else Ok (el2, true)) = Ok (el3, x2) /\
      st_ok (l1 ++ swap_entry a b r :: l2) el3.
  Proof.
    intros Ha Hb Hf H0. cbv zeta.
    pose proof (nth_optN_mid l1 r l2) as Hn.
    destruct (get_step _ el (lenN l1) r H0 Hn Hf) as (el1 & E1 & H1).
    exists el1. rewrite E1.
    rewrite (sym_fits_32 a Ha), (sym_fits_32 b Hb).
    change (rv_symbol (rel_view c is_rela r)) with (re_symbol r).
    unfold swap_entry, swap1.
    destruct (N.eqb_spec (re_symbol r) a) as [Ea|Na].
    - destruct (set_step _ el1 (lenN l1) r (rv_offset (rel_view c is_rela r)) b (rv_type (rel_view c is_rela r))
                  (rv_addend (rel_view c is_rela r)) H1 Hn) as (el2 & E2 & H2).
      rewrite updN_mid in H2. apply (st_ok_enc_eq _ _ _ _ _ (rel_enc_view c e is_rela r b)) in H2.
      destruct (N.eqb_spec (re_symbol r) b) as [Eb|Nb].
      + pose proof (nth_optN_mid l1 (with_sym r b) l2) as Hn2.
        destruct (set_step _ el2 (lenN l1) (with_sym r b) (rv_offset (rel_view c is_rela r)) a (rv_type (rel_view c is_rela r))
                    (rv_addend (rel_view c is_rela r)) H2 Hn2) as (el3 & E3 & H3).
        rewrite updN_mid in H3. apply (st_ok_enc_eq _ _ _ _ _ (rel_enc_view c e is_rela r a)) in H3.
        exists el2, el3, true, true. repeat split; try assumption.
        replace b with a by congruence. exact H3.
      + exists el2, el2, true, true. repeat split; assumption.
    - destruct (N.eqb_spec (re_symbol r) b) as [Eb|Nb].
      + destruct (set_step _ el1 (lenN l1) r (rv_offset (rel_view c is_rela r)) a (rv_type (rel_view c is_rela r))
                    (rv_addend (rel_view c is_rela r)) H1 Hn) as (el3 & E3 & H3).
        rewrite updN_mid in H3. apply (st_ok_enc_eq _ _ _ _ _ (rel_enc_view c e is_rela r a)) in H3.
        exists el1, el3, true, true. repeat split; assumption.
      + exists el1, el1, true, true. repeat split; try reflexivity. now rewrite with_sym_same.
  Qed.

  Lemma swap_loop_spec a b : sym_fits c a -> sym_fits c b ->
    forall l2 l1 fuel el last,
      st_ok (l1 ++ l2) el -> Forall (rel_fits c) l2 -> (length l2 <= length fuel)%nat -> lenN (l1 ++ l2) < 2 ^ 32 ->
      exists el', swap_loop junk fuel el relsec a b (lenN l1) last = Ok el' /\
                  st_ok (l1 ++ map (swap_entry a b) l2) el'.
  Proof.
    intros Ha Hb. induction l2 as [|r l2 IH]; intros l1 fuel el last H0 Hf Hfu Hlen; rewrite swap_loop_eq.
    - destruct H0 as (s & -> & Hs). rewrite get_upd, (num_ok _ s Hs).
      destruct (N.ltb_spec (lenN l1) (lenN (l1 ++ []))) as [L|L]; [rewrite app_nil_r in L; lia|].
      eexists. split; [reflexivity|]. exists s. split; [reflexivity|exact Hs].
    - pose proof H0 as (s & Es & Hs).
      assert (G : get_sec el relsec = Some s) by (rewrite Es; apply get_upd).
      rewrite G, (num_ok _ s Hs).
      destruct (N.ltb_spec (lenN l1) (lenN (l1 ++ r :: l2))) as [L|L]; [|rewrite lenN_app, lenN_cons in L; lia].
      destruct fuel as [|f0 fuel]; [cbn [length] in Hfu; lia|].
      inversion Hf as [|? ? Hr Hf2]; subst.
      destruct (swap_body a b l1 r l2 _ Ha Hb Hr H0) as (el1 & el2 & el3 & x1 & x2 & E1 & E2 & E3 & H3).
      cbv zeta in E1, E2, E3. rewrite E1. cbn [bind]. cbv zeta. rewrite E2. cbn [bind]. rewrite E3. cbn [bind].
      assert (W : wrap32 (lenN l1 + 1) = lenN (l1 ++ [swap_entry a b r])).
      { rewrite lenN_app, lenN_cons. cbn [lenN]. rewrite lenN_app, lenN_cons in Hlen.
        apply wrap_small. change (lenN (@nil rel_entry)) with 0. lia. }
      rewrite W.
      destruct (IH (l1 ++ [swap_entry a b r]) fuel el3 (rel_view c is_rela r)) as (el' & E' & H').
      + rewrite <- app_assoc. exact H3.
      + exact Hf2.
      + cbn [length] in Hfu. lia.
      + rewrite <- app_assoc. cbn [app]. rewrite lenN_app, lenN_cons in *. exact Hlen.
      + exists el'. split; [exact E'|]. rewrite <- app_assoc in H'. exact H'.
  Qed.
End Swap.

(* swap_symbols on a table of entries: every entry's symbol index is exchanged, every other
   field of every entry, the section header and every other part of the object are unchanged *)
Theorem swap_symbols_spec junk el relsec s c e is_rela es a b :
  get_sec el relsec = Some s ->
  acls el = c -> el_enc el = e ->
  Inv s -> s_cls s = c -> contents s = concat (map (rel_enc c e is_rela) es) ->
  sh_type s = (if is_rela then SHT_RELA else SHT_REL) -> sh_entsize s = rel_esz c is_rela ->
  sh_size s < size_bound c -> lenN es < 2 ^ 32 ->
  Forall (rel_fits c) es -> sym_fits c a -> sym_fits c b ->
  exists s',
    swap_symbols junk el relsec a b = Ok (upd_sec el relsec s') /\
    Inv s' /\ contents s' = concat (map (rel_enc c e is_rela) (map (swap_entry a b) es)) /\
    sh_type s' = sh_type s /\ sh_entsize s' = sh_entsize s /\ sh_size s' = sh_size s /\ s_cls s' = s_cls s.
Proof.
  intros Hg Hc He HI HK HC HT HE HB Hlen Hf Ha Hb.
  assert (Hrel : relsec < lenN (el_secs el)) by (unfold get_sec in Hg; exact (nth_optN_lt _ _ _ Hg)).
  assert (Eel : el = upd_sec el relsec s).
  { unfold upd_sec, with_secs. unfold get_sec in Hg. rewrite (updN_same_value_loc _ _ _ Hg). destruct el; reflexivity. }
  unfold swap_symbols. rewrite Hg.
  set (fuel := match s_data s with Some b0 => 0 :: b0 | None => [0] end).
  assert (Hfu : (length es <= length fuel)%nat).
  { pose proof (lenN_contents s HI) as HL. rewrite HC, (lenN_concat_enc _ _ (rel_enc_len c e is_rela)) in HL.
    pose proof (rel_esz_pos c is_rela) as Hp.
    destruct HI as (_ & _ & HD). subst fuel. destruct (s_data s) as [b0|].
    - destruct HD as [D1 D2]. cbn [length]. rewrite !lenN_length in *. nia.
    - destruct HD as [D1 _]. rewrite D1 in HL. rewrite lenN_length in HL. cbn [length]. nia. }
  destruct (swap_loop_spec junk el relsec c e is_rela (sh_size s) Hrel Hc He HB a b Ha Hb es [] fuel el (mkRelview 0 0 0 0))
    as (el' & E' & (s' & -> & HI' & HK' & HC' & HT' & HE' & HS')).
  - exists s. split; [exact Eel|]. unfold sec_ok, tbl. split; [exact HI|]. split; [exact HK|]. split; [exact HC|].
    split; [exact HT|]. split; [exact HE|reflexivity].
  - exact Hf.
  - exact Hfu.
  - exact Hlen.
  - exists s'. cbn [lenN app] in E'. split; [exact E'|]. split; [exact HI'|]. split; [exact HC'|].
    split; [congruence|]. split; [congruence|]. split; [exact HS'|congruence].
Qed.

Lemma swap_entry_involutive a b r : swap_entry a b (swap_entry a b r) = r.
Proof. unfold swap_entry, with_sym. cbn [re_symbol re_offset re_type re_addend]. rewrite swap1_involutive. destruct r; reflexivity. Qed.

Lemma swap_entries_twice a b es : map (swap_entry a b) (map (swap_entry a b) es) = es.
Proof. rewrite map_map. rewrite <- (map_id es) at 2. apply map_ext. intros r. apply swap_entry_involutive. Qed.

Lemma swap_entry_fits c a b r : sym_fits c a -> sym_fits c b -> rel_fits c r -> rel_fits c (swap_entry a b r).
Proof.
  intros Ha Hb [Hs Ht]. split; [|exact Ht]. unfold swap_entry, with_sym, swap1. cbn [re_symbol].
  destruct (_ =? a); [exact Hb|]. destruct (_ =? b); [exact Ha|exact Hs].
Qed.

(* ---------- a whole swap log (what arrange_local_symbols' callback forwards) ---------- *)
Definition retarget_entry (log : list (N * N)) (r : rel_entry) : rel_entry := with_sym r (retarget log (re_symbol r)).

Definition apply_log junk (relsec : N) (log : list (N * N)) (start : res elfio) : res elfio :=
  fold_left (fun acc pr => e <- acc ;; swap_symbols junk e relsec (fst pr) (snd pr)) log start.

Lemma upd_sec_upd_sec el i s s' : upd_sec (upd_sec el i s) i s' = upd_sec el i s'.
Proof. unfold upd_sec, with_secs. cbn. now rewrite updN_updN. Qed.

Lemma retarget_entry_fits c log r : Forall (fun p => sym_fits c (fst p) /\ sym_fits c (snd p)) log ->
  rel_fits c r -> rel_fits c (retarget_entry log r).
Proof.
  intros Hl [Hs Ht]. split; [|exact Ht]. unfold retarget_entry, with_sym, retarget. cbn [re_symbol].
  revert Hs. generalize (re_symbol r). induction Hl as [|p t [Ha Hb] _ IH]; intros x Hx; cbn [fold_left]; [exact Hx|].
  apply IH. unfold swap1. destruct (_ =? fst p); [exact Hb|]. destruct (_ =? snd p); [exact Ha|exact Hx].
Qed.

Theorem swap_log_spec junk c e is_rela relsec log :
  Forall (fun p => sym_fits c (fst p) /\ sym_fits c (snd p)) log ->
  forall el s es,
  get_sec el relsec = Some s ->
  acls el = c -> el_enc el = e ->
  Inv s -> s_cls s = c -> contents s = concat (map (rel_enc c e is_rela) es) ->
  sh_type s = (if is_rela then SHT_RELA else SHT_REL) -> sh_entsize s = rel_esz c is_rela ->
  sh_size s < size_bound c -> lenN es < 2 ^ 32 ->
  Forall (rel_fits c) es ->
  exists s',
    apply_log junk relsec log (Ok el) = Ok (upd_sec el relsec s') /\
    Inv s' /\ contents s' = concat (map (rel_enc c e is_rela) (map (retarget_entry log) es)) /\
    sh_type s' = sh_type s /\ sh_entsize s' = sh_entsize s /\ sh_size s' = sh_size s /\ s_cls s' = s_cls s.
Proof.
  intros Hl. induction Hl as [|p t [Ha Hb] Ht IH]; intros el s es Hg Hc He HI HK HC HT HE HB Hlen Hf.
  - exists s. unfold apply_log. cbn [fold_left].
    assert (Eel : el = upd_sec el relsec s).
    { unfold upd_sec, with_secs. unfold get_sec in Hg. rewrite (updN_same_value_loc _ _ _ Hg). destruct el; reflexivity. }
    split; [now rewrite <- Eel|]. split; [exact HI|]. split; [|repeat split].
    rewrite HC. f_equal. f_equal. rewrite <- (map_id es) at 1. apply map_ext. intros r.
    unfold retarget_entry, retarget. cbn [fold_left]. now rewrite with_sym_same.
  - destruct (swap_symbols_spec junk el relsec s c e is_rela es (fst p) (snd p) Hg Hc He HI HK HC HT HE HB Hlen Hf Ha Hb)
      as (s1 & E1 & HI1 & HC1 & HT1 & HE1 & HS1 & HK1).
    assert (Hrel : relsec < lenN (el_secs el)) by (unfold get_sec in Hg; exact (nth_optN_lt _ _ _ Hg)).
    destruct (IH (upd_sec el relsec s1) s1 (map (swap_entry (fst p) (snd p)) es)) as (s' & E' & HI' & HC' & HT' & HE' & HS' & HK').
    + now apply get_upd_sec.
    + rewrite <- Hc. reflexivity.
    + rewrite <- He. reflexivity.
    + exact HI1.
    + congruence.
    + exact HC1.
    + congruence.
    + congruence.
    + congruence.
    + now rewrite lenN_map.
    + apply Forall_forall. intros r' Hin. apply in_map_iff in Hin. destruct Hin as (r0 & <- & Hin0).
      apply swap_entry_fits; try assumption. rewrite Forall_forall in Hf. now apply Hf.
    + exists s'. unfold apply_log in *. cbn [fold_left bind]. rewrite E1. rewrite E', upd_sec_upd_sec.
      split; [reflexivity|]. split; [exact HI'|]. split; [|repeat split; congruence].
      rewrite HC'. f_equal. f_equal. rewrite map_map. apply map_ext. intros r.
      unfold retarget_entry, swap_entry, with_sym, retarget. cbn [re_symbol re_offset re_type re_addend fold_left]. reflexivity.
Qed.
