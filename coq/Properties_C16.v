(* Properties_C16.v — C16: save() reports failure whenever the output did not take the whole file. *)
From ElfioV Require Import Bytes Mem Stream Stream_proofs SectionData Strings Elfio Table Loader Layout Writer.
Local Open Scope N_scope.

(* What save() writes is a plan of (position, bytes) pairs executed on the
   stream.  A sink that accepts exactly k bytes ends in the failed state exactly
   when the complete output is longer than k ... *)
Theorem C16_reports_failure :
  forall k p sc su, in_step k sc su -> plan_no_huge su p ->
    k < os_len (exec_plan su p) -> os_bad (exec_plan sc p) = true.
Proof. intros k p sc su HS HP Hk. destruct (exec_plan_sim k p sc su HS HP) as [_ H]. now destruct (H Hk). Qed.
Print Assumptions C16_reports_failure.

(* ... and when the output fits, the sink never fails and holds exactly what an
   unlimited stream would hold. *)
Theorem C16_success_complete :
  forall k p sc su, in_step k sc su -> plan_no_huge su p ->
    os_len (exec_plan su p) <= k ->
    os_bad (exec_plan sc p) = false /\ os_bytes (exec_plan sc p) = os_bytes (exec_plan su p).
Proof.
  intros k p sc su HS HP Hk. destruct (exec_plan_sim k p sc su HS HP) as [H _].
  destruct (H Hk) as (_ & _ & Hb & _ & _ & _ & Hp & Hl & _). split; [exact Hb|].
  unfold os_bytes. now rewrite Hp, Hl.
Qed.
Print Assumptions C16_success_complete.

(* save() returns true only if the stream is not in the failed state at the
   end (the repaired save_sections/save_segments return the stream state) *)
Theorem C16_true_means_stream_good :
  forall junk el os el' os', save junk el os = Ok (el', os', true) -> os_bad os' = false.
Proof.
  intros junk el os el' os'. unfold save.
  destruct (os_bad os) eqn:B0; [intros [= _ _ ]; discriminate|].
  destruct (el_hdr el); [|discriminate].
  destruct (force_sections _ _ _ _ _) as [[sta secsa]|]; cbn [bind]; [|discriminate].
  destruct (force_segments _ _ _ _) as [[stb segsb]|]; cbn [bind]; [|discriminate].
  destruct (layout _) as [[el1 ok]|]; cbn [bind]; [|discriminate].
  destruct ok; cbn [negb]; [|discriminate].
  destruct (el_hdr el1) as [h|]; [|discriminate].
  unfold save_header.
  destruct (os_bad (write _ _)) eqn:B1; cbn [negb]; [discriminate|].
  destruct (sections_plan _ _ _ _ _ _ _ _ _) as [[[st1 secs1] plan_s]|]; cbn [bind]; [|discriminate].
  destruct (os_abort (exec_plan _ plan_s)); [discriminate|].
  destruct (os_bad (exec_plan _ plan_s)) eqn:B2; [discriminate|].
  destruct (os_abort (exec_plan _ (segments_plan _ _ _))); [discriminate|].
  intros [= _ <- H]. now apply negb_true_iff in H.
Qed.
Print Assumptions C16_true_means_stream_good.

(* a stream that is already bad (it could not be opened) makes save() return false at once *)
Theorem C16_unopenable : forall junk el os, os_bad os = true -> exists r, save junk el os = Ok (fst r, snd r, false).
Proof. intros junk el os H. exists (el, os). unfold save. now rewrite H. Qed.
Print Assumptions C16_unopenable.

Example C16_example :
  let p := [(0, [1; 2; 3; 4]); (8, [9; 9])] in
  os_bad (exec_plan (new_ostream (Some 9)) p) = true /\ os_bad (exec_plan (new_ostream (Some 10)) p) = false /\
  os_bytes (exec_plan (new_ostream (Some 10)) p) = [1; 2; 3; 4; 0; 0; 0; 0; 9; 9] /\
  in_step 10 (new_ostream (Some 10)) (new_ostream None).
Proof. vm_compute. repeat split; try reflexivity; discriminate. Qed.
