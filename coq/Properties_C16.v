(* Properties_C16.v — C16: save() reports failure whenever the output did not take the whole file. *)
From ElfioV Require Import Bytes Mem Stream Stream_proofs SectionData Strings Elfio Table Loader Layout Writer
     Ostream_proofs Layout_proofs Writer_proofs ByName_proofs Segment_proofs Oneseg_proofs Oneseg_writer Save_endtoend.
Local Open Scope N_scope.

(* What save() writes is a plan of (position, bytes) pairs executed on the
   stream.  A sink that accepts exactly k bytes ends in the failed state exactly
   when the complete output is longer than k ... *)
Theorem C16_reports_failure :
  forall k p sc su, in_step k sc su -> plan_no_huge su p ->
    k < os_len (exec_plan su p) -> os_bad (exec_plan sc p) = true.
Proof. intros k p sc su HS HP Hk. destruct (exec_plan_sim k p sc su HS HP) as [_ H]. now destruct (H Hk). Qed.
Print Assumptions C16_reports_failure.

(* ... and when the output fits, the sink never fails and holds exactly what an
   unlimited stream would hold. *)
Theorem C16_success_complete :
  forall k p sc su, in_step k sc su -> plan_no_huge su p ->
    os_len (exec_plan su p) <= k ->
    os_bad (exec_plan sc p) = false /\ os_bytes (exec_plan sc p) = os_bytes (exec_plan su p).
Proof.
  intros k p sc su HS HP Hk. destruct (exec_plan_sim k p sc su HS HP) as [H _].
  destruct (H Hk) as (_ & _ & Hb & _ & _ & _ & Hp & Hl & _). split; [exact Hb|].
  unfold os_bytes. now rewrite Hp, Hl.
Qed.
Print Assumptions C16_success_complete.

(* save() returns true only if the stream is not in the failed state at the
   end (the repaired save_sections/save_segments return the stream state) *)
Theorem C16_true_means_stream_good :
  forall junk el os el' os', save junk el os = Ok (el', os', true) -> os_bad os' = false.
Proof.
  intros junk el os el' os'. unfold save.
  destruct (os_bad os) eqn:B0; [intros [= _ _ ]; discriminate|].
  destruct (el_hdr el); [|discriminate].
  destruct (force_sections _ _ _ _ _) as [[sta secsa]|]; cbn [bind]; [|discriminate].
  destruct (force_segments _ _ _ _) as [[stb segsb]|]; cbn [bind]; [|discriminate].
  destruct (layout _) as [[el1 ok]|]; cbn [bind]; [|discriminate].
  destruct ok; cbn [negb]; [|discriminate].
  destruct (el_hdr el1) as [h|]; [|discriminate].
  unfold save_header.
  destruct (os_bad (write _ _)) eqn:B1; cbn [negb]; [discriminate|].
  destruct (sections_plan _ _ _ _ _ _ _ _ _) as [[[st1 secs1] plan_s]|]; cbn [bind]; [|discriminate].
  destruct (os_abort (exec_plan _ plan_s)); [discriminate|].
  destruct (os_bad (exec_plan _ plan_s)) eqn:B2; [discriminate|].
  destruct (os_abort (exec_plan _ (segments_plan _ _ _))); [discriminate|].
  intros [= _ <- H]. now apply negb_true_iff in H.
Qed.
Print Assumptions C16_true_means_stream_good.

(* a stream that is already bad (it could not be opened) makes save() return false at once *)
Theorem C16_unopenable : forall junk el os, os_bad os = true -> exists r, save junk el os = Ok (fst r, snd r, false).
Proof. intros junk el os H. exists (el, os). unfold save. now rewrite H. Qed.
Print Assumptions C16_unopenable.

(* THE FUNCTION save() ITSELF on a sink that accepts k bytes, for objects without segments (the class of
   C03_save_without_segments_end_to_end): with [full] the stream an unlimited sink would end up with - when the
   complete file fits, save() returns true and the sink holds exactly that file; when it does not fit, save() never
   returns true, wherever in the sequence of writes the sink gave up *)
Theorem C16_save_reports_failure_end_to_end :
  forall junk el0 h0 bound k,
    el_hdr el0 = Some h0 -> el_segs el0 = [] -> el_xlat el0 = [] -> el_compr el0 = false ->
    Forall writable (el_secs el0) ->
    bound <= 2 ^ 63 -> Forall (fun s => bound <= 2 ^ xw (s_cls s)) (el_secs el0) ->
    e_ehsize h0 + budget (el_secs el0) + 16 < bound ->
    exists el1 h',
      layout el0 = Ok (el1, true) /\ el_hdr el1 = Some h' /\
      (plan_small 0 (noseg_plan h' (el_secs el1)) ->
       let full := exec_plan (new_ostream None) (noseg_plan h' (el_secs el1)) in
       (os_len full <= k ->
          exists os, save junk el0 (new_ostream (Some k)) = Ok (el1, os, true) /\ os_bytes os = os_bytes full) /\
       (k < os_len full ->
          forall el2 os, save junk el0 (new_ostream (Some k)) <> Ok (el2, os, true))).
Proof. exact save_noseg_capped. Qed.
Print Assumptions C16_save_reports_failure_end_to_end.

(* ... and the same for objects with one segment of automatically addressed members (the class of
   C03_save_with_one_segment_end_to_end): the sink may give up during the ELF header, a section, or the program
   header record that is written last - save() is true exactly when everything fitted *)
Theorem C16_save_reports_failure_end_to_end_one_segment :
  forall junk el h0 g bound ms k,
    let idxs := g_sections g in
    let align := if 0 <? p_align g then p_align g else 1 in
    let secs := el_secs el in
    let pos0 := e_ehsize h0 + e_phentsize h0 in
    el_hdr el = Some h0 -> el_segs el = [g] -> lenN secs < 2 ^ 16 ->
    lenN idxs < 2 ^ 16 -> idxs <> [] -> g_offset_set g = false -> p_type g <> PT_PHDR -> NoDup idxs ->
    Forall2 (fun i s => nth_optN secs i = Some s) idxs ms ->
    Forall auto_member ms -> Forall (fun s => sh_addralign s <= p_align g) ms ->
    bound <= 2 ^ 63 -> Forall (fun s => bound <= 2 ^ xw (s_cls s)) secs -> bound <= 2 ^ xw (g_cls g) ->
    bound <= 2 ^ xw (e_cls h0) -> p_align g < 2 ^ 63 ->
    p_vaddr g + pos0 + align + mbudget ms + budget secs + 16 + e_shentsize h0 * lenN secs < bound ->
    indexed_from 0 secs ->
    (forall s, In s secs -> s_index s = 0 -> csize s = 0) ->
    lenN (e_ident h0) = 16 -> e_ehsize h0 = ehdr_size (e_cls h0) ->
    (forall s, In s secs -> shdr_size (s_cls s) <= e_shentsize h0) ->
    phdr_size (g_cls g) <= e_phentsize h0 -> g_index g = 0 ->
    el_xlat el = [] -> el_compr el = false -> Forall writable secs -> g_loaded g = true ->
    exists el' h' g',
      layout el = Ok (el', true) /\ el_hdr el' = Some h' /\ el_segs el' = [g'] /\
      let plan := oneseg_plan h' (el_secs el') (segments_plan (e_enc h') h' [g']) in
      (plan_small 0 plan ->
       let full := exec_plan (new_ostream None) plan in
       (os_len full <= k ->
          exists os, save junk el (new_ostream (Some k)) = Ok (el', os, true) /\ os_bytes os = os_bytes full) /\
       (k < os_len full ->
          forall el2 os, save junk el (new_ostream (Some k)) <> Ok (el2, os, true))).
Proof. exact save_oneseg_capped. Qed.
Print Assumptions C16_save_reports_failure_end_to_end_one_segment.

(* evaluation (a test, not a theorem): a 144-byte file; a sink of 143 bytes makes save() return false, one of 144 true *)
Definition ex_cap_secs : list section :=
  map (fun s => with_load_flags s false true true)
  [with_index (new_section C32) 0;
   with_index (with_data (with_size (with_addralign (with_type (new_section C32) 1) 4) 5) (Some [1; 2; 3; 4; 5]) 5) 1].
Definition ex_cap_el : elfio := with_secs (with_hdr (empty_elfio false) (Some (new_header C32 LSB))) ex_cap_secs.
Example C16_save_example :
  match save (fun _ => 0) ex_cap_el (new_ostream (Some 143)), save (fun _ => 0) ex_cap_el (new_ostream (Some 144)) with
  | Ok (_, _, ok1), Ok (_, os2, ok2) => ok1 = false /\ ok2 = true /\ lenN (os_bytes os2) = 144
  | _, _ => False
  end.
Proof. vm_compute. repeat split; reflexivity. Qed.

Example C16_example :
  let p := [(0, [1; 2; 3; 4]); (8, [9; 9])] in
  os_bad (exec_plan (new_ostream (Some 9)) p) = true /\ os_bad (exec_plan (new_ostream (Some 10)) p) = false /\
  os_bytes (exec_plan (new_ostream (Some 10)) p) = [1; 2; 3; 4; 0; 0; 0; 0; 9; 9] /\
  in_step 10 (new_ostream (Some 10)) (new_ostream None).
Proof. vm_compute. repeat split; try reflexivity; discriminate. Qed.
