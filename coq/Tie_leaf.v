(* Tie_leaf.v — tie A, part 2: the leaf functions translated from the clang AST
   of /repo (Gen_leaf.v, regenerated on every run) equal the model's. *)
From Coq Require Import NArith Bool.
From ElfioV Require Import Bytes Mem Stream SectionData Strings Elfio Table Accessors Loader Layout Writer Leaf_ops Gen_leaf.
Local Open Scope N_scope.

Lemma tie_elf_hash_init : gen_elf_hash_init_h = 0.
Proof. reflexivity. Qed.

(* the loop body of elf_hash: the model's step for every state and byte (the
   variable g is overwritten before it is read, so its incoming value is irrelevant) *)
Lemma tie_elf_hash_step : forall h g c, gen_elf_hash_step h g c = elf_hash_step h c.
Proof.
  intros h g c. unfold gen_elf_hash_step, elf_hash_step, uadd, ushl, unot, wrap32.
  rewrite N.shiftl_mul_pow2. change (2 ^ 4) with 16. change (N.ones 32) with 4294967295.
  destruct (N.land (wrap 32 (wrap 32 (h * 16) + c)) 4026531840 =? 0); reflexivity.
Qed.

(* elf_hash of a byte string = fold of the generated step from the generated initial value *)
Theorem tie_elf_hash : forall name, elf_hash name = fold_left (fun h c => gen_elf_hash_step h 0 c) name gen_elf_hash_init_h.
Proof.
  intro name. unfold elf_hash, gen_elf_hash_init_h. generalize 0 at 1 3. induction name as [|c t IH]; intro h; cbn [fold_left]; [reflexivity|].
  rewrite tie_elf_hash_step. apply IH.
Qed.

Lemma tie_gnu_hash_step : forall h c, gen_elf_gnu_hash_step h c = gnu_hash_step h c.
Proof.
  intros h c. unfold gen_elf_gnu_hash_step, gnu_hash_step, uadd, ushl, wrap32.
  rewrite N.shiftl_mul_pow2. reflexivity.
Qed.
Theorem tie_gnu_hash : forall name, elf_gnu_hash name = fold_left gen_elf_gnu_hash_step name gen_elf_gnu_hash_init_h.
Proof.
  intro name. unfold elf_gnu_hash, gen_elf_gnu_hash_init_h. generalize 5381. induction name as [|c t IH]; intro h; cbn [fold_left]; [reflexivity|].
  rewrite tie_gnu_hash_step. apply IH.
Qed.

Theorem tie_is_sect_in_seg : forall a b c d, gen_is_sect_in_seg a b c d = is_sect_in_seg a b c d.
Proof. reflexivity. Qed.

Theorem tie_is_offset_in_section : forall offset s,
  gen_is_offset_in_section offset (sh_offset s) (sh_size s) = is_offset_in_section offset s.
Proof. reflexivity. Qed.

Theorem tie_get_virtual_addr : forall offset s,
  gen_get_virtual_addr offset (sh_addr s) (sh_offset s) = get_virtual_addr offset s.
Proof. reflexivity. Qed.

(* relocation info unpacking: get_sym_and_type<T>::get_r_sym / get_r_type for the four entry types *)
From Coq Require Import Lia ZifyBool ZifyN.
Lemma wrap_small' w v : v < 2 ^ w -> wrap w v = v.
Proof. intros H. unfold wrap. now apply N.mod_small. Qed.
Lemma wrap_lt' w v : wrap w v < 2 ^ w.
Proof. unfold wrap. apply N.mod_lt. apply N.pow_nonzero. discriminate. Qed.

Theorem tie_r_sym_32 : forall info, gen_get_r_sym_Elf32_Rel info = r_sym C32 info /\ gen_get_r_sym_Elf32_Rela info = r_sym C32 info.
Proof.
  intro info. unfold gen_get_r_sym_Elf32_Rel, gen_get_r_sym_Elf32_Rela, r_sym, wrap32.
  assert (H : N.shiftr (wrap 32 info) 8 < 2 ^ 32).
  { rewrite N.shiftr_div_pow2. pose proof (wrap_lt' 32 info). apply N.le_lt_trans with (wrap 32 info); [|exact H].
    apply N.div_le_upper_bound; [discriminate|]. change (2 ^ 8) with 256. lia. }
  rewrite (wrap_small' 32 _ H). split; reflexivity.
Qed.

Theorem tie_r_type_32 : forall info, gen_get_r_type_Elf32_Rel info = r_type C32 info /\ gen_get_r_type_Elf32_Rela info = r_type C32 info.
Proof.
  intro info. unfold gen_get_r_type_Elf32_Rel, gen_get_r_type_Elf32_Rela, r_type, wrap8.
  assert (E : wrap 8 (wrap 32 info) = wrap 8 info).
  { unfold wrap. change (2 ^ 32) with (2 ^ 8 * 2 ^ 24). rewrite N.mod_mul_r by discriminate.
    rewrite N.mul_comm, N.mod_add by discriminate. apply N.mod_mod. discriminate. }
  rewrite E. assert (H : wrap 8 info < 2 ^ 32) by (pose proof (wrap_lt' 8 info); change (2 ^ 8) with 256 in *; change (2 ^ 32) with 4294967296; lia).
  rewrite (wrap_small' 32 _ H). split; reflexivity.
Qed.

Theorem tie_r_sym_64 : forall info, gen_get_r_sym_Elf64_Rel info = r_sym C64 info /\ gen_get_r_sym_Elf64_Rela info = r_sym C64 info.
Proof. intro info. split; reflexivity. Qed.

Theorem tie_r_type_64 : forall info, gen_get_r_type_Elf64_Rel info = r_type C64 info /\ gen_get_r_type_Elf64_Rela info = r_type C64 info.
Proof.
  intro info. unfold gen_get_r_type_Elf64_Rel, gen_get_r_type_Elf64_Rela, r_type, wrap32.
  change 4294967295 with (N.ones 32). rewrite land_ones_mod. fold (wrap 32 info).
  unfold wrap. rewrite N.mod_mod by discriminate. split; reflexivity.
Qed.
