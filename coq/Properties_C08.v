(* Properties_C08.v — C08: string tables.  Statements only; proofs in Strings_proofs.v. *)
From ElfioV Require Import Bytes Mem SectionData SectionData_proofs Strings Strings_proofs.
Local Open Scope N_scope.

(* Adding a string to a table (whose data is resident) returns an index that
   retrieves exactly that string, keeps every earlier answer, and makes index 0
   the empty string if the table was empty. *)
Theorem C08_added_string_retrievable :
  forall (junk : N -> N) (xlat_empty : bool) (s : section) (str : bytes),
    Inv s -> nul_free str -> sh_size s + lenN str + 2 < 2 ^ 32 ->
    exists s' idx, add_string junk xlat_empty s str = Ok (s', idx) /\ Inv s' /\
      get_string s' idx = Ok (Some str) /\
      (forall j t, get_string s j = Ok (Some t) -> get_string s' j = Ok (Some t)) /\
      (sh_size s = 0 -> get_string s' 0 = Ok (Some [])) /\
      sh_size s' <= (if sh_size s =? 0 then 1 else sh_size s) + lenN str + 1.
Proof. exact add_string_retrievable. Qed.
Print Assumptions C08_added_string_retrievable.

(* Any index on any table content: null, or a NUL-terminated string lying
   wholly inside the section; never a fault. *)
Theorem C08_lookup_safe :
  forall (b : bytes) (size i : N),
    size <= lenN b ->
    get_string_raw (Some b) size i = Ok None \/
    exists t, get_string_raw (Some b) size i = Ok (Some t) /\
      i + lenN t < size /\ nul_free t /\ sliceN b i (lenN t + 1) = t ++ [0].
Proof. exact lookup_safe. Qed.
Print Assumptions C08_lookup_safe.

Theorem C08_lookup_null_data : forall size i, get_string_raw None size i = Ok None.
Proof. exact lookup_null_safe. Qed.
Print Assumptions C08_lookup_null_data.

(* later appends of any bytes never disturb an existing string *)
Theorem C08_later_adds_preserve :
  forall c r i t, gs_c c i = Some t -> gs_c (c ++ r) i = Some t.
Proof. exact gs_c_app. Qed.
Print Assumptions C08_later_adds_preserve.

Example C08_example :
  match add_string (fun _ => 0) true (with_type (new_section C32) 3) [102; 111; 111] with
  | Ok (s1, i1) =>
      match add_string (fun _ => 0) true s1 [98; 97] with
      | Ok (s2, i2) => (i1, i2, get_string s2 i1, get_string s2 i2, get_string s2 0, get_string s2 7)
      | Fault _ => (0, 0, Ok None, Ok None, Ok None, Ok None)
      end
  | Fault _ => (0, 0, Ok None, Ok None, Ok None, Ok None)
  end = (1, 5, Ok (Some [102; 111; 111]), Ok (Some [98; 97]), Ok (Some []), Ok (Some [])).
Proof. vm_compute. reflexivity. Qed.
