(* Stream_proofs.v — output-stream algebra for C16: a sink with a byte
   capacity reports failure exactly when the complete output does not fit. *)
From ElfioV Require Import Bytes Mem Stream.
From Coq Require Import ZifyBool ZifyN ZifyNat.
Local Open Scope N_scope.

(* the capped stream [sc] has so far behaved exactly like the unlimited one [su] *)
Definition in_step (k : N) (sc su : ostream) : Prop :=
  os_cap sc = Some k /\ os_cap su = None /\
  os_bad sc = false /\ os_bad su = false /\ os_abort sc = false /\ os_abort su = false /\
  os_pieces sc = os_pieces su /\ os_len sc = os_len su /\ os_pos sc = os_pos su /\ os_len su <= k.

(* the capped stream has failed; the unlimited one has grown beyond the capacity *)
Definition overflowed (k : N) (sc su : ostream) : Prop :=
  os_bad sc = true /\ os_cap su = None /\ os_bad su = false /\ k < os_len su.

Definition no_huge_pad (su : ostream) (off : N) : Prop := off < os_len su + 2147483648.

Lemma bad_sticky_write s bs : os_bad s = true -> os_bad (write s bs) = true.
Proof. intros H. unfold write. now rewrite H. Qed.

Lemma seekp_end_bad s : os_bad s = true -> seekp_end s = s.
Proof. intros H. unfold seekp_end. now rewrite H. Qed.
Lemma seekp_bad s p : os_bad s = true -> seekp s p = s.
Proof. intros H. unfold seekp. now rewrite H. Qed.
Lemma pad_to_bad s off : os_bad s = true -> pad_to s off = s.
Proof. intros H. unfold pad_to. now rewrite H. Qed.

Lemma bad_sticky_adjust s off : os_bad s = true -> os_bad (adjust_stream_size s off) = true.
Proof.
  intros H. unfold adjust_stream_size.
  destruct (os_abort s); [assumption|].
  rewrite (seekp_end_bad s H).
  destruct ((tellp s <? Z.of_N off)%Z && (2147483648 <=? Z.to_N (Z.of_N off - tellp s))); [exact H|].
  destruct (tellp s <? Z.of_N off)%Z; rewrite ?(pad_to_bad s off H), (seekp_bad s off H); exact H.
Qed.

Lemma len_mono_write s bs : os_cap s = None -> os_len s <= os_len (write s bs).
Proof.
  intros Hc. unfold write. destruct (os_bad s || os_abort s); [lia|].
  destruct (lenN bs =? 0); [lia|]. rewrite Hc. cbn [os_len]. lia.
Qed.

Lemma cap_write s bs : os_cap (write s bs) = os_cap s.
Proof.
  unfold write. destruct (os_bad s || os_abort s); [reflexivity|].
  destruct (lenN bs =? 0); [reflexivity|].
  destruct (os_cap s) as [c|]; [|reflexivity].
  destruct (N.max (os_len s) (os_pos s + lenN bs) <=? c); reflexivity.
Qed.

Lemma cap_seekp s p : os_cap (seekp s p) = os_cap s.
Proof. unfold seekp. destruct (os_bad s); reflexivity. Qed.
Lemma cap_seekp_end s : os_cap (seekp_end s) = os_cap s.
Proof. unfold seekp_end. destruct (os_bad s); reflexivity. Qed.
Lemma cap_pad_to s off : os_cap (pad_to s off) = os_cap s.
Proof.
  unfold pad_to. destruct (os_bad s || os_abort s); [reflexivity|].
  destruct (os_cap s) as [c|]; [destruct (off <=? c)|]; reflexivity.
Qed.

Lemma cap_adjust s off : os_cap (adjust_stream_size s off) = os_cap s.
Proof.
  unfold adjust_stream_size. destruct (os_abort s); [reflexivity|].
  destruct ((tellp (seekp_end s) <? Z.of_N off)%Z && _); [reflexivity|].
  rewrite cap_seekp. destruct (tellp (seekp_end s) <? Z.of_N off)%Z; rewrite ?cap_pad_to; apply cap_seekp_end.
Qed.

(* ---- one step of the simulation ---- *)
Lemma write_sim k sc su bs :
  in_step k sc su ->
  let sc' := write sc bs in let su' := write su bs in
  (os_len su' <= k -> in_step k sc' su') /\ (k < os_len su' -> overflowed k sc' su').
Proof.
  intros (Hcc & Hcu & Hbc & Hbu & Hac & Hau & Hp & Hl & Hpos & Hle). cbv zeta.
  unfold write. rewrite Hbc, Hbu, Hac, Hau, Hcc, Hcu, Hp, Hl, Hpos. cbn [orb].
  destruct (N.eqb_spec (lenN bs) 0) as [E0|E0].
  - split; [intros _|lia]. repeat split; assumption.
  - cbn [os_len].
    destruct (N.leb_spec (N.max (os_len su) (os_pos su + lenN bs)) k) as [Hfit|Hno].
    + split; [intros _|lia]. repeat split; cbn; try reflexivity; try assumption.
    + split; [cbn; lia|intros _]. repeat split; cbn; try reflexivity; try assumption.
Qed.

Lemma adjust_sim k sc su off :
  in_step k sc su -> no_huge_pad su off ->
  let sc' := adjust_stream_size sc off in let su' := adjust_stream_size su off in
  (os_len su' <= k -> in_step k sc' su') /\ (k < os_len su' -> overflowed k sc' su').
Proof.
  intros (Hcc & Hcu & Hbc & Hbu & Hac & Hau & Hp & Hl & Hpos & Hle) Hpad. cbv zeta.
  unfold no_huge_pad in Hpad.
  unfold adjust_stream_size. rewrite Hac, Hau.
  unfold seekp_end, tellp. rewrite Hbc, Hbu. cbn [os_bad os_len os_pos os_pieces os_cap os_abort].
  rewrite Hl.
  destruct (Z.ltb_spec (Z.of_N (os_len su)) (Z.of_N off)) as [Hlt|Hge].
  - assert (Hsmall : (2147483648 <=? Z.to_N (Z.of_N off - Z.of_N (os_len su))) = false).
    { apply N.leb_gt. lia. }
    rewrite Hsmall. cbn [andb].
    unfold pad_to. cbn [os_bad os_abort orb os_cap os_pieces os_len]. rewrite ?Hac, ?Hau, Hcc, Hcu. cbn [orb].
    destruct (N.leb_spec off k) as [Hfit|Hno]; unfold seekp; cbn [os_bad os_pieces os_len os_cap os_abort os_pos].
    + split; [intros _|intros Hx; cbn in Hx; lia]. repeat split; cbn; try reflexivity; try assumption; try lia.
    + split; [intros Hx; cbn in Hx; lia|intros _]. repeat split; cbn; try reflexivity; try lia.
  - cbn [andb]. unfold seekp. cbn [os_bad os_pieces os_len os_cap os_abort os_pos]. rewrite Hp.
    split; [intros _|intros Hx; cbn in Hx; lia]. repeat split; cbn; try reflexivity; try assumption.
Qed.

Lemma overflowed_write k sc su bs : overflowed k sc su -> overflowed k (write sc bs) (write su bs).
Proof.
  intros (Hb & Hc & Hbu & Hk). repeat split.
  - now apply bad_sticky_write.
  - now rewrite cap_write.
  - unfold write. rewrite Hbu. cbn [orb]. destruct (os_abort su); [assumption|].
    destruct (lenN bs =? 0); [assumption|]. rewrite Hc. reflexivity.
  - pose proof (len_mono_write su bs Hc). lia.
Qed.

Lemma len_mono_adjust s off : os_cap s = None -> os_bad s = false -> os_len s <= os_len (adjust_stream_size s off).
Proof.
  intros Hc Hb. unfold adjust_stream_size. destruct (os_abort s) eqn:Ha; [lia|].
  unfold seekp_end, tellp. rewrite Hb. cbn [os_bad os_pos os_len].
  destruct (Z.ltb_spec (Z.of_N (os_len s)) (Z.of_N off)) as [Hlt|Hge]; cbn [andb].
  - destruct (2147483648 <=? _); cbn [os_len]; [lia|].
    unfold pad_to, seekp. cbn [os_bad os_abort orb os_cap]. rewrite Ha, Hc. cbn [os_bad os_len]. lia.
  - unfold seekp. cbn [os_bad os_len]. lia.
Qed.

Lemma bad_adjust_uncapped s off : os_cap s = None -> os_bad s = false -> os_bad (adjust_stream_size s off) = false.
Proof.
  intros Hc Hb. unfold adjust_stream_size. destruct (os_abort s) eqn:Ha; [assumption|].
  unfold seekp_end, tellp. rewrite Hb. cbn [os_bad os_pos os_len].
  destruct (Z.ltb_spec (Z.of_N (os_len s)) (Z.of_N off)); cbn [andb].
  - destruct (2147483648 <=? _); cbn [os_bad]; [try assumption; reflexivity|].
    unfold pad_to, seekp. cbn [os_bad os_abort orb os_cap]. rewrite Ha, Hc. reflexivity.
  - unfold seekp. cbn [os_bad]. reflexivity.
Qed.

Lemma overflowed_adjust k sc su off : overflowed k sc su -> overflowed k (adjust_stream_size sc off) (adjust_stream_size su off).
Proof.
  intros (Hb & Hc & Hbu & Hk). repeat split.
  - now apply bad_sticky_adjust.
  - now rewrite cap_adjust.
  - now apply bad_adjust_uncapped.
  - pose proof (len_mono_adjust su off Hc Hbu). lia.
Qed.

(* every padding request of the plan stays below 2 GiB (otherwise std::string throws) *)
Fixpoint plan_no_huge (su : ostream) (p : list (N * bytes)) : Prop :=
  match p with
  | [] => True
  | w :: t => no_huge_pad su (fst w) /\ plan_no_huge (exec_write su w) t
  end.

Lemma exec_plan_overflowed k p : forall sc su, overflowed k sc su -> overflowed k (exec_plan sc p) (exec_plan su p).
Proof.
  induction p as [|w t IH]; intros sc su H; cbn [exec_plan fold_left]; [assumption|].
  apply IH. unfold exec_write. now apply overflowed_write, overflowed_adjust.
Qed.

Theorem exec_plan_sim k p : forall sc su,
  in_step k sc su -> plan_no_huge su p ->
  (os_len (exec_plan su p) <= k -> in_step k (exec_plan sc p) (exec_plan su p)) /\
  (k < os_len (exec_plan su p) -> overflowed k (exec_plan sc p) (exec_plan su p)).
Proof.
  induction p as [|w t IH]; intros sc su HS HP; cbn [exec_plan fold_left].
  - destruct HS as (? & ? & ? & ? & ? & ? & ? & ? & ? & Hle). split; [intros _|lia]. repeat split; assumption.
  - destruct HP as [Hpad HP].
    destruct (adjust_sim k sc su (fst w) HS Hpad) as [A1 A2]. cbv zeta in A1, A2.
    set (sc1 := adjust_stream_size sc (fst w)) in *. set (su1 := adjust_stream_size su (fst w)) in *.
    fold (exec_plan (exec_write sc w) t). fold (exec_plan (exec_write su w) t).
    destruct (N.le_gt_cases (os_len su1) k) as [H1|H1].
    + specialize (A1 H1).
      destruct (write_sim k sc1 su1 (snd w) A1) as [W1 W2]. cbv zeta in W1, W2.
      change (write sc1 (snd w)) with (exec_write sc w) in *. change (write su1 (snd w)) with (exec_write su w) in *.
      destruct (N.le_gt_cases (os_len (exec_write su w)) k) as [H2|H2].
      * exact (IH _ _ (W1 H2) HP).
      * pose proof (exec_plan_overflowed k t _ _ (W2 H2)) as O.
        destruct O as (_ & _ & _ & Hk). split; [lia|]. intros _. apply exec_plan_overflowed. exact (W2 H2).
    + specialize (A2 H1).
      assert (O1 : overflowed k (exec_write sc w) (exec_write su w)) by (apply overflowed_write; exact A2).
      pose proof (exec_plan_overflowed k t _ _ O1) as O.
      destruct O as (_ & _ & _ & Hk). split; [lia|]. intros _. now apply exec_plan_overflowed.
Qed.
