(* Layout.v — elfio::save, part 1: the file-layout algorithm.
   elfio.hpp:246-279 (save), 737-1047 (is_section_without_segment,
   is_subsequence_of, get_ordered_segments, layout_sections_without_segments,
   calc_segment_alignment, layout_segments_and_their_sections,
   layout_section_table, write_segment_data). *)
From ElfioV Require Import Bytes Mem Stream SectionData Strings Elfio Table Loader.
Local Open Scope N_scope.

Definition sub64 (a b : N) : N := wrap64 (a + (2 ^ 64 - wrap64 b)).
Definition add64 (a b : N) : N := wrap64 (a + b).

(* calc_segment_alignment — sections_[ index ] is an unchecked vector access *)
Definition calc_seg_align (secs : list section) (g : segment) : res segment :=
  fold_left
    (fun acc idx =>
       g0 <- acc ;;
       match nth_optN secs idx with
       | None => Fault OobRead
       | Some s => Ok (if p_align g0 <? sh_addralign s then seg_set g0 GAlign (sh_addralign s) else g0)
       end)
    (firstnN (g_sections g) (seg_sections_num g)) (Ok g).

(* std::includes( first1, last1, first2, last2 ) as libstdc++ implements it *)
Fixpoint includes (fuel : nat) (l1 l2 : list N) : bool :=
  match fuel with
  | O => match l2 with [] => true | _ => false end
  | S f =>
      match l1, l2 with
      | x1 :: t1, x2 :: t2 =>
          if x2 <? x1 then false
          else if x1 <? x2 then includes f t1 l2 else includes f t1 t2
      | _, [] => true
      | [], _ :: _ => false
      end
  end.

(* is_subsequence_of( seg1, seg2 ) *)
Definition is_subsequence_of (g1 g2 : segment) : bool :=
  (lenN (g_sections g1) <? lenN (g_sections g2)) &&
  includes (length (g_sections g2)) (g_sections g2) (g_sections g1).

(* bring the segments that start at file offset 0 to the front — elfio.hpp:788-799;
   the worklist holds positions into the segment list *)
Fixpoint front_zero (fuel : nat) (segs : list segment) (wl : list N) (i next : N) : list N :=
  match fuel with
  | O => wl
  | S f =>
      if i <? lenN wl then
        let gi := nth_optN segs (nthN wl i 0) in
        match gi with
        | Some g =>
            if negb (i =? next) && g_offset_set g && (p_offset g =? 0) then
              let next1 := match nth_optN segs (nthN wl next 0) with
                           | Some gn => if p_offset gn =? 0 then next + 1 else next
                           | None => next end in
              let a := nthN wl i 0 in
              let b := nthN wl next1 0 in
              let wl1 := updN (updN wl i b) next1 a in
              front_zero f segs wl1 (i + 1) (next1 + 1)
            else front_zero f segs wl (i + 1) next
        | None => front_zero f segs wl (i + 1) next
        end
      else wl
  end.

(* the worklist loop: a segment whose section list is a subsequence of
   another one still waiting is deferred behind it *)
Fixpoint order_loop (fuel : nat) (segs : list segment) (wl : list N) (acc : list N) : res (list N) :=
  match wl with
  | [] => Ok acc
  | k :: rest =>
      match fuel with
      | O => Fault Hang
      | S f =>
          match nth_optN segs k with
          | None => Fault OobRead
          | Some g =>
              if existsb (fun k2 => match nth_optN segs k2 with
                                    | Some g2 => is_subsequence_of g g2
                                    | None => false end) rest
              then order_loop f segs (rest ++ [k]) acc
              else order_loop f segs rest (acc ++ [k])
          end
      end
  end.

Definition get_ordered_segments (segs : list segment) : res (list N) :=
  let n := length segs in
  let wl0 := iotaN (lenN segs) in
  let wl1 := front_zero n segs wl0 0 0 in
  order_loop (n * n + n + 1) segs wl1 [].

(* is_section_without_segment( i ) *)
Definition sec_without_segment (segs : list segment) (i : N) : bool :=
  negb (existsb (fun g => existsb (fun x => x =? i) (firstnN (g_sections g) (seg_sections_num g))) segs).

(* vector<bool> section_generated *)
Definition gen_get (gen : list bool) (i : N) : res bool :=
  match nth_optN gen i with Some b => Ok b | None => Fault OobRead end.
Definition gen_set (gen : list bool) (i : N) : list bool := updN gen i true.

Record wstate := mkW {
  ws_secs : list section;
  ws_gen : list bool;
  ws_pos : N;            (* current_file_pos *)
  ws_mem : N;            (* segment_memory *)
  ws_fsz : N             (* segment_filesize *)
}.

(* one iteration of the loop in write_segment_data; None = "return false" *)
Definition write_seg_step (g : segment) (seg_start : N) (w : wstate) (index : N) : res (option wstate) :=
  match nth_optN (ws_secs w) index with
  | None => Fault NullDeref              (* sections[index] is nullptr *)
  | Some sec =>
      if sh_type sec =? SHT_NULL then
        Ok (Some (mkW (ws_secs w) (gen_set (ws_gen w) index) (ws_pos w) (ws_mem w) (ws_fsz w)))
      else
        generated <- gen_get (ws_gen w) index ;;
        let addr_init := s_addr_set sec in
        r <- (if negb generated && addr_init && negb (sh_type sec =? SHT_NOBITS) && negb (sh_size sec =? 0) then
                let req := sub64 (sh_addr sec) (p_vaddr g) in
                let cur := sub64 (ws_pos w) seg_start in
                if req <? cur then Ok None else Ok (Some (sub64 req cur))
              else if negb generated && negb addr_init then
                let align := if sh_addralign sec =? 0 then 1 else sh_addralign sec in
                let error := ws_pos w mod align in
                Ok (Some ((align - error) mod align))
              else if generated then
                Ok (Some (sub64 (sub64 (sh_offset sec) seg_start) (ws_fsz w)))
              else Ok (Some 0)) ;;
        match r with
        | None => Ok None
        | Some section_align =>
            let alloc := N.land (sh_flags sec) SHF_ALLOC =? SHF_ALLOC in
            let tls := N.land (sh_flags sec) SHF_TLS =? SHF_TLS in
            let mem1 := if alloc && negb (tls && negb (p_type g =? PT_TLS) && (sh_type sec =? SHT_NOBITS))
                        then add64 (ws_mem w) (add64 (sh_size sec) section_align) else ws_mem w in
            let fsz1 := if negb (sh_type sec =? SHT_NOBITS)
                        then add64 (ws_fsz w) (add64 (sh_size sec) section_align) else ws_fsz w in
            if generated then Ok (Some (mkW (ws_secs w) (ws_gen w) (ws_pos w) mem1 fsz1))
            else
              let pos1 := add64 (ws_pos w) section_align in
              let sec1 := if addr_init then sec
                          else with_addr sec (sub64 (add64 (p_vaddr g) pos1) seg_start) in
              let sec2 := if s_index sec1 =? 0 then sec1 else with_offset sec1 pos1 in
              let pos2 := if negb (sh_type sec2 =? SHT_NOBITS) then add64 pos1 (sh_size sec2) else pos1 in
              Ok (Some (mkW (updN (ws_secs w) index sec2) (gen_set (ws_gen w) index) pos2 mem1 fsz1))
        end
  end.

(* returns the state reached and whether the loop ran to completion *)
Fixpoint write_segment_data (g : segment) (seg_start : N) (idxs : list N) (w : wstate) : res (wstate * bool) :=
  match idxs with
  | [] => Ok (w, true)
  | index :: t =>
      r <- write_seg_step g seg_start w index ;;
      match r with
      | None => Ok (w, false)
      | Some w1 => write_segment_data g seg_start t w1
      end
  end.

(* the body of the loop in layout_segments_and_their_sections for one segment *)
Definition layout_one_segment (h : ehdr) (g : segment) (secs : list section) (gen : list bool) (pos : N)
  : res (segment * list section * list bool * N * bool) :=
  let idxs := firstnN (g_sections g) (seg_sections_num g) in
  let nsec := seg_sections_num g in
  '(seg_start, pos1, mem0, fsz0) <-
    (if (p_type g =? PT_PHDR) && (nsec =? 0) then
       Ok (e_phoff h, pos, wrap64 (e_phentsize h * e_phnum h), wrap64 (e_phentsize h * e_phnum h))
     else if g_offset_set g && (p_offset g =? 0) then
       Ok (0, pos, (if 0 <? nsec then pos else 0), (if 0 <? nsec then pos else 0))
     else if 0 <? nsec then
       first_gen <- gen_get gen (seg_section_at g 0) ;;
       if negb first_gen then
         let align := if 0 <? p_align g then p_align g else 1 in
         let cur_page := pos mod align in
         let req_page := p_vaddr g mod align in
         let adjustment := sub64 req_page cur_page in
         let pos1 := add64 pos ((add64 (p_align g) adjustment) mod align) in
         Ok (pos1, pos1, 0, 0)
       else
         match nth_optN secs (seg_section_at g 0) with
         | None => Fault NullDeref
         | Some s0 => Ok (sh_offset s0, pos, 0, 0)
         end
     else Ok (pos, pos, 0, 0)) ;;
  '(w, ok) <- write_segment_data g seg_start idxs (mkW secs gen pos1 mem0 fsz0) ;;
  if ok then
    let g1 := seg_set g GFilesz (ws_fsz w) in
    let g2 := if p_memsz g1 <? ws_mem w then seg_set g1 GMemsz (ws_mem w) else g1 in
    let g3 := seg_set g2 GOffset seg_start in
    Ok (g3, ws_secs w, ws_gen w, ws_pos w, true)
  else Ok (g, ws_secs w, ws_gen w, ws_pos w, false).

Fixpoint layout_segments (h : ehdr) (order : list N) (segs : list segment) (secs : list section)
         (gen : list bool) (pos : N) : res (list segment * list section * N * bool) :=
  match order with
  | [] => Ok (segs, secs, pos, true)
  | k :: t =>
      match nth_optN segs k with
      | None => Fault OobRead
      | Some g =>
          '(g1, secs1, gen1, pos1, ok) <- layout_one_segment h g secs gen pos ;;
          if ok then layout_segments h t (updN segs k g1) secs1 gen1 pos1
          else Ok (updN segs k g1, secs1, pos1, false)
      end
  end.

(* layout_sections_without_segments *)
Fixpoint layout_free_sections (segs : list segment) (secs : list section) (i : N) (todo : list section) (pos : N)
  : list section * N :=
  match todo with
  | [] => (secs, pos)
  | sec :: t =>
      if sec_without_segment segs i then
        let align := sh_addralign sec in
        let pos1 := if (1 <? align) && negb (pos mod align =? 0) then add64 pos (align - pos mod align) else pos in
        let sec1 := if s_index sec =? 0 then sec else with_offset sec pos1 in
        let pos2 := if negb (sh_type sec1 =? SHT_NOBITS) && negb (sh_type sec1 =? SHT_NULL)
                    then add64 pos1 (sh_size sec1) else pos1 in
        layout_free_sections segs (updN secs i sec1) (i + 1) t pos2
      else layout_free_sections segs secs (i + 1) t pos
  end.

(* the layout half of save(): None = "is_still_good == false" before writing *)
Definition layout (el : elfio) : res (elfio * bool) :=
  match el_hdr el with
  | None => Ok (el, false)
  | Some h0 =>
      let nseg := wrap16 (lenN (el_segs el)) in
      let nsec := wrap16 (lenN (el_secs el)) in
      let h1 := hdr_set h0 HPhnum nseg in
      let h2 := hdr_set h1 HPhoff (if 0 <? nseg then e_ehsize h1 else 0) in
      let h3 := hdr_set h2 HShnum nsec in
      let h4 := hdr_set h3 HShoff 0 in
      let pos0 := add64 (e_ehsize h4) (wrap64 (e_phentsize h4 * e_phnum h4)) in
      segs1 <- map_res (calc_seg_align (el_secs el)) (el_segs el) ;;
      order <- get_ordered_segments segs1 ;;
      let gen0 := repeatN false nsec in
      '(segs2, secs2, pos1, ok) <- layout_segments h4 order segs1 (el_secs el) gen0 pos0 ;;
      if ok then
        let '(secs3, pos2) := layout_free_sections segs2 secs2 0 secs2 pos1 in
        let pos3 := add64 pos2 (16 - pos2 mod 16) in
        let h5 := hdr_set h4 HShoff pos3 in
        Ok (mkElfio (Some h5) secs3 segs2 (el_xlat el) pos3 (el_compr el) (el_stream el), true)
      else
        (* a section would have to be placed backwards: save() gives up *)
        Ok (mkElfio (Some h4) secs2 segs2 (el_xlat el) pos1 (el_compr el) (el_stream el), false)
  end.
