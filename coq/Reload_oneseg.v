(* Reload_oneseg.v — C02/C05: a program header entry is reported field by field through segment::load and the
   loop of load_segments (with the membership pass); then, for the file a save() of a one-segment object wrote,
   what a load of that file reports: every section header and the segment - same type, flags, addresses, sizes,
   alignment, and the same member list. *)
From ElfioV Require Import Bytes Mem Stream SectionData Strings Elfio Table Loader Layout Writer Load_proofs Data_proofs
     Ostream_proofs Codec_proofs Reader_proofs Layout_proofs Segment_proofs Writer_proofs Oneseg_proofs Oneseg_writer
     Oneseg_members Roundtrip_proofs.
From Coq Require Import ZifyBool ZifyN ZifyNat Sorted.
Local Open Scope N_scope.

Definition same_phdr (g r : segment) : Prop :=
  p_type r = p_type g /\ p_flags r = p_flags g /\ p_offset r = p_offset g /\ p_vaddr r = p_vaddr g /\
  p_paddr r = p_paddr g /\ p_filesz r = p_filesz g /\ p_memsz r = p_memsz g /\ p_align r = p_align g.

Section WithEnv.
  Variable junk : N -> N.

  (* segment::load of one table entry (lazy) *)
  Theorem segment_load_reports_lazy st enc c (pos : N) g' :
    is_fail st = false -> st_inv st -> pos < 2 ^ 63 -> pos + phdr_size c <= lenN (is_content st) ->
    g_cls g' = c -> phdr_wf g' ->
    sliceN (is_content st) pos (phdr_size c) = phdr_bytes enc g' ->
    exists st' r,
      segment_load st [] enc (new_segment c) (Z.of_N pos) true = Ok (st', r, true, []) /\
      is_fail st' = false /\ st_inv st' /\ is_content st' = is_content st /\
      same_phdr g' r /\ g_sections r = [] /\ g_cls r = c /\ g_data r = None.
  Proof.
    intros Hf Hi Hp Hin Hc Hwf Hsl. unfold segment_load. cbn [xlat_empty xlat_apply].
    assert (E1 : seekg_end st = mkIstream (is_kind st) (is_content st) (is_len st) false (is_len st)).
    { unfold seekg_end. now rewrite Hf. }
    rewrite E1. set (st1 := mkIstream (is_kind st) (is_content st) (is_len st) false (is_len st)).
    assert (Hz : Z.of_N pos = to_signed64 pos).
    { unfold to_signed64. rewrite N.mod_small by lia. destruct (N.ltb_spec pos (2 ^ 63)); lia. }
    rewrite Hz. change (g_cls (new_segment c)) with c.
    destruct (seek_read st1 pos (phdr_size c) eq_refl Hi Hp Hin) as [R1 R2].
    destruct (read (seekg st1 (to_signed64 pos)) (phdr_size c)) as [st3 got] eqn:ER. cbn [fst snd] in R1, R2.
    change (is_content st1) with (is_content st) in R1. subst got. rewrite Hsl.
    assert (FS : fill_struct (phdr_bytes enc (new_segment c)) (phdr_bytes enc g') = phdr_bytes enc g').
    { unfold fill_struct. rewrite skipnN_all; [apply app_nil_r|]. rewrite !lenN_phdr_bytes, Hc. cbn. lia. }
    rewrite FS. cbn [orb].
    destruct (phdr_roundtrip enc (new_segment c) g' (tellg_size st1) true ltac:(cbn; congruence) Hwf)
      as (A1 & A2 & A3 & A4 & A5 & A6 & A7 & A8). cbv zeta in *.
    eexists st3, _. split; [reflexivity|].
    pose proof (read_content (seekg st1 (to_signed64 pos)) (phdr_size c)) as (M1 & M2 & M3). rewrite ER in M1, M2, M3. cbn [fst] in *.
    pose proof (seekg_content st1 (to_signed64 pos)) as (N1 & N2 & N3).
    split; [exact R2|]. split; [unfold st_inv in *; cbn in *; congruence|]. split; [cbn in *; congruence|].
    split; [unfold same_phdr; repeat split; assumption|].
    unfold seg_of_raw. cbn [g_cls new_segment]. destruct c; cbn; auto.
  Qed.

  (* membership depends on the reported fields only *)
  Lemma member_spec_same g r s x : same_phdr g r -> same_hdr s x -> member_spec r x = member_spec g s.
  Proof.
    intros (G1 & G2 & G3 & G4 & G5 & G6 & G7 & G8) (_ & _ & S3 & S4 & S5 & S6 & _).
    unfold member_spec. rewrite G1, G3, G4, G6, G7, S3, S4, S5, S6. reflexivity.
  Qed.

  Lemma seg_members_same g r : forall secs loaded,
    same_phdr g r -> Forall2 (fun s x => same_hdr s x /\ s_index x = s_index s) secs loaded ->
    seg_members r loaded = seg_members g secs.
  Proof.
    intros secs loaded Hg HF. rewrite !seg_members_exact.
    induction HF as [|s x t t' [Hs Hi] HF IH]; [reflexivity|]. cbn [filter].
    rewrite (member_spec_same g r s x Hg Hs). destruct (member_spec g s); cbn [map]; [rewrite Hi|]; now rewrite IH.
  Qed.

  Lemma add_indices_fields : forall l g,
    let g' := fold_left (fun g idx => seg_add_section_index g idx 0) l g in
    same_phdr g g' /\ g_sections g' = g_sections g ++ map wrap16 l /\ g_cls g' = g_cls g /\ g_index g' = g_index g /\ g_data g' = g_data g.
  Proof.
    induction l as [|i t IH]; intro g; cbn [fold_left map].
    - rewrite app_nil_r. unfold same_phdr. repeat split; reflexivity.
    - destruct (IH (seg_add_section_index g i 0)) as ((A1 & A2 & A3 & A4 & A5 & A6 & A7 & A8) & B & C & D & E). cbv zeta.
      assert (X : seg_add_section_index g i 0 = seg_with_sections g (g_sections g ++ [wrap16 i])).
      { unfold seg_add_section_index. destruct (N.ltb_spec (p_align (seg_with_sections g (g_sections g ++ [wrap16 i]))) 0); [lia|reflexivity]. }
      rewrite X in *. cbn in A1, A2, A3, A4, A5, A6, A7, A8, B, C, D, E.
      unfold same_phdr. rewrite B, <- app_assoc. repeat split; assumption.
  Qed.

  (* the loop of load_segments over a table of one entry: the segment is reported with the encoded fields and
     the members the rule selects among the sections loaded before *)
  Theorem load_segments_loop_single st enc c (phoff es : N) secs g' f :
    is_fail st = false -> st_inv st -> phoff < 2 ^ 62 -> phoff + phdr_size c <= lenN (is_content st) ->
    g_cls g' = c -> phdr_wf g' ->
    sliceN (is_content st) phoff (phdr_size c) = phdr_bytes enc g' ->
    exists st' r,
      load_segments_loop (S f) st [] secs enc c phoff es 0 1 true [] [] = Ok (st', [r], true, []) /\
      is_fail st' = false /\ is_content st' = is_content st /\
      same_phdr g' r /\ g_sections r = map wrap16 (seg_members g' secs) /\ g_cls r = c /\ g_index r = 0.
  Proof.
    intros Hf Hi Hp Hin Hc Hwf Hsl. cbn [load_segments_loop]. cbn [N.ltb N.compare].
    rewrite (table_pos_plain junk) by lia. rewrite N.mul_0_l, N.add_0_r.
    destruct (segment_load_reports_lazy st enc c phoff g' Hf Hi ltac:(lia) Hin Hc Hwf Hsl)
      as (st1 & r & -> & F1 & I1 & C1 & SP & GS & GC & GD). cbn [bind negb orb]. rewrite F1.
    change (0 + 1) with 1. cbn [app].
    match goal with |- context [load_segments_loop f ?a ?b ?c ?d ?e ?x ?y 1 1 ?l ?racc ?al] =>
      assert (EL : load_segments_loop f a b c d e x y 1 1 l racc al = Ok (a, racc, true, al))
        by (destruct f; cbn [load_segments_loop]; [|rewrite N.ltb_irrefl]; reflexivity); rewrite EL; clear EL end.
    set (g2 := seg_with_index r (wrap16 0)).
    assert (SP2 : same_phdr g' g2) by exact SP.
    destruct (add_indices_fields (seg_members g2 secs) g2) as (SP3 & GS3 & GC3 & GI3 & _). cbv zeta in *.
    eexists st1, _. split; [reflexivity|]. split; [exact F1|]. split; [exact C1|].
    assert (Hm : seg_members g2 secs = seg_members g' secs).
    { rewrite !seg_members_exact. f_equal. apply filter_ext. intros s.
      destruct SP2 as (G1 & G2 & G3 & G4 & G5 & G6 & G7 & G8). unfold member_spec. now rewrite G1, G3, G4, G6, G7. }
    split; [|split; [|split]].
    - destruct SP2 as (G1 & G2 & G3 & G4 & G5 & G6 & G7 & G8). destruct SP3 as (K1 & K2 & K3 & K4 & K5 & K6 & K7 & K8).
      unfold same_phdr. repeat split; congruence.
    - rewrite GS3, <- Hm. unfold g2. cbn [g_sections seg_with_index]. now rewrite GS.
    - rewrite GC3. exact GC.
    - rewrite GI3. reflexivity.
  Qed.
End WithEnv.

(* ---------- the file a save() of a one-segment object wrote, loaded again ---------- *)
Lemma map_wrap16_small l : Forall (fun i => i < 2 ^ 16) l -> map wrap16 l = l.
Proof.
  induction 1 as [|i t Hi HF IH]; cbn [map]; [reflexivity|]. rewrite IH. f_equal. unfold wrap16, wrap. now apply N.mod_small.
Qed.

Theorem oneseg_reload junk el h0 g bound ms :
  let idxs := g_sections g in
  let align := if 0 <? p_align g then p_align g else 1 in
  let secs := el_secs el in
  let pos0 := e_ehsize h0 + e_phentsize h0 in
  el_hdr el = Some h0 -> el_segs el = [g] -> lenN secs < 2 ^ 16 ->
  lenN idxs < 2 ^ 16 -> idxs <> [] -> g_offset_set g = false -> p_type g <> PT_PHDR -> NoDup idxs ->
  Forall2 (fun i s => nth_optN secs i = Some s) idxs ms ->
  Forall auto_member ms -> Forall (fun s => sh_addralign s <= p_align g) ms ->
  bound <= 2 ^ 62 -> Forall (fun s => bound <= 2 ^ xw (s_cls s)) secs -> bound <= 2 ^ xw (g_cls g) ->
  bound <= 2 ^ xw (e_cls h0) -> p_align g < 2 ^ 63 ->
  p_vaddr g + pos0 + align + mbudget ms + budget secs + 16 + e_shentsize h0 * lenN secs < bound ->
  indexed_from 0 secs ->
  (forall s, In s secs -> s_index s = 0 -> csize s = 0) ->
  (forall s b, In s secs -> s_data s = Some b -> sh_size s <= lenN b) ->
  lenN (e_ident h0) = 16 -> e_ehsize h0 = ehdr_size (e_cls h0) ->
  (forall s, In s secs -> shdr_size (s_cls s) <= e_shentsize h0) ->
  phdr_size (g_cls g) <= e_phentsize h0 -> g_index g = 0 -> e_shentsize h0 = shdr_size (e_cls h0) ->
  p_type g <> PT_TLS -> Forall (fun s => sh_size s <> 0) ms ->
  (forall j s, ~ In j idxs -> nth_optN secs j = Some s ->
     is_tls s \/ (is_alloc s /\ sh_addr s < p_vaddr g) \/ (~ is_alloc s /\ (s_index s = 0 -> sh_offset s < pos0))) ->
  secs <> [] ->
  exists el' h' g',
    layout el = Ok (el', true) /\ el_hdr el' = Some h' /\ el_segs el' = [g'] /\
    let plan := oneseg_plan h' (el_secs el') (segments_plan (e_enc h') h' [g']) in
    (plan_small 0 plan -> phdr_wf g' ->
     (forall s, In s (el_secs el') -> s_cls s = e_cls h' /\ shdr_wf s) ->
     p_vaddr g + p_memsz g' < 2 ^ 64 -> StronglySorted N.lt idxs ->
     forall k f,
     let file := os_bytes (exec_plan (new_ostream None) plan) in
     exists st1 loaded st2 r,
       load_sections_loop junk (length secs) (open_istream k file) [] (e_cls h') (e_enc h') (e_shoff h') (e_shentsize h')
                          0 (e_shnum h') true [] [] = Ok (st1, rev loaded, []) /\
       Forall2 (fun s x => same_hdr s x /\ s_index x = s_index s) (el_secs el') loaded /\
       load_segments_loop (S f) st1 [] loaded (e_enc h') (g_cls g') (e_phoff h') (e_phentsize h') 0 (e_phnum h') true [] [] =
         Ok (st2, [r], true, []) /\
       same_phdr g' r /\ g_sections r = idxs /\ g_index r = g_index g').
Proof.
  cbv zeta. intros Hh Hs Hnsec Hlen Hne Hos Hty Hnd HF Hauto Hdom Hb62 Hcls Hbg Hbh Hal Hbud Hidx Hnull Hdata Hident Heh Hes Hph Hgi Hes_eq
    Htls Hnz Hfree Hsne.
  set (align := if 0 <? p_align g then p_align g else 1) in *.
  destruct (oneseg_saved_file el h0 g bound ms Hh Hs Hnsec Hlen Hne Hos Hty Hnd HF Hauto Hdom ltac:(lia) Hcls Hbg Hbh Hal Hbud Hidx
              Hnull Hdata Hident Heh Hes Hph Hgi)
    as (el' & h' & g' & ss & pos1 & pos2 & L & Eh & Eg & RL & Hpo & Hpn & Hsn & Hso & S1 & S3 & G1 & G2 & G3 & G4 & MC & CH & _ & FILE).
  destruct (layout_oneseg el h0 g bound ms Hh Hs Hnsec Hlen Hne Hos Hty Hnd HF Hauto Hdom ltac:(lia) Hcls Hbg Hal)
    as (el2 & g2 & secs2 & ss2 & p1 & p2 & L2 & Eh2 & Eg2 & Es2 & _ & _ & _ & _ & T2 & _ & _ & _ & _ & _ &
        (K5 & K6 & K7 & K8 & K9 & K10 & K11 & K12) & _ & _ & _ & Ln2 & _ & B1 & B2).
  { fold align. lia. }
  fold align in T2.
  rewrite L in L2. injection L2 as <-. rewrite Eg in Eg2. injection Eg2 as <-. rewrite Eh in Eh2. injection Eh2 as Eh2.
  destruct (oneseg_layout_members el h0 g bound ms Hh Hs Hnsec Hlen Hne Hos Hty Hnd HF Hauto Hdom ltac:(lia) Hcls Hbg Hal ltac:(fold align; lia)
              Hidx Htls Hnz Hfree) as (el3 & g3 & L3 & Eg3 & _ & Hidx' & MEM).
  rewrite L in L3. injection L3 as <-. rewrite Eg in Eg3. injection Eg3 as <-.
  exists el', h', g'. split; [exact L|]. split; [exact Eh|]. split; [exact Eg|].
  intros Hsmall Hpwf Hswf Hr1 Hsorted k f.
  destruct (FILE Hsmall) as (_ & FP & FS & _). clear FILE.
  set (file := os_bytes (exec_plan (new_ostream None) (oneseg_plan h' (el_secs el') (segments_plan (e_enc h') h' [g'])))) in *.
  destruct (MEM Hr1) as [_ MEMeq]. specialize (MEMeq Hsorted).
  assert (Hes' : e_shentsize h' = e_shentsize h0) by (rewrite Eh2; destruct h0; reflexivity).
  assert (Hpe' : e_phentsize h' = e_phentsize h0) by (rewrite Eh2; destruct h0; reflexivity).
  assert (Hcl' : e_cls h' = e_cls h0) by (rewrite Eh2; destruct h0; reflexivity).
  assert (Ln : lenN (el_secs el') = lenN (el_secs el)) by (rewrite Es2; exact Ln2).
  assert (Hlen_nat : length (el_secs el') = length (el_secs el)).
  { rewrite !lenN_length in Ln. lia. }
  (* section header table *)
  assert (Hslice : forall kk s, nth_optN (el_secs el') kk = Some s ->
            sliceN file (e_shoff h' + (0 + kk) * e_shentsize h') (shdr_size (e_cls h')) = shdr_bytes (e_enc h') s).
  { intros kk s Hn. assert (Hin : In s (el_secs el')) by (eapply nth_optN_In; eauto).
    pose proof (indexed_nth _ _ _ _ Hidx' Hn) as Hi. destruct (Hswf s Hin) as [Hc _].
    rewrite <- Hc, <- (FS s Hin), Hi. f_equal. lia. }
  assert (Hshsz : forall s, In s (el_secs el') -> shdr_size (e_cls h') <= e_shentsize h').
  { intros s Hin. destruct (Hswf s Hin) as [Hc _]. rewrite <- Hc, Hes'.
    destruct (In_nth_optN _ _ Hin) as (j & Hj).
    destruct (nth_optN_some (el_secs el) j ltac:(rewrite <- Ln; exact (nth_optN_lt _ _ _ Hj))) as (x & Hx).
    destruct (Forall2_nth_l _ _ _ RL j x Hx) as (y & Hy & R). rewrite Hj in Hy. injection Hy as <-.
    destruct (relaid_attrs _ _ R) as (_ & Rc & _). rewrite Rc. apply Hes. eapply nth_optN_In; eauto. }
  assert (E0 : lenN (el_secs el') <> 0).
  { rewrite Ln. destruct (el_secs el); [contradiction|rewrite lenN_cons; lia]. }
  destruct (nth_optN_some (el_secs el') (lenN (el_secs el') - 1) ltac:(lia)) as (slast & Hlast).
  assert (Hinlast : In slast (el_secs el')) by (eapply nth_optN_In; eauto).
  assert (Htab : e_shoff h' + (0 + lenN (el_secs el')) * e_shentsize h' <= lenN file).
  { pose proof (Hslice _ _ Hlast) as Hsl.
    assert (HL : lenN (shdr_bytes (e_enc h') slast) = shdr_size (e_cls h')).
    { destruct (Hswf slast Hinlast) as [Hc _]. rewrite lenN_shdr_bytes, Hc. reflexivity. }
    pose proof (slice_full_len _ _ _ _ Hsl HL ltac:(destruct (e_cls h'); cbn; lia)) as Hb.
    pose proof (Hshsz slast Hinlast) as Hle.
    replace (0 + lenN (el_secs el')) with ((0 + (lenN (el_secs el') - 1)) + 1) by (clear - E0; lia).
    rewrite N.mul_add_distr_r, N.mul_1_l.
    set (X := (0 + (lenN (el_secs el') - 1)) * e_shentsize h') in *. clearbody X. rewrite Hes', Hes_eq, <- Hcl'. clear - Hb. lia. }
  assert (Hso_le : e_shoff h' <= p2 + 16).
  { assert (E : e_shoff h' = wrap (xw (e_cls h0)) (p2 + (16 - p2 mod 16))) by (rewrite Eh2; destruct h0; reflexivity).
    rewrite E. unfold wrap. etransitivity; [apply N.mod_le; apply N.pow_nonzero; lia|]. lia. }
  assert (Hso62 : e_shoff h' + (0 + lenN (el_secs el')) * e_shentsize h' < 2 ^ 62).
  { rewrite Hes', Ln, N.add_0_l, (N.mul_comm (lenN (el_secs el)) (e_shentsize h0)).
    set (X := e_shentsize h0 * lenN (el_secs el)) in *. clearbody align X.
    clear - Hso_le Hbud B1 B2 T2 Hb62. lia. }
  destruct (load_sections_loop_reports junk (e_enc h') (e_cls h') (e_shoff h') (e_shentsize h') (el_secs el') (length (el_secs el))
              (open_istream k file) 0 [] [] eq_refl eq_refl ltac:(lia) (Hshsz slast Hinlast) Hso62 Htab
              ltac:(apply Forall_forall; intros s Hin; exact (Hswf s Hin)) Hslice ltac:(lia))
    as (st1 & loaded & E1 & F1 & I1 & C1 & H2 & _ & HIX).
  rewrite N.add_0_l, app_nil_r in E1. rewrite Ln, <- Hsn in E1.
  (* program header table *)
  assert (HLp : lenN (phdr_bytes (e_enc h') g') = phdr_size (g_cls g')) by apply lenN_phdr_bytes.
  pose proof (slice_full_len _ _ _ _ FP HLp ltac:(destruct (g_cls g'); cbn; lia)) as Hpin.
  assert (H2i : Forall2 (fun s x => same_hdr s x /\ s_index x = s_index s) (el_secs el') loaded).
  { apply Forall2_of_nth; [exact (Forall2_lenN _ _ _ H2)|].
    intros j x Hj. destruct (Forall2_nth_l _ _ _ H2 j x Hj) as (y & Hy & R). exists y. split; [exact Hy|]. split; [exact R|].
    rewrite (HIX j y Hy), N.add_0_l. pose proof (indexed_nth _ _ _ _ Hidx' Hj) as Ei. rewrite N.add_0_l in Ei. rewrite Ei.
    unfold wrap16, wrap. apply N.mod_small. pose proof (nth_optN_lt _ _ _ Hj) as Hlt. clear - Hlt Ln Hnsec. lia. }
  destruct (load_segments_loop_single junk st1 (e_enc h') (g_cls g') (e_phoff h') (e_phentsize h') loaded g' f F1 I1)
    as (st2 & r & E2 & _ & _ & SP & GS & _ & GI).
  { rewrite Hpo. clearbody align. clear - Hbud Hb62. lia. } { rewrite C1. exact Hpin. } { reflexivity. } { exact Hpwf. } { rewrite C1. exact FP. }
  exists st1, loaded, st2, r. split; [exact E1|]. split; [exact H2i|]. rewrite Hpn. split; [exact E2|]. split; [exact SP|].
  split; [|rewrite GI, K10; symmetry; exact Hgi].
  rewrite GS.
  assert (Hsame : seg_members g' loaded = seg_members g' (el_secs el')).
  { apply seg_members_same; [unfold same_phdr; repeat split; reflexivity|exact H2i]. }
  rewrite Hsame, MEMeq. apply map_wrap16_small.
  apply Forall_forall. intros i Hi.
  destruct (Forall2_both_In _ _ _ _ i HF HF Hi) as (s & _ & P & _). pose proof (nth_optN_lt _ _ _ P) as Hlt. clear - Hlt Hnsec. lia.
Qed.

(* ---------- ... and the data of a reloaded section ---------- *)
Section DataBack.
  Variable junk : N -> N.

  (* whatever file holds a section's bytes at its offset: a data request on a section that was loaded (lazily) from
     that file's header table stores exactly those bytes *)
  Lemma file_data_read_back (file : bytes) st s (b : bytes) r :
    sliceN file (sh_offset s) (sh_size s) = firstnN b (sh_size s) -> sh_size s <= lenN b ->
    csize s <> 0 -> same_hdr s r -> s_data r = None -> s_stream_size r = lenN file ->
    is_fail st = false -> st_inv st -> is_content st = file -> lenN file < 2 ^ 63 ->
    exists st1 s1,
      sec_load_data junk (Some st) [] r = Ok (Some st1, s1, true, [sh_size r + 1]) /\
      s_data s1 = Some (firstnN b (sh_size s) ++ [0]).
  Proof.
    intros F2 Hdata Hc HS Dr SSr Hf Hi Hcon H63.
    destruct HS as (_ & HT & _ & _ & HO & HZ & _).
    assert (Hcar : carries s = true /\ sh_size s <> 0).
    { unfold csize in Hc. destruct (carries s); [split; [reflexivity|exact Hc]|contradiction]. }
    destruct Hcar as [Hcar Hnz]. unfold carries in Hcar. apply andb_true_iff in Hcar. destruct Hcar as [T1 T2].
    apply negb_true_iff, N.eqb_neq in T1, T2.
    assert (HL : lenN (firstnN b (sh_size s)) = sh_size s) by (rewrite lenN_firstnN; lia).
    pose proof (slice_full_len _ _ _ _ F2 HL ltac:(lia)) as Hin_file.
    assert (Hoff : sec_file_off [] r = sh_offset s).
    { unfold sec_file_off. cbn [xlat_apply]. rewrite HO. unfold of_signed64, to_signed64.
      rewrite N.mod_small by lia. destruct (N.ltb_spec (sh_offset s) (2 ^ 63)); [|lia]. rewrite Z.mod_small by lia. lia. }
    assert (Hl : sec_loadable [] (is_content st) r).
    { unfold sec_loadable. rewrite Hcon, Hoff, HZ, HT, SSr, Dr. repeat split; auto; lia. }
    destruct (sec_load_data_complete junk st [] r Hf Hi Hl) as (st1 & s1 & E & D & _).
    exists st1, s1. split; [exact E|]. rewrite D, Hcon, Hoff, HZ, F2. reflexivity.
  Qed.
End DataBack.

Theorem oneseg_reload_data junk el h0 g bound ms :
  let idxs := g_sections g in
  let align := if 0 <? p_align g then p_align g else 1 in
  let secs := el_secs el in
  let pos0 := e_ehsize h0 + e_phentsize h0 in
  el_hdr el = Some h0 -> el_segs el = [g] -> lenN secs < 2 ^ 16 ->
  lenN idxs < 2 ^ 16 -> idxs <> [] -> g_offset_set g = false -> p_type g <> PT_PHDR -> NoDup idxs ->
  Forall2 (fun i s => nth_optN secs i = Some s) idxs ms ->
  Forall auto_member ms -> Forall (fun s => sh_addralign s <= p_align g) ms ->
  bound <= 2 ^ 63 -> Forall (fun s => bound <= 2 ^ xw (s_cls s)) secs -> bound <= 2 ^ xw (g_cls g) ->
  bound <= 2 ^ xw (e_cls h0) -> p_align g < 2 ^ 63 ->
  p_vaddr g + pos0 + align + mbudget ms + budget secs + 16 + e_shentsize h0 * lenN secs < bound ->
  indexed_from 0 secs ->
  (forall s, In s secs -> s_index s = 0 -> csize s = 0) ->
  (forall s b, In s secs -> s_data s = Some b -> sh_size s <= lenN b) ->
  lenN (e_ident h0) = 16 -> e_ehsize h0 = ehdr_size (e_cls h0) ->
  (forall s, In s secs -> shdr_size (s_cls s) <= e_shentsize h0) ->
  phdr_size (g_cls g) <= e_phentsize h0 -> g_index g = 0 ->
  exists el' h' g',
    layout el = Ok (el', true) /\ el_hdr el' = Some h' /\ el_segs el' = [g'] /\
    let plan := oneseg_plan h' (el_secs el') (segments_plan (e_enc h') h' [g']) in
    (plan_small 0 plan ->
     let file := os_bytes (exec_plan (new_ostream None) plan) in
     lenN file < 2 ^ 63 ->
     forall st s b r,
       In s (el_secs el') -> csize s <> 0 -> s_data s = Some b ->
       same_hdr s r -> s_data r = None -> s_stream_size r = lenN file ->
       is_fail st = false -> st_inv st -> is_content st = file ->
       exists st1 s1,
         sec_load_data junk (Some st) [] r = Ok (Some st1, s1, true, [sh_size r + 1]) /\
         s_data s1 = Some (firstnN b (sh_size s) ++ [0])).
Proof.
  cbv zeta. intros Hh Hs Hnsec Hlen Hne Hos Hty Hnd HF Hauto Hdom Hb63 Hcls Hbg Hbh Hal Hbud Hidx Hnull Hdata Hident Heh Hes Hph Hgi.
  destruct (oneseg_saved_file el h0 g bound ms Hh Hs Hnsec Hlen Hne Hos Hty Hnd HF Hauto Hdom Hb63 Hcls Hbg Hbh Hal Hbud Hidx
              Hnull Hdata Hident Heh Hes Hph Hgi)
    as (el' & h' & g' & ss & pos1 & pos2 & L & Eh & Eg & RL & _ & _ & _ & _ & _ & _ & _ & _ & _ & _ & _ & _ & _ & FILE).
  exists el', h', g'. split; [exact L|]. split; [exact Eh|]. split; [exact Eg|].
  intros Hsmall H63 st s b r Hin Hc Hd HS Dr SSr Hf Hi Hcon.
  destruct (FILE Hsmall) as (_ & _ & _ & FD). clear FILE.
  apply (file_data_read_back junk _ st s b r (FD s b Hin Hc Hd)); try assumption.
  (* the data buffer covers the section's size: kept by the layout *)
  destruct (In_nth_optN _ _ Hin) as (j & Hj).
  pose proof (Forall2_lenN _ _ _ RL) as Ln.
  destruct (nth_optN_some (el_secs el) j ltac:(rewrite <- Ln; exact (nth_optN_lt _ _ _ Hj))) as (x & Hx).
  destruct (Forall2_nth_l _ _ _ RL j x Hx) as (y & Hy & R). rewrite Hj in Hy. injection Hy as <-.
  destruct (relaid_attrs _ _ R) as (_ & _ & _ & Rs & _ & _ & Rd & _). rewrite Rs. apply (Hdata x b); [eapply nth_optN_In; eauto|].
  rewrite <- Rd. exact Hd.
Qed.
