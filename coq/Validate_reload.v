(* Validate_reload.v — C20: validate() reads nothing but the header fields of the sections (type, size, offset,
   address, index) and the segments (type, offset, file size, address, index); so what it says about an object
   equals what it says about any object reporting the same fields - in particular about the object a load of the
   saved file yields. *)
From ElfioV Require Import Bytes Mem Stream SectionData Strings Elfio Table Loader Layout Writer Reader_proofs
     Layout_proofs Reload_oneseg.
From Coq Require Import ZifyBool ZifyN ZifyNat.
Local Open Scope N_scope.

Definition sec_alike (s x : section) : Prop := same_hdr s x /\ s_index x = s_index s.
Definition seg_alike (g r : segment) : Prop := same_phdr g r /\ g_index r = g_index g.

Lemma in_section_alike off s x : sec_alike s x -> is_offset_in_section off x = is_offset_in_section off s.
Proof. intros [(_ & _ & _ & _ & A5 & A6 & _) _]. unfold is_offset_in_section. now rewrite A5, A6. Qed.

Lemma overlap_alike a b a' b' : sec_alike a a' -> sec_alike b b' ->
  sections_overlap_reported a' b' = sections_overlap_reported a b.
Proof.
  intros Ha Hb. unfold sections_overlap_reported.
  rewrite !(in_section_alike _ _ _ Ha), !(in_section_alike _ _ _ Hb).
  destruct Ha as [(_ & A2 & _ & _ & A5 & A6 & _) _]. destruct Hb as [(_ & B2 & _ & _ & B5 & B6 & _) _].
  now rewrite A2, A5, A6, B2, B5, B6.
Qed.

Lemma overlap_inner_alike a a' : sec_alike a a' -> forall l l', Forall2 sec_alike l l' ->
  forall i j, overlap_inner a' i j l' = overlap_inner a i j l.
Proof.
  intros Ha l l' HF. induction HF as [|b b' t t' Hb HF IH]; intros i j; cbn [overlap_inner]; [reflexivity|].
  now rewrite (overlap_alike _ _ _ _ Ha Hb), IH.
Qed.

Lemma overlap_pairs_alike : forall l l', Forall2 sec_alike l l' -> forall i, overlap_pairs i l' = overlap_pairs i l.
Proof.
  intros l l' HF. induction HF as [|a a' t t' Ha HF IH]; intro i; cbn [overlap_pairs]; [reflexivity|].
  now rewrite (overlap_inner_alike _ _ Ha _ _ HF), IH.
Qed.

Lemma find_prog_alike off : forall l l', Forall2 sec_alike l l' ->
  match find_prog_section l off, find_prog_section l' off with
  | Some s, Some x => sec_alike s x
  | None, None => True
  | _, _ => False
  end.
Proof.
  intros l l' HF. induction HF as [|a a' t t' Ha HF IH]; cbn [find_prog_section]; [exact I|].
  rewrite (in_section_alike _ _ _ Ha). destruct Ha as [Hh Hi]. pose proof Hh as (_ & A2 & _). rewrite A2.
  destruct ((sh_type a =? SHT_PROGBITS) && is_offset_in_section off a); [split; assumption|exact IH].
Qed.

Lemma seg_conflicts_alike secs secs' : Forall2 sec_alike secs secs' -> forall segs segs', Forall2 seg_alike segs segs' ->
  seg_conflicts secs' segs' = seg_conflicts secs segs.
Proof.
  intros HS segs segs' HG. unfold seg_conflicts. f_equal.
  induction HG as [|g r t t' [(G1 & G2 & G3 & G4 & G5 & G6 & G7 & G8) GI] HG IH]; cbn [map]; [reflexivity|].
  rewrite IH. f_equal. rewrite G1, G3, G4, G6, GI.
  pose proof (find_prog_alike (p_offset g) _ _ HS) as Hf.
  destruct (find_prog_section secs (p_offset g)) as [s|]; destruct (find_prog_section secs' (p_offset g)) as [x|]; try contradiction; [|reflexivity].
  destruct Hf as [(_ & _ & _ & A4 & A5 & _) Ai]. unfold get_virtual_addr. now rewrite A4, A5, Ai.
Qed.

Lemma Forall2_firstnN {A B} (R : A -> B -> Prop) l l' : Forall2 R l l' -> forall n, Forall2 R (firstnN l n) (firstnN l' n).
Proof.
  induction 1 as [|a b t t' Hab HF IH]; intro n; cbn [firstnN]; [constructor|].
  destruct (n =? 0); constructor; auto.
Qed.

(* validate() reads the header fields only *)
Theorem validate_reads_headers_only el1 el2 :
  Forall2 sec_alike (el_secs el1) (el_secs el2) -> Forall2 seg_alike (el_segs el1) (el_segs el2) ->
  validate el2 = validate el1.
Proof.
  intros HS HG. unfold validate.
  rewrite (Forall2_lenN _ _ _ HS), (Forall2_lenN _ _ _ HG).
  rewrite (overlap_pairs_alike _ _ (Forall2_firstnN _ _ _ HS _)).
  now rewrite (seg_conflicts_alike _ _ HS _ _ (Forall2_firstnN _ _ _ HG _)).
Qed.

(* the object a load of the file saved from a one-segment object yields is accepted by validate() *)
From ElfioV Require Import Codec_proofs Ostream_proofs Segment_proofs Writer_proofs Oneseg_proofs Oneseg_writer Oneseg_members Validate_oneseg.
From Coq Require Import Sorted.

Theorem validate_accepts_reloaded_oneseg junk el h0 g bound ms :
  let idxs := g_sections g in
  let align := if 0 <? p_align g then p_align g else 1 in
  let secs := el_secs el in
  let pos0 := e_ehsize h0 + e_phentsize h0 in
  el_hdr el = Some h0 -> el_segs el = [g] -> lenN secs < 2 ^ 16 ->
  lenN idxs < 2 ^ 16 -> idxs <> [] -> g_offset_set g = false -> p_type g <> PT_PHDR -> NoDup idxs ->
  Forall2 (fun i s => nth_optN secs i = Some s) idxs ms ->
  Forall auto_member ms -> Forall (fun s => sh_addralign s <= p_align g) ms ->
  bound <= 2 ^ 62 -> Forall (fun s => bound <= 2 ^ xw (s_cls s)) secs -> bound <= 2 ^ xw (g_cls g) ->
  bound <= 2 ^ xw (e_cls h0) -> p_align g < 2 ^ 63 ->
  p_vaddr g + pos0 + align + mbudget ms + budget secs + 16 + e_shentsize h0 * lenN secs < bound ->
  indexed_from 0 secs ->
  (forall s, In s secs -> s_index s = 0 -> csize s = 0) ->
  (forall s b, In s secs -> s_data s = Some b -> sh_size s <= lenN b) ->
  lenN (e_ident h0) = 16 -> e_ehsize h0 = ehdr_size (e_cls h0) ->
  (forall s, In s secs -> shdr_size (s_cls s) <= e_shentsize h0) ->
  phdr_size (g_cls g) <= e_phentsize h0 -> g_index g = 0 -> e_shentsize h0 = shdr_size (e_cls h0) ->
  p_type g <> PT_TLS -> Forall (fun s => sh_size s <> 0) ms ->
  (forall j s, ~ In j idxs -> nth_optN secs j = Some s ->
     is_tls s \/ (is_alloc s /\ sh_addr s < p_vaddr g) \/ (~ is_alloc s /\ (s_index s = 0 -> sh_offset s < pos0))) ->
  secs <> [] ->
  (forall s, In s secs -> sh_type s = SHT_NULL -> sh_size s = 0) ->
  (forall s, In s secs -> s_index s = 0 -> sh_size s = 0 \/ sh_type s = SHT_NOBITS) ->
  exists el' h' g',
    layout el = Ok (el', true) /\ el_hdr el' = Some h' /\ el_segs el' = [g'] /\ validate el' = [] /\
    let plan := oneseg_plan h' (el_secs el') (segments_plan (e_enc h') h' [g']) in
    (plan_small 0 plan -> phdr_wf g' ->
     (forall s, In s (el_secs el') -> s_cls s = e_cls h' /\ shdr_wf s) ->
     p_vaddr g + p_memsz g' < 2 ^ 64 -> StronglySorted N.lt idxs ->
     forall k f,
     let file := os_bytes (exec_plan (new_ostream None) plan) in
     exists st1 loaded st2 r,
       load_sections_loop junk (length secs) (open_istream k file) [] (e_cls h') (e_enc h') (e_shoff h') (e_shentsize h')
                          0 (e_shnum h') true [] [] = Ok (st1, rev loaded, []) /\
       load_segments_loop (S f) st1 [] loaded (e_enc h') (g_cls g') (e_phoff h') (e_phentsize h') 0 (e_phnum h') true [] [] =
         Ok (st2, [r], true, []) /\
       forall elr, el_secs elr = loaded -> el_segs elr = [r] -> validate elr = []).
Proof.
  cbv zeta. intros Hh Hs Hnsec Hlen Hne Hos Hty Hnd HF Hauto Hdom Hb62 Hcls Hbg Hbh Hal Hbud Hidx Hnull Hdata Hident Heh Hes Hph Hgi Hes_eq
    Htls Hnz Hfree Hsne Hvn Hvz.
  destruct (oneseg_reload junk el h0 g bound ms Hh Hs Hnsec Hlen Hne Hos Hty Hnd HF Hauto Hdom Hb62 Hcls Hbg Hbh Hal Hbud Hidx Hnull Hdata
              Hident Heh Hes Hph Hgi Hes_eq Htls Hnz Hfree Hsne) as (el' & h' & g' & L & Eh & Eg & RL).
  destruct (validate_accepts_oneseg_layout el h0 g bound ms Hh Hs Hnsec Hlen Hne Hos Hty Hnd HF Hauto Hdom) as (el2 & L2 & V2); try assumption.
  { clear - Hb62. lia. }
  { set (align := if 0 <? p_align g then p_align g else 1) in *. clearbody align. clear - Hbud. lia. }
  rewrite L in L2. injection L2 as <-.
  exists el', h', g'. split; [exact L|]. split; [exact Eh|]. split; [exact Eg|]. split; [exact V2|].
  intros Hsmall Hpwf Hswf Hr1 Hsorted k f.
  destruct (RL Hsmall Hpwf Hswf Hr1 Hsorted k f) as (st1 & loaded & st2 & r & E1 & H2 & E2 & SP & _ & GI).
  exists st1, loaded, st2, r. split; [exact E1|]. split; [exact E2|].
  intros elr Es Er. rewrite <- V2. apply validate_reads_headers_only.
  - rewrite Es. exact H2.
  - rewrite Er, Eg. constructor; [split; assumption|constructor].
Qed.
