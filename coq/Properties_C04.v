(* Properties_C04.v — C04: saved files are structurally well-formed (objects
   without segments: proved; objects with segments: modelled and tied by the
   correspondence run, partial). *)
From ElfioV Require Import Bytes Mem Stream SectionData Strings Elfio Table Loader Layout Writer Ostream_proofs Layout_proofs Writer_proofs Segment_proofs Oneseg_proofs Oneseg_writer.
Local Open Scope N_scope.

(* The layout step of save() for an object without segments (any sections, any
   alignments — also non powers of two —, any sizes, file below the class's
   address width): every section keeps all attributes but its offset; the
   sections lie one after the other after the ELF header, each aligned; the
   section header table is placed after all of them; doing it again is a no-op. *)
Theorem C04_layout_without_segments :
  forall el h0 bound,
    el_hdr el = Some h0 -> el_segs el = [] ->
    bound <= 2 ^ 64 -> Forall (fun s => bound <= 2 ^ xw (s_cls s)) (el_secs el) ->
    e_ehsize h0 + budget (el_secs el) + 16 < bound ->
    exists el' secs' h' pos',
      layout el = Ok (el', true) /\ el_secs el' = secs' /\ el_segs el' = [] /\ el_hdr el' = Some h' /\
      Forall2 keeps (el_secs el) secs' /\ chain secs' (e_ehsize h0) pos' /\
      h' = hdr_set (hdr_prep h0 (wrap16 (lenN (el_secs el)))) HShoff (pos' + (16 - pos' mod 16)) /\
      pos' <= e_ehsize h0 + budget (el_secs el) /\
      layout el' = Ok (el', true).
Proof. exact layout_noseg. Qed.
Print Assumptions C04_layout_without_segments.

(* what a chain means: every section with an assigned offset starts aligned,
   at or after the ELF header, and ends before the section header table ... *)
Theorem C04_chain_member :
  forall l lo hi s, chain l lo hi -> In s l -> s_index s <> 0 ->
    lo <= sh_offset s /\ sh_offset s + csize s <= hi /\ (1 < sh_addralign s -> sh_offset s mod sh_addralign s = 0).
Proof. exact chain_member. Qed.
Print Assumptions C04_chain_member.

(* ... and the file ranges of any two of them are disjoint (the earlier one
   ends before the later one starts; csize is 0 for no-bits and null sections) *)
Theorem C04_chain_disjoint :
  forall l lo hi pre a mid b post,
    chain l lo hi -> l = pre ++ a :: mid ++ b :: post -> s_index a <> 0 -> s_index b <> 0 ->
    sh_offset a + csize a <= sh_offset b.
Proof. exact chain_disjoint. Qed.
Print Assumptions C04_chain_disjoint.

(* the byte ranges save() writes for such an object — ELF header, every section
   header record, every section's data — are pairwise disjoint *)
Theorem C04_written_ranges_disjoint :
  forall (h : ehdr) (secs : list section) (pos' : N),
    chain secs (e_ehsize h) pos' -> indexed_from 0 secs -> pos' <= e_shoff h ->
    (forall s, In s secs -> shdr_size (s_cls s) <= e_shentsize h) ->
    (forall s, In s secs -> s_index s = 0 -> csize s = 0) ->
    lenN (e_ident h) = 16 -> e_ehsize h = ehdr_size (e_cls h) ->
    (forall s b, In s secs -> s_data s = Some b -> sh_size s <= lenN b) ->
    all_disjoint (noseg_plan h secs).
Proof. exact noseg_plan_disjoint. Qed.
Print Assumptions C04_written_ranges_disjoint.

(* and the layout step delivers those premises *)
Theorem C04_layout_delivers :
  forall el h0 bound,
    el_hdr el = Some h0 -> el_segs el = [] ->
    bound <= 2 ^ 64 -> Forall (fun s => bound <= 2 ^ xw (s_cls s)) (el_secs el) ->
    e_ehsize h0 + budget (el_secs el) + 16 < bound -> bound <= 2 ^ xw (e_cls h0) ->
    indexed_from 0 (el_secs el) ->
    exists el' h',
      layout el = Ok (el', true) /\ el_hdr el' = Some h' /\ indexed_from 0 (el_secs el') /\
      exists pos', chain (el_secs el') (e_ehsize h') pos' /\ pos' <= e_shoff h' /\ e_ehsize h' = e_ehsize h0 /\
                   e_shentsize h' = e_shentsize h0.
Proof. exact noseg_ranges_disjoint. Qed.
Print Assumptions C04_layout_delivers.

(* ---- segments: the basic case.  A segment (not PT_PHDR, offset not fixed by a
   previous load) all of whose members are allocated data sections the writer
   addresses itself.  Its file offset is congruent to its virtual address modulo
   its alignment; the members follow one another, each aligned, inside
   [p_offset, p_offset + p_filesz), each at the same distance from the segment
   start in the file as in memory; the memory size covers the file size. *)
Theorem C04_segment_of_auto_members :
  forall h g secs gen pos bound ms,
    let idxs := g_sections g in
    let align := if 0 <? p_align g then p_align g else 1 in
    lenN idxs < 2 ^ 16 -> idxs <> [] ->
    g_offset_set g = false -> p_type g <> PT_PHDR ->
    NoDup idxs -> Forall2 (fun i s => nth_optN secs i = Some s) idxs ms ->
    Forall auto_member ms -> Forall (fun s => bound <= 2 ^ xw (s_cls s)) ms ->
    (forall i, In i idxs -> nth_optN gen i = Some false) ->
    bound <= 2 ^ 64 -> bound <= 2 ^ xw (g_cls g) -> p_align g < 2 ^ 63 ->
    p_vaddr g + pos + align + mbudget ms < bound ->
    exists g' secs' gen' pos' seg_start,
      layout_one_segment h g secs gen pos = Ok (g', secs', gen', pos', true) /\
      pos <= seg_start /\ seg_start < pos + align /\
      seg_start mod align = p_vaddr g mod align /\
      p_offset g' = seg_start /\ p_vaddr g' = p_vaddr g /\
      p_filesz g' = pos' - seg_start /\ p_filesz g' <= p_memsz g' /\
      mchain g seg_start secs' idxs seg_start pos' /\
      (forall j, ~ In j idxs -> nth_optN secs' j = nth_optN secs j) /\ lenN secs' = lenN secs.
Proof.
  intros h g secs gen pos bound ms idxs align H1 H2 H3 H4 H5 H6 H7 H8 H9 H10 H11 H12 H13.
  destruct (layout_one_segment_auto h g secs gen pos bound ms H1 H2 H3 H4 H5 H6 H7 H8 H9 H10 H11 H12 H13)
    as (g' & secs' & gen' & pos' & ss & A1 & A2 & A3 & A4 & A5 & A6 & A7 & A8 & A9 & A10 & A11 & _).
  exists g', secs', gen', pos', ss. repeat split; assumption.
Qed.
Print Assumptions C04_segment_of_auto_members.

(* The whole layout step of save() for an object with ONE segment whose members are allocated data
   sections the writer addresses itself (alignment of the segment at least that of its members, as
   add_section_index leaves it), plus any sections outside the segment: the program header table follows
   the ELF header; the segment starts at or after it, at a file offset congruent to its address modulo
   its alignment; its members follow one another inside [p_offset, p_offset + p_filesz), each aligned, at
   the same distance from the segment start in the file as in memory (mchain); memory size >= file size;
   the sections outside the segment keep everything but their offset and lie in a chain behind the
   segment (chain over free_list); the section header table comes after everything. *)
Theorem C04_layout_with_one_segment :
  forall el h0 g bound ms,
    let idxs := g_sections g in
    let align := if 0 <? p_align g then p_align g else 1 in
    let secs := el_secs el in
    let pos0 := e_ehsize h0 + e_phentsize h0 in
    el_hdr el = Some h0 -> el_segs el = [g] -> lenN secs < 2 ^ 16 ->
    lenN idxs < 2 ^ 16 -> idxs <> [] -> g_offset_set g = false -> p_type g <> PT_PHDR -> NoDup idxs ->
    Forall2 (fun i s => nth_optN secs i = Some s) idxs ms ->
    Forall auto_member ms -> Forall (fun s => sh_addralign s <= p_align g) ms ->
    bound <= 2 ^ 64 -> Forall (fun s => bound <= 2 ^ xw (s_cls s)) secs -> bound <= 2 ^ xw (g_cls g) ->
    p_align g < 2 ^ 63 ->
    p_vaddr g + pos0 + align + mbudget ms + budget secs + 16 < bound ->
    exists el' g' secs' seg_start pos1 pos2,
      layout el = Ok (el', true) /\
      el_hdr el' = Some (hdr_set (hdr_prep1 h0 (lenN secs)) HShoff (pos2 + (16 - pos2 mod 16))) /\
      el_segs el' = [g'] /\ el_secs el' = secs' /\
      el_xlat el' = el_xlat el /\ el_compr el' = el_compr el /\ el_stream el' = el_stream el /\
      pos0 <= seg_start /\ seg_start < pos0 + align /\ seg_start mod align = p_vaddr g mod align /\
      p_offset g' = seg_start /\ p_vaddr g' = p_vaddr g /\ p_filesz g' = pos1 - seg_start /\ p_filesz g' <= p_memsz g' /\
      (g_sections g' = idxs /\ g_offset_set g' = true /\ p_align g' = p_align g /\ p_type g' = p_type g /\ g_cls g' = g_cls g /\
       g_index g' = g_index g /\ p_flags g' = p_flags g /\ p_paddr g' = p_paddr g) /\
      mchain g seg_start secs' idxs seg_start pos1 /\
      Forall2 (fun i s => exists a o, nth_optN secs' i = Some (with_offset (with_addr s a) o)) idxs ms /\
      (forall j s, ~ In j idxs -> nth_optN secs j = Some s -> exists s', nth_optN secs' j = Some s' /\ keeps s s') /\
      lenN secs' = lenN secs /\
      chain (free_list [g'] 0 secs') pos1 pos2 /\
      pos1 <= seg_start + mbudget ms /\ pos2 <= pos1 + budget secs.
Proof. exact layout_oneseg. Qed.
Print Assumptions C04_layout_with_one_segment.

(* ... and in that layout no two sections' file ranges overlap, whichever of them are members *)
Theorem C04_one_segment_data_disjoint :
  forall (g g' : segment) secs' ss pos1 pos2,
    mchain g ss secs' (g_sections g) ss pos1 ->
    chain (free_list [g'] 0 secs') pos1 pos2 ->
    g_sections g' = g_sections g -> lenN (g_sections g) < 2 ^ 16 ->
    (forall i s, In i (g_sections g) -> nth_optN secs' i = Some s -> csize s = sh_size s) ->
    (forall j s, nth_optN secs' j = Some s -> s_index s = 0 -> csize s = 0) ->
    forall i j a b, i <> j -> nth_optN secs' i = Some a -> nth_optN secs' j = Some b -> NoDup (g_sections g) ->
      rng_disjoint (data_range a) (data_range b).
Proof. exact oneseg_data_disjoint. Qed.
Print Assumptions C04_one_segment_data_disjoint.

Theorem C04_member_of_chain :
  forall g ss secs' idxs lo hi i, mchain g ss secs' idxs lo hi -> In i idxs ->
    exists s, nth_optN secs' i = Some s /\ lo <= sh_offset s /\ sh_offset s + sh_size s <= hi /\
              sh_offset s mod eff_align s = 0 /\ sh_addr s - p_vaddr g = sh_offset s - ss /\ p_vaddr g <= sh_addr s.
Proof. exact mchain_member. Qed.
Print Assumptions C04_member_of_chain.

(* non-vacuity: a PT_LOAD segment at 0x8048004, align 0x1000, with .text (align 16, 5 bytes) and .data (align 4, 3 bytes) *)
Definition ms (i al sz : N) : section :=
  with_index (with_flags (with_size (with_addralign (with_type (new_section C32) 1) al) sz) 2) i.
Definition ex_seg : segment :=
  seg_add_section_index (seg_add_section_index (seg_set (seg_set (seg_set (new_segment C32) GType 1) GVaddr 134512644) GAlign 4096) 1 16) 2 4.
Example C04_segment_example :
  exists g' secs' gen' pos',
    layout_one_segment (new_header C32 LSB) ex_seg [ms 0 0 0; ms 1 16 5; ms 2 4 3] [false; false; false] 84 =
      Ok (g', secs', gen', pos', true) /\
    p_offset g' = 4100 /\ p_filesz g' = 23 /\ map sh_offset secs' = [0; 4112; 4120] /\ map sh_addr secs' = [0; 134512656; 134512664] /\
    auto_member (ms 1 16 5).
Proof. eexists _, _, _, _. split; [vm_compute; reflexivity|]. vm_compute. repeat split; try reflexivity; discriminate. Qed.

(* non-vacuity: null section, 5 bytes aligned 1, 3 bytes aligned 8, no-bits aligned 16 *)
Definition mk (i ty al sz : N) : section :=
  with_index (with_size (with_addralign (with_type (new_section C32) ty) al) sz) i.
Definition ex_el : elfio :=
  with_secs (with_hdr (empty_elfio false) (Some (new_header C32 LSB)))
            [mk 0 0 0 0; mk 1 1 1 5; mk 2 1 8 3; mk 3 8 16 100].
Example C04_example :
  exists el', layout ex_el = Ok (el', true) /\
    map sh_offset (el_secs el') = [0; 52; 64; 80] /\
    option_map e_shoff (el_hdr el') = Some 96 /\
    e_ehsize (new_header C32 LSB) + budget (el_secs ex_el) + 16 < 2 ^ 32.
Proof. eexists. split; [vm_compute; reflexivity|]. vm_compute. repeat split; reflexivity. Qed.

(* non-vacuity: ELF32, a PT_LOAD segment at 0x8048004 (align 0x1000) holding .text and .data, a free section behind *)
Example C04_one_segment_example :
  let fs (i : N) := with_index (with_size (with_addralign (with_type (new_section C32) 1) 1) 7) i in
  let el := with_segs (with_secs (with_hdr (empty_elfio false) (Some (new_header C32 LSB)))
                                 [ms 0 0 0; ms 1 16 5; ms 2 4 3; fs 3]) [ex_seg] in
  exists el', layout el = Ok (el', true) /\
    map sh_offset (el_secs el') = [0; 4112; 4120; 4123] /\ map p_offset (el_segs el') = [4100] /\
    map p_filesz (el_segs el') = [23] /\ option_map e_shoff (el_hdr el') = Some 4144 /\ option_map e_phoff (el_hdr el') = Some 52.
Proof. eexists. split; [vm_compute; reflexivity|]. vm_compute. repeat split; reflexivity. Qed.

