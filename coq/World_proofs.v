(* World_proofs.v — C19: objects are values; a move transfers the value and
   leaves the source an empty, re-usable object; nothing done to one object
   changes another. *)
From ElfioV Require Import Bytes Mem Stream SectionData Strings Elfio Table Accessors Loader Layout Writer Script.
From Coq Require Import ZifyBool ZifyN ZifyNat.
Local Open Scope N_scope.

Lemma find_filter_other {V} (l : list (N * V)) k j :
  j <> k -> find (fun p => fst p =? j) (filter (fun p => negb (fst p =? k)) l) = find (fun p => fst p =? j) l.
Proof.
  intros H. induction l as [|[a v] t IH]; cbn [find filter fst]; [reflexivity|].
  destruct (N.eqb_spec a k) as [->|Hak]; cbn [negb].
  - destruct (N.eqb_spec k j); [congruence|]. exact IH.
  - cbn [find fst]. destruct (a =? j); [reflexivity|exact IH].
Qed.

(* writing or deleting object k leaves every other object as it was *)
Theorem obj_put_other w k v j : j <> k -> obj_get (obj_put w k v) j = obj_get w j.
Proof.
  intros H. unfold obj_put, obj_get. destruct (N.eqb_spec k (w_cur w)) as [->|Hk]; cbn.
  - destruct (N.eqb_spec j (w_cur w)); [contradiction|]. reflexivity.
  - destruct (N.eqb_spec j (w_cur w)); [reflexivity|]. cbn [find fst].
    destruct (N.eqb_spec k j); [congruence|]. now rewrite find_filter_other.
Qed.
Theorem obj_put_same w k v : obj_get (obj_put w k v) k = Some v.
Proof.
  unfold obj_put, obj_get. destruct (N.eqb_spec k (w_cur w)) as [->|Hk]; cbn.
  - rewrite N.eqb_refl. destruct v as [[e a] al]. reflexivity.
  - destruct (N.eqb_spec k (w_cur w)); [contradiction|]. cbn [find fst]. now rewrite N.eqb_refl.
Qed.
Theorem obj_del_other w k j : j <> k -> obj_get (obj_del w k) j = obj_get w j.
Proof.
  intros H. unfold obj_del, obj_get. cbn. destruct (j =? w_cur w); [reflexivity|]. now rewrite find_filter_other.
Qed.

(* move construction: the destination is the source's value; the source is an
   empty object; every third object is untouched *)
Theorem move_ctor_spec w dst src e a al :
  dst <> src -> obj_get w src = Some (e, a, al) ->
  exists w', step_world w (OpMoveCtor dst src) = Some (Ok (w', [])) /\
    obj_get w' dst = Some (e, [], al) /\
    obj_get w' src = Some (moved_from e false, [], []) /\
    (forall j, j <> dst -> j <> src -> obj_get w' j = obj_get w j).
Proof.
  intros Hne Hs. cbn [step_world]. rewrite Hs. eexists. split; [reflexivity|].
  split; [apply obj_put_same|]. split.
  - rewrite obj_put_other by congruence. apply obj_put_same.
  - intros j H1 H2. rewrite !obj_put_other by assumption. reflexivity.
Qed.

Theorem move_assign_spec w dst src e a al d :
  dst <> src -> obj_get w src = Some (e, a, al) -> obj_get w dst = Some d ->
  exists w', step_world w (OpMoveAssign dst src) = Some (Ok (w', [])) /\
    obj_get w' dst = Some (e, [], al) /\
    obj_get w' src = Some (moved_from e true, [], []) /\
    (forall j, j <> dst -> j <> src -> obj_get w' j = obj_get w j).
Proof.
  intros Hne Hs Hd. cbn [step_world]. destruct (N.eqb_spec dst src); [contradiction|]. rewrite Hs, Hd.
  eexists. split; [reflexivity|]. split; [apply obj_put_same|]. split.
  - rewrite obj_put_other by congruence. apply obj_put_same.
  - intros j H1 H2. rewrite !obj_put_other by assumption. reflexivity.
Qed.

(* destroying the source afterwards does not change the destination *)
Theorem destroy_spec w k :
  k <> w_cur w ->
  exists w', step_world w (OpDestroy k) = Some (Ok (w', [])) /\ forall j, j <> k -> obj_get w' j = obj_get w j.
Proof.
  intros H. cbn [step_world]. destruct (N.eqb_spec k (w_cur w)); [contradiction|].
  eexists. split; [reflexivity|]. intros j Hj. now apply obj_del_other.
Qed.

(* a moved-from object is empty: no header, no sections, no segments, no
   translation, no compression object, no stream *)
Theorem moved_from_is_empty e b :
  el_hdr (moved_from e b) = None /\ el_secs (moved_from e b) = [] /\ el_segs (moved_from e b) = [] /\
  el_xlat (moved_from e b) = [] /\ el_compr (moved_from e b) = false /\ el_stream (moved_from e b) = None.
Proof. repeat split. Qed.

(* re-initialising any used object gives the sections, segments, header of a
   fresh one: create() does not look at what the object held *)
Theorem create_ignores_contents junk el1 el2 c e :
  el_xlat el1 = el_xlat el2 -> el_pos el1 = el_pos el2 -> el_compr el1 = el_compr el2 -> el_stream el1 = el_stream el2 ->
  create junk el1 c e = create junk el2 c e.
Proof. intros H1 H2 H3 H4. unfold create. now rewrite H1, H2, H3, H4. Qed.

(* loading into a used object: sections, segments and stream of the previous use do not matter *)
Theorem load_ignores_contents junk el1 el2 k content lazy :
  el_xlat el1 = el_xlat el2 -> el_pos el1 = el_pos el2 -> el_compr el1 = el_compr el2 -> el_hdr el1 = el_hdr el2 ->
  load junk el1 k content lazy = load junk el2 k content lazy.
Proof.
  intros H1 H2 H3 H4. unfold load.
  assert (E : forall st, with_stream (with_segs (with_secs el1 []) []) st = with_stream (with_segs (with_secs el2 []) []) st).
  { intro st. unfold with_stream, with_segs, with_secs. cbn. now rewrite H1, H2, H3, H4. }
  assert (E2 : forall h st, with_stream (with_hdr (with_segs (with_secs el1 []) []) h) st = with_stream (with_hdr (with_segs (with_secs el2 []) []) h) st).
  { intros h st. unfold with_stream, with_hdr, with_segs, with_secs. cbn. now rewrite H1, H2, H3. }
  rewrite H1.
  destruct (read _ 16) as [st2 ident].
  repeat match goal with |- (if ?c then _ else _) = (if ?c then _ else _) => destruct c; [apply f_equal; f_equal; f_equal; apply E|] end.
  destruct (read _ _) as [st4 got].
  match goal with |- (if ?c then _ else _) = (if ?c then _ else _) => destruct c end.
  - f_equal. f_equal. f_equal. apply E2.
  - rewrite E2. reflexivity.
Qed.

(* ... and once the input passes the identification stage the previous header does not matter either *)
Definition ident_accepted (t : xlat) (k : skind) (content : bytes) : bool :=
  let st1 := seekg (open_istream k content) (xlat_apply t 0%Z) in
  let '(_, ident) := read st1 16 in
  (lenN ident =? 16) &&
  ((nthN ident 0 0 =? 127) && (nthN ident 1 0 =? 69) && (nthN ident 2 0 =? 76) && (nthN ident 3 0 =? 70)) &&
  ((nthN ident 4 0 =? 2) || (nthN ident 4 0 =? 1)) && ((nthN ident 5 0 =? 1) || (nthN ident 5 0 =? 2)).

Theorem load_ignores_header junk el1 el2 k content lazy :
  el_xlat el1 = el_xlat el2 -> el_pos el1 = el_pos el2 -> el_compr el1 = el_compr el2 ->
  ident_accepted (el_xlat el1) k content = true ->
  load junk el1 k content lazy = load junk el2 k content lazy.
Proof.
  intros H1 H2 H3 Hid. unfold load. unfold ident_accepted in Hid. rewrite H1 in *.
  assert (E2 : forall h st, with_stream (with_hdr (with_segs (with_secs el1 []) []) h) st = with_stream (with_hdr (with_segs (with_secs el2 []) []) h) st).
  { intros h st. unfold with_stream, with_hdr, with_segs, with_secs. cbn. now rewrite H1, H2, H3. }
  destruct (read _ 16) as [st2 ident].
  apply Bool.andb_true_iff in Hid. destruct Hid as [Hid Hd].
  apply Bool.andb_true_iff in Hid. destruct Hid as [Hid Hc].
  apply Bool.andb_true_iff in Hid. destruct Hid as [Hl Hm].
  rewrite Hl, Hm, Hc, Hd. cbn [negb].
  destruct (read _ _) as [st4 got].
  match goal with |- (if ?c then _ else _) = (if ?c then _ else _) => destruct c end.
  - f_equal. f_equal. f_equal. apply E2.
  - rewrite E2. reflexivity.
Qed.

(* the remaining case is a genuine dependence on the past (open finding refused-load-keeps-header): an input
   refused at the identification stage leaves the previous header in place *)
Theorem load_refused_keeps_header_refuted :
  exists el1 el2 k content lazy,
    el_xlat el1 = el_xlat el2 /\ el_pos el1 = el_pos el2 /\ el_compr el1 = el_compr el2 /\
    el_secs el1 = el_secs el2 /\ el_segs el1 = el_segs el2 /\
    load (fun _ => 0) el1 k content lazy <> load (fun _ => 0) el2 k content lazy.
Proof.
  exists (empty_elfio false), (with_hdr (empty_elfio false) (Some (new_header C64 MSB))), StringBuf, [1; 2; 3], false.
  repeat split. intro H. vm_compute in H. discriminate H.
Qed.
