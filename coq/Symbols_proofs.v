(* Symbols_proofs.v — C09: symbol entries round-trip with the ABI layout; the
   hash functions equal their ABI definitions. *)
From ElfioV Require Import Bytes Mem Stream SectionData SectionData_proofs Strings Elfio Table Accessors.
From Coq Require Import ZifyBool ZifyN ZifyNat.
Local Open Scope N_scope.

Lemma wrap_wrap' w v : wrap w (wrap w v) = wrap w v.
Proof. unfold wrap. apply N.mod_mod. apply N.pow_nonzero. lia. Qed.

(* ---- entry codec ---- *)
Lemma enc_sym_len c e y : lenN (enc_sym c e y) = layout_size (sym_layout c).
Proof. destruct c; cbn [enc_sym]; apply lenN_enc_fields; reflexivity. Qed.

Definition sym_esz (c : cls) : N := layout_size (sym_layout c).
Lemma sym_esz_val c : sym_esz c = match c with C32 => 16 | C64 => 24 end.
Proof. destruct c; reflexivity. Qed.

(* decoding an encoded entry gives back the entry truncated to the field widths *)
Lemma dec_enc_sym c e y : dec_sym c e (enc_sym c e y) = trunc_sym c y.
Proof.
  destruct c; unfold dec_sym, enc_sym, trunc_sym; rewrite dec_enc_fields by reflexivity;
    cbn [sym_layout trunc_fields nthN N.eqb N.sub xw];
    change (256 ^ N.of_nat 4) with (2 ^ 32); change (256 ^ N.of_nat 8) with (2 ^ 64);
    change (256 ^ N.of_nat 1) with (2 ^ 8); change (256 ^ N.of_nat 2) with (2 ^ 16);
    reflexivity.
Qed.

Lemma trunc_sym_idem c y : trunc_sym c (trunc_sym c y) = trunc_sym c y.
Proof. unfold trunc_sym; cbn [st_name st_value st_size st_info st_other st_shndx]; unfold wrap32, wrap16, wrap8; now rewrite !wrap_wrap'. Qed.

  (* the table add_symbol builds: the null symbol, then the added ones *)
  Definition sym_table (c : cls) (e : endian) (ys : list sym) : bytes :=
    concat (map (fun y => enc_sym c e (trunc_sym c y)) ys).

  Lemma sym_num_table c e s ys cb :
    Inv s -> contents s = sym_table c e ys -> sh_entsize s = sym_esz c ->
    sh_size s <= s_stream_size s ->
    cb = cls_byte c ->
    (if (cb =? 1) || (cb =? 2) then
       let minsz := if cb =? 1 then 16 else 24 in
       if (minsz <=? sh_entsize s) && (sh_size s <=? s_stream_size s) then sh_size s / sh_entsize s else 0
     else 0) = lenN ys.
  Proof.
    intros HI HC HE HS ->.
    pose proof (lenN_contents s HI) as HL. unfold sym_table in HC.
    rewrite HC, (lenN_concat_enc _ (sym_esz c)) in HL by (intro; apply enc_sym_len).
    rewrite HE, sym_esz_val in *.
    destruct c; cbn [cls_byte N.eqb Pos.eqb orb];
      (destruct (N.leb_spec (sh_size s) (s_stream_size s)); [|lia]); cbn [N.leb N.compare Pos.compare Pos.compare_cont andb];
      rewrite <- HL; apply N.div_mul; lia.
  Qed.

  Theorem sym_roundtrip c e s ys j y :
    Inv s -> contents s = sym_table c e ys -> sh_entsize s = sym_esz c ->
    sh_size s < size_bound c ->
    nth_optN ys j = Some y ->
    sym_get_core c e s (s_data s) (lenN ys) j = Ok (Some (trunc_sym c y)).
  Proof.
    intros HI HC HE HB Hn.
    pose proof (nth_optN_lt _ _ _ Hn) as Hj.
    pose proof (lenN_contents s HI) as HL. unfold sym_table in HC.
    rewrite HC, (lenN_concat_enc _ (sym_esz c)) in HL by (intro; apply enc_sym_len).
    unfold sym_get_core.
    assert (Hd : exists b, s_data s = Some b).
    { destruct HI as (_ & _ & HD). destruct (s_data s) as [b|]; [eauto|].
      destruct HD as [H0 _]. rewrite sym_esz_val in HL. destruct c; lia. }
    destruct Hd as [b Eb]. rewrite Eb.
    destruct (N.ltb_spec j (lenN ys)); [|lia].
    rewrite HE. unfold layout_sz. fold (sym_esz c).
    assert (H64 : j * sym_esz c < 2 ^ 64).
    { pose proof (size_bound_61 c _ HB). assert (2 ^ 61 < 2 ^ 64) by (apply N.pow_lt_mono_r; lia).
      rewrite sym_esz_val in *. destruct c; nia. }
    rewrite (wrap_small 64) by exact H64.
    rewrite <- Eb.
    assert (Hn' : nth_optN (map (trunc_sym c) ys) j = Some (trunc_sym c y)).
    { clear -Hn. revert j Hn. induction ys as [|z t IH]; intros j; cbn [nth_optN map]; [discriminate|].
      destruct (N.eqb_spec j 0); [intros [= ->]; reflexivity|apply IH]. }
    assert (HC' : contents s = concat (map (enc_sym c e) (map (trunc_sym c) ys))).
    { rewrite HC, map_map. reflexivity. }
    rewrite (table_read (enc_sym c e) (sym_esz c) (fun x => enc_sym_len c e x) s _ j _ HI HC' Hn').
    cbn [bind]. rewrite dec_enc_sym, trunc_sym_idem. reflexivity.
  Qed.

  Theorem sym_out_of_range c e s p (ys : list sym) j : lenN ys <= j -> sym_get_core c e s p (lenN ys) j = Ok None.
  Proof.
    intros H. unfold sym_get_core. destruct p; [|reflexivity].
    destruct (N.ltb_spec j (lenN ys)); [lia|reflexivity].
  Qed.

Section Proofs.
  Variable junk : N -> N.
  Variable xe : bool.

  (* adding symbols to an empty section: null symbol first, then the entries *)
  Theorem sym_adds_table c e s ys :
    Inv s -> s_cls s = c -> sh_size s = 0 ->
    (lenN ys + 1) * sym_esz c < size_bound c ->
    exists s', append_all junk xe s (map (fun y => enc_sym c e (trunc_sym c y)) (mkSym 0 0 0 0 0 0 :: ys)) = Ok s' /\
      Inv s' /\ contents s' = sym_table c e (mkSym 0 0 0 0 0 0 :: ys) /\
      sh_size s' = (lenN ys + 1) * sym_esz c.
  Proof.
    intros HI HK H0 HB.
    set (all := mkSym 0 0 0 0 0 0 :: ys).
    assert (La : lenN all = lenN ys + 1) by (unfold all; rewrite lenN_cons; lia).
    destruct (append_all_spec junk xe s (map (fun y => enc_sym c e (trunc_sym c y)) all) HI) as (s' & E & I' & C' & K' & T').
    { rewrite (lenN_concat_enc _ (sym_esz c)) by (intro; apply enc_sym_len). rewrite HK, La. lia. }
    exists s'. split; [exact E|]. split; [exact I'|].
    assert (contents s = []) as Ec by (apply lenN_0; rewrite (lenN_contents s HI); exact H0).
    rewrite Ec in C'. cbn [app] in C'. split; [exact C'|].
    rewrite <- (lenN_contents s' I'), C'.
    rewrite (lenN_concat_enc _ (sym_esz c)) by (intro; apply enc_sym_len). now rewrite La.
  Qed.
End Proofs.

(* ---- hash functions equal their ABI definitions ---- *)

(* System V gABI, figure 5-12, on 32-bit unsigned integers: the only place
   where the width matters is the carry out of (h << 4) + c *)
Definition elf_hash_abi_step (h c : N) : N :=
  let h1 := (h * 16 + c) mod 2 ^ 32 in
  let g := N.land h1 4026531840 in
  let h2 := if g =? 0 then h1 else N.lxor h1 (N.shiftr g 24) in
  N.ldiff h2 g.
Definition elf_hash_abi (name : bytes) : N := fold_left elf_hash_abi_step name 0.

(* GNU hash: h = h * 33 + c, starting from 5381, modulo 2^32 *)
Definition gnu_hash_abi (name : bytes) : N := fold_left (fun h c => (h * 33 + c) mod 2 ^ 32) name 5381.

Lemma gnu_hash_step_abi h c : gnu_hash_step h c = (h * 33 + c) mod 2 ^ 32.
Proof.
  unfold gnu_hash_step, wrap32, wrap. change (2 ^ 32) with 4294967296. lia.
Qed.

Theorem gnu_hash_is_abi name : elf_gnu_hash name = gnu_hash_abi name.
Proof.
  unfold elf_gnu_hash, gnu_hash_abi. generalize 5381. induction name as [|c t IH]; intro h; cbn [fold_left].
  - reflexivity.
  - rewrite gnu_hash_step_abi. apply IH.
Qed.

(* the SysV step: as long as h < 2^28 and the character is a byte, the 32-bit
   code computes the unbounded ABI step, and the result is again < 2^28 *)
Lemma land_high_nibble x : x < 2 ^ 32 -> N.land x 4026531840 = (x / 2 ^ 28) * 2 ^ 28.
Proof.
  intros Hx. change 4026531840 with (N.shiftl (N.ones 4) 28).
  apply N.bits_inj; intro i.
  rewrite N.land_spec.
  destruct (N.lt_ge_cases i 28) as [Hi|Hi].
  - rewrite N.shiftl_spec_low by assumption. rewrite andb_false_r.
    rewrite N.mul_pow2_bits_low by assumption. reflexivity.
  - rewrite N.shiftl_spec_high' by assumption.
    rewrite N.mul_pow2_bits_high by assumption.
    rewrite N.div_pow2_bits.
    replace (i - 28 + 28) with i by lia.
    destruct (N.lt_ge_cases (i - 28) 4) as [H4|H4].
    + rewrite N.ones_spec_low by assumption. apply andb_true_r.
    + rewrite N.ones_spec_high by assumption. rewrite andb_false_r.
      symmetry. destruct (N.eq_dec x 0) as [->|Hnz]; [apply N.bits_0|].
      apply N.bits_above_log2. apply N.lt_le_trans with 32; [apply N.log2_lt_pow2; lia|lia].
Qed.

Theorem elf_hash_step_is_abi h c : h < 2 ^ 28 -> c < 256 ->
  elf_hash_step h c = elf_hash_abi_step h c /\ elf_hash_step h c < 2 ^ 28.
Proof.
  intros Hh Hc. unfold elf_hash_step, elf_hash_abi_step.
  assert (E1 : wrap32 (wrap32 (h * 16) + c) = (h * 16 + c) mod 2 ^ 32).
  { unfold wrap32, wrap. change (2 ^ 28) with 268435456 in Hh. change (2 ^ 32) with 4294967296.
    rewrite (N.mod_small (h * 16)) by lia. reflexivity. }
  rewrite E1. set (h1 := (h * 16 + c) mod 2 ^ 32).
  assert (H1 : h1 < 2 ^ 32).
  { unfold h1. apply N.mod_lt. apply N.pow_nonzero. lia. }
  set (g := N.land h1 4026531840).
  assert (Hg : g < 2 ^ 32).
  { unfold g. rewrite land_high_nibble by assumption.
    change (2 ^ 28) with 268435456. change (2 ^ 32) with 4294967296 in *. lia. }
  (* h &= ~g  in 32 bits is ldiff *)
  assert (Eng : forall x, x < 2 ^ 32 -> N.land x (wrap32 (N.lxor g 4294967295)) = N.ldiff x g).
  { intros x Hx. apply N.bits_inj; intro i.
    rewrite N.land_spec, N.ldiff_spec. unfold wrap32, wrap.
    destruct (N.lt_ge_cases i 32) as [Hi|Hi].
    - rewrite N.mod_pow2_bits_low by assumption. rewrite N.lxor_spec.
      change 4294967295 with (N.ones 32). rewrite N.ones_spec_low by assumption.
      now rewrite xorb_true_r.
    - rewrite N.mod_pow2_bits_high by assumption. rewrite andb_false_r.
      destruct (N.eq_dec x 0) as [->|Hnz]; [now rewrite N.bits_0|].
      rewrite (N.bits_above_log2 x i); [reflexivity|].
      apply N.lt_le_trans with 32; [apply N.log2_lt_pow2; lia|lia]. }
  set (h2 := if g =? 0 then h1 else N.lxor h1 (N.shiftr g 24)).
  assert (H2 : h2 < 2 ^ 32).
  { unfold h2. destruct (g =? 0); [assumption|].
    destruct (N.eq_dec (N.lxor h1 (N.shiftr g 24)) 0) as [->|Hnz]; [cbn; lia|].
    apply N.log2_lt_pow2; [lia|].
    eapply N.le_lt_trans; [apply N.log2_lxor|].
    apply N.max_lub_lt.
    - destruct (N.eq_dec h1 0) as [->|]; [cbn; lia|]. apply N.log2_lt_pow2; lia.
    - rewrite shiftr_div.
      destruct (N.eq_dec (g / 2 ^ 24) 0) as [->|]; [cbn; lia|]. apply N.log2_lt_pow2; [lia|].
      change (2 ^ 24) with 16777216. change (2 ^ 32) with 4294967296 in *. lia. }
  split; [apply Eng; exact H2|].
  rewrite Eng by exact H2.
  (* ldiff h2 g clears bits 28..31, and h2 has nothing above bit 31 *)
  destruct (N.eq_dec (N.ldiff h2 g) 0) as [->|Hnz]; [cbn; lia|].
  apply N.log2_lt_pow2; [lia|].
  assert (HB : forall i, 28 <= i -> N.testbit (N.ldiff h2 g) i = false).
  { intros i Hi. rewrite N.ldiff_spec.
    destruct (N.lt_ge_cases i 32) as [Hi32|Hi32].
    - (* bit i of g equals bit i of h1; h2 differs from h1 only below bit 8 *)
      assert (Gi : N.testbit g i = N.testbit h1 i).
      { unfold g. rewrite N.land_spec. change 4026531840 with (N.shiftl (N.ones 4) 28).
        rewrite N.shiftl_spec_high' by assumption.
        rewrite N.ones_spec_low by lia. apply andb_true_r. }
      assert (Hi2 : N.testbit h2 i = N.testbit h1 i).
      { unfold h2. destruct (g =? 0); [reflexivity|].
        rewrite N.lxor_spec, N.shiftr_spec'.
        assert (N.testbit g (i + 24) = false) as ->.
        { destruct (N.eq_dec g 0) as [->|]; [apply N.bits_0|].
          apply N.bits_above_log2. apply N.lt_le_trans with 32; [apply N.log2_lt_pow2; lia|lia]. }
        apply xorb_false_r. }
      rewrite Hi2, Gi. destruct (N.testbit h1 i); reflexivity.
    - destruct (N.eq_dec h2 0) as [->|]; [now rewrite N.bits_0|].
      rewrite (N.bits_above_log2 h2 i); [reflexivity|].
      apply N.lt_le_trans with 32; [apply N.log2_lt_pow2; lia|lia]. }
  destruct (N.lt_ge_cases (N.log2 (N.ldiff h2 g)) 28) as [|Hge]; [assumption|].
  pose proof (N.bit_log2 (N.ldiff h2 g) Hnz) as Hbit.
  rewrite HB in Hbit by assumption. discriminate.
Qed.

Theorem elf_hash_is_abi name : is_bytes name -> elf_hash name = elf_hash_abi name.
Proof.
  unfold elf_hash, elf_hash_abi.
  assert (G : forall h, h < 2 ^ 28 -> is_bytes name ->
            fold_left elf_hash_step name h = fold_left elf_hash_abi_step name h).
  { induction name as [|c t IH]; intros h Hh Hb; cbn [fold_left]; [reflexivity|].
    inversion Hb as [|? ? Hc Ht]; subst.
    destruct (elf_hash_step_is_abi h c Hh Hc) as [E L].
    rewrite <- E. apply IH; assumption. }
  intros Hb. apply G; [cbn; lia|assumption].
Qed.

(* ---------- lookup by value: the first symbol with that value ---------- *)
Fixpoint find_val (c : cls) (value : N) (l : list sym) (i : N) : option N :=
  match l with
  | [] => None
  | y :: t => if st_value (trunc_sym c y) =? value then Some i else find_val c value t (i + 1)
  end.

Lemma skipnN_nth {A} (l : list A) i x : nth_optN l i = Some x -> skipnN l i = x :: skipnN l (i + 1).
Proof.
  revert i; induction l as [|y t IH]; intros i H; cbn [nth_optN] in H; [discriminate|].
  destruct (N.eqb_spec i 0) as [Ei|Hi].
  - subst i. injection H as ->. cbn [skipnN N.add N.eqb Pos.eqb]. f_equal. cbn [N.sub]. symmetry. apply skipnN_0.
  - cbn [skipnN]. destruct (N.eqb_spec i 0); [contradiction|]. destruct (N.eqb_spec (i + 1) 0); [lia|].
    rewrite (IH _ H). f_equal. f_equal. lia.
Qed.

Theorem scan_values_first c e s ys value : forall fuel i,
  Inv s -> contents s = sym_table c e ys -> sh_entsize s = sym_esz c -> sh_size s < size_bound c ->
  i <= lenN ys -> lenN ys - i <= lenN fuel ->
  scan_values fuel (s_data s) c e (sh_entsize s) value i (lenN ys) = Ok (find_val c value (skipnN ys i) i).
Proof.
  induction fuel as [|u f IH]; intros i HI HC HE HB Hi Hf.
  - cbn [lenN] in Hf. assert (i = lenN ys) by lia. subst i. cbn [scan_values]. rewrite N.ltb_irrefl.
    rewrite skipnN_all by lia. reflexivity.
  - rewrite lenN_cons in Hf. cbn [scan_values]. destruct (N.ltb_spec i (lenN ys)) as [Hlt|Hge].
    + destruct (nth_optN_some ys i Hlt) as (y & Hy).
      pose proof (sym_roundtrip c e s ys i y HI HC HE HB Hy) as R. unfold sym_get_core in R.
      destruct (s_data s) as [b|] eqn:Eb.
      * destruct (N.ltb_spec i (lenN ys)); [|lia].
        destruct (rd (Some b) (wrap64 (i * sh_entsize s)) (layout_sz (sym_layout c))) as [ent|] eqn:Er; [|discriminate].
        cbn [bind] in R |- *. injection R as R. rewrite R.
        rewrite (skipnN_nth ys i y Hy). cbn [find_val].
        destruct (st_value (trunc_sym c y) =? value); [reflexivity|].
        apply IH; try assumption; lia.
      * discriminate.
    + assert (i = lenN ys) by lia. subst i. rewrite skipnN_all by lia. reflexivity.
Qed.
