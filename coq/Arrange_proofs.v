(* Arrange_proofs.v — C10: the two-cursor arrangement of local symbols is a
   partition, a permutation, and its swap log keeps every index on target. *)
From ElfioV Require Import Bytes Mem Stream SectionData Strings Elfio Table Accessors.
From Coq Require Import ZifyBool ZifyN ZifyNat Permutation.
Local Open Scope N_scope.

(* ---------- N-indexed list facts ---------- *)
(* swapping two positions *)
Definition swapL {A} (l : list A) (i j : N) : list A :=
  match nth_optN l i, nth_optN l j with
  | Some x, Some y => updN (updN l i y) j x
  | _, _ => l
  end.
Lemma lenN_swapL {A} (l : list A) i j : lenN (swapL l i j) = lenN l.
Proof. unfold swapL. destruct (nth_optN l i), (nth_optN l j); try reflexivity. now rewrite !lenN_updN. Qed.

Definition swap1 (a b r : N) : N := if r =? a then b else if r =? b then a else r.

Lemma nth_swapL {A} (l : list A) i j q : i < lenN l -> j < lenN l -> i <> j ->
  nth_optN (swapL l i j) (swap1 i j q) = nth_optN l q.
Proof.
  intros Hi Hj Hne. unfold swapL.
  destruct (nth_optN_some l i Hi) as [x Hx]. destruct (nth_optN_some l j Hj) as [y Hy]. rewrite Hx, Hy.
  unfold swap1. destruct (N.eqb_spec q i) as [->|Hqi].
  - rewrite nth_optN_updN_same by (rewrite lenN_updN; exact Hj). now rewrite Hx.
  - destruct (N.eqb_spec q j) as [->|Hqj].
    + rewrite nth_optN_updN_other by lia. rewrite nth_optN_updN_same by exact Hi. now rewrite Hy.
    + rewrite !nth_optN_updN_other by lia. reflexivity.
Qed.
Lemma nth_swapL_other {A} (l : list A) i j k : k <> i -> k <> j -> nth_optN (swapL l i j) k = nth_optN l k.
Proof.
  intros H1 H2. unfold swapL. destruct (nth_optN l i), (nth_optN l j); try reflexivity.
  rewrite !nth_optN_updN_other by lia. reflexivity.
Qed.
Lemma nth_swapL_left {A} (l : list A) i j y : i < lenN l -> i <> j -> nth_optN l j = Some y -> nth_optN (swapL l i j) i = Some y.
Proof.
  intros Hi Hne Hy. pose proof (nth_optN_lt _ _ _ Hy) as Hj.
  rewrite <- Hy. rewrite <- (nth_swapL l i j j Hi Hj Hne). unfold swap1.
  destruct (N.eqb_spec j i); [lia|]. now rewrite N.eqb_refl.
Qed.

Lemma updN_split {A} (l : list A) i x v : nth_optN l i = Some x ->
  exists l1 l2, l = l1 ++ x :: l2 /\ lenN l1 = i /\ updN l i v = l1 ++ v :: l2.
Proof.
  revert i; induction l as [|y t IH]; intros i H; cbn [nth_optN] in H; [discriminate|].
  cbn [updN]. destruct (N.eqb_spec i 0) as [E|E].
  - injection H as ->. exists [], t. subst i. auto.
  - destruct (IH _ H) as (l1 & l2 & -> & Hl & Hu). exists (y :: l1), l2. rewrite lenN_cons, Hu. repeat split. lia.
Qed.

Lemma swapL_perm {A} (l : list A) i j : Permutation (swapL l i j) l.
Proof.
  unfold swapL. destruct (nth_optN l i) as [x|] eqn:Hx; [|reflexivity].
  destruct (nth_optN l j) as [y|] eqn:Hy; [|reflexivity].
  destruct (N.eq_dec i j) as [->|Hne].
  - assert (x = y) by congruence. subst y.
    destruct (updN_split l j x x Hx) as (l1 & l2 & E & Hl & Hu).
    assert (E1 : updN l j x = l). { rewrite Hu. now symmetry. }
    rewrite E1, E1. reflexivity.
  - destruct (updN_split l i x y Hx) as (l1 & l2 & E & Hl & Hu). rewrite Hu.
    assert (Hy' : nth_optN (l1 ++ y :: l2) j = Some y).
    { rewrite <- Hu. rewrite nth_optN_updN_other by exact Hne. exact Hy. }
    destruct (updN_split _ j y x Hy') as (m1 & m2 & E2 & Hm & Hu2). rewrite Hu2.
    (* l1 ++ y :: l2 = m1 ++ y :: m2, and the result is m1 ++ x :: m2 *)
    transitivity (x :: m1 ++ m2); [symmetry; apply Permutation_middle|].
    transitivity (x :: l1 ++ l2).
    + apply perm_skip. apply Permutation_cons_inv with (a := y).
      transitivity (m1 ++ y :: m2); [apply Permutation_middle|]. rewrite <- E2. symmetry. apply Permutation_middle.
    + rewrite E. apply Permutation_middle.
Qed.

(* ---------- the table as a byte buffer ---------- *)
Lemma sliceN_app_l {A} (a b : list A) off n : off + n <= lenN a -> sliceN (a ++ b) off n = sliceN a off n.
Proof.
  intros H. unfold sliceN. rewrite skipnN_app_le by lia. apply firstnN_app_le. rewrite lenN_skipnN. lia.
Qed.
Lemma skipnN_skipnN {A} (l : list A) a b : skipnN (skipnN l a) b = skipnN l (a + b).
Proof.
  revert a b; induction l as [|x t IH]; intros a b; cbn [skipnN].
  - destruct (a =? 0); cbn [skipnN]; destruct (b =? 0); destruct (a + b =? 0); reflexivity.
  - destruct (N.eqb_spec a 0) as [E|E].
    + subst a. reflexivity.
    + destruct (N.eqb_spec (a + b) 0); [lia|]. rewrite IH. f_equal. lia.
Qed.
Lemma sliceN_sliceN {A} (l : list A) a n b m : b + m <= n -> sliceN (sliceN l a n) b m = sliceN l (a + b) m.
Proof.
  intros H. unfold sliceN. rewrite <- skipnN_skipnN.
  generalize (skipnN l a). intro l'. rewrite !firstnN_firstn, !skipnN_skipn.
  rewrite skipn_firstn_comm, firstn_firstn. f_equal. lia.
Qed.
Lemma sliceN_one {A} (l : list A) off d : off < lenN l -> sliceN l off 1 = [nthN l off d].
Proof.
  revert off; induction l as [|x t IH]; intros off H; [cbn in H; lia|]. rewrite lenN_cons in H.
  unfold sliceN. cbn [skipnN nthN]. destruct (N.eqb_spec off 0) as [E|E].
  - cbn [firstnN]. destruct (N.eqb_spec 1 0); [lia|]. now rewrite firstnN_0.
  - apply IH. lia.
Qed.


(* ---------- swap logs ---------- *)
Definition retarget (log : list (N * N)) (r : N) : N := fold_left (fun q p => swap1 (fst p) (snd p) q) log r.
Definition apply_swaps {A} (log : list (N * N)) (l : list A) : list A :=
  fold_left (fun l p => swapL l (fst p) (snd p)) log l.
Definition swaps_in (n : N) (log : list (N * N)) : Prop :=
  Forall (fun p => 1 <= fst p /\ fst p < snd p /\ snd p < n) log.

Lemma apply_swaps_len {A} log : forall l : list A, lenN (apply_swaps log l) = lenN l.
Proof.
  induction log as [|p t IH]; intro l; cbn [apply_swaps fold_left]; [reflexivity|].
  fold (apply_swaps t (swapL l (fst p) (snd p))). rewrite IH. apply lenN_swapL.
Qed.
Lemma apply_swaps_perm {A} log : forall l : list A, Permutation (apply_swaps log l) l.
Proof.
  induction log as [|p t IH]; intro l; cbn [apply_swaps fold_left]; [reflexivity|].
  fold (apply_swaps t (swapL l (fst p) (snd p))). rewrite IH. apply swapL_perm.
Qed.
Lemma apply_swaps_first {A} log : forall l : list A, swaps_in (lenN l) log ->
  nth_optN (apply_swaps log l) 0 = nth_optN l 0.
Proof.
  induction log as [|p t IH]; intros l H; cbn [apply_swaps fold_left]; [reflexivity|].
  fold (apply_swaps t (swapL l (fst p) (snd p))). inversion H as [|? ? (P1 & P2 & P3) Ht]; subst.
  rewrite IH by (rewrite lenN_swapL; exact Ht). apply nth_swapL_other; lia.
Qed.
Lemma apply_swaps_retarget {A} log : forall (l : list A) q, swaps_in (lenN l) log ->
  nth_optN (apply_swaps log l) (retarget log q) = nth_optN l q.
Proof.
  induction log as [|p t IH]; intros l q H; cbn [apply_swaps retarget fold_left]; [reflexivity|].
  fold (apply_swaps t (swapL l (fst p) (snd p))). fold (retarget t (swap1 (fst p) (snd p) q)).
  inversion H as [|? ? (P1 & P2 & P3) Ht]; subst.
  rewrite IH by (rewrite lenN_swapL; exact Ht). apply nth_swapL; lia.
Qed.

Lemma nthN_app_ge {A} (a b : list A) n d : lenN a <= n -> nthN (a ++ b) n d = nthN b (n - lenN a) d.
Proof.
  revert n; induction a as [|x t IH]; intros n H; cbn [app lenN].
  - now rewrite N.sub_0_r.
  - rewrite lenN_cons in H. cbn [nthN]. destruct (N.eqb_spec n 0); [lia|].
    rewrite IH by lia. f_equal. fold (@lenN A t). lia.
Qed.
Lemma enc_uint_one e v : enc_uint e 1 v = [v mod 256].
Proof. destruct e; reflexivity. Qed.

Section Arrange.
  Context {E : Type}.
  Variable enc : E -> bytes.
  Variable c : cls.
  Variable locE : E -> bool.
  Let esz := layout_sz (sym_layout c).
  Let ioff := sym_info_off c.
  Hypothesis enc_len : forall x, lenN (enc x) = esz.
  Hypothesis enc_loc : forall x, (N.shiftr (nthN (enc x) ioff 0) 4 =? STB_LOCAL) = locE x.

  Lemma esz_val : esz = match c with C32 => 16 | C64 => 24 end.
  Proof. unfold esz. destruct c; reflexivity. Qed.
  Lemma ioff_lt : ioff < esz.
  Proof. rewrite esz_val. unfold ioff. destruct c; cbn; lia. Qed.
  Lemma esz_pos : 0 < esz. Proof. pose proof ioff_lt; lia. Qed.

  Definition tbl (es : list E) (tl : bytes) : bytes := concat (map enc es) ++ tl.

  Lemma lenN_tbl es tl : lenN (tbl es tl) = lenN es * esz + lenN tl.
  Proof. unfold tbl. rewrite lenN_app, (lenN_concat_enc enc esz enc_len). reflexivity. Qed.

  Lemma rd_entry es tl i x : nth_optN es i = Some x -> rd (Some (tbl es tl)) (i * esz) esz = Ok (enc x).
  Proof.
    intros H. pose proof (nth_optN_lt _ _ _ H) as Hi.
    rewrite rd_some by (rewrite lenN_tbl; nia).
    unfold tbl. rewrite sliceN_app_l by (rewrite (lenN_concat_enc enc esz enc_len); nia).
    f_equal. now apply (slice_concat_enc enc esz enc_len).
  Qed.

  Lemma rd_info es tl i x : nth_optN es i = Some x ->
    rd (Some (tbl es tl)) (i * esz + ioff) 1 = Ok [nthN (enc x) ioff 0].
  Proof.
    intros H. pose proof (nth_optN_lt _ _ _ H) as Hi. pose proof ioff_lt as Ho.
    rewrite rd_some by (rewrite lenN_tbl; nia).
    unfold tbl. rewrite sliceN_app_l by (rewrite (lenN_concat_enc enc esz enc_len); nia).
    rewrite <- (sliceN_sliceN _ (i * esz) esz ioff 1) by lia.
    rewrite (slice_concat_enc enc esz enc_len es i x H).
    f_equal. apply sliceN_one. rewrite enc_len. exact Ho.
  Qed.

  Lemma concat_upd es i x y : nth_optN es i = Some x ->
    overlay (tbl es []) (i * esz) (enc y) = tbl (updN es i y) [].
  Proof.
    intros H. destruct (updN_split es i x y H) as (l1 & l2 & -> & Hl & ->).
    unfold tbl. rewrite !app_nil_r, !map_app, !concat_app. cbn [map concat].
    apply overlay_mid.
    - rewrite (lenN_concat_enc enc esz enc_len). now rewrite Hl.
    - now rewrite !enc_len.
  Qed.

  Lemma wr_entry es tl i x y : nth_optN es i = Some x ->
    wr (Some (tbl es tl)) (i * esz) (enc y) = Ok (Some (tbl (updN es i y) tl)).
  Proof.
    intros H. pose proof (nth_optN_lt _ _ _ H) as Hi.
    rewrite wr_some by (rewrite lenN_tbl, enc_len; nia).
    f_equal. f_equal.
    pose proof (concat_upd es i x y H) as HC. unfold tbl in *. rewrite !app_nil_r in HC.
    unfold overlay in *. rewrite enc_len in *.
    assert (L : lenN (concat (map enc es)) = lenN es * esz) by apply (lenN_concat_enc enc esz enc_len).
    rewrite firstnN_app_le by nia. rewrite skipnN_app_le by nia.
    rewrite <- HC. rewrite <- !app_assoc. reflexivity.
  Qed.

  Lemma wrap64_idx (es : list E) i : lenN es * esz < 2 ^ 64 -> i < lenN es -> wrap64 (i * esz) = i * esz.
  Proof. intros H Hi. unfold wrap64, wrap. apply N.mod_small. nia. Qed.

  Lemma scan_spec fuel (es : list E) tl want : forall i,
    lenN es * esz < 2 ^ 64 -> lenN es < i + lenN fuel ->
    exists r, scan_bind fuel (Some (tbl es tl)) c esz want i (lenN es) = Ok r /\
      i <= r /\ (i <= lenN es -> r <= lenN es) /\ (lenN es <= i -> r = i) /\
      (forall k x, i <= k -> k < r -> nth_optN es k = Some x -> locE x = negb want) /\
      (r < lenN es -> exists x, nth_optN es r = Some x /\ locE x = want).
  Proof.
    induction fuel as [|u f IH]; intros i H64 Hf.
    - cbn [lenN] in Hf. exists i. unfold scan_bind.
      destruct (N.ltb_spec i (lenN es)); [lia|]. repeat split; try lia; intros; lia.
    - rewrite lenN_cons in Hf. cbn [scan_bind].
      destruct (N.ltb_spec i (lenN es)) as [Hi|Hi].
      + destruct (nth_optN_some es i Hi) as [x Hx].
        rewrite (wrap64_idx es i H64 Hi). fold ioff. rewrite (rd_info es tl i x Hx). cbn [bind nthN N.eqb].
        rewrite enc_loc. destruct (Bool.eqb (locE x) want) eqn:Eb.
        * apply Bool.eqb_prop in Eb. exists i. repeat split; try lia. intros _. exists x. auto.
        * destruct (IH (i + 1) H64 ltac:(lia)) as (r & -> & R1 & R2 & R3 & R4 & R5).
          exists r. split; [reflexivity|]. split; [lia|]. split; [intros; apply R2; lia|]. split; [lia|].
          split; [|exact R5]. intros k y Hk1 Hk2 Hy.
          destruct (N.eq_dec k i) as [->|Hne].
          -- rewrite Hx in Hy. injection Hy as <-. apply Bool.eqb_false_iff in Eb.
             destruct (locE x), want; cbn; congruence.
          -- apply (R4 k y); try lia. exact Hy.
      + exists i. repeat split; try lia; intros; lia.
  Qed.

  Definition locals_upto (es : list E) (f : N) : Prop :=
    forall k x, 1 <= k -> k < f -> nth_optN es k = Some x -> locE x = true.
  Definition nonlocals_from (es : list E) (f : N) : Prop :=
    forall k x, f <= k -> nth_optN es k = Some x -> locE x = false.
  Definition nonloc_at (es : list E) (k : N) : bool :=
    match nth_optN es k with Some x => negb (locE x) | None => false end.
  Definition mu (es : list E) (fnl : N) : N := 2 * (lenN es - fnl) + (if nonloc_at es fnl then 1 else 0).

  Lemma loop_spec fuel : forall (es : list E) tl fnl log,
    lenN es * esz < 2 ^ 64 -> 1 <= fnl -> fnl <= lenN es ->
    locals_upto es fnl -> mu es fnl < lenN fuel ->
    exists es' r log',
      arrange_loop fuel (Some (tbl es tl)) c esz (lenN es) fnl log = Ok (Some (tbl es' tl), r, log ++ log') /\
      es' = apply_swaps log' es /\ lenN es' = lenN es /\ fnl <= r /\ r <= lenN es /\
      locals_upto es' r /\ nonlocals_from es' r /\ swaps_in (lenN es) log'.
  Proof.
    induction fuel as [|u f IH]; intros es tl fnl log H64 H1 Hle Hloc Hmu; [cbn [lenN] in Hmu; lia|].
    rewrite lenN_cons in Hmu. cbn [arrange_loop].
    pose proof esz_pos as Hesz. pose proof (lenN_tbl es tl) as HL.
    assert (Hfuel : forall i, lenN es < i + lenN (0 :: tbl es tl)).
    { intro i. rewrite lenN_cons, HL. nia. }
    destruct (scan_spec (0 :: tbl es tl) es tl false fnl H64 (Hfuel _)) as (fnl1 & -> & A1 & A2 & _ & A4 & A5).
    cbn [bind]. specialize (A2 Hle).
    assert (W1 : wrap64 (fnl1 + 1) = fnl1 + 1).
    { unfold wrap64, wrap. apply N.mod_small. rewrite esz_val in *. destruct c; nia. }
    rewrite W1.
    destruct (scan_spec (0 :: tbl es tl) es tl true (fnl1 + 1) H64 (Hfuel _)) as (cur & -> & B1 & B2 & B3 & B4 & B5).
    cbn [bind].
    destruct (N.ltb_spec fnl1 (lenN es)) as [Hf1|Hf1]; cbn [andb].
    - destruct (N.ltb_spec cur (lenN es)) as [Hc|Hc].
      + (* swap and continue *)
        destruct (A5 Hf1) as (x & Hx & Lx). destruct (B5 Hc) as (y & Hy & Ly).
        rewrite (wrap64_idx es fnl1 H64 Hf1), (wrap64_idx es cur H64 Hc).
        change (layout_sz (sym_layout c)) with esz.
        rewrite (rd_entry es tl fnl1 x Hx), (rd_entry es tl cur y Hy). cbn [bind].
        rewrite (wr_entry es tl fnl1 x y Hx). cbn [bind].
        assert (Hy2 : nth_optN (updN es fnl1 y) cur = Some y).
        { rewrite nth_optN_updN_other by lia. exact Hy. }
        assert (W2 : wrap64 (cur * esz) = cur * esz) by (apply (wrap64_idx es); assumption).
        rewrite (wr_entry (updN es fnl1 y) tl cur y x Hy2). cbn [bind].
        assert (Esw : updN (updN es fnl1 y) cur x = swapL es fnl1 cur).
        { unfold swapL. now rewrite Hx, Hy. }
        rewrite Esw. set (es1 := swapL es fnl1 cur).
        assert (L1 : lenN es1 = lenN es) by apply lenN_swapL.
        assert (Hloc1 : locals_upto es1 fnl1).
        { intros k z Hk1 Hk2 Hz. unfold es1 in Hz. rewrite nth_swapL_other in Hz by lia.
          destruct (N.lt_ge_cases k fnl) as [Hk|Hk]; [now apply (Hloc k z)|].
          apply (A4 k z); assumption. }
        assert (Hmu1 : mu es1 fnl1 < lenN f).
        { unfold mu in *. rewrite L1.
          assert (N1 : nonloc_at es1 fnl1 = false).
          { unfold nonloc_at, es1. rewrite (nth_swapL_left es fnl1 cur y Hf1 ltac:(lia) Hy). now rewrite Ly. }
          rewrite N1. destruct (N.eq_dec fnl1 fnl) as [Ef|Ef].
          - subst fnl1. assert (N0 : nonloc_at es fnl = true) by (unfold nonloc_at; now rewrite Hx, Lx).
            rewrite N0 in Hmu. lia.
          - destruct (nonloc_at es fnl); lia. }
        rewrite <- L1.
        destruct (IH es1 tl fnl1 (log ++ [(fnl1, cur)]) ltac:(rewrite L1; exact H64) ltac:(lia) ltac:(lia) Hloc1 Hmu1)
          as (es' & r & log2 & -> & E1 & E2 & E3 & E4 & E5 & E6 & E7).
        exists es', r, ((fnl1, cur) :: log2). rewrite <- app_assoc. cbn [app].
        split; [reflexivity|]. split; [exact E1|]. split; [lia|]. split; [lia|]. split; [lia|].
        split; [exact E5|]. split; [exact E6|].
        constructor; [cbn [fst snd]; lia|exact E7].
      + (* done: the first non-local has no local after it *)
        exists es, fnl1, []. rewrite app_nil_r. split; [reflexivity|]. split; [reflexivity|]. split; [reflexivity|].
        split; [lia|]. split; [lia|]. split; [|split; [|constructor]].
        * intros k z Hk1 Hk2 Hz. destruct (N.lt_ge_cases k fnl) as [Hk|Hk]; [now apply (Hloc k z)|]. now apply (A4 k z).
        * intros k z Hk Hz. pose proof (nth_optN_lt _ _ _ Hz) as Hkl.
          destruct (N.eq_dec k fnl1) as [->|Hne].
          -- destruct (A5 Hf1) as (x & Hx & Lx). congruence.
          -- apply (B4 k z); try lia. exact Hz.
    - (* every symbol is local *)
      exists es, fnl1, []. rewrite app_nil_r. split; [reflexivity|]. split; [reflexivity|]. split; [reflexivity|].
      split; [lia|]. split; [lia|]. split; [|split; [|constructor]].
      + intros k z Hk1 Hk2 Hz. destruct (N.lt_ge_cases k fnl) as [Hk|Hk]; [now apply (Hloc k z)|]. now apply (A4 k z).
      + intros k z Hk Hz. pose proof (nth_optN_lt _ _ _ Hz). lia.
  Qed.

  (* the whole loop as arrange_local_symbols runs it: first_not_local = 1, empty log *)
  Theorem arrange_loop_correct (es : list E) tl :
    1 <= lenN es -> lenN es * esz < 2 ^ 64 ->
    exists es' r log,
      arrange_loop (0 :: 0 :: tbl es tl) (Some (tbl es tl)) c esz (lenN es) 1 [] = Ok (Some (tbl es' tl), r, log) /\
      Permutation es' es /\ lenN es' = lenN es /\ nth_optN es' 0 = nth_optN es 0 /\
      1 <= r /\ r <= lenN es /\
      (forall k x, 1 <= k -> k < r -> nth_optN es' k = Some x -> locE x = true) /\
      (forall k x, r <= k -> nth_optN es' k = Some x -> locE x = false) /\
      (forall q, nth_optN es' (retarget log q) = nth_optN es q) /\
      swaps_in (lenN es) log.
  Proof.
    intros H1 H64. pose proof esz_pos as Hesz.
    assert (Hloc : locals_upto es 1) by (intros k x ? ?; lia).
    assert (Hmu : mu es 1 < lenN (0 :: 0 :: tbl es tl)).
    { unfold mu. rewrite !lenN_cons, lenN_tbl. rewrite esz_val in *. destruct (nonloc_at es 1); destruct c; nia. }
    destruct (loop_spec _ es tl 1 [] H64 ltac:(lia) H1 Hloc Hmu) as (es' & r & log & -> & E1 & E2 & E3 & E4 & E5 & E6 & E7).
    exists es', r, log. cbn [app]. split; [reflexivity|]. subst es'.
    split; [apply apply_swaps_perm|]. split; [exact E2|]. split; [now apply apply_swaps_first|].
    split; [exact E3|]. split; [exact E4|]. split; [exact E5|]. split; [exact E6|].
    split; [|exact E7]. intro q. now apply apply_swaps_retarget.
  Qed.
End Arrange.

(* ---------- instantiation: symbol records of either class and byte order ---------- *)
Definition sym_is_local (x : sym) : bool := N.shiftr (st_info x mod 256) 4 =? STB_LOCAL.

Lemma lenN_enc_sym c e x : lenN (enc_sym c e x) = layout_sz (sym_layout c).
Proof. destruct c; unfold enc_sym; rewrite lenN_enc_fields; reflexivity. Qed.

Lemma enc_sym_info c e x : nthN (enc_sym c e x) (sym_info_off c) 0 = st_info x mod 256.
Proof.
  destruct c; unfold enc_sym, sym_info_off, sym_layout; cbn [enc_fields].
  - do 3 (rewrite nthN_app_ge by (rewrite lenN_enc_uint; cbn; lia); rewrite lenN_enc_uint).
    rewrite enc_uint_one. reflexivity.
  - rewrite nthN_app_ge by (rewrite lenN_enc_uint; cbn; lia). rewrite lenN_enc_uint.
    rewrite enc_uint_one. reflexivity.
Qed.

Theorem arrange_symbols_correct c e (syms : list sym) tl :
  let esz := layout_sz (sym_layout c) in
  let tb := fun l => concat (map (enc_sym c e) l) ++ tl in
  1 <= lenN syms -> lenN syms * esz < 2 ^ 64 ->
  exists syms' r log,
    arrange_loop (0 :: 0 :: tb syms) (Some (tb syms)) c esz (lenN syms) 1 [] = Ok (Some (tb syms'), r, log) /\
    Permutation syms' syms /\ lenN syms' = lenN syms /\ nth_optN syms' 0 = nth_optN syms 0 /\
    1 <= r /\ r <= lenN syms /\
    (forall k x, 1 <= k -> k < r -> nth_optN syms' k = Some x -> sym_is_local x = true) /\
    (forall k x, r <= k -> nth_optN syms' k = Some x -> sym_is_local x = false) /\
    (forall q, nth_optN syms' (retarget log q) = nth_optN syms q) /\
    swaps_in (lenN syms) log.
Proof.
  cbv zeta. intros H1 H64.
  apply (arrange_loop_correct (enc_sym c e) c sym_is_local (lenN_enc_sym c e)); try assumption.
  intro x. rewrite enc_sym_info. reflexivity.
Qed.

(* ---------- the accessor call itself ---------- *)
Lemma get_upd_sec el i s : i < lenN (el_secs el) -> get_sec (upd_sec el i s) i = Some s.
Proof. intros H. unfold get_sec, upd_sec. destruct el; cbn. now apply nth_optN_updN_same. Qed.

Theorem arrange_local_symbols_correct junk el symsec el1 s s1 c e (syms : list sym) tl :
  let esz := layout_sz (sym_layout c) in
  let tb := fun l => concat (map (enc_sym c e) l) ++ tl in
  sec_data junk el symsec = Ok (el1, Some (tb syms), s) ->          (* the table's bytes are resident *)
  acls el1 = c -> sh_entsize s = esz -> get_symbols_num el1 s = lenN syms ->
  get_sec el1 symsec = Some s1 ->
  1 <= lenN syms -> lenN syms * esz < 2 ^ 64 ->
  exists el2 s2 syms' r log,
    arrange_local_symbols junk el symsec = Ok (el2, r, log) /\
    get_sec el2 symsec = Some s2 /\ s_data s2 = Some (tb syms') /\ sh_info s2 = wrap32 r /\
    Permutation syms' syms /\ lenN syms' = lenN syms /\ nth_optN syms' 0 = nth_optN syms 0 /\
    1 <= r /\ r <= lenN syms /\
    (forall k x, 1 <= k -> k < r -> nth_optN syms' k = Some x -> sym_is_local x = true) /\
    (forall k x, r <= k -> nth_optN syms' k = Some x -> sym_is_local x = false) /\
    (forall q, nth_optN syms' (retarget log q) = nth_optN syms q) /\
    swaps_in (lenN syms) log /\ el2 = upd_sec el1 symsec s2.
Proof.
  cbv zeta. intros Hd Hc He Hn Hg H1 H64.
  destruct (arrange_symbols_correct c e syms tl H1 H64) as (syms' & r & log & HL & P1 & P2 & P3 & P4 & P5 & P6 & P7 & P8 & P9).
  cbv zeta in HL.
  unfold arrange_local_symbols. rewrite Hd. cbn [bind]. rewrite Hc, He, Hn, HL. cbn [bind]. rewrite Hg.
  eexists _, _, syms', r, log. split; [reflexivity|].
  split; [apply get_upd_sec; unfold get_sec in Hg; now apply nth_optN_lt in Hg|].
  split; [reflexivity|]. split; [reflexivity|]. auto 12.
Qed.
