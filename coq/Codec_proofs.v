(* Codec_proofs.v — the ELF header, section header and program header records:
   decoding the bytes the writer emits (= the gABI field order and widths in
   the file's byte order) gives back every field (C02/C03/C05). *)
From ElfioV Require Import Bytes Mem Stream SectionData Strings Elfio Table Loader.
From Coq Require Import ZifyBool ZifyN ZifyNat.
Local Open Scope N_scope.

Definition fw (c : cls) : N := 256 ^ (match c with C32 => 4 | C64 => 8 end).

(* every field fits its on-disk width *)
Definition ehdr_wf (h : ehdr) : Prop :=
  lenN (e_ident h) = 16 /\
  e_type h < 256 ^ 2 /\ e_machine h < 256 ^ 2 /\ e_version h < 256 ^ 4 /\
  e_entry h < fw (e_cls h) /\ e_phoff h < fw (e_cls h) /\ e_shoff h < fw (e_cls h) /\
  e_flags h < 256 ^ 4 /\ e_ehsize h < 256 ^ 2 /\ e_phentsize h < 256 ^ 2 /\ e_phnum h < 256 ^ 2 /\
  e_shentsize h < 256 ^ 2 /\ e_shnum h < 256 ^ 2 /\ e_shstrndx h < 256 ^ 2.

Lemma mod_small' v w : v < w -> v mod w = v. Proof. intros; apply N.mod_small; assumption. Qed.

Theorem ehdr_roundtrip h : ehdr_wf h -> ehdr_of_bytes (e_cls h) (e_enc h) (ehdr_bytes h) = h.
Proof.
  intros (Hi & H1 & H2 & H3 & H4 & H5 & H6 & H7 & H8 & H9 & H10 & H11 & H12 & H13).
  unfold ehdr_of_bytes, ehdr_bytes.
  rewrite skipnN_app_exact by exact Hi. rewrite firstnN_app_exact by exact Hi.
  rewrite dec_enc_fields by (destruct (e_cls h); reflexivity).
  destruct h as [c e id t m v en po so fl es pe pn se sn sx]. cbn [Elfio.e_cls Elfio.e_enc Elfio.e_ident Elfio.e_type
    Elfio.e_machine Elfio.e_version Elfio.e_entry Elfio.e_phoff Elfio.e_shoff Elfio.e_flags Elfio.e_ehsize
    Elfio.e_phentsize Elfio.e_phnum Elfio.e_shentsize Elfio.e_shnum Elfio.e_shstrndx] in *.
  unfold fw in *.
  destruct c; cbn [ehdr_layout trunc_fields nthN N.eqb N.sub N.of_nat Pos.of_succ_nat Pos.succ Pos.pred_double Pos.pred_N] in *;
    repeat (rewrite mod_small' by assumption); reflexivity.
Qed.

(* section headers *)
Definition shdr_wf (s : section) : Prop :=
  let w := fw (s_cls s) in
  sh_name s < 256 ^ 4 /\ sh_type s < 256 ^ 4 /\ sh_flags s < w /\ sh_addr s < w /\ sh_offset s < w /\ sh_size s < w /\
  sh_link s < 256 ^ 4 /\ sh_info s < 256 ^ 4 /\ sh_addralign s < w /\ sh_entsize s < w.

Theorem shdr_roundtrip enc s0 s :
  s_cls s0 = s_cls s -> shdr_wf s ->
  let r := sec_with_raw enc s0 (shdr_bytes enc s) in
  sh_name r = sh_name s /\ sh_type r = sh_type s /\ sh_flags r = sh_flags s /\ sh_addr r = sh_addr s /\
  sh_offset r = sh_offset s /\ sh_size r = sh_size s /\ sh_link r = sh_link s /\ sh_info r = sh_info s /\
  sh_addralign r = sh_addralign s /\ sh_entsize r = sh_entsize s.
Proof.
  intros Hc (H1 & H2 & H3 & H4 & H5 & H6 & H7 & H8 & H9 & H10). cbv zeta.
  unfold sec_with_raw, shdr_bytes. rewrite Hc.
  rewrite dec_enc_fields by (destruct (s_cls s); reflexivity).
  unfold fw in *.
  destruct (s_cls s); cbn [shdr_layout trunc_fields nthN N.eqb N.sub N.of_nat Pos.of_succ_nat Pos.succ Pos.pred_double Pos.pred_N
                           with_raw_header SectionData.sh_name SectionData.sh_type SectionData.sh_flags SectionData.sh_addr SectionData.sh_offset
                           SectionData.sh_size SectionData.sh_link SectionData.sh_info SectionData.sh_addralign SectionData.sh_entsize] in *;
    repeat (rewrite mod_small' by assumption); repeat split; reflexivity.
Qed.

(* program headers *)
Definition phdr_wf (g : segment) : Prop :=
  let w := fw (g_cls g) in
  p_type g < 256 ^ 4 /\ p_flags g < 256 ^ 4 /\ p_offset g < w /\ p_vaddr g < w /\ p_paddr g < w /\
  p_filesz g < w /\ p_memsz g < w /\ p_align g < w.

Theorem phdr_roundtrip enc g0 g ss lz :
  g_cls g0 = g_cls g -> phdr_wf g ->
  let r := seg_of_raw enc g0 (phdr_bytes enc g) ss lz in
  p_type r = p_type g /\ p_flags r = p_flags g /\ p_offset r = p_offset g /\ p_vaddr r = p_vaddr g /\
  p_paddr r = p_paddr g /\ p_filesz r = p_filesz g /\ p_memsz r = p_memsz g /\ p_align r = p_align g.
Proof.
  intros Hc (H1 & H2 & H3 & H4 & H5 & H6 & H7 & H8). cbv zeta.
  unfold seg_of_raw, phdr_bytes. rewrite Hc. unfold fw in *.
  destruct (g_cls g); rewrite dec_enc_fields by reflexivity;
    cbn [phdr_layout trunc_fields nthN N.eqb N.sub N.of_nat Pos.of_succ_nat Pos.succ Pos.pred_double Pos.pred_N
         seg_with_raw Elfio.p_type Elfio.p_flags Elfio.p_offset Elfio.p_vaddr Elfio.p_paddr Elfio.p_filesz Elfio.p_memsz Elfio.p_align] in *;
    repeat (rewrite mod_small' by assumption); repeat split; reflexivity.
Qed.

(* record sizes: what the writer emits per record is exactly one table entry *)
Lemma lenN_ehdr_bytes h : lenN (e_ident h) = 16 -> lenN (ehdr_bytes h) = ehdr_size (e_cls h).
Proof.
  intros Hi. unfold ehdr_bytes. rewrite lenN_app, Hi, lenN_enc_fields by (destruct (e_cls h); reflexivity).
  destruct (e_cls h); reflexivity.
Qed.
Lemma lenN_shdr_bytes enc s : lenN (shdr_bytes enc s) = shdr_size (s_cls s).
Proof. unfold shdr_bytes. rewrite lenN_enc_fields by (destruct (s_cls s); reflexivity). destruct (s_cls s); reflexivity. Qed.
Lemma lenN_phdr_bytes enc g : lenN (phdr_bytes enc g) = phdr_size (g_cls g).
Proof. unfold phdr_bytes. destruct (g_cls g); rewrite lenN_enc_fields by reflexivity; reflexivity. Qed.

(* ---------- membership of sections in segments (C02) ---------- *)
Theorem is_sect_in_seg_spec b sz sb se :
  b + sz < 2 ^ 64 ->
  is_sect_in_seg b sz sb se = true <-> (sb <= b /\ b + sz <= se /\ b < se).
Proof.
  intros H. unfold is_sect_in_seg. unfold wrap64, wrap. rewrite N.mod_small by exact H. lia.
Qed.
