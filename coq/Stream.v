(* Stream.v — the behaviour of std::istream / std::ostream that ELFIO relies
   on (libstdc++): sticky failbit, seek/tell/read, gcount; output stream with
   an optional byte capacity (for C16).  Every ELFIO read is preceded by a
   seekg, which clears eofbit, so only failbit is modelled. *)
From ElfioV Require Import Bytes.
Local Open Scope N_scope.

Inductive skind := StringBuf | FileBuf.

Record istream := mkIstream {
  is_kind : skind;
  is_content : bytes;
  is_fail : bool;
  is_pos : N
}.

Definition to_signed64 (v : N) : Z :=
  let v := v mod 2 ^ 64 in
  if v <? 2 ^ 63 then Z.of_N v else (Z.of_N v - 2 ^ 64)%Z.

Definition of_signed64 (z : Z) : N := Z.to_N (z mod 2 ^ 64)%Z.

(* seekg( pos ): no-op when failed; a negative position, or (string buffer) a
   position beyond the end, sets failbit *)
Definition seekg (s : istream) (p : Z) : istream :=
  if is_fail s then s
  else if (p <? 0)%Z then mkIstream (is_kind s) (is_content s) true (is_pos s)
  else
    let p := Z.to_N p in
    match is_kind s with
    | StringBuf => if lenN (is_content s) <? p
                   then mkIstream (is_kind s) (is_content s) true (is_pos s)
                   else mkIstream (is_kind s) (is_content s) false p
    | FileBuf => mkIstream (is_kind s) (is_content s) false p
    end.

Definition seekg_end (s : istream) : istream :=
  if is_fail s then s else mkIstream (is_kind s) (is_content s) false (lenN (is_content s)).

(* tellg as size_t( stream.tellg() ) *)
Definition tellg_size (s : istream) : N :=
  if is_fail s then 18446744073709551615 else is_pos s.

(* read( buf, n ): returns the bytes actually delivered (gcount = their
   number); a short read sets failbit *)
Definition read (s : istream) (n : N) : istream * bytes :=
  if is_fail s then (s, [])
  else
    let got := sliceN (is_content s) (is_pos s) n in
    if lenN got <? n
    then (mkIstream (is_kind s) (is_content s) true (is_pos s + lenN got), got)
    else (mkIstream (is_kind s) (is_content s) false (is_pos s + n), got).

(* ---- output ---- *)
Record ostream := mkOstream {
  os_bytes : bytes;
  os_bad : bool;          (* !stream  (failbit or badbit) *)
  os_pos : N;
  os_cap : option N       (* byte capacity of the sink; None = unlimited *)
}.

Definition new_ostream (cap : option N) : ostream := mkOstream [] false 0 cap.

Definition seekp (s : ostream) (p : N) : ostream :=
  if os_bad s then s else mkOstream (os_bytes s) false p (os_cap s).
Definition seekp_end (s : ostream) : ostream :=
  if os_bad s then s else mkOstream (os_bytes s) false (lenN (os_bytes s)) (os_cap s).
Definition tellp (s : ostream) : Z :=
  if os_bad s then (-1)%Z else Z.of_N (os_pos s).

(* write n bytes at the current position (never beyond the current end + 0:
   ELFIO always pads first); the sink accepts bytes while the total length
   stays within the capacity *)
Definition write (s : ostream) (bs : bytes) : ostream :=
  if os_bad s then s
  else if lenN bs =? 0 then s
  else
    let cur := os_bytes s in
    let pos := os_pos s in
    let full := firstnN cur pos ++ bs ++ skipnN cur (pos + lenN bs) in
    match os_cap s with
    | None => mkOstream full false (pos + lenN bs) None
    | Some cap =>
        if lenN full <=? cap then mkOstream full false (pos + lenN bs) (Some cap)
        else mkOstream (firstnN full cap) true (pos + lenN bs) (Some cap)
    end.

(* adjust_stream_size( stream, offset ) — elfio_utils.hpp:313-321 *)
Definition adjust_stream_size (s : ostream) (offset : N) : ostream :=
  let s1 := seekp_end s in
  let s2 := if (tellp s1 <? Z.of_N offset)%Z
            then write s1 (repeatN 0 (Z.to_N (Z.of_N offset - tellp s1)))
            else s1 in
  seekp s2 offset.
