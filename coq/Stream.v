(* Stream.v — the behaviour of std::istream / std::ostream that ELFIO relies
   on (libstdc++): sticky failbit, seek/tell/read, gcount; output stream with
   an optional byte capacity (for C16).  Every ELFIO read is preceded by a
   seekg, which clears eofbit, so only failbit is modelled. *)
From ElfioV Require Import Bytes.
Local Open Scope N_scope.

Inductive skind := StringBuf | FileBuf.

Record istream := mkIstream {
  is_kind : skind;
  is_content : bytes;
  is_len : N;              (* = lenN is_content, computed once when the stream is opened *)
  is_fail : bool;
  is_pos : N
}.

Definition open_istream (k : skind) (content : bytes) : istream :=
  mkIstream k content (lenN content) false 0.

Definition to_signed64 (v : N) : Z :=
  let v := v mod 2 ^ 64 in
  if v <? 2 ^ 63 then Z.of_N v else (Z.of_N v - 2 ^ 64)%Z.

Definition of_signed64 (z : Z) : N := Z.to_N (z mod 2 ^ 64)%Z.

(* seekg( pos ): no-op when failed; a negative position, or (string buffer) a
   position beyond the end, sets failbit *)
Definition seekg (s : istream) (p : Z) : istream :=
  if is_fail s then s
  else if (p <? 0)%Z then mkIstream (is_kind s) (is_content s) (is_len s) true (is_pos s)
  else
    let p := Z.to_N p in
    match is_kind s with
    | StringBuf => if is_len s <? p
                   then mkIstream (is_kind s) (is_content s) (is_len s) true (is_pos s)
                   else mkIstream (is_kind s) (is_content s) (is_len s) false p
    | FileBuf => mkIstream (is_kind s) (is_content s) (is_len s) false p
    end.

Definition seekg_end (s : istream) : istream :=
  if is_fail s then s else mkIstream (is_kind s) (is_content s) (is_len s) false (is_len s).

(* tellg as size_t( stream.tellg() ) *)
Definition tellg_size (s : istream) : N :=
  if is_fail s then 18446744073709551615 else is_pos s.

(* read( buf, n ): returns the bytes actually delivered (gcount = their
   number); a short read sets failbit *)
Definition read (s : istream) (n : N) : istream * bytes :=
  if is_fail s then (s, [])
  else
    let got := sliceN (is_content s) (is_pos s) n in
    if lenN got <? n
    then (mkIstream (is_kind s) (is_content s) (is_len s) true (is_pos s + lenN got), got)
    else (mkIstream (is_kind s) (is_content s) (is_len s) false (is_pos s + n), got).

(* ---- output ---- *)
(* The stream content is kept as a sorted list of disjoint written pieces
   (offset, length, bytes); everything between pieces below [os_len] is zero
   padding (adjust_stream_size only ever pads with zeros).  [os_bytes] renders
   the content. *)
Definition piece := (N * N * bytes)%type.

Record ostream := mkOstream {
  os_pieces : list piece;
  os_len : N;             (* current length of the stream *)
  os_bad : bool;          (* !stream  (failbit or badbit) *)
  os_pos : N;
  os_cap : option N;      (* byte capacity of the sink; None = unlimited *)
  os_abort : bool         (* a padding request of 2 GiB or more: std::string( size, 0 ) throws *)
}.

Definition new_ostream (cap : option N) : ostream := mkOstream [] 0 false 0 cap false.

(* parts of the pieces lying strictly before [pos] *)
Fixpoint cut_before (pos : N) (ps : list piece) : list piece :=
  match ps with
  | [] => []
  | (o, l, d) :: rest =>
      if o + l <=? pos then (o, l, d) :: cut_before pos rest
      else if o <? pos then [(o, pos - o, firstnN d (pos - o))]
      else []
  end.

(* parts lying at or after [endp] *)
Fixpoint cut_after (endp : N) (ps : list piece) : list piece :=
  match ps with
  | [] => []
  | (o, l, d) :: rest =>
      if o + l <=? endp then cut_after endp rest
      else if o <? endp then (endp, o + l - endp, skipnN d (endp - o)) :: rest
      else (o, l, d) :: rest
  end.

Definition put_piece (pos : N) (bs : bytes) (ps : list piece) : list piece :=
  let n := lenN bs in
  if n =? 0 then ps else cut_before pos ps ++ [(pos, n, bs)] ++ cut_after (pos + n) ps.

Fixpoint render (ps : list piece) (cur len : N) : bytes :=
  match ps with
  | [] => repeatN 0 (len - cur)
  | (o, l, d) :: rest =>
      if len <=? o then repeatN 0 (len - cur)
      else repeatN 0 (o - cur) ++ firstnN d (len - o) ++ render rest (o + l) len
  end.

Definition os_bytes (s : ostream) : bytes := render (os_pieces s) 0 (os_len s).

Definition seekp (s : ostream) (p : N) : ostream :=
  if os_bad s then s else mkOstream (os_pieces s) (os_len s) false p (os_cap s) (os_abort s).
Definition seekp_end (s : ostream) : ostream :=
  if os_bad s then s else mkOstream (os_pieces s) (os_len s) false (os_len s) (os_cap s) (os_abort s).
Definition tellp (s : ostream) : Z :=
  if os_bad s then (-1)%Z else Z.of_N (os_pos s).

(* write the bytes at the current position; the sink accepts bytes while the
   stream length stays within the capacity, then fails *)
Definition write (s : ostream) (bs : bytes) : ostream :=
  if os_bad s || os_abort s then s
  else
    let n := lenN bs in
    if n =? 0 then s
    else
      let pos := os_pos s in
      let new_len := N.max (os_len s) (pos + n) in
      match os_cap s with
      | None => mkOstream (put_piece pos bs (os_pieces s)) new_len false (pos + n) None (os_abort s)
      | Some cap =>
          if new_len <=? cap then
            mkOstream (put_piece pos bs (os_pieces s)) new_len false (pos + n) (Some cap) (os_abort s)
          else
            let fit := firstnN bs (cap - pos) in
            mkOstream (put_piece pos fit (os_pieces s)) (N.max (os_len s) (N.min cap (pos + n))) true
                      (pos + n) (Some cap) (os_abort s)
      end.

(* zero padding up to [offset] (what writing std::string( size, 0 ) at the end does) *)
Definition pad_to (s : ostream) (offset : N) : ostream :=
  if os_bad s || os_abort s then s
  else
    match os_cap s with
    | None => mkOstream (os_pieces s) offset false offset None (os_abort s)
    | Some cap =>
        if offset <=? cap then mkOstream (os_pieces s) offset false offset (Some cap) (os_abort s)
        else mkOstream (os_pieces s) (N.max (os_len s) cap) true offset (Some cap) (os_abort s)
    end.

(* adjust_stream_size( stream, offset ) — elfio_utils.hpp:313-321 *)
Definition adjust_stream_size (s : ostream) (offset : N) : ostream :=
  if os_abort s then s else
  let s1 := seekp_end s in
  let pad := Z.to_N (Z.of_N offset - tellp s1) in
  if (tellp s1 <? Z.of_N offset)%Z && (2147483648 <=? pad)
  then mkOstream (os_pieces s) (os_len s) (os_bad s) (os_pos s) (os_cap s) true
  else
    let s2 := if (tellp s1 <? Z.of_N offset)%Z then pad_to s1 offset else s1 in
    seekp s2 offset.

(* one planned write: adjust_stream_size( stream, position ); stream.write( bytes ) *)
Definition exec_write (os : ostream) (w : N * bytes) : ostream :=
  write (adjust_stream_size os (fst w)) (snd w).
Definition exec_plan (os : ostream) (p : list (N * bytes)) : ostream := fold_left exec_write p os.
