(* Load_proofs.v — C01/C17/C15: load() on arbitrary bytes is total (no memory
   fault), every data buffer requested is bounded by the input, and loaded data
   are slices of the input. *)
From ElfioV Require Import Bytes Mem Stream SectionData Strings Elfio Table Loader.
From Coq Require Import ZifyBool ZifyN ZifyNat.
Local Open Scope N_scope.

(* ---------- input stream facts ---------- *)
Definition st_inv (st : istream) : Prop := is_len st = lenN (is_content st).

Lemma seekg_content st p : is_content (seekg st p) = is_content st /\ is_len (seekg st p) = is_len st /\ is_kind (seekg st p) = is_kind st.
Proof.
  unfold seekg. destruct (is_fail st); [auto|]. destruct (p <? 0)%Z; [auto|].
  destruct (is_kind st); [destruct (is_len st <? Z.to_N p)|]; auto.
Qed.
Lemma seekg_end_content st : is_content (seekg_end st) = is_content st /\ is_len (seekg_end st) = is_len st /\ is_kind (seekg_end st) = is_kind st.
Proof. unfold seekg_end. destruct (is_fail st); auto. Qed.
Lemma read_content st n : is_content (fst (read st n)) = is_content st /\ is_len (fst (read st n)) = is_len st /\ is_kind (fst (read st n)) = is_kind st.
Proof. unfold read. destruct (is_fail st); [auto|]. destruct (_ <? n); auto. Qed.

Lemma read_failed st n : is_fail st = true -> read st n = (st, []).
Proof. intros H. unfold read. now rewrite H. Qed.
Lemma seekg_failed st p : is_fail st = true -> seekg st p = st.
Proof. intros H. unfold seekg. now rewrite H. Qed.
Lemma seekg_end_failed st : is_fail st = true -> seekg_end st = st.
Proof. intros H. unfold seekg_end. now rewrite H. Qed.

Lemma lenN_sliceN_le {A} (l : list A) off n : lenN (sliceN l off n) <= n.
Proof. unfold sliceN. rewrite lenN_firstnN. lia. Qed.

Lemma read_got st n : lenN (snd (read st n)) <= n.
Proof.
  unfold read. destruct (is_fail st); [cbn; lia|].
  destruct (_ <? n); cbn [snd]; apply lenN_sliceN_le.
Qed.
(* a complete read delivers exactly the file bytes at the stream position *)
Lemma read_full st n : lenN (snd (read st n)) = n -> 0 < n ->
  is_fail st = false /\ snd (read st n) = sliceN (is_content st) (is_pos st) n.
Proof.
  unfold read. destruct (is_fail st); [cbn; lia|]. intros H _.
  destruct (_ <? n); cbn [snd] in *; auto.
Qed.
Lemma read_ok_not_failed st n : is_fail (fst (read st n)) = false -> snd (read st n) = sliceN (is_content st) (is_pos st) n /\ lenN (snd (read st n)) = n /\ is_fail st = false.
Proof.
  unfold read. destruct (is_fail st) eqn:F; [cbn; congruence|].
  destruct (N.ltb_spec (lenN (sliceN (is_content st) (is_pos st) n)) n); cbn [fst snd is_fail]; [discriminate|].
  intros _. pose proof (lenN_sliceN_le (is_content st) (is_pos st) n). repeat split; lia.
Qed.
Lemma seekg_pos st p : is_fail (seekg st p) = false -> is_fail st = false /\ (0 <= p)%Z /\ is_pos (seekg st p) = Z.to_N p.
Proof.
  unfold seekg. destruct (is_fail st) eqn:F; [congruence|].
  destruct (Z.ltb_spec p 0); [cbn; discriminate|].
  destruct (is_kind st); [destruct (is_len st <? Z.to_N p); cbn; [discriminate|]|cbn]; intros _; repeat split; lia.
Qed.

Section WithEnv.
  Variable junk : N -> N.

  (* a section's resident buffer is one byte longer than its recorded size at least *)
  Definition fits (s : section) : Prop :=
    match s_data s with Some b => sh_size s < lenN b | None => True end.

  Definition hdr_same (s s1 : section) : Prop :=
    sh_name s1 = sh_name s /\ sh_type s1 = sh_type s /\ sh_flags s1 = sh_flags s /\ sh_addr s1 = sh_addr s /\
    sh_offset s1 = sh_offset s /\ sh_size s1 = sh_size s /\ sh_link s1 = sh_link s /\ sh_info s1 = sh_info s /\
    sh_addralign s1 = sh_addralign s /\ sh_entsize s1 = sh_entsize s /\ s_stream_size s1 = s_stream_size s /\
    s_cls s1 = s_cls s /\ s_index s1 = s_index s /\ s_name s1 = s_name s.
  Lemma hdr_same_refl s : hdr_same s s. Proof. unfold hdr_same. repeat split. Qed.

  (* where the bytes of a section come from *)
  Definition sec_file_off (t : xlat) (s : section) : N := of_signed64 (xlat_apply t (to_signed64 (sh_offset s))).

  Lemma sec_load_data_total st0 t s :
    fits s ->
    exists st1 s1 ok al,
      sec_load_data junk (Some st0) t s = Ok (Some st1, s1, ok, al) /\
      fits s1 /\ hdr_same s s1 /\
      is_content st1 = is_content st0 /\ is_len st1 = is_len st0 /\ is_kind st1 = is_kind st0 /\
      Forall (fun n => n <= s_stream_size s + 1) al /\
      (sh_type s = SHT_NULL -> al = []) /\
      (* data that appears comes from the file *)
      (s_data s = None -> forall d, s_data s1 = Some d -> 0 < sh_size s ->
         d = sliceN (is_content st0) (sec_file_off t s) (sh_size s) ++ [0] /\
         sec_file_off t s + sh_size s <= s_stream_size s).
  Proof.
    intros Hf. unfold sec_load_data. fold (sec_file_off t s).
    set (off := sec_file_off t s). set (size := sh_size s). set (ss := s_stream_size s).
    assert (Refuse : exists st1 s1 ok al,
      Ok (Some st0, s, false, @nil N) = Ok (Some st1, s1, ok, al) /\
      fits s1 /\ hdr_same s s1 /\
      is_content st1 = is_content st0 /\ is_len st1 = is_len st0 /\ is_kind st1 = is_kind st0 /\
      Forall (fun n => n <= ss + 1) al /\ (sh_type s = SHT_NULL -> al = []) /\
      (s_data s = None -> forall d, s_data s1 = Some d -> 0 < size ->
         d = sliceN (is_content st0) off size ++ [0] /\ off + size <= ss)).
    { exists st0, s, false, []. split; [reflexivity|]. split; [exact Hf|]. split; [apply hdr_same_refl|].
      do 3 (split; [reflexivity|]). split; [constructor|]. split; [reflexivity|]. intros Hn d Hd. congruence. }
    destruct (N.ltb_spec ss off) as [H1|H1]; [exact Refuse|].
    destruct (N.ltb_spec ss size) as [H2|H2]; cbn [orb]; [exact Refuse|].
    destruct (N.ltb_spec (ss - off) size) as [H3|H3]; [exact Refuse|].
    destruct (s_data s) as [b|] eqn:Hd.
    { eexists st0, _, true, []. split; [reflexivity|]. split; [unfold fits in *; cbn; rewrite Hd in *; exact Hf|].
      split; [unfold hdr_same; cbn; repeat split|]. do 3 (split; [reflexivity|]). split; [constructor|].
      split; [reflexivity|]. discriminate. }
    destruct ((sh_type s =? SHT_NULL) || (sh_type s =? SHT_NOBITS)) eqn:Ht.
    { eexists st0, _, true, []. split; [reflexivity|]. split; [unfold fits; cbn; rewrite Hd; exact I|].
      split; [unfold hdr_same; cbn; repeat split|]. do 3 (split; [reflexivity|]). split; [constructor|].
      split; [reflexivity|]. intros _ d Hx. cbn in Hx. congruence. }
    destruct (N.ltb_spec (SIZE_MAX - 1) size) as [H4|H4]; [exact Refuse|]. clear Refuse.
    assert (Hnn : sh_type s = SHT_NULL -> False).
    { intro E. rewrite E in Ht. cbn in Ht. discriminate. }
    assert (Hal : Forall (fun n => n <= ss + 1) [size + 1]) by (constructor; [lia|constructor]).
    destruct (N.eqb_spec size 0) as [H0|H0].
    { eexists st0, _, true, [size + 1]. split; [reflexivity|].
      split; [unfold fits; cbn; rewrite lenN_alloc; fold size; lia|].
      split; [unfold hdr_same; cbn; repeat split|]. do 3 (split; [reflexivity|]). split; [exact Hal|].
      split; [intro E; tauto|]. intros; lia. }
    destruct (read (seekg st0 (to_signed64 off)) size) as [st2 got] eqn:ER.
    pose proof (read_content (seekg st0 (to_signed64 off)) size) as (C1 & C2 & C3). rewrite ER in C1, C2, C3. cbn [fst] in *.
    pose proof (seekg_content st0 (to_signed64 off)) as (D1 & D2 & D3).
    destruct (N.eqb_spec (lenN got) size) as [Hg|Hg].
    - eexists st2, _, true, [size + 1]. split; [reflexivity|].
      split; [unfold fits; cbn; rewrite lenN_app, Hg; fold size; cbn [lenN]; lia|].
      split; [unfold hdr_same; cbn; repeat split|]. do 3 (split; [congruence|]). split; [exact Hal|].
      split; [intro E; tauto|]. intros _ d Hx Hpos. cbn in Hx. injection Hx as <-.
      pose proof (read_full (seekg st0 (to_signed64 off)) size) as RF. rewrite ER in RF. cbn [snd] in RF.
      destruct (RF Hg ltac:(lia)) as [Fs ->].
      destruct (seekg_pos _ _ Fs) as (_ & Hp & ->). rewrite D1. split; [|lia]. f_equal. f_equal.
      unfold to_signed64 in *.
      assert (off < 2 ^ 64) by (unfold off, sec_file_off, of_signed64; lia).
      rewrite N.mod_small in * by lia. destruct (off <? 2 ^ 63) eqn:E; lia.
    - eexists st2, _, false, [size + 1]. split; [reflexivity|].
      split; [unfold fits; cbn; exact I|].
      split; [unfold hdr_same; cbn; repeat split|]. do 3 (split; [congruence|]). split; [exact Hal|].
      split; [intro E; tauto|]. intros _ d Hx. cbn in Hx. discriminate.
  Qed.

  Lemma sec_get_data_total st0 t s :
    fits s ->
    exists st1 s1 al,
      sec_get_data junk (Some st0) t s = Ok (Some st1, s1, al) /\
      fits s1 /\ hdr_same s s1 /\
      is_content st1 = is_content st0 /\ is_len st1 = is_len st0 /\ is_kind st1 = is_kind st0 /\
      Forall (fun n => n <= s_stream_size s + 1) al /\ (sh_type s = SHT_NULL -> al = []).
  Proof.
    intros Hf. unfold sec_get_data. destruct (negb (s_loaded s) && s_can_load s).
    - destruct (sec_load_data_total st0 t s Hf) as (st1 & s1 & ok & al & -> & F1 & Hs & C1 & C2 & C3 & A1 & A2 & _).
      cbn [bind]. eexists st1, _, al. split; [reflexivity|].
      destruct ok; [auto 10|]. split; [exact F1|]. split; [exact Hs|]. auto 10.
    - exists st0, s, []. split; [reflexivity|]. split; [exact Hf|]. split; [apply hdr_same_refl|]. auto 10.
  Qed.

  Lemma fresh_header_null c enc idx ss :
    let s0 := with_index (new_section c) idx in
    sh_type (sec_with_raw enc (with_stream_size s0 ss) (fill_struct (shdr_bytes enc s0) [])) = SHT_NULL.
  Proof. destruct c, enc; reflexivity. Qed.

  Definition ss_ok (content : bytes) (s : section) : Prop :=
    s_stream_size s <= lenN content \/ sh_type s = SHT_NULL.

  Definition section_load_rest (st1 : istream) (ss : N) (t : xlat) (enc : endian) (s : section) (pos : Z) (lazy : bool)
    : res (istream * section * list N) :=
    let st2 := seekg st1 (xlat_apply t pos) in
    let '(st3, got) := read st2 (shdr_size (s_cls s)) in
    if negb (lenN got =? shdr_size (s_cls s)) then
      let s0 := sec_with_raw enc (with_stream_size s ss) (repeatN 0 (shdr_size (s_cls s))) in
      Ok (st3, with_load_flags s0 lazy (s_loaded s0) (s_can_load s0), [])
    else
    let s1 := sec_with_raw enc (with_stream_size s ss) (fill_struct (shdr_bytes enc s) got) in
    let s2 := with_load_flags s1 lazy (s_loaded s1) (s_can_load s1) in
    if lazy || s_loaded s2 then Ok (st3, s2, [])
    else
      '(sto, s3, al) <- sec_get_data junk (Some st3) t s2 ;;
      match sto with
      | Some st4 => Ok (st4, s3, al)
      | None => Fault NullDeref
      end.
  Lemma zero_header_null c enc idx ss :
    let s0 := with_index (new_section c) idx in
    sh_type (sec_with_raw enc (with_stream_size s0 ss) (repeatN 0 (shdr_size (s_cls s0)))) = SHT_NULL.
  Proof. destruct c, enc; reflexivity. Qed.
  Lemma section_load_unfold st t enc s pos lazy :
    section_load junk st t enc s pos lazy =
    section_load_rest (if xlat_empty t then seekg_end st else st)
                      (if xlat_empty t then tellg_size (seekg_end st) else SIZE_MAX) t enc s pos lazy.
  Proof. unfold section_load, section_load_rest. destruct (xlat_empty t); reflexivity. Qed.

  Lemma section_load_total st t enc c idx pos lazy :
    st_inv st ->
    exists st' s' al,
      section_load junk st t enc (with_index (new_section c) idx) pos lazy = Ok (st', s', al) /\
      fits s' /\ is_content st' = is_content st /\ st_inv st' /\ is_kind st' = is_kind st /\
      (xlat_empty t = true -> Forall (fun n => n <= lenN (is_content st) + 1) al /\ ss_ok (is_content st) s').
  Proof.
    intros Hinv. rewrite section_load_unfold. set (s0 := with_index (new_section c) idx).
    set (st1 := if xlat_empty t then seekg_end st else st).
    set (ss := if xlat_empty t then tellg_size (seekg_end st) else SIZE_MAX).
    assert (K1 : is_content st1 = is_content st /\ is_len st1 = is_len st /\ is_kind st1 = is_kind st).
    { unfold st1. destruct (xlat_empty t); [apply seekg_end_content|auto]. }
    destruct K1 as (K1 & K2 & K3).
    unfold section_load_rest.
    set (st2 := seekg st1 (xlat_apply t pos)).
    pose proof (seekg_content st1 (xlat_apply t pos)) as (L1 & L2 & L3). fold st2 in L1, L2, L3.
    destruct (read st2 (shdr_size (s_cls s0))) as [st3 got] eqn:ER.
    pose proof (read_content st2 (shdr_size (s_cls s0))) as (M1 & M2 & M3). rewrite ER in M1, M2, M3. cbn [fst] in *.
    set (s1 := sec_with_raw enc (with_stream_size s0 ss) (fill_struct (shdr_bytes enc s0) got)).
    set (s2 := with_load_flags s1 lazy (s_loaded s1) (s_can_load s1)).
    assert (C3 : is_content st3 = is_content st) by congruence.
    assert (I3 : st_inv st3) by (unfold st_inv in *; congruence).
    destruct (N.eqb_spec (lenN got) (shdr_size (s_cls s0))) as [Hfull|Hshort]; cbn [negb].
    2:{ (* the entry was cut: an empty section *)
        eexists st3, _, []. split; [reflexivity|]. split; [unfold fits; cbn; exact I|]. split; [exact C3|]. split; [exact I3|].
        split; [congruence|]. intros Hx. split; [constructor|]. right. cbn [sh_type with_load_flags]. apply zero_header_null. }
    assert (F2 : fits s2) by (unfold fits; cbn; exact I).
    assert (SS : s_stream_size s2 = ss) by reflexivity.
    assert (Hnull : is_fail st2 = true -> sh_type s2 = SHT_NULL).
    { intros Hfail. rewrite (read_failed st2 _ Hfail) in ER. injection ER as _ <-.
      unfold s2, s1. cbn [sh_type with_load_flags]. apply fresh_header_null. }
    assert (Hss : xlat_empty t = true -> is_fail st2 = false -> ss = lenN (is_content st)).
    { intros Hx Hnf. unfold ss, st2, st1 in *. rewrite Hx in *.
      destruct (is_fail st) eqn:F0.
      - rewrite (seekg_end_failed st F0), (seekg_failed st _ F0) in Hnf. congruence.
      - unfold tellg_size, seekg_end. rewrite F0. cbn. exact Hinv. }
    destruct (lazy || s_loaded s2) eqn:Hl.
    - exists st3, s2, []. split; [reflexivity|]. split; [exact F2|]. split; [exact C3|]. split; [exact I3|].
      split; [congruence|]. intros Hx. split; [constructor|]. unfold ss_ok.
      destruct (Bool.bool_dec (is_fail st2) true) as [Fl|Fl]; [right; exact (Hnull Fl)|].
      apply Bool.not_true_is_false in Fl. left. rewrite SS, (Hss Hx Fl). lia.
    - destruct (sec_get_data_total st3 t s2 F2) as (st4 & s3 & al & -> & F3 & HS & C4 & C5 & C6 & A1 & A2).
      cbn [bind]. exists st4, s3, al. split; [reflexivity|]. split; [exact F3|]. split; [congruence|].
      split; [unfold st_inv in *; congruence|]. split; [congruence|].
      destruct HS as (_ & HT & _ & _ & _ & _ & _ & _ & _ & _ & HSS & _).
      intros Hx. unfold ss_ok. rewrite HT, HSS. destruct (Bool.bool_dec (is_fail st2) true) as [Fl|Fl].
      + rewrite (A2 (Hnull Fl)). split; [constructor|]. right. exact (Hnull Fl).
      + apply Bool.not_true_is_false in Fl. rewrite SS, (Hss Hx Fl) in *. split; [exact A1|]. left. lia.
  Qed.

  Lemma fits_with_addr s v : fits s -> fits (with_addr s v).
  Proof. unfold fits. cbn. auto. Qed.
  Lemma fits_with_name s v : fits s -> fits (with_name s v).
  Proof. unfold fits. cbn. auto. Qed.
  Lemma ss_ok_with_addr content s v : ss_ok content s -> ss_ok content (with_addr s v).
  Proof. unfold ss_ok. cbn. auto. Qed.
  Lemma ss_ok_with_name content s v : ss_ok content s -> ss_ok content (with_name s v).
  Proof. unfold ss_ok. cbn. auto. Qed.

  Lemma load_sections_loop_total fuel : forall st t c enc offset entsize i num lazy racc allocs,
    st_inv st -> Forall fits racc ->
    exists st' racc' allocs',
      load_sections_loop junk fuel st t c enc offset entsize i num lazy racc allocs = Ok (st', racc', allocs') /\
      Forall fits racc' /\ is_content st' = is_content st /\ st_inv st' /\ is_kind st' = is_kind st /\
      (xlat_empty t = true -> Forall (fun n => n <= lenN (is_content st) + 1) allocs -> Forall (ss_ok (is_content st)) racc ->
       Forall (fun n => n <= lenN (is_content st) + 1) allocs' /\ Forall (ss_ok (is_content st)) racc').
  Proof.
    induction fuel as [|f IH]; intros st t c enc offset entsize i num lazy racc allocs Hi Hr; cbn [load_sections_loop].
    - exists st, racc, allocs. auto 10.
    - destruct (i <? num); [|exists st, racc, allocs; auto 10].
      destruct (section_load_total st t enc c (wrap16 i) (table_pos offset i entsize) lazy Hi)
        as (st1 & s1 & al & -> & F1 & C1 & I1 & K1 & A1).
      cbn [bind].
      destruct (IH st1 t c enc offset entsize (i + 1) num lazy (with_addr s1 (sh_addr s1) :: racc) (al ++ allocs) I1)
        as (st' & racc' & allocs' & -> & F' & C' & I' & K' & A').
      { constructor; [now apply fits_with_addr|exact Hr]. }
      exists st', racc', allocs'. split; [reflexivity|]. split; [exact F'|]. split; [congruence|]. split; [exact I'|].
      split; [congruence|]. intros Hx Ha Hso. rewrite C1 in A'. destruct (A1 Hx) as [A1a A1b].
      apply A'; [exact Hx|apply Forall_app; auto|]. constructor; [now apply ss_ok_with_addr|exact Hso].
  Qed.

  Lemma get_string_raw_total b size idx : size <= lenN b -> exists r, get_string_raw (Some b) size idx = Ok r.
  Proof.
    intros H. unfold get_string_raw. destruct (size <=? idx); [eauto|].
    destruct (find0 _ _ _); [eauto|]. destruct (N.ltb_spec (lenN b) size); [lia|eauto].
  Qed.

  Lemma map_res_total {A B} (f : A -> res B) (P : A -> Prop) (Q : B -> Prop) l :
    (forall x, P x -> exists y, f x = Ok y /\ Q y) -> Forall P l -> exists r, map_res f l = Ok r /\ Forall Q r.
  Proof.
    intros Hf. induction 1 as [|x t Hx Ht IH]; cbn [map_res]; [exists []; auto|].
    destruct (Hf x Hx) as (y & -> & Qy). destruct IH as (r & -> & Qr). cbn [bind]. exists (y :: r). auto.
  Qed.

  (* the object after (part of) a load: every resident buffer covers its
     section, and the object points at the stream it was loaded from *)
  Definition el_ok (content : bytes) (k : skind) (el : elfio) : Prop :=
    Forall fits (el_secs el) /\
    (xlat_empty (el_xlat el) = true -> Forall (ss_ok content) (el_secs el)) /\
    exists st, el_stream el = Some st /\ is_content st = content /\ st_inv st /\ is_kind st = k.

  Lemma Forall_updN {A} (P : A -> Prop) l i x : Forall P l -> P x -> Forall P (updN l i x).
  Proof.
    intros Hl Hx. revert i; induction Hl as [|y t Hy Ht IH]; intro i; cbn [updN]; [constructor|].
    destruct (i =? 0); constructor; auto.
  Qed.
  Lemma Forall_nth_optN {A} (P : A -> Prop) l i x : Forall P l -> nth_optN l i = Some x -> P x.
  Proof.
    intros Hl. revert i; induction Hl as [|y t Hy Ht IH]; intro i; cbn [nth_optN]; [discriminate|].
    destruct (i =? 0); [intros [= <-]; exact Hy|apply IH].
  Qed.

  Lemma resolve_names_total content k el shstrndx allocs :
    el_ok content k el ->
    exists el' allocs',
      resolve_names junk el shstrndx allocs = Ok (el', allocs') /\ el_ok content k el' /\
      el_hdr el' = el_hdr el /\ el_xlat el' = el_xlat el /\ el_segs el' = el_segs el /\
      (xlat_empty (el_xlat el) = true ->
       Forall (fun n => n <= lenN content + 1) allocs -> Forall (fun n => n <= lenN content + 1) allocs').
  Proof.
    intros (Hf & Hso & st & Hs & Hc & Hi & Hk). unfold resolve_names.
    destruct (el_secs el) as [|s0 rest] eqn:Es.
    { exists el, allocs. split; [reflexivity|]. split; [|auto]. split; [rewrite Es; constructor|].
      split; [rewrite Es; constructor|eauto 10]. }
    rewrite <- Es in *.
    destruct (get_sec el shstrndx) as [sx|] eqn:Eg.
    2:{ exists el, allocs. split; [reflexivity|]. split; [|auto]. split; [exact Hf|]. split; [exact Hso|eauto 10]. }
    assert (Fx : fits sx) by (eapply Forall_nth_optN; eauto).
    rewrite Hs.
    destruct (sec_get_data_total st (el_xlat el) sx Fx) as (st1 & sx1 & al & -> & F1 & HS & C1 & C2 & C3 & A1 & A2).
    cbn [bind].
    set (el1 := with_stream (upd_sec el shstrndx sx1) (Some st1)).
    assert (Hf1 : Forall fits (el_secs el1)).
    { unfold el1, upd_sec. destruct el; cbn in *. now apply Forall_updN. }
    assert (Hso1 : xlat_empty (el_xlat el) = true -> Forall (ss_ok content) (el_secs el1)).
    { intro Hx. specialize (Hso Hx). unfold el1, upd_sec. destruct el; cbn in *. apply Forall_updN; [exact Hso|].
      pose proof (Forall_nth_optN _ _ _ _ Hso Eg) as Sx. unfold ss_ok in *.
      destruct HS as (_ & HT & _ & _ & _ & _ & _ & _ & _ & _ & HSS & _). now rewrite HT, HSS. }
    destruct (map_res_total
                (fun si => r <- get_string_raw (s_data sx1) (sh_size sx1) (sh_name si) ;;
                           Ok (match r with Some nm => with_name si nm | None => si end))
                (fun s => fits s /\ (xlat_empty (el_xlat el) = true -> ss_ok content s))
                (fun s => fits s /\ (xlat_empty (el_xlat el) = true -> ss_ok content s))
                (el_secs el1)) as (secs & -> & Fsecs).
    { intros x [Fxx Sxx]. cbv beta. destruct (s_data sx1) as [b|] eqn:Ed.
      - unfold fits in F1. rewrite Ed in F1.
        destruct (get_string_raw_total b (sh_size sx1) (sh_name x) ltac:(lia)) as (r & Er).
        unfold bytes in *. rewrite Er. cbn [bind].
        destruct r; eexists; (split; [reflexivity|]); split; auto using fits_with_name, ss_ok_with_name.
      - cbn [get_string_raw bind]. eauto. }
    { apply Forall_forall. intros x Hx. split; [eapply Forall_forall in Hf1; eauto|].
      intro Hxe. specialize (Hso1 Hxe). eapply Forall_forall in Hso1; eauto. }
    cbn [bind]. eexists _, _. split; [reflexivity|]. split.
    { split; [cbn; eapply Forall_impl; [|exact Fsecs]; cbn; tauto|].
      split; [cbn; intro Hx; eapply Forall_impl; [|exact Fsecs]; cbn; intros a [_ Ha]; auto|].
      exists st1. cbn. split; [reflexivity|]. split; [congruence|]. split; [unfold st_inv in *; congruence|congruence]. }
    do 3 (split; [reflexivity|]).
    intros Hx Ha. apply Forall_app. split; [exact Ha|].
    pose proof (Forall_nth_optN _ _ _ _ (Hso Hx) Eg) as [Sx|Sx].
    - eapply Forall_impl; [|exact A1]. cbn. intros n Hn. lia.
    - rewrite (A2 Sx). constructor.
  Qed.

  Lemma Forall_rev_append {A} (P : A -> Prop) a b : Forall P a -> Forall P b -> Forall P (rev_append a b).
  Proof. intros Ha Hb. rewrite rev_append_rev. apply Forall_app. split; [now apply Forall_rev|exact Hb]. Qed.

  (* the inflate step of an eager load keeps every invariant: the buffer the interface hands back is one byte
     longer than the size *)
  Lemma inflate_step_total compr lazy s :
    fits s ->
    exists s', inflate_step compr lazy s = Ok s' /\ fits s' /\ s_stream_size s' = s_stream_size s /\ sh_type s' = sh_type s.
  Proof.
    intros F. unfold inflate_step. destruct (lazy || negb (is_compressed compr s)); [exists s; auto|].
    destruct (s_data s) as [b|] eqn:Ed; [|exists s; auto].
    unfold fits in F. rewrite Ed in F.
    unfold rd. destruct (N.eqb_spec (sh_size s) 0) as [Z|Z]; cbn [bind].
    - eexists. split; [reflexivity|]. split; [unfold fits; cbn; rewrite Z; cbn; lia|split; reflexivity].
    - destruct (N.leb_spec (0 + sh_size s) (lenN b)); [|lia]. cbn [bind].
      eexists. split; [reflexivity|]. split; [|split; reflexivity].
      unfold fits. cbn. rewrite lenN_app, lenN_map. unfold sliceN. rewrite lenN_firstnN, lenN_skipnN. cbn [lenN]. lia.
  Qed.

  Lemma inflate_all_total compr lazy content : forall l,
    Forall fits l ->
    exists l', map_res (inflate_step compr lazy) l = Ok l' /\ Forall fits l' /\
               (Forall (ss_ok content) l -> Forall (ss_ok content) l').
  Proof.
    induction l as [|s t IH]; intro F; [exists []; repeat split; auto|].
    inversion F as [|? ? Fs Ft]; subst. cbn [map_res].
    destruct (inflate_step_total compr lazy s Fs) as (s' & -> & F' & Z1 & Z2). cbn [bind].
    destruct (IH Ft) as (t' & -> & Ft' & St). cbn [bind].
    exists (s' :: t'). split; [reflexivity|]. split; [constructor; assumption|].
    intro H. inversion H as [|? ? Hs Ht]; subst. constructor; [|auto].
    unfold ss_ok in *. rewrite Z1, Z2. exact Hs.
  Qed.

  Lemma load_sections_total content k st el h lazy :
    st_inv st -> is_content st = content -> is_kind st = k ->
    el_hdr el = Some h -> el_secs el = [] -> el_stream el = Some st ->
    exists st' el' al,
      load_sections junk st el lazy = Ok (st', el', al) /\
      el_ok content k el' /\ el_stream el' = Some st' /\
      el_hdr el' = el_hdr el /\ el_xlat el' = el_xlat el /\ el_segs el' = el_segs el /\
      (xlat_empty (el_xlat el) = true -> Forall (fun n => n <= lenN content + 1) al).
  Proof.
    intros Hi Hc Hk Hh Hsec Hst. unfold load_sections. rewrite Hh.
    assert (Ok0 : el_ok content k el).
    { split; [rewrite Hsec; constructor|]. split; [rewrite Hsec; constructor|]. exists st. auto. }
    destruct (_ || _).
    { exists st, el, []. split; [reflexivity|]. split; [exact Ok0|]. split; [exact Hst|]. do 3 (split; [first [reflexivity|exact Hh|congruence]|]). constructor. }
    set (c := if nthN (e_ident h) 4 0 =? 2 then C64 else C32).
    destruct (load_sections_loop_total (N.to_nat (e_shnum h)) st (el_xlat el) c (e_enc h) (e_shoff h) (e_shentsize h)
                0 (e_shnum h) lazy [] [] Hi ltac:(constructor))
      as (st1 & racc & ral & -> & Fr & C1 & I1 & K1 & A1).
    cbn [bind].
    destruct (inflate_all_total (el_compr el) lazy content (rev_append racc []) ltac:(apply Forall_rev_append; [exact Fr|constructor]))
      as (secs_i & -> & Fi & Si). cbn [bind].
    set (el2 := with_stream (with_secs el secs_i) (Some st1)).
    assert (Ok2 : el_ok content k el2).
    { split; [cbn; exact Fi|].
      split; [cbn; intro Hx; apply Si; apply Forall_rev_append; [|constructor]; rewrite <- Hc; apply (A1 Hx); constructor|].
      exists st1. cbn. split; [reflexivity|]. split; [congruence|]. split; [exact I1|congruence]. }
    assert (Al : xlat_empty (el_xlat el) = true -> Forall (fun n => n <= lenN content + 1) (rev_append ral [])).
    { intro Hx. apply Forall_rev_append; [|constructor]. rewrite <- Hc. apply (A1 Hx); constructor. }
    destruct (e_shstrndx h =? 0).
    { exists st1, el2, (rev_append ral []). split; [reflexivity|]. split; [exact Ok2|]. split; [reflexivity|].
      do 3 (split; [first [reflexivity|exact Hh|congruence]|]). exact Al. }
    destruct (resolve_names_total content k el2 (e_shstrndx h) (rev_append ral []) Ok2)
      as (el3 & al2 & -> & Ok3 & H1 & H2 & H3 & A3).
    cbn [bind]. destruct Ok3 as (F3 & S3 & st3 & E3 & C3 & I3 & K3). rewrite E3.
    exists st3, el3, al2. split; [reflexivity|].
    split; [split; [exact F3|]; split; [exact S3|]; exists st3; auto|]. split; [exact E3|].
    split; [rewrite H1; first [reflexivity|exact Hh|congruence]|]. split; [rewrite H2; reflexivity|]. split; [rewrite H3; reflexivity|].
    intro Hx. apply A3; [exact Hx|exact (Al Hx)].
  Qed.

  (* ---------- segments ---------- *)
  Definition gfits (g : segment) : Prop :=
    match g_data g with Some b => p_filesz g < lenN b | None => True end.
  Definition seg_file_off (t : xlat) (g : segment) : N := of_signed64 (xlat_apply t (to_signed64 (p_offset g))).

  Lemma seg_load_data_total st0 t g :
    exists st1 g1 ok al,
      seg_load_data (Some st0) t g = Ok (Some st1, g1, ok, al) /\
      (gfits g -> gfits g1) /\ p_filesz g1 = p_filesz g /\
      is_content st1 = is_content st0 /\ is_len st1 = is_len st0 /\ is_kind st1 = is_kind st0 /\
      Forall (fun n => n <= g_stream_size g + 1) al /\ (p_type g = PT_NULL -> al = []) /\
      (ok = true -> is_fail st1 = true -> al = []) /\
      (forall d, al <> [] -> g_data g1 = Some d ->
         d = sliceN (is_content st0) (seg_file_off t g) (p_filesz g) ++ [0] /\
         seg_file_off t g + p_filesz g <= g_stream_size g).
  Proof.
    unfold seg_load_data. fold (seg_file_off t g).
    set (off := seg_file_off t g). set (size := p_filesz g). set (ss := g_stream_size g).
    destruct ((p_type g =? PT_NULL) || (size =? 0)) eqn:E0.
    { exists st0, g, true, []. split; [reflexivity|]. split; [auto|]. do 4 (split; [reflexivity|]).
      split; [constructor|]. split; [reflexivity|]. split; [reflexivity|]. intros d Hn. congruence. }
    apply orb_false_iff in E0. destruct E0 as [E0 E1]. apply N.eqb_neq in E0, E1.
    assert (Refuse : exists st1 g1 ok al,
      Ok (Some st0, seg_with_data g None (g_loaded g), false, @nil N) = Ok (Some st1, g1, ok, al) /\
      (gfits g -> gfits g1) /\ p_filesz g1 = p_filesz g /\
      is_content st1 = is_content st0 /\ is_len st1 = is_len st0 /\ is_kind st1 = is_kind st0 /\
      Forall (fun n => n <= ss + 1) al /\ (p_type g = PT_NULL -> al = []) /\
      (ok = true -> is_fail st1 = true -> al = []) /\
      (forall d, al <> [] -> g_data g1 = Some d ->
         d = sliceN (is_content st0) off size ++ [0] /\ off + size <= ss)).
    { eexists st0, _, false, []. split; [reflexivity|]. split; [intros _; exact I|]. do 4 (split; [reflexivity|]).
      split; [constructor|]. split; [reflexivity|]. split; [reflexivity|]. intros d Hn. congruence. }
    destruct (N.ltb_spec ss off) as [H1|H1]; [exact Refuse|].
    destruct (N.ltb_spec ss size) as [H2|H2]; cbn [orb]; [exact Refuse|].
    destruct (N.ltb_spec (ss - off) size) as [H3|H3]; [exact Refuse|].
    destruct (N.ltb_spec (SIZE_MAX - 1) size) as [H4|H4]; [exact Refuse|]. clear Refuse.
    destruct (read (seekg st0 (to_signed64 off)) size) as [st2 got] eqn:ER.
    pose proof (read_content (seekg st0 (to_signed64 off)) size) as (C1 & C2 & C3). rewrite ER in C1, C2, C3. cbn [fst] in *.
    pose proof (seekg_content st0 (to_signed64 off)) as (D1 & D2 & D3).
    assert (Hal : Forall (fun n => n <= ss + 1) [size + 1]) by (constructor; [lia|constructor]).
    destruct (is_fail st2) eqn:Fl.
    - eexists st2, _, false, [size + 1]. split; [reflexivity|]. split; [intros _; exact I|]. split; [reflexivity|].
      do 3 (split; [congruence|]). split; [exact Hal|]. split; [tauto|]. split; [discriminate|].
      intros d _ Hx. cbn in Hx. discriminate.
    - pose proof (read_ok_not_failed (seekg st0 (to_signed64 off)) size) as RO. rewrite ER in RO. cbn [fst snd] in RO.
      destruct (RO Fl) as (Hgot & Hlen & Fs).
      eexists st2, _, true, [size + 1]. split; [reflexivity|].
      split; [intros _; unfold gfits; cbn; rewrite lenN_app, Hlen; fold size; cbn [lenN]; lia|]. split; [reflexivity|].
      do 3 (split; [congruence|]). split; [exact Hal|]. split; [tauto|]. split; [congruence|].
      intros d _ Hx. cbn in Hx. injection Hx as <-. rewrite Hgot.
      destruct (seekg_pos _ _ Fs) as (_ & Hp & ->). rewrite D1. split; [|lia]. f_equal. f_equal.
      unfold to_signed64 in *.
      assert (off < 2 ^ 64) by (unfold off, seg_file_off, of_signed64; lia).
      rewrite N.mod_small in * by lia. destruct (off <? 2 ^ 63) eqn:E; lia.
  Qed.

  Definition segment_load_rest (st1 : istream) (ss : N) (t : xlat) (enc : endian) (g : segment) (pos : Z) (lazy : bool)
    : res (istream * segment * bool * list N) :=
    let st2 := seekg st1 (xlat_apply t pos) in
    let '(st3, got) := read st2 (phdr_size (g_cls g)) in
    let g1 := seg_of_raw enc g (fill_struct (phdr_bytes enc g) got) ss lazy in
    if lazy || g_loaded g1 then Ok (st3, g1, true, [])
    else
      '(sto, g2, ok, al) <- seg_load_data (Some st3) t g1 ;;
      match sto with
      | Some st4 => Ok (st4, g2, ok, al)
      | None => Fault NullDeref
      end.
  Lemma segment_load_unfold st t enc g pos lazy :
    segment_load st t enc g pos lazy =
    segment_load_rest (if xlat_empty t then seekg_end st else st)
                      (if xlat_empty t then tellg_size (seekg_end st) else SIZE_MAX) t enc g pos lazy.
  Proof. unfold segment_load, segment_load_rest. destruct (xlat_empty t); reflexivity. Qed.

  Lemma fresh_phdr_null c enc ss lazy :
    p_type (seg_of_raw enc (new_segment c) (fill_struct (phdr_bytes enc (new_segment c)) []) ss lazy) = PT_NULL.
  Proof. destruct c, enc; reflexivity. Qed.

  Lemma segment_load_total st t enc c pos lazy :
    st_inv st ->
    exists st' g' ok al,
      segment_load st t enc (new_segment c) pos lazy = Ok (st', g', ok, al) /\
      gfits g' /\ is_content st' = is_content st /\ st_inv st' /\ is_kind st' = is_kind st /\
      (xlat_empty t = true -> Forall (fun n => n <= lenN (is_content st) + 1) al).
  Proof.
    intros Hinv. rewrite segment_load_unfold. set (g0 := new_segment c).
    set (st1 := if xlat_empty t then seekg_end st else st).
    set (ss := if xlat_empty t then tellg_size (seekg_end st) else SIZE_MAX).
    assert (K1 : is_content st1 = is_content st /\ is_len st1 = is_len st /\ is_kind st1 = is_kind st).
    { unfold st1. destruct (xlat_empty t); [apply seekg_end_content|auto]. }
    destruct K1 as (K1 & K2 & K3).
    unfold segment_load_rest.
    set (st2 := seekg st1 (xlat_apply t pos)).
    pose proof (seekg_content st1 (xlat_apply t pos)) as (L1 & L2 & L3). fold st2 in L1, L2, L3.
    destruct (read st2 (phdr_size (g_cls g0))) as [st3 got] eqn:ER.
    pose proof (read_content st2 (phdr_size (g_cls g0))) as (M1 & M2 & M3). rewrite ER in M1, M2, M3. cbn [fst] in *.
    set (g1 := seg_of_raw enc g0 (fill_struct (phdr_bytes enc g0) got) ss lazy).
    assert (C3 : is_content st3 = is_content st) by congruence.
    assert (I3 : st_inv st3) by (unfold st_inv in *; congruence).
    assert (F1 : gfits g1) by (unfold gfits, g1, seg_of_raw; destruct (g_cls g0); cbn; exact I).
    assert (SS : g_stream_size g1 = ss) by (unfold g1, seg_of_raw; destruct (g_cls g0); reflexivity).
    assert (Hnull : is_fail st2 = true -> p_type g1 = PT_NULL).
    { intros Hfail. rewrite (read_failed st2 _ Hfail) in ER. injection ER as _ <-. apply fresh_phdr_null. }
    assert (Hss : xlat_empty t = true -> is_fail st2 = false -> ss = lenN (is_content st)).
    { intros Hx Hnf. unfold ss, st2, st1 in *. rewrite Hx in *.
      destruct (is_fail st) eqn:F0.
      - rewrite (seekg_end_failed st F0), (seekg_failed st _ F0) in Hnf. congruence.
      - unfold tellg_size, seekg_end. rewrite F0. cbn. exact Hinv. }
    destruct (lazy || g_loaded g1) eqn:Hl.
    - exists st3, g1, true, []. split; [reflexivity|]. split; [exact F1|]. split; [exact C3|]. split; [exact I3|].
      split; [congruence|]. intros _. constructor.
    - destruct (seg_load_data_total st3 t g1) as (st4 & g2 & ok & al & -> & F2 & _ & C4 & C5 & C6 & A1 & A2 & _).
      cbn [bind]. exists st4, g2, ok, al. split; [reflexivity|]. split; [exact (F2 F1)|]. split; [congruence|].
      split; [unfold st_inv in *; congruence|]. split; [congruence|].
      intros Hx. destruct (Bool.bool_dec (is_fail st2) true) as [Fl|Fl].
      + rewrite (A2 (Hnull Fl)). constructor.
      + apply Bool.not_true_is_false in Fl. rewrite SS, (Hss Hx Fl) in A1. exact A1.
  Qed.

  Lemma gfits_add_sections g l : gfits g -> gfits (fold_left (fun g idx => seg_add_section_index g idx 0) l g).
  Proof.
    revert g; induction l as [|i t IH]; intros g H; cbn [fold_left]; [exact H|]. apply IH.
    unfold seg_add_section_index. destruct (_ <? 0); unfold gfits in *; cbn; exact H.
  Qed.

  Lemma load_segments_loop_total fuel : forall st t secs enc c offset entsize i num lazy racc allocs,
    st_inv st -> Forall gfits racc ->
    exists st' racc' ok allocs',
      load_segments_loop fuel st t secs enc c offset entsize i num lazy racc allocs = Ok (st', racc', ok, allocs') /\
      Forall gfits racc' /\ is_content st' = is_content st /\ st_inv st' /\ is_kind st' = is_kind st /\
      (xlat_empty t = true -> Forall (fun n => n <= lenN (is_content st) + 1) allocs ->
       Forall (fun n => n <= lenN (is_content st) + 1) allocs').
  Proof.
    induction fuel as [|f IH]; intros st t secs enc c offset entsize i num lazy racc allocs Hi Hr; cbn [load_segments_loop].
    - exists st, racc, true, allocs. auto 10.
    - destruct (i <? num); [|exists st, racc, true, allocs; auto 10].
      destruct (segment_load_total st t enc c (table_pos offset i entsize) lazy Hi)
        as (st1 & g1 & ok & al & -> & F1 & C1 & I1 & K1 & A1).
      cbn [bind]. destruct (negb ok || is_fail st1).
      + exists st1, racc, false, (al ++ allocs). split; [reflexivity|]. split; [exact Hr|]. split; [exact C1|].
        split; [exact I1|]. split; [exact K1|]. intros Hx Ha. apply Forall_app. auto.
      + match goal with |- context [load_segments_loop f st1 t secs enc c offset entsize (i + 1) num lazy (?g :: racc) _] =>
          destruct (IH st1 t secs enc c offset entsize (i + 1) num lazy (g :: racc) (al ++ allocs) I1)
            as (st' & racc' & ok' & allocs' & -> & F' & C' & I' & K' & A') end.
        { constructor; [|exact Hr]. apply gfits_add_sections. unfold gfits in *. cbn. exact F1. }
        exists st', racc', ok', allocs'. split; [reflexivity|]. split; [exact F'|]. split; [congruence|]. split; [exact I'|].
        split; [congruence|]. intros Hx Ha. rewrite C1 in A'. apply A'; [exact Hx|]. apply Forall_app. auto.
  Qed.

  Lemma load_segments_total content st el h lazy :
    st_inv st -> is_content st = content -> el_hdr el = Some h -> el_segs el = [] ->
    exists st' el' ok al,
      load_segments st el lazy = Ok (st', el', ok, al) /\
      Forall gfits (el_segs el') /\ el_secs el' = el_secs el /\ el_xlat el' = el_xlat el /\ el_hdr el' = el_hdr el /\
      is_content st' = content /\ st_inv st' /\ is_kind st' = is_kind st /\
      (xlat_empty (el_xlat el) = true -> Forall (fun n => n <= lenN content + 1) al).
  Proof.
    intros Hi Hc Hh Hg. unfold load_segments. rewrite Hh.
    destruct (_ || _).
    { exists st, el, false, []. split; [reflexivity|]. split; [rewrite Hg; constructor|].
      do 2 (split; [reflexivity|]). split; [exact Hh|]. split; [exact Hc|]. split; [exact Hi|]. split; [reflexivity|]. constructor. }
    set (c := if nthN (e_ident h) 4 0 =? 2 then C64 else C32).
    destruct (load_segments_loop_total (N.to_nat (e_phnum h)) st (el_xlat el) (el_secs el) (e_enc h) c (e_phoff h) (e_phentsize h)
                0 (e_phnum h) lazy [] [] Hi ltac:(constructor))
      as (st1 & racc & ok & ral & -> & Fr & C1 & I1 & K1 & A1).
    cbn [bind]. eexists st1, _, ok, _. split; [reflexivity|].
    split; [cbn; apply Forall_rev_append; [exact Fr|constructor]|].
    do 2 (split; [reflexivity|]). split; [exact Hh|]. split; [congruence|]. split; [exact I1|]. split; [exact K1|].
    intro Hx. apply Forall_rev_append; [|constructor]. rewrite <- Hc. apply (A1 Hx). constructor.
  Qed.

  (* ---------- the whole load ---------- *)
  (* what holds of an object after load() returned, whatever the bytes were *)
  Definition loaded_ok (content : bytes) (k : skind) (el : elfio) : Prop :=
    Forall fits (el_secs el) /\ Forall gfits (el_segs el) /\
    exists st, el_stream el = Some st /\ is_content st = content /\ st_inv st /\ is_kind st = k.

  Theorem load_total el k content lazy :
    exists el' ok allocs,
      load junk el k content lazy = Ok (el', ok, allocs) /\
      loaded_ok content k el' /\
      (xlat_empty (el_xlat el) = true -> Forall (fun n => n <= lenN content + 1) allocs).
  Proof.
    unfold load.
    set (el0 := with_segs (with_secs el []) []).
    set (st0 := open_istream k content).
    assert (I0 : st_inv st0) by reflexivity.
    set (t := el_xlat el).
    set (st1 := seekg st0 (xlat_apply t 0%Z)).
    pose proof (seekg_content st0 (xlat_apply t 0%Z)) as (A1 & A2 & A3). fold st1 in A1, A2, A3.
    destruct (read st1 16) as [st2 ident] eqn:ER.
    pose proof (read_content st1 16) as (B1 & B2 & B3). rewrite ER in B1, B2, B3. cbn [fst] in *.
    assert (C2 : is_content st2 = content) by (rewrite B1, A1; reflexivity).
    assert (I2 : st_inv st2) by (unfold st_inv in *; congruence).
    assert (K2 : is_kind st2 = k) by (rewrite B3, A3; reflexivity).
    assert (Fail : forall r, el_secs r = [] -> el_segs r = [] -> forall st, is_content st = content -> st_inv st -> is_kind st = k ->
             exists el' ok allocs, Ok (with_stream r (Some st), false, @nil N) = Ok (el', ok, allocs) /\
               loaded_ok content k el' /\ (xlat_empty (el_xlat el) = true -> Forall (fun n => n <= lenN content + 1) allocs)).
    { intros r Hs Hg st Hc Hi Hk. eexists _, _, _. split; [reflexivity|]. split; [|intros _; constructor].
      split; [cbn; rewrite Hs; constructor|]. split; [cbn; rewrite Hg; constructor|]. exists st. auto. }
    destruct (negb (lenN ident =? 16)); [apply Fail; auto|].
    destruct (negb _); [apply Fail; auto|].
    destruct (negb ((nthN ident 4 0 =? 2) || (nthN ident 4 0 =? 1))); [apply Fail; auto|].
    destruct (negb ((nthN ident 5 0 =? 1) || (nthN ident 5 0 =? 2))); [apply Fail; auto|].
    set (c := if nthN ident 4 0 =? 2 then C64 else C32). set (e := if nthN ident 5 0 =? 1 then LSB else MSB).
    set (st3 := seekg st2 (xlat_apply t 0%Z)).
    pose proof (seekg_content st2 (xlat_apply t 0%Z)) as (D1 & D2 & D3). fold st3 in D1, D2, D3.
    destruct (read st3 (ehdr_size c)) as [st4 got] eqn:ER2.
    pose proof (read_content st3 (ehdr_size c)) as (E1 & E2 & E3). rewrite ER2 in E1, E2, E3. cbn [fst] in *.
    assert (C4 : is_content st4 = content) by congruence.
    assert (I4 : st_inv st4) by (unfold st_inv in *; congruence).
    assert (K4 : is_kind st4 = k) by congruence.
    set (h1 := ehdr_of_bytes c e (fill_struct (ehdr_bytes (new_header c e)) got)).
    destruct (negb (lenN got =? ehdr_size c)); [apply Fail; auto|].
    destruct (load_sections_total content k st4 (with_stream (with_hdr el0 (Some h1)) (Some st4)) h1 lazy I4 C4 K4
                ltac:(reflexivity) ltac:(reflexivity) ltac:(reflexivity))
      as (st5 & el2 & al1 & -> & (F2 & S2 & stx & Esx & C5 & I5 & K5) & Es2 & H2 & X2 & G2 & L1).
    cbn [bind]. rewrite Es2 in Esx. injection Esx as <-.
    cbn [el_hdr el_xlat el_segs with_stream with_hdr] in H2, X2, G2.
    destruct (load_segments_total content st5 (with_stream el2 (Some st5)) h1 lazy I5 C5)
      as (st6 & el3 & ok & al2 & -> & FG & S3 & X3 & H3 & C6 & I6 & K6 & L2).
    { cbn. exact H2. }
    { cbn. rewrite G2. reflexivity. }
    cbn [bind]. eexists _, _, _. split; [reflexivity|]. split.
    - split; [cbn; rewrite S3; exact F2|]. split; [cbn; exact FG|]. exists st6. cbn. repeat split; congruence.
    - intro Hx. apply Forall_app. split; [apply L1; cbn; exact Hx|]. apply L2. cbn. rewrite X2. exact Hx.
  Qed.
End WithEnv.


