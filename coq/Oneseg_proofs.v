(* Oneseg_proofs.v — the layout half of save() for an object with ONE segment whose members are
   allocated data sections the writer addresses itself, plus any number of sections outside it:
   ELF header, program header table, the segment (start congruent to its address, members chained
   inside), the free sections chained behind it, the section header table after everything. *)
From ElfioV Require Import Bytes Mem Stream SectionData SectionData_proofs Strings Elfio Table Loader Layout Layout_proofs Segment_proofs.
From Coq Require Import ZifyBool ZifyN ZifyNat.
Local Open Scope N_scope.

(* ---------- small facts ---------- *)
Lemma nth_optN_repeatN {A} (x : A) n i : i < n -> nth_optN (repeatN x n) i = Some x.
Proof.
  intros H. rewrite nth_optN_nth_error, repeatN_repeat.
  assert (Hl : (N.to_nat i < length (repeat x (N.to_nat n)))%nat) by (rewrite repeat_length; lia).
  destruct (nth_error (repeat x (N.to_nat n)) (N.to_nat i)) as [y|] eqn:E.
  - apply nth_error_In in E. apply repeat_spec in E. now subst.
  - apply nth_error_None in E. lia.
Qed.

(* calc_segment_alignment does nothing when the segment's alignment already dominates its members'
   (add_section_index raises it as members are added) *)
Lemma calc_seg_align_noop secs g ms :
  Forall2 (fun i s => nth_optN secs i = Some s) (firstnN (g_sections g) (seg_sections_num g)) ms ->
  Forall (fun s => sh_addralign s <= p_align g) ms ->
  calc_seg_align secs g = Ok g.
Proof.
  unfold calc_seg_align. generalize (firstnN (g_sections g) (seg_sections_num g)). intros l HF. revert HF.
  revert ms. induction l as [|i t IH]; intros ms HF Ha; [reflexivity|].
  inversion HF as [|? s ? mt Hs HFt]; subst. inversion Ha as [|? ? Ha1 Ha2]; subst.
  cbn [fold_left bind]. rewrite Hs. destruct (N.ltb_spec (p_align g) (sh_addralign s)); [lia|].
  exact (IH mt HFt Ha2).
Qed.

Lemma ordered_single g : get_ordered_segments [g] = Ok [0].
Proof. reflexivity. Qed.

Definition is_member (idxs : list N) (i : N) : bool := existsb (fun x => x =? i) idxs.

Lemma sws_single g i : lenN (g_sections g) < 2 ^ 16 ->
  sec_without_segment [g] i = negb (is_member (g_sections g) i).
Proof.
  intros H. unfold sec_without_segment, is_member. cbn [existsb]. rewrite orb_false_r.
  assert (Hn : seg_sections_num g = lenN (g_sections g)).
  { unfold seg_sections_num, wrap16, wrap. apply N.mod_small. exact H. }
  rewrite Hn, firstnN_all by lia. reflexivity.
Qed.

Lemma is_member_In idxs i : is_member idxs i = true <-> In i idxs.
Proof.
  unfold is_member. rewrite existsb_exists. split.
  - intros (x & Hx & E). apply N.eqb_eq in E. now subst.
  - intros H. exists i. split; [exact H|apply N.eqb_refl].
Qed.

(* ---------- the sections outside every segment, with segments present ---------- *)
(* the sections of [l] (standing at positions i, i+1, ...) that belong to no segment *)
Fixpoint free_list (segs : list segment) (i : N) (l : list section) : list section :=
  match l with
  | [] => []
  | s :: t => if sec_without_segment segs i then s :: free_list segs (i + 1) t else free_list segs (i + 1) t
  end.

Theorem lfs_spec_gen bound segs : forall todo pre pos,
  bound <= 2 ^ 64 -> Forall (fun s => bound <= 2 ^ xw (s_cls s)) todo -> pos + budget todo < bound ->
  exists todo' pos',
    layout_free_sections segs (pre ++ todo) (lenN pre) todo pos = (pre ++ todo', pos') /\
    Forall2 keeps todo todo' /\ chain (free_list segs (lenN pre) todo') pos pos' /\ pos' <= pos + budget todo /\
    (forall k, sec_without_segment segs (lenN pre + k) = false -> nth_optN todo' k = nth_optN todo k).
Proof.
  induction todo as [|sec t IH]; intros pre pos Hb Hc Hbud; cbn [layout_free_sections].
  - exists [], pos. cbn [budget fold_right chain free_list]. repeat split; try constructor; lia.
  - inversion Hc as [|? ? Hc1 Hc2]; subst.
    cbn [budget fold_right] in Hbud. fold (budget t) in Hbud.
    destruct (sec_without_segment segs (lenN pre)) eqn:Efree.
    + set (align := sh_addralign sec) in *.
      set (pos1 := if (1 <? align) && negb (pos mod align =? 0) then add64 pos (align - pos mod align) else pos).
      assert (P1 : pos <= pos1 /\ pos1 <= pos + align /\ (1 < align -> pos1 mod align = 0)).
      { unfold pos1. destruct (N.ltb_spec 1 align) as [Ha|Ha]; cbn [andb]; [|repeat split; lia].
        destruct (N.eqb_spec (pos mod align) 0) as [E0|E0]; cbn [negb]; [repeat split; lia|].
        assert (pos mod align < align) by (apply N.mod_lt; lia).
        rewrite add64_id by lia. repeat split; try lia. intros _.
        assert (E : pos + (align - pos mod align) = (pos / align + 1) * align).
        { pose proof (N.div_mod pos align ltac:(lia)). nia. }
        rewrite E. apply N.mod_mul. lia. }
      destruct P1 as (P1a & P1b & P1c).
      set (sec1 := if s_index sec =? 0 then sec else with_offset sec pos1).
      assert (T1 : sh_type sec1 = sh_type sec /\ sh_size sec1 = sh_size sec /\ s_cls sec1 = s_cls sec /\
                   s_index sec1 = s_index sec /\ sh_addralign sec1 = sh_addralign sec).
      { unfold sec1. destruct (s_index sec =? 0); repeat split. }
      destruct T1 as (T1 & T2 & T3 & T4 & T5).
      set (pos2 := if negb (sh_type sec1 =? SHT_NOBITS) && negb (sh_type sec1 =? SHT_NULL) then add64 pos1 (sh_size sec1) else pos1).
      assert (P2 : pos2 = pos1 + csize sec1).
      { unfold pos2, csize, carries. destruct (negb (sh_type sec1 =? SHT_NOBITS) && negb (sh_type sec1 =? SHT_NULL));
          [rewrite add64_id by (rewrite T2; lia); reflexivity|lia]. }
      rewrite updN_mid. replace (pre ++ sec1 :: t) with ((pre ++ [sec1]) ++ t) by (rewrite <- app_assoc; reflexivity).
      replace (lenN pre + 1) with (lenN (pre ++ [sec1])) by (rewrite lenN_app; cbn; lia).
      assert (Cs : csize sec1 <= sh_size sec) by (unfold csize; rewrite T2; destruct (carries sec1); lia).
      destruct (IH (pre ++ [sec1]) pos2 Hb Hc2 ltac:(lia)) as (t' & pos' & -> & K & Ch & Le & Nm).
      assert (L1 : lenN (pre ++ [sec1]) = lenN pre + 1) by (rewrite lenN_app; cbn; lia).
      exists (sec1 :: t'), pos'. split; [rewrite <- app_assoc; reflexivity|]. split; [|split; [|split]].
      * constructor; [|exact K]. unfold keeps, sec1. destruct (N.eqb_spec (s_index sec) 0) as [Ei0|Ei0]; [now left|right; split; [exact Ei0|]].
        rewrite with_offset_small by lia. reflexivity.
      * cbn [free_list]. rewrite Efree. rewrite L1 in Ch. cbn [chain]. rewrite T4.
        destruct (N.eqb_spec (s_index sec) 0) as [E0|E0].
        -- exists pos2. split; [lia|exact Ch].
        -- assert (Off : sh_offset sec1 = pos1).
           { unfold sec1. destruct (N.eqb_spec (s_index sec) 0); [lia|]. apply with_offset_small. lia. }
           rewrite Off, T5. split; [lia|]. split; [exact P1c|]. rewrite <- P2. exact Ch.
      * cbn [budget fold_right]. fold (budget t). fold align. lia.
      * intros k Hk. destruct (N.eq_dec k 0) as [->|Hk0].
        -- rewrite N.add_0_r in Hk. congruence.
        -- cbn [nth_optN]. destruct (N.eqb_spec k 0); [contradiction|]. apply Nm. rewrite L1.
           replace (lenN pre + 1 + (k - 1)) with (lenN pre + k) by lia. exact Hk.
    + replace (pre ++ sec :: t) with ((pre ++ [sec]) ++ t) by (rewrite <- app_assoc; reflexivity).
      assert (L1 : lenN (pre ++ [sec]) = lenN pre + 1) by (rewrite lenN_app; cbn; lia).
      rewrite <- L1.
      destruct (IH (pre ++ [sec]) pos Hb Hc2 ltac:(lia)) as (t' & pos' & -> & K & Ch & Le & Nm).
      exists (sec :: t'), pos'. split; [rewrite <- app_assoc; reflexivity|]. split; [|split; [|split]].
      * constructor; [now left|exact K].
      * cbn [free_list]. rewrite Efree. rewrite L1 in Ch. exact Ch.
      * cbn [budget fold_right]. fold (budget t). lia.
      * intros k Hk. destruct (N.eq_dec k 0) as [->|Hk0]; [reflexivity|].
        cbn [nth_optN]. destruct (N.eqb_spec k 0); [contradiction|]. apply Nm. rewrite L1.
        replace (lenN pre + 1 + (k - 1)) with (lenN pre + k) by lia. exact Hk.
Qed.

(* ---------- list plumbing ---------- *)
Lemma nth_optN_In {A} (l : list A) j x : nth_optN l j = Some x -> In x l.
Proof. rewrite nth_optN_nth_error. apply nth_error_In. Qed.

Lemma Forall2_both_In {A B} (P Q : A -> B -> Prop) l m j :
  Forall2 P l m -> Forall2 Q l m -> In j l -> exists s, In s m /\ P j s /\ Q j s.
Proof.
  intros HP. revert j. induction HP as [|a b l' m' Hab HP IH]; intros j HQ Hin; [contradiction|].
  inversion HQ as [|? ? ? ? Qab HQ']; subst. destruct Hin as [<-|Hin].
  - exists b. split; [now left|split; assumption].
  - destruct (IH j HQ' Hin) as (s & S1 & S2 & S3). exists s. split; [now right|split; assumption].
Qed.

Lemma Forall2_of_nth {A B} (R : A -> B -> Prop) : forall (l : list A) (l' : list B),
  lenN l' = lenN l -> (forall j x, nth_optN l j = Some x -> exists y, nth_optN l' j = Some y /\ R x y) ->
  Forall2 R l l'.
Proof.
  induction l as [|a t IH]; intros l' HL H.
  - destruct l'; [constructor|]. rewrite lenN_cons in HL. cbn [lenN] in HL. change (lenN (@nil A)) with 0 in HL. lia.
  - destruct l' as [|b t']; [rewrite lenN_cons in HL; change (lenN (@nil B)) with 0 in HL; lia|].
    destruct (H 0 a eq_refl) as (y & Hy & Ry). cbn [nth_optN N.eqb] in Hy. injection Hy as <-.
    constructor; [exact Ry|]. apply IH; [rewrite !lenN_cons in HL; lia|].
    intros j x Hj. destruct (H (j + 1) x) as (y2 & Hy & Ry2).
    + cbn [nth_optN]. destruct (N.eqb_spec (j + 1) 0); [lia|]. replace (j + 1 - 1) with j by lia. exact Hj.
    + cbn [nth_optN] in Hy. destruct (N.eqb_spec (j + 1) 0); [lia|]. replace (j + 1 - 1) with j in Hy by lia. eauto.
Qed.

Lemma Forall2_nth_l {A B} (R : A -> B -> Prop) l l' : Forall2 R l l' ->
  forall j x, nth_optN l j = Some x -> exists y, nth_optN l' j = Some y /\ R x y.
Proof.
  induction 1 as [|a b t t' Hab HF IH]; intros j x Hj; [discriminate|].
  cbn [nth_optN] in *. destruct (j =? 0); [injection Hj as <-; eauto|]. now apply IH.
Qed.

(* what the segment pass does to a section: nothing, or address and offset assigned *)
Definition placed_or_same (s s1 : section) : Prop := s1 = s \/ exists a o, s1 = with_offset (with_addr s a) o.

Lemma budget_placed l l1 : Forall2 placed_or_same l l1 -> budget l1 = budget l.
Proof.
  induction 1 as [|s s1 t t1 H HF IH]; [reflexivity|]. cbn [budget fold_right]. fold (budget t) (budget t1). rewrite IH.
  destruct H as [->|(a & o & ->)]; reflexivity.
Qed.

Lemma cls_placed (P : cls -> Prop) l l1 : Forall2 placed_or_same l l1 -> Forall (fun s => P (s_cls s)) l -> Forall (fun s => P (s_cls s)) l1.
Proof.
  induction 1 as [|s s1 t t1 H HF IH]; intros HA; [constructor|]. inversion HA as [|? ? A1 A2]; subst.
  constructor; [|now apply IH]. destruct H as [->|(a & o & ->)]; exact A1.
Qed.

(* ---------- the whole layout ---------- *)
Definition hdr_prep1 (h : ehdr) (nsec : N) : ehdr :=
  hdr_set (hdr_set (hdr_set (hdr_set h HPhnum 1) HPhoff (e_ehsize h)) HShnum nsec) HShoff 0.

Theorem layout_oneseg el h0 g bound ms :
  let idxs := g_sections g in
  let align := if 0 <? p_align g then p_align g else 1 in
  let secs := el_secs el in
  let pos0 := e_ehsize h0 + e_phentsize h0 in
  el_hdr el = Some h0 -> el_segs el = [g] -> lenN secs < 2 ^ 16 ->
  lenN idxs < 2 ^ 16 -> idxs <> [] -> g_offset_set g = false -> p_type g <> PT_PHDR -> NoDup idxs ->
  Forall2 (fun i s => nth_optN secs i = Some s) idxs ms ->
  Forall auto_member ms -> Forall (fun s => sh_addralign s <= p_align g) ms ->
  bound <= 2 ^ 64 -> Forall (fun s => bound <= 2 ^ xw (s_cls s)) secs -> bound <= 2 ^ xw (g_cls g) ->
  p_align g < 2 ^ 63 ->
  p_vaddr g + pos0 + align + mbudget ms + budget secs + 16 < bound ->
  exists el' g' secs' seg_start pos1 pos2,
    layout el = Ok (el', true) /\
    el_hdr el' = Some (hdr_set (hdr_prep1 h0 (lenN secs)) HShoff (pos2 + (16 - pos2 mod 16))) /\
    el_segs el' = [g'] /\ el_secs el' = secs' /\
    el_xlat el' = el_xlat el /\ el_compr el' = el_compr el /\ el_stream el' = el_stream el /\
    pos0 <= seg_start /\ seg_start < pos0 + align /\ seg_start mod align = p_vaddr g mod align /\
    p_offset g' = seg_start /\ p_vaddr g' = p_vaddr g /\ p_filesz g' = pos1 - seg_start /\ p_filesz g' <= p_memsz g' /\
    (g_sections g' = idxs /\ g_offset_set g' = true /\ p_align g' = p_align g /\ p_type g' = p_type g /\ g_cls g' = g_cls g /\
     g_index g' = g_index g /\ p_flags g' = p_flags g /\ p_paddr g' = p_paddr g) /\
    mchain g seg_start secs' idxs seg_start pos1 /\
    Forall2 (fun i s => exists a o, nth_optN secs' i = Some (with_offset (with_addr s a) o)) idxs ms /\
    (forall j s, ~ In j idxs -> nth_optN secs j = Some s -> exists s', nth_optN secs' j = Some s' /\ keeps s s') /\
    lenN secs' = lenN secs /\
    chain (free_list [g'] 0 secs') pos1 pos2 /\
    pos1 <= seg_start + mbudget ms /\ pos2 <= pos1 + budget secs.
Proof.
  cbv zeta. intros Hh Hs Hnsec Hlen Hne Hos Hty Hnd HF Hauto Hdom Hb64 Hcls Hbg Hal Hbud.
  set (align := if 0 <? p_align g then p_align g else 1) in *.
  assert (Ha1 : 1 <= align) by (unfold align; destruct (N.ltb_spec 0 (p_align g)); lia).
  assert (Hn : seg_sections_num g = lenN (g_sections g)).
  { unfold seg_sections_num, wrap16, wrap. apply N.mod_small. exact Hlen. }
  assert (Hms_in : forall s, In s ms -> In s (el_secs el)).
  { clear - HF. induction HF as [|i s t mt Hi HFt IH]; intros x Hx; [contradiction|].
    destruct Hx as [<-|Hx]; [now apply nth_optN_In in Hi|now apply IH]. }
  assert (Hcls_ms : Forall (fun s => bound <= 2 ^ xw (s_cls s)) ms).
  { apply Forall_forall. intros s Hsin. rewrite Forall_forall in Hcls. apply Hcls. now apply Hms_in. }
  unfold layout. rewrite Hh, Hs. cbn [lenN].
  change (wrap16 (N.succ 0)) with 1. cbn [N.ltb N.compare Pos.compare Pos.compare_cont].
  set (nsec := wrap16 (lenN (el_secs el))).
  assert (Ensec : nsec = lenN (el_secs el)) by (unfold nsec, wrap16, wrap; apply N.mod_small; exact Hnsec).
  cbn [map_res bind].
  rewrite (calc_seg_align_noop (el_secs el) g ms) by (try (rewrite Hn, firstnN_all by lia); assumption).
  cbn [bind]. rewrite ordered_single. cbn [bind layout_segments nth_optN N.eqb].
  change (hdr_set (hdr_set (hdr_set (hdr_set h0 HPhnum 1) HPhoff (e_ehsize (hdr_set h0 HPhnum 1))) HShnum nsec) HShoff 0)
    with (hdr_prep1 h0 nsec).
  set (h4 := hdr_prep1 h0 nsec).
  assert (P0 : add64 (e_ehsize h4) (wrap64 (e_phentsize h4 * e_phnum h4)) = e_ehsize h0 + e_phentsize h0).
  { replace (e_ehsize h4) with (e_ehsize h0) by (destruct h0; reflexivity).
    replace (e_phentsize h4) with (e_phentsize h0) by (destruct h0; reflexivity).
    replace (e_phnum h4) with 1 by (destruct h0; reflexivity).
    rewrite N.mul_1_r. unfold wrap64. rewrite wrap_small by lia. apply add64_id. lia. }
  rewrite P0. set (pos0 := e_ehsize h0 + e_phentsize h0) in *.
  destruct (layout_one_segment_auto h4 g (el_secs el) (repeatN false nsec) pos0 bound ms Hlen Hne Hos Hty Hnd HF Hauto Hcls_ms)
    as (g' & secs1 & gen' & pos1 & ss & E1 & A1 & A2 & A3 & A4 & A5 & A6 & A7 & A8 & A9 & A10 & A11 & A12 & _ & _ & A15 & A16);
    try assumption; try lia.
  { intros i Hi. apply nth_optN_repeatN. rewrite Ensec.
    destruct (Forall2_both_In _ _ _ _ i HF HF Hi) as (s & _ & Hsi & _). exact (nth_optN_lt _ _ _ Hsi). }
  cbv zeta in E1. rewrite E1. cbn [bind updN N.eqb layout_segments].
  (* the section list after the segment pass, pointwise *)
  assert (HR : Forall2 placed_or_same (el_secs el) secs1).
  { apply Forall2_of_nth; [exact A10|]. intros j x Hj.
    destruct (in_dec N.eq_dec j (g_sections g)) as [Hin|Hnin].
    - destruct (Forall2_both_In _ _ _ _ j HF A16 Hin) as (s & _ & Hsj & (a & o & Hs1)).
      rewrite Hj in Hsj. injection Hsj as <-. exists (with_offset (with_addr x a) o). split; [exact Hs1|right; eauto].
    - exists x. split; [rewrite (A9 j Hnin); exact Hj|now left]. }
  destruct (lfs_spec_gen bound [g'] secs1 [] pos1 Hb64 (cls_placed (fun c => bound <= 2 ^ xw c) _ _ HR Hcls))
    as (secs' & pos2 & E2 & K & Ch & Le & Nm).
  { rewrite (budget_placed _ _ HR). lia. }
  cbn [app lenN] in E2, Ch, Nm. rewrite E2.
  assert (P3 : add64 pos2 (16 - pos2 mod 16) = pos2 + (16 - pos2 mod 16)).
  { apply add64_id. assert (pos2 mod 16 < 16) by (apply N.mod_lt; lia). rewrite (budget_placed _ _ HR) in Le. lia. }
  rewrite P3.
  destruct A11 as (G1 & G2 & G3 & G4 & G5 & G6 & G7 & G8).
  assert (Hmem : forall k, In k (g_sections g) -> nth_optN secs' k = nth_optN secs1 k).
  { intros k Hk. apply Nm. rewrite N.add_0_l, sws_single by (rewrite G1; exact Hlen). rewrite G1.
    apply is_member_In in Hk. now rewrite Hk. }
  eexists _, g', secs', ss, pos1, pos2. split; [reflexivity|]. cbn [el_hdr el_segs el_secs el_xlat el_compr el_stream].
  split; [unfold h4; rewrite Ensec; reflexivity|]. do 5 (split; [reflexivity|]).
  split; [exact A1|]. split; [exact A2|]. split; [exact A3|]. split; [exact A4|]. split; [exact A5|].
  split; [exact A6|]. split; [exact A7|]. split; [repeat split; assumption|].
  split; [apply (mchain_frame g ss secs1 secs'); [intros i Hi; now apply Hmem|exact A8]|].
  split.
  { clear - A16 Hmem. induction A16 as [|i s t mt (a & o & Hi) HFt IH]; constructor.
    - exists a, o. rewrite Hmem by now left. exact Hi.
    - apply IH. intros k Hk. apply Hmem. now right. }
  split.
  { intros j s Hnin Hj. rewrite <- (A9 j Hnin) in Hj. exact (Forall2_nth_l _ _ _ K j s Hj). }
  split; [rewrite (Forall2_lenN _ _ _ K); exact A10|].
  split; [exact Ch|]. split; [exact A15|]. rewrite (budget_placed _ _ HR) in Le. exact Le.
Qed.
