(* Tables_proofs.v — C12 (dynamic), C14 (arrays, version indices): entries
   round-trip through the ABI encoding; the dynamic count stops at the first DT_NULL. *)
From ElfioV Require Import Bytes Mem Stream SectionData SectionData_proofs Strings Elfio Table Accessors.
From Coq Require Import ZifyBool ZifyN ZifyNat.
Local Open Scope N_scope.

Lemma pow256 n : 256 ^ n = 2 ^ (8 * n).
Proof. change 256 with (2 ^ 8). now rewrite <- N.pow_mul_r. Qed.

(* ================= arrays ================= *)
Definition arr_enc (e : endian) (w : N) (a : N) : bytes := enc_uint e (N.to_nat w) (wrap (8 * w) a).

Lemma arr_enc_len e w a : lenN (arr_enc e w a) = w.
Proof. unfold arr_enc. rewrite lenN_enc_uint. lia. Qed.

Theorem arr_roundtrip e w s es j a :
  Inv s -> 0 < w -> contents s = concat (map (arr_enc e w) es) ->
  sh_size s < 2 ^ 61 -> nth_optN es j = Some a ->
  arr_get_core e s (s_data s) w j = Ok (Some (wrap (8 * w) a)).
Proof.
  intros HI Hw HC HB Hn.
  pose proof (nth_optN_lt _ _ _ Hn) as Hj.
  pose proof (lenN_contents s HI) as HL.
  rewrite HC, (lenN_concat_enc _ w (arr_enc_len e w)) in HL.
  unfold arr_get_core, arr_entries_num. rewrite <- HL, N.div_mul by lia.
  destruct (N.leb_spec (lenN es) j); [lia|].
  assert (H64 : j * w < 2 ^ 64).
  { assert (2 ^ 61 < 2 ^ 64) by (apply N.pow_lt_mono_r; lia). nia. }
  rewrite (wrap_small 64) by exact H64.
  destruct (table_data_some (arr_enc e w) w (arr_enc_len e w) s es j a HI HC Hn Hw) as [b Eb].
  assert (Hm : forall (A : Type) (x y : A), match s_data s with Some _ => x | None => y end = x) by (intros; now rewrite Eb).
  rewrite Hm.
  unfold rd_word. rewrite N2Nat.id.
  rewrite (table_read (arr_enc e w) w (arr_enc_len e w) s es j a HI HC Hn). cbn [bind].
  unfold arr_enc. rewrite dec_enc_uint, N2Nat.id, pow256.
  unfold wrap. rewrite N.mod_mod by (apply N.pow_nonzero; lia). reflexivity.
Qed.

Theorem arr_out_of_range e w s es j p :
  Inv s -> 0 < w -> contents s = concat (map (arr_enc e w) es) -> lenN es <= j ->
  arr_get_core e s p w j = Ok None.
Proof.
  intros HI Hw HC Hj. pose proof (lenN_contents s HI) as HL.
  rewrite HC, (lenN_concat_enc _ w (arr_enc_len e w)) in HL.
  unfold arr_get_core, arr_entries_num. rewrite <- HL, N.div_mul by lia.
  destruct (N.leb_spec (lenN es) j); [reflexivity|lia].
Qed.

(* ================= version indices (host byte order = declared order) ================= *)
(* the accessor stores and reads 16-bit words in the host's order; when that
   is the file's declared order the table is the ABI table *)
Theorem versym_roundtrip_hostorder host s es j v p :
  Inv s -> contents s = concat (map (fun x => enc_uint host 2 (wrap16 x)) es) ->
  sh_size s < 2 ^ 32 -> nth_optN es j = Some v -> p = s_data s ->
  rd_word host p (j * 2) 2 = Ok (wrap16 v).
Proof.
  intros HI HC HB Hn ->.
  unfold rd_word. change (N.of_nat 2) with 2.
  assert (EL : forall x, lenN (enc_uint host 2 (wrap16 x)) = 2) by (intro; now rewrite lenN_enc_uint).
  rewrite (table_read _ 2 EL s es j v HI HC Hn). cbn [bind].
  rewrite dec_enc_uint. unfold wrap16, wrap. change (256 ^ N.of_nat 2) with (2 ^ 16).
  rewrite N.mod_mod by (apply N.pow_nonzero; lia). reflexivity.
Qed.

(* ================= dynamic ================= *)
Record dyn_entry := mkDynEntry { de_tag : N; de_value : N }.

Definition dyn_esz (c : cls) : N := layout_size (dyn_layout c).

(* the bytes add_entry( tag, value ) appends *)
Definition dyn_enc (c : cls) (e : endian) (d : dyn_entry) : bytes :=
  enc_fields e (dyn_layout c)
    [wrap (xw c) (de_tag d); wrap (xw c) (if dyn_tag_no_value (de_tag d) then 0 else de_value d)].

Lemma dyn_enc_len c e d : lenN (dyn_enc c e d) = dyn_esz c.
Proof. unfold dyn_enc, dyn_esz. apply lenN_enc_fields. destruct c; reflexivity. Qed.

Lemma dyn_esz_val c : dyn_esz c = match c with C32 => 8 | C64 => 16 end.
Proof. destruct c; reflexivity. Qed.

Lemma sext_small w v : 0 < w -> v < 2 ^ (w - 1) -> sext w v = v.
Proof. intros Hw H. unfold sext. destruct (N.ltb_spec v (2 ^ (w - 1))); [reflexivity|lia]. Qed.

(* what get_entry reports: tag, and the value (0 for tags without a value),
   truncated to the class width *)
Definition dyn_view (c : cls) (d : dyn_entry) : N * N :=
  (de_tag d, if dyn_tag_no_value (de_tag d) then 0 else wrap (xw c) (de_value d)).

Theorem dyn_raw_roundtrip c e s es j d :
  Inv s -> contents s = concat (map (dyn_enc c e) es) ->
  sh_entsize s = dyn_esz c -> sh_size s < 2 ^ 61 ->
  nth_optN es j = Some d -> de_tag d < 2 ^ (xw c - 1) ->
  dyn_raw_core c e s (s_data s) j = Ok (dyn_view c d).
Proof.
  intros HI HC HE HB Hn Ht.
  pose proof (nth_optN_lt _ _ _ Hn) as Hj.
  pose proof (lenN_contents s HI) as HL.
  rewrite HC, (lenN_concat_enc _ (dyn_esz c) (dyn_enc_len c e)) in HL.
  assert (Hez : dyn_esz c = match c with C32 => 8 | C64 => 16 end) by apply dyn_esz_val.
  assert (P64 : 2 ^ 61 < 2 ^ 64) by (apply N.pow_lt_mono_r; lia).
  unfold dyn_raw_core.
  assert (Hd : exists b, s_data s = Some b).
  { destruct HI as (_ & _ & HD). destruct (s_data s) as [b|]; [eauto|]. destruct HD as [H0 _]. destruct c; lia. }
  destruct Hd as [b Eb]. rewrite Eb, HE. unfold layout_sz. fold (dyn_esz c).
  destruct (N.ltb_spec (dyn_esz c) (dyn_esz c)); [lia|].
  destruct (N.eqb_spec (dyn_esz c) 0); [destruct c; lia|].
  rewrite <- HL, N.div_mul by assumption.
  assert (W1 : wrap64 (lenN es + (2 ^ 64 - 1)) = lenN es - 1).
  { unfold wrap64, wrap. assert (lenN es < 2 ^ 61) by (destruct c; nia).
    replace (lenN es + (2 ^ 64 - 1)) with ((lenN es - 1) + 1 * 2 ^ 64) by lia.
    rewrite N.mod_add by lia. apply N.mod_small. lia. }
  rewrite W1. destruct (N.ltb_spec (lenN es - 1) j); [lia|].
  assert (W2 : wrap64 (j * dyn_esz c) = j * dyn_esz c) by (apply (wrap_small 64); destruct c; nia).
  rewrite W2.
  assert (W3 : wrap64 (lenN es * dyn_esz c + (2 ^ 64 - dyn_esz c)) = lenN es * dyn_esz c - dyn_esz c).
  { unfold wrap64, wrap.
    replace (lenN es * dyn_esz c + (2 ^ 64 - dyn_esz c)) with ((lenN es * dyn_esz c - dyn_esz c) + 1 * 2 ^ 64) by (destruct c; nia).
    rewrite N.mod_add by lia. apply N.mod_small. destruct c; nia. }
  rewrite W3. destruct (N.ltb_spec (lenN es * dyn_esz c - dyn_esz c) (j * dyn_esz c)); [destruct c; nia|].
  rewrite <- Eb.
  rewrite (table_read (dyn_enc c e) (dyn_esz c) (dyn_enc_len c e) s es j d HI HC Hn). cbn [bind].
  unfold dyn_enc. rewrite dec_enc_fields by (destruct c; reflexivity).
  assert (Tg : sext (xw c) (nthN (trunc_fields (dyn_layout c)
                 [wrap (xw c) (de_tag d); wrap (xw c) (if dyn_tag_no_value (de_tag d) then 0 else de_value d)]) 0 0) = de_tag d).
  { destruct c; [assert (Ht' : de_tag d < 2 ^ 31) by exact Ht | assert (Ht' : de_tag d < 2 ^ 63) by exact Ht]; clear Ht; rename Ht' into Ht;
      cbn [dyn_layout trunc_fields nthN N.eqb xw];
      [change (256 ^ N.of_nat 4) with (2 ^ 32) | change (256 ^ N.of_nat 8) with (2 ^ 64)];
      unfold wrap; rewrite N.mod_mod by (apply N.pow_nonzero; lia);
      (rewrite N.mod_small by (eapply N.lt_trans; [exact Ht|apply N.pow_lt_mono_r; lia]));
      apply sext_small; try lia; (eapply N.lt_le_trans; [exact Ht|apply N.pow_le_mono_r; lia]). }
  rewrite Tg. unfold dyn_view. f_equal. f_equal.
  destruct (dyn_tag_no_value (de_tag d)); [reflexivity|].
  destruct c; cbn [dyn_layout trunc_fields nthN N.eqb N.sub xw];
    [change (256 ^ N.of_nat 4) with (2 ^ 32) | change (256 ^ N.of_nat 8) with (2 ^ 64)];
    unfold wrap; now rewrite N.mod_mod by (apply N.pow_nonzero; lia).
Qed.

(* index of the first DT_NULL entry, or the length *)
Fixpoint first_null (es : list dyn_entry) : N :=
  match es with
  | [] => 0
  | d :: t => if de_tag d =? DT_NULL then 0 else 1 + first_null t
  end.

Lemma first_null_le es : first_null es <= lenN es.
Proof. induction es as [|d t IH]; cbn [first_null]; [cbn; lia|]. rewrite lenN_cons. destruct (de_tag d =? DT_NULL); lia. Qed.

Lemma skipnN_nth {A} (l : list A) i x : nth_optN l i = Some x -> skipnN l i = x :: skipnN l (i + 1).
Proof.
  revert i; induction l as [|y t IH]; intro i; cbn [nth_optN]; [discriminate|].
  cbn [skipnN]. destruct (N.eqb_spec i 0) as [->|Hi].
  - intros [= ->]. cbn [N.add N.eqb]. now rewrite skipnN_0.
  - intros H. destruct (N.eqb_spec (i + 1) 0); [lia|].
    replace (i + 1 - 1) with (i - 1 + 1) by lia. now apply IH.
Qed.

(* the counting loop stops exactly at the first DT_NULL *)
Theorem dyn_count_first_null c e s es fuel i :
  Inv s -> contents s = concat (map (dyn_enc c e) es) ->
  sh_entsize s = dyn_esz c -> sh_size s < 2 ^ 61 ->
  Forall (fun d => de_tag d < 2 ^ (xw c - 1)) es ->
  i <= lenN es -> lenN es - i < lenN fuel ->
  dyn_count_core fuel c e s (s_data s) i (lenN es) = Ok (i + first_null (skipnN es i)).
Proof.
  intros HI HC HE HB Ht. revert i.
  induction fuel as [|x f IH]; intros i Hi Hf; [cbn in Hf; lia|].
  cbn [dyn_count_core].
  destruct (N.ltb_spec i (lenN es)) as [Hlt|Hge].
  - destruct (nth_optN_some es i Hlt) as [d En].
    assert (Hd : de_tag d < 2 ^ (xw c - 1)).
    { rewrite Forall_forall in Ht. apply Ht. rewrite nth_optN_nth_error in En. eapply nth_error_In; eauto. }
    rewrite (dyn_raw_roundtrip c e s es i d HI HC HE HB En Hd). unfold dyn_view. cbn [bind].
    rewrite (skipnN_nth _ _ _ En). cbn [first_null].
    destruct (de_tag d =? DT_NULL); [f_equal; lia|].
    rewrite IH; [f_equal; lia|lia|rewrite lenN_cons in Hf; lia].
  - assert (i = lenN es) by lia. subst i. rewrite skipnN_all by lia. cbn [first_null]. f_equal. lia.
Qed.

(* count reported = entries up to and including the first DT_NULL, never more than stored *)
Corollary dyn_reported_count c e s es fuel :
  Inv s -> contents s = concat (map (dyn_enc c e) es) ->
  sh_entsize s = dyn_esz c -> sh_size s < 2 ^ 61 ->
  Forall (fun d => de_tag d < 2 ^ (xw c - 1)) es -> lenN es < lenN fuel ->
  exists i, dyn_count_core fuel c e s (s_data s) 0 (lenN es) = Ok i /\
    N.min (lenN es) (i + 1) = N.min (lenN es) (first_null es + 1) /\
    N.min (lenN es) (i + 1) <= lenN es.
Proof.
  intros HI HC HE HB Ht Hf.
  exists (first_null es). split.
  - rewrite (dyn_count_first_null c e s es fuel 0 HI HC HE HB Ht) by lia.
    rewrite skipnN_0. reflexivity.
  - split; [reflexivity|lia].
Qed.
