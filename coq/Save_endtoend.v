(* Save_endtoend.v — C03: the function save() itself, for objects without segments: from the object as the user built
   it (or loaded and requested it) to the bytes in the stream.  save() returns true and the stream holds the ELF
   header, every section header record and every section's data verbatim at their places. *)
From ElfioV Require Import Bytes Mem Stream Stream_proofs SectionData SectionData_proofs Strings Elfio Table Loader Layout Writer
     Ostream_proofs Codec_proofs Layout_proofs Writer_proofs ByName_proofs Save_twice
     Segment_proofs Oneseg_proofs Oneseg_writer.
From Coq Require Import ZifyBool ZifyN ZifyNat.
Local Open Scope N_scope.

Section EndToEnd.
  Variable junk : N -> N.

  (* a section save() can write as it is: offset representable, no pending load, data buffer covering the size *)
  Definition writable (s : section) : Prop :=
    sh_offset s < 2 ^ xw (s_cls s) /\ quiet s /\
    (forall b, s_data s = Some b -> sh_size s <= lenN b).

  Lemma section_plan_writable enc st t s hpos : writable s ->
    section_plan junk false enc st t s hpos =
      Ok (st, s, (hpos, shdr_bytes enc s) ::
                 (if negb (csize s =? 0) then match s_data s with Some b => [(sh_offset s, firstnN b (sh_size s))] | None => [] end else [])).
  Proof.
    intros (Ho & Q & Hr). unfold section_plan.
    assert (E1 : (if s_index s =? 0 then s else with_offset s (sh_offset s)) = s).
    { destruct (s_index s =? 0); [reflexivity|now apply with_offset_same]. }
    rewrite E1, csize_nonzero_b.
    destruct (negb (sh_type s =? SHT_NOBITS) && negb (sh_type s =? SHT_NULL) && negb (sh_size s =? 0)) eqn:Ec; cbn [andb]; [|reflexivity].
    destruct (s_data s) as [b|] eqn:Ed; [|reflexivity]. unfold is_compressed. cbn [andb].
    assert (Hc : csize s <> 0).
    { intro Hz. pose proof (csize_nonzero_b s) as Hb. rewrite Ec, Hz in Hb. discriminate. }
    pose proof (Hr b eq_refl) as Hb.
    rewrite (sec_get_data_quiet junk st t s Q). cbn [bind]. rewrite Ed.
    rewrite rd_some by lia. cbn [bind]. unfold sliceN. rewrite skipnN_0. reflexivity.
  Qed.

  Lemma sections_plan_writable enc h t st : forall todo done acc,
    e_shoff h < 2 ^ 63 -> Forall writable todo ->
    sections_plan junk false enc h t st done todo acc =
      Ok (st, rev_append done [] ++ todo, acc ++ flat_map (sec_writes enc (e_shoff h) (e_shentsize h)) todo).
  Proof.
    induction todo as [|s r IH]; intros done acc H63 Hr; cbn [sections_plan flat_map].
    - now rewrite !app_nil_r.
    - inversion Hr as [|? ? Hs Ht]; subst.
      rewrite (section_plan_writable enc st t s _ Hs). cbn [bind].
      rewrite IH by assumption. f_equal. f_equal; [f_equal|].
      + rewrite !rev_append_rev. cbn [rev]. rewrite !app_nil_r, <- app_assoc. reflexivity.
      + rewrite <- app_assoc. f_equal. unfold sec_writes. rewrite (entry_pos_plain junk) by exact H63. reflexivity.
  Qed.

  (* the layout step leaves the translation table, the compression switch and the input stream alone *)
  Lemma layout_keeps_env el el' ok : layout el = Ok (el', ok) ->
    el_xlat el' = el_xlat el /\ el_compr el' = el_compr el /\ el_stream el' = el_stream el.
  Proof.
    unfold layout. destruct (el_hdr el) as [h0|]; [|intros H; injection H as <- _; auto].
    destruct (map_res _ _) as [segs1|]; cbn [bind]; [|discriminate].
    destruct (get_ordered_segments segs1) as [order|]; cbn [bind]; [|discriminate].
    destruct (layout_segments _ _ _ _ _ _) as [[[[segs2 secs2] pos1] ok1]|]; cbn [bind]; [|discriminate].
    destruct ok1.
    - destruct (layout_free_sections _ _ _ _ _) as [secs3 pos2]. intros H; injection H as <- _; auto.
    - intros H; injection H as <- _; auto.
  Qed.

  (* the first write of save(): the ELF header at position 0 of a fresh, unbounded stream *)
  Lemma save_header_fresh h :
    save_header h [] (new_ostream None) = (exec_write (new_ostream None) (0, ehdr_bytes h), true).
  Proof.
    unfold save_header, exec_write. cbn [xlat_apply fst snd Z.to_N].
    unfold adjust_stream_size, new_ostream, seekp_end, seekp, tellp. cbn.
    unfold write. cbn. destruct (lenN (ehdr_bytes h) =? 0); reflexivity.
  Qed.

  Lemma keeps_writable s s' : keeps s s' -> writable s -> writable s'.
  Proof.
    intros [->|[_ ->]] W; [exact W|]. destruct W as (Ho & Q & D). split; [|split].
    - cbn [sh_offset s_cls with_offset]. unfold wrap. apply N.mod_lt. apply N.pow_nonzero. lia.
    - exact Q.
    - exact D.
  Qed.

  (* save() of an object without segments, into a fresh unbounded stream *)
  Theorem save_noseg_end_to_end el0 h0 bound :
    el_hdr el0 = Some h0 -> el_segs el0 = [] -> el_xlat el0 = [] -> el_compr el0 = false ->
    Forall writable (el_secs el0) ->
    bound <= 2 ^ 63 -> Forall (fun s => bound <= 2 ^ xw (s_cls s)) (el_secs el0) ->
    e_ehsize h0 + budget (el_secs el0) + 16 < bound ->
    exists el1 h',
      layout el0 = Ok (el1, true) /\ el_hdr el1 = Some h' /\
      (plan_small 0 (noseg_plan h' (el_secs el1)) ->
       exists os,
         save junk el0 (new_ostream None) = Ok (el1, os, true) /\
         os = exec_plan (new_ostream None) (noseg_plan h' (el_secs el1))).
  Proof.
    intros Hh Hs Hx Hcm W Hb Hc Hbud.
    destruct (layout_noseg el0 h0 bound Hh Hs ltac:(lia) Hc Hbud) as (el1 & secs' & h' & pos' & L1 & Es & Eg & Eh & K & Ch & Hh' & Le & _).
    exists el1, h'. split; [exact L1|]. split; [exact Eh|]. intros Hsmall.
    destruct (layout_keeps_env _ _ _ L1) as (X1 & X2 & X3).
    assert (Q0 : Forall quiet (el_secs el0)).
    { eapply Forall_impl; [|exact W]. intros s (_ & Q & _). exact Q. }
    assert (W1 : Forall writable (el_secs el1)).
    { rewrite Es. clear - K W. induction K as [|s s' t t' Hk HK IH]; [constructor|]. inversion W; subst.
      constructor; [eapply keeps_writable; eauto|auto]. }
    assert (Hso : e_shoff h' < 2 ^ 63).
    { assert (E : e_shoff h' = wrap (xw (e_cls h0)) (pos' + (16 - pos' mod 16))) by (rewrite Hh'; destruct h0; reflexivity).
      rewrite E. unfold wrap.
      eapply N.le_lt_trans; [apply N.mod_le; apply N.pow_nonzero; lia|].
      assert (pos' mod 16 < 16) by (apply N.mod_lt; lia). lia. }
    unfold save. change (os_bad (new_ostream None)) with false. cbn iota. rewrite Hh.
    rewrite (force_sections_quiet junk _ _ _ [] Q0). cbn [bind rev_append].
    rewrite Hs. cbn [force_segments bind rev_append]. rewrite <- Hs, with_parts_id, L1. cbn [bind negb]. rewrite Eh.
    rewrite X1, Hx, save_header_fresh. cbn [negb]. rewrite X2, Hcm.
    rewrite (sections_plan_writable (e_enc h') h' [] (el_stream el1) (el_secs el1) [] [] Hso W1). cbn [bind rev_append app].
    rewrite Eg. cbn [segments_plan map exec_plan fold_left].
    set (os1 := exec_write (new_ostream None) (0, ehdr_bytes h')).
    set (plan_s := flat_map (sec_writes (e_enc h') (e_shoff h') (e_shentsize h')) (el_secs el1)).
    assert (E2 : fold_left exec_write plan_s os1 = exec_plan (new_ostream None) (noseg_plan h' (el_secs el1))) by reflexivity.
    destruct new_ostream_ok as [Ok0 G0].
    destruct (exec_plan_flat (noseg_plan h' (el_secs el1)) (new_ostream None) Ok0 G0 Hsmall) as (_ & (G1 & G2 & _) & _). cbv zeta in *.
    fold (exec_plan os1 plan_s). change (exec_plan os1 plan_s) with (fold_left exec_write plan_s os1). rewrite E2, G2, G1. cbn [negb].
    eexists. split; [|reflexivity].
    f_equal. f_equal. f_equal. destruct el1; cbn in *. subst. reflexivity.
  Qed.

  (* ... and what the stream then holds *)
  Theorem save_noseg_saved_file el0 h0 bound :
    el_hdr el0 = Some h0 -> el_segs el0 = [] -> el_xlat el0 = [] -> el_compr el0 = false ->
    Forall writable (el_secs el0) ->
    bound <= 2 ^ 63 -> Forall (fun s => bound <= 2 ^ xw (s_cls s)) (el_secs el0) ->
    e_ehsize h0 + budget (el_secs el0) + 16 < bound -> bound <= 2 ^ xw (e_cls h0) ->
    indexed_from 0 (el_secs el0) ->
    (forall s, In s (el_secs el0) -> s_index s = 0 -> csize s = 0) ->
    lenN (e_ident h0) = 16 -> e_ehsize h0 = ehdr_size (e_cls h0) ->
    (forall s, In s (el_secs el0) -> shdr_size (s_cls s) <= e_shentsize h0) ->
    exists el1 h',
      layout el0 = Ok (el1, true) /\ el_hdr el1 = Some h' /\
      (plan_small 0 (noseg_plan h' (el_secs el1)) ->
       exists os,
         save junk el0 (new_ostream None) = Ok (el1, os, true) /\
         let file := os_bytes os in
         sliceN file 0 (ehdr_size (e_cls h')) = ehdr_bytes h' /\
         (forall s, In s (el_secs el1) ->
            sliceN file (e_shoff h' + e_shentsize h' * s_index s) (shdr_size (s_cls s)) = shdr_bytes (e_enc h') s) /\
         (forall s b, In s (el_secs el1) -> csize s <> 0 -> s_data s = Some b ->
            sliceN file (sh_offset s) (sh_size s) = firstnN b (sh_size s))).
  Proof.
    intros Hh Hs Hx Hcm W Hb Hc Hbud Hbh Hidx Hnull Hident Heh Hes.
    destruct (save_noseg_end_to_end el0 h0 bound Hh Hs Hx Hcm W Hb Hc Hbud) as (el1 & h' & L1 & Eh & SV).
    destruct (layout_noseg el0 h0 bound Hh Hs ltac:(lia) Hc Hbud) as (el2 & secs' & h2 & pos' & L2 & Es & _ & Eh2 & K & _ & Hh' & _).
    rewrite L1 in L2. injection L2 as <-. rewrite Eh in Eh2. injection Eh2 as <-.
    destruct (noseg_ranges_disjoint el0 h0 bound Hh Hs ltac:(lia) Hc Hbud Hbh Hidx) as (el3 & h3 & L3 & Eh3 & Hidx' & pos3 & Ch & Hsh & E1 & E2).
    rewrite L1 in L3. injection L3 as <-. rewrite Eh in Eh3. injection Eh3 as <-.
    exists el1, h'. split; [exact L1|]. split; [exact Eh|]. intros Hsmall.
    destruct (SV Hsmall) as (os & E & ->). exists (exec_plan (new_ostream None) (noseg_plan h' (el_secs el1))). split; [exact E|].
    (* facts about the sections after the layout, from those before it *)
    assert (Hback : forall s', In s' (el_secs el1) -> exists s, In s (el_secs el0) /\ keeps s s').
    { rewrite Es. clear - K. induction K as [|s s' t t' Hk HK IH]; intros x Hx; [contradiction|].
      destruct Hx as [<-|Hx]; [exists s; split; [now left|exact Hk]|]. destruct (IH x Hx) as (y & Hy & R). exists y. split; [now right|exact R]. }
    assert (W1 : Forall writable (el_secs el1)).
    { rewrite Es. clear - K W. induction K as [|s s' t t' Hk HK IH]; [constructor|]. inversion W; subst.
      constructor; [eapply keeps_writable; eauto|auto]. }
    rewrite Forall_forall in W1.
    assert (Hident' : lenN (e_ident h') = 16) by (rewrite Hh'; destruct h0; exact Hident).
    assert (Hcls' : e_cls h' = e_cls h0) by (rewrite Hh'; destruct h0; reflexivity).
    apply (noseg_file_contents h' (el_secs el1) pos3 Ch Hidx' Hsh); try assumption.
    - intros s' Hin. destruct (Hback s' Hin) as (s & Hs0 & Hk). rewrite E2, (keeps_cls _ _ Hk). now apply Hes.
    - intros s' Hin Hi0. destruct (Hback s' Hin) as (s & Hs0 & [->|[Hne Ew]]); [now apply Hnull|]. exfalso. apply Hne. rewrite Ew in Hi0. exact Hi0.
    - rewrite E1, Hcls'. exact Heh.
    - intros s b Hin Hd. destruct (W1 s Hin) as (_ & _ & D). now apply D.
  Qed.
End EndToEnd.

(* ---------- C16 at the level of save(): a sink with a byte capacity ---------- *)
Section Capped.
  Variable junk : N -> N.

  Lemma save_header_new h c :
    save_header h [] (new_ostream c) =
      (exec_write (new_ostream c) (0, ehdr_bytes h), negb (os_bad (exec_write (new_ostream c) (0, ehdr_bytes h)))).
  Proof. reflexivity. Qed.

  Lemma bad_sticky_plan p : forall s, os_bad s = true -> os_bad (exec_plan s p) = true.
  Proof.
    induction p as [|w t IH]; intros s H; cbn [exec_plan fold_left]; [exact H|].
    apply IH. unfold exec_write. now apply bad_sticky_write, bad_sticky_adjust.
  Qed.

  Lemma plan_small_no_huge p : forall s, stream_ok s -> good s -> plan_small (os_len s) p -> plan_no_huge s p.
  Proof.
    induction p as [|w t IH]; intros s Hok Hg Hp; cbn [plan_no_huge]; [exact I|].
    destruct Hp as [Hw Ht]. split; [exact Hw|].
    destruct (exec_write_flat s w Hok Hg Hw) as (Ok1 & G1 & L1 & _). cbv zeta in *.
    apply IH; [exact Ok1|exact G1|rewrite L1; exact Ht].
  Qed.

  (* save() of an object without segments into a sink that accepts k bytes: true, with the complete file, when the
     file fits; never true when it does not *)
  Theorem save_noseg_capped el0 h0 bound k :
    el_hdr el0 = Some h0 -> el_segs el0 = [] -> el_xlat el0 = [] -> el_compr el0 = false ->
    Forall writable (el_secs el0) ->
    bound <= 2 ^ 63 -> Forall (fun s => bound <= 2 ^ xw (s_cls s)) (el_secs el0) ->
    e_ehsize h0 + budget (el_secs el0) + 16 < bound ->
    exists el1 h',
      layout el0 = Ok (el1, true) /\ el_hdr el1 = Some h' /\
      (plan_small 0 (noseg_plan h' (el_secs el1)) ->
       let full := exec_plan (new_ostream None) (noseg_plan h' (el_secs el1)) in
       (os_len full <= k ->
          exists os, save junk el0 (new_ostream (Some k)) = Ok (el1, os, true) /\ os_bytes os = os_bytes full) /\
       (k < os_len full ->
          forall el2 os, save junk el0 (new_ostream (Some k)) <> Ok (el2, os, true))).
  Proof.
    intros Hh Hs Hx Hcm W Hb Hc Hbud.
    destruct (layout_noseg el0 h0 bound Hh Hs ltac:(lia) Hc Hbud) as (el1 & secs' & h' & pos' & L1 & Es & Eg & Eh & K & Ch & Hh' & Le & _).
    exists el1, h'. split; [exact L1|]. split; [exact Eh|]. intros Hsmall. cbv zeta.
    destruct (layout_keeps_env _ _ _ L1) as (X1 & X2 & X3).
    assert (Q0 : Forall quiet (el_secs el0)).
    { eapply Forall_impl; [|exact W]. intros s (_ & Q & _). exact Q. }
    assert (W1 : Forall writable (el_secs el1)).
    { rewrite Es. clear - K W junk. induction K as [|s s' t t' Hk HK IH]; [constructor|]. inversion W; subst.
      constructor; [eapply keeps_writable; eauto|auto]. }
    assert (Hso : e_shoff h' < 2 ^ 63).
    { assert (E : e_shoff h' = wrap (xw (e_cls h0)) (pos' + (16 - pos' mod 16))) by (rewrite Hh'; destruct h0; reflexivity).
      rewrite E. unfold wrap.
      eapply N.le_lt_trans; [apply N.mod_le; apply N.pow_nonzero; lia|].
      assert (pos' mod 16 < 16) by (apply N.mod_lt; lia). lia. }
    set (plan := noseg_plan h' (el_secs el1)) in *.
    set (sc := new_ostream (Some k)). set (su := new_ostream None).
    destruct new_ostream_ok as [Ok0 G0].
    assert (HNH : plan_no_huge su plan) by (apply plan_small_no_huge; assumption).
    assert (HS0 : in_step k sc su) by (unfold in_step, sc, su, new_ostream; cbn; repeat split; lia).
    destruct (exec_plan_sim k plan sc su HS0 HNH) as [SIM OVF].
    (* what save() computes, in terms of the plan executed on the capped stream *)
    set (w0 := (0, ehdr_bytes h')).
    set (plan_s := flat_map (sec_writes (e_enc h') (e_shoff h') (e_shentsize h')) (el_secs el1)).
    assert (Eplan : exec_plan (exec_write sc w0) plan_s = exec_plan sc plan) by reflexivity.
    assert (SV : save junk el0 sc =
                 (if negb (negb (os_bad (exec_write sc w0))) then Ok (el1, exec_write sc w0, false)
                  else if os_abort (exec_plan sc plan) then Fault Abort
                  else if os_bad (exec_plan sc plan) then Ok (el1, exec_plan sc plan, false)
                  else if os_abort (exec_plan sc plan) then Fault Abort
                  else Ok (el1, exec_plan sc plan, negb (os_bad (exec_plan sc plan))))).
    { unfold save. change (os_bad sc) with false. cbn iota. rewrite Hh.
      rewrite (force_sections_quiet junk _ _ _ [] Q0). cbn [bind rev_append].
      rewrite Hs. cbn [force_segments bind rev_append]. rewrite <- Hs, with_parts_id, L1. cbn [bind negb]. rewrite Eh.
      rewrite X1, Hx. unfold sc. rewrite save_header_new. fold sc. fold w0.
      destruct (os_bad (exec_write sc w0)); cbn [negb]; [reflexivity|].
      rewrite X2, Hcm.
      rewrite (sections_plan_writable junk (e_enc h') h' [] (el_stream el1) (el_secs el1) [] [] Hso W1). cbn [bind rev_append app].
      rewrite Eg. cbn [segments_plan map exec_plan fold_left].
      fold plan_s. change (fold_left exec_write plan_s (exec_write sc w0)) with (exec_plan (exec_write sc w0) plan_s).
      rewrite Eplan.
      assert (Eel : with_stream (with_secs el1 (el_secs el1)) (el_stream el1) = el1) by (destruct el1; reflexivity).
      rewrite Eel. reflexivity. }
    split.
    - intros Hfit. destruct (SIM Hfit) as (_ & _ & B1 & _ & A1 & _ & P1 & L & _).
      assert (B0 : os_bad (exec_write sc w0) = false).
      { destruct (os_bad (exec_write sc w0)) eqn:E; [|reflexivity].
        pose proof (bad_sticky_plan plan_s _ E) as Hbad. rewrite Eplan in Hbad. congruence. }
      exists (exec_plan sc plan). rewrite SV, B0, A1, B1. cbn [negb]. split; [reflexivity|].
      unfold os_bytes. now rewrite P1, L.
    - intros Hover el2 os Habs. destruct (OVF Hover) as (B1 & _).
      rewrite SV in Habs.
      destruct (os_bad (exec_write sc w0)); cbn [negb] in Habs; [discriminate|].
      destruct (os_abort (exec_plan sc plan)); [discriminate|].
      rewrite B1 in Habs. discriminate.
  Qed.
End Capped.

(* ---------- the same for objects with one segment of automatically addressed members ---------- *)
Section EndToEndOneseg.
  Variable junk : N -> N.

  Lemma relaid_writable s s' : relaid s s' -> writable s -> writable s'.
  Proof.
    intros [->|[(o & ->)|(a & o & ->)]] W; [exact W| |]; destruct W as (Ho & Q & D); (split; [|split; [exact Q|exact D]]);
      cbn [sh_offset s_cls with_offset with_addr]; unfold wrap; apply N.mod_lt; apply N.pow_nonzero; lia.
  Qed.

  Lemma exec_plan_app os p q : exec_plan (exec_plan os p) q = exec_plan os (p ++ q).
  Proof. unfold exec_plan. now rewrite fold_left_app. Qed.

  Theorem save_oneseg_end_to_end el h0 g bound ms :
    let idxs := g_sections g in
    let align := if 0 <? p_align g then p_align g else 1 in
    let secs := el_secs el in
    let pos0 := e_ehsize h0 + e_phentsize h0 in
    el_hdr el = Some h0 -> el_segs el = [g] -> lenN secs < 2 ^ 16 ->
    lenN idxs < 2 ^ 16 -> idxs <> [] -> g_offset_set g = false -> p_type g <> PT_PHDR -> NoDup idxs ->
    Forall2 (fun i s => nth_optN secs i = Some s) idxs ms ->
    Forall auto_member ms -> Forall (fun s => sh_addralign s <= p_align g) ms ->
    bound <= 2 ^ 63 -> Forall (fun s => bound <= 2 ^ xw (s_cls s)) secs -> bound <= 2 ^ xw (g_cls g) ->
    bound <= 2 ^ xw (e_cls h0) -> p_align g < 2 ^ 63 ->
    p_vaddr g + pos0 + align + mbudget ms + budget secs + 16 + e_shentsize h0 * lenN secs < bound ->
    indexed_from 0 secs ->
    (forall s, In s secs -> s_index s = 0 -> csize s = 0) ->
    lenN (e_ident h0) = 16 -> e_ehsize h0 = ehdr_size (e_cls h0) ->
    (forall s, In s secs -> shdr_size (s_cls s) <= e_shentsize h0) ->
    phdr_size (g_cls g) <= e_phentsize h0 -> g_index g = 0 ->
    el_xlat el = [] -> el_compr el = false -> Forall writable secs -> g_loaded g = true ->
    exists el' h' g',
      layout el = Ok (el', true) /\ el_hdr el' = Some h' /\ el_segs el' = [g'] /\
      let plan := oneseg_plan h' (el_secs el') (segments_plan (e_enc h') h' [g']) in
      (plan_small 0 plan ->
       exists os,
         save junk el (new_ostream None) = Ok (el', os, true) /\
         let file := os_bytes os in
         sliceN file 0 (ehdr_size (e_cls h')) = ehdr_bytes h' /\
         sliceN file (e_phoff h') (phdr_size (g_cls g')) = phdr_bytes (e_enc h') g' /\
         (forall s, In s (el_secs el') ->
            sliceN file (e_shoff h' + e_shentsize h' * s_index s) (shdr_size (s_cls s)) = shdr_bytes (e_enc h') s) /\
         (forall s b, In s (el_secs el') -> csize s <> 0 -> s_data s = Some b ->
            sliceN file (sh_offset s) (sh_size s) = firstnN b (sh_size s))).
  Proof.
    cbv zeta. intros Hh Hs Hnsec Hlen Hne Hos Hty Hnd HF Hauto Hdom Hb63 Hcls Hbg Hbh Hal Hbud Hidx Hnull Hident Heh Hes Hph Hgi Hx Hcm W Hgl.
    assert (Hdata : forall s b, In s (el_secs el) -> s_data s = Some b -> sh_size s <= lenN b).
    { intros s b Hin Hd. rewrite Forall_forall in W. destruct (W s Hin) as (_ & _ & D). now apply D. }
    destruct (oneseg_saved_file el h0 g bound ms Hh Hs Hnsec Hlen Hne Hos Hty Hnd HF Hauto Hdom Hb63 Hcls Hbg Hbh Hal Hbud Hidx
                Hnull Hdata Hident Heh Hes Hph Hgi)
      as (el' & h' & g' & ss & pos1 & pos2 & L & Eh & Eg & RL & Hpo & Hpn & Hsn & Hso & _ & _ & _ & _ & _ & _ & _ & _ & _ & FILE).
    exists el', h', g'. split; [exact L|]. split; [exact Eh|]. split; [exact Eg|]. intros Hsmall.
    destruct (layout_keeps_env _ _ _ L) as (X1 & X2 & X3).
    assert (Q0 : Forall quiet (el_secs el)).
    { eapply Forall_impl; [|exact W]. intros s (_ & Q & _). exact Q. }
    assert (W1 : Forall writable (el_secs el')).
    { clear - RL W junk. induction RL as [|s s' t t' Hk HK IH]; [constructor|]. inversion W; subst.
      constructor; [eapply relaid_writable; eauto|auto]. }
    assert (Hso63 : e_shoff h' < 2 ^ 63).
    { rewrite Hso. set (align := if 0 <? p_align g then p_align g else 1) in *.
      destruct (layout_oneseg el h0 g bound ms Hh Hs Hnsec Hlen Hne Hos Hty Hnd HF Hauto Hdom ltac:(lia) Hcls Hbg Hal)
        as (el2 & g2 & secs2 & ss2 & p1 & p2 & L2 & Eh2 & _ & _ & _ & _ & _ & _ & T2 & _ & _ & _ & _ & _ & _ & _ & _ & _ & _ & _ & B1 & B2).
      { fold align. clearbody align. clear - Hbud. lia. }
      rewrite L in L2. injection L2 as <-. rewrite Eh in Eh2. injection Eh2 as Eh2.
      assert (E : e_shoff h' = wrap (xw (e_cls h0)) (p2 + (16 - p2 mod 16))) by (rewrite Eh2; destruct h0; reflexivity).
      rewrite <- Hso, E. unfold wrap. eapply N.le_lt_trans; [apply N.mod_le; apply N.pow_nonzero; lia|].
      fold align in T2. clearbody align. clear - T2 B1 B2 Hbud Hb63. lia. }
    unfold save. change (os_bad (new_ostream None)) with false. cbn iota. rewrite Hh.
    rewrite (force_sections_quiet junk _ _ _ [] Q0). cbn [bind rev_append].
    rewrite Hs. cbn [force_segments]. unfold seg_get_data at 1. rewrite Hgl. cbn [bind rev_append].
    rewrite <- Hs, with_parts_id, L. cbn [bind negb]. rewrite Eh.
    rewrite X1, Hx, save_header_fresh. cbn [negb]. rewrite X2, Hcm.
    rewrite (sections_plan_writable junk (e_enc h') h' [] (el_stream el') (el_secs el') [] [] Hso63 W1). cbn [bind rev_append app].
    set (os1 := exec_write (new_ostream None) (0, ehdr_bytes h')).
    set (plan_s := flat_map (sec_writes (e_enc h') (e_shoff h') (e_shentsize h')) (el_secs el')).
    assert (E2 : exec_plan (exec_plan os1 plan_s) (segments_plan (e_enc h') h' (el_segs el')) =
                 exec_plan (new_ostream None) (oneseg_plan h' (el_secs el') (segments_plan (e_enc h') h' [g']))).
    { rewrite Eg, exec_plan_app. reflexivity. }
    destruct new_ostream_ok as [Ok0 G0].
    (* the intermediate stream (after the sections) is good as well: it is the execution of a prefix of the plan *)
    assert (Hsmall1 : plan_small 0 ((0, ehdr_bytes h') :: plan_s)).
    { clear - Hsmall. unfold oneseg_plan in Hsmall. fold plan_s in Hsmall.
      revert Hsmall. generalize ((0, ehdr_bytes h') :: plan_s) as p. generalize 0 as len.
      intros len p. revert len. induction p as [|w t IH]; intros len H; cbn [app plan_small] in *; [exact I|].
      destruct H as [H1 H2]. split; [exact H1|]. now apply IH. }
    destruct (exec_plan_flat ((0, ehdr_bytes h') :: plan_s) (new_ostream None) Ok0 G0 Hsmall1) as (_ & (G1 & G2 & _) & _). cbv zeta in *.
    change (exec_plan (new_ostream None) ((0, ehdr_bytes h') :: plan_s)) with (exec_plan os1 plan_s) in G1, G2.
    rewrite G2, G1.
    destruct (exec_plan_flat _ (new_ostream None) Ok0 G0 Hsmall) as (_ & (G3 & G4 & _) & _). cbv zeta in *.
    rewrite E2, G4, G3. cbn [negb].
    eexists. split.
    - f_equal. f_equal. f_equal. destruct el'; cbn in *. subst. reflexivity.
    - exact (FILE Hsmall).
  Qed.

  Lemma abort_sticky_plan p : forall s, os_abort s = true -> exec_plan s p = s.
  Proof.
    induction p as [|w t IH]; intros s H; cbn [exec_plan fold_left]; [reflexivity|].
    assert (E : exec_write s w = s).
    { unfold exec_write, adjust_stream_size. rewrite H. unfold write. rewrite H, orb_true_r. reflexivity. }
    rewrite E. now apply IH.
  Qed.

  (* ... and on a sink that accepts k bytes *)
  Theorem save_oneseg_capped el h0 g bound ms k :
    let idxs := g_sections g in
    let align := if 0 <? p_align g then p_align g else 1 in
    let secs := el_secs el in
    let pos0 := e_ehsize h0 + e_phentsize h0 in
    el_hdr el = Some h0 -> el_segs el = [g] -> lenN secs < 2 ^ 16 ->
    lenN idxs < 2 ^ 16 -> idxs <> [] -> g_offset_set g = false -> p_type g <> PT_PHDR -> NoDup idxs ->
    Forall2 (fun i s => nth_optN secs i = Some s) idxs ms ->
    Forall auto_member ms -> Forall (fun s => sh_addralign s <= p_align g) ms ->
    bound <= 2 ^ 63 -> Forall (fun s => bound <= 2 ^ xw (s_cls s)) secs -> bound <= 2 ^ xw (g_cls g) ->
    bound <= 2 ^ xw (e_cls h0) -> p_align g < 2 ^ 63 ->
    p_vaddr g + pos0 + align + mbudget ms + budget secs + 16 + e_shentsize h0 * lenN secs < bound ->
    indexed_from 0 secs ->
    (forall s, In s secs -> s_index s = 0 -> csize s = 0) ->
    lenN (e_ident h0) = 16 -> e_ehsize h0 = ehdr_size (e_cls h0) ->
    (forall s, In s secs -> shdr_size (s_cls s) <= e_shentsize h0) ->
    phdr_size (g_cls g) <= e_phentsize h0 -> g_index g = 0 ->
    el_xlat el = [] -> el_compr el = false -> Forall writable secs -> g_loaded g = true ->
    exists el' h' g',
      layout el = Ok (el', true) /\ el_hdr el' = Some h' /\ el_segs el' = [g'] /\
      let plan := oneseg_plan h' (el_secs el') (segments_plan (e_enc h') h' [g']) in
      (plan_small 0 plan ->
       let full := exec_plan (new_ostream None) plan in
       (os_len full <= k ->
          exists os, save junk el (new_ostream (Some k)) = Ok (el', os, true) /\ os_bytes os = os_bytes full) /\
       (k < os_len full ->
          forall el2 os, save junk el (new_ostream (Some k)) <> Ok (el2, os, true))).
  Proof.
    cbv zeta. intros Hh Hs Hnsec Hlen Hne Hos Hty Hnd HF Hauto Hdom Hb63 Hcls Hbg Hbh Hal Hbud Hidx Hnull Hident Heh Hes Hph Hgi Hx Hcm W Hgl.
    assert (Hdata : forall s b, In s (el_secs el) -> s_data s = Some b -> sh_size s <= lenN b).
    { intros s b Hin Hd. rewrite Forall_forall in W. destruct (W s Hin) as (_ & _ & D). now apply D. }
    destruct (oneseg_saved_file el h0 g bound ms Hh Hs Hnsec Hlen Hne Hos Hty Hnd HF Hauto Hdom Hb63 Hcls Hbg Hbh Hal Hbud Hidx
                Hnull Hdata Hident Heh Hes Hph Hgi)
      as (el' & h' & g' & ss & pos1 & pos2 & L & Eh & Eg & RL & Hpo & Hpn & Hsn & Hso & _ & _ & _ & _ & _ & _ & _ & _ & _ & _).
    exists el', h', g'. split; [exact L|]. split; [exact Eh|]. split; [exact Eg|]. intros Hsmall.
    destruct (layout_keeps_env _ _ _ L) as (X1 & X2 & X3).
    assert (Q0 : Forall quiet (el_secs el)).
    { eapply Forall_impl; [|exact W]. intros s (_ & Q & _). exact Q. }
    assert (W1 : Forall writable (el_secs el')).
    { clear - RL W junk. induction RL as [|s s' t t' Hk HK IH]; [constructor|]. inversion W; subst.
      constructor; [eapply relaid_writable; eauto|auto]. }
    assert (Hso63 : e_shoff h' < 2 ^ 63).
    { rewrite Hso. set (align := if 0 <? p_align g then p_align g else 1) in *.
      destruct (layout_oneseg el h0 g bound ms Hh Hs Hnsec Hlen Hne Hos Hty Hnd HF Hauto Hdom ltac:(lia) Hcls Hbg Hal)
        as (el2 & g2 & secs2 & ss2 & p1 & p2 & L2 & Eh2 & _ & _ & _ & _ & _ & _ & T2 & _ & _ & _ & _ & _ & _ & _ & _ & _ & _ & _ & B1 & B2).
      { fold align. clearbody align. clear - Hbud. lia. }
      rewrite L in L2. injection L2 as <-. rewrite Eh in Eh2. injection Eh2 as Eh2.
      assert (E : e_shoff h' = wrap (xw (e_cls h0)) (p2 + (16 - p2 mod 16))) by (rewrite Eh2; destruct h0; reflexivity).
      rewrite <- Hso, E. unfold wrap. eapply N.le_lt_trans; [apply N.mod_le; apply N.pow_nonzero; lia|].
      fold align in T2. clearbody align. clear - T2 B1 B2 Hbud Hb63. lia. }
    set (segplan := segments_plan (e_enc h') h' [g']) in *.
    set (plan := oneseg_plan h' (el_secs el') segplan) in *.
    set (sc := new_ostream (Some k)). set (su := new_ostream None).
    destruct new_ostream_ok as [Ok0 G0].
    assert (HNH : plan_no_huge su plan) by (apply plan_small_no_huge; assumption).
    assert (HS0 : in_step k sc su) by (unfold in_step, sc, su, new_ostream; cbn; repeat split; lia).
    destruct (exec_plan_sim k plan sc su HS0 HNH) as [SIM OVF].
    set (w0 := (0, ehdr_bytes h')).
    set (plan_s := flat_map (sec_writes (e_enc h') (e_shoff h') (e_shentsize h')) (el_secs el')).
    set (os2 := exec_plan (exec_write sc w0) plan_s).
    assert (Eplan : exec_plan os2 segplan = exec_plan sc plan).
    { unfold os2. change (exec_plan (exec_write sc w0) plan_s) with (exec_plan sc (w0 :: plan_s)). rewrite exec_plan_app. reflexivity. }
    assert (SV : save junk el sc =
                 (if negb (negb (os_bad (exec_write sc w0))) then Ok (el', exec_write sc w0, false)
                  else if os_abort os2 then Fault Abort
                  else if os_bad os2 then Ok (el', os2, false)
                  else if os_abort (exec_plan sc plan) then Fault Abort
                  else Ok (el', exec_plan sc plan, negb (os_bad (exec_plan sc plan))))).
    { unfold save. change (os_bad sc) with false. cbn iota. rewrite Hh.
      rewrite (force_sections_quiet junk _ _ _ [] Q0). cbn [bind rev_append].
      rewrite Hs. cbn [force_segments]. unfold seg_get_data at 1. rewrite Hgl. cbn [bind rev_append].
      rewrite <- Hs, with_parts_id, L. cbn [bind negb]. rewrite Eh.
      rewrite X1, Hx. unfold sc. rewrite save_header_new. fold sc. fold w0.
      destruct (os_bad (exec_write sc w0)); cbn [negb]; [reflexivity|].
      rewrite X2, Hcm.
      rewrite (sections_plan_writable junk (e_enc h') h' [] (el_stream el') (el_secs el') [] [] Hso63 W1). cbn [bind rev_append app].
      fold plan_s. fold os2. rewrite Eg. fold segplan. rewrite Eplan.
      assert (Eel : with_stream (with_secs el' (el_secs el')) (el_stream el') = el') by (destruct el'; reflexivity).
      rewrite Eel. reflexivity. }
    split.
    - intros Hfit. destruct (SIM Hfit) as (_ & _ & B1 & _ & A1 & _ & P1 & Ln & _).
      assert (B0 : os_bad (exec_write sc w0) = false).
      { destruct (os_bad (exec_write sc w0)) eqn:E; [|reflexivity].
        pose proof (bad_sticky_plan (plan_s ++ segplan) _ E) as Hbad.
        rewrite <- exec_plan_app in Hbad. fold os2 in Hbad. rewrite Eplan in Hbad. congruence. }
      assert (B2 : os_bad os2 = false).
      { destruct (os_bad os2) eqn:E; [|reflexivity]. pose proof (bad_sticky_plan segplan _ E) as Hbad. rewrite Eplan in Hbad. congruence. }
      assert (A2 : os_abort os2 = false).
      { destruct (os_abort os2) eqn:E; [|reflexivity]. pose proof (abort_sticky_plan segplan _ E) as Hid. rewrite Eplan in Hid. congruence. }
      exists (exec_plan sc plan). rewrite SV, B0, A2, B2, A1, B1. cbn [negb]. split; [reflexivity|].
      unfold os_bytes. now rewrite P1, Ln.
    - intros Hover el2 os Habs. destruct (OVF Hover) as (B1 & _).
      rewrite SV in Habs.
      destruct (os_bad (exec_write sc w0)); cbn [negb] in Habs; [discriminate|].
      destruct (os_abort os2); [discriminate|]. destruct (os_bad os2); [discriminate|].
      destruct (os_abort (exec_plan sc plan)); [discriminate|].
      rewrite B1 in Habs. discriminate.
  Qed.
End EndToEndOneseg.
