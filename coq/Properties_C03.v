(* Properties_C03.v — C03: a file built through the API decodes, per the ELF
   spec, to what was put in.  Proved: every record the writer emits decodes back
   field by field in the byte order declared in e_ident; every planned write
   that nothing later overwrites is found verbatim in the saved bytes at its
   position; what the writer plans for a section is its header record at the
   table position and its data at its offset.  That the planned ranges of one
   save() never overlap is Properties_C04 (objects without segments) and the
   correspondence run (objects with segments): partial at whole-object level. *)
From ElfioV Require Import Bytes Mem Stream SectionData Strings Elfio Table Loader Layout Writer Codec_proofs Ostream_proofs Layout_proofs Writer_proofs Segment_proofs Oneseg_proofs Oneseg_writer ByName_proofs Save_endtoend.
Local Open Scope N_scope.

Theorem C03_header_record_decodes :
  forall h, ehdr_wf h -> ehdr_of_bytes (e_cls h) (e_enc h) (ehdr_bytes h) = h.
Proof. exact ehdr_roundtrip. Qed.
Print Assumptions C03_header_record_decodes.

Theorem C03_section_record_decodes :
  forall enc s0 s, s_cls s0 = s_cls s -> shdr_wf s ->
    let r := sec_with_raw enc s0 (shdr_bytes enc s) in
    sh_name r = sh_name s /\ sh_type r = sh_type s /\ sh_flags r = sh_flags s /\ sh_addr r = sh_addr s /\
    sh_offset r = sh_offset s /\ sh_size r = sh_size s /\ sh_link r = sh_link s /\ sh_info r = sh_info s /\
    sh_addralign r = sh_addralign s /\ sh_entsize r = sh_entsize s.
Proof. exact shdr_roundtrip. Qed.
Print Assumptions C03_section_record_decodes.

Theorem C03_segment_record_decodes :
  forall enc g0 g ss lz, g_cls g0 = g_cls g -> phdr_wf g ->
    let r := seg_of_raw enc g0 (phdr_bytes enc g) ss lz in
    p_type r = p_type g /\ p_flags r = p_flags g /\ p_offset r = p_offset g /\ p_vaddr r = p_vaddr g /\
    p_paddr r = p_paddr g /\ p_filesz r = p_filesz g /\ p_memsz r = p_memsz g /\ p_align r = p_align g.
Proof. exact phdr_roundtrip. Qed.
Print Assumptions C03_segment_record_decodes.

(* the identification bytes declare the class and byte order the records use *)
Theorem C03_ident_declares_encoding :
  forall c e, let h := new_header c e in
    nthN (e_ident h) 4 0 = cls_byte c /\ nthN (e_ident h) 5 0 = enc_byte e /\ e_cls h = c /\ e_enc h = e /\
    firstnN (ehdr_bytes h) 16 = e_ident h.
Proof. intros c e. destruct c, e; repeat split. Qed.
Print Assumptions C03_ident_declares_encoding.

(* the saved bytes: executing a write plan on a fresh stream *)
Theorem C03_planned_write_appears_verbatim :
  forall s before (w : N * bytes) after,
    stream_ok s -> good s -> plan_small (os_len s) (before ++ w :: after) ->
    (forall w' i, In w' after -> in_range w i = true -> in_range w' i = false) ->
    sliceN (os_bytes (exec_plan s (before ++ w :: after))) (fst w) (lenN (snd w)) = snd w.
Proof. exact plan_slice_visible. Qed.
Print Assumptions C03_planned_write_appears_verbatim.

(* what save() plans for one section whose data is resident *)
Theorem C03_section_plan :
  forall junk enc st t s hpos b,
    s_index s <> 0 -> sh_type s <> SHT_NOBITS -> sh_type s <> SHT_NULL -> sh_size s <> 0 ->
    s_data s = Some b -> sh_size s <= lenN b -> s_loaded s = true -> sh_offset s < 2 ^ xw (s_cls s) ->
    section_plan junk false enc st t s hpos =
      Ok (st, s, [(hpos, shdr_bytes enc s); (sh_offset s, firstnN b (sh_size s))]).
Proof.
  intros junk enc st t s hpos b Hi Hn1 Hn2 Hz Hd Hb Hl Ho. unfold section_plan.
  assert (E : with_offset s (sh_offset s) = s).
  { destruct s; cbn in *. unfold with_offset; cbn. f_equal. unfold wrap. now apply N.mod_small. }
  destruct (N.eqb_spec (s_index s) 0); [contradiction|]. rewrite E.
  apply N.eqb_neq in Hn1, Hn2, Hz. rewrite Hn1, Hn2, Hz, Hd. cbn [negb andb]. unfold is_compressed. cbn [andb].
  unfold sec_get_data. rewrite Hl. cbn [negb andb bind]. rewrite Hd.
  rewrite rd_some by lia. cbn [bind]. unfold sliceN. rewrite skipnN_0. reflexivity.
Qed.
Print Assumptions C03_section_plan.

(* Objects without segments, end to end.  After the layout step (chain of
   sections after the ELF header, section header table after them:
   C04_layout_without_segments / noseg_ranges_disjoint) the writes of save() are
   the plan [noseg_plan] (C03_sections_plan_is_the_plan), and in the saved file
   the ELF header is found at 0, every section's header record at
   e_shoff + e_shentsize * index and every non-empty section's data at its
   offset — each verbatim, hence (by the three record theorems above) decoding
   to what was put in. *)
Theorem C03_noseg_saved_file :
  forall (h : ehdr) (secs : list section) (pos' : N),
    chain secs (e_ehsize h) pos' -> indexed_from 0 secs -> pos' <= e_shoff h ->
    (forall s, In s secs -> shdr_size (s_cls s) <= e_shentsize h) ->
    (forall s, In s secs -> s_index s = 0 -> csize s = 0) ->
    lenN (e_ident h) = 16 -> e_ehsize h = ehdr_size (e_cls h) ->
    (forall s b, In s secs -> s_data s = Some b -> sh_size s <= lenN b) ->
    plan_small 0 (noseg_plan h secs) ->
    let file := os_bytes (exec_plan (new_ostream None) (noseg_plan h secs)) in
    sliceN file 0 (ehdr_size (e_cls h)) = ehdr_bytes h /\
    (forall s, In s secs ->
       sliceN file (e_shoff h + e_shentsize h * s_index s) (shdr_size (s_cls s)) = shdr_bytes (e_enc h) s) /\
    (forall s b, In s secs -> csize s <> 0 -> s_data s = Some b ->
       sliceN file (sh_offset s) (sh_size s) = firstnN b (sh_size s)).
Proof. exact noseg_file_contents. Qed.
Print Assumptions C03_noseg_saved_file.

(* Objects with one segment of automatically addressed members (plus any sections outside it), end to
   end from the object as built to the bytes of the file: the layout step succeeds; the writes of save()
   — ELF header, the program header record, every section header record, every section's data — are
   pairwise disjoint; so the saved file holds the ELF header at 0, the program header record at e_phoff,
   every section's header record at e_shoff + e_shentsize * index and every non-empty section's data at
   its offset, each verbatim (hence, by the three record theorems above, decoding to what was put in). *)
Theorem C03_one_segment_saved_file :
  forall el h0 g bound ms,
    let idxs := g_sections g in
    let align := if 0 <? p_align g then p_align g else 1 in
    let secs := el_secs el in
    let pos0 := e_ehsize h0 + e_phentsize h0 in
    el_hdr el = Some h0 -> el_segs el = [g] -> lenN secs < 2 ^ 16 ->
    lenN idxs < 2 ^ 16 -> idxs <> [] -> g_offset_set g = false -> p_type g <> PT_PHDR -> NoDup idxs ->
    Forall2 (fun i s => nth_optN secs i = Some s) idxs ms ->
    Forall auto_member ms -> Forall (fun s => sh_addralign s <= p_align g) ms ->
    bound <= 2 ^ 63 -> Forall (fun s => bound <= 2 ^ xw (s_cls s)) secs -> bound <= 2 ^ xw (g_cls g) ->
    bound <= 2 ^ xw (e_cls h0) -> p_align g < 2 ^ 63 ->
    p_vaddr g + pos0 + align + mbudget ms + budget secs + 16 + e_shentsize h0 * lenN secs < bound ->
    indexed_from 0 secs ->
    (forall s, In s secs -> s_index s = 0 -> csize s = 0) ->
    (forall s b, In s secs -> s_data s = Some b -> sh_size s <= lenN b) ->
    lenN (e_ident h0) = 16 -> e_ehsize h0 = ehdr_size (e_cls h0) ->
    (forall s, In s secs -> shdr_size (s_cls s) <= e_shentsize h0) ->
    phdr_size (g_cls g) <= e_phentsize h0 -> g_index g = 0 ->
    exists el' h' g' seg_start pos1 pos2,
      layout el = Ok (el', true) /\ el_hdr el' = Some h' /\ el_segs el' = [g'] /\
      Forall2 relaid secs (el_secs el') /\
      e_phoff h' = e_ehsize h0 /\ e_phnum h' = 1 /\ e_shnum h' = lenN secs /\
      e_shoff h' = pos2 + (16 - pos2 mod 16) /\
      pos0 <= seg_start /\ seg_start mod align = p_vaddr g mod align /\
      p_offset g' = seg_start /\ p_vaddr g' = p_vaddr g /\ p_filesz g' = pos1 - seg_start /\ p_filesz g' <= p_memsz g' /\
      mchain g seg_start (el_secs el') idxs seg_start pos1 /\
      chain (free_list [g'] 0 (el_secs el')) pos1 pos2 /\
      let plan := oneseg_plan h' (el_secs el') (segments_plan (e_enc h') h' [g']) in
      all_disjoint plan /\
      (plan_small 0 plan ->
       let file := os_bytes (exec_plan (new_ostream None) plan) in
       sliceN file 0 (ehdr_size (e_cls h')) = ehdr_bytes h' /\
       sliceN file (e_phoff h') (phdr_size (g_cls g')) = phdr_bytes (e_enc h') g' /\
       (forall s, In s (el_secs el') ->
          sliceN file (e_shoff h' + e_shentsize h' * s_index s) (shdr_size (s_cls s)) = shdr_bytes (e_enc h') s) /\
       (forall s b, In s (el_secs el') -> csize s <> 0 -> s_data s = Some b ->
          sliceN file (sh_offset s) (sh_size s) = firstnN b (sh_size s))).
Proof. exact oneseg_saved_file. Qed.
Print Assumptions C03_one_segment_saved_file.

Theorem C03_sections_plan_is_the_plan :
  forall junk enc h st todo done acc,
    e_shoff h < 2 ^ 63 -> Forall ready todo ->
    sections_plan junk false enc h [] st done todo acc =
      Ok (st, rev_append done [] ++ todo, acc ++ flat_map (sec_writes enc (e_shoff h) (e_shentsize h)) todo).
Proof. exact sections_plan_noseg. Qed.
Print Assumptions C03_sections_plan_is_the_plan.

(* THE FUNCTION save() ITSELF, for objects without segments, from the object as the user built it (or loaded and
   requested it) to the bytes in the stream.  Sections "writable" as they are: offset field within its width, no
   pending load (quiet: the data have been requested once - C09_quiet_after_first_request - or there is nothing to
   load them from), a data buffer that covers the size.  Into a fresh unbounded stream, with no translation table and no compression interface: save()
   returns true, leaves the object the layout step produced, and the stream holds the ELF header at 0, every
   section's header record at e_shoff + e_shentsize * index and every non-empty section's data at its offset,
   verbatim - hence, by the record theorems above, a file that decodes to what was put in. *)
Theorem C03_save_without_segments_end_to_end :
  forall junk el0 h0 bound,
    el_hdr el0 = Some h0 -> el_segs el0 = [] -> el_xlat el0 = [] -> el_compr el0 = false ->
    Forall writable (el_secs el0) ->
    bound <= 2 ^ 63 -> Forall (fun s => bound <= 2 ^ xw (s_cls s)) (el_secs el0) ->
    e_ehsize h0 + budget (el_secs el0) + 16 < bound -> bound <= 2 ^ xw (e_cls h0) ->
    indexed_from 0 (el_secs el0) ->
    (forall s, In s (el_secs el0) -> s_index s = 0 -> csize s = 0) ->
    lenN (e_ident h0) = 16 -> e_ehsize h0 = ehdr_size (e_cls h0) ->
    (forall s, In s (el_secs el0) -> shdr_size (s_cls s) <= e_shentsize h0) ->
    exists el1 h',
      layout el0 = Ok (el1, true) /\ el_hdr el1 = Some h' /\
      (plan_small 0 (noseg_plan h' (el_secs el1)) ->
       exists os,
         save junk el0 (new_ostream None) = Ok (el1, os, true) /\
         let file := os_bytes os in
         sliceN file 0 (ehdr_size (e_cls h')) = ehdr_bytes h' /\
         (forall s, In s (el_secs el1) ->
            sliceN file (e_shoff h' + e_shentsize h' * s_index s) (shdr_size (s_cls s)) = shdr_bytes (e_enc h') s) /\
         (forall s b, In s (el_secs el1) -> csize s <> 0 -> s_data s = Some b ->
            sliceN file (sh_offset s) (sh_size s) = firstnN b (sh_size s))).
Proof. exact save_noseg_saved_file. Qed.
Print Assumptions C03_save_without_segments_end_to_end.

(* ... and for objects with ONE segment of automatically addressed members plus sections outside it (the class of
   C03_one_segment_saved_file), whose segment has been asked for its data once: save() returns true, leaves the
   object the layout produced, and the stream holds the ELF header, the program header record, every section header
   record and every section's data verbatim at their places *)
Theorem C03_save_with_one_segment_end_to_end :
  forall junk el h0 g bound ms,
    let idxs := g_sections g in
    let align := if 0 <? p_align g then p_align g else 1 in
    let secs := el_secs el in
    let pos0 := e_ehsize h0 + e_phentsize h0 in
    el_hdr el = Some h0 -> el_segs el = [g] -> lenN secs < 2 ^ 16 ->
    lenN idxs < 2 ^ 16 -> idxs <> [] -> g_offset_set g = false -> p_type g <> PT_PHDR -> NoDup idxs ->
    Forall2 (fun i s => nth_optN secs i = Some s) idxs ms ->
    Forall auto_member ms -> Forall (fun s => sh_addralign s <= p_align g) ms ->
    bound <= 2 ^ 63 -> Forall (fun s => bound <= 2 ^ xw (s_cls s)) secs -> bound <= 2 ^ xw (g_cls g) ->
    bound <= 2 ^ xw (e_cls h0) -> p_align g < 2 ^ 63 ->
    p_vaddr g + pos0 + align + mbudget ms + budget secs + 16 + e_shentsize h0 * lenN secs < bound ->
    indexed_from 0 secs ->
    (forall s, In s secs -> s_index s = 0 -> csize s = 0) ->
    lenN (e_ident h0) = 16 -> e_ehsize h0 = ehdr_size (e_cls h0) ->
    (forall s, In s secs -> shdr_size (s_cls s) <= e_shentsize h0) ->
    phdr_size (g_cls g) <= e_phentsize h0 -> g_index g = 0 ->
    el_xlat el = [] -> el_compr el = false -> Forall writable secs -> g_loaded g = true ->
    exists el' h' g',
      layout el = Ok (el', true) /\ el_hdr el' = Some h' /\ el_segs el' = [g'] /\
      let plan := oneseg_plan h' (el_secs el') (segments_plan (e_enc h') h' [g']) in
      (plan_small 0 plan ->
       exists os,
         save junk el (new_ostream None) = Ok (el', os, true) /\
         let file := os_bytes os in
         sliceN file 0 (ehdr_size (e_cls h')) = ehdr_bytes h' /\
         sliceN file (e_phoff h') (phdr_size (g_cls g')) = phdr_bytes (e_enc h') g' /\
         (forall s, In s (el_secs el') ->
            sliceN file (e_shoff h' + e_shentsize h' * s_index s) (shdr_size (s_cls s)) = shdr_bytes (e_enc h') s) /\
         (forall s b, In s (el_secs el') -> csize s <> 0 -> s_data s = Some b ->
            sliceN file (sh_offset s) (sh_size s) = firstnN b (sh_size s))).
Proof. exact save_oneseg_end_to_end. Qed.
Print Assumptions C03_save_with_one_segment_end_to_end.

(* non-vacuity: an ELF32 object with the null section and a 5-byte program section meets every premise, and save()
   of it evaluates to true with a 144-byte file *)
Definition ex_sv_secs : list section :=
  map (fun s => with_load_flags s false true true)      (* their data have been requested once *)
  [with_index (new_section C32) 0;
   with_index (with_data (with_size (with_addralign (with_type (new_section C32) 1) 4) 5) (Some [1; 2; 3; 4; 5]) 5) 1].
Definition ex_sv_el : elfio := with_secs (with_hdr (empty_elfio false) (Some (new_header C32 LSB))) ex_sv_secs.
Example C03_save_example :
  Forall writable (el_secs ex_sv_el) /\ indexed_from 0 (el_secs ex_sv_el) /\
  e_ehsize (new_header C32 LSB) + budget (el_secs ex_sv_el) + 16 < 2 ^ 32 /\
  match save (fun _ => 0) ex_sv_el (new_ostream None) with
  | Ok (_, os, ok) => ok = true /\ lenN (os_bytes os) = 144 /\ sliceN (os_bytes os) 52 5 = [1; 2; 3; 4; 5]
  | Fault _ => False
  end.
Proof.
  split.
  { change (el_secs ex_sv_el) with ex_sv_secs. unfold ex_sv_secs. cbn [map].
    apply Forall_cons; [|apply Forall_cons; [|apply Forall_nil]]; (split; [vm_compute; reflexivity|split; [vm_compute; reflexivity|]]); intros b Hb.
    - discriminate Hb.
    - injection Hb as <-. vm_compute. discriminate. }
  split; [vm_compute; auto|]. split; [vm_compute; reflexivity|]. vm_compute. repeat split; reflexivity.
Qed.

Definition ex_plan : list (N * bytes) := [(0, [1; 2; 3; 4]); (8, [5; 6]); (2, [9])].
Example C03_example :
  os_bytes (exec_plan (new_ostream None) ex_plan) = [1; 2; 9; 4; 0; 0; 0; 0; 5; 6] /\
  sliceN (os_bytes (exec_plan (new_ostream None) ex_plan)) 8 2 = [5; 6] /\ plan_small 0 ex_plan.
Proof. vm_compute. repeat split; reflexivity. Qed.
