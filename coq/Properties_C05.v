(* Properties_C05.v — C05: load, edit, save, load preserves everything the user
   did not touch.  Proved at the level of the pieces a file is made of: what a
   save writes for a section (header record, data) is what a load of the saved
   bytes reports; the layout step changes no attribute but the offset (objects
   without segments; objects with one segment of automatically addressed members:
   C05_one_segment_survives_reload).  Preservation for whole loaded images with
   several segments (addresses, memory images) is decided by the correspondence run: partial. *)
From ElfioV Require Import Bytes Mem Stream SectionData Strings Elfio Table Loader Layout Writer
     Load_proofs Data_proofs Codec_proofs Ostream_proofs Reader_proofs Layout_proofs Writer_proofs Roundtrip_proofs
     Segment_proofs Oneseg_proofs Oneseg_writer Oneseg_members Reload_oneseg ByName_proofs Save_endtoend.
From Coq Require Import Sorted.
Local Open Scope N_scope.

Theorem C05_section_header_survives_save_and_load :
  forall junk os before after enc s (hpos : N) k idx lazy,
    stream_ok os -> good os ->
    plan_small (os_len os) (before ++ (hpos, shdr_bytes enc s) :: after) ->
    (forall w' i, In w' after -> in_range (hpos, shdr_bytes enc s) i = true -> in_range w' i = false) ->
    shdr_wf s -> hpos < 2 ^ 63 ->
    let content := os_bytes (exec_plan os (before ++ (hpos, shdr_bytes enc s) :: after)) in
    exists st' r al,
      section_load junk (open_istream k content) [] enc (with_index (new_section (s_cls s)) idx) (Z.of_N hpos) lazy = Ok (st', r, al) /\
      sh_name r = sh_name s /\ sh_type r = sh_type s /\ sh_flags r = sh_flags s /\ sh_addr r = sh_addr s /\
      sh_offset r = sh_offset s /\ sh_size r = sh_size s /\ sh_link r = sh_link s /\ sh_info r = sh_info s /\
      sh_addralign r = sh_addralign s /\ sh_entsize r = sh_entsize s /\ s_index r = idx.
Proof. exact written_section_header_reads_back. Qed.
Print Assumptions C05_section_header_survives_save_and_load.

Theorem C05_section_data_survives_save_and_load :
  forall junk os before after (off : N) (d : bytes) k s,
    stream_ok os -> good os ->
    plan_small (os_len os) (before ++ (off, d) :: after) ->
    (forall w' i, In w' after -> in_range (off, d) i = true -> in_range w' i = false) ->
    let content := os_bytes (exec_plan os (before ++ (off, d) :: after)) in
    sh_offset s = off -> sh_size s = lenN d -> 0 < lenN d -> s_data s = None ->
    sh_type s <> SHT_NULL -> sh_type s <> SHT_NOBITS -> lenN content < 2 ^ 63 -> s_stream_size s = lenN content ->
    exists st1 s1,
      sec_load_data junk (Some (open_istream k content)) [] s = Ok (Some st1, s1, true, [sh_size s + 1]) /\
      s_data s1 = Some (d ++ [0]).
Proof. exact written_section_data_reads_back. Qed.
Print Assumptions C05_section_data_survives_save_and_load.

(* the layout step keeps name, type, flags, address, size, link, info,
   alignment, entry size and data of every section (objects without segments) *)
Theorem C05_layout_keeps_attributes :
  forall el h0 bound,
    el_hdr el = Some h0 -> el_segs el = [] ->
    bound <= 2 ^ 64 -> Forall (fun s => bound <= 2 ^ xw (s_cls s)) (el_secs el) ->
    e_ehsize h0 + budget (el_secs el) + 16 < bound ->
    exists el', layout el = Ok (el', true) /\ Forall2 keeps (el_secs el) (el_secs el').
Proof.
  intros el h0 bound H1 H2 H3 H4 H5.
  destruct (layout_noseg el h0 bound H1 H2 H3 H4 H5) as (el' & secs' & ? & ? & E & <- & _ & _ & K & _). eauto.
Qed.
Print Assumptions C05_layout_keeps_attributes.

(* Objects without segments, end to end: the file save() writes for a laid-out
   object (C03_noseg_saved_file), loaded again: the section header table is
   reported entry by entry with the headers that were saved, in order, and a
   data request on a reloaded section stores the bytes that were saved. *)
Theorem C05_noseg_headers_survive :
  forall junk (h : ehdr) (secs : list section) (pos' : N),
    chain secs (e_ehsize h) pos' -> indexed_from 0 secs -> pos' <= e_shoff h ->
    (forall s, In s secs -> s_cls s = e_cls h /\ shdr_wf s) ->
    e_shentsize h = shdr_size (e_cls h) ->
    (forall s, In s secs -> s_index s = 0 -> csize s = 0) ->
    lenN (e_ident h) = 16 -> e_ehsize h = ehdr_size (e_cls h) ->
    (forall s b, In s secs -> s_data s = Some b -> sh_size s <= lenN b) ->
    plan_small 0 (noseg_plan h secs) ->
    e_shoff h + lenN secs * e_shentsize h < 2 ^ 62 -> secs <> [] ->
    forall k,
    let file := os_bytes (exec_plan (new_ostream None) (noseg_plan h secs)) in
    exists st' loaded,
      load_sections_loop junk (length secs) (open_istream k file) [] (e_cls h) (e_enc h) (e_shoff h) (e_shentsize h)
                         0 (lenN secs) true [] [] = Ok (st', rev loaded, []) /\
      is_fail st' = false /\ is_content st' = file /\ Forall2 same_hdr secs loaded.
Proof. exact noseg_headers_read_back. Qed.
Print Assumptions C05_noseg_headers_survive.

Theorem C05_noseg_data_survives :
  forall junk (h : ehdr) (secs : list section) (pos' : N),
    chain secs (e_ehsize h) pos' -> indexed_from 0 secs -> pos' <= e_shoff h ->
    (forall s, In s secs -> s_cls s = e_cls h /\ shdr_wf s) ->
    e_shentsize h = shdr_size (e_cls h) ->
    (forall s, In s secs -> s_index s = 0 -> csize s = 0) ->
    lenN (e_ident h) = 16 -> e_ehsize h = ehdr_size (e_cls h) ->
    (forall s b, In s secs -> s_data s = Some b -> sh_size s <= lenN b) ->
    plan_small 0 (noseg_plan h secs) ->
    e_shoff h + lenN secs * e_shentsize h < 2 ^ 62 ->
    forall st s b r,
    In s secs -> csize s <> 0 -> s_data s = Some b ->
    same_hdr s r -> s_data r = None ->
    s_stream_size r = lenN (os_bytes (exec_plan (new_ostream None) (noseg_plan h secs))) ->
    is_fail st = false -> st_inv st ->
    is_content st = os_bytes (exec_plan (new_ostream None) (noseg_plan h secs)) ->
    lenN (os_bytes (exec_plan (new_ostream None) (noseg_plan h secs))) < 2 ^ 63 ->
    exists st1 s1,
      sec_load_data junk (Some st) [] r = Ok (Some st1, s1, true, [sh_size r + 1]) /\
      s_data s1 = Some (firstnN b (sh_size s) ++ [0]).
Proof. exact noseg_data_read_back. Qed.
Print Assumptions C05_noseg_data_survives.

(* objects with ONE segment of automatically addressed, non-empty allocated data members plus sections outside it
   (the class of C03_one_segment_saved_file / C04_layout_with_one_segment), end to end: the file save() writes, loaded
   again.  The loop of load_sections over the saved section header table reports every section with exactly the header
   fields the saved object has (name index, type, flags, address, offset, size, link, info, alignment, entry size), in
   order; the loop of load_segments over the saved program header table then reports ONE segment with the saved type,
   flags, offset, virtual and physical address, file and memory size and alignment, and - the membership pass being run
   on the reloaded sections - with the member list the segment was saved with (listed in index order, as the loader
   produces it).  Side conditions on the saved object (record fields within their widths, no wrap of the segment's
   memory range) are stated on the object the layout produced. *)
Theorem C05_one_segment_survives_reload :
  forall junk el h0 g bound ms,
    let idxs := g_sections g in
    let align := if 0 <? p_align g then p_align g else 1 in
    let secs := el_secs el in
    let pos0 := e_ehsize h0 + e_phentsize h0 in
    el_hdr el = Some h0 -> el_segs el = [g] -> lenN secs < 2 ^ 16 ->
    lenN idxs < 2 ^ 16 -> idxs <> [] -> g_offset_set g = false -> p_type g <> PT_PHDR -> NoDup idxs ->
    Forall2 (fun i s => nth_optN secs i = Some s) idxs ms ->
    Forall auto_member ms -> Forall (fun s => sh_addralign s <= p_align g) ms ->
    bound <= 2 ^ 62 -> Forall (fun s => bound <= 2 ^ xw (s_cls s)) secs -> bound <= 2 ^ xw (g_cls g) ->
    bound <= 2 ^ xw (e_cls h0) -> p_align g < 2 ^ 63 ->
    p_vaddr g + pos0 + align + mbudget ms + budget secs + 16 + e_shentsize h0 * lenN secs < bound ->
    indexed_from 0 secs ->
    (forall s, In s secs -> s_index s = 0 -> csize s = 0) ->
    (forall s b, In s secs -> s_data s = Some b -> sh_size s <= lenN b) ->
    lenN (e_ident h0) = 16 -> e_ehsize h0 = ehdr_size (e_cls h0) ->
    (forall s, In s secs -> shdr_size (s_cls s) <= e_shentsize h0) ->
    phdr_size (g_cls g) <= e_phentsize h0 -> g_index g = 0 -> e_shentsize h0 = shdr_size (e_cls h0) ->
    p_type g <> PT_TLS -> Forall (fun s => sh_size s <> 0) ms ->
    (forall j s, ~ In j idxs -> nth_optN secs j = Some s ->
       is_tls s \/ (is_alloc s /\ sh_addr s < p_vaddr g) \/ (~ is_alloc s /\ (s_index s = 0 -> sh_offset s < pos0))) ->
    secs <> [] ->
    exists el' h' g',
      layout el = Ok (el', true) /\ el_hdr el' = Some h' /\ el_segs el' = [g'] /\
      let plan := oneseg_plan h' (el_secs el') (segments_plan (e_enc h') h' [g']) in
      (plan_small 0 plan -> phdr_wf g' ->
       (forall s, In s (el_secs el') -> s_cls s = e_cls h' /\ shdr_wf s) ->
       p_vaddr g + p_memsz g' < 2 ^ 64 -> StronglySorted N.lt idxs ->
       forall k f,
       let file := os_bytes (exec_plan (new_ostream None) plan) in
       exists st1 loaded st2 r,
         load_sections_loop junk (length secs) (open_istream k file) [] (e_cls h') (e_enc h') (e_shoff h') (e_shentsize h')
                            0 (e_shnum h') true [] [] = Ok (st1, rev loaded, []) /\
         Forall2 (fun s x => same_hdr s x /\ s_index x = s_index s) (el_secs el') loaded /\
         load_segments_loop (S f) st1 [] loaded (e_enc h') (g_cls g') (e_phoff h') (e_phentsize h') 0 (e_phnum h') true [] [] =
           Ok (st2, [r], true, []) /\
         same_phdr g' r /\ g_sections r = idxs /\ g_index r = g_index g').
Proof. exact oneseg_reload. Qed.
Print Assumptions C05_one_segment_survives_reload.

(* ... and the DATA of such a saved object: a data request on a section reloaded from the saved file (same header
   fields, nothing resident yet) stores exactly the bytes the section had when it was saved, followed by the
   terminator - members of the segment and sections outside it alike *)
Theorem C05_one_segment_data_survives_reload :
  forall junk el h0 g bound ms,
    let idxs := g_sections g in
    let align := if 0 <? p_align g then p_align g else 1 in
    let secs := el_secs el in
    let pos0 := e_ehsize h0 + e_phentsize h0 in
    el_hdr el = Some h0 -> el_segs el = [g] -> lenN secs < 2 ^ 16 ->
    lenN idxs < 2 ^ 16 -> idxs <> [] -> g_offset_set g = false -> p_type g <> PT_PHDR -> NoDup idxs ->
    Forall2 (fun i s => nth_optN secs i = Some s) idxs ms ->
    Forall auto_member ms -> Forall (fun s => sh_addralign s <= p_align g) ms ->
    bound <= 2 ^ 63 -> Forall (fun s => bound <= 2 ^ xw (s_cls s)) secs -> bound <= 2 ^ xw (g_cls g) ->
    bound <= 2 ^ xw (e_cls h0) -> p_align g < 2 ^ 63 ->
    p_vaddr g + pos0 + align + mbudget ms + budget secs + 16 + e_shentsize h0 * lenN secs < bound ->
    indexed_from 0 secs ->
    (forall s, In s secs -> s_index s = 0 -> csize s = 0) ->
    (forall s b, In s secs -> s_data s = Some b -> sh_size s <= lenN b) ->
    lenN (e_ident h0) = 16 -> e_ehsize h0 = ehdr_size (e_cls h0) ->
    (forall s, In s secs -> shdr_size (s_cls s) <= e_shentsize h0) ->
    phdr_size (g_cls g) <= e_phentsize h0 -> g_index g = 0 ->
    exists el' h' g',
      layout el = Ok (el', true) /\ el_hdr el' = Some h' /\ el_segs el' = [g'] /\
      let plan := oneseg_plan h' (el_secs el') (segments_plan (e_enc h') h' [g']) in
      (plan_small 0 plan ->
       let file := os_bytes (exec_plan (new_ostream None) plan) in
       lenN file < 2 ^ 63 ->
       forall st s b r,
         In s (el_secs el') -> csize s <> 0 -> s_data s = Some b ->
         same_hdr s r -> s_data r = None -> s_stream_size r = lenN file ->
         is_fail st = false -> st_inv st -> is_content st = file ->
         exists st1 s1,
           sec_load_data junk (Some st) [] r = Ok (Some st1, s1, true, [sh_size r + 1]) /\
           s_data s1 = Some (firstnN b (sh_size s) ++ [0])).
Proof. exact oneseg_reload_data. Qed.
Print Assumptions C05_one_segment_data_survives_reload.

(* what the user did not touch includes the object's environment: the layout step of save() - whatever it does to
   offsets and addresses, and whether or not it succeeds - leaves the address translation table, the compression
   switch and the input stream of the object exactly as they were *)
Theorem C05_layout_leaves_environment :
  forall el el' ok, layout el = Ok (el', ok) ->
    el_xlat el' = el_xlat el /\ el_compr el' = el_compr el /\ el_stream el' = el_stream el.
Proof. exact layout_keeps_env. Qed.
Print Assumptions C05_layout_leaves_environment.

(* sections flagged compressed, objects with the (modelled) compression interface: what the writer stores for such
   a section is the interface's deflate of its data, and what an eager load hands out is the interface's inflate of the
   stored bytes, followed by the terminator byte - for the interface of the correspondence harness the two cancel *)
Theorem C05_compressed_section_codec_cancels :
  forall d, is_bytes d -> map codec_byte (map codec_byte d) = d.
Proof.
  intros d H. induction H as [|b t Hb Ht IH]; [reflexivity|]. cbn [map]. rewrite IH. f_equal.
  unfold codec_byte. rewrite N.lxor_assoc, N.lxor_nilpotent. apply N.lxor_0_r.
Qed.
Print Assumptions C05_compressed_section_codec_cancels.

Theorem C05_eager_load_inflates :
  forall compr s b,
    is_compressed compr s = true -> s_data s = Some b -> sh_size s <= lenN b ->
    inflate_step compr false s = Ok (with_data s (Some (map codec_byte (firstnN b (sh_size s)) ++ [0])) (s_data_size s)).
Proof.
  intros compr s b Hc Hd Hl. unfold inflate_step. rewrite Hc, Hd. cbn [orb negb].
  rewrite rd_some by lia. cbn [bind]. unfold sliceN. now rewrite skipnN_0.
Qed.
Print Assumptions C05_eager_load_inflates.

Definition ex_s : section :=
  with_entsize (with_addralign (with_size (with_offset (with_flags (with_type (new_section C32) 1) 6) 64) 3) 4) 0.
Example C05_example :
  let plan := [(0, repeatN 7 52); (100, shdr_bytes MSB ex_s); (64, [10; 11; 12])] in
  let content := os_bytes (exec_plan (new_ostream None) plan) in
  shdr_wf ex_s /\ plan_small 0 plan /\
  (exists st r al, section_load (fun _ => 0) (open_istream StringBuf content) [] MSB (with_index (new_section C32) 5) 100%Z false = Ok (st, r, al) /\
                   sh_offset r = 64 /\ sh_size r = 3 /\ s_data r = Some [10; 11; 12; 0]).
Proof.
  cbv zeta. split; [unfold shdr_wf, fw; vm_compute; repeat split; reflexivity|]. split; [vm_compute; repeat split; reflexivity|].
  vm_compute. eexists _, _, _. repeat split; reflexivity.
Qed.
