(* Elfio.v — the elfio object: header, sections, segments, translator,
   create(), sections.add(), segments.add(), section/segment data access
   (get_data / load_data / free_data).  elfio.hpp:64-179, 451-540, 1054-1229;
   elfio_header.hpp:100-188; elfio_segment.hpp:152-401; elfio_section.hpp:229-254, 426-519. *)
From ElfioV Require Import Bytes Mem Stream SectionData Strings.
Local Open Scope N_scope.

Definition PT_NULL := 0.
Definition PT_LOAD := 1.
Definition PT_NOTE := 4.
Definition PT_PHDR := 6.
Definition PT_TLS := 7.

Definition ehdr_size (c : cls) : N := match c with C32 => 52 | C64 => 64 end.
Definition shdr_size (c : cls) : N := match c with C32 => 40 | C64 => 64 end.
Definition phdr_size (c : cls) : N := match c with C32 => 32 | C64 => 56 end.

Definition cls_byte (c : cls) : N := match c with C32 => 1 | C64 => 2 end.
Definition enc_byte (e : endian) : N := match e with LSB => 1 | MSB => 2 end.

Record ehdr := mkEhdr {
  e_cls : cls;             (* which template instance: Elf32_Ehdr / Elf64_Ehdr *)
  e_enc : endian;          (* the owner's convertor setting *)
  e_ident : bytes;         (* 16 identification bytes as stored *)
  e_type : N; e_machine : N; e_version : N; e_entry : N; e_phoff : N; e_shoff : N;
  e_flags : N; e_ehsize : N; e_phentsize : N; e_phnum : N; e_shentsize : N;
  e_shnum : N; e_shstrndx : N
}.

(* elf_header_impl constructor — elfio_header.hpp:109-131 *)
Definition new_header (c : cls) (e : endian) : ehdr :=
  mkEhdr c e ([127; 69; 76; 70; cls_byte c; enc_byte e; 1] ++ repeatN 0 9)
         0 0 1 0 0 0 0 (ehdr_size c) (phdr_size c) 0 (shdr_size c) 0 1.

Definition hdr_set_ident (h : ehdr) (i : N) (v : N) : ehdr :=
  mkEhdr (e_cls h) (e_enc h) (updN (e_ident h) i (wrap8 v)) (e_type h) (e_machine h) (e_version h)
         (e_entry h) (e_phoff h) (e_shoff h) (e_flags h) (e_ehsize h) (e_phentsize h) (e_phnum h)
         (e_shentsize h) (e_shnum h) (e_shstrndx h).

Inductive hfield := HType | HMachine | HVersion | HEntry | HPhoff | HShoff | HFlags
                  | HPhnum | HShnum | HShstrndx | HOsabi | HAbiversion.

Definition hdr_set (h : ehdr) (f : hfield) (v : N) : ehdr :=
  let c := e_cls h in
  match f with
  | HType => mkEhdr c (e_enc h) (e_ident h) (wrap16 v) (e_machine h) (e_version h) (e_entry h) (e_phoff h) (e_shoff h) (e_flags h) (e_ehsize h) (e_phentsize h) (e_phnum h) (e_shentsize h) (e_shnum h) (e_shstrndx h)
  | HMachine => mkEhdr c (e_enc h) (e_ident h) (e_type h) (wrap16 v) (e_version h) (e_entry h) (e_phoff h) (e_shoff h) (e_flags h) (e_ehsize h) (e_phentsize h) (e_phnum h) (e_shentsize h) (e_shnum h) (e_shstrndx h)
  | HVersion => mkEhdr c (e_enc h) (e_ident h) (e_type h) (e_machine h) (wrap32 v) (e_entry h) (e_phoff h) (e_shoff h) (e_flags h) (e_ehsize h) (e_phentsize h) (e_phnum h) (e_shentsize h) (e_shnum h) (e_shstrndx h)
  | HEntry => mkEhdr c (e_enc h) (e_ident h) (e_type h) (e_machine h) (e_version h) (wrap (xw c) v) (e_phoff h) (e_shoff h) (e_flags h) (e_ehsize h) (e_phentsize h) (e_phnum h) (e_shentsize h) (e_shnum h) (e_shstrndx h)
  | HPhoff => mkEhdr c (e_enc h) (e_ident h) (e_type h) (e_machine h) (e_version h) (e_entry h) (wrap (xw c) v) (e_shoff h) (e_flags h) (e_ehsize h) (e_phentsize h) (e_phnum h) (e_shentsize h) (e_shnum h) (e_shstrndx h)
  | HShoff => mkEhdr c (e_enc h) (e_ident h) (e_type h) (e_machine h) (e_version h) (e_entry h) (e_phoff h) (wrap (xw c) v) (e_flags h) (e_ehsize h) (e_phentsize h) (e_phnum h) (e_shentsize h) (e_shnum h) (e_shstrndx h)
  | HFlags => mkEhdr c (e_enc h) (e_ident h) (e_type h) (e_machine h) (e_version h) (e_entry h) (e_phoff h) (e_shoff h) (wrap32 v) (e_ehsize h) (e_phentsize h) (e_phnum h) (e_shentsize h) (e_shnum h) (e_shstrndx h)
  | HPhnum => mkEhdr c (e_enc h) (e_ident h) (e_type h) (e_machine h) (e_version h) (e_entry h) (e_phoff h) (e_shoff h) (e_flags h) (e_ehsize h) (e_phentsize h) (wrap16 v) (e_shentsize h) (e_shnum h) (e_shstrndx h)
  | HShnum => mkEhdr c (e_enc h) (e_ident h) (e_type h) (e_machine h) (e_version h) (e_entry h) (e_phoff h) (e_shoff h) (e_flags h) (e_ehsize h) (e_phentsize h) (e_phnum h) (e_shentsize h) (wrap16 v) (e_shstrndx h)
  | HShstrndx => mkEhdr c (e_enc h) (e_ident h) (e_type h) (e_machine h) (e_version h) (e_entry h) (e_phoff h) (e_shoff h) (e_flags h) (e_ehsize h) (e_phentsize h) (e_phnum h) (e_shentsize h) (e_shnum h) (wrap16 v)
  | HOsabi => hdr_set_ident h 7 v
  | HAbiversion => hdr_set_ident h 8 v
  end.

Record segment := mkSegment {
  g_cls : cls;
  g_index : N;
  p_type : N; p_flags : N; p_offset : N; p_vaddr : N; p_paddr : N;
  p_filesz : N; p_memsz : N; p_align : N;
  g_sections : list N;
  g_data : ptr;
  g_offset_set : bool;
  g_stream_size : N;
  g_lazy : bool; g_loaded : bool
}.

Definition new_segment (c : cls) : segment :=
  mkSegment c 0 0 0 0 0 0 0 0 0 [] None false 0 false false.

Inductive gfield := GType | GFlags | GAlign | GVaddr | GPaddr | GFilesz | GMemsz | GOffset.

Definition seg_set (g : segment) (f : gfield) (v : N) : segment :=
  let c := g_cls g in let w := wrap (xw c) v in
  match f with
  | GType => mkSegment c (g_index g) (wrap32 v) (p_flags g) (p_offset g) (p_vaddr g) (p_paddr g) (p_filesz g) (p_memsz g) (p_align g) (g_sections g) (g_data g) (g_offset_set g) (g_stream_size g) (g_lazy g) (g_loaded g)
  | GFlags => mkSegment c (g_index g) (p_type g) (wrap32 v) (p_offset g) (p_vaddr g) (p_paddr g) (p_filesz g) (p_memsz g) (p_align g) (g_sections g) (g_data g) (g_offset_set g) (g_stream_size g) (g_lazy g) (g_loaded g)
  | GOffset => mkSegment c (g_index g) (p_type g) (p_flags g) w (p_vaddr g) (p_paddr g) (p_filesz g) (p_memsz g) (p_align g) (g_sections g) (g_data g) true (g_stream_size g) (g_lazy g) (g_loaded g)
  | GVaddr => mkSegment c (g_index g) (p_type g) (p_flags g) (p_offset g) w (p_paddr g) (p_filesz g) (p_memsz g) (p_align g) (g_sections g) (g_data g) (g_offset_set g) (g_stream_size g) (g_lazy g) (g_loaded g)
  | GPaddr => mkSegment c (g_index g) (p_type g) (p_flags g) (p_offset g) (p_vaddr g) w (p_filesz g) (p_memsz g) (p_align g) (g_sections g) (g_data g) (g_offset_set g) (g_stream_size g) (g_lazy g) (g_loaded g)
  | GFilesz => mkSegment c (g_index g) (p_type g) (p_flags g) (p_offset g) (p_vaddr g) (p_paddr g) w (p_memsz g) (p_align g) (g_sections g) (g_data g) (g_offset_set g) (g_stream_size g) (g_lazy g) (g_loaded g)
  | GMemsz => mkSegment c (g_index g) (p_type g) (p_flags g) (p_offset g) (p_vaddr g) (p_paddr g) (p_filesz g) w (p_align g) (g_sections g) (g_data g) (g_offset_set g) (g_stream_size g) (g_lazy g) (g_loaded g)
  | GAlign => mkSegment c (g_index g) (p_type g) (p_flags g) (p_offset g) (p_vaddr g) (p_paddr g) (p_filesz g) (p_memsz g) w (g_sections g) (g_data g) (g_offset_set g) (g_stream_size g) (g_lazy g) (g_loaded g)
  end.

Definition seg_with_index (g : segment) (i : N) : segment :=
  mkSegment (g_cls g) i (p_type g) (p_flags g) (p_offset g) (p_vaddr g) (p_paddr g) (p_filesz g) (p_memsz g) (p_align g) (g_sections g) (g_data g) (g_offset_set g) (g_stream_size g) (g_lazy g) (g_loaded g).
Definition seg_with_sections (g : segment) (l : list N) : segment :=
  mkSegment (g_cls g) (g_index g) (p_type g) (p_flags g) (p_offset g) (p_vaddr g) (p_paddr g) (p_filesz g) (p_memsz g) (p_align g) l (g_data g) (g_offset_set g) (g_stream_size g) (g_lazy g) (g_loaded g).
Definition seg_with_data (g : segment) (d : ptr) (loaded : bool) : segment :=
  mkSegment (g_cls g) (g_index g) (p_type g) (p_flags g) (p_offset g) (p_vaddr g) (p_paddr g) (p_filesz g) (p_memsz g) (p_align g) (g_sections g) d (g_offset_set g) (g_stream_size g) (g_lazy g) loaded.
Definition seg_with_raw (g : segment) ty fl off va pa fs ms al (ss : N) (lz : bool) : segment :=
  mkSegment (g_cls g) (g_index g) ty fl off va pa fs ms al (g_sections g) (g_data g) true ss lz (g_loaded g).

(* add_section_index( sec_index, addr_align ) — elfio_segment.hpp:207-216 *)
Definition seg_add_section_index (g : segment) (i : N) (align : N) : segment :=
  let g1 := seg_with_sections g (g_sections g ++ [wrap16 i]) in
  if p_align g1 <? align then seg_set g1 GAlign align else g1.

(* get_section_index_at( num ) *)
Definition seg_section_at (g : segment) (k : N) : N :=
  match nth_optN (g_sections g) k with Some i => i | None => 65535 end.
Definition seg_sections_num (g : segment) : N := wrap16 (lenN (g_sections g)).

(* address translation — elfio_utils.hpp:212-256; entries sorted by start *)
Definition xlat := list (N * N * N).   (* start, size, mapped_to *)

Fixpoint xlat_lookup (t : xlat) (v : Z) : Z :=
  match t with
  | [] => v
  | (start, size, to) :: rest =>
      if ((to_signed64 start <=? v) && (v - to_signed64 start <? to_signed64 size))%Z
      then (v - to_signed64 start + to_signed64 to)%Z
      else xlat_lookup rest v
  end.
Definition xlat_apply (t : xlat) (v : Z) : Z :=
  match t with [] => v | _ => xlat_lookup t v end.
Definition xlat_empty (t : xlat) : bool := match t with [] => true | _ => false end.

(* insertion sort by start, stable enough for distinct starts (std::sort) *)
Fixpoint xlat_insert (e : N * N * N) (t : xlat) : xlat :=
  match t with
  | [] => [e]
  | f :: rest => if (to_signed64 (fst (fst e)) <? to_signed64 (fst (fst f)))%Z then e :: t else f :: xlat_insert e rest
  end.
Definition xlat_sort (t : xlat) : xlat := fold_right xlat_insert [] t.

Record elfio := mkElfio {
  el_hdr : option ehdr;
  el_secs : list section;
  el_segs : list segment;
  el_xlat : xlat;
  el_pos : N;              (* current_file_pos *)
  el_compr : bool;         (* a compression object is present *)
  el_stream : option istream   (* the stream sections and segments point to *)
}.

Definition with_hdr el h := mkElfio h (el_secs el) (el_segs el) (el_xlat el) (el_pos el) (el_compr el) (el_stream el).
Definition with_secs el l := mkElfio (el_hdr el) l (el_segs el) (el_xlat el) (el_pos el) (el_compr el) (el_stream el).
Definition with_segs el l := mkElfio (el_hdr el) (el_secs el) l (el_xlat el) (el_pos el) (el_compr el) (el_stream el).
Definition with_pos el p := mkElfio (el_hdr el) (el_secs el) (el_segs el) (el_xlat el) p (el_compr el) (el_stream el).
Definition with_stream el st := mkElfio (el_hdr el) (el_secs el) (el_segs el) (el_xlat el) (el_pos el) (el_compr el) st.
Definition with_xlat el t := mkElfio (el_hdr el) (el_secs el) (el_segs el) t (el_pos el) (el_compr el) (el_stream el).

Definition empty_elfio (compr : bool) : elfio := mkElfio None [] [] [] 0 compr None.

(* get_class() of the elfio object: 0 when there is no header *)
Definition el_class_byte (el : elfio) : N :=
  match el_hdr el with Some h => nthN (e_ident h) 4 0 | None => 0 end.
Definition el_cls (el : elfio) : cls :=
  match el_hdr el with Some h => e_cls h | None => C32 end.
Definition el_enc (el : elfio) : endian :=
  match el_hdr el with Some h => e_enc h | None => LSB end.

Section WithEnv.
  Variable junk : N -> N.

  Definition xe (el : elfio) : bool := xlat_empty (el_xlat el).

  (* create_section() — elfio.hpp:476-497 *)
  Definition create_section (el : elfio) : res (elfio * N) :=
    let cb := el_class_byte el in
    if (cb =? 2) || (cb =? 1) then
      let c := if cb =? 2 then C64 else C32 in
      let idx := wrap16 (lenN (el_secs el)) in
      Ok (with_secs el (el_secs el ++ [with_index (new_section c) idx]), lenN (el_secs el))
    else
      (* sections_.pop_back() on whatever is there; undefined when empty *)
      match el_secs el with
      | [] => Fault PopEmpty
      | _ => Fault NullDeref     (* returns nullptr, which every caller dereferences *)
      end.

  Definition upd_sec (el : elfio) (i : N) (s : section) : elfio :=
    with_secs el (updN (el_secs el) i s).
  Definition get_sec (el : elfio) (i : N) : option section := nth_optN (el_secs el) i.

  (* Sections::add( name ) — elfio.hpp:1107-1119; [name] is the std::string,
     the string table receives name.c_str() *)
  Definition sections_add (el : elfio) (name : bytes) : res (elfio * N) :=
    '(el1, pos) <- create_section el ;;
    match get_sec el1 pos with
    | None => Fault OobRead
    | Some ns =>
        let el2 := upd_sec el1 pos (with_name ns name) in
        let str_index := match el_hdr el2 with Some h => e_shstrndx h | None => 0 end in
        match get_sec el2 str_index with
        | None => Fault OobRead        (* sections_[str_index] unchecked *)
        | Some st =>
            '(st1, p) <- add_string junk (xe el2) st (take_cstr name) ;;
            let el3 := upd_sec el2 str_index st1 in
            match get_sec el3 pos with
            | None => Fault OobRead
            | Some ns1 => Ok (upd_sec el3 pos (with_sh_name ns1 p), pos)
            end
        end
    end.

  (* create( file_class, encoding ) — elfio.hpp:138-145, 527-540 *)
  Definition create (el : elfio) (c : cls) (e : endian) : res elfio :=
    let el0 := mkElfio (Some (new_header c e)) [] [] (el_xlat el) (el_pos el) (el_compr el) (el_stream el) in
    '(el1, i0) <- create_section el0 ;;
    match get_sec el1 i0 with
    | None => Fault OobRead
    | Some s0 =>
        let el2 := upd_sec el1 i0 (with_sh_name (with_name (with_index s0 0) []) 0) in
        let el3 := with_hdr el2 (option_map (fun h => hdr_set h HShstrndx 1) (el_hdr el2)) in
        '(el4, i1) <- sections_add el3 [46; 115; 104; 115; 116; 114; 116; 97; 98] ;;
        match get_sec el4 i1 with
        | None => Fault OobRead
        | Some s1 => Ok (upd_sec el4 i1 (with_addralign (with_type s1 SHT_STRTAB) 1))
        end
    end.

  (* the constructors *)
  Definition ctor_plain : res elfio := create (empty_elfio false) C32 LSB.
  (* elfio( compression_interface* ): initialises the object like the default
     constructor (since the C03 fix; the original body built and dropped a temporary) *)
  Definition ctor_compr : res elfio := create (empty_elfio true) C32 LSB.

  (* create_segment() — elfio.hpp:502-523 (header dereferenced unchecked) *)
  Definition segments_add (el : elfio) : res (elfio * N) :=
    match el_hdr el with
    | None => Fault NullDeref
    | Some h =>
        let cb := nthN (e_ident h) 4 0 in
        if (cb =? 2) || (cb =? 1) then
          let c := if cb =? 2 then C64 else C32 in
          let idx := wrap16 (lenN (el_segs el)) in
          Ok (with_segs el (el_segs el ++ [seg_with_index (new_segment c) idx]), lenN (el_segs el))
        else match el_segs el with [] => Fault PopEmpty | _ => Fault NullDeref end
    end.

  Definition upd_seg (el : elfio) (j : N) (g : segment) : elfio :=
    with_segs el (updN (el_segs el) j g).
  Definition get_seg (el : elfio) (j : N) : option segment := nth_optN (el_segs el) j.

  (* ---- section data residency: load_data / get_data — elfio_section.hpp:229-254, 468-519 ---- *)
  (* returns the stream after use, the section, the result and the sizes of
     the buffers requested *)
  Definition sec_load_data (st : option istream) (t : xlat) (s : section)
    : res (option istream * section * bool * list N) :=
    let sh_off := of_signed64 (xlat_apply t (to_signed64 (sh_offset s))) in
    let size := sh_size s in
    let ss := s_stream_size s in
    if ss <? sh_off then Ok (st, s, false, [])
    else if (ss <? size) || (ss - sh_off <? size) then Ok (st, s, false, [])
    else
      match s_data s with
      | None =>
          if (sh_type s =? SHT_NULL) || (sh_type s =? SHT_NOBITS) then
            Ok (st, with_load_flags s (s_lazy s) true (s_can_load s), true, [])
          else if SIZE_MAX - 1 <? size then Ok (st, s, false, [])
          else
            let buf := alloc junk (size + 1) in
            if size =? 0 then
              Ok (st, with_load_flags (with_data s (Some buf) 0) (s_lazy s) true (s_can_load s), true, [size + 1])
            else
              match st with
              | None => Fault NullDeref       (* pstream is null *)
              | Some st0 =>
                  let st1 := seekg st0 (to_signed64 sh_off) in
                  let '(st2, got) := read st1 size in
                  if lenN got =? size then
                    Ok (Some st2,
                        with_load_flags (with_data s (Some (got ++ [0])) size) (s_lazy s) true (s_can_load s),
                        true, [size + 1])
                  else
                    Ok (Some st2, with_data s None 0, false, [size + 1])
              end
      | Some _ =>
          Ok (st, with_load_flags s (s_lazy s) true (s_can_load s), true, [])
      end.

  Definition sec_get_data (st : option istream) (t : xlat) (s : section)
    : res (option istream * section * list N) :=
    if negb (s_loaded s) && s_can_load s then
      '(st1, s1, ok, al) <- sec_load_data st t s ;;
      Ok (st1, (if ok then s1 else with_load_flags s1 (s_lazy s1) (s_loaded s1) false), al)
    else Ok (st, s, []).

  (* elfio-level wrapper: sections[i]->get_data() *)
  Definition el_sec_get_data (el : elfio) (i : N) : res (elfio * ptr) :=
    match get_sec el i with
    | None => Fault NullDeref
    | Some s =>
        '(st1, s1, _) <- sec_get_data (el_stream el) (el_xlat el) s ;;
        Ok (with_stream (upd_sec el i s1) st1, s_data s1)
    end.

  (* ---- segment data — elfio_segment.hpp:184-200, 315-357 ---- *)
  Definition seg_load_data (st : option istream) (t : xlat) (g : segment)
    : res (option istream * segment * bool * list N) :=
    if (p_type g =? PT_NULL) || (p_filesz g =? 0) then Ok (st, g, true, [])
    else
      let p_off := of_signed64 (xlat_apply t (to_signed64 (p_offset g))) in
      let size := p_filesz g in
      let ss := g_stream_size g in
      if ss <? p_off then Ok (st, seg_with_data g None (g_loaded g), false, [])
      else if (ss <? size) || (ss - p_off <? size) then Ok (st, seg_with_data g None (g_loaded g), false, [])
      else if SIZE_MAX - 1 <? size then Ok (st, seg_with_data g None (g_loaded g), false, [])
      else
        match st with
        | None => Fault NullDeref
        | Some st0 =>
            let st1 := seekg st0 (to_signed64 p_off) in
            let '(st2, got) := read st1 size in
            if is_fail st2 then Ok (Some st2, seg_with_data g None (g_loaded g), false, [size + 1])
            else Ok (Some st2, seg_with_data g (Some (got ++ [0])) true, true, [size + 1])
        end.

  Definition seg_get_data (st : option istream) (t : xlat) (g : segment)
    : res (option istream * segment * list N) :=
    if g_loaded g then Ok (st, g, [])
    else '(st1, g1, _, al) <- seg_load_data st t g ;; Ok (st1, g1, al).

  Definition el_seg_get_data (el : elfio) (j : N) : res (elfio * ptr) :=
    match get_seg el j with
    | None => Fault OobRead            (* segments[] is unchecked *)
    | Some g =>
        '(st1, g1, _) <- seg_get_data (el_stream el) (el_xlat el) g ;;
        Ok (with_stream (upd_seg el j g1) st1, g_data g1)
    end.

  Definition seg_free_data (g : segment) : segment :=
    if g_lazy g then seg_with_data g None false else g.
End WithEnv.
