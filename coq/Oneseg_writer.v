(* Oneseg_writer.v — C03/C04/C05 for an object with one segment of automatically addressed members:
   the ranges save() writes (ELF header, program header, every section's data, every section header)
   are pairwise disjoint, hence each appears verbatim in the saved file. *)
From ElfioV Require Import Bytes Mem Stream SectionData SectionData_proofs Strings Elfio Table Loader Layout Writer
     Ostream_proofs Codec_proofs Layout_proofs Segment_proofs Writer_proofs Oneseg_proofs.
From Coq Require Import ZifyBool ZifyN ZifyNat.
Local Open Scope N_scope.

(* ---------- what the layout may do to a section ---------- *)
Definition relaid (s s' : section) : Prop :=
  s' = s \/ (exists o, s' = with_offset s o) \/ (exists a o, s' = with_offset (with_addr s a) o).

Lemma relaid_attrs s s' : relaid s s' ->
  s_index s' = s_index s /\ s_cls s' = s_cls s /\ sh_type s' = sh_type s /\ sh_size s' = sh_size s /\
  sh_flags s' = sh_flags s /\ sh_addralign s' = sh_addralign s /\ s_data s' = s_data s /\ csize s' = csize s /\
  s_name s' = s_name s /\ sh_link s' = sh_link s /\ sh_info s' = sh_info s /\ sh_entsize s' = sh_entsize s /\
  s_loaded s' = s_loaded s.
Proof. intros [->|[(o & ->)|(a & o & ->)]]; repeat split. Qed.

Lemma keeps_relaid s s' : keeps s s' -> relaid s s'.
Proof. intros [->|[_ ->]]; [now left|right; left; eauto]. Qed.

Lemma indexed_relaid l l' : Forall2 relaid l l' -> forall i, indexed_from i l -> indexed_from i l'.
Proof.
  induction 1 as [|s s' t t' H HF IH]; intros i Hi; [exact I|]. cbn [indexed_from] in *. destruct Hi as [H1 H2].
  split; [|now apply IH]. destruct (relaid_attrs s s' H) as (E & _). congruence.
Qed.

(* ---------- where the data lie ---------- *)
Lemma mchain_split g ss secs' : forall pre idxs lo hi i mid j post,
  mchain g ss secs' idxs lo hi -> idxs = pre ++ i :: mid ++ j :: post ->
  exists a b, nth_optN secs' i = Some a /\ nth_optN secs' j = Some b /\ sh_offset a + sh_size a <= sh_offset b.
Proof.
  induction pre as [|p pre IH]; intros idxs lo hi i mid j post H E; subst idxs; cbn [app mchain] in H.
  - destruct H as (s & H1 & _ & _ & _ & _ & H6).
    destruct (mchain_member _ _ _ _ _ _ j H6 ltac:(apply in_or_app; right; now left)) as (b & B1 & B2 & _).
    exists s, b. auto.
  - destruct H as (s & _ & _ & _ & _ & _ & H6). eapply IH; eauto.
Qed.

Lemma in_two_split {A} (l : list A) x y : In x l -> In y l -> x <> y ->
  (exists pre mid post, l = pre ++ x :: mid ++ y :: post) \/ (exists pre mid post, l = pre ++ y :: mid ++ x :: post).
Proof.
  induction l as [|h t IH]; intros Hx Hy Hne; [contradiction|].
  destruct Hx as [->|Hx]; destruct Hy as [->|Hy].
  - contradiction.
  - left. destruct (in_split _ _ Hy) as (m & p & ->). exists [], m, p. reflexivity.
  - right. destruct (in_split _ _ Hx) as (m & p & ->). exists [], m, p. reflexivity.
  - destruct (IH Hx Hy Hne) as [(pre & m & p & ->)|(pre & m & p & ->)]; [left|right]; exists (h :: pre), m, p; reflexivity.
Qed.

Lemma free_list_In segs : forall l i k s, nth_optN l k = Some s -> sec_without_segment segs (i + k) = true -> In s (free_list segs i l).
Proof.
  induction l as [|x t IH]; intros i k s Hk Hf; [discriminate|]. cbn [nth_optN] in Hk. cbn [free_list].
  destruct (N.eqb_spec k 0) as [->|Hk0].
  - injection Hk as ->. rewrite N.add_0_r in Hf. rewrite Hf. now left.
  - assert (In s (free_list segs (i + 1) t)).
    { apply (IH (i + 1) (k - 1) s Hk). replace (i + 1 + (k - 1)) with (i + k) by lia. exact Hf. }
    destruct (sec_without_segment segs i); [now right|assumption].
Qed.

Lemma free_list_split segs : forall l i ka kb a b, ka < kb ->
  nth_optN l ka = Some a -> nth_optN l kb = Some b ->
  sec_without_segment segs (i + ka) = true -> sec_without_segment segs (i + kb) = true ->
  exists pre mid post, free_list segs i l = pre ++ a :: mid ++ b :: post.
Proof.
  induction l as [|x t IH]; intros i ka kb a b Hlt Ha Hb Fa Fb; [discriminate|].
  cbn [nth_optN] in Ha, Hb. cbn [free_list].
  destruct (N.eqb_spec kb 0) as [->|Hkb]; [lia|].
  destruct (N.eqb_spec ka 0) as [->|Hka].
  - injection Ha as ->. rewrite N.add_0_r in Fa. rewrite Fa.
    assert (Hin : In b (free_list segs (i + 1) t)).
    { apply (free_list_In segs t (i + 1) (kb - 1) b Hb). replace (i + 1 + (kb - 1)) with (i + kb) by lia. exact Fb. }
    destruct (in_split _ _ Hin) as (m & p & ->). exists [], m, p. reflexivity.
  - destruct (IH (i + 1) (ka - 1) (kb - 1) a b ltac:(lia) Ha Hb) as (pre & m & p & E).
    + replace (i + 1 + (ka - 1)) with (i + ka) by lia. exact Fa.
    + replace (i + 1 + (kb - 1)) with (i + kb) by lia. exact Fb.
    + rewrite E. destruct (sec_without_segment segs i); [exists (x :: pre), m, p|exists pre, m, p]; reflexivity.
Qed.

Section Placement.
  Variables (g g' : segment) (secs' : list section) (ss pos1 pos2 : N).
  Let idxs := g_sections g.
  Hypothesis Hm : mchain g ss secs' idxs ss pos1.
  Hypothesis Hf : chain (free_list [g'] 0 secs') pos1 pos2.
  Hypothesis Hg' : g_sections g' = idxs.
  Hypothesis Hlen : lenN idxs < 2 ^ 16.
  Hypothesis Hcarry : forall i s, In i idxs -> nth_optN secs' i = Some s -> csize s = sh_size s.
  Hypothesis Hnull : forall j s, nth_optN secs' j = Some s -> s_index s = 0 -> csize s = 0.

  Lemma free_iff j : sec_without_segment [g'] j = true <-> ~ In j idxs.
  Proof.
    rewrite sws_single by (rewrite Hg'; exact Hlen). rewrite Hg'. rewrite <- is_member_In.
    destruct (is_member idxs j); cbn [negb].
    - split; [discriminate|intros H; exfalso; now apply H].
    - split; [intros _ H; discriminate|reflexivity].
  Qed.

  Lemma oneseg_data_bounds j s : nth_optN secs' j = Some s -> csize s <> 0 ->
    ss <= sh_offset s /\ sh_offset s + csize s <= pos2 /\
    (In j idxs -> sh_offset s + csize s <= pos1) /\ (~ In j idxs -> pos1 <= sh_offset s).
  Proof.
    intros Hj Hc. pose proof (mchain_bounds _ _ _ _ _ _ Hm) as B1. pose proof (chain_bounds _ _ _ Hf) as B2.
    destruct (in_dec N.eq_dec j idxs) as [Hin|Hnin].
    - destruct (mchain_member _ _ _ _ _ _ j Hm Hin) as (s0 & S0 & S1 & S2 & _). rewrite Hj in S0. injection S0 as <-.
      rewrite (Hcarry j s Hin Hj). repeat split; try lia. intros; contradiction.
    - assert (Hi0 : s_index s <> 0) by (intro E0; apply Hc; now apply (Hnull j s Hj)).
      assert (Hfl : In s (free_list [g'] 0 secs')).
      { apply (free_list_In [g'] secs' 0 j s Hj). rewrite N.add_0_l. now apply free_iff. }
      destruct (chain_member _ _ _ s Hf Hfl Hi0) as (C1 & C2 & _). repeat split; try lia. intros; contradiction.
  Qed.

  Lemma oneseg_data_disjoint i j a b : i <> j -> nth_optN secs' i = Some a -> nth_optN secs' j = Some b ->
    NoDup idxs -> rng_disjoint (data_range a) (data_range b).
  Proof.
    intros Hne Ha Hb Hnd. unfold rng_disjoint, data_range. cbn [fst snd].
    destruct (N.eq_dec (csize a) 0) as [Za|Za]; [right; right; now left|].
    destruct (N.eq_dec (csize b) 0) as [Zb|Zb]; [right; right; now right|].
    destruct (oneseg_data_bounds i a Ha Za) as (A1 & A2 & A3 & A4).
    destruct (oneseg_data_bounds j b Hb Zb) as (B1 & B2 & B3 & B4).
    destruct (in_dec N.eq_dec i idxs) as [Ii|Ni]; destruct (in_dec N.eq_dec j idxs) as [Ij|Nj].
    - (* two members *)
      destruct (in_two_split idxs i j Ii Ij Hne) as [(pre & m & p & E)|(pre & m & p & E)].
      + destruct (mchain_split g ss secs' pre idxs ss pos1 i m j p Hm E) as (a' & b' & Ea & Eb & Hle).
        rewrite Ha in Ea. rewrite Hb in Eb. injection Ea as <-. injection Eb as <-.
        rewrite (Hcarry i a Ii Ha). left. lia.
      + destruct (mchain_split g ss secs' pre idxs ss pos1 j m i p Hm E) as (b' & a' & Eb & Ea & Hle).
        rewrite Ha in Ea. rewrite Hb in Eb. injection Ea as <-. injection Eb as <-.
        rewrite (Hcarry j b Ij Hb). right; left. lia.
    - left. specialize (A3 Ii). specialize (B4 Nj). lia.
    - right; left. specialize (B3 Ij). specialize (A4 Ni). lia.
    - (* two free sections *)
      assert (Hia : s_index a <> 0) by (intro E0; apply Za; now apply (Hnull i a Ha)).
      assert (Hib : s_index b <> 0) by (intro E0; apply Zb; now apply (Hnull j b Hb)).
      apply free_iff in Ni. apply free_iff in Nj.
      destruct (N.lt_ge_cases i j) as [Hlt|Hge].
      + destruct (free_list_split [g'] secs' 0 i j a b Hlt Ha Hb Ni Nj) as (pre & m & p & E).
        left. exact (chain_disjoint _ _ _ pre a m b p Hf E Hia Hib).
      + destruct (free_list_split [g'] secs' 0 j i b a ltac:(lia) Hb Ha Nj Ni) as (pre & m & p & E).
        right; left. exact (chain_disjoint _ _ _ pre b m a p Hf E Hib Hia).
  Qed.
End Placement.

(* ---------- the plan of writes and its disjointness, from placement facts ---------- *)
Definition oneseg_plan (h : ehdr) (secs : list section) (extra : list (N * bytes)) : list (N * bytes) :=
  ((0, ehdr_bytes h) :: flat_map (sec_writes (e_enc h) (e_shoff h) (e_shentsize h)) secs) ++ extra.

Section PlanGen.
  Variables (h : ehdr) (secs : list section) (lo pos' : N) (extra : list (N * bytes)).
  Hypothesis Hidx : indexed_from 0 secs.
  Hypothesis Hlo : e_ehsize h <= lo.
  Hypothesis Hlp : lo <= pos'.
  Hypothesis Hbounds : forall s, In s secs -> csize s <> 0 -> lo <= sh_offset s /\ sh_offset s + csize s <= pos'.
  Hypothesis Hdisj : forall pre a mid b post, secs = pre ++ a :: mid ++ b :: post -> rng_disjoint (data_range a) (data_range b).
  Hypothesis Hsh : pos' <= e_shoff h.
  Hypothesis Hes : forall s, In s secs -> shdr_size (s_cls s) <= e_shentsize h.
  Hypothesis Hident : lenN (e_ident h) = 16.
  Hypothesis Heh : e_ehsize h = ehdr_size (e_cls h).
  Hypothesis Hdata : forall s b, In s secs -> s_data s = Some b -> sh_size s <= lenN b.
  Hypothesis Hextra : forall w, In w extra -> e_ehsize h <= fst w /\ fst w + lenN (snd w) <= lo.
  Hypothesis Hextra_d : all_disjoint extra.

  Let shoff := e_shoff h.
  Let es := e_shentsize h.

  Lemma g_wrange_hdr : wrange (0, ehdr_bytes h) = hdr_range (e_ehsize h).
  Proof. unfold wrange, hdr_range. cbn [fst snd]. rewrite lenN_ehdr_bytes by exact Hident. now rewrite Heh. Qed.

  Lemma g_sec_writes_ranges s w : In s secs -> In w (sec_writes (e_enc h) shoff es s) ->
    wrange w = shdr_range shoff es s \/ (wrange w = data_range s /\ csize s <> 0).
  Proof.
    intros Hs Hw. unfold sec_writes in Hw. destruct Hw as [<-|Hw].
    - left. unfold wrange, shdr_range. cbn [fst snd]. now rewrite lenN_shdr_bytes.
    - destruct (N.eqb_spec (csize s) 0) as [E|E]; cbn [negb] in Hw; [contradiction|].
      destruct (s_data s) as [b|] eqn:Ed; [|contradiction]. destruct Hw as [<-|[]]. right. split; [|exact E].
      unfold wrange, data_range. cbn [fst snd]. rewrite lenN_firstnN.
      assert (csize s = sh_size s) by (unfold csize in *; destruct (carries s); [reflexivity|contradiction]).
      pose proof (Hdata s b Hs Ed). f_equal. lia.
  Qed.

  Lemma g_table_after_data s t : In s secs -> csize s <> 0 -> rng_disjoint (data_range s) (shdr_range shoff es t).
  Proof.
    intros Hs Hc. destruct (Hbounds s Hs Hc) as [_ B]. unfold rng_disjoint, data_range, shdr_range. cbn [fst snd].
    left. unfold shoff. lia.
  Qed.

  Lemma g_table_entries_disjoint pre a mid b post : secs = pre ++ a :: mid ++ b :: post ->
    rng_disjoint (shdr_range shoff es a) (shdr_range shoff es b).
  Proof.
    intros E. pose proof (indexed_from_split _ _ _ _ _ _ _ Hidx E) as Hlt.
    assert (Ha : In a secs) by (rewrite E; apply in_or_app; right; now left).
    pose proof (Hes a Ha) as He.
    unfold rng_disjoint, shdr_range. cbn [fst snd]. left. fold es in He. clear - Hlt He. nia.
  Qed.

  Lemma g_cross_disjoint pre a mid b post wa wb : secs = pre ++ a :: mid ++ b :: post ->
    In wa (sec_writes (e_enc h) shoff es a) -> In wb (sec_writes (e_enc h) shoff es b) ->
    rng_disjoint (wrange wa) (wrange wb).
  Proof.
    intros E Ha Hb.
    assert (Ia : In a secs) by (rewrite E; apply in_or_app; right; now left).
    assert (Ib : In b secs) by (rewrite E; apply in_or_app; right; right; apply in_or_app; right; now left).
    destruct (g_sec_writes_ranges a wa Ia Ha) as [Ra|[Ra Ca]]; destruct (g_sec_writes_ranges b wb Ib Hb) as [Rb|[Rb Cb]]; rewrite Ra, Rb.
    - exact (g_table_entries_disjoint pre a mid b post E).
    - apply rng_disjoint_sym. now apply g_table_after_data.
    - now apply g_table_after_data.
    - eapply Hdisj; eauto.
  Qed.

  Lemma g_all_disjoint_app (x y : list (N * bytes)) :
    all_disjoint x -> all_disjoint y ->
    (forall wa wb, In wa x -> In wb y -> rng_disjoint (wrange wa) (wrange wb)) -> all_disjoint (x ++ y).
  Proof.
    induction x as [|w t IH]; intros Hx Hy Hc; cbn [app all_disjoint]; [exact Hy|].
    cbn [all_disjoint] in Hx. destruct Hx as [H1 H2]. split.
    - apply Forall_app. split; [exact H1|]. apply Forall_forall. intros wb Hb. apply Hc; [now left|exact Hb].
    - apply IH; auto. intros wa wb Ha Hb. apply Hc; [now right|exact Hb].
  Qed.

  Lemma g_sec_writes_self s : In s secs -> all_disjoint (sec_writes (e_enc h) shoff es s).
  Proof.
    intros Hs. unfold sec_writes. destruct (N.eqb_spec (csize s) 0) as [E|E]; cbn [negb]; [cbn; auto|].
    destruct (s_data s) as [b|] eqn:Ed; [|cbn; auto]. cbn [all_disjoint]. split; [|cbn; auto].
    constructor; [|constructor].
    assert (R1 : wrange (shoff + es * s_index s, shdr_bytes (e_enc h) s) = shdr_range shoff es s).
    { unfold wrange, shdr_range. cbn [fst snd]. now rewrite lenN_shdr_bytes. }
    assert (R2 : wrange (sh_offset s, firstnN b (sh_size s)) = data_range s).
    { unfold wrange, data_range. cbn [fst snd]. rewrite lenN_firstnN.
      assert (csize s = sh_size s) by (unfold csize in *; destruct (carries s); [reflexivity|contradiction]).
      pose proof (Hdata s b Hs Ed). f_equal. lia. }
    rewrite R1, R2. apply rng_disjoint_sym. now apply g_table_after_data.
  Qed.

  Lemma g_flat_all_disjoint : forall l pre, secs = pre ++ l ->
    all_disjoint (flat_map (sec_writes (e_enc h) shoff es) l).
  Proof.
    induction l as [|a t IH]; intros pre E; cbn [flat_map]; [exact I|].
    assert (Ia : In a secs) by (rewrite E; apply in_or_app; right; now left).
    apply g_all_disjoint_app.
    - now apply g_sec_writes_self.
    - apply (IH (pre ++ [a])). rewrite <- app_assoc. exact E.
    - intros wa wb Ha Hb. apply in_flat_map in Hb. destruct Hb as (b & Hbt & Hwb).
      destruct (in_split _ _ Hbt) as (mid & post & Et).
      eapply (g_cross_disjoint pre a mid b post); eauto. rewrite E, Et. reflexivity.
  Qed.

  Theorem oneseg_plan_disjoint : all_disjoint (oneseg_plan h secs extra).
  Proof.
    unfold oneseg_plan. apply g_all_disjoint_app; [|exact Hextra_d|].
    - cbn [all_disjoint]. split; [|apply (g_flat_all_disjoint secs []); reflexivity].
      apply Forall_forall. intros w Hw. apply in_flat_map in Hw. destruct Hw as (s & Hs & Hw).
      rewrite g_wrange_hdr. destruct (g_sec_writes_ranges s w Hs Hw) as [R|[R C]]; rewrite R.
      + unfold rng_disjoint, hdr_range, shdr_range. cbn [fst snd]. left. unfold shoff.
        pose proof Hlp. lia.
      + destruct (Hbounds s Hs C) as [B _]. unfold rng_disjoint, hdr_range, data_range. cbn [fst snd]. left. lia.
    - intros wa wb Ha Hb. destruct (Hextra wb Hb) as [X1 X2].
      destruct Ha as [<-|Ha].
      + rewrite g_wrange_hdr. unfold rng_disjoint, hdr_range, wrange. cbn [fst snd]. left. lia.
      + apply in_flat_map in Ha. destruct Ha as (s & Hs & Hw).
        destruct (g_sec_writes_ranges s wa Hs Hw) as [R|[R C]]; rewrite R.
        * unfold rng_disjoint, shdr_range, wrange. cbn [fst snd]. right; left. unfold shoff.
          pose proof Hlp. lia.
        * destruct (Hbounds s Hs C) as [B _]. unfold rng_disjoint, data_range, wrange. cbn [fst snd]. right; left. lia.
  Qed.

  (* every write of the plan — ELF header, each section header, each section's data, each extra
     (program header) record — is found verbatim in the saved file *)
  Theorem oneseg_file_contents_gen :
    plan_small 0 (oneseg_plan h secs extra) ->
    let file := os_bytes (exec_plan (new_ostream None) (oneseg_plan h secs extra)) in
    sliceN file 0 (ehdr_size (e_cls h)) = ehdr_bytes h /\
    (forall s, In s secs ->
       sliceN file (e_shoff h + e_shentsize h * s_index s) (shdr_size (s_cls s)) = shdr_bytes (e_enc h) s) /\
    (forall s b, In s secs -> csize s <> 0 -> s_data s = Some b ->
       sliceN file (sh_offset s) (sh_size s) = firstnN b (sh_size s)) /\
    (forall w, In w extra -> sliceN file (fst w) (lenN (snd w)) = snd w).
  Proof.
    intros Hs. cbv zeta. pose proof oneseg_plan_disjoint as Hd.
    split; [|split; [|split]].
    - pose proof (disjoint_plan_all_visible _ Hd Hs (0, ehdr_bytes h)) as V. cbn [fst snd] in V.
      rewrite lenN_ehdr_bytes in V by exact Hident. apply V. unfold oneseg_plan. apply in_or_app. left. now left.
    - intros s Hin.
      pose proof (disjoint_plan_all_visible _ Hd Hs (e_shoff h + e_shentsize h * s_index s, shdr_bytes (e_enc h) s)) as V.
      cbn [fst snd] in V. rewrite lenN_shdr_bytes in V. apply V. unfold oneseg_plan. apply in_or_app. left. right.
      apply in_flat_map. exists s. split; [exact Hin|now left].
    - intros s b Hin Hc Ed.
      pose proof (disjoint_plan_all_visible _ Hd Hs (sh_offset s, firstnN b (sh_size s))) as V. cbn [fst snd] in V.
      rewrite lenN_firstnN in V. replace (N.min (sh_size s) (lenN b)) with (sh_size s) in V by (pose proof (Hdata s b Hin Ed); lia).
      apply V. unfold oneseg_plan. apply in_or_app. left. right. apply in_flat_map. exists s. split; [exact Hin|]. unfold sec_writes. right.
      destruct (N.eqb_spec (csize s) 0); [contradiction|]. cbn [negb]. rewrite Ed. now left.
    - intros w Hw. apply (disjoint_plan_all_visible _ Hd Hs w). unfold oneseg_plan. apply in_or_app. now right.
  Qed.
End PlanGen.

(* ---------- the layout of a one-segment object provides these premises ---------- *)
Lemma In_nth_optN {A} (l : list A) x : In x l -> exists j, nth_optN l j = Some x.
Proof.
  intros H. apply In_nth_error in H. destruct H as (n & Hn). exists (N.of_nat n).
  rewrite nth_optN_nth_error, Nnat.Nat2N.id. exact Hn.
Qed.

Lemma in_split_nth {A} (l : list A) pre a mid b post : l = pre ++ a :: mid ++ b :: post ->
  nth_optN l (lenN pre) = Some a /\ nth_optN l (lenN pre + 1 + lenN mid) = Some b.
Proof.
  intros ->. split.
  - induction pre as [|p t IH]; cbn [app nth_optN]; [reflexivity|].
    rewrite lenN_cons. destruct (N.eqb_spec (1 + lenN t) 0); [lia|]. replace (1 + lenN t - 1) with (lenN t) by lia. exact IH.
  - replace (pre ++ a :: mid ++ b :: post) with ((pre ++ a :: mid) ++ b :: post) by (rewrite <- app_assoc; reflexivity).
    replace (lenN pre + 1 + lenN mid) with (lenN (pre ++ a :: mid)) by (rewrite lenN_app, lenN_cons; lia).
    generalize (pre ++ a :: mid). intros l. induction l as [|p t IH]; cbn [app nth_optN]; [reflexivity|].
    rewrite lenN_cons. destruct (N.eqb_spec (1 + lenN t) 0); [lia|]. replace (1 + lenN t - 1) with (lenN t) by lia. exact IH.
Qed.

Theorem oneseg_saved_file el h0 g bound ms :
  let idxs := g_sections g in
  let align := if 0 <? p_align g then p_align g else 1 in
  let secs := el_secs el in
  let pos0 := e_ehsize h0 + e_phentsize h0 in
  el_hdr el = Some h0 -> el_segs el = [g] -> lenN secs < 2 ^ 16 ->
  lenN idxs < 2 ^ 16 -> idxs <> [] -> g_offset_set g = false -> p_type g <> PT_PHDR -> NoDup idxs ->
  Forall2 (fun i s => nth_optN secs i = Some s) idxs ms ->
  Forall auto_member ms -> Forall (fun s => sh_addralign s <= p_align g) ms ->
  bound <= 2 ^ 63 -> Forall (fun s => bound <= 2 ^ xw (s_cls s)) secs -> bound <= 2 ^ xw (g_cls g) ->
  bound <= 2 ^ xw (e_cls h0) -> p_align g < 2 ^ 63 ->
  p_vaddr g + pos0 + align + mbudget ms + budget secs + 16 + e_shentsize h0 * lenN secs < bound ->
  indexed_from 0 secs ->
  (forall s, In s secs -> s_index s = 0 -> csize s = 0) ->
  (forall s b, In s secs -> s_data s = Some b -> sh_size s <= lenN b) ->
  lenN (e_ident h0) = 16 -> e_ehsize h0 = ehdr_size (e_cls h0) ->
  (forall s, In s secs -> shdr_size (s_cls s) <= e_shentsize h0) ->
  phdr_size (g_cls g) <= e_phentsize h0 -> g_index g = 0 ->
  exists el' h' g' seg_start pos1 pos2,
    layout el = Ok (el', true) /\ el_hdr el' = Some h' /\ el_segs el' = [g'] /\
    Forall2 relaid secs (el_secs el') /\
    e_phoff h' = e_ehsize h0 /\ e_phnum h' = 1 /\ e_shnum h' = lenN secs /\
    e_shoff h' = pos2 + (16 - pos2 mod 16) /\
    pos0 <= seg_start /\ seg_start mod align = p_vaddr g mod align /\
    p_offset g' = seg_start /\ p_vaddr g' = p_vaddr g /\ p_filesz g' = pos1 - seg_start /\ p_filesz g' <= p_memsz g' /\
    mchain g seg_start (el_secs el') idxs seg_start pos1 /\
    chain (free_list [g'] 0 (el_secs el')) pos1 pos2 /\
    let plan := oneseg_plan h' (el_secs el') (segments_plan (e_enc h') h' [g']) in
    all_disjoint plan /\
    (plan_small 0 plan ->
     let file := os_bytes (exec_plan (new_ostream None) plan) in
     sliceN file 0 (ehdr_size (e_cls h')) = ehdr_bytes h' /\
     sliceN file (e_phoff h') (phdr_size (g_cls g')) = phdr_bytes (e_enc h') g' /\
     (forall s, In s (el_secs el') ->
        sliceN file (e_shoff h' + e_shentsize h' * s_index s) (shdr_size (s_cls s)) = shdr_bytes (e_enc h') s) /\
     (forall s b, In s (el_secs el') -> csize s <> 0 -> s_data s = Some b ->
        sliceN file (sh_offset s) (sh_size s) = firstnN b (sh_size s))).
Proof.
  cbv zeta. intros Hh Hs Hnsec Hlen Hne Hos Hty Hnd HF Hauto Hdom Hb63 Hcls Hbg Hbh Hal Hbud Hidx Hnull Hdata Hident Heh Hes Hph Hgi.
  set (align := if 0 <? p_align g then p_align g else 1) in *.
  assert (Eh63 : e_ehsize h0 < 2 ^ 63) by (clearbody align; lia).
  destruct (layout_oneseg el h0 g bound ms Hh Hs Hnsec Hlen Hne Hos Hty Hnd HF Hauto Hdom ltac:(lia) Hcls Hbg Hal)
    as (el' & g' & secs' & ss & pos1 & pos2 & EL & Eh & Eg & Es & _ & _ & _ & S1 & S2 & S3 & O1 & V1 & F1 & F2 &
        (G1 & G2 & G3 & G4 & G5 & G6 & G7 & G8) & MC & PL & FR & LN & CH & B1 & B2).
  { fold align. lia. }
  fold align in S2, S3.
  set (h' := hdr_set (hdr_prep1 h0 (lenN (el_secs el))) HShoff (pos2 + (16 - pos2 mod 16))) in *.
  assert (Hm16 : pos2 mod 16 < 16) by (apply N.mod_lt; lia).
  assert (W : forall v, v < bound -> wrap (xw (e_cls h0)) v = v) by (intros v Hv; apply wrap_small; lia).
  assert (H1 : e_ehsize h' = e_ehsize h0) by (destruct h0; reflexivity).
  assert (H2 : e_shentsize h' = e_shentsize h0) by (destruct h0; reflexivity).
  assert (H3 : e_phentsize h' = e_phentsize h0) by (destruct h0; reflexivity).
  assert (H4 : e_shoff h' = pos2 + (16 - pos2 mod 16)).
  { replace (e_shoff h') with (wrap (xw (e_cls h0)) (pos2 + (16 - pos2 mod 16))) by (destruct h0; reflexivity). apply W. lia. }
  assert (H5 : e_phoff h' = e_ehsize h0).
  { replace (e_phoff h') with (wrap (xw (e_cls h0)) (e_ehsize h0)) by (destruct h0; reflexivity). apply W. lia. }
  assert (H6 : e_ident h' = e_ident h0) by (destruct h0; reflexivity).
  assert (H7 : e_cls h' = e_cls h0) by (destruct h0; reflexivity).
  assert (H8 : e_phnum h' = 1) by (destruct h0; reflexivity).
  assert (H9 : e_shnum h' = lenN (el_secs el)).
  { replace (e_shnum h') with (wrap16 (lenN (el_secs el))) by (destruct h0; reflexivity). apply wrap_small. exact Hnsec. }
  assert (H10 : e_enc h' = e_enc h0) by (destruct h0; reflexivity).
  clearbody h'.
  (* pointwise relation between the sections before and after *)
  assert (HR : Forall2 relaid (el_secs el) secs').
  { apply Forall2_of_nth; [exact LN|]. intros j x Hj.
    destruct (in_dec N.eq_dec j (g_sections g)) as [Hin|Hnin].
    - destruct (Forall2_both_In _ _ _ _ j HF PL Hin) as (s & _ & Hsj & (a & o & Hs1)).
      rewrite Hj in Hsj. injection Hsj as <-. exists (with_offset (with_addr x a) o). split; [exact Hs1|right; right; eauto].
    - destruct (FR j x Hnin Hj) as (s' & Hs' & K). exists s'. split; [exact Hs'|now apply keeps_relaid]. }
  assert (Hback : forall s', In s' secs' -> exists s, In s (el_secs el) /\ relaid s s').
  { clear - HR. induction HR as [|s s' t t' Hk HK IH]; intros x Hx; [contradiction|]. destruct Hx as [<-|Hx].
    - exists s. split; [now left|exact Hk].
    - destruct (IH x Hx) as (y & Hy & R). exists y. split; [now right|exact R]. }
  assert (Hidx' : indexed_from 0 secs') by (exact (indexed_relaid _ _ HR 0 Hidx)).
  assert (Hnull' : forall j s, nth_optN secs' j = Some s -> s_index s = 0 -> csize s = 0).
  { intros j s Hj H0. destruct (Hback s (nth_optN_In _ _ _ Hj)) as (s0 & I0 & R).
    destruct (relaid_attrs _ _ R) as (A1 & _ & _ & _ & _ & _ & _ & A8 & _). rewrite A8. apply Hnull; [exact I0|congruence]. }
  assert (Hcarry : forall i s, In i (g_sections g) -> nth_optN secs' i = Some s -> csize s = sh_size s).
  { intros i s Hi Hsi. destruct (Forall2_both_In _ _ _ _ i HF PL Hi) as (s0 & I0 & _ & (a & o & Hs1)).
    rewrite Hsi in Hs1. injection Hs1 as ->. rewrite Forall_forall in Hauto.
    destruct (Hauto s0 I0) as (_ & T1 & T2 & _). unfold csize, carries. cbn [sh_type with_offset with_addr sh_size].
    apply N.eqb_neq in T1, T2. now rewrite T1, T2. }
  exists el', h', g', ss, pos1, pos2.
  split; [exact EL|]. split; [exact Eh|]. split; [exact Eg|]. rewrite Es.
  split; [exact HR|]. split; [exact H5|]. split; [exact H8|]. split; [exact H9|]. split; [exact H4|].
  split; [exact S1|]. split; [exact S3|]. split; [exact O1|]. split; [exact V1|]. split; [exact F1|]. split; [exact F2|].
  split; [exact MC|]. split; [exact CH|]. cbv zeta.
  (* the premises of the generic plan theorems *)
  pose proof (mchain_bounds _ _ _ _ _ _ MC) as Bm. pose proof (chain_bounds _ _ _ CH) as Bc.
  assert (Pseg : segments_plan (e_enc h') h' [g'] = [(e_ehsize h0, phdr_bytes (e_enc h') g')]).
  { unfold segments_plan. cbn [map]. rewrite G6, Hgi, H5. rewrite (entry_pos_plain (fun _ => 0)) by exact Eh63. now rewrite N.mul_0_r, N.add_0_r. }
  rewrite Pseg.
  assert (Pb : forall s, In s secs' -> csize s <> 0 -> ss <= sh_offset s /\ sh_offset s + csize s <= pos2).
  { intros s Hin Hc. destruct (In_nth_optN _ _ Hin) as (j & Hj).
    destruct (oneseg_data_bounds g g' secs' ss pos1 pos2 MC CH G1 Hlen Hcarry Hnull' j s Hj Hc) as (X1 & X2 & _). auto. }
  assert (Pd : forall pre a mid b post, secs' = pre ++ a :: mid ++ b :: post -> rng_disjoint (data_range a) (data_range b)).
  { intros pre a mid b post E. destruct (in_split_nth _ _ _ _ _ _ E) as [Na Nb].
    apply (oneseg_data_disjoint g g' secs' ss pos1 pos2 MC CH G1 Hlen Hcarry Hnull' (lenN pre) (lenN pre + 1 + lenN mid) a b); try assumption. lia. }
  assert (Pes : forall s, In s secs' -> shdr_size (s_cls s) <= e_shentsize h').
  { intros s Hin. destruct (Hback s Hin) as (s0 & I0 & R). destruct (relaid_attrs _ _ R) as (_ & A2 & _). rewrite A2, H2. now apply Hes. }
  assert (Pdata : forall s b, In s secs' -> s_data s = Some b -> sh_size s <= lenN b).
  { intros s b Hin Hd. destruct (Hback s Hin) as (s0 & I0 & R). destruct (relaid_attrs _ _ R) as (_ & _ & _ & A4 & _ & _ & A7 & _).
    rewrite A4. apply (Hdata s0 b I0). congruence. }
  assert (Pextra : forall w, In w [(e_ehsize h0, phdr_bytes (e_enc h') g')] -> e_ehsize h' <= fst w /\ fst w + lenN (snd w) <= ss).
  { intros w [<-|[]]. cbn [fst snd]. rewrite lenN_phdr_bytes, G5, H1. lia. }
  assert (Pxd : all_disjoint [(e_ehsize h0, phdr_bytes (e_enc h') g')]) by (cbn; auto).
  split.
  - apply (oneseg_plan_disjoint h' secs' ss pos2 _ Hidx'); try assumption; try lia.
    + rewrite H6. exact Hident.
    + rewrite H1, H7. exact Heh.
  - intros Hsmall.
    destruct (oneseg_file_contents_gen h' secs' ss pos2 _ Hidx' ltac:(lia) ltac:(lia) Pb Pd ltac:(lia) Pes
                ltac:(rewrite H6; exact Hident) ltac:(rewrite H1, H7; exact Heh) Pdata Pextra Pxd Hsmall) as (C1 & C2 & C3 & C4).
    cbv zeta in *. split; [exact C1|]. split; [|split; [exact C2|exact C3]].
    specialize (C4 (e_ehsize h0, phdr_bytes (e_enc h') g') (or_introl eq_refl)). cbn [fst snd] in C4.
    rewrite lenN_phdr_bytes in C4. rewrite H5. exact C4.
Qed.
