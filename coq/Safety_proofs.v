(* Safety_proofs.v — C01/C18: the table readers never fault on a loaded object,
   whatever the bytes of the tables are and whatever index is asked for. *)
From ElfioV Require Import Bytes Mem Stream SectionData Strings Elfio Table Accessors Loader Load_proofs.
From Coq Require Import ZifyBool ZifyN ZifyNat.
Local Open Scope N_scope.

(* the pointer a section hands out covers the section's recorded size *)
Definition buf_ok (s : section) (p : ptr) : Prop :=
  match p with Some b => sh_size s < lenN b | None => True end.

Lemma wrap64_le v : wrap64 v <= v.
Proof. unfold wrap64, wrap. apply N.mod_le. discriminate. Qed.
Lemma wrap32_le v : wrap32 v <= v.
Proof. unfold wrap32, wrap. apply N.mod_le. discriminate. Qed.

Lemma rd_total (b : bytes) off n : off + n <= lenN b -> exists r, rd (Some b) off n = Ok r /\ lenN r = n.
Proof.
  intros H. exists (sliceN b off n). split; [now apply rd_some|].
  unfold sliceN. rewrite lenN_firstnN, lenN_skipnN. lia.
Qed.
Lemma rd_word_total e (b : bytes) off n : off + N.of_nat n <= lenN b -> exists v, rd_word e (Some b) off n = Ok v.
Proof. intros H. unfold rd_word. destruct (rd_total b off (N.of_nat n) H) as (r & -> & _). cbn [bind]. eauto. Qed.

Lemma div_mul_le a b : a / b * b <= a.
Proof. destruct (N.eq_dec b 0) as [->|H]; [lia|]. rewrite N.mul_comm. now apply N.mul_div_le. Qed.

(* ---------- symbols by index ---------- *)
Lemma get_symbols_num_bound el s :
  get_symbols_num el s * sh_entsize s <= sh_size s /\
  (0 < get_symbols_num el s -> layout_sz (sym_layout (acls el)) <= sh_entsize s).
Proof.
  unfold get_symbols_num, acls, class32.
  destruct (N.eqb_spec (el_class_byte el) 1) as [E1|E1]; cbn [orb].
  - destruct (N.leb_spec 16 (sh_entsize s)); cbn [andb]; [|cbn; lia].
    destruct (sh_size s <=? s_stream_size s); [|cbn; lia]. split; [apply div_mul_le|]. intros _. cbn. lia.
  - destruct (N.eqb_spec (el_class_byte el) 2) as [E2|E2]; [|cbn; lia].
    destruct (N.leb_spec 24 (sh_entsize s)); cbn [andb]; [|cbn; lia].
    destruct (sh_size s <=? s_stream_size s); [|cbn; lia]. split; [apply div_mul_le|]. intros _. cbn. lia.
Qed.

Theorem sym_get_core_total c enc s p num index :
  buf_ok s p -> num * sh_entsize s <= sh_size s -> (0 < num -> layout_sz (sym_layout c) <= sh_entsize s) ->
  exists r, sym_get_core c enc s p num index = Ok r.
Proof.
  intros Hb Hn Hl. unfold sym_get_core. destruct p as [b|]; [|eauto].
  destruct (N.ltb_spec index num); [|eauto].
  pose proof (wrap64_le (index * sh_entsize s)). cbn in Hb.
  destruct (rd_total b (wrap64 (index * sh_entsize s)) (layout_sz (sym_layout c))) as (r & -> & _); [|cbn [bind]; eauto].
  specialize (Hl ltac:(lia)). nia.
Qed.

(* ---------- relocations ---------- *)
Theorem rel_get_core_total c enc s p index :
  buf_ok s p -> exists r, rel_get_core c enc s p index = Ok r.
Proof.
  intros Hb. unfold rel_get_core, rel_entries_num.
  destruct (N.eqb_spec (sh_entsize s) 0) as [E0|E0]; cbv iota; [destruct (N.leb_spec 0 index); [eauto|lia]|].
  destruct (N.leb_spec (sh_size s / sh_entsize s) index); [eauto|].
  destruct (negb _); [eauto|].
  set (lay := if sh_type s =? SHT_REL then rel_layout c else rela_layout c).
  destruct (N.ltb_spec (sh_entsize s) (layout_sz lay)); [eauto|].
  destruct p as [b|]; [|eauto]. cbn in Hb.
  pose proof (wrap64_le (index * sh_entsize s)). pose proof (div_mul_le (sh_size s) (sh_entsize s)).
  destruct (rd_total b (wrap64 (index * sh_entsize s)) (layout_sz lay)) as (r & -> & _); [nia|cbn [bind]; eauto].
Qed.

(* ---------- arrays ---------- *)
Theorem arr_get_core_total enc s p w index :
  buf_ok s p -> (w = 4 \/ w = 8) -> exists r, arr_get_core enc s p w index = Ok r.
Proof.
  intros Hb Hw. unfold arr_get_core, arr_entries_num.
  destruct (N.leb_spec (sh_size s / w) index); [eauto|]. destruct p as [b|]; [|eauto]. cbn in Hb.
  pose proof (wrap64_le (index * w)). pose proof (div_mul_le (sh_size s) w).
  destruct (rd_word_total enc b (wrap64 (index * w)) (N.to_nat w)) as (v & ->); [|cbn [bind]; eauto].
  destruct Hw as [-> | ->]; cbn; nia.
Qed.

(* ---------- dynamic ---------- *)
Theorem dyn_raw_core_total c enc s p index :
  buf_ok s p -> index < sh_size s / sh_entsize s ->
  exists r, dyn_raw_core c enc s p index = Ok r.
Proof.
  intros Hb Hi. unfold dyn_raw_core. destruct p as [b|]; [|eauto]. cbn in Hb.
  destruct (N.ltb_spec (sh_entsize s) (layout_sz (dyn_layout c))); [eauto|].
  destruct (N.eqb_spec (sh_entsize s) 0) as [E0|E0]; [rewrite E0 in Hi; cbn in Hi; lia|].
  destruct (_ <? index); [eauto|]. destruct (_ <? wrap64 _); [eauto|].
  pose proof (wrap64_le (index * sh_entsize s)). pose proof (div_mul_le (sh_size s) (sh_entsize s)).
  destruct (rd_total b (wrap64 (index * sh_entsize s)) (layout_sz (dyn_layout c))) as (r & -> & _); [nia|].
  cbn [bind]. eauto.
Qed.

Theorem dyn_count_core_total fuel c enc s p : forall i n,
  buf_ok s p -> n <= sh_size s / sh_entsize s -> n < i + lenN fuel ->
  exists r, dyn_count_core fuel c enc s p i n = Ok r /\ r <= N.max i n.
Proof.
  induction fuel as [|u f IH]; intros i n Hb Hn Hf.
  - cbn [lenN] in Hf. unfold dyn_count_core. destruct (N.ltb_spec i n); [lia|]. exists i. split; [reflexivity|lia].
  - rewrite lenN_cons in Hf. cbn [dyn_count_core]. destruct (N.ltb_spec i n) as [Hi|Hi]; [|exists i; split; [reflexivity|lia]].
    destruct (dyn_raw_core_total c enc s p i Hb ltac:(lia)) as ([tag v] & ->). cbn [bind].
    destruct (tag =? DT_NULL); [exists i; split; [reflexivity|lia]|].
    destruct (IH (i + 1) n Hb Hn ltac:(lia)) as (r & -> & Hr). exists r. split; [reflexivity|lia].
Qed.

(* ---------- symbol lookup by value ---------- *)
Theorem scan_values_total fuel c enc s p value : forall i n,
  buf_ok s p -> n * sh_entsize s <= sh_size s -> (0 < n -> layout_sz (sym_layout c) <= sh_entsize s) ->
  n <= i + lenN fuel ->
  exists r, scan_values fuel p c enc (sh_entsize s) value i n = Ok r.
Proof.
  induction fuel as [|u f IH]; intros i n Hb Hn Hl Hf.
  - cbn [lenN] in Hf. unfold scan_values. destruct (N.ltb_spec i n); [lia|eauto].
  - rewrite lenN_cons in Hf. cbn [scan_values]. destruct (N.ltb_spec i n) as [Hi|Hi]; [|eauto].
    destruct p as [b|]; [|eauto]. cbn in Hb.
    pose proof (wrap64_le (i * sh_entsize s)). specialize (Hl ltac:(lia)) as Hl'.
    destruct (rd_total b (wrap64 (i * sh_entsize s)) (layout_sz (sym_layout c))) as (r & -> & _); [nia|].
    cbn [bind]. destruct (_ =? value); [eauto|]. apply IH; auto. lia.
Qed.

(* ---------- version chains ---------- *)
Theorem ver_chain_total fuel enc (b : bytes) size recsz nxt_off : forall off no,
  size < lenN b -> nxt_off + 4 <= recsz -> recsz <= size -> off <= size - recsz ->
  size - recsz - off < lenN fuel ->
  exists r, ver_chain fuel enc (Some b) size recsz nxt_off off no = Ok r /\
            (forall o, r = Some o -> o <= size - recsz).
Proof.
  induction fuel as [|u f IH]; intros off no Hb Hn Hr Ho Hf; [cbn [lenN] in Hf; lia|].
  rewrite lenN_cons in Hf. cbn [ver_chain].
  destruct (no =? 0); [exists (Some off); split; [reflexivity|intros o [= <-]; exact Ho]|].
  destruct (rd_word_total enc b (off + nxt_off) 4) as (nx & ->); [cbn; lia|]. cbn [bind].
  destruct (N.eqb_spec nx 0); [exists (Some off); split; [reflexivity|intros o [= <-]; exact Ho]|].
  destruct (N.ltb_spec (size - recsz) (off + nx)); [exists None; split; [reflexivity|discriminate]|].
  apply IH; try assumption; lia.
Qed.

(* ---------- notes ---------- *)
(* a recorded note position: header and both padded fields lie inside the section *)
Definition note_pos_ok (enc : endian) (b : bytes) (size pos : N) : Prop :=
  exists namesz descsz,
    rd_word enc (Some b) pos 4 = Ok namesz /\ rd_word enc (Some b) (pos + 4) 4 = Ok descsz /\
    pos + 12 + pad4_32 namesz + pad4_32 descsz <= size /\ namesz < size /\ descsz < size.

Theorem note_walk_total fuel enc (b : bytes) size : forall current acc,
  size < lenN b -> size < 2 ^ 30 -> current <= size -> size - current < lenN fuel ->
  exists r, note_walk fuel (Some b) enc size current acc = Ok r /\
            (Forall (note_pos_ok enc b size) acc -> Forall (note_pos_ok enc b size) r).
Proof.
  induction fuel as [|u f IH]; intros current acc Hb Hs Hc Hf; [cbn [lenN] in Hf; lia|].
  rewrite lenN_cons in Hf. cbn [note_walk].
  assert (W : wrap64 (current + 12) = current + 12) by (unfold wrap64, wrap; apply N.mod_small; lia).
  rewrite W.
  destruct (N.leb_spec (current + 12) size) as [H|H]; [|eauto].
  destruct (rd_word_total enc b current 4) as (namesz & En); [cbn; lia|]. rewrite En. cbn [bind].
  destruct (rd_word_total enc b (current + 4) 4) as (descsz & Ed); [cbn; lia|]. rewrite Ed. cbn [bind].
  set (advance := wrap32 (12 + pad4_32 namesz + pad4_32 descsz)).
  destruct (N.ltb_spec namesz size) as [Hn|Hn]; cbn [andb]; [|eauto].
  destruct (N.ltb_spec descsz size) as [Hd|Hd]; cbn [andb]; [|eauto].
  assert (P1 : pad4_32 namesz <= namesz + 3 /\ namesz <= pad4_32 namesz).
  { unfold pad4_32, wrap32, wrap. rewrite N.mod_small by lia. split; lia. }
  assert (P2 : pad4_32 descsz <= descsz + 3 /\ descsz <= pad4_32 descsz).
  { unfold pad4_32, wrap32, wrap. rewrite N.mod_small by lia. split; lia. }
  assert (A : advance = 12 + pad4_32 namesz + pad4_32 descsz).
  { unfold advance, wrap32, wrap. apply N.mod_small. lia. }
  assert (W2 : wrap64 (current + advance) = current + advance) by (unfold wrap64, wrap; apply N.mod_small; lia).
  rewrite W2.
  destruct (N.leb_spec (current + advance) size) as [Ha|Ha]; [|eauto].
  destruct (IH (current + advance) (acc ++ [current]) Hb Hs Ha ltac:(lia)) as (r & -> & Hr).
  exists r. split; [reflexivity|]. intro Hacc. apply Hr. apply Forall_app. split; [exact Hacc|].
  constructor; [|constructor]. exists namesz, descsz. repeat split; try assumption. lia.
Qed.

(* ---------- object level: residency requests keep the object well-formed ---------- *)
Section ElLevel.
  Variable junk : N -> N.
  Variable host : endian.

  Lemma hdr_same_trans a b c : hdr_same a b -> hdr_same b c -> hdr_same a c.
  Proof. unfold hdr_same. intros H1 H2. decompose [and] H1. decompose [and] H2. repeat split; congruence. Qed.

  Definition same_shape (el el1 : elfio) : Prop :=
    lenN (el_secs el1) = lenN (el_secs el) /\ el_hdr el1 = el_hdr el /\ el_xlat el1 = el_xlat el /\
    (forall j g, get_seg el j = Some g -> exists g', get_seg el1 j = Some g' /\ p_filesz g' = p_filesz g) /\
    (forall j s, get_sec el j = Some s -> exists s', get_sec el1 j = Some s' /\ hdr_same s s').
  Lemma same_shape_refl el : same_shape el el.
  Proof. repeat split; [intros j g H; eauto|]. intros j s H. exists s. split; [exact H|apply hdr_same_refl]. Qed.
  Lemma same_shape_trans a b c : same_shape a b -> same_shape b c -> same_shape a c.
  Proof.
    unfold same_shape. intros (?&?&?&G1&F1) (?&?&?&G2&F2). repeat split; try congruence.
    { intros j g Hg. destruct (G1 j g Hg) as (g' & Hg' & E1). destruct (G2 j g' Hg') as (g'' & Hg'' & E2).
      exists g''. split; [exact Hg''|congruence]. }
    intros j s Hs. destruct (F1 j s Hs) as (s' & Hs' & HS1). destruct (F2 j s' Hs') as (s'' & Hs'' & HS2).
    exists s''. split; [exact Hs''|]. eapply hdr_same_trans; eauto.
  Qed.

  Lemma get_sec_some el i : i < lenN (el_secs el) <-> exists s, get_sec el i = Some s.
  Proof.
    unfold get_sec. split; [apply nth_optN_some|]. intros (s & H). now apply nth_optN_lt in H.
  Qed.
  Lemma same_shape_get_sec el el1 i s : same_shape el el1 -> get_sec el i = Some s -> exists s1, get_sec el1 i = Some s1.
  Proof. intros (_ & _ & _ & _ & F) Hg. destruct (F i s Hg) as (s' & ? & _). eauto. Qed.

  Lemma sec_data_total content k el i s0 :
    loaded_ok content k el -> get_sec el i = Some s0 ->
    exists el1 s1,
      sec_data junk el i = Ok (el1, s_data s1, s1) /\
      loaded_ok content k el1 /\ same_shape el el1 /\ get_sec el1 i = Some s1 /\
      buf_ok s1 (s_data s1) /\ hdr_same s0 s1.
  Proof.
    intros (Hf & Hg & st & Hs & Hc & Hi & Hk) Hget. unfold sec_data, el_sec_get_data. rewrite Hget, Hs.
    assert (F0 : fits s0) by (eapply Forall_nth_optN; eauto).
    destruct (sec_get_data_total junk st (el_xlat el) s0 F0) as (st1 & s1 & al & -> & F1 & HS & C1 & C2 & C3 & _).
    cbn [bind].
    assert (Hi' : i < lenN (el_secs el)) by (apply get_sec_some; eauto).
    assert (G1 : get_sec (with_stream (upd_sec el i s1) (Some st1)) i = Some s1).
    { unfold get_sec, upd_sec. cbn. now apply nth_optN_updN_same. }
    rewrite G1. exists (with_stream (upd_sec el i s1) (Some st1)), s1. split; [reflexivity|].
    split.
    { split; [cbn; now apply Forall_updN|]. split; [cbn; exact Hg|]. exists st1. cbn.
      split; [reflexivity|]. split; [congruence|]. split; [unfold st_inv in *; congruence|congruence]. }
    split.
    { unfold same_shape; cbn. rewrite lenN_updN. do 3 (split; [reflexivity|]).
      split; [intros j g Hj; exists g; split; [exact Hj|reflexivity]|].
      intros j s Hj. unfold get_sec in *. cbn. destruct (N.eq_dec i j) as [<-|Hne].
      - rewrite nth_optN_updN_same by exact Hi'. exists s1. split; [reflexivity|]. congruence.
      - rewrite nth_optN_updN_other by exact Hne. exists s. split; [exact Hj|apply hdr_same_refl]. }
    split; [exact G1|]. split; [exact F1|exact HS].
  Qed.

  Ltac use_sec_data H el i :=
    let el1 := fresh "el1" in let s1 := fresh "s1" in let E := fresh "E" in
    let L := fresh "L" in let SH := fresh "SH" in let G := fresh "G" in let B := fresh "B" in let HS := fresh "HS" in
    match goal with
    | Hg : get_sec el i = Some ?s0 |- _ =>
        destruct (sec_data_total _ _ el i s0 H Hg) as (el1 & s1 & E & L & SH & G & B & HS); rewrite E; cbn [bind]
    end.

  Lemma lookup_str_total content k el strsec idx :
    loaded_ok content k el ->
    exists el1 r, lookup_str junk el strsec idx = Ok (el1, r) /\ loaded_ok content k el1 /\ same_shape el el1.
  Proof.
    intros H. unfold lookup_str. destruct (get_sec el strsec) as [s0|] eqn:Hg.
    2:{ exists el, None. auto using same_shape_refl. }
    use_sec_data H el strsec.
    destruct (s_data s1) as [b|] eqn:Ed.
    - cbn in B. destruct (get_string_raw_total junk b (sh_size s1) (wrap32 idx) ltac:(lia)) as (r & Er).
      unfold bytes in *. rewrite Er. cbn [bind]. eauto.
    - cbn [get_string_raw bind]. eauto.
  Qed.

  (* symbol by index, with its name *)
  Theorem get_symbol_total content k el symsec index s0 :
    loaded_ok content k el -> get_sec el symsec = Some s0 ->
    exists el1 r, get_symbol junk el symsec index = Ok (el1, r) /\ loaded_ok content k el1 /\ same_shape el el1.
  Proof.
    intros H Hg. unfold get_symbol. use_sec_data H el symsec.
    pose proof (get_symbols_num_bound el1 s1) as [N1 N2].
    destruct (sym_get_core_total (acls el1) (el_enc el1) s1 (s_data s1) (get_symbols_num el1 s1) index B N1 N2) as (r & ->).
    cbn [bind]. destruct r as [y|]; [|eauto].
    destruct (lookup_str_total content k el1 (wrap16 (sh_link s1)) (st_name y) L) as (el2 & nm & -> & L2 & SH2).
    cbn [bind]. eexists _, _. split; [reflexivity|]. split; [exact L2|]. eapply same_shape_trans; eauto.
  Qed.

  (* relocation entries, without and with symbol resolution *)
  Theorem rel_get_entry_total content k el relsec index s0 :
    loaded_ok content k el -> get_sec el relsec = Some s0 ->
    exists el1 r, rel_get_entry junk el relsec index = Ok (el1, r) /\ loaded_ok content k el1 /\ same_shape el el1.
  Proof.
    intros H Hg. unfold rel_get_entry. rewrite Hg.
    destruct (rel_needs_data (acls el) s0 index); [|eauto using same_shape_refl].
    use_sec_data H el relsec.
    assert (B0 : buf_ok s0 (s_data s1)).
    { unfold buf_ok in *. destruct (s_data s1); [|exact I]. destruct HS as (_ & _ & _ & _ & _ & HSZ & _). lia. }
    destruct (rel_get_core_total (acls el1) (el_enc el1) s0 (s_data s1) index B0) as (r & ->). cbn [bind]. eauto.
  Qed.

  Theorem rel_get_entry_full_total content k el relsec index s0 :
    loaded_ok content k el -> get_sec el relsec = Some s0 ->
    exists el1 r, rel_get_entry_full junk el relsec index = Ok (el1, r) /\ loaded_ok content k el1 /\ same_shape el el1.
  Proof.
    intros H Hg. unfold rel_get_entry_full.
    destruct (rel_get_entry_total content k el relsec index s0 H Hg) as (el1 & r & -> & L1 & SH1). cbn [bind].
    destruct (same_shape_get_sec el el1 relsec s0 SH1 Hg) as (s1 & ->).
    destruct (get_sec el1 (wrap16 (sh_link s1))) as [ss|] eqn:Hs; [|eauto].
    destruct r as [v|]; [|eauto].
    destruct (get_symbol_total content k el1 (wrap16 (sh_link s1)) (rv_symbol v) ss L1 Hs) as (el2 & sv & -> & L2 & SH2).
    cbn [bind]. destruct sv; eexists _, _; (split; [reflexivity|]); split; eauto using same_shape_trans.
  Qed.

  (* arrays and version indices *)
  Theorem arr_get_entry_total content k el sec w index s0 :
    loaded_ok content k el -> get_sec el sec = Some s0 -> (w = 4 \/ w = 8) ->
    exists el1 r, arr_get_entry junk el sec w index = Ok (el1, r) /\ loaded_ok content k el1 /\ same_shape el el1.
  Proof.
    intros H Hg Hw. unfold arr_get_entry. rewrite Hg.
    destruct (arr_entries_num s0 w <=? index); [eauto using same_shape_refl|].
    use_sec_data H el sec.
    assert (B0 : buf_ok s0 (s_data s1)).
    { unfold buf_ok in *. destruct (s_data s1); [|exact I]. destruct HS as (_ & _ & _ & _ & _ & HSZ & _). lia. }
    destruct (arr_get_core_total (el_enc el1) s0 (s_data s1) w index B0 Hw) as (r & ->). cbn [bind]. eauto.
  Qed.

  Theorem vs_get_total content k el a no :
    loaded_ok content k el ->
    (forall s, get_sec el (va_sec a) = Some s -> va_num a * 2 <= sh_size s) ->
    exists el1 r, vs_get junk host el a no = Ok (el1, r) /\ loaded_ok content k el1 /\ same_shape el el1.
  Proof.
    intros H Hn. unfold vs_get. destruct (get_sec el (va_sec a)) as [s0|] eqn:Hg; [|eauto using same_shape_refl].
    destruct (N.ltb_spec (wrap32 no) (va_num a)); [|eauto using same_shape_refl].
    use_sec_data H el (va_sec a). specialize (Hn s0 eq_refl).
    destruct (s_data s1) as [b|] eqn:Ed; [|eauto]. cbn in B.
    destruct HS as (_ & _ & _ & _ & _ & HSZ & _).
    destruct (rd_word_total host b (wrap32 no * 2) 2) as (v & ->); [cbn; lia|]. cbn [bind]. eauto.
  Qed.

  (* ---------- dynamic ---------- *)
  Theorem dyn_raw_entry_total content k el dynsec index s0 :
    loaded_ok content k el -> get_sec el dynsec = Some s0 -> index < sh_size s0 / sh_entsize s0 ->
    exists el1 tag v, dyn_raw_entry junk el dynsec index = Ok (el1, tag, v) /\ loaded_ok content k el1 /\ same_shape el el1.
  Proof.
    intros H Hg Hi. unfold dyn_raw_entry. use_sec_data H el dynsec.
    destruct HS as (_ & _ & _ & _ & _ & HSZ & _ & _ & _ & HES & _).
    destruct (dyn_raw_core_total (acls el1) (el_enc el1) s1 (s_data s1) index B ltac:(rewrite HSZ, HES; exact Hi)) as ([tag v] & ->).
    cbn [bind]. eauto 10.
  Qed.

  Lemma hdr_same_sizes s0 s1 : hdr_same s0 s1 -> sh_size s1 = sh_size s0 /\ sh_entsize s1 = sh_entsize s0 /\ sh_link s1 = sh_link s0.
  Proof. intros (_ & _ & _ & _ & _ & A & B & _ & _ & C & _). auto. Qed.

  Theorem dyn_get_entry_with_total content k el dynsec num index s0 :
    loaded_ok content k el -> get_sec el dynsec = Some s0 -> num <= sh_size s0 / sh_entsize s0 ->
    exists el1 t r, dyn_get_entry_with junk el dynsec num index = Ok (el1, t, r) /\ loaded_ok content k el1 /\ same_shape el el1 /\
      exists s1, get_sec el1 dynsec = Some s1 /\ sh_size s1 = sh_size s0 /\ sh_entsize s1 = sh_entsize s0.
  Proof.
    intros H Hg Hn. unfold dyn_get_entry_with.
    destruct (N.leb_spec num index); [exists el, None, None; split; [reflexivity|]; split; [exact H|]; split; [apply same_shape_refl|]; eauto|].
    unfold dyn_raw_entry. use_sec_data H el dynsec. destruct (hdr_same_sizes _ _ HS) as (Z1 & Z2 & Z3).
    destruct (dyn_raw_core_total (acls el1) (el_enc el1) s1 (s_data s1) index B ltac:(rewrite Z1, Z2; lia)) as ([tag v] & ->).
    cbn [bind]. destruct (dyn_is_string_tag tag); [|eexists _, _, _; split; [reflexivity|]; split; [exact L|]; split; [exact SH|]; exists s1; auto].
    rewrite G.
    destruct (lookup_str_total content k el1 (wrap16 (sh_link s1)) (wrap32 v) L) as (el2 & r & -> & L2 & SH2).
    cbn [bind].
    assert (exists s2, get_sec el2 dynsec = Some s2 /\ sh_size s2 = sh_size s0 /\ sh_entsize s2 = sh_entsize s0) as Hs2.
    { destruct SH2 as (_ & _ & _ & _ & F2). destruct (F2 dynsec s1 G) as (s2 & G2 & HS2).
      destruct (hdr_same_sizes _ _ HS2) as (Y1 & Y2 & _). exists s2. split; [exact G2|]. split; congruence. }
    destruct r; eexists _, _, _; (split; [reflexivity|]); split; eauto using same_shape_trans.
  Qed.

  Lemma dyn_touch_total content k fuel : forall el dynsec n i upto s0,
    loaded_ok content k el -> get_sec el dynsec = Some s0 -> n <= sh_size s0 / sh_entsize s0 ->
    n < i + lenN fuel ->
    exists el1, dyn_touch junk fuel el dynsec n i upto = Ok el1 /\ loaded_ok content k el1 /\ same_shape el el1.
  Proof.
    induction fuel as [|u f IH]; intros el dynsec n i upto s0 H Hg Hn Hf.
    - cbn [lenN] in Hf. unfold dyn_touch. destruct (N.ltb_spec i n); [lia|]. rewrite andb_false_r.
      eauto using same_shape_refl.
    - rewrite lenN_cons in Hf. cbn [dyn_touch]. destruct ((i <=? upto) && (i <? n)); [|eauto using same_shape_refl].
      destruct (dyn_get_entry_with_total content k el dynsec n i s0 H Hg Hn) as (el1 & t & r & -> & L1 & SH1 & s1 & G1 & Z1 & Z2).
      cbn [bind].
      destruct (IH el1 dynsec n (i + 1) upto s1 L1 G1 ltac:(rewrite Z1, Z2; exact Hn) ltac:(lia)) as (el2 & -> & L2 & SH2).
      eauto using same_shape_trans.
  Qed.

  Theorem dyn_entries_num_total content k el a :
    loaded_ok content k el ->
    (forall s, get_sec el (da_sec a) = Some s -> da_num a <= sh_size s / sh_entsize s) ->
    (exists s, get_sec el (da_sec a) = Some s) ->
    exists el1 a1 num, dyn_entries_num junk el a = Ok (el1, a1, num) /\ loaded_ok content k el1 /\ same_shape el el1 /\
      da_sec a1 = da_sec a /\ da_num a1 = num /\
      (forall s, get_sec el1 (da_sec a) = Some s -> num <= sh_size s / sh_entsize s).
  Proof.
    intros H Hn (s0 & Hg). unfold dyn_entries_num. rewrite Hg.
    assert (Keep : exists el1 a1 num, Ok (el, a, da_num a) = Ok (el1, a1, num) /\ loaded_ok content k el1 /\ same_shape el el1 /\
      da_sec a1 = da_sec a /\ da_num a1 = num /\ (forall s, get_sec el1 (da_sec a) = Some s -> num <= sh_size s / sh_entsize s)).
    { exists el, a, (da_num a). split; [reflexivity|]. split; [exact H|]. split; [apply same_shape_refl|]. auto. }
    destruct (_ && _); [|exact Keep]. clear Keep.
    use_sec_data H el (da_sec a). destruct (hdr_same_sizes _ _ HS) as (Z1 & Z2 & _).
    assert (Keep1 : forall s, get_sec el1 (da_sec a) = Some s -> da_num a <= sh_size s / sh_entsize s).
    { intros s Hs. rewrite G in Hs. injection Hs as <-. rewrite Z1, Z2. auto. }
    destruct (s_data s1) as [b|] eqn:Ed.
    2:{ exists el1, a, (da_num a). split; [reflexivity|]. split; [exact L|]. split; [exact SH|]. auto. }
    set (n := sh_size s0 / sh_entsize s0).
    assert (Hnb : n < lenN b). { cbn in B. pose proof (div_mul_le (sh_size s0) (sh_entsize s0)).
      destruct (N.eq_dec (sh_entsize s0) 0) as [Ez|Ez]; [unfold n; rewrite Ez; cbn; lia|]. unfold n. nia. }
    destruct (dyn_count_core_total (0 :: b) (acls el1) (el_enc el1) s1 (Some b) 0 n) as (i & -> & Hi).
    { exact B. } { unfold n. rewrite Z1, Z2. lia. } { rewrite lenN_cons. lia. }
    cbn [bind].
    destruct (dyn_touch_total content k (0 :: b) el1 (da_sec a) n 0 i s1 L G ltac:(unfold n; rewrite Z1, Z2; lia) ltac:(rewrite lenN_cons; lia))
      as (el2 & -> & L2 & SH2).
    cbn [bind]. eexists _, _, _. split; [reflexivity|]. split; [exact L2|]. split; [eapply same_shape_trans; eauto|].
    split; [reflexivity|]. split; [reflexivity|].
    intros s Hs. destruct SH2 as (_ & _ & _ & _ & F2). destruct (F2 _ _ G) as (s2 & G2 & HS2).
    rewrite G2 in Hs. injection Hs as <-. destruct (hdr_same_sizes _ _ HS2) as (Y1 & Y2 & _).
    rewrite Y1, Y2, Z1, Z2. fold n. lia.
  Qed.

  Theorem dyn_get_entry_total content k el a index :
    loaded_ok content k el ->
    (forall s, get_sec el (da_sec a) = Some s -> da_num a <= sh_size s / sh_entsize s) ->
    (exists s, get_sec el (da_sec a) = Some s) ->
    exists el1 a1 r, dyn_get_entry junk el a index = Ok (el1, a1, r) /\ loaded_ok content k el1 /\ same_shape el el1.
  Proof.
    intros H Hn Hs. unfold dyn_get_entry.
    destruct (dyn_entries_num_total content k el a H Hn Hs) as (el1 & a1 & num & -> & L1 & SH1 & A1 & A2 & A3).
    cbn [bind]. destruct Hs as (s0 & Hg). destruct (same_shape_get_sec _ _ _ _ SH1 Hg) as (s1 & G1).
    rewrite A1.
    destruct (dyn_get_entry_with_total content k el1 (da_sec a) num index s1 L1 G1 (A3 s1 G1)) as (el2 & t & r & -> & L2 & SH2 & _).
    cbn [bind]. eauto 10 using same_shape_trans.
  Qed.

  (* ---------- symbol lookup by value ---------- *)
  Theorem get_symbol_by_value_total content k el symsec value s0 :
    loaded_ok content k el -> get_sec el symsec = Some s0 ->
    exists el1 r, get_symbol_by_value junk el symsec value = Ok (el1, r) /\ loaded_ok content k el1 /\ same_shape el el1.
  Proof.
    intros H Hg. unfold get_symbol_by_value. use_sec_data H el symsec.
    pose proof (get_symbols_num_bound el1 s1) as [N1 N2].
    set (n := get_symbols_num el1 s1) in *.
    assert (Fin : forall r : option N, exists el2 r2,
              match r with Some idx => get_symbol junk el1 symsec idx | None => Ok (el1, None) end = Ok (el2, r2) /\
              loaded_ok content k el2 /\ same_shape el el2).
    { intros [idx|]; [|eauto]. destruct (get_symbol_total content k el1 symsec idx s1 L G) as (el2 & r & -> & L2 & SH2).
      exists el2, r. split; [reflexivity|]. split; [exact L2|]. eapply same_shape_trans; eauto. }
    destruct (s_data s1) as [b|] eqn:Ed.
    - destruct (scan_values_total (0 :: b) (acls el1) (el_enc el1) s1 (Some b) value 0 n B N1 N2) as (r & ->).
      { rewrite lenN_cons. cbn in B. destruct (N.eq_dec n 0); [lia|]. specialize (N2 ltac:(lia)).
        assert (16 <= sh_entsize s1) by (destruct (acls el1); cbn in N2; lia). nia. }
      cbn [bind]. apply Fin.
    - cbn [scan_values]. destruct (0 <? n); cbn [bind]; apply (Fin None).
  Qed.

  (* ---------- segment data ---------- *)
  Lemma el_seg_get_data_total content k el j g0 :
    loaded_ok content k el -> get_seg el j = Some g0 ->
    exists el1 g1, el_seg_get_data el j = Ok (el1, g_data g1) /\ loaded_ok content k el1 /\ same_shape el el1 /\
      get_seg el1 j = Some g1 /\ gfits g1 /\ p_filesz g1 = p_filesz g0.
  Proof.
    intros (Hf & Hg & st & Hs & Hc & Hi & Hk) Hget. unfold el_seg_get_data, seg_get_data. rewrite Hget, Hs.
    assert (F0 : gfits g0) by (eapply Forall_nth_optN; eauto).
    assert (Hj : j < lenN (el_segs el)) by (unfold get_seg in Hget; now apply nth_optN_lt in Hget).
    assert (Fin : forall st1 g1, gfits g1 -> p_filesz g1 = p_filesz g0 ->
              is_content st1 = is_content st -> is_len st1 = is_len st -> is_kind st1 = is_kind st ->
              exists el1 g2, Ok (with_stream (upd_seg el j g1) (Some st1), g_data g1) = Ok (el1, g_data g2) /\
                loaded_ok content k el1 /\ same_shape el el1 /\ get_seg el1 j = Some g2 /\ gfits g2 /\ p_filesz g2 = p_filesz g0).
    { intros st1 g1 F1 Z1 C1 C2 C3. eexists _, g1. split; [reflexivity|].
      assert (G1 : get_seg (with_stream (upd_seg el j g1) (Some st1)) j = Some g1).
      { unfold get_seg, upd_seg. cbn. now apply nth_optN_updN_same. }
      split.
      { split; [cbn; exact Hf|]. split; [cbn; now apply Forall_updN|]. exists st1. cbn.
        split; [reflexivity|]. split; [congruence|]. split; [unfold st_inv in *; congruence|congruence]. }
      split; [|auto].
      unfold same_shape; cbn. do 3 (split; [reflexivity|]). split.
      - intros i g Hi'. unfold get_seg in *. cbn. destruct (N.eq_dec j i) as [<-|Hne].
        + rewrite nth_optN_updN_same by exact Hj. exists g1. split; [reflexivity|]. congruence.
        + rewrite nth_optN_updN_other by exact Hne. eauto.
      - intros i x Hx. exists x. split; [exact Hx|apply hdr_same_refl]. }
    destruct (g_loaded g0).
    - cbn [bind]. apply Fin; auto.
    - destruct (seg_load_data_total junk st (el_xlat el) g0) as (st1 & g1 & ok & al & -> & F1 & Z1 & C1 & C2 & C3 & _).
      cbn [bind]. apply Fin; auto.
  Qed.

  (* ---------- notes ---------- *)
  Definition note_starts_ok (el : elfio) (a : note_acc) : Prop :=
    match na_target a with
    | NoteSec i => forall s b, get_sec el i = Some s -> s_data s = Some b ->
                               Forall (note_pos_ok (el_enc el) b (sh_size s)) (na_starts a)
    | NoteSeg j => forall g b, get_seg el j = Some g -> g_data g = Some b ->
                               Forall (note_pos_ok (el_enc el) b (p_filesz g)) (na_starts a)
    end.

  Lemma note_data_total content k el t :
    loaded_ok content k el ->
    match t with NoteSec i => exists s, get_sec el i = Some s | NoteSeg j => exists g, get_seg el j = Some g end ->
    exists el1 p size, note_data junk el t = Ok (el1, p, size) /\ loaded_ok content k el1 /\ same_shape el el1 /\
      match p with Some b => size < lenN b | None => True end /\
      match t with
      | NoteSec i => exists s, get_sec el1 i = Some s /\ s_data s = p /\ sh_size s = size
      | NoteSeg j => exists g, get_seg el1 j = Some g /\ g_data g = p /\ p_filesz g = size
      end.
  Proof.
    intros H Ht. unfold note_data. destruct t as [i|j].
    - destruct Ht as (s0 & Hg). use_sec_data H el i. eexists _, _, _. split; [reflexivity|].
      split; [exact L|]. split; [exact SH|]. split; [exact B|]. eauto.
    - destruct Ht as (g0 & Hg). destruct (el_seg_get_data_total content k el j g0 H Hg) as (el1 & g1 & -> & L & SH & G & F & Z).
      cbn [bind]. rewrite G. eexists _, _, _. split; [reflexivity|]. split; [exact L|]. split; [exact SH|].
      split; [exact F|]. eauto.
  Qed.

  Theorem note_new_total content k el t :
    loaded_ok content k el -> lenN content < 2 ^ 30 ->
    match t with NoteSec i => exists s, get_sec el i = Some s /\ sh_size s < 2 ^ 30
               | NoteSeg j => exists g, get_seg el j = Some g /\ p_filesz g < 2 ^ 30 end ->
    exists el1 a, note_new junk el t = Ok (el1, a) /\ loaded_ok content k el1 /\ same_shape el el1 /\
                  na_target a = t /\ note_starts_ok el1 a.
  Proof.
    intros H _ Ht. unfold note_new.
    destruct (note_data_total content k el t H) as (el1 & p & size & -> & L & SH & B & T).
    { destruct t; destruct Ht as (x & ? & _); eauto. }
    cbn [bind].
    assert (Hsz : size < 2 ^ 30).
    { destruct t as [i|j].
      - destruct Ht as (s0 & Hg & Hs). destruct T as (s1 & G1 & _ & <-). destruct SH as (_ & _ & _ & _ & F).
        destruct (F i s0 Hg) as (s' & G' & HS). rewrite G1 in G'. injection G' as <-.
        destruct (hdr_same_sizes _ _ HS) as (-> & _). exact Hs.
      - destruct Ht as (g0 & Hg & Hs). destruct T as (g1 & G1 & _ & <-). destruct SH as (_ & _ & _ & F & _).
        destruct (F j g0 Hg) as (g' & G' & Z). rewrite G1 in G'. injection G' as <-. rewrite Z. exact Hs. }
    assert (Empty : exists el2 a, Ok (el1, mkNoteAcc t []) = Ok (el2, a) /\ loaded_ok content k el2 /\ same_shape el el2 /\
                      na_target a = t /\ note_starts_ok el2 a).
    { eexists _, _. split; [reflexivity|]. split; [exact L|]. split; [exact SH|]. split; [reflexivity|].
      unfold note_starts_ok. cbn. destruct t; intros; constructor. }
    destruct p as [b|]; [|exact Empty]. destruct (size =? 0); [exact Empty|]. clear Empty.
    destruct (note_walk_total (0 :: b) (el_enc el1) b size 0 [] B Hsz ltac:(lia) ltac:(rewrite lenN_cons; lia)) as (r & -> & Hr).
    cbn [bind]. eexists _, _. split; [reflexivity|]. split; [exact L|]. split; [exact SH|]. split; [reflexivity|].
    specialize (Hr ltac:(constructor)).
    unfold note_starts_ok. cbn. destruct t as [i|j].
    - destruct T as (s1 & G1 & D1 & Z1). intros s b' Hs Hb. rewrite G1 in Hs. injection Hs as <-.
      rewrite D1 in Hb. injection Hb as <-. rewrite Z1. exact Hr.
    - destruct T as (g1 & G1 & D1 & Z1). intros g b' Hs Hb. rewrite G1 in Hs. injection Hs as <-.
      rewrite D1 in Hb. injection Hb as <-. rewrite Z1. exact Hr.
  Qed.

  (* reading a note through an accessor whose positions were recorded over the
     (still resident) data *)
  Theorem note_get_total content k el a index :
    loaded_ok content k el ->
    (match na_target a with
     | NoteSec i => exists s b, get_sec el i = Some s /\ s_loaded s = true /\ s_data s = Some b /\ sh_size s < 2 ^ 30 /\
                                Forall (note_pos_ok (el_enc el) b (sh_size s)) (na_starts a)
     | NoteSeg j => exists g b, get_seg el j = Some g /\ g_loaded g = true /\ g_data g = Some b /\ p_filesz g < 2 ^ 30 /\
                                Forall (note_pos_ok (el_enc el) b (p_filesz g)) (na_starts a)
     end) ->
    exists el1 r, note_get junk el a index = Ok (el1, r).
  Proof.
    intros H Ht. unfold note_get.
    destruct (N.leb_spec (lenN (na_starts a)) (wrap32 index)) as [Hi|Hi]; [eauto|].
    destruct (nth_optN_some (na_starts a) (wrap32 index) Hi) as (pos & Hpos).
    assert (Hd : exists el1 b size, note_data junk el (na_target a) = Ok (el1, Some b, size) /\ el_enc el1 = el_enc el /\
                   size < lenN b /\ size < 2 ^ 30 /\ Forall (note_pos_ok (el_enc el) b size) (na_starts a)).
    { destruct H as (Hf & Hg & st & Hs & _). unfold note_data. destruct (na_target a) as [i|j].
      - destruct Ht as (s & b & G & Ld & D & Z & P). unfold sec_data, el_sec_get_data, sec_get_data. rewrite G, Hs, Ld.
        cbn [negb andb bind].
        assert (G1 : get_sec (with_stream (upd_sec el i s) (Some st)) i = Some s).
        { unfold get_sec, upd_sec. cbn. apply nth_optN_updN_same. unfold get_sec in G. now apply nth_optN_lt in G. }
        rewrite G1. eexists _, b, _. rewrite D. split; [reflexivity|]. split; [reflexivity|].
        pose proof (Forall_nth_optN _ _ _ _ Hf G) as F. unfold fits in F. rewrite D in F. auto.
      - destruct Ht as (g & b & G & Ld & D & Z & P). unfold el_seg_get_data, seg_get_data. rewrite G, Hs, Ld.
        cbn [bind].
        assert (G1 : get_seg (with_stream (upd_seg el j g) (Some st)) j = Some g).
        { unfold get_seg, upd_seg. cbn. apply nth_optN_updN_same. unfold get_seg in G. now apply nth_optN_lt in G. }
        rewrite G1. eexists _, b, _. rewrite D. split; [reflexivity|]. split; [reflexivity|].
        pose proof (Forall_nth_optN _ _ _ _ Hg G) as F. unfold gfits in F. rewrite D in F. auto. }
    destruct Hd as (el1 & b & size & -> & He & Hb & Hsz & Hp). cbn [bind]. rewrite Hpos, He. unfold note_at.
    pose proof (Forall_nth_optN _ _ _ _ Hp Hpos) as (namesz & descsz & R1 & R2 & Hfit & Hn & Hdz).
    destruct (rd_word_total (el_enc el) b (pos + 8) 4) as (ty & ->); [cbn; lia|]. cbn [bind].
    rewrite R1, R2. cbn [bind].
    assert (P1 : namesz <= pad4_32 namesz).
    { unfold pad4_32, wrap32, wrap. rewrite N.mod_small by lia. lia. }
    destruct ((namesz <? 1) || _ || _) eqn:Eg; [cbn [bind]; eauto|].
    apply orb_false_iff in Eg. destruct Eg as [Eg _]. apply orb_false_iff in Eg. destruct Eg as [Eg _].
    apply N.ltb_ge in Eg.
    destruct (rd_total b (pos + 12) (namesz - 1)) as (nm & -> & _); [lia|]. cbn [bind].
    destruct (descsz =? 0); [cbn [bind]; eauto|].
    assert (P2 : descsz <= pad4_32 descsz).
    { unfold pad4_32, wrap32, wrap. rewrite N.mod_small by lia. lia. }
    destruct (rd_total b (pos + 12 + pad4_32 namesz) descsz) as (ds & -> & _); [lia|]. cbn [bind]. eauto.
  Qed.

  (* ---------- version requirement / definition entries ---------- *)
  Lemma verneed_core_total enc (b : bytes) size no :
    size < lenN b -> 16 <= size -> exists r, verneed_core enc (Some b) (0 :: b) size no = Ok r.
  Proof.
    intros B H16. unfold verneed_core.
    destruct (ver_chain_total (0 :: b) enc b size 16 12 0 no B ltac:(lia) H16 ltac:(lia)
                ltac:(rewrite lenN_cons; lia)) as (o & -> & Ho).
    cbn [bind]. destruct o as [off|]; [|eauto]. specialize (Ho off eq_refl).
    destruct (rd_word_total enc b (off + 8) 4) as (aux & ->); [cbn; lia|]. cbn [bind].
    destruct (N.ltb_spec (size - 16) (off + aux)) as [Ha|Ha]; [eauto|].
    destruct (rd_word_total enc b (off + 4) 4) as (file & ->); [cbn; lia|]. cbn [bind].
    destruct (rd_word_total enc b (off + aux + 8) 4) as (name & ->); [cbn; lia|]. cbn [bind].
    destruct (rd_word_total enc b off 2) as (v1 & ->); [cbn; lia|]. cbn [bind].
    destruct (rd_word_total enc b (off + aux) 4) as (v2 & ->); [cbn; lia|]. cbn [bind].
    destruct (rd_word_total enc b (off + aux + 4) 2) as (v3 & ->); [cbn; lia|]. cbn [bind].
    destruct (rd_word_total enc b (off + aux + 6) 2) as (v4 & ->); [cbn; lia|]. cbn [bind]. eauto.
  Qed.

  Theorem verneed_get_total content k el sec num no :
    loaded_ok content k el ->
    exists el1 r, verneed_get junk el sec num no = Ok (el1, r).
  Proof.
    intros H. unfold verneed_get. destruct (get_sec el sec) as [s0|] eqn:Hg; [|eauto].
    destruct (num <=? wrap32 no); [eauto|]. use_sec_data H el sec.
    destruct (s_data s1) as [b|] eqn:Ed; [|eauto]. cbn in B.
    destruct (N.ltb_spec (sh_size s1) 16) as [H16|H16]; [eauto|].
    destruct (verneed_core_total (el_enc el1) b (sh_size s1) (wrap32 no) B H16) as (r & ->). cbn [bind].
    destruct r as [y|]; [|eauto].
    destruct (lookup_str_total content k el1 (wrap32 (sh_link s1)) (vr_file y) L) as (el2 & fs & -> & L2 & _). cbn [bind].
    destruct (lookup_str_total content k el2 (wrap32 (sh_link s1)) (vr_name y) L2) as (el3 & ds & -> & L3 & _). cbn [bind].
    eauto.
  Qed.

  Lemma verdef_core_total enc (b : bytes) size no :
    size < lenN b -> 20 <= size -> exists r, verdef_core enc (Some b) (0 :: b) size no = Ok r.
  Proof.
    intros B H20. unfold verdef_core.
    destruct (ver_chain_total (0 :: b) enc b size 20 16 0 no B ltac:(lia) H20 ltac:(lia)
                ltac:(rewrite lenN_cons; lia)) as (o & -> & Ho).
    cbn [bind]. destruct o as [off|]; [|eauto]. specialize (Ho off eq_refl).
    destruct (rd_word_total enc b (off + 12) 4) as (aux & ->); [cbn; lia|]. cbn [bind].
    destruct (N.ltb_spec (size - 8) (off + aux)) as [Ha|Ha]; [eauto|].
    destruct (rd_word_total enc b (off + aux) 4) as (name & ->); [cbn; lia|]. cbn [bind].
    destruct (rd_word_total enc b (off + 2) 2) as (v1 & ->); [cbn; lia|]. cbn [bind].
    destruct (rd_word_total enc b (off + 4) 2) as (v2 & ->); [cbn; lia|]. cbn [bind].
    destruct (rd_word_total enc b (off + 8) 4) as (v3 & ->); [cbn; lia|]. cbn [bind]. eauto.
  Qed.

  Theorem verdef_get_total content k el sec num no :
    loaded_ok content k el ->
    exists el1 r, verdef_get junk el sec num no = Ok (el1, r).
  Proof.
    intros H. unfold verdef_get. destruct (get_sec el sec) as [s0|] eqn:Hg; [|eauto].
    destruct (num <=? wrap32 no); [eauto|]. use_sec_data H el sec.
    destruct (s_data s1) as [b|] eqn:Ed; [|eauto]. cbn in B.
    destruct (N.ltb_spec (sh_size s1) 20) as [H20|H20]; [eauto|].
    destruct (verdef_core_total (el_enc el1) b (sh_size s1) (wrap32 no) B H20) as (r & ->). cbn [bind].
    destruct r as [y|]; [|eauto].
    destruct (lookup_str_total content k el1 (wrap32 (sh_link s1)) (dr_name y) L) as (el2 & ds & -> & L2 & _). cbn [bind].
    eauto.
  Qed.
End ElLevel.
