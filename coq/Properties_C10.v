(* Properties_C10.v — C10: arranging local symbols partitions the table, keeps
   the same symbols, and its swap log keeps every symbol index on target. *)
From ElfioV Require Import Bytes Mem Stream SectionData SectionData_proofs Strings Elfio Table Accessors Arrange_proofs Reloc_proofs Reloc_swap Arrange_reloc.
From Coq Require Import Permutation.
Local Open Scope N_scope.

(* For every symbol table (either class, either byte order, any bytes [tl]
   after the last whole entry) whose bytes are resident, arrange_local_symbols
   returns r and leaves a table syms' such that: syms' is a permutation of
   syms; the null symbol stays first; every symbol at 1..r-1 is local and every
   symbol from r on is not; the section's info field is r; and looking a symbol
   index q up after applying the logged swaps (what the callback forwards to a
   relocation table) finds the symbol that was at q before; every logged swap
   exchanges two positions 1 <= i < j inside the table; nothing but that one
   section of the object changes. *)
Theorem C10_arrange_partitions :
  forall junk el symsec el1 s s1 c e (syms : list sym) tl,
    let esz := layout_sz (sym_layout c) in
    let tb := fun l => concat (map (enc_sym c e) l) ++ tl in
    sec_data junk el symsec = Ok (el1, Some (tb syms), s) ->
    acls el1 = c -> sh_entsize s = esz -> get_symbols_num el1 s = lenN syms ->
    get_sec el1 symsec = Some s1 ->
    1 <= lenN syms -> lenN syms * esz < 2 ^ 64 ->
    exists el2 s2 syms' r log,
      arrange_local_symbols junk el symsec = Ok (el2, r, log) /\
      get_sec el2 symsec = Some s2 /\ s_data s2 = Some (tb syms') /\ sh_info s2 = wrap32 r /\
      Permutation syms' syms /\ lenN syms' = lenN syms /\ nth_optN syms' 0 = nth_optN syms 0 /\
      1 <= r /\ r <= lenN syms /\
      (forall k x, 1 <= k -> k < r -> nth_optN syms' k = Some x -> sym_is_local x = true) /\
      (forall k x, r <= k -> nth_optN syms' k = Some x -> sym_is_local x = false) /\
      (forall q, nth_optN syms' (retarget log q) = nth_optN syms q) /\
      swaps_in (lenN syms) log /\ el2 = upd_sec el1 symsec s2.
Proof. exact arrange_local_symbols_correct. Qed.
Print Assumptions C10_arrange_partitions.

(* the same statement for the loop alone, on the bytes of the table *)
Theorem C10_loop_partitions :
  forall c e (syms : list sym) tl,
    let esz := layout_sz (sym_layout c) in
    let tb := fun l => concat (map (enc_sym c e) l) ++ tl in
    1 <= lenN syms -> lenN syms * esz < 2 ^ 64 ->
    exists syms' r log,
      arrange_loop (0 :: 0 :: tb syms) (Some (tb syms)) c esz (lenN syms) 1 [] = Ok (Some (tb syms'), r, log) /\
      Permutation syms' syms /\ lenN syms' = lenN syms /\ nth_optN syms' 0 = nth_optN syms 0 /\
      1 <= r /\ r <= lenN syms /\
      (forall k x, 1 <= k -> k < r -> nth_optN syms' k = Some x -> sym_is_local x = true) /\
      (forall k x, r <= k -> nth_optN syms' k = Some x -> sym_is_local x = false) /\
      (forall q, nth_optN syms' (retarget log q) = nth_optN syms q) /\
      swaps_in (lenN syms) log.
Proof. exact arrange_symbols_correct. Qed.
Print Assumptions C10_loop_partitions.

(* The swap log does its job: arrange the symbol table, then hand every logged swap to swap_symbols of a
   relocation section (this is what the callback argument of arrange_local_symbols is for, and what the
   script operation OpArrange runs: [apply_log] is that fold). For any symbol table and any REL/RELA table
   of either class and byte order: both calls succeed; the relocation table afterwards is the old one with
   only the symbol indices changed (offset, type, addend of every entry as before, same size), and the
   symbol an entry's index now selects in the arranged table is the symbol its old index selected in the
   old table. Domain: the symbol count fits the width of the packed symbol index (2^24 / 2^32). *)
Theorem C10_relocations_follow_their_symbols :
  forall junk el symsec relsec el1 s s1 c e (syms : list sym) tl rs is_rela (es : list rel_entry),
    let esz := layout_sz (sym_layout c) in
    let tb := fun l => concat (map (enc_sym c e) l) ++ tl in
    sec_data junk el symsec = Ok (el1, Some (tb syms), s) ->
    acls el1 = c -> sh_entsize s = esz -> get_symbols_num el1 s = lenN syms ->
    get_sec el1 symsec = Some s1 ->
    1 <= lenN syms -> lenN syms * esz < 2 ^ 64 -> syms_fit c (lenN syms) ->
    relsec <> symsec -> get_sec el1 relsec = Some rs -> el_enc el1 = e ->
    Inv rs -> s_cls rs = c -> contents rs = concat (map (rel_enc c e is_rela) es) ->
    sh_type rs = (if is_rela then SHT_RELA else SHT_REL) -> sh_entsize rs = rel_esz c is_rela ->
    sh_size rs < size_bound c -> lenN es < 2 ^ 32 -> Forall (rel_fits c) es ->
    exists el2 r log s2 syms' rs',
      arrange_local_symbols junk el symsec = Ok (el2, r, log) /\
      apply_log junk relsec log (Ok el2) = Ok (upd_sec el2 relsec rs') /\
      get_sec el2 symsec = Some s2 /\ s_data s2 = Some (tb syms') /\ Permutation syms' syms /\
      Inv rs' /\ contents rs' = concat (map (rel_enc c e is_rela) (map (retarget_entry log) es)) /\
      sh_size rs' = sh_size rs /\
      (forall x, nth_optN syms' (re_symbol (retarget_entry log x)) = nth_optN syms (re_symbol x)) /\
      (forall x, re_offset (retarget_entry log x) = re_offset x /\ re_type (retarget_entry log x) = re_type x /\
                 re_addend (retarget_entry log x) = re_addend x).
Proof. exact arrange_then_swaps. Qed.
Print Assumptions C10_relocations_follow_their_symbols.

(* non-vacuity: null, global, local, weak, local *)
Definition ex_syms : list sym :=
  [mkSym 0 0 0 0 0 0; mkSym 1 16 4 18 0 1; mkSym 5 32 4 2 0 1; mkSym 9 48 0 33 0 2; mkSym 13 64 8 1 0 1].
Example C10_example :
  let tb := fun l => concat (map (enc_sym C32 MSB) l) ++ [7; 7; 7] in
  arrange_loop (0 :: 0 :: tb ex_syms) (Some (tb ex_syms)) C32 16 5 1 [] =
    Ok (Some (tb [mkSym 0 0 0 0 0 0; mkSym 5 32 4 2 0 1; mkSym 13 64 8 1 0 1; mkSym 9 48 0 33 0 2; mkSym 1 16 4 18 0 1]),
        3, [(1, 2); (2, 4)]) /\
  retarget [(1, 2); (2, 4)] 1 = 4 /\ retarget [(1, 2); (2, 4)] 4 = 2 /\ retarget [(1, 2); (2, 4)] 3 = 3.
Proof. vm_compute. repeat split; reflexivity. Qed.

(* non-vacuity of the composed statement: an object with the table above (ELF64 LSB) and a RELA table whose
   entries refer to symbols 1, 4, 2, 3; after arranging and applying the log they refer to 4, 2, 1, 3 —
   the positions the same symbols have in the arranged table *)
Example C10_relocations_example :
  let symtab := with_entsize (with_type (set_data true (new_section C64) (concat (map (enc_sym C64 LSB) ex_syms))) SHT_SYMTAB) 24 in
  let mk := mkRelEntry in
  let es := [mk 0 1 1 0; mk 8 4 1 0; mk 16 2 2 5; mk 24 3 1 0] in
  let rela := with_entsize (with_type (set_data true (new_section C64) (concat (map (rel_enc C64 LSB true) es))) SHT_RELA) 24 in
  let el := with_secs (with_hdr (empty_elfio false) (Some (new_header C64 LSB))) [symtab; rela] in
  match arrange_local_symbols (fun _ => 0) el 0 with
  | Ok (el2, r, log) =>
      r = 3 /\ log = [(1, 2); (2, 4)] /\
      match apply_log (fun _ => 0) 1 log (Ok el2) with
      | Ok el3 => option_map contents (get_sec el3 1) =
                  Some (concat (map (rel_enc C64 LSB true) [mk 0 4 1 0; mk 8 2 1 0; mk 16 1 2 5; mk 24 3 1 0]))
      | Fault _ => False
      end
  | Fault _ => False
  end.
Proof. vm_compute. repeat split; reflexivity. Qed.
