(* Properties_C10.v — C10: arranging local symbols partitions the table, keeps
   the same symbols, and its swap log keeps every symbol index on target. *)
From ElfioV Require Import Bytes Mem Stream SectionData Strings Elfio Table Accessors Arrange_proofs.
From Coq Require Import Permutation.
Local Open Scope N_scope.

(* For every symbol table (either class, either byte order, any bytes [tl]
   after the last whole entry) whose bytes are resident, arrange_local_symbols
   returns r and leaves a table syms' such that: syms' is a permutation of
   syms; the null symbol stays first; every symbol at 1..r-1 is local and every
   symbol from r on is not; the section's info field is r; and looking a symbol
   index q up after applying the logged swaps (what the callback forwards to a
   relocation table) finds the symbol that was at q before. *)
Theorem C10_arrange_partitions :
  forall junk el symsec el1 s s1 c e (syms : list sym) tl,
    let esz := layout_sz (sym_layout c) in
    let tb := fun l => concat (map (enc_sym c e) l) ++ tl in
    sec_data junk el symsec = Ok (el1, Some (tb syms), s) ->
    acls el1 = c -> sh_entsize s = esz -> get_symbols_num el1 s = lenN syms ->
    get_sec el1 symsec = Some s1 ->
    1 <= lenN syms -> lenN syms * esz < 2 ^ 64 ->
    exists el2 s2 syms' r log,
      arrange_local_symbols junk el symsec = Ok (el2, r, log) /\
      get_sec el2 symsec = Some s2 /\ s_data s2 = Some (tb syms') /\ sh_info s2 = wrap32 r /\
      Permutation syms' syms /\ lenN syms' = lenN syms /\ nth_optN syms' 0 = nth_optN syms 0 /\
      1 <= r /\ r <= lenN syms /\
      (forall k x, 1 <= k -> k < r -> nth_optN syms' k = Some x -> sym_is_local x = true) /\
      (forall k x, r <= k -> nth_optN syms' k = Some x -> sym_is_local x = false) /\
      (forall q, nth_optN syms' (retarget log q) = nth_optN syms q).
Proof. exact arrange_local_symbols_correct. Qed.
Print Assumptions C10_arrange_partitions.

(* the same statement for the loop alone, on the bytes of the table *)
Theorem C10_loop_partitions :
  forall c e (syms : list sym) tl,
    let esz := layout_sz (sym_layout c) in
    let tb := fun l => concat (map (enc_sym c e) l) ++ tl in
    1 <= lenN syms -> lenN syms * esz < 2 ^ 64 ->
    exists syms' r log,
      arrange_loop (0 :: 0 :: tb syms) (Some (tb syms)) c esz (lenN syms) 1 [] = Ok (Some (tb syms'), r, log) /\
      Permutation syms' syms /\ lenN syms' = lenN syms /\ nth_optN syms' 0 = nth_optN syms 0 /\
      1 <= r /\ r <= lenN syms /\
      (forall k x, 1 <= k -> k < r -> nth_optN syms' k = Some x -> sym_is_local x = true) /\
      (forall k x, r <= k -> nth_optN syms' k = Some x -> sym_is_local x = false) /\
      (forall q, nth_optN syms' (retarget log q) = nth_optN syms q).
Proof. exact arrange_symbols_correct. Qed.
Print Assumptions C10_loop_partitions.

(* non-vacuity: null, global, local, weak, local *)
Definition ex_syms : list sym :=
  [mkSym 0 0 0 0 0 0; mkSym 1 16 4 18 0 1; mkSym 5 32 4 2 0 1; mkSym 9 48 0 33 0 2; mkSym 13 64 8 1 0 1].
Example C10_example :
  let tb := fun l => concat (map (enc_sym C32 MSB) l) ++ [7; 7; 7] in
  arrange_loop (0 :: 0 :: tb ex_syms) (Some (tb ex_syms)) C32 16 5 1 [] =
    Ok (Some (tb [mkSym 0 0 0 0 0 0; mkSym 5 32 4 2 0 1; mkSym 13 64 8 1 0 1; mkSym 9 48 0 33 0 2; mkSym 1 16 4 18 0 1]),
        3, [(1, 2); (2, 4)]) /\
  retarget [(1, 2); (2, 4)] 1 = 4 /\ retarget [(1, 2); (2, 4)] 4 = 2 /\ retarget [(1, 2); (2, 4)] 3 = 3.
Proof. vm_compute. repeat split; reflexivity. Qed.
