(* Segment_proofs.v — C04, segment clauses, for the basic case: a segment whose
   member sections are allocated, hold file data, and get their addresses from
   the writer (automatic addresses).  The members are laid out one after the
   other, each aligned, at the same distance from the segment start in the file
   as in memory; the segment's file size and memory size cover them. *)
From ElfioV Require Import Bytes Mem Stream SectionData Strings Elfio Table Loader Layout Layout_proofs.
From Coq Require Import ZifyBool ZifyN ZifyNat.
Local Open Scope N_scope.

(* a member the writer places itself *)
Definition auto_member (s : section) : Prop :=
  s_index s <> 0 /\ sh_type s <> SHT_NULL /\ sh_type s <> SHT_NOBITS /\ s_addr_set s = false /\
  N.land (sh_flags s) SHF_ALLOC = SHF_ALLOC /\ N.land (sh_flags s) SHF_TLS <> SHF_TLS.

Definition eff_align (s : section) : N := if sh_addralign s =? 0 then 1 else sh_addralign s.

Lemma sub64_id a b : b <= a -> a < 2 ^ 64 -> sub64 a b = a - b.
Proof.
  intros Hb Ha. unfold sub64, wrap64, wrap. rewrite (N.mod_small b) by lia.
  replace (a + (2 ^ 64 - b)) with ((a - b) + 1 * 2 ^ 64) by lia. rewrite N.mod_add by lia. apply N.mod_small. lia.
Qed.

(* one member: where it goes and what the running sums become *)
Lemma write_seg_step_auto g seg_start w index sec bound :
  nth_optN (ws_secs w) index = Some sec -> auto_member sec -> nth_optN (ws_gen w) index = Some false ->
  bound <= 2 ^ xw (s_cls sec) -> bound <= 2 ^ 64 ->
  seg_start <= ws_pos w -> ws_pos w + eff_align sec + sh_size sec < bound ->
  p_vaddr g + ws_pos w + eff_align sec + sh_size sec < bound ->
  ws_mem w + eff_align sec + sh_size sec < bound -> ws_fsz w + eff_align sec + sh_size sec < bound ->
  let pad := (eff_align sec - ws_pos w mod eff_align sec) mod eff_align sec in
  let off := ws_pos w + pad in
  let sec' := with_offset (with_addr sec (p_vaddr g + ws_pos w + pad - seg_start)) off in
  write_seg_step g seg_start w index =
    Ok (Some (mkW (updN (ws_secs w) index sec') (gen_set (ws_gen w) index) (off + sh_size sec)
                  (ws_mem w + (sh_size sec + pad)) (ws_fsz w + (sh_size sec + pad)))) /\
  off mod eff_align sec = 0 /\ ws_pos w <= off /\ pad < eff_align sec /\
  sh_offset sec' = off /\ sh_addr sec' = p_vaddr g + ws_pos w + pad - seg_start /\ sh_size sec' = sh_size sec.
Proof.
  intros Hn (Hi & Ht1 & Ht2 & Ha & Hal & Htls) Hg Hb Hb64 Hss Hp Hv Hm Hf. cbv zeta.
  set (al := eff_align sec) in *.
  assert (Hal0 : 0 < al) by (unfold al, eff_align; destruct (N.eqb_spec (sh_addralign sec) 0); lia).
  set (pad := (al - ws_pos w mod al) mod al).
  assert (Hpad : pad < al) by (apply N.mod_lt; lia).
  assert (Hoff : (ws_pos w + pad) mod al = 0).
  { unfold pad. pose proof (N.mod_lt (ws_pos w) al ltac:(lia)) as Hr.
    destruct (N.eq_dec (ws_pos w mod al) 0) as [E|E].
    - rewrite E, N.sub_0_r, N.mod_same by lia. now rewrite N.add_0_r.
    - rewrite (N.mod_small (al - ws_pos w mod al)) by lia.
      assert (E2 : ws_pos w + (al - ws_pos w mod al) = (ws_pos w / al + 1) * al).
      { pose proof (N.div_mod (ws_pos w) al ltac:(lia)). nia. }
      rewrite E2. apply N.mod_mul. lia. }
  unfold write_seg_step. rewrite Hn.
  apply N.eqb_neq in Ht1. rewrite Ht1.
  unfold gen_get. rewrite Hg. cbn [bind]. rewrite Ha. cbn [negb andb].
  fold (eff_align sec). fold al. fold pad. cbn [bind]. clearbody pad. clearbody al.
  apply N.eqb_neq in Ht2. rewrite Ht2. cbn [negb].
  assert (Eal : (N.land (sh_flags sec) SHF_ALLOC =? SHF_ALLOC) = true) by (apply N.eqb_eq; exact Hal).
  assert (Etl : (N.land (sh_flags sec) SHF_TLS =? SHF_TLS) = false) by (apply N.eqb_neq; exact Htls).
  rewrite Eal, Etl. cbn [andb negb].
  assert (P1 : add64 (ws_pos w) pad = ws_pos w + pad) by (apply add64_id; lia). rewrite !P1.
  assert (P2 : add64 (p_vaddr g) (ws_pos w + pad) = p_vaddr g + (ws_pos w + pad)) by (apply add64_id; lia). rewrite !P2.
  assert (Eaddr : sub64 (p_vaddr g + (ws_pos w + pad)) seg_start = p_vaddr g + (ws_pos w + pad) - seg_start) by (apply sub64_id; lia).
  rewrite !Eaddr.
  cbn [s_index with_addr with_offset sh_type sh_size].
  assert (Ei : (s_index sec =? 0) = false) by (apply N.eqb_neq; exact Hi). rewrite !Ei.
  cbn [s_index with_addr with_offset sh_type sh_size]. rewrite Ht2. cbn [negb].
  assert (P3 : add64 (sh_size sec) pad = sh_size sec + pad) by (apply add64_id; lia). rewrite !P3.
  rewrite !add64_id by lia.
  replace (p_vaddr g + (ws_pos w + pad) - seg_start) with (p_vaddr g + ws_pos w + pad - seg_start) by lia.
  split; [reflexivity|]. split; [exact Hoff|]. split; [lia|]. split; [exact Hpad|].
  split; [cbn; unfold wrap; apply N.mod_small; lia|]. split; [|reflexivity].
  cbn. unfold wrap. apply N.mod_small. lia.
Qed.

(* the members of a segment, in listing order, as found in the final section list *)
Fixpoint mchain (g : segment) (seg_start : N) (secs' : list section) (idxs : list N) (lo hi : N) : Prop :=
  match idxs with
  | [] => lo <= hi
  | i :: t => exists s, nth_optN secs' i = Some s /\ lo <= sh_offset s /\ sh_offset s mod eff_align s = 0 /\
                        sh_addr s = p_vaddr g + (sh_offset s - seg_start) /\ seg_start <= sh_offset s /\
                        mchain g seg_start secs' t (sh_offset s + sh_size s) hi
  end.

Definition mbudget (ms : list section) : N := fold_right (fun s acc => eff_align s + sh_size s + acc) 0 ms.

Lemma mchain_frame g seg_start secs1 secs2 idxs lo hi :
  (forall i, In i idxs -> nth_optN secs2 i = nth_optN secs1 i) -> mchain g seg_start secs1 idxs lo hi -> mchain g seg_start secs2 idxs lo hi.
Proof.
  revert lo; induction idxs as [|i t IH]; intros lo Hf H; cbn [mchain] in *; [exact H|].
  destruct H as (s & H1 & H2 & H3 & H4 & H5 & H6). exists s. rewrite (Hf i (or_introl eq_refl)).
  repeat split; try assumption. apply IH; [|exact H6]. intros j Hj. apply Hf. now right.
Qed.

Lemma eff_align_with s a o : eff_align (with_offset (with_addr s a) o) = eff_align s.
Proof. reflexivity. Qed.

(* a member as the first pass leaves it: address recorded *)
Definition placed_member (s : section) : Prop :=
  s_index s <> 0 /\ sh_type s <> SHT_NULL /\ sh_type s <> SHT_NOBITS /\ s_addr_set s = true /\ sh_size s <> 0 /\
  N.land (sh_flags s) SHF_ALLOC = SHF_ALLOC /\ N.land (sh_flags s) SHF_TLS <> SHF_TLS /\ sh_offset s < 2 ^ xw (s_cls s).

(* the end of the last member *)
Fixpoint mend (secs' : list section) (idxs : list N) (lo : N) : N :=
  match idxs with
  | [] => lo
  | i :: t => match nth_optN secs' i with Some s => mend secs' t (sh_offset s + sh_size s) | None => lo end
  end.

Theorem write_segment_data_auto g seg_start bound : forall idxs ms w,
  NoDup idxs -> Forall2 (fun i s => nth_optN (ws_secs w) i = Some s) idxs ms ->
  Forall auto_member ms -> Forall (fun s => bound <= 2 ^ xw (s_cls s)) ms ->
  (forall i, In i idxs -> nth_optN (ws_gen w) i = Some false) ->
  bound <= 2 ^ 64 ->
  ws_pos w = seg_start + ws_fsz w -> ws_mem w = ws_fsz w ->
  p_vaddr g + ws_pos w + mbudget ms < bound ->
  exists w',
    write_segment_data g seg_start idxs w = Ok (w', true) /\
    ws_pos w' = seg_start + ws_fsz w' /\ ws_mem w' = ws_fsz w' /\ ws_pos w <= ws_pos w' /\
    ws_pos w' <= ws_pos w + mbudget ms /\
    mchain g seg_start (ws_secs w') idxs (ws_pos w) (ws_pos w') /\
    (forall j, ~ In j idxs -> nth_optN (ws_secs w') j = nth_optN (ws_secs w) j) /\
    lenN (ws_secs w') = lenN (ws_secs w) /\
    ws_pos w' = mend (ws_secs w') idxs (ws_pos w) /\
    (Forall (fun s => sh_size s <> 0) ms -> forall i, In i idxs -> exists s, nth_optN (ws_secs w') i = Some s /\ placed_member s) /\
    Forall2 (fun i s => exists a o, nth_optN (ws_secs w') i = Some (with_offset (with_addr s a) o)) idxs ms.
Proof.
  induction idxs as [|i t IH]; intros ms w Hnd HF Hauto Hcls Hgen Hb64 Hpos Hmem Hbud.
  - inversion HF; subst. cbn [write_segment_data mchain mbudget fold_right mend]. exists w.
    split; [reflexivity|]. split; [exact Hpos|]. split; [exact Hmem|]. split; [lia|]. split; [lia|]. split; [lia|].
    split; [auto|]. split; [reflexivity|]. split; [reflexivity|]. split; [intros _ i []|constructor].
  - inversion HF as [|? sec ? mt Hsec HFt]; subst. inversion Hauto as [|? ? Ha Hat]; subst.
    inversion Hcls as [|? ? Hc Hct]; subst. inversion Hnd as [|? ? Hni Hndt]; subst.
    cbn [mbudget fold_right] in Hbud. fold (mbudget mt) in Hbud.
    cbn [write_segment_data].
    destruct (write_seg_step_auto g seg_start w i sec bound Hsec Ha (Hgen i (or_introl eq_refl)) Hc Hb64)
      as (E & Hal & Hle & Hpad & Eo & Ea & Ez); try lia.
    cbv zeta in *. rewrite E. cbn [bind].
    set (pad := (eff_align sec - ws_pos w mod eff_align sec) mod eff_align sec) in *.
    set (off := ws_pos w + pad) in *.
    set (sec' := with_offset (with_addr sec (p_vaddr g + ws_pos w + pad - seg_start)) off) in *.
    set (w1 := mkW (updN (ws_secs w) i sec') (gen_set (ws_gen w) i) (off + sh_size sec) (ws_mem w + (sh_size sec + pad)) (ws_fsz w + (sh_size sec + pad))).
    assert (Hi_lt : i < lenN (ws_secs w)) by (now apply nth_optN_lt in Hsec).
    destruct (IH mt w1 Hndt) as (w' & -> & P1 & P2 & P3 & P4 & P5 & P6 & P7 & P8 & P9 & P10).
    + (* the remaining members are still where they were *)
      clear - HFt Hni. revert Hni. induction HFt as [|j s jt st Hj Hrest IHF]; intros Hni; constructor.
      * cbn [ws_secs w1]. rewrite nth_optN_updN_other; [exact Hj|]. intro; subst; apply Hni; now left.
      * apply IHF. intro; apply Hni; now right.
    + exact Hat.
    + exact Hct.
    + intros j Hj. cbn [ws_gen w1]. unfold gen_set. rewrite nth_optN_updN_other; [apply Hgen; now right|].
      intro; subst; contradiction.
    + exact Hb64.
    + cbn [ws_pos ws_fsz w1]. unfold off. lia.
    + cbn [ws_mem ws_fsz w1]. lia.
    + cbn [ws_pos w1]. unfold off. lia.
    + exists w'. split; [reflexivity|]. split; [exact P1|]. split; [exact P2|].
      cbn [ws_pos w1] in P3, P4, P5. split; [unfold off in *; lia|].
      split; [cbn [mbudget fold_right]; fold (mbudget mt); unfold off in *; lia|].
      split; [|split].
      * cbn [mchain]. exists sec'. split.
        { rewrite (P6 i Hni). cbn [ws_secs w1]. now apply nth_optN_updN_same. }
        rewrite Eo. split; [lia|]. split; [exact Hal|]. split; [rewrite Ea; unfold off; lia|]. split; [unfold off; lia|].
        rewrite Ez. exact P5.
      * intros j Hj. rewrite P6 by (intro; apply Hj; now right). cbn [ws_secs w1].
        apply nth_optN_updN_other. intro; subst; apply Hj; now left.
      * split; [rewrite P7; cbn [ws_secs w1]; apply lenN_updN|].
        assert (Hfin : nth_optN (ws_secs w') i = Some sec').
        { rewrite (P6 i Hni). cbn [ws_secs w1]. now apply nth_optN_updN_same. }
        split; [|split].
        -- cbn [mend]. rewrite Hfin, Eo, Ez. exact P8.
        -- intros Hnz j [<-|Hj].
           ++ exists sec'. split; [exact Hfin|]. inversion Hnz as [|? ? Hz1 Hz2]; subst.
              destruct Ha as (A1 & A2 & A3 & A4 & A5 & A6).
              unfold placed_member. rewrite Eo. unfold sec'.
              cbn [s_index sh_type s_addr_set sh_size sh_flags s_cls with_offset with_addr].
              repeat split; try assumption; try reflexivity. unfold off. lia.
           ++ inversion Hnz as [|? ? Hz1 Hz2]; subst. exact (P9 Hz2 j Hj).
        -- constructor; [eexists _, _; exact Hfin|exact P10].
Qed.

(* ---------- where the segment starts: file offset congruent to the address ---------- *)
Lemma seg_start_congruent pos vaddr palign :
  let align := if 0 <? palign then palign else 1 in
  pos + align < 2 ^ 64 -> palign < 2 ^ 63 ->
  let pos1 := add64 pos ((add64 palign (sub64 (vaddr mod align) (pos mod align))) mod align) in
  pos <= pos1 /\ pos1 < pos + align /\ pos1 mod align = vaddr mod align.
Proof.
  cbv zeta. intros Hb Hp. destruct (N.ltb_spec 0 palign) as [Hpos|Hz].
  - cbv beta iota in *. set (a := palign) in *. set (c := pos mod a). set (r := vaddr mod a).
    assert (Hc : c < a) by (apply N.mod_lt; lia). assert (Hr : r < a) by (apply N.mod_lt; lia).
    assert (E : add64 a (sub64 r c) mod a = (a + r - c) mod a).
    { destruct (N.le_gt_cases c r) as [Hle|Hgt].
      - rewrite sub64_id by lia. rewrite add64_id by lia. f_equal. lia.
      - unfold sub64, add64, wrap64, wrap. rewrite (N.mod_small c) by lia.
        rewrite (N.mod_small (r + (2 ^ 64 - c))) by lia.
        replace (a + (r + (2 ^ 64 - c))) with ((a + r - c) + 1 * 2 ^ 64) by lia.
        rewrite N.mod_add by lia. rewrite (N.mod_small (a + r - c)) by lia. reflexivity. }
    rewrite E.
    assert (Hm : (a + r - c) mod a < a) by (apply N.mod_lt; lia).
    rewrite add64_id by lia. split; [lia|]. split; [lia|].
    (* pos = a*q + c ; pos1 = pos + ((a + r - c) mod a) *)
    pose proof (N.div_mod pos a ltac:(lia)) as Hd. fold c in Hd.
    destruct (N.le_gt_cases c r) as [Hle|Hgt].
    + replace ((a + r - c) mod a) with (r - c).
      2:{ replace (a + r - c) with ((r - c) + 1 * a) by lia. rewrite N.mod_add by lia. symmetry. apply N.mod_small. lia. }
      replace (pos + (r - c)) with (r + (pos / a) * a) by lia. rewrite N.mod_add by lia. apply N.mod_small. exact Hr.
    + rewrite (N.mod_small (a + r - c)) by lia.
      replace (pos + (a + r - c)) with (r + (pos / a + 1) * a) by lia. rewrite N.mod_add by lia. apply N.mod_small. exact Hr.
  - assert (palign = 0) by lia. subst palign. cbv beta iota in *. rewrite !N.mod_1_r.
    rewrite add64_id by lia. repeat split; lia.
Qed.

(* ---------- one segment of automatically addressed members ---------- *)
Lemma firstnN_all' {A} (l : list A) n : lenN l <= n -> firstnN l n = l.
Proof. apply firstnN_all. Qed.

Theorem layout_one_segment_auto h g secs gen pos bound ms :
  let idxs := g_sections g in
  let align := if 0 <? p_align g then p_align g else 1 in
  lenN idxs < 2 ^ 16 -> idxs <> [] ->
  g_offset_set g = false -> p_type g <> PT_PHDR ->
  NoDup idxs -> Forall2 (fun i s => nth_optN secs i = Some s) idxs ms ->
  Forall auto_member ms -> Forall (fun s => bound <= 2 ^ xw (s_cls s)) ms ->
  (forall i, In i idxs -> nth_optN gen i = Some false) ->
  bound <= 2 ^ 64 -> bound <= 2 ^ xw (g_cls g) -> p_align g < 2 ^ 63 ->
  p_vaddr g + pos + align + mbudget ms < bound ->
  exists g' secs' gen' pos' seg_start,
    layout_one_segment h g secs gen pos = Ok (g', secs', gen', pos', true) /\
    pos <= seg_start /\ seg_start < pos + align /\
    seg_start mod align = p_vaddr g mod align /\                 (* file offset = address (mod alignment) *)
    p_offset g' = seg_start /\ p_vaddr g' = p_vaddr g /\
    p_filesz g' = pos' - seg_start /\ p_filesz g' <= p_memsz g' /\
    mchain g seg_start secs' idxs seg_start pos' /\               (* members: aligned, in order, file distance = memory distance *)
    (forall j, ~ In j idxs -> nth_optN secs' j = nth_optN secs j) /\ lenN secs' = lenN secs /\
    (g_sections g' = g_sections g /\ g_offset_set g' = true /\ p_align g' = p_align g /\ p_type g' = p_type g /\ g_cls g' = g_cls g /\
     g_index g' = g_index g /\ p_flags g' = p_flags g /\ p_paddr g' = p_paddr g) /\
    pos' = mend secs' idxs seg_start /\
    (Forall (fun s => sh_size s <> 0) ms -> forall i, In i idxs -> exists s, nth_optN secs' i = Some s /\ placed_member s) /\
    seg_start = add64 pos ((add64 (p_align g) (sub64 (p_vaddr g mod align) (pos mod align))) mod align) /\
    pos' <= seg_start + mbudget ms /\
    Forall2 (fun i s => exists a o, nth_optN secs' i = Some (with_offset (with_addr s a) o)) idxs ms.
Proof.
  cbv zeta. intros Hlen Hne Hos Hty Hnd HF Hauto Hcls Hgen Hb64 Hbg Hal Hbud.
  set (align := if 0 <? p_align g then p_align g else 1) in *.
  assert (Ha1 : 1 <= align) by (unfold align; destruct (N.ltb_spec 0 (p_align g)); lia).
  unfold layout_one_segment.
  assert (Hn : seg_sections_num g = lenN (g_sections g)).
  { unfold seg_sections_num, wrap16, wrap. apply N.mod_small. exact Hlen. }
  rewrite Hn, firstnN_all by lia.
  assert (Hpos_n : 0 < lenN (g_sections g)).
  { destruct (g_sections g); [contradiction|rewrite lenN_cons; lia]. }
  assert (E1 : ((p_type g =? PT_PHDR) && (lenN (g_sections g) =? 0)) = false).
  { destruct (N.eqb_spec (lenN (g_sections g)) 0); [lia|]. now rewrite andb_false_r. }
  rewrite E1, Hos. cbn [andb].
  destruct (N.ltb_spec 0 (lenN (g_sections g))); [|lia].
  (* the first member has not been placed yet *)
  destruct (g_sections g) as [|i0 t0] eqn:Eg; [contradiction|].
  assert (Hfirst : seg_section_at g 0 = i0) by (unfold seg_section_at; rewrite Eg; reflexivity).
  rewrite Hfirst. unfold gen_get at 1. rewrite (Hgen i0 (or_introl eq_refl)). cbn [bind negb].
  fold align.
  destruct (seg_start_congruent pos (p_vaddr g) (p_align g)) as (S1 & S2 & S3); [fold align; lia|exact Hal|].
  cbv zeta in S1, S2, S3. fold align in S1, S2, S3.
  set (seg_start := add64 pos (add64 (p_align g) (sub64 (p_vaddr g mod align) (pos mod align)) mod align)) in *.
  cbn [bind].
  destruct (write_segment_data_auto g seg_start bound (i0 :: t0) ms (mkW secs gen seg_start 0 0) Hnd HF Hauto Hcls Hgen Hb64)
    as (w' & -> & P1 & P2 & P3 & P4 & P5 & P6 & P7 & P8 & P9 & P10); [cbn; lia|reflexivity|cbn [ws_pos]; lia|].
  cbn [bind ws_pos ws_secs] in *.
  assert (Hdef : seg_start = add64 pos ((add64 (p_align g) (sub64 (p_vaddr g mod align) (pos mod align))) mod align)) by reflexivity.
  clearbody seg_start.
  assert (Hfs : ws_fsz w' = ws_pos w' - seg_start) by lia.
  assert (Hfb : ws_fsz w' < 2 ^ xw (g_cls g)) by lia.
  assert (W : forall v, v < bound -> wrap (xw (g_cls g)) v = v) by (intros v Hv; unfold wrap; apply N.mod_small; lia).
  destruct (N.ltb_spec (p_memsz (seg_set g GFilesz (ws_fsz w'))) (ws_mem w')) as [Hlt|Hge].
  - eexists _, _, _, _, seg_start. split; [reflexivity|].
    split; [exact S1|]. split; [exact S2|]. split; [exact S3|].
    cbn [p_offset p_vaddr p_filesz p_memsz seg_set g_cls g_sections g_offset_set p_align p_type g_index p_flags p_paddr].
    rewrite !W by lia. repeat split; try lia; try assumption; try reflexivity.
  - eexists _, _, _, _, seg_start. split; [reflexivity|].
    split; [exact S1|]. split; [exact S2|]. split; [exact S3|].
    cbn [p_offset p_vaddr p_filesz p_memsz seg_set g_cls g_sections g_offset_set p_align p_type g_index p_flags p_paddr] in *.
    rewrite !W in * by lia. repeat split; try lia; try assumption; try reflexivity.
Qed.

Lemma mchain_bounds g ss secs' idxs : forall lo hi, mchain g ss secs' idxs lo hi -> lo <= hi.
Proof.
  induction idxs as [|i t IH]; intros lo hi H; cbn [mchain] in H; [exact H|].
  destruct H as (s & _ & H2 & _ & _ & _ & H6). apply IH in H6. lia.
Qed.

(* what the chain says about each member *)
Theorem mchain_member g ss secs' idxs : forall lo hi i, mchain g ss secs' idxs lo hi -> In i idxs ->
  exists s, nth_optN secs' i = Some s /\ lo <= sh_offset s /\ sh_offset s + sh_size s <= hi /\
            sh_offset s mod eff_align s = 0 /\ sh_addr s - p_vaddr g = sh_offset s - ss /\ p_vaddr g <= sh_addr s.
Proof.
  induction idxs as [|j t IH]; intros lo hi i H Hin; [contradiction|]. cbn [mchain] in H.
  destruct H as (s & H1 & H2 & H3 & H4 & H5 & H6). destruct Hin as [->|Hin].
  - exists s. pose proof (mchain_bounds _ _ _ _ _ _ H6). repeat split; try assumption; lia.
  - destruct (IH _ _ i H6 Hin) as (s' & A1 & A2 & A3 & A4 & A5 & A6). exists s'. repeat split; try assumption; lia.
Qed.

(* ---------- the second pass over a segment that has been laid out (C06) ---------- *)
Lemma write_seg_step_placed g seg_start w index sec :
  nth_optN (ws_secs w) index = Some sec -> placed_member sec -> nth_optN (ws_gen w) index = Some false ->
  seg_start <= ws_pos w -> ws_pos w <= sh_offset sec -> p_vaddr g <= sh_addr sec ->
  sh_addr sec - p_vaddr g = sh_offset sec - seg_start ->
  sh_addr sec < 2 ^ 64 -> sh_offset sec + sh_size sec < 2 ^ 64 ->
  ws_mem w + sh_offset sec + sh_size sec < 2 ^ 64 -> ws_fsz w + sh_offset sec + sh_size sec < 2 ^ 64 ->
  write_seg_step g seg_start w index =
    Ok (Some (mkW (updN (ws_secs w) index sec) (gen_set (ws_gen w) index) (sh_offset sec + sh_size sec)
                  (ws_mem w + (sh_size sec + (sh_offset sec - ws_pos w))) (ws_fsz w + (sh_size sec + (sh_offset sec - ws_pos w))))).
Proof.
  intros Hn (Hi & Ht1 & Ht2 & Ha & Hz & Hal & Htls & Ho) Hg Hss Hle Hva Hd Ha64 Hb1 Hb2 Hb3.
  unfold write_seg_step. rewrite Hn.
  apply N.eqb_neq in Ht1. rewrite Ht1. unfold gen_get. rewrite Hg. cbn [bind]. rewrite Ha.
  apply N.eqb_neq in Ht2. rewrite Ht2. apply N.eqb_neq in Hz. rewrite Hz. cbn [negb andb].
  rewrite (sub64_id (sh_addr sec) (p_vaddr g)) by lia. rewrite (sub64_id (ws_pos w) seg_start) by lia.
  destruct (N.ltb_spec (sh_addr sec - p_vaddr g) (ws_pos w - seg_start)); [lia|].
  rewrite (sub64_id (sh_addr sec - p_vaddr g) (ws_pos w - seg_start)) by lia. cbn [bind].
  assert (Eal : (N.land (sh_flags sec) SHF_ALLOC =? SHF_ALLOC) = true) by (apply N.eqb_eq; exact Hal).
  assert (Etl : (N.land (sh_flags sec) SHF_TLS =? SHF_TLS) = false) by (apply N.eqb_neq; exact Htls).
  rewrite Eal, Etl. cbn [andb negb].
  set (pad := sh_addr sec - p_vaddr g - (ws_pos w - seg_start)).
  assert (Hpad : pad = sh_offset sec - ws_pos w) by (unfold pad; lia). clearbody pad. subst pad.
  assert (P1 : add64 (ws_pos w) (sh_offset sec - ws_pos w) = sh_offset sec) by (rewrite add64_id by lia; lia).
  rewrite !P1.
  assert (Ei : (s_index sec =? 0) = false) by (apply N.eqb_neq; exact Hi). rewrite Ei.
  assert (Eo : with_offset sec (sh_offset sec) = sec).
  { destruct sec; cbn in *. unfold with_offset; cbn. f_equal. unfold wrap. now apply N.mod_small. }
  rewrite Eo, Ht2. cbn [negb].
  rewrite (add64_id (sh_size sec) (sh_offset sec - ws_pos w)) by lia.
  rewrite (add64_id (ws_mem w)) by lia. rewrite (add64_id (ws_fsz w)) by lia. rewrite (add64_id (sh_offset sec)) by lia. reflexivity.
Qed.

Lemma updN_same_value {A} (l : list A) i x : nth_optN l i = Some x -> updN l i x = l.
Proof.
  revert i; induction l as [|y t IH]; intros i H; cbn [nth_optN updN] in *; [reflexivity|].
  destruct (i =? 0); [now injection H as ->|]. f_equal. now apply IH.
Qed.

Theorem write_segment_data_placed g seg_start : forall idxs w,
  NoDup idxs ->
  (forall i, In i idxs -> nth_optN (ws_gen w) i = Some false) ->
  (forall i, In i idxs -> exists s, nth_optN (ws_secs w) i = Some s /\ placed_member s) ->
  mchain g seg_start (ws_secs w) idxs (ws_pos w) (mend (ws_secs w) idxs (ws_pos w)) ->
  seg_start <= ws_pos w -> ws_mem w = ws_fsz w -> ws_pos w = seg_start + ws_fsz w ->
  p_vaddr g + mend (ws_secs w) idxs (ws_pos w) < 2 ^ 63 ->
  exists gen',
    write_segment_data g seg_start idxs w =
      Ok (mkW (ws_secs w) gen' (mend (ws_secs w) idxs (ws_pos w))
              (mend (ws_secs w) idxs (ws_pos w) - seg_start) (mend (ws_secs w) idxs (ws_pos w) - seg_start), true).
Proof.
  induction idxs as [|i t IH]; intros w Hnd Hgen Hpl Hch Hss Hmf Hpf Hb.
  - cbn [write_segment_data mend]. exists (ws_gen w). destruct w; cbn in *. subst. repeat f_equal; lia.
  - inversion Hnd as [|? ? Hni Hndt]; subst. cbn [mchain mend] in Hch, Hb.
    destruct Hch as (s & Hs & C1 & C2 & C3 & C4 & C5). rewrite Hs in Hb, C5.
    destruct (Hpl i (or_introl eq_refl)) as (s' & Hs' & Hp). rewrite Hs in Hs'. injection Hs' as <-.
    pose proof (mchain_bounds _ _ _ _ _ _ C5) as Hend.
    cbn [write_segment_data mend]. rewrite Hs.
    rewrite (write_seg_step_placed g seg_start w i s Hs Hp (Hgen i (or_introl eq_refl))); try lia.
    cbn [bind]. rewrite (updN_same_value _ _ _ Hs).
    set (w1 := mkW (ws_secs w) (gen_set (ws_gen w) i) (sh_offset s + sh_size s)
                   (ws_mem w + (sh_size s + (sh_offset s - ws_pos w))) (ws_fsz w + (sh_size s + (sh_offset s - ws_pos w)))).
    destruct (IH w1 Hndt) as (gen' & ->).
    + intros j Hj. cbn [ws_gen w1]. unfold gen_set. rewrite nth_optN_updN_other; [apply Hgen; now right|]. intro; subst; contradiction.
    + intros j Hj. apply Hpl. now right.
    + exact C5.
    + cbn [ws_pos w1]. lia.
    + cbn [ws_mem ws_fsz w1]. lia.
    + cbn [ws_pos ws_fsz w1]. lia.
    + cbn [ws_pos ws_secs w1]. exact Hb.
    + exists gen'. reflexivity.
Qed.

Lemma mchain_same_vaddr g g' ss secs' idxs : p_vaddr g' = p_vaddr g ->
  forall lo hi, mchain g ss secs' idxs lo hi -> mchain g' ss secs' idxs lo hi.
Proof.
  intros Hv. induction idxs as [|i t IH]; intros lo hi H; cbn [mchain] in *; [exact H|].
  destruct H as (s & H1 & H2 & H3 & H4 & H5 & H6). exists s. rewrite Hv. repeat split; try assumption. now apply IH.
Qed.

Lemma mchain_mend_le g ss secs' idxs : forall lo hi, mchain g ss secs' idxs lo hi -> mend secs' idxs lo <= hi /\ lo <= mend secs' idxs lo.
Proof.
  induction idxs as [|i t IH]; intros lo hi H; cbn [mchain mend] in *; [lia|].
  destruct H as (s & H1 & H2 & _ & _ & _ & H6). rewrite H1. destruct (IH _ _ H6). lia.
Qed.

Lemma mchain_tighten g ss secs' idxs : forall lo hi, mchain g ss secs' idxs lo hi -> mchain g ss secs' idxs lo (mend secs' idxs lo).
Proof.
  induction idxs as [|i t IH]; intros lo hi H; cbn [mchain mend] in *; [lia|].
  destruct H as (s & H1 & H2 & H3 & H4 & H5 & H6). exists s. rewrite H1. repeat split; try assumption. now apply (IH _ hi).
Qed.

Lemma seg_set_noop g :
  g_offset_set g = true -> p_filesz g < 2 ^ xw (g_cls g) -> p_offset g < 2 ^ xw (g_cls g) ->
  seg_set (seg_set g GFilesz (p_filesz g)) GOffset (p_offset g) = g.
Proof.
  intros H1 H2 H3. destruct g; cbn in *. subst. unfold seg_set; cbn. unfold wrap. rewrite !N.mod_small by assumption. reflexivity.
Qed.

(* C06 for such a segment: laying it out again — fresh "generated" flags, same
   starting position — changes nothing *)
Theorem layout_one_segment_again h g secs gen pos bound ms g' secs' gen' pos' :
  let idxs := g_sections g in
  let align := if 0 <? p_align g then p_align g else 1 in
  lenN idxs < 2 ^ 16 -> idxs <> [] ->
  g_offset_set g = false -> p_type g <> PT_PHDR ->
  NoDup idxs -> Forall2 (fun i s => nth_optN secs i = Some s) idxs ms ->
  Forall auto_member ms -> Forall (fun s => bound <= 2 ^ xw (s_cls s)) ms -> Forall (fun s => sh_size s <> 0) ms ->
  (forall i, In i idxs -> nth_optN gen i = Some false) ->
  bound <= 2 ^ 63 -> bound <= 2 ^ xw (g_cls g) -> p_align g < 2 ^ 63 ->
  p_vaddr g + pos + align + mbudget ms < bound -> 0 < pos ->
  layout_one_segment h g secs gen pos = Ok (g', secs', gen', pos', true) ->
  exists gen'', layout_one_segment h g' secs' gen pos = Ok (g', secs', gen'', pos', true).
Proof.
  cbv zeta. intros Hlen Hne Hos Hty Hnd HF Hauto Hcls Hnz Hgen Hb63 Hbg Hal Hbud Hpos E.
  destruct (layout_one_segment_auto h g secs gen pos bound ms Hlen Hne Hos Hty Hnd HF Hauto Hcls Hgen ltac:(lia) Hbg Hal Hbud)
    as (g1 & secs1 & gen1 & pos1 & seg_start & E1 & S1 & S2 & S3 & O1 & V1 & F1 & M1 & Ch & Fr & Ln & (G1 & G2 & G3 & G4 & G5 & _) & Pe & Pl & Hdef & Hpb).
  cbv zeta in *. rewrite E in E1. injection E1 as <- <- <- <-.
  set (align := if 0 <? p_align g then p_align g else 1) in *.
  unfold layout_one_segment.
  assert (Hn : seg_sections_num g' = lenN (g_sections g)).
  { unfold seg_sections_num. rewrite G1. unfold wrap16, wrap. apply N.mod_small. exact Hlen. }
  rewrite Hn, G1, firstnN_all by lia.
  assert (E0 : ((p_type g' =? PT_PHDR) && (lenN (g_sections g) =? 0)) = false).
  { destruct (g_sections g); [contradiction|]. rewrite lenN_cons. destruct (N.eqb_spec (1 + lenN l) 0); [lia|]. now rewrite andb_false_r. }
  rewrite E0, G2, O1.
  destruct (N.eqb_spec seg_start 0); [lia|]. cbn [andb].
  destruct (N.ltb_spec 0 (lenN (g_sections g))) as [_|Hz]; [|destruct (g_sections g); [contradiction|rewrite lenN_cons in Hz; lia]].
  destruct (g_sections g) as [|i0 t0] eqn:Eg; [contradiction|].
  assert (Hfirst : seg_section_at g' 0 = i0) by (unfold seg_section_at; rewrite G1; reflexivity).
  rewrite Hfirst. unfold gen_get at 1. rewrite (Hgen i0 (or_introl eq_refl)). cbn [bind negb].
  rewrite G3, V1. fold align.
  rewrite <- Hdef. cbn [bind].
  (* the members are where the first pass put them *)
  specialize (Pl Hnz).
  assert (Hb : p_vaddr g' + mend secs' (i0 :: t0) seg_start < 2 ^ 63).
  { rewrite V1, <- Pe. lia. }
  destruct (write_segment_data_placed g' seg_start (i0 :: t0) (mkW secs' gen seg_start 0 0) Hnd) as (gen'' & ->).
  { exact Hgen. } { exact Pl. }
  { cbn [ws_secs ws_pos]. apply mchain_tighten with (hi := pos'). now apply (mchain_same_vaddr g g'). }
  { cbn; lia. } { reflexivity. } { cbn; lia. } { exact Hb. }
  cbn [bind ws_pos ws_secs ws_fsz ws_mem]. rewrite <- Pe.
  rewrite <- F1.
  destruct (N.ltb_spec (p_memsz (seg_set g' GFilesz (p_filesz g'))) (p_filesz g')) as [Hlt|Hge].
  { cbn [p_memsz seg_set] in Hlt. lia. }
  replace (seg_set (seg_set g' GFilesz (p_filesz g')) GOffset seg_start) with g'.
  { exists gen''. reflexivity. }
  symmetry. rewrite <- O1. apply seg_set_noop; [exact G2| |].
  - rewrite G5, F1. pose proof (mchain_bounds _ _ _ _ _ _ Ch). lia.
  - rewrite G5, O1. lia.
Qed.

