(* Properties_C09.v — C09: symbol tables round-trip; hash functions equal their ABI definitions. *)
From ElfioV Require Import Bytes Mem Stream SectionData SectionData_proofs Strings Elfio Table Accessors Symbols_proofs.
Local Open Scope N_scope.

(* field-level codec: ABI field order per class, values truncated to the field widths *)
Theorem C09_entry_codec : forall c e y, dec_sym c e (enc_sym c e y) = trunc_sym c y.
Proof. exact dec_enc_sym. Qed.
Print Assumptions C09_entry_codec.

(* adding symbols to an empty table: the null symbol comes first, the bytes
   are the concatenation of the ABI encodings *)
Theorem C09_adds_build_abi_table :
  forall (junk : N -> N) (xlat_empty : bool) c e s (ys : list sym),
    Inv s -> s_cls s = c -> sh_size s = 0 ->
    (lenN ys + 1) * sym_esz c < size_bound c ->
    exists s', append_all junk xlat_empty s (map (fun y => enc_sym c e (trunc_sym c y)) (mkSym 0 0 0 0 0 0 :: ys)) = Ok s' /\
      Inv s' /\ contents s' = sym_table c e (mkSym 0 0 0 0 0 0 :: ys) /\
      sh_size s' = (lenN ys + 1) * sym_esz c.
Proof. exact sym_adds_table. Qed.
Print Assumptions C09_adds_build_abi_table.

(* every symbol of such a table is returned unchanged by index (value and
   size truncated to 32 bits in ELF32) *)
Theorem C09_roundtrip_by_index :
  forall c e s (ys : list sym) j y,
    Inv s -> contents s = sym_table c e ys -> sh_entsize s = sym_esz c ->
    sh_size s < size_bound c -> nth_optN ys j = Some y ->
    sym_get_core c e s (s_data s) (lenN ys) j = Ok (Some (trunc_sym c y)).
Proof. exact sym_roundtrip. Qed.
Print Assumptions C09_roundtrip_by_index.

Theorem C09_out_of_range_refused :
  forall c e s p (ys : list sym) j, lenN ys <= j -> sym_get_core c e s p (lenN ys) j = Ok None.
Proof. exact sym_out_of_range. Qed.
Print Assumptions C09_out_of_range_refused.

(* lookup by value: the scan returns the first symbol whose (truncated) value equals the query *)
Theorem C09_lookup_by_value_is_first_match :
  forall c e s (ys : list sym) value fuel i,
    Inv s -> contents s = sym_table c e ys -> sh_entsize s = sym_esz c -> sh_size s < size_bound c ->
    i <= lenN ys -> lenN ys - i <= lenN fuel ->
    scan_values fuel (s_data s) c e (sh_entsize s) value i (lenN ys) = Ok (find_val c value (skipnN ys i) i).
Proof. exact scan_values_first. Qed.
Print Assumptions C09_lookup_by_value_is_first_match.

(* the library's hash functions equal the ABI definitions *)
Theorem C09_elf_hash_is_abi : forall name, Bytes.is_bytes name -> elf_hash name = elf_hash_abi name.
Proof. exact elf_hash_is_abi. Qed.
Print Assumptions C09_elf_hash_is_abi.

Theorem C09_gnu_hash_is_abi : forall name, elf_gnu_hash name = gnu_hash_abi name.
Proof. exact gnu_hash_is_abi. Qed.
Print Assumptions C09_gnu_hash_is_abi.

Example C09_example :
  elf_hash [112; 114; 105; 110; 116; 102] = 125371814 /\ elf_gnu_hash [112; 114; 105; 110; 116; 102] = 359345080.
Proof. vm_compute. split; reflexivity. Qed.
