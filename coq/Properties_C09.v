(* Properties_C09.v — C09: symbol tables round-trip; hash functions equal their ABI definitions. *)
From ElfioV Require Import Bytes Mem Stream SectionData SectionData_proofs Strings Elfio Table Accessors Symbols_proofs ByName_proofs.
Local Open Scope N_scope.

(* field-level codec: ABI field order per class, values truncated to the field widths *)
Theorem C09_entry_codec : forall c e y, dec_sym c e (enc_sym c e y) = trunc_sym c y.
Proof. exact dec_enc_sym. Qed.
Print Assumptions C09_entry_codec.

(* adding symbols to an empty table: the null symbol comes first, the bytes
   are the concatenation of the ABI encodings *)
Theorem C09_adds_build_abi_table :
  forall (junk : N -> N) (xlat_empty : bool) c e s (ys : list sym),
    Inv s -> s_cls s = c -> sh_size s = 0 ->
    (lenN ys + 1) * sym_esz c < size_bound c ->
    exists s', append_all junk xlat_empty s (map (fun y => enc_sym c e (trunc_sym c y)) (mkSym 0 0 0 0 0 0 :: ys)) = Ok s' /\
      Inv s' /\ contents s' = sym_table c e (mkSym 0 0 0 0 0 0 :: ys) /\
      sh_size s' = (lenN ys + 1) * sym_esz c.
Proof. exact sym_adds_table. Qed.
Print Assumptions C09_adds_build_abi_table.

(* every symbol of such a table is returned unchanged by index (value and
   size truncated to 32 bits in ELF32) *)
Theorem C09_roundtrip_by_index :
  forall c e s (ys : list sym) j y,
    Inv s -> contents s = sym_table c e ys -> sh_entsize s = sym_esz c ->
    sh_size s < size_bound c -> nth_optN ys j = Some y ->
    sym_get_core c e s (s_data s) (lenN ys) j = Ok (Some (trunc_sym c y)).
Proof. exact sym_roundtrip. Qed.
Print Assumptions C09_roundtrip_by_index.

Theorem C09_out_of_range_refused :
  forall c e s p (ys : list sym) j, lenN ys <= j -> sym_get_core c e s p (lenN ys) j = Ok None.
Proof. exact sym_out_of_range. Qed.
Print Assumptions C09_out_of_range_refused.

(* lookup by value: the scan returns the first symbol whose (truncated) value equals the query *)
Theorem C09_lookup_by_value_is_first_match :
  forall c e s (ys : list sym) value fuel i,
    Inv s -> contents s = sym_table c e ys -> sh_entsize s = sym_esz c -> sh_size s < size_bound c ->
    i <= lenN ys -> lenN ys - i <= lenN fuel ->
    scan_values fuel (s_data s) c e (sh_entsize s) value i (lenN ys) = Ok (find_val c value (skipnN ys i) i).
Proof. exact scan_values_first. Qed.
Print Assumptions C09_lookup_by_value_is_first_match.

(* lookup by name.  On an object whose symbol table, linked string table and accompanying hash section no longer
   change under data requests ([quiet]: true of a section after its first get_data(), C09_quiet_after_first_request)
   get_symbol( name, ... ) for a non-empty name
     - leaves the object as it is,
     - when it succeeds, returns the attributes of a symbol of the table whose name is the queried one,
     - when it fails, no symbol below get_symbols_num() has that name,
   WHATEVER the SysV or GNU hash section contains (well-formed, stale or garbage): a hash hit is accepted only after
   the name has been compared and a miss falls back to the linear scan.  [is_symbol el symsec v]: some index
   yields exactly the attributes v through get_symbol( index, ... ). *)
Theorem C09_lookup_by_name_agrees_with_scan :
  forall (junk : N -> N) el symsec s name el1 r,
    get_sec el symsec = Some s -> quiet_symtab el symsec ->
    (forall hi hs h, find_hash (el_secs el) 0 (s_index s) = Some (hi, hs) -> get_sec el hi = Some h -> quiet h) ->
    name <> [] ->
    get_symbol_by_name junk el symsec name = Ok (el1, r) ->
    el1 = el /\
    match r with
    | Some v => is_symbol junk el symsec v /\ sv_name v = name
    | None => no_match junk el symsec name 0 (get_symbols_num el s)
    end.
Proof. exact get_symbol_by_name_spec. Qed.
Print Assumptions C09_lookup_by_name_agrees_with_scan.

(* with unique names: the lookup returns THE symbol of that name whenever there is one *)
Theorem C09_lookup_by_name_unique_names :
  forall (junk : N -> N) el symsec s name el1 r,
    get_sec el symsec = Some s -> quiet_symtab el symsec ->
    (forall hi hs h, find_hash (el_secs el) 0 (s_index s) = Some (hi, hs) -> get_sec el hi = Some h -> quiet h) ->
    name <> [] ->
    (forall v w, is_symbol junk el symsec v -> is_symbol junk el symsec w -> sv_name v = sv_name w -> v = w) ->
    get_symbol_by_name junk el symsec name = Ok (el1, r) ->
    forall k w, k < get_symbols_num el s -> get_symbol junk el symsec k = Ok (el, Some w) -> sv_name w = name -> r = Some w.
Proof. exact get_symbol_by_name_unique. Qed.
Print Assumptions C09_lookup_by_name_unique_names.

(* the linear scan itself: the first index in [i, n) whose symbol has the name, nothing when there is none *)
Theorem C09_scan_returns_first_match :
  forall (junk : N -> N) fuel name el symsec i n el1 r,
    quiet_symtab el symsec ->
    scan_names junk fuel el symsec name i n = Ok (el1, r) ->
    el1 = el /\
    match r with
    | Some v => exists j, i <= j < n /\ get_symbol junk el symsec j = Ok (el, Some v) /\ sv_name v = name /\
                          no_match junk el symsec name i j
    | None => no_match junk el symsec name i n
    end.
Proof. exact scan_names_spec. Qed.
Print Assumptions C09_scan_returns_first_match.

Theorem C09_quiet_after_first_request :
  forall (junk : N -> N) el i el1 p s1,
    el_sec_get_data junk el i = Ok (el1, p) -> get_sec el1 i = Some s1 -> quiet s1.
Proof. exact quiet_after_get_data. Qed.
Print Assumptions C09_quiet_after_first_request.

(* the hypotheses are satisfiable: an object built through the API (string table, symbol table with two named
   symbols), after one data request on each section, is quiet, and the lookup finds the second symbol *)
From ElfioV Require Import Loader Layout Writer Script.
Definition c09_el : elfio :=
  w_el (fst (fst (run_list init_world
    [OpCtor false; OpCreate C64 LSB; OpAddSec [46; 115]; OpSecSet 2 SType 3; OpAddSec [46; 116]; OpSecSet 3 SType 2;
     OpSecSet 3 SEntsize 24; OpSecSet 3 SLink 2;
     OpSymAddS 3 2 [102; 111; 111] 10 4 18 0 1; OpSymAddS 3 2 [98; 97; 114] 20 4 18 0 1; OpGetData 2; OpGetData 3] []))).
Example C09_lookup_example :
  quiet_symtab c09_el 3 /\
  get_symbol_by_name junk0 c09_el 3 [98; 97; 114] = Ok (c09_el, Some (mkSymview [98; 97; 114] 20 4 1 2 1 0 true)).
Proof.
  split.
  - eexists. split; [vm_compute; reflexivity|]. split; [vm_compute; reflexivity|].
    intros st H. vm_compute in H. injection H as <-. vm_compute. reflexivity.
  - vm_compute. reflexivity.
Qed.

(* the library's hash functions equal the ABI definitions *)
Theorem C09_elf_hash_is_abi : forall name, Bytes.is_bytes name -> elf_hash name = elf_hash_abi name.
Proof. exact elf_hash_is_abi. Qed.
Print Assumptions C09_elf_hash_is_abi.

Theorem C09_gnu_hash_is_abi : forall name, elf_gnu_hash name = gnu_hash_abi name.
Proof. exact gnu_hash_is_abi. Qed.
Print Assumptions C09_gnu_hash_is_abi.

Example C09_example :
  elf_hash [112; 114; 105; 110; 116; 102] = 125371814 /\ elf_gnu_hash [112; 114; 105; 110; 116; 102] = 359345080.
Proof. vm_compute. split; reflexivity. Qed.
