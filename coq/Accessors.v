(* Accessors.v — models of the table accessors:
   symbols (elfio_symbols.hpp), relocations (elfio_relocation.hpp), dynamic
   (elfio_dynamic.hpp), notes (elfio_note.hpp), arrays (elfio_array.hpp),
   modinfo (elfio_modinfo.hpp), versym / verneed / verdef (elfio_versym.hpp),
   hash functions (elfio_utils.hpp:262-286).
   Every pointer dereference goes through Mem.rd / Mem.wr; loops whose bound
   comes from the input recurse on a buffer used as fuel and return Fault Hang
   when it runs out. *)
From ElfioV Require Import Bytes Mem Stream SectionData Strings Elfio Table.
Local Open Scope N_scope.

Definition STB_LOCAL := 0.
Definition DT_NULL := 0.
Definition DT_NEEDED := 1.
Definition DT_SONAME := 14.
Definition DT_RPATH := 15.
Definition DT_SYMBOLIC := 16.
Definition DT_TEXTREL := 22.
Definition DT_BIND_NOW := 24.
Definition DT_RUNPATH := 29.
Definition DT_VERDEFNUM := 1879048189. (* 0x6ffffffd *)
Definition DT_VERNEEDNUM := 1879048191. (* 0x6fffffff *)

(* sign extension of a w-bit value to 64 bits (two's complement in N) *)
Definition sext (w : N) (v : N) : N :=
  if v <? 2 ^ (w - 1) then v else wrap64 (v + (2 ^ 64 - 2 ^ w)).

(* ---- layouts (byte widths, in declaration order) ---- *)
Definition sym_layout (c : cls) : list nat :=
  match c with
  | C32 => [4; 4; 4; 1; 1; 2]%nat      (* name value size info other shndx *)
  | C64 => [4; 1; 1; 2; 8; 8]%nat      (* name info other shndx value size *)
  end.
Definition rel_layout (c : cls) : list nat := match c with C32 => [4; 4]%nat | C64 => [8; 8]%nat end.
Definition rela_layout (c : cls) : list nat := match c with C32 => [4; 4; 4]%nat | C64 => [8; 8; 8]%nat end.
Definition dyn_layout (c : cls) : list nat := match c with C32 => [4; 4]%nat | C64 => [8; 8]%nat end.

Record sym := mkSym {
  st_name : N; st_value : N; st_size : N; st_info : N; st_other : N; st_shndx : N
}.

Definition enc_sym (c : cls) (e : endian) (s : sym) : bytes :=
  match c with
  | C32 => enc_fields e (sym_layout C32) [st_name s; st_value s; st_size s; st_info s; st_other s; st_shndx s]
  | C64 => enc_fields e (sym_layout C64) [st_name s; st_info s; st_other s; st_shndx s; st_value s; st_size s]
  end.
Definition dec_sym (c : cls) (e : endian) (bs : bytes) : sym :=
  let v := dec_fields e (sym_layout c) bs in
  match c with
  | C32 => mkSym (nthN v 0 0) (nthN v 1 0) (nthN v 2 0) (nthN v 3 0) (nthN v 4 0) (nthN v 5 0)
  | C64 => mkSym (nthN v 0 0) (nthN v 4 0) (nthN v 5 0) (nthN v 1 0) (nthN v 2 0) (nthN v 3 0)
  end.

(* what the user sees: name string and the decoded attributes *)
Record symview := mkSymview {
  sv_name : bytes; sv_value : N; sv_size : N; sv_bind : N; sv_type : N; sv_shndx : N; sv_other : N;
  sv_named : bool      (* false: the name string was not found, the out-parameter was left untouched *)
}.

(* ---- hash functions — elfio_utils.hpp:262-286 ---- *)
Definition elf_hash_step (h : N) (c : N) : N :=
  let h1 := wrap32 (wrap32 (h * 16) + c) in
  let g := N.land h1 4026531840 (* 0xf0000000 *) in
  let h2 := if g =? 0 then h1 else N.lxor h1 (N.shiftr g 24) in
  N.land h2 (wrap32 (N.lxor g 4294967295)) (* h &= ~g *).
Definition elf_hash (name : bytes) : N := fold_left elf_hash_step name 0.

Definition gnu_hash_step (h : N) (c : N) : N := wrap32 (wrap32 (wrap32 (h * 32) + h) + c).
Definition elf_gnu_hash (name : bytes) : N := fold_left gnu_hash_step name 5381.

(* fuel for a loop that runs [n] times whatever the data: more than 2^32
   iterations count as not returning *)
Definition count_fuel (n : N) : list N := if 4294967296 <? n then [] else repeatN 0 (n + 1).

Section WithEnv.
  Variable junk : N -> N.
  Variable host : endian.      (* byte order of the machine running the library *)

  Definition sec_data (el : elfio) (i : N) : res (elfio * ptr * section) :=
    '(el1, p) <- el_sec_get_data junk el i ;;
    match get_sec el1 i with
    | Some s => Ok (el1, p, s)
    | None => Fault NullDeref
    end.

  Definition class32 (el : elfio) : bool := el_class_byte el =? 1.
  Definition acls (el : elfio) : cls := if class32 el then C32 else C64.
  Definition layout_sz (l : list nat) : N := layout_size l.

  (* ================= symbols ================= *)
  Definition get_symbols_num (el : elfio) (s : section) : N :=
    let cb := el_class_byte el in
    if (cb =? 1) || (cb =? 2) then
      let minsz := if cb =? 1 then 16 else 24 in
      if (minsz <=? sh_entsize s) && (sh_size s <=? s_stream_size s)
      then sh_size s / sh_entsize s else 0
    else 0.

  (* string lookup through sections[(Elf_Half)link] *)
  Definition lookup_str (el : elfio) (strsec : N) (idx : N) : res (elfio * option bytes) :=
    match get_sec el strsec with
    | None => Ok (el, None)          (* accessor over nullptr: get_string returns nullptr *)
    | Some _ =>
        '(el1, p, s) <- sec_data el strsec ;;
        r <- get_string_raw p (sh_size s) (wrap32 idx) ;;
        Ok (el1, r)
    end.

  (* the table read inside generic_get_symbol<T>: entry [index] of the data [p]
     of section header [s]; [num] is get_symbols_num() *)
  Definition sym_get_core (c : cls) (enc : endian) (s : section) (p : ptr) (num index : N) : res (option sym) :=
    match p with
    | None => Ok None
    | Some _ =>
        if index <? num then
          ent <- rd p (wrap64 (index * sh_entsize s)) (layout_sz (sym_layout c)) ;;
          Ok (Some (dec_sym c enc ent))
        else Ok None
    end.

  (* generic_get_symbol<T>( index, ... ) *)
  Definition get_symbol (el : elfio) (symsec : N) (index : N) : res (elfio * option symview) :=
    '(el1, p, s) <- sec_data el symsec ;;
    r <- sym_get_core (acls el1) (el_enc el1) s p (get_symbols_num el1 s) index ;;
    match r with
    | None => Ok (el1, None)
    | Some y =>
          let c := acls el1 in
          '(el2, nm) <- lookup_str el1 (wrap16 (sh_link s)) (st_name y) ;;
          Ok (el2, Some (mkSymview (match nm with Some n => n | None => [] end)
                                   (st_value y) (st_size y) (N.shiftr (st_info y) 4)
                                   (N.land (st_info y) 15) (st_shndx y) (st_other y)
                                   (match nm with Some _ => true | None => false end)))
    end.

  Definition trunc_sym (c : cls) (y : sym) : sym :=
    let w := xw c in
    mkSym (wrap32 (st_name y)) (wrap w (st_value y)) (wrap w (st_size y))
          (wrap8 (st_info y)) (wrap8 (st_other y)) (wrap16 (st_shndx y)).

  Definition generic_add_symbol (el : elfio) (symsec : N) (y : sym) : res (elfio * N) :=
    match get_sec el symsec with
    | None => Fault NullDeref
    | Some s =>
        let c := acls el in
        let ent := enc_sym c (el_enc el) (trunc_sym c y) in
        s1 <- append_data junk (xe el) s ent ;;
        Ok (upd_sec el symsec s1, wrap32 (wrap64 (sh_size s1 / layout_sz (sym_layout c) + (2 ^ 64 - 1))))
    end.

  (* add_symbol( name, value, size, info, other, shndx ) *)
  Definition add_symbol (el : elfio) (symsec : N) (y : sym) : res (elfio * N) :=
    match get_sec el symsec with
    | None => Fault NullDeref
    | Some s =>
        '(el1, _) <- (if sh_size s =? 0 then generic_add_symbol el symsec (mkSym 0 0 0 0 0 0) else Ok (el, 0)) ;;
        generic_add_symbol el1 symsec y
    end.

  (* add_symbol( pStrWriter, str, value, size, info, other, shndx ) *)
  Definition add_symbol_str (el : elfio) (symsec strsec : N) (name : bytes) (y : sym) : res (elfio * N) :=
    match get_sec el strsec with
    | None => Fault NullDeref
    | Some st =>
        '(st1, idx) <- add_string junk (xe el) st (take_cstr name) ;;
        add_symbol (upd_sec el strsec st1) symsec (mkSym idx (st_value y) (st_size y) (st_info y) (st_other y) (st_shndx y))
    end.

  (* find_hash_section(): first section linking to the symbol section with a hash type *)
  Fixpoint find_hash (secs : list section) (i : N) (symidx : N) : option (N * section) :=
    match secs with
    | [] => None
    | s :: t =>
        if (sh_link s =? symidx) &&
           ((sh_type s =? SHT_HASH) || (sh_type s =? SHT_GNU_HASH) || (sh_type s =? DT_GNU_HASH_c))
        then Some (i, s) else find_hash t (i + 1) symidx
    end.

  (* linear scan used as fallback by get_symbol( name, ... ) *)
  Fixpoint scan_names (fuel : list N) (el : elfio) (symsec : N) (name : bytes) (i n : N)
    : res (elfio * option symview) :=
    match fuel with
    | [] => if i <? n then Fault Hang else Ok (el, None)
    | _ :: f =>
        if i <? n then
          '(el1, r) <- get_symbol el symsec i ;;
          match r with
          | Some v => if bytes_eqb (sv_name v) name then Ok (el1, Some v)
                      else scan_names f el1 symsec name (i + 1) n
          | None => scan_names f el1 symsec name (i + 1) n
          end
        else Ok (el, None)
    end.

  (* state of the out-parameters during a hash walk: last name read and last
     attributes written *)
  Definition walk_get (el : elfio) (symsec : N) (y : N) (cur : symview) : res (elfio * symview * bool) :=
    '(el1, r) <- get_symbol el symsec y ;;
    match r with
    | Some v =>
        (* the name out-parameter is only assigned when the string was found *)
        Ok (el1, (if sv_named v then v
                  else mkSymview (sv_name cur) (sv_value v) (sv_size v) (sv_bind v) (sv_type v)
                                 (sv_shndx v) (sv_other v) false), true)
    | None => Ok (el1, cur, false)
    end.

  (* hash_lookup — elfio_symbols.hpp (after the C18 fix: the table is
     validated first, the walk is bounded by nchain) *)
  Fixpoint sysv_walk (fuel : list N) (el : elfio) (symsec : N) (hp : ptr) (enc : endian)
           (name : bytes) (nbucket nchain y : N) (steps : N) (cur : symview) : res (elfio * symview) :=
    if negb (bytes_eqb (sv_name cur) name) && negb (y =? 0) && (y <? nchain) && (steps <? nchain) then
      match fuel with
      | [] => Fault Hang
      | _ :: f =>
          y1 <- rd_word enc hp ((2 + nbucket + y) * 4) 4 ;;
          '(el1, cur1, _) <- walk_get el symsec y1 cur ;;
          sysv_walk f el1 symsec hp enc name nbucket nchain y1 (steps + 1) cur1
      end
    else Ok (el, cur).

  Definition empty_view : symview := mkSymview [] 0 0 0 0 0 0 false.

  Definition hash_lookup (el : elfio) (symsec hashsec : N) (name : bytes) : res (elfio * option symview) :=
    '(el1, hp, hs) <- sec_data el hashsec ;;
    let enc := el_enc el1 in
    match hp with
    | None => Ok (el1, None)
    | Some hb =>
        if sh_size hs <? 8 then Ok (el1, None) else
        nbucket <- rd_word enc hp 0 4 ;;
        nchain <- rd_word enc hp 4 4 ;;
        if (nbucket =? 0) || (sh_size hs <? (2 + nbucket + nchain) * 4) then Ok (el1, None) else
        let val := elf_hash name in
        y <- rd_word enc hp ((2 + val mod nbucket) * 4) 4 ;;
        '(el2, cur, _) <- walk_get el1 symsec y empty_view ;;
        '(el3, cur1) <- sysv_walk (count_fuel nchain) el2 symsec hp enc name nbucket nchain y 0 cur ;;
        Ok (el3, if bytes_eqb (sv_name cur1) name then Some cur1 else None)
    end.

  (* gnu_hash_lookup<T> — elfio_symbols.hpp (after the C18 fix: header, bloom
     filter, bucket array and every chain entry are checked against the
     section size); T is 32 or 64 bits wide *)
  Fixpoint gnu_walk (fuel : list N) (el : elfio) (symsec : N) (hp : ptr) (enc : endian) (name : bytes)
           (chains_off chains_num symoffset hash chain_index chain_hash : N) (symname : bytes)
    : res (elfio * option symview) :=
    match fuel with
    | [] => Fault Hang
    | _ :: f =>
        '(el1, hit, symname1) <-
          (if N.shiftr chain_hash 1 =? N.shiftr hash 1 then
             '(el1, r) <- get_symbol el symsec (wrap32 (chain_index + symoffset)) ;;
             match r with
             | Some v =>
                 let sn := if sv_named v then sv_name v else symname in
                 Ok (el1, (if bytes_eqb name sn then Some v else None), sn)
             | None => Ok (el1, None, symname)
             end
           else Ok (el, None, symname)) ;;
        match hit with
        | Some v => Ok (el1, Some v)
        | None =>
            if N.land chain_hash 1 =? 1 then Ok (el1, None)
            else
              let ci := wrap32 (chain_index + 1) in
              if chains_num <=? ci then Ok (el1, None)
              else
                ch <- rd_word enc hp (chains_off + ci * 4) 4 ;;
                gnu_walk f el1 symsec hp enc name chains_off chains_num symoffset hash ci ch symname1
        end
    end.

  Definition gnu_hash_lookup (el : elfio) (symsec hashsec : N) (name : bytes) : res (elfio * option symview) :=
    '(el1, hp, hs) <- sec_data el hashsec ;;
    let enc := el_enc el1 in
    let tb := if class32 el1 then 4 else 8 in     (* sizeof(T) *)
    let tbits := 8 * tb in
    match hp with
    | None => Ok (el1, None)
    | Some hb =>
        if sh_size hs <? 16 then Ok (el1, None) else
        nbuckets <- rd_word enc hp 0 4 ;;
        symoffset <- rd_word enc hp 4 4 ;;
        bloom_size <- rd_word enc hp 8 4 ;;
        bloom_shift <- rd_word enc hp 12 4 ;;
        let buckets_off := 16 + bloom_size * tb in
        let chains_off := buckets_off + nbuckets * 4 in
        if (nbuckets =? 0) || (bloom_size =? 0) || (32 <=? bloom_shift) || (sh_size hs <? chains_off)
        then Ok (el1, None) else
        let chains_num := (sh_size hs - chains_off) / 4 in
        let hash := elf_gnu_hash name in
        let bloom_index := (hash / tbits) mod bloom_size in
        let bloom_bits := N.lor (N.shiftl 1 (hash mod tbits))
                                (N.shiftl 1 ((N.shiftr hash bloom_shift) mod tbits)) in
        bw <- rd_word enc hp (16 + bloom_index * tb) (N.to_nat tb) ;;
        if negb (N.land bw bloom_bits =? bloom_bits) then Ok (el1, None) else
        let bucket := hash mod nbuckets in
        bv <- rd_word enc hp (buckets_off + bucket * 4) 4 ;;
        if symoffset <=? bv then
          let ci := wrap32 (bv - symoffset) in
          if chains_num <=? ci then Ok (el1, None) else
          ch <- rd_word enc hp (chains_off + ci * 4) 4 ;;
          gnu_walk (0 :: hb) el1 symsec hp enc name chains_off chains_num symoffset hash ci ch []
        else Ok (el1, None)
    end.

  (* get_symbol( name, ... ) — elfio_symbols.hpp:117-153 *)
  Definition get_symbol_by_name (el : elfio) (symsec : N) (name : bytes) : res (elfio * option symview) :=
    match get_sec el symsec with
    | None => Fault NullDeref
    | Some s =>
        '(el1, r) <-
          (match find_hash (el_secs el) 0 (s_index s) with
           | Some (hi, hs) =>
               if hi =? 0 then Ok (el, None) else
               '(el1, r1) <- (if sh_type hs =? SHT_HASH then hash_lookup el symsec hi name else Ok (el, None)) ;;
               if (sh_type hs =? SHT_GNU_HASH) || (sh_type hs =? DT_GNU_HASH_c)
               then gnu_hash_lookup el1 symsec hi name
               else Ok (el1, r1)
           | None => Ok (el, None)
           end) ;;
        match r with
        | Some v => Ok (el1, Some v)
        | None =>
            match get_sec el1 symsec with
            | None => Fault NullDeref
            | Some s1 =>
                let n := get_symbols_num el1 s1 in
                scan_names (count_fuel n) el1 symsec name 0 n
            end
        end
    end.

  (* get_symbol( value, ... ): first entry whose st_value equals value *)
  Fixpoint scan_values (fuel : list N) (p : ptr) (c : cls) (enc : endian) (entsize : N) (value : N) (i n : N)
    : res (option N) :=
    match fuel with
    | [] => if i <? n then Fault Hang else Ok None
    | _ :: f =>
        if i <? n then
          match p with
          | None => Ok None                      (* generic_get_symbol_ptr returned nullptr *)
          | Some _ =>
              ent <- rd p (wrap64 (i * entsize)) (layout_sz (sym_layout c)) ;;
              if st_value (dec_sym c enc ent) =? value then Ok (Some i)
              else scan_values f p c enc entsize value (i + 1) n
          end
        else Ok None
    end.

  Definition get_symbol_by_value (el : elfio) (symsec : N) (value : N) : res (elfio * option symview) :=
    '(el1, p, s) <- sec_data el symsec ;;
    let n := get_symbols_num el1 s in
    let fuel := match p with Some b => b | None => [] end in
    r <- scan_values (0 :: fuel) p (acls el1) (el_enc el1) (sh_entsize s) value 0 n ;;
    match r with
    | Some idx => get_symbol el1 symsec idx
    | None => Ok (el1, None)
    end.

  (* ---- arrange_local_symbols — elfio_symbols.hpp:651-695 ---- *)
  Definition sym_info_off (c : cls) : N := match c with C32 => 12 | C64 => 4 end.

  (* advance i while i < count and the predicate on the binding is false *)
  Fixpoint scan_bind (fuel : list N) (p : ptr) (c : cls) (entsize : N) (want_local : bool) (i count : N) : res N :=
    if i <? count then
      match fuel with
      | [] => Fault Hang
      | _ :: f =>
          match p with
          | None => Fault NullDeref       (* generic_get_symbol_ptr gave nullptr; p->st_info *)
          | Some _ =>
              info <- rd p (wrap64 (i * entsize) + sym_info_off c) 1 ;;
              let is_local := N.shiftr (nthN info 0 0) 4 =? STB_LOCAL in
              if Bool.eqb is_local want_local then Ok i
              else scan_bind f p c entsize want_local (i + 1) count
          end
      end
    else Ok i.

  Fixpoint arrange_loop (fuel : list N) (p : ptr) (c : cls) (entsize count : N) (fnl : N) (log : list (N * N))
    : res (ptr * N * list (N * N)) :=
    match fuel with
    | [] => Fault Hang
    | _ :: f =>
        let inner := match p with Some b => 0 :: b | None => [0] end in
        fnl1 <- scan_bind inner p c entsize false fnl count ;;
        cur <- scan_bind inner p c entsize true (wrap64 (fnl1 + 1)) count ;;
        if (fnl1 <? count) && (cur <? count) then
          let sz := layout_sz (sym_layout c) in
          a <- rd p (wrap64 (fnl1 * entsize)) sz ;;
          b <- rd p (wrap64 (cur * entsize)) sz ;;
          p1 <- wr p (wrap64 (fnl1 * entsize)) b ;;
          p2 <- wr p1 (wrap64 (cur * entsize)) a ;;
          arrange_loop f p2 c entsize count fnl1 (log ++ [(fnl1, cur)])
        else Ok (p, fnl1, log)
    end.

  Definition arrange_local_symbols (el : elfio) (symsec : N) : res (elfio * N * list (N * N)) :=
    '(el1, p, s) <- sec_data el symsec ;;
    let count := get_symbols_num el1 s in
    match p with
    | None => Ok (el1, 0, [])              (* data not available: nothing is rearranged (C18 fix) *)
    | Some _ =>
    let fuel := match p with Some b => 0 :: 0 :: b | None => [0; 0] end in
    '(p1, fnl, log) <- arrange_loop fuel p (acls el1) (sh_entsize s) count 1 [] ;;
    match get_sec el1 symsec with
    | None => Fault NullDeref
    | Some s1 => Ok (upd_sec el1 symsec (with_info (with_data s1 p1 (s_data_size s1)) fnl), fnl, log)
    end
    end.

  (* ================= relocations ================= *)
  Definition rel_entries_num (s : section) : N :=
    if sh_entsize s =? 0 then 0 else sh_size s / sh_entsize s.

  Definition r_sym (c : cls) (info : N) : N :=
    match c with C32 => N.shiftr (wrap32 info) 8 | C64 => wrap32 (N.shiftr info 32) end.
  Definition r_type (c : cls) (info : N) : N :=
    match c with C32 => wrap8 info | C64 => wrap32 info end.
  Definition r_info (c : cls) (symbol type : N) : N :=
    match c with
    | C32 => wrap32 (wrap64 (symbol * 256) + wrap8 type)
    | C64 => wrap64 (wrap64 (symbol * 2 ^ 32) + wrap32 type)
    end.

  Record relview := mkRelview { rv_offset : N; rv_symbol : N; rv_type : N; rv_addend : N }.

  (* get_entry( index, offset, symbol, type, addend ) on section header [s] with
     data [p] (what get_data() returns; only requested when all gates pass) *)
  Definition rel_get_core (c : cls) (enc : endian) (s : section) (p : ptr) (index : N) : res (option relview) :=
    if rel_entries_num s <=? index then Ok None
    else
      let is_rel := sh_type s =? SHT_REL in
      let is_rela := sh_type s =? SHT_RELA in
      if negb (is_rel || is_rela) then Ok None else
      let lay := if is_rel then rel_layout c else rela_layout c in
      if sh_entsize s <? layout_sz lay then Ok None else
      match p with
      | None => Ok None                    (* data not available: refused (C18 fix) *)
      | Some _ =>
      ent <- rd p (wrap64 (index * sh_entsize s)) (layout_sz lay) ;;
      let v := dec_fields enc lay ent in
      let info := nthN v 1 0 in
      let addend := if is_rel then 0 else sext (xw c) (nthN v 2 0) in
      Ok (Some (mkRelview (nthN v 0 0) (r_sym c info) (r_type c info) addend))
      end.

  Definition rel_needs_data (c : cls) (s : section) (index : N) : bool :=
    negb (rel_entries_num s <=? index) &&
    ((sh_type s =? SHT_REL) || (sh_type s =? SHT_RELA)) &&
    negb (sh_entsize s <? layout_sz (if sh_type s =? SHT_REL then rel_layout c else rela_layout c)).

  Definition rel_get_entry (el : elfio) (relsec : N) (index : N) : res (elfio * option relview) :=
    match get_sec el relsec with
    | None => Fault NullDeref
    | Some s =>
        if rel_needs_data (acls el) s index then
          '(el1, p, s1) <- sec_data el relsec ;;
          r <- rel_get_core (acls el1) (el_enc el1) s p index ;;
          Ok (el1, r)
        else Ok (el, None)
    end.

  (* get_entry with symbol resolution — elfio_relocation.hpp:167-237 *)
  Record relfull := mkRelfull { rf_base : relview; rf_symvalue : N; rf_symname : bytes; rf_calc : N }.

  Definition rel_calc (type symv addend offset : N) : N :=
    if type =? 1 then wrap64 (symv + addend)
    else if type =? 2 then wrap64 (symv + addend + (2 ^ 64 - offset))
    else if (type =? 6) || (type =? 7) then symv
    else if type =? 8 then addend
    else 0.

  Definition rel_get_entry_full (el : elfio) (relsec : N) (index : N) : res (elfio * option relfull) :=
    '(el1, r) <- rel_get_entry el relsec index ;;
    match get_sec el1 relsec with
    | None => Fault NullDeref
    | Some s =>
        let symsec := wrap16 (sh_link s) in
        match get_sec el1 symsec with
        | None => Ok (el1, None)             (* no such symbol table: refused (C18 fix) *)
        | Some _ =>
            match r with
            | None => Ok (el1, None)
            | Some v =>
                '(el2, sv) <- get_symbol el1 symsec (rv_symbol v) ;;
                match sv with
                | None => Ok (el2, None)
                | Some y =>
                    Ok (el2, Some (mkRelfull v (sv_value y) (sv_name y)
                                             (rel_calc (rv_type v) (sv_value y) (rv_addend v) (rv_offset v))))
                end
            end
        end
    end.

  Definition enc_rel (c : cls) (e : endian) (is_rela : bool) (offset info addend : N) : bytes :=
    if is_rela then enc_fields e (rela_layout c) [wrap (xw c) offset; wrap (xw c) info; wrap (xw c) addend]
    else enc_fields e (rel_layout c) [wrap (xw c) offset; wrap (xw c) info].

  (* the write inside set_entry: entry [index] of the data [p] of section header [s] *)
  Definition rel_set_core (c : cls) (enc : endian) (s : section) (p : ptr) (index offset symbol type addend : N) : res ptr :=
    let is_rela := sh_type s =? SHT_RELA in
    let ent := enc_rel c enc is_rela offset (r_info c symbol type) addend in
    match p with
    | None => Fault NullDeref
    | Some _ => wr p (wrap64 (index * sh_entsize s)) ent
    end.

  (* set_entry( index, offset, symbol, type, addend ) *)
  Definition rel_set_entry (el : elfio) (relsec : N) (index offset symbol type addend : N) : res (elfio * bool) :=
    match get_sec el relsec with
    | None => Fault NullDeref
    | Some s =>
        if rel_entries_num s <=? index then Ok (el, false)
        else
          let c := acls el in
          let is_rel := sh_type s =? SHT_REL in
          let is_rela := sh_type s =? SHT_RELA in
          if negb (is_rel || is_rela) then Ok (el, true) else
          '(el1, p, s1) <- sec_data el relsec ;;
          p1 <- rel_set_core c (el_enc el1) s p index offset symbol type addend ;;
          Ok (upd_sec el1 relsec (with_data s1 p1 (s_data_size s1)), true)
    end.

  (* add_entry overloads: REL with info, RELA with info and addend *)
  Definition rel_add_entry (el : elfio) (relsec : N) (is_rela : bool) (offset info addend : N) : res elfio :=
    match get_sec el relsec with
    | None => Fault NullDeref
    | Some s =>
        s1 <- append_data junk (xe el) s (enc_rel (acls el) (el_enc el) is_rela offset info addend) ;;
        Ok (upd_sec el relsec s1)
    end.
  Definition rel_add_entry_sym (el : elfio) (relsec : N) (is_rela : bool) (offset symbol type addend : N) : res elfio :=
    let c := acls el in
    let info := match c with
                | C32 => wrap64 (wrap64 (symbol * 256) + wrap8 type)
                | C64 => wrap64 (wrap64 (symbol * 2 ^ 32) + wrap32 type)
                end in
    rel_add_entry el relsec is_rela offset info addend.

  (* swap_symbols( first, second ) *)
  Fixpoint swap_loop (fuel : list N) (el : elfio) (relsec : N) (first second : N) (i : N) (last : relview) : res elfio :=
    match get_sec el relsec with
    | None => Fault NullDeref
    | Some s =>
        if i <? rel_entries_num s then
          match fuel with
          | [] => Fault Hang
          | _ :: f =>
              '(el1, r) <- rel_get_entry el relsec i ;;
              let v := match r with Some v => v | None => last end in
              '(el2, _) <- (if rv_symbol v =? first
                            then rel_set_entry el1 relsec i (rv_offset v) (wrap32 second) (rv_type v) (rv_addend v)
                            else Ok (el1, true)) ;;
              '(el3, _) <- (if rv_symbol v =? second
                            then rel_set_entry el2 relsec i (rv_offset v) (wrap32 first) (rv_type v) (rv_addend v)
                            else Ok (el2, true)) ;;
              swap_loop f el3 relsec first second (wrap32 (i + 1)) v
          end
        else Ok el
    end.
  Definition swap_symbols (el : elfio) (relsec : N) (first second : N) : res elfio :=
    let fuel := match get_sec el relsec with
                | Some s => match s_data s with Some b => 0 :: b | None => [0] end
                | None => [0] end in
    swap_loop fuel el relsec first second 0 (mkRelview 0 0 0 0).

  (* ================= dynamic ================= *)
  Record dyn_acc := mkDynAcc { da_sec : N; da_num : N }.

  Definition dyn_tag_no_value (tag : N) : bool :=
    (tag =? DT_NULL) || (tag =? DT_SYMBOLIC) || (tag =? DT_TEXTREL) || (tag =? DT_BIND_NOW).

  (* generic_get_entry_dyn<T> on section header [s] with data [p] *)
  Definition dyn_raw_core (c : cls) (enc : endian) (s : section) (p : ptr) (index : N) : res (N * N) :=
    let lay := dyn_layout c in
    match p with
    | None => Ok (DT_NULL, 0)
    | Some _ =>
        if sh_entsize s <? layout_sz lay then Ok (DT_NULL, 0)
        else if sh_entsize s =? 0 then Fault DivZero
        else if wrap64 (sh_size s / sh_entsize s + (2 ^ 64 - 1)) <? index then Ok (DT_NULL, 0)
        else
          let off := wrap64 (index * sh_entsize s) in
          if wrap64 (sh_size s + (2 ^ 64 - layout_sz lay)) <? off then Ok (DT_NULL, 0)
          else
            ent <- rd p off (layout_sz lay) ;;
            let v := dec_fields enc lay ent in
            let tag := sext (xw c) (nthN v 0 0) in
            Ok (tag, if dyn_tag_no_value tag then 0 else nthN v 1 0)
    end.

  Definition dyn_raw_entry (el : elfio) (dynsec : N) (index : N) : res (elfio * N * N) :=
    '(el1, p, s) <- sec_data el dynsec ;;
    '(tag, value) <- dyn_raw_core (acls el1) (el_enc el1) s p index ;;
    Ok (el1, tag, value).

  Definition dyn_is_string_tag (tag : N) : bool :=
    (tag =? DT_NEEDED) || (tag =? DT_SONAME) || (tag =? DT_RPATH) || (tag =? DT_RUNPATH).

  (* get_entry given the cached entries_num already established; also returns
     the tag out-parameter as the call leaves it (None = untouched) *)
  Definition dyn_get_entry_with (el : elfio) (dynsec : N) (num : N) (index : N)
    : res (elfio * option N * option (N * N * bytes)) :=
    if num <=? index then Ok (el, None, None)
    else
      '(el1, tag, value) <- dyn_raw_entry el dynsec index ;;
      if dyn_is_string_tag tag then
        match get_sec el1 dynsec with
        | None => Fault NullDeref
        | Some s =>
            '(el2, r) <- lookup_str el1 (wrap16 (sh_link s)) (wrap32 value) ;;
            match r with
            | None => Ok (el2, Some tag, None)
            | Some str => Ok (el2, Some tag, Some (tag, value, str))
            end
        end
      else Ok (el1, Some tag, Some (tag, value, [])).

  (* the counting loop of get_entries_num(): index of the first DT_NULL tag
     (or n).  The tags come from the dynamic section's own data, which the
     string look-ups made by get_entry() never change, so the count is computed
     from the section alone and the look-ups are replayed afterwards for their
     effect on the residency of the string section. *)
  Fixpoint dyn_count_core (fuel : list N) (c : cls) (enc : endian) (s : section) (p : ptr) (i n : N) : res N :=
    if i <? n then
      match fuel with
      | [] => Fault Hang
      | _ :: f =>
          '(tag, _) <- dyn_raw_core c enc s p i ;;
          if tag =? DT_NULL then Ok i else dyn_count_core f c enc s p (i + 1) n
      end
    else Ok i.

  Fixpoint dyn_touch (fuel : list N) (el : elfio) (dynsec : N) (n : N) (i upto : N) : res elfio :=
    if (i <=? upto) && (i <? n) then
      match fuel with
      | [] => Fault Hang
      | _ :: f => '(el1, _, _) <- dyn_get_entry_with el dynsec n i ;; dyn_touch f el1 dynsec n (i + 1) upto
      end
    else Ok el.

  (* get_entries_num() with its cache *)
  Definition dyn_entries_num (el : elfio) (a : dyn_acc) : res (elfio * dyn_acc * N) :=
    match get_sec el (da_sec a) with
    | None => Fault NullDeref
    | Some s =>
        let needed := if class32 el then 8 else 16 in
        if (da_num a =? 0) && negb (sh_entsize s =? 0) && (needed <=? sh_entsize s) then
          let n := sh_size s / sh_entsize s in
          '(el0, p, s0) <- sec_data el (da_sec a) ;;
          match p with
          | None => Ok (el0, a, da_num a)      (* data not available: no entries (C17 fix) *)
          | Some _ =>
          let fuel := match p with Some b => 0 :: b | None => [0; 0] end in
          i <- dyn_count_core fuel (acls el0) (el_enc el0) s0 p 0 n ;;
          el1 <- dyn_touch fuel el0 (da_sec a) n 0 i ;;
          let num := N.min n (i + 1) in
          Ok (el1, mkDynAcc (da_sec a) num, num)
          end
        else Ok (el, a, da_num a)
    end.

  Definition dyn_get_entry (el : elfio) (a : dyn_acc) (index : N)
    : res (elfio * dyn_acc * option (N * N * bytes)) :=
    '(el1, a1, num) <- dyn_entries_num el a ;;
    '(el2, _, r) <- dyn_get_entry_with el1 (da_sec a1) num index ;;
    Ok (el2, a1, r).

  (* add_entry: appends and (since the C12 fix) invalidates the cached count *)
  Definition dyn_add_entry (el : elfio) (a : dyn_acc) (tag value : N) : res (elfio * dyn_acc) :=
    match get_sec el (da_sec a) with
    | None => Fault NullDeref
    | Some s =>
        let c := acls el in
        let v := if dyn_tag_no_value tag then 0 else value in
        let ent := enc_fields (el_enc el) (dyn_layout c) [wrap (xw c) tag; wrap (xw c) v] in
        s1 <- append_data junk (xe el) s ent ;;
        Ok (upd_sec el (da_sec a) s1, mkDynAcc (da_sec a) 0)
    end.

  Definition dyn_add_entry_str (el : elfio) (a : dyn_acc) (tag : N) (str : bytes) : res (elfio * dyn_acc) :=
    match get_sec el (da_sec a) with
    | None => Fault NullDeref
    | Some s =>
        let strsec := wrap16 (sh_link s) in
        match get_sec el strsec with
        | None => dyn_add_entry el a tag 0          (* accessor over nullptr: add_string returns 0 *)
        | Some st =>
            '(st1, idx) <- add_string junk (xe el) st (take_cstr str) ;;
            dyn_add_entry (upd_sec el strsec st1) a tag idx
        end
    end.

  (* ================= notes ================= *)
  Inductive note_target := NoteSec (i : N) | NoteSeg (j : N).
  Record note_acc := mkNoteAcc { na_target : note_target; na_starts : list N }.

  Definition note_data (el : elfio) (t : note_target) : res (elfio * ptr * N) :=
    match t with
    | NoteSec i => '(el1, p, s) <- sec_data el i ;; Ok (el1, p, sh_size s)
    | NoteSeg j =>
        '(el1, p) <- el_seg_get_data el j ;;
        match get_seg el1 j with
        | Some g => Ok (el1, p, p_filesz g)
        | None => Fault OobRead
        end
    end.

  Definition pad4_32 (v : N) : N := (wrap32 (v + 3) / 4) * 4.

  Fixpoint note_walk (fuel : list N) (p : ptr) (enc : endian) (size current : N) (acc : list N) : res (list N) :=
    if wrap64 (current + 12) <=? size then
      match fuel with
      | [] => Fault Hang
      | _ :: f =>
          namesz <- rd_word enc p current 4 ;;
          descsz <- rd_word enc p (current + 4) 4 ;;
          let advance := wrap32 (12 + pad4_32 namesz + pad4_32 descsz) in
          if (namesz <? size) && (descsz <? size) && (wrap64 (current + advance) <=? size)
          then note_walk f p enc size (wrap64 (current + advance)) (acc ++ [current])
          else Ok acc
      end
    else Ok acc.

  (* constructor: process_section() *)
  Definition note_new (el : elfio) (t : note_target) : res (elfio * note_acc) :=
    '(el1, p, size) <- note_data el t ;;
    match p with
    | None => Ok (el1, mkNoteAcc t [])
    | Some b =>
        if size =? 0 then Ok (el1, mkNoteAcc t [])
        else starts <- note_walk (0 :: b) p (el_enc el1) size 0 [] ;; Ok (el1, mkNoteAcc t starts)
    end.

  Record noteview := mkNoteview { nv_type : N; nv_name : bytes; nv_desc : option bytes; nv_descsz : N }.

  (* get_note( index, ... ).  The gate compares the index with the number of
     recorded notes (after the fix of the C13 defect; the original compared it
     with the section size and indexed past note_start_positions). *)
  (* the note whose header starts at [pos] of the data [p] of a section/segment of [size] bytes *)
  Definition note_at (enc : endian) (p : ptr) (size pos : N) : res (option noteview) :=
    type <- rd_word enc p (pos + 8) 4 ;;
    namesz <- rd_word enc p pos 4 ;;
    descsz <- rd_word enc p (pos + 4) 4 ;;
    let maxn := wrap64 (size + (2 ^ 64 - pos)) in
    if (namesz <? 1) || (maxn <? namesz) || (maxn <? namesz + descsz) then Ok None
    else
      name <- rd p (pos + 12) (namesz - 1) ;;
      if descsz =? 0 then Ok (Some (mkNoteview type name None 0))
      else
        (* the accessor only forms the pointer; the caller reads descSize bytes *)
        desc <- rd p (pos + 12 + pad4_32 namesz) descsz ;;
        Ok (Some (mkNoteview type name (Some desc) descsz)).

  Definition note_get (el : elfio) (a : note_acc) (index : N) : res (elfio * option noteview) :=
    if lenN (na_starts a) <=? wrap32 index then Ok (el, None) else
    '(el1, p, size) <- note_data el (na_target a) ;;
      match nth_optN (na_starts a) (wrap32 index) with
      | None => Fault OobRead                   (* note_start_positions[index] past the vector *)
      | Some pos => r <- note_at (el_enc el1) p size pos ;; Ok (el1, r)
      end.

  Definition enc_note (e : endian) (type : N) (name : bytes) (desc : bytes) : bytes :=
    let namelen := wrap32 (lenN name + 1) in
    let descsz := wrap32 (lenN desc) in
    enc_uint e 4 namelen ++ enc_uint e 4 descsz ++ enc_uint e 4 (wrap32 type) ++
    name ++ [0] ++ repeatN 0 ((4 - namelen mod 4) mod 4) ++
    (if descsz =? 0 then [] else desc ++ repeatN 0 ((4 - descsz mod 4) mod 4)).

  (* add_note on the section itself: append the record, remember where it starts *)
  Definition note_add_sec (xe : bool) (enc : endian) (s : section) (starts : list N) (type : N) (name desc : bytes)
    : res (section * list N) :=
    s1 <- append_data junk xe s (enc_note enc type name desc) ;;
    Ok (s1, starts ++ [sh_size s]).

  Definition note_add (el : elfio) (a : note_acc) (type : N) (name desc : bytes) : res (elfio * note_acc) :=
    match na_target a with
    | NoteSeg _ => Fault NullDeref     (* not instantiable for segments *)
    | NoteSec i =>
        match get_sec el i with
        | None => Fault NullDeref
        | Some s =>
            '(s1, starts1) <- note_add_sec (xe el) (el_enc el) s (na_starts a) type name desc ;;
            Ok (upd_sec el i s1, mkNoteAcc (na_target a) starts1)
        end
    end.

  (* ================= arrays ================= *)
  Definition arr_entries_num (s : section) (w : N) : N := sh_size s / w.

  Definition arr_get_core (enc : endian) (s : section) (p : ptr) (w : N) (index : N) : res (option N) :=
    if arr_entries_num s w <=? index then Ok None
    else match p with
         | None => Ok None                  (* data not available: refused (C18 fix) *)
         | Some _ => v <- rd_word enc p (wrap64 (index * w)) (N.to_nat w) ;; Ok (Some v)
         end.

  Definition arr_get_entry (el : elfio) (sec : N) (w : N) (index : N) : res (elfio * option N) :=
    match get_sec el sec with
    | None => Fault NullDeref
    | Some s =>
        if arr_entries_num s w <=? index then Ok (el, None)
        else
          '(el1, p, _) <- sec_data el sec ;;
          r <- arr_get_core (el_enc el1) s p w index ;;
          Ok (el1, r)
    end.

  Definition arr_add_entry (el : elfio) (sec : N) (w : N) (address : N) : res elfio :=
    match get_sec el sec with
    | None => Fault NullDeref
    | Some s =>
        s1 <- append_data junk (xe el) s (enc_uint (el_enc el) (N.to_nat w) (wrap (8 * w) address)) ;;
        Ok (upd_sec el sec s1)
    end.

  (* ================= modinfo ================= *)
  Record mod_acc := mkModAcc { ma_sec : N; ma_content : list (bytes * bytes) }.

  (* std::string( pdata + i ): bytes up to the first NUL in the allocation *)
  Definition cstring_at (p : ptr) (i : N) : res bytes :=
    match p with
    | None => Fault NullDeref
    | Some b =>
        match find0 (skipnN b i) (lenN b) 0 with
        | Some k => Ok (firstnN (skipnN b i) k)
        | None => Fault OobRead
        end
    end.

  Fixpoint split_eq (l : bytes) : option (bytes * bytes) :=
    match l with
    | [] => None
    | c :: t => if c =? 61 then Some ([], t)
                else match split_eq t with Some (a, b) => Some (c :: a, b) | None => None end
    end.
  (* info.substr(0, loc), info.substr(loc + 1) with loc = npos when '=' is absent *)
  Definition mod_split (info : bytes) : bytes * bytes :=
    match split_eq info with Some ab => ab | None => (info, info) end.

  Fixpoint skip_nul (fuel : list N) (p : ptr) (size i : N) : res N :=
    if i <? size then
      match fuel with
      | [] => Fault Hang
      | _ :: f => b <- rd p i 1 ;; if nthN b 0 0 =? 0 then skip_nul f p size (i + 1) else Ok i
      end
    else Ok i.

  Fixpoint mod_parse (fuel : list N) (p : ptr) (size i : N) (acc : list (bytes * bytes)) : res (list (bytes * bytes)) :=
    if i <? size then
      match fuel with
      | [] => Fault Hang
      | _ :: f =>
          let inner := match p with Some b => 0 :: b | None => [0] end in
          i1 <- skip_nul inner p size i ;;
          if i1 <? size then
            info <- cstring_at p i1 ;;
            mod_parse f p size (i1 + lenN info) (acc ++ [mod_split info])
          else mod_parse f p size i1 acc
      end
    else Ok acc.

  Definition mod_new (el : elfio) (sec : N) : res (elfio * mod_acc) :=
    '(el1, p, s) <- sec_data el sec ;;
    match p with
    | None => Ok (el1, mkModAcc sec [])
    | Some b => c <- mod_parse (0 :: 0 :: b) p (sh_size s) 0 [] ;; Ok (el1, mkModAcc sec c)
    end.

  Definition mod_get (a : mod_acc) (no : N) : option (bytes * bytes) := nth_optN (ma_content a) (wrap32 no).
  Fixpoint mod_find (l : list (bytes * bytes)) (field : bytes) : option bytes :=
    match l with
    | [] => None
    | (f, v) :: t => if bytes_eqb field f then Some v else mod_find t field
    end.

  Definition mod_add (el : elfio) (a : mod_acc) (field value : bytes) : res (elfio * mod_acc * N) :=
    match get_sec el (ma_sec a) with
    | None => Fault NullDeref
    | Some s =>
        s1 <- append_data junk (xe el) s (field ++ [61] ++ value ++ [0]) ;;
        Ok (upd_sec el (ma_sec a) s1, mkModAcc (ma_sec a) (ma_content a ++ [(field, value)]), wrap32 (sh_size s))
    end.

  (* ================= versym ================= *)
  Record vs_acc := mkVsAcc { va_sec : N; va_num : N }.
  Definition vs_new (el : elfio) (sec : N) : res vs_acc :=
    match get_sec el sec with
    | None => Ok (mkVsAcc sec 0)          (* null section: every call returns false / 0 *)
    | Some s => Ok (mkVsAcc sec (wrap32 (sh_size s / 2)))
    end.
  Definition vs_get (el : elfio) (a : vs_acc) (no : N) : res (elfio * option N) :=
    match get_sec el (va_sec a) with
    | None => Ok (el, None)
    | Some _ =>
        if wrap32 no <? va_num a then
          '(el1, p, _) <- sec_data el (va_sec a) ;;
          match p with
          | None => Ok (el1, None)          (* data not available: refused (C18 fix) *)
          | Some _ => v <- rd_word host p (wrap32 no * 2) 2 ;; Ok (el1, Some v)
          end
        else Ok (el, None)
    end.
  Definition vs_modify (el : elfio) (a : vs_acc) (no value : N) : res (elfio * bool) :=
    match get_sec el (va_sec a) with
    | None => Ok (el, false)
    | Some _ =>
        if wrap32 no <? va_num a then
          '(el1, p, s) <- sec_data el (va_sec a) ;;
          match p with
          | None => Ok (el1, false)
          | Some _ =>
              p1 <- wr p (wrap32 no * 2) (enc_uint host 2 (wrap16 value)) ;;
              Ok (upd_sec el1 (va_sec a) (with_data s p1 (s_data_size s)), true)
          end
        else Ok (el, false)
    end.
  Definition vs_add (el : elfio) (a : vs_acc) (value : N) : res (elfio * vs_acc * bool) :=
    match get_sec el (va_sec a) with
    | None => Ok (el, a, false)
    | Some s =>
        s1 <- append_data junk (xe el) s (enc_uint host 2 (wrap16 value)) ;;
        Ok (upd_sec el (va_sec a) s1, mkVsAcc (va_sec a) (wrap32 (va_num a + 1)), true)
    end.

  (* ================= verneed / verdef ================= *)
  Fixpoint find_sec_by_name (secs : list section) (i : N) (name : bytes) : option N :=
    match secs with
    | [] => None
    | s :: t => if bytes_eqb (s_name s) name then Some i else find_sec_by_name t (i + 1) name
    end.

  Fixpoint dyn_find_tag (fuel : list N) (el : elfio) (a : dyn_acc) (num : N) (want : N) (i : N) : res (elfio * option N) :=
    if i <? num then
      match fuel with
      | [] => Fault Hang
      | _ :: f =>
          '(el1, _, r) <- dyn_get_entry_with el (da_sec a) num i ;;
          match r with
          | Some (tag, value, _) => if tag =? want then Ok (el1, Some value) else dyn_find_tag f el1 a num want (i + 1)
          | None => dyn_find_tag f el1 a num want (i + 1)
          end
      end
    else Ok (el, None).

  Definition dot_dynamic : bytes := [46; 100; 121; 110; 97; 109; 105; 99].

  (* constructor of versym_r / versym_d accessors: entries_num from .dynamic *)
  Definition ver_entries_num (el : elfio) (want : N) : res (elfio * N) :=
    match find_sec_by_name (el_secs el) 0 dot_dynamic with
    | None => Ok (el, 0)
    | Some di =>
        '(el1, a1, num) <- dyn_entries_num el (mkDynAcc di 0) ;;
        '(el2, p, _) <- sec_data el1 di ;;
        let fuel := match p with Some b => 0 :: b | None => [0; 0] end in
        '(el3, r) <- dyn_find_tag fuel el2 a1 num want 0 ;;
        Ok (el3, match r with Some v => wrap32 v | None => 0 end)
    end.

  (* verneed / verdef (after the C14 and C18 fixes): fields are read in the
     file's byte order; every record reached through vn_next / vn_aux must lie
     inside the section; an invalid string index yields an empty name *)
  Fixpoint ver_chain (fuel : list N) (enc : endian) (p : ptr) (size recsz nxt_off : N) (off : N) (no : N) : res (option N) :=
    if no =? 0 then Ok (Some off)
    else
      match fuel with
      | [] => Fault Hang
      | _ :: f =>
          nx <- rd_word enc p (off + nxt_off) 4 ;;
          if nx =? 0 then Ok (Some off)               (* no progress: all further steps stay here *)
          else if size - recsz <? off + nx then Ok None
          else ver_chain f enc p size recsz nxt_off (off + nx) (no - 1)
      end.

  Record verneed_view := mkVN { vn_version : N; vn_file : bytes; vn_hash : N; vn_flags : N; vn_other : N; vn_dep : bytes }.

  Definition str_or_empty (o : option bytes) : bytes := match o with Some b => b | None => [] end.

  (* the fixed-layout part of get_entry: walk vn_next [no] times, then the record and its first auxiliary
     record.  (The C++ interleaves the two string look-ups with these reads; every read below is inside the
     section once the two bounds tests have passed, so the order cannot be observed.) *)
  Record verneed_raw := mkVNraw { vr_version : N; vr_file : N; vr_hash : N; vr_flags : N; vr_other : N; vr_name : N }.
  Definition verneed_core (enc : endian) (p : ptr) (fuel : list N) (size : N) (no : N) : res (option verneed_raw) :=
    o <- ver_chain fuel enc p size 16 12 0 no ;;
    match o with
    | None => Ok None
    | Some off =>
        aux <- rd_word enc p (off + 8) 4 ;;
        let ao := off + aux in
        if size - 16 <? ao then Ok None else
        file <- rd_word enc p (off + 4) 4 ;;
        name <- rd_word enc p (ao + 8) 4 ;;
        version <- rd_word enc p off 2 ;;
        hash <- rd_word enc p ao 4 ;;
        flags <- rd_word enc p (ao + 4) 2 ;;
        other <- rd_word enc p (ao + 6) 2 ;;
        Ok (Some (mkVNraw version file hash flags other name))
    end.

  Definition verneed_get (el : elfio) (sec : N) (num : N) (no : N) : res (elfio * option verneed_view) :=
    match get_sec el sec with
    | None => Ok (el, None)
    | Some s =>
        if num <=? wrap32 no then Ok (el, None)
        else
          '(el1, p, s1) <- sec_data el sec ;;
          match p with
          | None => Ok (el1, None)
          | Some b =>
              let size := sh_size s1 in
              if size <? 16 then Ok (el1, None) else
              r <- verneed_core (el_enc el1) p (0 :: b) size (wrap32 no) ;;
              match r with
              | None => Ok (el1, None)
              | Some y =>
                  '(el2, fs) <- lookup_str el1 (wrap32 (sh_link s1)) (vr_file y) ;;
                  '(el3, ds) <- lookup_str el2 (wrap32 (sh_link s1)) (vr_name y) ;;
                  Ok (el3, Some (mkVN (vr_version y) (str_or_empty fs) (vr_hash y) (vr_flags y) (vr_other y) (str_or_empty ds)))
              end
          end
    end.

  Record verdef_view := mkVD { vd_flags : N; vd_ndx : N; vd_hash : N; vd_dep : bytes }.

  Record verdef_raw := mkVDraw { dr_flags : N; dr_ndx : N; dr_hash : N; dr_name : N }.
  Definition verdef_core (enc : endian) (p : ptr) (fuel : list N) (size : N) (no : N) : res (option verdef_raw) :=
    o <- ver_chain fuel enc p size 20 16 0 no ;;
    match o with
    | None => Ok None
    | Some off =>
        aux <- rd_word enc p (off + 12) 4 ;;
        let ao := off + aux in
        if size - 8 <? ao then Ok None else
        name <- rd_word enc p ao 4 ;;
        flags <- rd_word enc p (off + 2) 2 ;;
        ndx <- rd_word enc p (off + 4) 2 ;;
        hash <- rd_word enc p (off + 8) 4 ;;
        Ok (Some (mkVDraw flags ndx hash name))
    end.

  Definition verdef_get (el : elfio) (sec : N) (num : N) (no : N) : res (elfio * option verdef_view) :=
    match get_sec el sec with
    | None => Ok (el, None)
    | Some s =>
        if num <=? wrap32 no then Ok (el, None)
        else
          '(el1, p, s1) <- sec_data el sec ;;
          match p with
          | None => Ok (el1, None)
          | Some b =>
              let size := sh_size s1 in
              if size <? 20 then Ok (el1, None) else
              r <- verdef_core (el_enc el1) p (0 :: b) size (wrap32 no) ;;
              match r with
              | None => Ok (el1, None)
              | Some y =>
                  '(el2, ds) <- lookup_str el1 (wrap32 (sh_link s1)) (dr_name y) ;;
                  Ok (el2, Some (mkVD (dr_flags y) (dr_ndx y) (dr_hash y) (str_or_empty ds)))
              end
          end
    end.
End WithEnv.
