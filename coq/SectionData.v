(* SectionData.v — model of section_impl<T> (elfio_section.hpp:159-601):
   header fields, data buffer, set_data / append_data / insert_data,
   free_data.  Header fields hold logical values truncated to the class's
   field width, as the getter/setter pair (convertor applied twice) behaves. *)
From ElfioV Require Import Bytes Mem.
Local Open Scope N_scope.

Definition SHT_NULL := 0.
Definition SHT_PROGBITS := 1.
Definition SHT_SYMTAB := 2.
Definition SHT_STRTAB := 3.
Definition SHT_RELA := 4.
Definition SHT_HASH := 5.
Definition SHT_DYNAMIC := 6.
Definition SHT_NOTE := 7.
Definition SHT_NOBITS := 8.
Definition SHT_REL := 9.
Definition SHT_DYNSYM := 11.
Definition SHT_GNU_HASH := 1879048182. (* 0x6ffffff6 *)
Definition DT_GNU_HASH_c := 1879047925. (* 0x6ffffef5 *)
Definition SHF_ALLOC := 2.
Definition SHF_TLS := 1024.
Definition SHF_COMPRESSED := 2048.
Definition SHF_RPX_DEFLATE := 134217728.

Definition SIZE_MAX := 18446744073709551615. (* 64-bit size_t *)
Definition XWORD_MAX := 18446744073709551615.

Record section := mkSection {
  s_cls : cls;
  s_index : N;
  s_name : bytes;
  sh_name : N; sh_type : N; sh_flags : N; sh_addr : N; sh_offset : N;
  sh_size : N; sh_link : N; sh_info : N; sh_addralign : N; sh_entsize : N;
  s_data : ptr;            (* std::unique_ptr<char[]> data *)
  s_data_size : N;         (* data_size (capacity as the code tracks it) *)
  s_addr_set : bool;       (* is_address_set *)
  s_stream_size : N;
  s_lazy : bool; s_loaded : bool; s_can_load : bool
}.

Definition new_section (c : cls) : section :=
  mkSection c 0 [] 0 0 0 0 0 0 0 0 0 0 None 0 false 0 false false true.

(* field updates *)
Definition with_index s v := mkSection (s_cls s) v (s_name s) (sh_name s) (sh_type s) (sh_flags s) (sh_addr s) (sh_offset s) (sh_size s) (sh_link s) (sh_info s) (sh_addralign s) (sh_entsize s) (s_data s) (s_data_size s) (s_addr_set s) (s_stream_size s) (s_lazy s) (s_loaded s) (s_can_load s).
Definition with_name s v := mkSection (s_cls s) (s_index s) v (sh_name s) (sh_type s) (sh_flags s) (sh_addr s) (sh_offset s) (sh_size s) (sh_link s) (sh_info s) (sh_addralign s) (sh_entsize s) (s_data s) (s_data_size s) (s_addr_set s) (s_stream_size s) (s_lazy s) (s_loaded s) (s_can_load s).
Definition with_sh_name s v := mkSection (s_cls s) (s_index s) (s_name s) (wrap32 v) (sh_type s) (sh_flags s) (sh_addr s) (sh_offset s) (sh_size s) (sh_link s) (sh_info s) (sh_addralign s) (sh_entsize s) (s_data s) (s_data_size s) (s_addr_set s) (s_stream_size s) (s_lazy s) (s_loaded s) (s_can_load s).
Definition with_type s v := mkSection (s_cls s) (s_index s) (s_name s) (sh_name s) (wrap32 v) (sh_flags s) (sh_addr s) (sh_offset s) (sh_size s) (sh_link s) (sh_info s) (sh_addralign s) (sh_entsize s) (s_data s) (s_data_size s) (s_addr_set s) (s_stream_size s) (s_lazy s) (s_loaded s) (s_can_load s).
Definition with_flags s v := mkSection (s_cls s) (s_index s) (s_name s) (sh_name s) (sh_type s) (wrap (xw (s_cls s)) v) (sh_addr s) (sh_offset s) (sh_size s) (sh_link s) (sh_info s) (sh_addralign s) (sh_entsize s) (s_data s) (s_data_size s) (s_addr_set s) (s_stream_size s) (s_lazy s) (s_loaded s) (s_can_load s).
(* set_address also marks the address as initialised *)
Definition with_addr s v := mkSection (s_cls s) (s_index s) (s_name s) (sh_name s) (sh_type s) (sh_flags s) (wrap (xw (s_cls s)) v) (sh_offset s) (sh_size s) (sh_link s) (sh_info s) (sh_addralign s) (sh_entsize s) (s_data s) (s_data_size s) true (s_stream_size s) (s_lazy s) (s_loaded s) (s_can_load s).
Definition with_offset s v := mkSection (s_cls s) (s_index s) (s_name s) (sh_name s) (sh_type s) (sh_flags s) (sh_addr s) (wrap (xw (s_cls s)) v) (sh_size s) (sh_link s) (sh_info s) (sh_addralign s) (sh_entsize s) (s_data s) (s_data_size s) (s_addr_set s) (s_stream_size s) (s_lazy s) (s_loaded s) (s_can_load s).
Definition with_size s v := mkSection (s_cls s) (s_index s) (s_name s) (sh_name s) (sh_type s) (sh_flags s) (sh_addr s) (sh_offset s) (wrap (xw (s_cls s)) v) (sh_link s) (sh_info s) (sh_addralign s) (sh_entsize s) (s_data s) (s_data_size s) (s_addr_set s) (s_stream_size s) (s_lazy s) (s_loaded s) (s_can_load s).
Definition with_link s v := mkSection (s_cls s) (s_index s) (s_name s) (sh_name s) (sh_type s) (sh_flags s) (sh_addr s) (sh_offset s) (sh_size s) (wrap32 v) (sh_info s) (sh_addralign s) (sh_entsize s) (s_data s) (s_data_size s) (s_addr_set s) (s_stream_size s) (s_lazy s) (s_loaded s) (s_can_load s).
Definition with_info s v := mkSection (s_cls s) (s_index s) (s_name s) (sh_name s) (sh_type s) (sh_flags s) (sh_addr s) (sh_offset s) (sh_size s) (sh_link s) (wrap32 v) (sh_addralign s) (sh_entsize s) (s_data s) (s_data_size s) (s_addr_set s) (s_stream_size s) (s_lazy s) (s_loaded s) (s_can_load s).
Definition with_addralign s v := mkSection (s_cls s) (s_index s) (s_name s) (sh_name s) (sh_type s) (sh_flags s) (sh_addr s) (sh_offset s) (sh_size s) (sh_link s) (sh_info s) (wrap (xw (s_cls s)) v) (sh_entsize s) (s_data s) (s_data_size s) (s_addr_set s) (s_stream_size s) (s_lazy s) (s_loaded s) (s_can_load s).
Definition with_entsize s v := mkSection (s_cls s) (s_index s) (s_name s) (sh_name s) (sh_type s) (sh_flags s) (sh_addr s) (sh_offset s) (sh_size s) (sh_link s) (sh_info s) (sh_addralign s) (wrap (xw (s_cls s)) v) (s_data s) (s_data_size s) (s_addr_set s) (s_stream_size s) (s_lazy s) (s_loaded s) (s_can_load s).
Definition with_data s (d : ptr) (ds : N) := mkSection (s_cls s) (s_index s) (s_name s) (sh_name s) (sh_type s) (sh_flags s) (sh_addr s) (sh_offset s) (sh_size s) (sh_link s) (sh_info s) (sh_addralign s) (sh_entsize s) d ds (s_addr_set s) (s_stream_size s) (s_lazy s) (s_loaded s) (s_can_load s).
Definition with_stream_size s v := mkSection (s_cls s) (s_index s) (s_name s) (sh_name s) (sh_type s) (sh_flags s) (sh_addr s) (sh_offset s) (sh_size s) (sh_link s) (sh_info s) (sh_addralign s) (sh_entsize s) (s_data s) (s_data_size s) (s_addr_set s) v (s_lazy s) (s_loaded s) (s_can_load s).
Definition with_load_flags s (lz ld cl : bool) := mkSection (s_cls s) (s_index s) (s_name s) (sh_name s) (sh_type s) (sh_flags s) (sh_addr s) (sh_offset s) (sh_size s) (sh_link s) (sh_info s) (sh_addralign s) (sh_entsize s) (s_data s) (s_data_size s) (s_addr_set s) (s_stream_size s) lz ld cl.
(* raw header as read from a file: fields already within their widths *)
Definition with_raw_header s nm ty fl ad off sz lk inf al es := mkSection (s_cls s) (s_index s) (s_name s) nm ty fl ad off sz lk inf al es (s_data s) (s_data_size s) (s_addr_set s) (s_stream_size s) (s_lazy s) (s_loaded s) (s_can_load s).

Section WithEnv.
  Variable junk : N -> N.            (* contents of fresh allocations *)
  Variable xlat_empty : bool.        (* translator->empty() *)

  (* set_data( const char* raw_data, Elf_Xword size ) with raw_data pointing
     to exactly [raw] (non-null) — elfio_section.hpp:261-278 *)
  Definition set_data (s : section) (raw : bytes) : section :=
    let size := lenN raw in
    let s1 :=
      if sh_type s =? SHT_NOBITS then s
      else with_data s (Some raw) size in
    let s2 := with_size s1 (s_data_size s1) in
    if xlat_empty then with_stream_size s2 (s_data_size s2) else s2.

  (* insert_data( pos, raw_data, size ) — elfio_section.hpp:314-375 *)
  Definition insert_data (s : section) (pos : N) (raw : bytes) : res section :=
    let size := lenN raw in
    if sh_type s =? SHT_NOBITS then Ok s
    else if (match s_data s with None => true | Some _ => false end) && negb (sh_size s =? 0)
    then Ok s            (* the existing data is not available: refused (C07 fix) *)
    else if sh_size s <? pos then Ok s
    else if XWORD_MAX - sh_size s <? size then Ok s
    else
      let new_size := sh_size s + size in
      r <- (if new_size <=? s_data_size s then
              (* in place: copy_backward then copy *)
              tail <- rd (s_data s) pos (sh_size s - pos) ;;
              d1 <- wr (s_data s) (pos + size) tail ;;
              d2 <- wr d1 pos raw ;;
              Ok (Some (with_data s d2 (s_data_size s)))
            else
              let ds := s_data_size s in
              if XWORD_MAX / 2 <? ds then Ok None
              else if XWORD_MAX - 2 * ds <? size then Ok None
              else
                let nds := 2 * ds + size in
                let nd := Some (alloc junk nds) in
                a <- rd (s_data s) 0 pos ;;
                n1 <- wr nd 0 a ;;
                n2 <- wr n1 pos raw ;;
                b <- rd (s_data s) pos (sh_size s - pos) ;;
                n3 <- wr n2 (pos + size) b ;;
                Ok (Some (with_data s n3 nds))) ;;
      match r with
      | None => Ok s
      | Some s1 =>
          let s2 := with_size s1 new_size in
          Ok (if xlat_empty then with_stream_size s2 (wrap64 (s_stream_size s2 + size)) else s2)
      end.

  Definition append_data (s : section) (raw : bytes) : res section :=
    insert_data s (sh_size s) raw.

  (* free_data — only lazily loaded sections drop their buffer *)
  Definition free_data (s : section) : section :=
    if s_lazy s then with_load_flags (with_data s None (s_data_size s)) (s_lazy s) false (s_can_load s)
    else s.
End WithEnv.

(* ---- the byte-string specification (C07) ---- *)
Inductive dop :=
| DSet (raw : bytes)
| DAppend (raw : bytes)
| DInsert (pos : N) (raw : bytes).

Definition spec_step (c : bytes) (o : dop) : bytes :=
  match o with
  | DSet raw => raw
  | DAppend raw => c ++ raw
  | DInsert pos raw =>
      if lenN c <? pos then c else firstnN c pos ++ raw ++ skipnN c pos
  end.
Definition spec_run (ops : list dop) (c : bytes) : bytes := fold_left spec_step ops c.

Definition contents (s : section) : bytes :=
  match s_data s with None => [] | Some b => firstnN b (sh_size s) end.

Definition dstep (junk : N -> N) (xe : bool) (s : section) (o : dop) : res section :=
  match o with
  | DSet raw => Ok (set_data xe s raw)
  | DAppend raw => append_data junk xe s raw
  | DInsert pos raw => insert_data junk xe s pos raw
  end.
Fixpoint drun (junk : N -> N) (xe : bool) (ops : list dop) (s : section) : res section :=
  match ops with
  | [] => Ok s
  | o :: t => s1 <- dstep junk xe s o ;; drun junk xe t s1
  end.
