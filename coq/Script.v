(* Script.v — the script language and its model interpreter.  The same
   scripts are interpreted against the real library by harness/elfio_harness.cpp;
   both print the canonical observation lines defined here. *)
From ElfioV Require Import Bytes Mem Stream SectionData Strings Elfio Table Accessors.
Local Open Scope N_scope.

Inductive sfield := SType | SFlags | SInfo | SLink | SAddralign | SEntsize | SAddr | SSize | SNameOff.

Inductive op :=
| OpCtor (compr : bool)
| OpCreate (c : cls) (e : endian)
| OpHdrSet (f : hfield) (v : N)
| OpAddSec (name : bytes)
| OpSecSet (i : N) (f : sfield) (v : N)
| OpDSet (i : N) (d : bytes)
| OpDApp (i : N) (d : bytes)
| OpDIns (i pos : N) (d : bytes)
| OpGetData (i : N)
| OpFree (i : N)
| OpStrAdd (i : N) (s : bytes)
| OpStrGet (i idx : N)
(* symbols *)
| OpSymAdd (symsec name value size info other shndx : N)
| OpSymAddS (symsec strsec : N) (name : bytes) (value size info other shndx : N)
| OpSymGet (symsec idx : N)
| OpSymName (symsec : N) (name : bytes)
| OpSymVal (symsec value : N)
| OpSymNum (symsec : N)
| OpArrange (symsec relsec : N)          (* relsec = 65535: no callback *)
(* relocations *)
| OpRelAdd (relsec : N) (rela : bool) (offset symbol type addend : N)
| OpRelAddI (relsec : N) (rela : bool) (offset info addend : N)
| OpRelGet (relsec idx : N)
| OpRelGetF (relsec idx : N)
| OpRelSet (relsec idx offset symbol type addend : N)
| OpRelSwap (relsec a b : N)
| OpRelNum (relsec : N)
(* dynamic: accessor handles *)
| OpDynNew (k sec : N)
| OpDynNum (k : N)
| OpDynGet (k idx : N)
| OpDynAdd (k tag value : N)
| OpDynAddS (k tag : N) (str : bytes)
(* notes *)
| OpNoteNew (k : N) (seg : bool) (i : N)
| OpNoteNum (k : N)
| OpNoteGet (k idx : N)
| OpNoteAdd (k type : N) (name desc : bytes)
(* arrays *)
| OpArrAdd (sec w addr : N)
| OpArrGet (sec w idx : N)
| OpArrNum (sec w : N)
(* modinfo *)
| OpModNew (k sec : N)
| OpModNum (k : N)
| OpModGet (k no : N)
| OpModFind (k : N) (field : bytes)
| OpModAdd (k : N) (field value : bytes)
(* versym / verneed / verdef *)
| OpVsNew (k sec : N)
| OpVsNum (k : N)
| OpVsGet (k no : N)
| OpVsMod (k no value : N)
| OpVsAdd (k value : N)
| OpVnNew (k sec : N)
| OpVnNum (k : N)
| OpVnGet (k no : N)
| OpVdNew (k sec : N)
| OpVdNum (k : N)
| OpVdGet (k no : N)
| OpHashElf (name : bytes)
| OpHashGnu (name : bytes).

(* observation lines: a numeric tag, numbers, optionally a byte string *)
Inductive obs :=
| ObN (tag : N) (vals : list N)
| ObB (tag : N) (vals : list N) (b : option bytes)
| ObFault (f : fault).

(* tags *)
Definition T_DATA := 1.      (* b 1 <sec> <size> : data[0..size) | null *)
Definition T_ADDSEC := 2.    (* n 2 <index> *)
Definition T_STRADD := 3.    (* n 3 <sec> <returned index> *)
Definition T_STRGET := 4.    (* b 4 <sec> <idx> : string | null *)

Definition T_SYMADD := 10.   (* n 10 <returned index> *)
Definition T_SYM := 11.      (* b 11 <sec> <idx> <ret> [value size bind type shndx other] : name *)
Definition T_SYMN := 12.     (* b 12 <sec> <ret> [value size bind type shndx other] : queried name *)
Definition T_SYMV := 13.     (* b 13 <sec> <ret> [size bind type shndx other] : name *)
Definition T_SYMNUM := 14.
Definition T_ARRANGE := 15.  (* n 15 <ret> <sh_info> *)
Definition T_REL := 20.      (* n 20 <sec> <idx> <ret> [offset symbol type addend] *)
Definition T_RELF := 21.     (* b 21 <sec> <idx> <ret> [offset symvalue type addend calc] : symname *)
Definition T_RELSET := 22.
Definition T_RELNUM := 23.
Definition T_DYNNUM := 30.
Definition T_DYN := 31.      (* b 31 <k> <idx> <ret> [tag value] : str *)
Definition T_NOTENUM := 40.
Definition T_NOTE := 41.     (* b 41 <k> <idx> <ret> [type descsz] : name *)
Definition T_NOTED := 42.    (* b 42 <k> <idx> : desc | null *)
Definition T_ARRG := 50.     (* n 50 <sec> <idx> <ret> [value] *)
Definition T_ARRNUM := 51.
Definition T_MODNUM := 60.
Definition T_MODF := 61.     (* b 61 <k> <no> <ret> : field *)
Definition T_MODV := 62.     (* b 62 <k> <no> : value *)
Definition T_MODN := 63.     (* b 63 <k> <ret> : value *)
Definition T_MODADD := 64.
Definition T_VSNUM := 70.
Definition T_VS := 71.       (* n 71 <k> <no> <ret> [value] *)
Definition T_VSMOD := 72.
Definition T_VSADD := 73.
Definition T_VNNUM := 80.
Definition T_VN := 81.       (* b 81 <k> <no> <ret> [version hash flags other] : file ; b 82 : dep *)
Definition T_VNDEP := 82.
Definition T_VDNUM := 85.
Definition T_HASH := 90.     (* n 90 <kind 0=sysv 1=gnu> <hash> *)
Definition T_VD := 86.       (* b 86 <k> <no> <ret> [flags ndx hash] : dep *)

Inductive acc :=
| ADyn (a : dyn_acc)
| ANote (a : note_acc)
| AMod (a : mod_acc)
| AVs (a : vs_acc)
| AVer (sec : N) (num : N).

Record world := mkWorld0 { w_el : elfio; w_accs : list (N * acc) }.
Definition mkWorld (el : elfio) : world := mkWorld0 el [].

Fixpoint find_acc (l : list (N * acc)) (k : N) : option acc :=
  match l with
  | [] => None
  | (k', a) :: t => if k =? k' then Some a else find_acc t k
  end.
Definition set_acc (w : world) (el : elfio) (k : N) (a : acc) : world :=
  mkWorld0 el ((k, a) :: w_accs w).
Definition keep (w : world) (el : elfio) : world := mkWorld0 el (w_accs w).

Definition host_order : endian := LSB.    (* the machine the correspondence runs on *)

Definition b2n (b : bool) : N := if b then 1 else 0.

Definition junk0 (i : N) : N := 205.   (* 0xCD: what the model puts in fresh allocations *)

Definition sec_set (s : section) (f : sfield) (v : N) : section :=
  match f with
  | SType => with_type s v
  | SFlags => with_flags s v
  | SInfo => with_info s v
  | SLink => with_link s v
  | SAddralign => with_addralign s v
  | SEntsize => with_entsize s v
  | SAddr => with_addr s v
  | SSize => with_size s v
  | SNameOff => with_sh_name s v
  end.

Definition need_sec (el : elfio) (i : N) : res section :=
  match get_sec el i with Some s => Ok s | None => Fault NullDeref end.

Definition step (w : world) (o : op) : res (world * list obs) :=
  let el := w_el w in
  let mkWorld := keep w in
  match o with
  | OpCtor compr =>
      el1 <- (if compr then ctor_compr else ctor_plain junk0) ;;
      Ok (mkWorld el1, [])
  | OpCreate c e => el1 <- create junk0 el c e ;; Ok (mkWorld el1, [])
  | OpHdrSet f v =>
      Ok (mkWorld (with_hdr el (option_map (fun h => hdr_set h f v) (el_hdr el))), [])
  | OpAddSec name =>
      '(el1, i) <- sections_add junk0 el name ;; Ok (mkWorld el1, [ObN T_ADDSEC [i]])
  | OpSecSet i f v =>
      s <- need_sec el i ;; Ok (mkWorld (upd_sec el i (sec_set s f v)), [])
  | OpDSet i d =>
      s <- need_sec el i ;; Ok (mkWorld (upd_sec el i (set_data (xe el) s d)), [])
  | OpDApp i d =>
      s <- need_sec el i ;; s1 <- append_data junk0 (xe el) s d ;; Ok (mkWorld (upd_sec el i s1), [])
  | OpDIns i pos d =>
      s <- need_sec el i ;; s1 <- insert_data junk0 (xe el) s pos d ;; Ok (mkWorld (upd_sec el i s1), [])
  | OpGetData i =>
      '(el1, p) <- el_sec_get_data junk0 el i ;;
      s <- need_sec el1 i ;;
      match p with
      | None => Ok (mkWorld el1, [ObB T_DATA [i; sh_size s] None])
      | Some _ => bs <- rd p 0 (sh_size s) ;; Ok (mkWorld el1, [ObB T_DATA [i; sh_size s] (Some bs)])
      end
  | OpFree i =>
      s <- need_sec el i ;; Ok (mkWorld (upd_sec el i (free_data s)), [])
  | OpStrAdd i str =>
      s <- need_sec el i ;;
      '(s1, idx) <- add_string junk0 (xe el) s (take_cstr str) ;;
      Ok (mkWorld (upd_sec el i s1), [ObN T_STRADD [i; idx]])
  | OpStrGet i idx =>
      '(el1, p) <- el_sec_get_data junk0 el i ;;
      s <- need_sec el1 i ;;
      r <- get_string_raw p (sh_size s) (wrap32 idx) ;;
      Ok (mkWorld el1, [ObB T_STRGET [i; idx] r])
  | OpHashElf name => Ok (w, [ObN T_HASH [0; elf_hash (take_cstr name)]])
  | OpHashGnu name => Ok (w, [ObN T_HASH [1; elf_gnu_hash (take_cstr name)]])
  (* ---- symbols ---- *)
  | OpSymAdd symsec name value size info other shndx =>
      '(el1, r) <- add_symbol junk0 el symsec (mkSym name value size info other shndx) ;;
      Ok (mkWorld el1, [ObN T_SYMADD [r]])
  | OpSymAddS symsec strsec name value size info other shndx =>
      '(el1, r) <- add_symbol_str junk0 el symsec strsec name (mkSym 0 value size info other shndx) ;;
      Ok (mkWorld el1, [ObN T_SYMADD [r]])
  | OpSymGet symsec idx =>
      '(el1, r) <- get_symbol junk0 el symsec idx ;;
      Ok (mkWorld el1,
          [match r with
           | Some v => ObB T_SYM [symsec; idx; 1; sv_value v; sv_size v; sv_bind v; sv_type v; sv_shndx v; sv_other v] (Some (sv_name v))
           | None => ObB T_SYM [symsec; idx; 0] (Some [])
           end])
  | OpSymName symsec name =>
      '(el1, r) <- get_symbol_by_name junk0 el symsec name ;;
      Ok (mkWorld el1,
          [match r with
           | Some v => ObB T_SYMN [symsec; 1; sv_value v; sv_size v; sv_bind v; sv_type v; sv_shndx v; sv_other v] (Some name)
           | None => ObB T_SYMN [symsec; 0] (Some name)
           end])
  | OpSymVal symsec value =>
      '(el1, r) <- get_symbol_by_value junk0 el symsec value ;;
      Ok (mkWorld el1,
          [match r with
           | Some v => ObB T_SYMV [symsec; 1; sv_size v; sv_bind v; sv_type v; sv_shndx v; sv_other v] (Some (sv_name v))
           | None => ObB T_SYMV [symsec; 0] (Some [])
           end])
  | OpSymNum symsec =>
      s <- need_sec el symsec ;; Ok (w, [ObN T_SYMNUM [symsec; get_symbols_num el s]])
  | OpArrange symsec relsec =>
      '(el1, ret, log) <- arrange_local_symbols junk0 el symsec ;;
      el2 <- (if relsec =? 65535 then Ok el1
              else fold_left (fun acc pr => e <- acc ;; swap_symbols junk0 e relsec (fst pr) (snd pr)) log (Ok el1)) ;;
      s <- need_sec el2 symsec ;;
      Ok (mkWorld el2, [ObN T_ARRANGE [ret; sh_info s]])
  (* ---- relocations ---- *)
  | OpRelAdd relsec rela offset symbol type addend =>
      el1 <- rel_add_entry_sym junk0 el relsec rela offset symbol type addend ;; Ok (mkWorld el1, [])
  | OpRelAddI relsec rela offset info addend =>
      el1 <- rel_add_entry junk0 el relsec rela offset info addend ;; Ok (mkWorld el1, [])
  | OpRelGet relsec idx =>
      '(el1, r) <- rel_get_entry junk0 el relsec idx ;;
      Ok (mkWorld el1,
          [match r with
           | Some v => ObN T_REL [relsec; idx; 1; rv_offset v; rv_symbol v; rv_type v; rv_addend v]
           | None => ObN T_REL [relsec; idx; 0]
           end])
  | OpRelGetF relsec idx =>
      '(el1, r) <- rel_get_entry_full junk0 el relsec idx ;;
      Ok (mkWorld el1,
          [match r with
           | Some f => let v := rf_base f in
               ObB T_RELF [relsec; idx; 1; rv_offset v; rf_symvalue f; rv_type v; rv_addend v; rf_calc f] (Some (rf_symname f))
           | None => ObB T_RELF [relsec; idx; 0] (Some [])
           end])
  | OpRelSet relsec idx offset symbol type addend =>
      '(el1, r) <- rel_set_entry junk0 el relsec idx offset symbol type addend ;;
      Ok (mkWorld el1, [ObN T_RELSET [b2n r]])
  | OpRelSwap relsec a b =>
      el1 <- swap_symbols junk0 el relsec a b ;; Ok (mkWorld el1, [])
  | OpRelNum relsec =>
      s <- need_sec el relsec ;; Ok (w, [ObN T_RELNUM [relsec; rel_entries_num s]])
  (* ---- dynamic ---- *)
  | OpDynNew k sec =>
      _ <- need_sec el sec ;; Ok (set_acc w el k (ADyn (mkDynAcc sec 0)), [])
  | OpDynNum k =>
      match find_acc (w_accs w) k with
      | Some (ADyn a) =>
          '(el1, a1, n) <- dyn_entries_num junk0 el a ;;
          Ok (set_acc w el1 k (ADyn a1), [ObN T_DYNNUM [k; n]])
      | _ => Fault NullDeref
      end
  | OpDynGet k idx =>
      match find_acc (w_accs w) k with
      | Some (ADyn a) =>
          '(el1, a1, r) <- dyn_get_entry junk0 el a idx ;;
          Ok (set_acc w el1 k (ADyn a1),
              [match r with
               | Some (tag, value, str) => ObB T_DYN [k; idx; 1; tag; value] (Some str)
               | None => ObB T_DYN [k; idx; 0] (Some [])
               end])
      | _ => Fault NullDeref
      end
  | OpDynAdd k tag value =>
      match find_acc (w_accs w) k with
      | Some (ADyn a) => '(el1, a1) <- dyn_add_entry junk0 el a tag value ;; Ok (set_acc w el1 k (ADyn a1), [])
      | _ => Fault NullDeref
      end
  | OpDynAddS k tag str =>
      match find_acc (w_accs w) k with
      | Some (ADyn a) => '(el1, a1) <- dyn_add_entry_str junk0 el a tag str ;; Ok (set_acc w el1 k (ADyn a1), [])
      | _ => Fault NullDeref
      end
  (* ---- notes ---- *)
  | OpNoteNew k seg i =>
      '(el1, a) <- note_new junk0 el (if seg then NoteSeg i else NoteSec i) ;;
      Ok (set_acc w el1 k (ANote a), [])
  | OpNoteNum k =>
      match find_acc (w_accs w) k with
      | Some (ANote a) => Ok (w, [ObN T_NOTENUM [k; wrap32 (lenN (na_starts a))]])
      | _ => Fault NullDeref
      end
  | OpNoteGet k idx =>
      match find_acc (w_accs w) k with
      | Some (ANote a) =>
          '(el1, r) <- note_get junk0 el a idx ;;
          Ok (mkWorld el1,
              match r with
              | Some v => [ObB T_NOTE [k; idx; 1; nv_type v; nv_descsz v] (Some (nv_name v)); ObB T_NOTED [k; idx] (nv_desc v)]
              | None => [ObB T_NOTE [k; idx; 0] (Some [])]
              end)
      | _ => Fault NullDeref
      end
  | OpNoteAdd k type name desc =>
      match find_acc (w_accs w) k with
      | Some (ANote a) =>
          '(el1, a1) <- note_add junk0 el a type name desc ;; Ok (set_acc w el1 k (ANote a1), [])
      | _ => Fault NullDeref
      end
  (* ---- arrays ---- *)
  | OpArrAdd sec wd addr => el1 <- arr_add_entry junk0 el sec wd addr ;; Ok (mkWorld el1, [])
  | OpArrGet sec wd idx =>
      '(el1, r) <- arr_get_entry junk0 el sec wd idx ;;
      Ok (mkWorld el1, [match r with Some v => ObN T_ARRG [sec; idx; 1; v] | None => ObN T_ARRG [sec; idx; 0] end])
  | OpArrNum sec wd => s <- need_sec el sec ;; Ok (w, [ObN T_ARRNUM [sec; arr_entries_num s wd]])
  (* ---- modinfo ---- *)
  | OpModNew k sec => '(el1, a) <- mod_new junk0 el sec ;; Ok (set_acc w el1 k (AMod a), [])
  | OpModNum k =>
      match find_acc (w_accs w) k with
      | Some (AMod a) => Ok (w, [ObN T_MODNUM [k; wrap32 (lenN (ma_content a))]])
      | _ => Fault NullDeref
      end
  | OpModGet k no =>
      match find_acc (w_accs w) k with
      | Some (AMod a) =>
          Ok (w, match mod_get a no with
                 | Some (f, v) => [ObB T_MODF [k; no; 1] (Some f); ObB T_MODV [k; no] (Some v)]
                 | None => [ObB T_MODF [k; no; 0] (Some [])]
                 end)
      | _ => Fault NullDeref
      end
  | OpModFind k field =>
      match find_acc (w_accs w) k with
      | Some (AMod a) =>
          Ok (w, [match mod_find (ma_content a) field with
                  | Some v => ObB T_MODN [k; 1] (Some v)
                  | None => ObB T_MODN [k; 0] (Some [])
                  end])
      | _ => Fault NullDeref
      end
  | OpModAdd k field value =>
      match find_acc (w_accs w) k with
      | Some (AMod a) =>
          '(el1, a1, pos) <- mod_add junk0 el a field value ;;
          Ok (set_acc w el1 k (AMod a1), [ObN T_MODADD [k; pos]])
      | _ => Fault NullDeref
      end
  (* ---- versym ---- *)
  | OpVsNew k sec => a <- vs_new el sec ;; Ok (set_acc w el k (AVs a), [])
  | OpVsNum k =>
      match find_acc (w_accs w) k with
      | Some (AVs a) => Ok (w, [ObN T_VSNUM [k; match get_sec el (va_sec a) with Some _ => va_num a | None => 0 end]])
      | _ => Fault NullDeref
      end
  | OpVsGet k no =>
      match find_acc (w_accs w) k with
      | Some (AVs a) =>
          '(el1, r) <- vs_get junk0 host_order el a no ;;
          Ok (mkWorld el1, [match r with Some v => ObN T_VS [k; no; 1; v] | None => ObN T_VS [k; no; 0] end])
      | _ => Fault NullDeref
      end
  | OpVsMod k no value =>
      match find_acc (w_accs w) k with
      | Some (AVs a) =>
          '(el1, r) <- vs_modify junk0 host_order el a no value ;; Ok (mkWorld el1, [ObN T_VSMOD [k; b2n r]])
      | _ => Fault NullDeref
      end
  | OpVsAdd k value =>
      match find_acc (w_accs w) k with
      | Some (AVs a) =>
          '(el1, a1, r) <- vs_add junk0 host_order el a value ;;
          Ok (set_acc w el1 k (AVs a1), [ObN T_VSADD [k; b2n r]])
      | _ => Fault NullDeref
      end
  | OpVnNew k sec =>
      '(el1, n) <- ver_entries_num junk0 el DT_VERNEEDNUM ;; Ok (set_acc w el1 k (AVer sec n), [])
  | OpVdNew k sec =>
      '(el1, n) <- ver_entries_num junk0 el DT_VERDEFNUM ;; Ok (set_acc w el1 k (AVer sec n), [])
  | OpVnNum k =>
      match find_acc (w_accs w) k with
      | Some (AVer _ n) => Ok (w, [ObN T_VNNUM [k; n]])
      | _ => Fault NullDeref
      end
  | OpVdNum k =>
      match find_acc (w_accs w) k with
      | Some (AVer _ n) => Ok (w, [ObN T_VDNUM [k; n]])
      | _ => Fault NullDeref
      end
  | OpVnGet k no =>
      match find_acc (w_accs w) k with
      | Some (AVer sec n) =>
          '(el1, r) <- verneed_get junk0 el sec n no ;;
          Ok (mkWorld el1,
              match r with
              | Some v => [ObB T_VN [k; no; 1; vn_version v; vn_hash v; vn_flags v; vn_other v] (Some (vn_file v));
                           ObB T_VNDEP [k; no] (Some (vn_dep v))]
              | None => [ObB T_VN [k; no; 0] (Some [])]
              end)
      | _ => Fault NullDeref
      end
  | OpVdGet k no =>
      match find_acc (w_accs w) k with
      | Some (AVer sec n) =>
          '(el1, r) <- verdef_get junk0 el sec n no ;;
          Ok (mkWorld el1,
              [match r with
               | Some v => ObB T_VD [k; no; 1; vd_flags v; vd_ndx v; vd_hash v] (Some (vd_dep v))
               | None => ObB T_VD [k; no; 0] (Some [])
               end])
      | _ => Fault NullDeref
      end
  end.

Fixpoint run_ops (w : world) (ops : list op) : list obs :=
  match ops with
  | [] => []
  | o :: t =>
      match step w o with
      | Ok (w1, out) => out ++ run_ops w1 t
      | Fault f => [ObFault f]
      end
  end.

Definition init_world : world := mkWorld (empty_elfio false).
Definition run_script (ops : list op) : list obs := run_ops init_world ops.
