(* Script.v — the script language and its model interpreter.  The same
   scripts are interpreted against the real library by harness/elfio_harness.cpp;
   both print the canonical observation lines defined here. *)
From ElfioV Require Import Bytes Mem Stream SectionData Strings Elfio.
Local Open Scope N_scope.

Inductive sfield := SType | SFlags | SInfo | SLink | SAddralign | SEntsize | SAddr | SSize | SNameOff.

Inductive op :=
| OpCtor (compr : bool)
| OpCreate (c : cls) (e : endian)
| OpHdrSet (f : hfield) (v : N)
| OpAddSec (name : bytes)
| OpSecSet (i : N) (f : sfield) (v : N)
| OpDSet (i : N) (d : bytes)
| OpDApp (i : N) (d : bytes)
| OpDIns (i pos : N) (d : bytes)
| OpGetData (i : N)
| OpFree (i : N)
| OpStrAdd (i : N) (s : bytes)
| OpStrGet (i idx : N).

(* observation lines: a numeric tag, numbers, optionally a byte string *)
Inductive obs :=
| ObN (tag : N) (vals : list N)
| ObB (tag : N) (vals : list N) (b : option bytes)
| ObFault (f : fault).

(* tags *)
Definition T_DATA := 1.      (* b 1 <sec> <size> : data[0..size) | null *)
Definition T_ADDSEC := 2.    (* n 2 <index> *)
Definition T_STRADD := 3.    (* n 3 <sec> <returned index> *)
Definition T_STRGET := 4.    (* b 4 <sec> <idx> : string | null *)

Record world := mkWorld { w_el : elfio }.

Definition junk0 (i : N) : N := 205.   (* 0xCD: what the model puts in fresh allocations *)

Definition sec_set (s : section) (f : sfield) (v : N) : section :=
  match f with
  | SType => with_type s v
  | SFlags => with_flags s v
  | SInfo => with_info s v
  | SLink => with_link s v
  | SAddralign => with_addralign s v
  | SEntsize => with_entsize s v
  | SAddr => with_addr s v
  | SSize => with_size s v
  | SNameOff => with_sh_name s v
  end.

Definition need_sec (el : elfio) (i : N) : res section :=
  match get_sec el i with Some s => Ok s | None => Fault NullDeref end.

Definition step (w : world) (o : op) : res (world * list obs) :=
  let el := w_el w in
  match o with
  | OpCtor compr =>
      el1 <- (if compr then ctor_compr else ctor_plain junk0) ;;
      Ok (mkWorld el1, [])
  | OpCreate c e => el1 <- create junk0 el c e ;; Ok (mkWorld el1, [])
  | OpHdrSet f v =>
      Ok (mkWorld (with_hdr el (option_map (fun h => hdr_set h f v) (el_hdr el))), [])
  | OpAddSec name =>
      '(el1, i) <- sections_add junk0 el name ;; Ok (mkWorld el1, [ObN T_ADDSEC [i]])
  | OpSecSet i f v =>
      s <- need_sec el i ;; Ok (mkWorld (upd_sec el i (sec_set s f v)), [])
  | OpDSet i d =>
      s <- need_sec el i ;; Ok (mkWorld (upd_sec el i (set_data (xe el) s d)), [])
  | OpDApp i d =>
      s <- need_sec el i ;; s1 <- append_data junk0 (xe el) s d ;; Ok (mkWorld (upd_sec el i s1), [])
  | OpDIns i pos d =>
      s <- need_sec el i ;; s1 <- insert_data junk0 (xe el) s pos d ;; Ok (mkWorld (upd_sec el i s1), [])
  | OpGetData i =>
      '(el1, p) <- el_sec_get_data junk0 el i ;;
      s <- need_sec el1 i ;;
      match p with
      | None => Ok (mkWorld el1, [ObB T_DATA [i; sh_size s] None])
      | Some _ => bs <- rd p 0 (sh_size s) ;; Ok (mkWorld el1, [ObB T_DATA [i; sh_size s] (Some bs)])
      end
  | OpFree i =>
      s <- need_sec el i ;; Ok (mkWorld (upd_sec el i (free_data s)), [])
  | OpStrAdd i str =>
      s <- need_sec el i ;;
      '(s1, idx) <- add_string junk0 (xe el) s (take_cstr str) ;;
      Ok (mkWorld (upd_sec el i s1), [ObN T_STRADD [i; idx]])
  | OpStrGet i idx =>
      '(el1, p) <- el_sec_get_data junk0 el i ;;
      s <- need_sec el1 i ;;
      r <- get_string_raw p (sh_size s) (wrap32 idx) ;;
      Ok (mkWorld el1, [ObB T_STRGET [i; idx] r])
  end.

Fixpoint run_ops (w : world) (ops : list op) : list obs :=
  match ops with
  | [] => []
  | o :: t =>
      match step w o with
      | Ok (w1, out) => out ++ run_ops w1 t
      | Fault f => [ObFault f]
      end
  end.

Definition init_world : world := mkWorld (empty_elfio false).
Definition run_script (ops : list op) : list obs := run_ops init_world ops.
