(* Script.v — the script language and its model interpreter.  The same
   scripts are interpreted against the real library by harness/elfio_harness.cpp;
   both print the canonical observation lines defined here. *)
From ElfioV Require Import Bytes Mem Stream SectionData Strings Elfio Table Accessors Loader Layout Writer.
Local Open Scope N_scope.

Inductive sfield := SType | SFlags | SInfo | SLink | SAddralign | SEntsize | SAddr | SSize | SNameOff.

Inductive op :=
| OpCtor (compr : bool)
| OpCreate (c : cls) (e : endian)
| OpHdrSet (f : hfield) (v : N)
| OpAddSec (name : bytes)
| OpSecSet (i : N) (f : sfield) (v : N)
| OpDSet (i : N) (d : bytes)
| OpDApp (i : N) (d : bytes)
| OpDIns (i pos : N) (d : bytes)
| OpGetData (i : N)
| OpFree (i : N)
| OpStrAdd (i : N) (s : bytes)
| OpStrGet (i idx : N)
(* the same operations with an argument that points into the section's own buffer *)
| OpStrAddSelf (i idx : N)             (* add_string( get_string( idx ) ) *)
| OpDAppSelf (i off len : N)           (* append_data( get_data() + off, len ) *)
| OpStrNew (k sec : N)                 (* string_section_accessor a( sections[sec] ), kept under handle k *)
| OpStrGetK (k idx : N)                (* a.get_string( idx ) through that accessor *)
| OpStrAddK (k : N) (s : bytes)        (* a.add_string( s ) through that accessor *)
| OpSymNew (k sec : N)                 (* symbol_section_accessor a( elf, sections[sec] ), kept under handle k *)
| OpSymGetK (k idx : N)                (* a.get_symbol( idx, ... ) through that accessor *)
| OpSymNameK (k : N) (name : bytes)    (* a.get_symbol( name, ... ) *)
| OpSymValK (k value : N)              (* a.get_symbol( value, ... ) *)
| OpSymNumK (k : N)                    (* a.get_symbols_num() *)
| OpRelNew (k sec : N)                 (* relocation_section_accessor a( elf, sections[sec] ), kept under handle k *)
| OpRelAddK (k : N) (rela : bool) (offset symbol type addend : N)
| OpRelGetK (k idx : N)
| OpRelSetK (k idx offset symbol type addend : N)
| OpRelSwapK (k a b : N)
| OpRelNumK (k : N)
| OpNoteAddSelf (k type : N) (name : bytes) (idx : N)   (* add_note( type, name, desc, descsz ) with desc, descsz as get_note( idx ) returned them *)
(* symbols *)
| OpSymAdd (symsec name value size info other shndx : N)
| OpSymAddS (symsec strsec : N) (name : bytes) (value size info other shndx : N)
| OpSymGet (symsec idx : N)
| OpSymName (symsec : N) (name : bytes)
| OpSymVal (symsec value : N)
| OpSymNum (symsec : N)
| OpArrange (symsec relsec : N)          (* relsec = 65535: no callback *)
(* relocations *)
| OpRelAdd (relsec : N) (rela : bool) (offset symbol type addend : N)
| OpRelAddI (relsec : N) (rela : bool) (offset info addend : N)
| OpRelGet (relsec idx : N)
| OpRelGetF (relsec idx : N)
| OpRelSet (relsec idx offset symbol type addend : N)
| OpRelSwap (relsec a b : N)
| OpRelNum (relsec : N)
(* dynamic: accessor handles *)
| OpDynNew (k sec : N)
| OpDynNum (k : N)
| OpDynGet (k idx : N)
| OpDynAdd (k tag value : N)
| OpDynAddS (k tag : N) (str : bytes)
(* notes *)
| OpNoteNew (k : N) (seg : bool) (i : N)
| OpNoteNum (k : N)
| OpNoteGet (k idx : N)
| OpNoteAdd (k type : N) (name desc : bytes)
(* arrays *)
| OpArrAdd (sec w addr : N)
| OpArrGet (sec w idx : N)
| OpArrNum (sec w : N)
(* modinfo *)
| OpModNew (k sec : N)
| OpModNum (k : N)
| OpModGet (k no : N)
| OpModFind (k : N) (field : bytes)
| OpModAdd (k : N) (field value : bytes)
(* versym / verneed / verdef *)
| OpVsNew (k sec : N)
| OpVsNum (k : N)
| OpVsGet (k no : N)
| OpVsMod (k no value : N)
| OpVsAdd (k value : N)
| OpVnNew (k sec : N)
| OpVnNum (k : N)
| OpVnGet (k no : N)
| OpVdNew (k sec : N)
| OpVdNum (k : N)
| OpVdGet (k no : N)
| OpHashElf (name : bytes)
| OpHashGnu (name : bytes)
(* segments, load, save, observation *)
| OpAddSeg
| OpSegSet (j : N) (f : gfield) (v : N)
| OpSegAdd (j i align : N)            (* add_section_index( i, align ) *)
| OpSegAddSec (j i : N)               (* add_section( sections[i], sections[i]->get_addr_align() ) *)
| OpXlat (entries : list (N * N * N))
| OpLoad (file : bool) (lazy : bool) (content : bytes)
| OpSave (cap : option N)
| OpSavePath (full : bool)           (* save( file_name ): unopenable path / a device without space *)
| OpValidate
| OpObsHdr
| OpObsSec (i : N)
| OpObsSeg (j : N)
| OpSegData (j : N)
| OpSegFree (j : N)
| OpObsAll
| OpAllocMax
| OpDump
| OpObj (k : N)
| OpMoveCtor (dst src : N)        (* elfio dst( std::move( src ) ) *)
| OpMoveAssign (dst src : N)      (* dst = std::move( src ) *)
| OpDestroy (k : N)               (* delete the object *)
| OpQueryAll              (* the C01 readers on every section/segment, boundary indices *)
| OpQueryAll18.           (* the C18 readers likewise *)

(* observation lines: a numeric tag, numbers, optionally a byte string *)
Inductive obs :=
| ObN (tag : N) (vals : list N)
| ObB (tag : N) (vals : list N) (b : option bytes)
| ObFault (f : fault).

(* tags *)
Definition T_DATA := 1.      (* b 1 <sec> <size> : data[0..size) | null *)
Definition T_ADDSEC := 2.    (* n 2 <index> *)
Definition T_STRADD := 3.    (* n 3 <sec> <returned index> *)
Definition T_STRGET := 4.    (* b 4 <sec> <idx> : string | null *)

Definition T_SYMADD := 10.   (* n 10 <returned index> *)
Definition T_SYM := 11.      (* b 11 <sec> <idx> <ret> [value size bind type shndx other] : name *)
Definition T_SYMN := 12.     (* b 12 <sec> <ret> [value size bind type shndx other] : queried name *)
Definition T_SYMV := 13.     (* b 13 <sec> <ret> [size bind type shndx other] : name *)
Definition T_SYMNUM := 14.
Definition T_ARRANGE := 15.  (* n 15 <ret> <sh_info> *)
Definition T_REL := 20.      (* n 20 <sec> <idx> <ret> [offset symbol type addend] *)
Definition T_RELF := 21.     (* b 21 <sec> <idx> <ret> [offset symvalue type addend calc] : symname *)
Definition T_RELSET := 22.
Definition T_RELNUM := 23.
Definition T_DYNNUM := 30.
Definition T_DYN := 31.      (* b 31 <k> <idx> <ret> [tag value] : str *)
Definition T_NOTENUM := 40.
Definition T_NOTE := 41.     (* b 41 <k> <idx> <ret> [type descsz] : name *)
Definition T_NOTED := 42.    (* b 42 <k> <idx> : desc | null *)
Definition T_ARRG := 50.     (* n 50 <sec> <idx> <ret> [value] *)
Definition T_ARRNUM := 51.
Definition T_MODNUM := 60.
Definition T_MODF := 61.     (* b 61 <k> <no> <ret> : field *)
Definition T_MODV := 62.     (* b 62 <k> <no> : value *)
Definition T_MODN := 63.     (* b 63 <k> <ret> : value *)
Definition T_MODADD := 64.
Definition T_VSNUM := 70.
Definition T_VS := 71.       (* n 71 <k> <no> <ret> [value] *)
Definition T_VSMOD := 72.
Definition T_VSADD := 73.
Definition T_VNNUM := 80.
Definition T_VN := 81.       (* b 81 <k> <no> <ret> [version hash flags other] : file ; b 82 : dep *)
Definition T_VNDEP := 82.
Definition T_VDNUM := 85.
Definition T_ADDSEG := 100.
Definition T_LOAD := 101.    (* n 101 <ret> *)
Definition T_SAVE := 102.    (* b 102 <ret> : bytes written *)
Definition T_VALID := 103.   (* n 103 <overlap complaints> <segment complaints> *)
Definition T_HDR := 104.     (* n 104 class enc elfver osabi abiver type machine version entry flags phoff shoff ehsize phentsize phnum shentsize shnum shstrndx *)
Definition T_SEC := 105.     (* b 105 i type flags addr offset size link info addralign entsize nameoff : name *)
Definition T_SEG := 106.     (* n 106 j type flags offset vaddr paddr filesz memsz align nmembers members... *)
Definition T_SEGDATA := 107. (* b 107 j filesz : data | null *)
Definition T_COUNTS := 108.  (* n 108 nsec nseg *)
Definition T_ALLOCMAX := 109.
Definition T_ABSENT := 111.  (* n 111 <i>: no such section/segment *)
Definition T_DUMP := 110.
Definition T_OBJ := 120.     (* n 120 <k>: following operations act on object k *)
Definition T_HASH := 90.     (* n 90 <kind 0=sysv 1=gnu> <hash> *)
Definition T_VD := 86.       (* b 86 <k> <no> <ret> [flags ndx hash] : dep *)

Inductive acc :=
| ADyn (a : dyn_acc)
| ANote (a : note_acc)
| AMod (a : mod_acc)
| AVs (a : vs_acc)
| AStr (sec : N)               (* a string_section_accessor kept alive across operations: it holds nothing but the section *)
| ASym (sec : N)               (* a symbol_section_accessor kept alive across operations: it holds nothing but the section *)
| ARel (sec : N)               (* a relocation_section_accessor kept alive across operations: it holds nothing but the section *)
| AVer (sec : N) (num : N).

Record world := mkWorld1 { w_el : elfio; w_accs : list (N * acc); w_allocs : list N;
                          w_cur : N; w_others : list (N * (elfio * list (N * acc) * list N)) }.
Definition mkWorld0 (el : elfio) (accs : list (N * acc)) (al : list N) : world := mkWorld1 el accs al 0 [].
Definition mkWorld (el : elfio) : world := mkWorld0 el [] [].

Fixpoint find_acc (l : list (N * acc)) (k : N) : option acc :=
  match l with
  | [] => None
  | (k', a) :: t => if k =? k' then Some a else find_acc t k
  end.
Definition set_acc (w : world) (el : elfio) (k : N) (a : acc) : world :=
  mkWorld1 el ((k, a) :: w_accs w) (w_allocs w) (w_cur w) (w_others w).
Definition keep (w : world) (el : elfio) : world := mkWorld1 el (w_accs w) (w_allocs w) (w_cur w) (w_others w).

Definition host_order : endian := LSB.    (* the machine the correspondence runs on *)

Definition b2n (b : bool) : N := if b then 1 else 0.

Definition junk0 (i : N) : N := 205.   (* 0xCD: what the model puts in fresh allocations *)

Definition sec_set (s : section) (f : sfield) (v : N) : section :=
  match f with
  | SType => with_type s v
  | SFlags => with_flags s v
  | SInfo => with_info s v
  | SLink => with_link s v
  | SAddralign => with_addralign s v
  | SEntsize => with_entsize s v
  | SAddr => with_addr s v
  | SSize => with_size s v
  | SNameOff => with_sh_name s v
  end.

Definition need_sec (el : elfio) (i : N) : res section :=
  match get_sec el i with Some s => Ok s | None => Fault NullDeref end.

Definition obs_hdr (el : elfio) : obs :=
  match el_hdr el with
  | None => ObN T_HDR [0; 0; 0; 0; 0; 0; 0; 0; 0; 0; 0; 0; 0; 0; wrap16 (lenN (el_segs el)); 0; wrap16 (lenN (el_secs el)); 0]
  | Some h =>
      let id k := nthN (e_ident h) k 0 in
      ObN T_HDR [id 4; id 5; id 6; id 7; id 8; e_type h; e_machine h; e_version h; e_entry h; e_flags h;
                 e_phoff h; e_shoff h; e_ehsize h; e_phentsize h; wrap16 (lenN (el_segs el)); e_shentsize h;
                 wrap16 (lenN (el_secs el)); e_shstrndx h]
  end.

Definition obs_sec (i : N) (s : section) : obs :=
  ObB T_SEC [i; sh_type s; sh_flags s; sh_addr s; sh_offset s; sh_size s; sh_link s; sh_info s;
             sh_addralign s; sh_entsize s; sh_name s] (Some (s_name s)).

Definition obs_seg (j : N) (g : segment) : obs :=
  let members := firstnN (g_sections g) (seg_sections_num g) in
  ObN T_SEG ([j; p_type g; p_flags g; p_offset g; p_vaddr g; p_paddr g; p_filesz g; p_memsz g; p_align g;
              seg_sections_num g] ++ members).

Definition obs_data (el : elfio) (i : N) : res (elfio * obs) :=
  '(el1, p) <- el_sec_get_data junk0 el i ;;
  match get_sec el1 i with
  | None => Fault NullDeref
  | Some s =>
      match p with
      | None => Ok (el1, ObB T_DATA [i; sh_size s] None)
      | Some _ => bs <- rd p 0 (sh_size s) ;; Ok (el1, ObB T_DATA [i; sh_size s] (Some bs))
      end
  end.

Definition obs_segdata (el : elfio) (j : N) : res (elfio * obs) :=
  '(el1, p) <- el_seg_get_data el j ;;
  match get_seg el1 j with
  | None => Fault OobRead
  | Some g =>
      match p with
      | None => Ok (el1, ObB T_SEGDATA [j; p_filesz g] None)
      | Some _ => bs <- rd p 0 (p_filesz g) ;; Ok (el1, ObB T_SEGDATA [j; p_filesz g] (Some bs))
      end
  end.

Fixpoint obs_all_secs (el : elfio) (i : N) (todo : list section) (acc : list obs) : res (elfio * list obs) :=
  match todo with
  | [] => Ok (el, acc)
  | _ :: t =>
      match get_sec el i with
      | None => Fault NullDeref
      | Some s =>
          '(el1, d) <- obs_data el i ;;
          obs_all_secs el1 (i + 1) t (acc ++ [obs_sec i s; d])
      end
  end.

Fixpoint obs_all_segs (el : elfio) (j : N) (todo : list segment) (acc : list obs) : res (elfio * list obs) :=
  match todo with
  | [] => Ok (el, acc)
  | _ :: t =>
      match get_seg el j with
      | None => Fault OobRead
      | Some g =>
          '(el1, d) <- obs_segdata el j ;;
          obs_all_segs el1 (j + 1) t (acc ++ [obs_seg j g; d])
      end
  end.

(* ---- the access pattern of dump::* (elfio_dump.hpp:884-1260): which
   accessor is called with which index, which bytes are read ---- *)
Fixpoint dump_symbols (fuel : list N) (el : elfio) (sec : N) (i n : N) : res elfio :=
  if i <? n then
    match fuel with
    | [] => Fault Hang
    | _ :: f => '(el1, _) <- get_symbol junk0 el sec i ;; dump_symbols f el1 sec (i + 1) n
    end
  else Ok el.

Fixpoint dump_notes (fuel : list N) (el : elfio) (a : note_acc) (j n : N) : res elfio :=
  if j <? n then
    match fuel with
    | [] => Fault Hang
    | _ :: f => '(el1, _) <- note_get junk0 el a j ;; dump_notes f el1 a (j + 1) n
    end
  else Ok el.

Fixpoint dump_dyn (fuel : list N) (el : elfio) (a : dyn_acc) (i n : N) : res elfio :=
  if i <? n then
    match fuel with
    | [] => Fault Hang
    | _ :: f =>
        '(el1, a1, r) <- dyn_get_entry junk0 el a i ;;
        '(el2, tag, _) <- dyn_raw_entry junk0 el1 (da_sec a1) i ;;
        if tag =? DT_NULL then Ok el2 else dump_dyn f el2 a1 (i + 1) n
    end
  else Ok el.

Definition data_fuel (el : elfio) (i : N) : list N :=
  match get_sec el i with
  | Some s => match s_data s with Some b => 0 :: 0 :: b | None => [0; 0] end
  | None => [0; 0]
  end.

Definition dot_modinfo : bytes := [46; 109; 111; 100; 105; 110; 102; 111].

Fixpoint dump_sections (el : elfio) (i : N) (todo : list section) (seen_modinfo : bool) : res elfio :=
  match todo with
  | [] => Ok el
  | _ :: t =>
      match get_sec el i with
      | None => Fault NullDeref
      | Some s =>
          (* symbol_tables *)
          el1 <- (if (sh_type s =? SHT_SYMTAB) || (sh_type s =? SHT_DYNSYM) then
                    '(el0, _, s0) <- sec_data junk0 el i ;;
                    dump_symbols (count_fuel (get_symbols_num el0 s0)) el0 i 0 (get_symbols_num el0 s0)
                  else Ok el) ;;
          (* notes (sections) *)
          el2 <- (if sh_type s =? SHT_NOTE then
                    '(el0, a) <- note_new junk0 el1 (NoteSec i) ;;
                    dump_notes (0 :: na_starts a) el0 a 0 (wrap32 (lenN (na_starts a)))
                  else Ok el1) ;;
          (* modinfo: first section with that name *)
          '(el3, seen) <- (if negb seen_modinfo && bytes_eqb (s_name s) dot_modinfo then
                             '(el0, _) <- mod_new junk0 el2 i ;; Ok (el0, true)
                           else Ok (el2, seen_modinfo)) ;;
          (* dynamic_tags *)
          el4 <- (if sh_type s =? SHT_DYNAMIC then
                    '(el0, a1, n) <- dyn_entries_num junk0 el3 (mkDynAcc i 0) ;;
                    dump_dyn (data_fuel el0 i) el0 a1 0 n
                  else Ok el3) ;;
          (* section_datas: sections 1.. that are not NOBITS: up to 64 bytes *)
          el5 <- (if (0 <? i) && negb (sh_type s =? SHT_NOBITS) then
                    '(el0, p) <- el_sec_get_data junk0 el4 i ;;
                    match p, get_sec el0 i with
                    | Some _, Some s0 => _ <- rd p 0 (N.min (sh_size s0) 64) ;; Ok el0
                    | _, _ => Ok el0
                    end
                  else Ok el4) ;;
          dump_sections el5 (i + 1) t seen
      end
  end.

Fixpoint dump_segments (el : elfio) (j : N) (todo : list segment) : res elfio :=
  match todo with
  | [] => Ok el
  | _ :: t =>
      match get_seg el j with
      | None => Fault OobRead
      | Some g =>
          el1 <- (if p_type g =? PT_NOTE then
                    '(el0, a) <- note_new junk0 el (NoteSeg j) ;;
                    dump_notes (0 :: na_starts a) el0 a 0 (wrap32 (lenN (na_starts a)))
                  else Ok el) ;;
          '(el2, p) <- el_seg_get_data el1 j ;;
          el3 <- (match p, get_seg el2 j with
                  | Some _, Some g0 => _ <- rd p 0 (N.min (p_filesz g0) 64) ;; Ok el2
                  | _, _ => Ok el2
                  end) ;;
          dump_segments el3 (j + 1) t
      end
  end.

Definition dump_all (el : elfio) : res elfio :=
  el1 <- dump_sections el 0 (el_secs el) false ;;
  dump_segments el1 0 (firstnN (el_segs el1) (wrap16 (lenN (el_segs el1)))).

Fixpoint list_max (l : list N) : N := match l with [] => 0 | x :: t => N.max x (list_max t) end.

Definition step0 (w : world) (o : op) : res (world * list obs) :=
  let el := w_el w in
  let mkWorld := keep w in
  match o with
  | OpCtor compr =>
      el1 <- (if compr then ctor_compr junk0 else ctor_plain junk0) ;;
      Ok (mkWorld el1, [])
  | OpCreate c e => el1 <- create junk0 el c e ;; Ok (mkWorld el1, [])
  | OpHdrSet f v =>
      Ok (mkWorld (with_hdr el (option_map (fun h => hdr_set h f v) (el_hdr el))), [])
  | OpAddSec name =>
      '(el1, i) <- sections_add junk0 el name ;; Ok (mkWorld el1, [ObN T_ADDSEC [i]])
  | OpSecSet i f v =>
      s <- need_sec el i ;; Ok (mkWorld (upd_sec el i (sec_set s f v)), [])
  | OpDSet i d =>
      s <- need_sec el i ;; Ok (mkWorld (upd_sec el i (set_data (xe el) s d)), [])
  | OpDApp i d =>
      s0 <- need_sec el i ;;
      (* a lazily loaded section is brought into memory first (C07 fix); append = insert at the size before that *)
      let pos := sh_size s0 in
      '(el1, _) <- (if negb (sh_type s0 =? SHT_NOBITS) && s_lazy s0 && negb (s_loaded s0) then el_sec_get_data junk0 el i else Ok (el, None)) ;;
      s <- need_sec el1 i ;; s1 <- insert_data junk0 (xe el1) s pos d ;; Ok (mkWorld (upd_sec el1 i s1), [])
  | OpDIns i pos d =>
      s0 <- need_sec el i ;;
      '(el1, _) <- (if negb (sh_type s0 =? SHT_NOBITS) && s_lazy s0 && negb (s_loaded s0) then el_sec_get_data junk0 el i else Ok (el, None)) ;;
      s <- need_sec el1 i ;; s1 <- insert_data junk0 (xe el1) s pos d ;; Ok (mkWorld (upd_sec el1 i s1), [])
  | OpGetData i =>
      match get_sec el i with None => Ok (w, [ObN T_ABSENT [i]]) | Some _ =>
      '(el1, p) <- el_sec_get_data junk0 el i ;;
      s <- need_sec el1 i ;;
      match p with
      | None => Ok (mkWorld el1, [ObB T_DATA [i; sh_size s] None])
      | Some _ => bs <- rd p 0 (sh_size s) ;; Ok (mkWorld el1, [ObB T_DATA [i; sh_size s] (Some bs)])
      end
      end
  | OpFree i =>
      match get_sec el i with
      | None => Ok (w, [ObN T_ABSENT [i]])
      | Some s => Ok (mkWorld (upd_sec el i (free_data s)), [])
      end
  | OpStrAdd i str =>
      s <- need_sec el i ;;
      '(s1, idx) <- add_string junk0 (xe el) s (take_cstr str) ;;
      Ok (mkWorld (upd_sec el i s1), [ObN T_STRADD [i; idx]])
  | OpStrGet i idx =>
      '(el1, p) <- el_sec_get_data junk0 el i ;;
      s <- need_sec el1 i ;;
      r <- get_string_raw p (sh_size s) (wrap32 idx) ;;
      Ok (mkWorld el1, [ObB T_STRGET [i; idx] r])
  | OpStrNew k sec => _ <- need_sec el sec ;; Ok (set_acc w el k (AStr sec), [])
  | OpStrGetK k idx =>
      match find_acc (w_accs w) k with
      | Some (AStr i) =>
          '(el1, p) <- el_sec_get_data junk0 el i ;;
          s <- need_sec el1 i ;;
          r <- get_string_raw p (sh_size s) (wrap32 idx) ;;
          Ok (mkWorld el1, [ObB T_STRGET [i; idx] r])
      | _ => Fault NullDeref
      end
  | OpStrAddK k str =>
      match find_acc (w_accs w) k with
      | Some (AStr i) =>
          s <- need_sec el i ;;
          '(s1, idx) <- add_string junk0 (xe el) s (take_cstr str) ;;
          Ok (mkWorld (upd_sec el i s1), [ObN T_STRADD [i; idx]])
      | _ => Fault NullDeref
      end
  | OpStrAddSelf i idx =>
      (* value semantics: the string is read first; the C++ passes the pointer get_string() returned *)
      '(el1, p) <- el_sec_get_data junk0 el i ;;
      s <- need_sec el1 i ;;
      r <- get_string_raw p (sh_size s) (wrap32 idx) ;;
      match r with
      | None => Ok (mkWorld el1, [ObN T_ABSENT [i]])
      | Some str =>
          '(s1, ix) <- add_string junk0 (xe el1) s (take_cstr str) ;;
          Ok (mkWorld (upd_sec el1 i s1), [ObN T_STRADD [i; ix]])
      end
  | OpDAppSelf i off len =>
      '(el1, p) <- el_sec_get_data junk0 el i ;;
      s <- need_sec el1 i ;;
      match p with
      | None => Ok (mkWorld el1, [ObN T_ABSENT [i]])
      | Some _ =>
          if off + len <=? sh_size s then
            d <- rd p off len ;;
            s1 <- insert_data junk0 (xe el1) s (sh_size s) d ;; Ok (mkWorld (upd_sec el1 i s1), [])
          else Ok (mkWorld el1, [ObN T_ABSENT [i]])
      end
  | OpAddSeg => '(el1, j) <- segments_add el ;; Ok (mkWorld el1, [ObN T_ADDSEG [j]])
  | OpSegSet j f v =>
      match get_seg el j with
      | None => Fault OobRead
      | Some g => Ok (mkWorld (upd_seg el j (seg_set g f v)), [])
      end
  | OpSegAdd j i align =>
      match get_seg el j with
      | None => Fault OobRead
      | Some g => Ok (mkWorld (upd_seg el j (seg_add_section_index g i align)), [])
      end
  | OpSegAddSec j i =>
      match get_seg el j, get_sec el i with
      | Some g, Some s => Ok (mkWorld (upd_seg el j (seg_add_section_index g (s_index s) (sh_addralign s))), [])
      | _, _ => Fault NullDeref
      end
  | OpXlat entries => Ok (mkWorld (with_xlat el (xlat_sort entries)), [])
  | OpLoad file lazy content =>
      '(el1, ok, al) <- load junk0 el (if file then FileBuf else StringBuf) content lazy ;;
      (* load( file_name ) closes its stream after an eager load *)
      let el2 := if file && negb lazy then with_stream el1 None else el1 in
      Ok (mkWorld1 el2 (w_accs w) al (w_cur w) (w_others w), [ObN T_LOAD [b2n ok]])
  | OpSave cap =>
      '(el1, os, ok) <- save junk0 el (new_ostream cap) ;;
      Ok (mkWorld el1, [ObB T_SAVE [b2n ok] (Some (os_bytes os))])
  | OpSavePath full =>
      if full then
        '(el1, os, ok) <- save junk0 el (new_ostream (Some 0)) ;;
        Ok (mkWorld el1, [ObN T_SAVE [b2n ok]])
      else Ok (w, [ObN T_SAVE [0]])          (* the stream cannot be opened: false before anything else happens *)
  | OpValidate =>
      let cs := validate el in
      Ok (w, [ObN T_VALID [lenN (filter (fun c => match c with COverlap _ _ => true | _ => false end) cs);
                           lenN (filter (fun c => match c with CSegAddr _ _ => true | _ => false end) cs)]])
  | OpObsHdr => Ok (w, [obs_hdr el])
  | OpObsSec i => match get_sec el i with Some s => Ok (w, [obs_sec i s]) | None => Ok (w, [ObN T_ABSENT [i]]) end
  | OpObsSeg j =>
      match get_seg el j with
      | None => Ok (w, [ObN T_ABSENT [j]])
      | Some g => Ok (w, [obs_seg j g])
      end
  | OpSegData j =>
      match get_seg el j with
      | None => Ok (w, [ObN T_ABSENT [j]])
      | Some _ => '(el1, o1) <- obs_segdata el j ;; Ok (mkWorld el1, [o1])
      end
  | OpSegFree j =>
      match get_seg el j with
      | None => Ok (w, [ObN T_ABSENT [j]])
      | Some g => Ok (mkWorld (upd_seg el j (seg_free_data g)), [])
      end
  | OpObsAll =>
      let nsec := wrap16 (lenN (el_secs el)) in
      let nseg := wrap16 (lenN (el_segs el)) in
      '(el1, o1) <- obs_all_secs el 0 (firstnN (el_secs el) nsec) [] ;;
      '(el2, o2) <- obs_all_segs el1 0 (firstnN (el_segs el1) nseg) [] ;;
      Ok (mkWorld el2, [obs_hdr el; ObN T_COUNTS [nsec; nseg]] ++ o1 ++ o2)
  | OpAllocMax => Ok (w, [ObN T_ALLOCMAX [list_max (w_allocs w)]])
  | OpDump => el1 <- dump_all el ;; Ok (mkWorld el1, [ObN T_DUMP [1]])
  | OpObj k =>
      if k =? w_cur w then Ok (w, [ObN T_OBJ [k]])
      else
        let saved := (w_cur w, (w_el w, w_accs w, w_allocs w)) :: filter (fun p => negb (fst p =? w_cur w)) (w_others w) in
        let rest := filter (fun p => negb (fst p =? k)) saved in
        match find (fun p => fst p =? k) saved with
        | Some (_, (e, a, al)) => Ok (mkWorld1 e a al k rest, [ObN T_OBJ [k]])
        | None => Ok (mkWorld1 (empty_elfio false) [] [] k rest, [ObN T_OBJ [k]])
        end
  | OpHashElf name => Ok (w, [ObN T_HASH [0; elf_hash (take_cstr name)]])
  | OpHashGnu name => Ok (w, [ObN T_HASH [1; elf_gnu_hash (take_cstr name)]])
  (* ---- symbols ---- *)
  | OpSymAdd symsec name value size info other shndx =>
      '(el1, r) <- add_symbol junk0 el symsec (mkSym name value size info other shndx) ;;
      Ok (mkWorld el1, [ObN T_SYMADD [r]])
  | OpSymAddS symsec strsec name value size info other shndx =>
      '(el1, r) <- add_symbol_str junk0 el symsec strsec name (mkSym 0 value size info other shndx) ;;
      Ok (mkWorld el1, [ObN T_SYMADD [r]])
  | OpSymGet symsec idx =>
      '(el1, r) <- get_symbol junk0 el symsec idx ;;
      Ok (mkWorld el1,
          [match r with
           | Some v => ObB T_SYM [symsec; idx; 1; sv_value v; sv_size v; sv_bind v; sv_type v; sv_shndx v; sv_other v] (Some (sv_name v))
           | None => ObB T_SYM [symsec; idx; 0] (Some [])
           end])
  | OpSymName symsec name =>
      '(el1, r) <- get_symbol_by_name junk0 el symsec name ;;
      Ok (mkWorld el1,
          [match r with
           | Some v => ObB T_SYMN [symsec; 1; sv_value v; sv_size v; sv_bind v; sv_type v; sv_shndx v; sv_other v] (Some name)
           | None => ObB T_SYMN [symsec; 0] (Some name)
           end])
  | OpSymVal symsec value =>
      '(el1, r) <- get_symbol_by_value junk0 el symsec value ;;
      Ok (mkWorld el1,
          [match r with
           | Some v => ObB T_SYMV [symsec; 1; sv_size v; sv_bind v; sv_type v; sv_shndx v; sv_other v] (Some (sv_name v))
           | None => ObB T_SYMV [symsec; 0] (Some [])
           end])
  | OpSymNum symsec =>
      s <- need_sec el symsec ;; Ok (w, [ObN T_SYMNUM [symsec; get_symbols_num el s]])
  | OpSymNew k sec => _ <- need_sec el sec ;; Ok (set_acc w el k (ASym sec), [])
  | OpSymGetK k idx =>
      match find_acc (w_accs w) k with
      | Some (ASym symsec) =>
          '(el1, r) <- get_symbol junk0 el symsec idx ;;
          Ok (mkWorld el1,
              [match r with
               | Some v => ObB T_SYM [symsec; idx; 1; sv_value v; sv_size v; sv_bind v; sv_type v; sv_shndx v; sv_other v] (Some (sv_name v))
               | None => ObB T_SYM [symsec; idx; 0] (Some [])
               end])
      | _ => Fault NullDeref
      end
  | OpSymNameK k name =>
      match find_acc (w_accs w) k with
      | Some (ASym symsec) =>
          '(el1, r) <- get_symbol_by_name junk0 el symsec name ;;
          Ok (mkWorld el1,
              [match r with
               | Some v => ObB T_SYMN [symsec; 1; sv_value v; sv_size v; sv_bind v; sv_type v; sv_shndx v; sv_other v] (Some name)
               | None => ObB T_SYMN [symsec; 0] (Some name)
               end])
      | _ => Fault NullDeref
      end
  | OpSymValK k value =>
      match find_acc (w_accs w) k with
      | Some (ASym symsec) =>
          '(el1, r) <- get_symbol_by_value junk0 el symsec value ;;
          Ok (mkWorld el1,
              [match r with
               | Some v => ObB T_SYMV [symsec; 1; sv_size v; sv_bind v; sv_type v; sv_shndx v; sv_other v] (Some (sv_name v))
               | None => ObB T_SYMV [symsec; 0] (Some [])
               end])
      | _ => Fault NullDeref
      end
  | OpSymNumK k =>
      match find_acc (w_accs w) k with
      | Some (ASym symsec) => s <- need_sec el symsec ;; Ok (w, [ObN T_SYMNUM [symsec; get_symbols_num el s]])
      | _ => Fault NullDeref
      end
  | OpArrange symsec relsec =>
      '(el1, ret, log) <- arrange_local_symbols junk0 el symsec ;;
      el2 <- (if relsec =? 65535 then Ok el1
              else fold_left (fun acc pr => e <- acc ;; swap_symbols junk0 e relsec (fst pr) (snd pr)) log (Ok el1)) ;;
      s <- need_sec el2 symsec ;;
      Ok (mkWorld el2, [ObN T_ARRANGE [ret; sh_info s]])
  (* ---- relocations ---- *)
  | OpRelAdd relsec rela offset symbol type addend =>
      el1 <- rel_add_entry_sym junk0 el relsec rela offset symbol type addend ;; Ok (mkWorld el1, [])
  | OpRelAddI relsec rela offset info addend =>
      el1 <- rel_add_entry junk0 el relsec rela offset info addend ;; Ok (mkWorld el1, [])
  | OpRelGet relsec idx =>
      '(el1, r) <- rel_get_entry junk0 el relsec idx ;;
      Ok (mkWorld el1,
          [match r with
           | Some v => ObN T_REL [relsec; idx; 1; rv_offset v; rv_symbol v; rv_type v; rv_addend v]
           | None => ObN T_REL [relsec; idx; 0]
           end])
  | OpRelGetF relsec idx =>
      '(el1, r) <- rel_get_entry_full junk0 el relsec idx ;;
      Ok (mkWorld el1,
          [match r with
           | Some f => let v := rf_base f in
               ObB T_RELF [relsec; idx; 1; rv_offset v; rf_symvalue f; rv_type v; rv_addend v; rf_calc f] (Some (rf_symname f))
           | None => ObB T_RELF [relsec; idx; 0] (Some [])
           end])
  | OpRelSet relsec idx offset symbol type addend =>
      '(el1, r) <- rel_set_entry junk0 el relsec idx offset symbol type addend ;;
      Ok (mkWorld el1, [ObN T_RELSET [b2n r]])
  | OpRelSwap relsec a b =>
      el1 <- swap_symbols junk0 el relsec a b ;; Ok (mkWorld el1, [])
  | OpRelNum relsec =>
      s <- need_sec el relsec ;; Ok (w, [ObN T_RELNUM [relsec; rel_entries_num s]])
  | OpRelNew k sec => _ <- need_sec el sec ;; Ok (set_acc w el k (ARel sec), [])
  | OpRelAddK k rela offset symbol type addend =>
      match find_acc (w_accs w) k with
      | Some (ARel relsec) => el1 <- rel_add_entry_sym junk0 el relsec rela offset symbol type addend ;; Ok (mkWorld el1, [])
      | _ => Fault NullDeref
      end
  | OpRelGetK k idx =>
      match find_acc (w_accs w) k with
      | Some (ARel relsec) =>
          '(el1, r) <- rel_get_entry junk0 el relsec idx ;;
          Ok (mkWorld el1,
              [match r with
               | Some v => ObN T_REL [relsec; idx; 1; rv_offset v; rv_symbol v; rv_type v; rv_addend v]
               | None => ObN T_REL [relsec; idx; 0]
               end])
      | _ => Fault NullDeref
      end
  | OpRelSetK k idx offset symbol type addend =>
      match find_acc (w_accs w) k with
      | Some (ARel relsec) =>
          '(el1, r) <- rel_set_entry junk0 el relsec idx offset symbol type addend ;;
          Ok (mkWorld el1, [ObN T_RELSET [b2n r]])
      | _ => Fault NullDeref
      end
  | OpRelSwapK k a b =>
      match find_acc (w_accs w) k with
      | Some (ARel relsec) => el1 <- swap_symbols junk0 el relsec a b ;; Ok (mkWorld el1, [])
      | _ => Fault NullDeref
      end
  | OpRelNumK k =>
      match find_acc (w_accs w) k with
      | Some (ARel relsec) => s <- need_sec el relsec ;; Ok (w, [ObN T_RELNUM [relsec; rel_entries_num s]])
      | _ => Fault NullDeref
      end
  (* ---- dynamic ---- *)
  | OpDynNew k sec =>
      _ <- need_sec el sec ;; Ok (set_acc w el k (ADyn (mkDynAcc sec 0)), [])
  | OpDynNum k =>
      match find_acc (w_accs w) k with
      | Some (ADyn a) =>
          '(el1, a1, n) <- dyn_entries_num junk0 el a ;;
          Ok (set_acc w el1 k (ADyn a1), [ObN T_DYNNUM [k; n]])
      | _ => Fault NullDeref
      end
  | OpDynGet k idx =>
      match find_acc (w_accs w) k with
      | Some (ADyn a) =>
          '(el1, a1, r) <- dyn_get_entry junk0 el a idx ;;
          Ok (set_acc w el1 k (ADyn a1),
              [match r with
               | Some (tag, value, str) => ObB T_DYN [k; idx; 1; tag; value] (Some str)
               | None => ObB T_DYN [k; idx; 0] (Some [])
               end])
      | _ => Fault NullDeref
      end
  | OpDynAdd k tag value =>
      match find_acc (w_accs w) k with
      | Some (ADyn a) => '(el1, a1) <- dyn_add_entry junk0 el a tag value ;; Ok (set_acc w el1 k (ADyn a1), [])
      | _ => Fault NullDeref
      end
  | OpDynAddS k tag str =>
      match find_acc (w_accs w) k with
      | Some (ADyn a) => '(el1, a1) <- dyn_add_entry_str junk0 el a tag str ;; Ok (set_acc w el1 k (ADyn a1), [])
      | _ => Fault NullDeref
      end
  (* ---- notes ---- *)
  | OpNoteNew k seg i =>
      '(el1, a) <- note_new junk0 el (if seg then NoteSeg i else NoteSec i) ;;
      Ok (set_acc w el1 k (ANote a), [])
  | OpNoteNum k =>
      match find_acc (w_accs w) k with
      | Some (ANote a) => Ok (w, [ObN T_NOTENUM [k; wrap32 (lenN (na_starts a))]])
      | _ => Fault NullDeref
      end
  | OpNoteGet k idx =>
      match find_acc (w_accs w) k with
      | Some (ANote a) =>
          '(el1, r) <- note_get junk0 el a idx ;;
          Ok (mkWorld el1,
              match r with
              | Some v => [ObB T_NOTE [k; idx; 1; nv_type v; nv_descsz v] (Some (nv_name v)); ObB T_NOTED [k; idx] (nv_desc v)]
              | None => [ObB T_NOTE [k; idx; 0] (Some [])]
              end)
      | _ => Fault NullDeref
      end
  | OpNoteAdd k type name desc =>
      match find_acc (w_accs w) k with
      | Some (ANote a) =>
          '(el1, a1) <- note_add junk0 el a type name desc ;; Ok (set_acc w el1 k (ANote a1), [])
      | _ => Fault NullDeref
      end
  | OpNoteAddSelf k type name idx =>
      match find_acc (w_accs w) k with
      | Some (ANote a) =>
          '(el1, r) <- note_get junk0 el a idx ;;
          match r with
          | Some v =>
              match nv_desc v with
              | Some d => '(el2, a1) <- note_add junk0 el1 a type name d ;; Ok (set_acc w el2 k (ANote a1), [])
              | None => Ok (mkWorld el1, [ObN T_ABSENT [k]])
              end
          | None => Ok (mkWorld el1, [ObN T_ABSENT [k]])
          end
      | _ => Fault NullDeref
      end
  (* ---- arrays ---- *)
  | OpArrAdd sec wd addr => el1 <- arr_add_entry junk0 el sec wd addr ;; Ok (mkWorld el1, [])
  | OpArrGet sec wd idx =>
      '(el1, r) <- arr_get_entry junk0 el sec wd idx ;;
      Ok (mkWorld el1, [match r with Some v => ObN T_ARRG [sec; idx; 1; v] | None => ObN T_ARRG [sec; idx; 0] end])
  | OpArrNum sec wd => s <- need_sec el sec ;; Ok (w, [ObN T_ARRNUM [sec; arr_entries_num s wd]])
  (* ---- modinfo ---- *)
  | OpModNew k sec => '(el1, a) <- mod_new junk0 el sec ;; Ok (set_acc w el1 k (AMod a), [])
  | OpModNum k =>
      match find_acc (w_accs w) k with
      | Some (AMod a) => Ok (w, [ObN T_MODNUM [k; wrap32 (lenN (ma_content a))]])
      | _ => Fault NullDeref
      end
  | OpModGet k no =>
      match find_acc (w_accs w) k with
      | Some (AMod a) =>
          Ok (w, match mod_get a no with
                 | Some (f, v) => [ObB T_MODF [k; no; 1] (Some f); ObB T_MODV [k; no] (Some v)]
                 | None => [ObB T_MODF [k; no; 0] (Some [])]
                 end)
      | _ => Fault NullDeref
      end
  | OpModFind k field =>
      match find_acc (w_accs w) k with
      | Some (AMod a) =>
          Ok (w, [match mod_find (ma_content a) field with
                  | Some v => ObB T_MODN [k; 1] (Some v)
                  | None => ObB T_MODN [k; 0] (Some [])
                  end])
      | _ => Fault NullDeref
      end
  | OpModAdd k field value =>
      match find_acc (w_accs w) k with
      | Some (AMod a) =>
          '(el1, a1, pos) <- mod_add junk0 el a field value ;;
          Ok (set_acc w el1 k (AMod a1), [ObN T_MODADD [k; pos]])
      | _ => Fault NullDeref
      end
  (* ---- versym ---- *)
  | OpVsNew k sec => a <- vs_new el sec ;; Ok (set_acc w el k (AVs a), [])
  | OpVsNum k =>
      match find_acc (w_accs w) k with
      | Some (AVs a) => Ok (w, [ObN T_VSNUM [k; match get_sec el (va_sec a) with Some _ => va_num a | None => 0 end]])
      | _ => Fault NullDeref
      end
  | OpVsGet k no =>
      match find_acc (w_accs w) k with
      | Some (AVs a) =>
          '(el1, r) <- vs_get junk0 host_order el a no ;;
          Ok (mkWorld el1, [match r with Some v => ObN T_VS [k; no; 1; v] | None => ObN T_VS [k; no; 0] end])
      | _ => Fault NullDeref
      end
  | OpVsMod k no value =>
      match find_acc (w_accs w) k with
      | Some (AVs a) =>
          '(el1, r) <- vs_modify junk0 host_order el a no value ;; Ok (mkWorld el1, [ObN T_VSMOD [k; b2n r]])
      | _ => Fault NullDeref
      end
  | OpVsAdd k value =>
      match find_acc (w_accs w) k with
      | Some (AVs a) =>
          '(el1, a1, r) <- vs_add junk0 host_order el a value ;;
          Ok (set_acc w el1 k (AVs a1), [ObN T_VSADD [k; b2n r]])
      | _ => Fault NullDeref
      end
  | OpVnNew k sec =>
      '(el1, n) <- ver_entries_num junk0 el DT_VERNEEDNUM ;; Ok (set_acc w el1 k (AVer sec n), [])
  | OpVdNew k sec =>
      '(el1, n) <- ver_entries_num junk0 el DT_VERDEFNUM ;; Ok (set_acc w el1 k (AVer sec n), [])
  | OpVnNum k =>
      match find_acc (w_accs w) k with
      | Some (AVer _ n) => Ok (w, [ObN T_VNNUM [k; n]])
      | _ => Fault NullDeref
      end
  | OpVdNum k =>
      match find_acc (w_accs w) k with
      | Some (AVer _ n) => Ok (w, [ObN T_VDNUM [k; n]])
      | _ => Fault NullDeref
      end
  | OpVnGet k no =>
      match find_acc (w_accs w) k with
      | Some (AVer sec n) =>
          '(el1, r) <- verneed_get junk0 el sec n no ;;
          Ok (mkWorld el1,
              match r with
              | Some v => [ObB T_VN [k; no; 1; vn_version v; vn_hash v; vn_flags v; vn_other v] (Some (vn_file v));
                           ObB T_VNDEP [k; no] (Some (vn_dep v))]
              | None => [ObB T_VN [k; no; 0] (Some [])]
              end)
      | _ => Fault NullDeref
      end
  | OpVdGet k no =>
      match find_acc (w_accs w) k with
      | Some (AVer sec n) =>
          '(el1, r) <- verdef_get junk0 el sec n no ;;
          Ok (mkWorld el1,
              [match r with
               | Some v => ObB T_VD [k; no; 1; vd_flags v; vd_ndx v; vd_hash v] (Some (vd_dep v))
               | None => ObB T_VD [k; no; 0] (Some [])
               end])
      | _ => Fault NullDeref
      end
  | OpQueryAll | OpQueryAll18 => Ok (w, [])      (* expanded by [step] below *)
  | OpMoveCtor _ _ | OpMoveAssign _ _ | OpDestroy _ => Ok (w, [])   (* handled by [step_world] *)
  end.

(* Every accessor operation that ADDS to a section goes through section::append_data(), which (since the C07 fix)
   first brings the data of a lazily loaded section into memory.  That request is made here, before the operation,
   for the sections the operation appends to, in the order the library touches them. *)
Definition pre_secs (w : world) (o : op) : list N :=
  match o with
  | OpStrAdd i _ => [i]
  | OpStrAddSelf i _ => [i]
  | OpSymAdd symsec _ _ _ _ _ _ => [symsec]
  | OpSymAddS symsec strsec _ _ _ _ _ _ => [strsec; symsec]
  | OpRelAdd relsec _ _ _ _ _ => [relsec]
  | OpRelAddI relsec _ _ _ _ => [relsec]
  | OpArrAdd sec _ _ => [sec]
  | OpStrAddK k _ => match find_acc (w_accs w) k with Some (AStr i) => [i] | _ => [] end
  | OpRelAddK k _ _ _ _ _ => match find_acc (w_accs w) k with Some (ARel i) => [i] | _ => [] end
  | OpDynAdd k _ _ => match find_acc (w_accs w) k with Some (ADyn a) => [da_sec a] | _ => [] end
  | OpDynAddS k _ _ =>
      match find_acc (w_accs w) k with
      | Some (ADyn a) =>
          match get_sec (w_el w) (da_sec a) with
          | Some s => [wrap16 (sh_link s); da_sec a]
          | None => []
          end
      | _ => []
      end
  | OpNoteAdd k _ _ _ =>
      match find_acc (w_accs w) k with Some (ANote a) => match na_target a with NoteSec i => [i] | _ => [] end | _ => [] end
  | _ => []
  end.

Definition prefetch (el : elfio) (i : N) : res elfio :=
  match get_sec el i with
  | None => Ok el
  | Some s0 =>
      if negb (sh_type s0 =? SHT_NOBITS) && s_lazy s0 && negb (s_loaded s0)
      then '(el1, _) <- el_sec_get_data junk0 el i ;; Ok el1
      else Ok el
  end.

Definition step1 (w : world) (o : op) : res (world * list obs) :=
  el1 <- fold_left (fun acc i => e <- acc ;; prefetch e i) (pre_secs w o) (Ok (w_el w)) ;;
  step0 (keep w el1) o.

(* composite operations keep the observations made before a fault *)
Definition pres := (world * list obs * option fault)%type.

Fixpoint run_list (w : world) (ops : list op) (acc : list obs) : pres :=
  match ops with
  | [] => (w, acc, None)
  | o :: t =>
      match step1 w o with
      | Ok (w1, out) => run_list w1 t (acc ++ out)
      | Fault f => (w, acc, Some f)
      end
  end.

Definition pthen (r : pres) (k : world -> list obs -> pres) : pres :=
  match r with
  | (w, o, None) => k w o
  | (w, o, Some f) => (w, o, Some f)
  end.

(* boundary indices around a count *)
Definition probe_idx (n : N) : list N :=
  [0; 1; wrap64 (n + 18446744073709551615); n; wrap64 (n + 1); 4294967295].

Definition acc_note_num (w : world) (k : N) : N :=
  match find_acc (w_accs w) k with Some (ANote a) => wrap32 (lenN (na_starts a)) | _ => 0 end.
Definition acc_mod_num (w : world) (k : N) : N :=
  match find_acc (w_accs w) k with Some (AMod a) => wrap32 (lenN (ma_content a)) | _ => 0 end.
Definition acc_ver_num (w : world) (k : N) : N :=
  match find_acc (w_accs w) k with Some (AVer _ n) => n | _ => 0 end.
Definition acc_vs_num (w : world) (k : N) : N :=
  match find_acc (w_accs w) k with Some (AVs a) => va_num a | _ => 0 end.
Definition acc_dyn_num (w : world) (k : N) : N :=
  match find_acc (w_accs w) k with Some (ADyn a) => da_num a | _ => 0 end.

(* C01 readers on section i *)
Definition query_section (w : world) (i : N) (acc : list obs) : pres :=
  match get_sec (w_el w) i with
  | None => (w, acc, None)
  | Some s =>
      let ty := sh_type s in
      pthen (if ty =? SHT_STRTAB then run_list w (map (fun ix => OpStrGet i ix) (probe_idx (sh_size s))) acc
             else (w, acc, None)) (fun w1 o1 =>
      pthen (if (ty =? SHT_SYMTAB) || (ty =? SHT_DYNSYM) then
               let n := get_symbols_num (w_el w1) s in
               run_list w1 (OpSymNum i :: map (fun ix => OpSymGet i ix) (probe_idx n)) o1
             else (w1, o1, None)) (fun w2 o2 =>
      pthen (if ty =? SHT_NOTE then
               pthen (run_list w2 [OpNoteNew (1000 + i) false i; OpNoteNum (1000 + i)] o2) (fun wa oa =>
               run_list wa (map (fun ix => OpNoteGet (1000 + i) ix) (probe_idx (acc_note_num wa (1000 + i)))) oa)
             else (w2, o2, None)) (fun w3 o3 =>
      pthen (if ty =? SHT_DYNAMIC then
               pthen (run_list w3 [OpDynNew (1000 + i) i; OpDynNum (1000 + i)] o3) (fun wa oa =>
               run_list wa (map (fun ix => OpDynGet (1000 + i) ix) (probe_idx (acc_dyn_num wa (1000 + i)))) oa)
             else (w3, o3, None)) (fun w4 o4 =>
      if bytes_eqb (s_name s) dot_modinfo then
        pthen (run_list w4 [OpModNew (1000 + i) i; OpModNum (1000 + i)] o4) (fun wa oa =>
        run_list wa (map (fun ix => OpModGet (1000 + i) ix) (probe_idx (acc_mod_num wa (1000 + i)))) oa)
      else (w4, o4, None)))))
  end.

Definition query_segment (w : world) (j : N) (acc : list obs) : pres :=
  match get_seg (w_el w) j with
  | None => (w, acc, None)
  | Some g =>
      if p_type g =? PT_NOTE then
        pthen (run_list w [OpNoteNew (2000 + j) true j; OpNoteNum (2000 + j)] acc) (fun wa oa =>
        run_list wa (map (fun ix => OpNoteGet (2000 + j) ix) (probe_idx (acc_note_num wa (2000 + j)))) oa)
      else (w, acc, None)
  end.

(* C18 readers on section i *)
Definition SHT_INIT_ARRAY := 14.
Definition SHT_FINI_ARRAY := 15.
Definition SHT_PREINIT_ARRAY := 16.
Definition SHT_GNU_verdef := 1879048189.
Definition SHT_GNU_verneed := 1879048190.
Definition SHT_GNU_versym := 1879048191.

Definition probe_names : list bytes :=
  [[]; [109; 97; 105; 110]; [112; 114; 105; 110; 116; 102]; [95; 115; 116; 97; 114; 116]; [120]].

Definition query_section18 (w : world) (i : N) (acc : list obs) : pres :=
  match get_sec (w_el w) i with
  | None => (w, acc, None)
  | Some s =>
      let ty := sh_type s in
      pthen (if (ty =? SHT_REL) || (ty =? SHT_RELA) then
               let n := rel_entries_num s in
               run_list w (OpRelNum i :: flat_map (fun ix => [OpRelGet i ix; OpRelGetF i ix]) (probe_idx n)) acc
             else (w, acc, None)) (fun w1 o1 =>
      pthen (if (ty =? SHT_SYMTAB) || (ty =? SHT_DYNSYM) then
               run_list w1 (map (fun nm => OpSymName i nm) probe_names ++
                            [OpSymVal i 0; OpSymVal i 4198400; OpArrange i 65535]) o1
             else (w1, o1, None)) (fun w2 o2 =>
      pthen (if (ty =? SHT_INIT_ARRAY) || (ty =? SHT_FINI_ARRAY) || (ty =? SHT_PREINIT_ARRAY) then
               let wd := if class32 (w_el w2) then 4 else 8 in
               run_list w2 (OpArrNum i wd :: map (fun ix => OpArrGet i wd ix) (probe_idx (arr_entries_num s wd))) o2
             else (w2, o2, None)) (fun w3 o3 =>
      pthen (if ty =? SHT_GNU_versym then
               pthen (run_list w3 [OpVsNew (3000 + i) i; OpVsNum (3000 + i)] o3) (fun wa oa =>
               run_list wa (map (fun ix => OpVsGet (3000 + i) ix) (probe_idx (acc_vs_num wa (3000 + i)))) oa)
             else (w3, o3, None)) (fun w4 o4 =>
      pthen (if ty =? SHT_GNU_verneed then
               pthen (run_list w4 [OpVnNew (3000 + i) i; OpVnNum (3000 + i)] o4) (fun wa oa =>
               run_list wa (map (fun ix => OpVnGet (3000 + i) ix) [0; 1; 2; acc_ver_num wa (3000 + i); 4294967295]) oa)
             else (w4, o4, None)) (fun w5 o5 =>
      if ty =? SHT_GNU_verdef then
        pthen (run_list w5 [OpVdNew (3000 + i) i; OpVdNum (3000 + i)] o5) (fun wa oa =>
        run_list wa (map (fun ix => OpVdGet (3000 + i) ix) [0; 1; 2; acc_ver_num wa (3000 + i); 4294967295]) oa)
      else (w5, o5, None))))))
  end.

Fixpoint query_loop {A} (q : world -> N -> list obs -> pres) (w : world) (i : N) (fuel : list A) (acc : list obs) : pres :=
  match fuel with
  | [] => (w, acc, None)
  | _ :: t => pthen (q w i acc) (fun w1 o => query_loop q w1 (i + 1) t o)
  end.

(* ---- object lifetime (C19).  Objects other than the current one live in
   [w_others]; a moved-from object keeps its convertor setting and loses
   header, sections, segments, translator and compression object; the moved-to
   object owns everything the source had, including the stream of a lazy load. *)
Definition obj_get (w : world) (k : N) : option (elfio * list (N * acc) * list N) :=
  if k =? w_cur w then Some (w_el w, w_accs w, w_allocs w)
  else match find (fun p => fst p =? k) (w_others w) with Some (_, v) => Some v | None => None end.

Definition obj_put (w : world) (k : N) (v : elfio * list (N * acc) * list N) : world :=
  if k =? w_cur w then mkWorld1 (fst (fst v)) (snd (fst v)) (snd v) (w_cur w) (w_others w)
  else mkWorld1 (w_el w) (w_accs w) (w_allocs w) (w_cur w) ((k, v) :: filter (fun p => negb (fst p =? k)) (w_others w)).

Definition obj_del (w : world) (k : N) : world :=
  mkWorld1 (w_el w) (w_accs w) (w_allocs w) (w_cur w) (filter (fun p => negb (fst p =? k)) (w_others w)).

Definition moved_from (src : elfio) (reset_pos : bool) : elfio :=
  mkElfio None [] [] [] (if reset_pos then 0 else el_pos src) false None.

Definition step_world (w : world) (o : op) : option (res (world * list obs)) :=
  match o with
  | OpMoveCtor dst src =>
      Some (match obj_get w src with
            | None => Fault NullDeref
            | Some (e, a, al) =>
                let w1 := obj_put w src (moved_from e false, [], []) in
                Ok (obj_put w1 dst (e, [], al), [])
            end)
  | OpMoveAssign dst src =>
      Some (if dst =? src then Ok (w, [])
            else match obj_get w src, obj_get w dst with
                 | Some (e, a, al), Some _ =>
                     let w1 := obj_put w src (moved_from e true, [], []) in
                     Ok (obj_put w1 dst (e, [], al), [])
                 | _, _ => Fault NullDeref
                 end)
  | OpDestroy k =>
      Some (if k =? w_cur w then Fault UseAfterFree     (* scripts switch away before destroying *)
            else Ok (obj_del w k, []))
  | _ => None
  end.

Definition step (w : world) (o : op) : pres :=
  match step_world w o with
  | Some (Ok (w1, out)) => (w1, out, None)
  | Some (Fault f) => (w, [], Some f)
  | None =>
  match o with
  | OpQueryAll =>
      let el := w_el w in
      pthen (query_loop query_section w 0 (firstnN (el_secs el) (wrap16 (lenN (el_secs el)))) []) (fun w1 o1 =>
      query_loop query_segment w1 0 (firstnN (el_segs el) (wrap16 (lenN (el_segs el)))) o1)
  | OpQueryAll18 =>
      let el := w_el w in
      query_loop query_section18 w 0 (firstnN (el_secs el) (wrap16 (lenN (el_secs el)))) []
  | _ => match step1 w o with
         | Ok (w1, out) => (w1, out, None)
         | Fault f => (w, [], Some f)
         end
  end
  end.

Fixpoint run_ops (w : world) (ops : list op) : list obs :=
  match ops with
  | [] => []
  | o :: t =>
      match step w o with
      | (w1, out, None) => out ++ run_ops w1 t
      | (_, out, Some f) => out ++ [ObFault f]
      end
  end.

Definition init_world : world := mkWorld (empty_elfio false).
Definition run_script (ops : list op) : list obs := run_ops init_world ops.
