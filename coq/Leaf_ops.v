(* Leaf_ops.v — the C++ unsigned operators at width w, as used by the generated leaf functions. *)
From Coq Require Import NArith.
From ElfioV Require Import Bytes.
Local Open Scope N_scope.
Definition uadd (w a b : N) : N := wrap w (a + b).
Definition usub (w a b : N) : N := wrap w (a + (2 ^ w - wrap w b)).
Definition umul (w a b : N) : N := wrap w (a * b).
Definition ushl (w a k : N) : N := wrap w (N.shiftl a k).
Definition unot (w a : N) : N := wrap w (N.lxor a (N.ones w)).
