(* Properties_C18.v — C18: the remaining table queries never fault on a loaded
   object, for any table bytes and any index. *)
From ElfioV Require Import Bytes Mem Stream SectionData Strings Elfio Table Accessors Loader Load_proofs Safety_proofs Hash_proofs Arrange_total.
Local Open Scope N_scope.

(* [loaded_ok content k el] is what load() establishes for every byte string
   (Properties_C01.C01_load_total_and_bounded); each reader below returns
   (no Fault of any kind) from such an object and keeps it. *)

Theorem C18_relocation_entry :
  forall junk content k el relsec index s0,
    loaded_ok content k el -> get_sec el relsec = Some s0 ->
    exists el1 r, rel_get_entry junk el relsec index = Ok (el1, r) /\ loaded_ok content k el1 /\ same_shape el el1.
Proof. exact rel_get_entry_total. Qed.
Print Assumptions C18_relocation_entry.

Theorem C18_relocation_entry_resolved :
  forall junk content k el relsec index s0,
    loaded_ok content k el -> get_sec el relsec = Some s0 ->
    exists el1 r, rel_get_entry_full junk el relsec index = Ok (el1, r) /\ loaded_ok content k el1 /\ same_shape el el1.
Proof. exact rel_get_entry_full_total. Qed.
Print Assumptions C18_relocation_entry_resolved.

Theorem C18_symbol_by_value :
  forall junk content k el symsec value s0,
    loaded_ok content k el -> get_sec el symsec = Some s0 ->
    exists el1 r, get_symbol_by_value junk el symsec value = Ok (el1, r) /\ loaded_ok content k el1 /\ same_shape el el1.
Proof. exact get_symbol_by_value_total. Qed.
Print Assumptions C18_symbol_by_value.

Theorem C18_array_entry :
  forall junk content k el sec w index s0,
    loaded_ok content k el -> get_sec el sec = Some s0 -> (w = 4 \/ w = 8) ->
    exists el1 r, arr_get_entry junk el sec w index = Ok (el1, r) /\ loaded_ok content k el1 /\ same_shape el el1.
Proof. exact arr_get_entry_total. Qed.
Print Assumptions C18_array_entry.

(* the accessor's entry count was taken from the section (sh_size / 2) *)
Theorem C18_version_index :
  forall junk host content k el a no,
    loaded_ok content k el ->
    (forall s, get_sec el (va_sec a) = Some s -> va_num a * 2 <= sh_size s) ->
    exists el1 r, vs_get junk host el a no = Ok (el1, r) /\ loaded_ok content k el1 /\ same_shape el el1.
Proof. exact vs_get_total. Qed.
Print Assumptions C18_version_index.

Theorem C18_version_requirement :
  forall junk content k el sec num no,
    loaded_ok content k el -> exists el1 r, verneed_get junk el sec num no = Ok (el1, r).
Proof. exact verneed_get_total. Qed.
Print Assumptions C18_version_requirement.

Theorem C18_version_definition :
  forall junk content k el sec num no,
    loaded_ok content k el -> exists el1 r, verdef_get junk el sec num no = Ok (el1, r).
Proof. exact verdef_get_total. Qed.
Print Assumptions C18_version_definition.

(* symbol lookup by name: SysV hash table, GNU hash table (whichever links to
   the symbol table), then the linear scan — for ANY table contents: zero
   buckets, counts and offsets pointing anywhere, chains of any shape.  The
   hash section's bytes are bytes (< 256: they come from the file,
   C17_data_comes_from_the_file) and the sections are below 4 GiB. *)
Theorem C18_symbol_by_name :
  forall junk content k el symsec name s0,
    loaded_ok content k el -> get_sec el symsec = Some s0 -> sh_size s0 < 2 ^ 32 ->
    (forall hi hs, find_hash (el_secs el) 0 (s_index s0) = Some (hi, hs) ->
       sh_size hs < 2 ^ 32 /\ (forall el1 s1 b, sec_data junk el hi = Ok (el1, Some b, s1) -> is_bytes b)) ->
    exists el1 r, get_symbol_by_name junk el symsec name = Ok (el1, r) /\ loaded_ok content k el1 /\ same_shape el el1.
Proof. exact get_symbol_by_name_total. Qed.
Print Assumptions C18_symbol_by_name.

Theorem C18_sysv_hash_lookup :
  forall junk content k el symsec hashsec name s0 h0,
    loaded_ok content k el -> get_sec el symsec = Some s0 -> get_sec el hashsec = Some h0 ->
    (forall el1 s1 b, sec_data junk el hashsec = Ok (el1, Some b, s1) -> is_bytes b) ->
    exists el1 r, hash_lookup junk el symsec hashsec name = Ok (el1, r) /\ loaded_ok content k el1 /\ same_shape el el1.
Proof. exact hash_lookup_total. Qed.
Print Assumptions C18_sysv_hash_lookup.

Theorem C18_gnu_hash_lookup :
  forall junk content k el symsec hashsec name s0 h0,
    loaded_ok content k el -> get_sec el symsec = Some s0 -> get_sec el hashsec = Some h0 -> sh_size h0 < 2 ^ 32 ->
    exists el1 r, gnu_hash_lookup junk el symsec hashsec name = Ok (el1, r) /\ loaded_ok content k el1 /\ same_shape el el1.
Proof. exact gnu_hash_lookup_total. Qed.
Print Assumptions C18_gnu_hash_lookup.

(* rearranging local symbols: any table bytes, entries of the symbol record's size *)
Theorem C18_arrange_local_symbols :
  forall junk content k el symsec s0,
    loaded_ok content k el -> get_sec el symsec = Some s0 ->
    sh_entsize s0 = layout_sz (sym_layout (acls el)) -> sh_size s0 < 2 ^ 64 ->
    exists el1 r log, arrange_local_symbols junk el symsec = Ok (el1, r, log).
Proof. exact arrange_local_symbols_total. Qed.
Print Assumptions C18_arrange_local_symbols.

(* the core table reads under the buffer invariant alone (any header values) *)
Theorem C18_core_reads :
  forall c enc s p index,
    buf_ok s p ->
    (exists r, rel_get_core c enc s p index = Ok r) /\
    (forall w, w = 4 \/ w = 8 -> exists r, arr_get_core enc s p w index = Ok r) /\
    (forall num, num * sh_entsize s <= sh_size s -> (0 < num -> layout_sz (sym_layout c) <= sh_entsize s) ->
                 exists r, sym_get_core c enc s p num index = Ok r).
Proof.
  intros c enc s p index Hb. split; [now apply rel_get_core_total|]. split.
  - intros w Hw. now apply arr_get_core_total.
  - intros num H1 H2. now apply sym_get_core_total.
Qed.
Print Assumptions C18_core_reads.

(* non-vacuity: a relocation section whose buffer is exactly size+1 bytes; the
   last valid index reads, the next one is refused, a huge one is refused *)
Definition ex_rel : section :=
  with_entsize (with_size (with_type (new_section C32) SHT_REL) 16) 8.
Example C18_example :
  buf_ok ex_rel (Some (repeatN 7 17)) /\
  (exists v, rel_get_core C32 LSB ex_rel (Some (repeatN 7 17)) 1 = Ok (Some v)) /\
  rel_get_core C32 LSB ex_rel (Some (repeatN 7 17)) 2 = Ok None /\
  rel_get_core C32 LSB ex_rel (Some (repeatN 7 17)) 4294967295 = Ok None.
Proof. split; [vm_compute; reflexivity|]. split; [vm_compute; eauto|]. split; vm_compute; reflexivity. Qed.
