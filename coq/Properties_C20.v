(* Properties_C20.v — C20: validate() reports real conflicts, and only those. *)
From ElfioV Require Import Bytes Mem Stream SectionData Elfio Table Layout Writer Validate_proofs Layout_proofs Validate_writer Segment_proofs Validate_oneseg.
Local Open Scope N_scope.

(* Two non-empty sections that occupy file space and share a file byte are
   always reported (any object with fewer than 2^16 sections and segments). *)
Theorem C20_overlap_reported :
  forall el i j a b,
    lenN (el_secs el) < 2 ^ 16 -> lenN (el_segs el) < 2 ^ 16 ->
    i < j -> nth_optN (el_secs el) i = Some a -> nth_optN (el_secs el) j = Some b ->
    occupies a -> occupies b -> in_file a -> in_file b -> file_overlap a b ->
    In (COverlap i j) (validate el).
Proof. exact validate_reports_overlap. Qed.
Print Assumptions C20_overlap_reported.

(* A loadable segment whose address disagrees with the address of the program
   section found at its file offset is always reported. *)
Theorem C20_skewed_segment_reported :
  forall el g sec,
    lenN (el_secs el) < 2 ^ 16 -> lenN (el_segs el) < 2 ^ 16 ->
    In g (el_segs el) -> p_type g = PT_LOAD -> 0 < p_filesz g ->
    find_prog_section (el_secs el) (p_offset g) = Some sec ->
    get_virtual_addr (p_offset g) sec <> p_vaddr g ->
    In (CSegAddr (g_index g) (s_index sec)) (validate el).
Proof. exact validate_reports_skew. Qed.
Print Assumptions C20_skewed_segment_reported.

(* Overlap complaints are never spurious: a complaint names two sections that
   occupy file space and do share a byte. *)
Theorem C20_overlap_complaints_are_real :
  forall el i j,
    lenN (el_secs el) < 2 ^ 16 -> lenN (el_segs el) < 2 ^ 16 ->
    (forall s, In s (el_secs el) -> in_file s) ->
    In (COverlap i j) (validate el) ->
    exists a b, i < j /\ nth_optN (el_secs el) i = Some a /\ nth_optN (el_secs el) j = Some b /\
                occupies a /\ occupies b /\ file_overlap a b.
Proof. exact validate_overlap_sound. Qed.
Print Assumptions C20_overlap_complaints_are_real.

(* No complaint at all when no pair is reported and every loadable segment agrees
   with its program section.  (That the writer's output meets these premises is
   Properties_C04 for the modelled layouts plus the correspondence run: partial.) *)
Theorem C20_consistent_accepted_partial :
  forall el,
    lenN (el_secs el) < 2 ^ 16 -> lenN (el_segs el) < 2 ^ 16 ->
    (forall i j a b, i < j -> nth_optN (el_secs el) i = Some a -> nth_optN (el_secs el) j = Some b ->
                     sections_overlap_reported a b = false) ->
    (forall g sec, In g (el_segs el) -> p_type g = PT_LOAD -> 0 < p_filesz g ->
                   find_prog_section (el_secs el) (p_offset g) = Some sec ->
                   get_virtual_addr (p_offset g) sec = p_vaddr g) ->
    validate el = [].
Proof. exact validate_clean. Qed.
Print Assumptions C20_consistent_accepted_partial.

(* what the writer lays out for an object without segments is accepted: after
   the layout step of save(), validate() has no complaint (sections of type
   SHT_NULL are empty, as is the section with index 0) *)
Theorem C20_accepts_writer_output_without_segments :
  forall el h0 bound,
    el_hdr el = Some h0 -> el_segs el = [] ->
    bound <= 2 ^ 63 -> Forall (fun s => bound <= 2 ^ xw (s_cls s)) (el_secs el) ->
    e_ehsize h0 + budget (el_secs el) + 16 < bound ->
    lenN (el_secs el) < 2 ^ 16 ->
    (forall s, In s (el_secs el) -> sh_type s = SHT_NULL -> sh_size s = 0) ->
    (forall s, In s (el_secs el) -> s_index s = 0 -> sh_size s = 0 \/ sh_type s = SHT_NOBITS) ->
    exists el', layout el = Ok (el', true) /\ validate el' = [].
Proof. exact validate_accepts_noseg_layout. Qed.
Print Assumptions C20_accepts_writer_output_without_segments.

(* ... and for an object with one segment of automatically addressed allocated data members plus any sections
   outside it (the class of C04_layout_with_one_segment): the layout succeeds, no two sections are reported as
   overlapping, and the program section found at the segment's file offset is its first member, whose address
   is the segment's virtual address *)
Theorem C20_accepts_writer_output_with_one_segment :
  forall el h0 g bound ms,
    let idxs := g_sections g in
    let align := if 0 <? p_align g then p_align g else 1 in
    let secs := el_secs el in
    let pos0 := e_ehsize h0 + e_phentsize h0 in
    el_hdr el = Some h0 -> el_segs el = [g] -> lenN secs < 2 ^ 16 ->
    lenN idxs < 2 ^ 16 -> idxs <> [] -> g_offset_set g = false -> p_type g <> PT_PHDR -> NoDup idxs ->
    Forall2 (fun i s => nth_optN secs i = Some s) idxs ms ->
    Forall auto_member ms -> Forall (fun s => sh_addralign s <= p_align g) ms ->
    bound <= 2 ^ 63 -> Forall (fun s => bound <= 2 ^ xw (s_cls s)) secs -> bound <= 2 ^ xw (g_cls g) ->
    p_align g < 2 ^ 63 ->
    p_vaddr g + pos0 + align + mbudget ms + budget secs + 16 < bound ->
    (forall s, In s secs -> sh_type s = SHT_NULL -> sh_size s = 0) ->
    (forall s, In s secs -> s_index s = 0 -> sh_size s = 0 \/ sh_type s = SHT_NOBITS) ->
    exists el', layout el = Ok (el', true) /\ validate el' = [].
Proof. exact validate_accepts_oneseg_layout. Qed.
Print Assumptions C20_accepts_writer_output_with_one_segment.

(* non-vacuity: ELF32, a PT_LOAD segment at 0x8048004 (align 0x1000) holding two program sections, a free section behind:
   the layout succeeds and validate() has nothing to say about it (the object of C04_one_segment_example) *)
Definition ex1_ms (i al sz : N) : section :=
  with_index (with_flags (with_size (with_addralign (with_type (new_section C32) 1) al) sz) 2) i.
Definition ex1_seg : segment :=
  seg_add_section_index (seg_add_section_index (seg_set (seg_set (seg_set (new_segment C32) GType 1) GVaddr 134512644) GAlign 4096) 1 16) 2 4.
Example C20_one_segment_example :
  let fs (i : N) := with_index (with_size (with_addralign (with_type (new_section C32) 1) 1) 7) i in
  let el := with_segs (with_secs (with_hdr (empty_elfio false) (Some (new_header C32 LSB)))
                                 [ex1_ms 0 0 0; ex1_ms 1 16 5; ex1_ms 2 4 3; fs 3]) [ex1_seg] in
  exists el', layout el = Ok (el', true) /\ validate el' = [] /\ map p_offset (el_segs el') = [4100] /\
              Forall auto_member [ex1_ms 1 16 5; ex1_ms 2 4 3].
Proof.
  eexists. split; [vm_compute; reflexivity|]. split; [vm_compute; reflexivity|]. split; [vm_compute; reflexivity|].
  repeat constructor; vm_compute; discriminate.
Qed.

(* the pair test is exact on sections that occupy file space *)
Theorem C20_pair_test_exact :
  forall a b, occupies a -> occupies b -> in_file a -> in_file b ->
    (sections_overlap_reported a b = true <-> file_overlap a b).
Proof. exact overlap_reported_iff. Qed.
Print Assumptions C20_pair_test_exact.

(* non-vacuity: a strictly contained section (none of whose ends the containing
   one's end tests see) and a skewed segment are both reported *)
Definition ex_sec (i ty off sz addr : N) : section :=
  with_index (with_addr (with_size (with_offset (with_type (new_section C64) ty) off) sz) addr) i.
Definition ex_el : elfio :=
  with_segs (with_secs (empty_elfio false)
     [ex_sec 0 0 0 0 0; ex_sec 1 SHT_PROGBITS 100 50 4096; ex_sec 2 SHT_STRTAB 110 10 0])
     [seg_set (seg_set (seg_set (seg_set (new_segment C64) GType PT_LOAD) GOffset 100) GFilesz 50) GVaddr 4097].
Example C20_example :
  validate ex_el = [COverlap 1 2; CSegAddr 0 1] /\
  occupies (ex_sec 1 SHT_PROGBITS 100 50 4096) /\ in_file (ex_sec 2 SHT_STRTAB 110 10 0) /\
  file_overlap (ex_sec 1 SHT_PROGBITS 100 50 4096) (ex_sec 2 SHT_STRTAB 110 10 0).
Proof.
  split; [vm_compute; reflexivity|]. split; [|split].
  - unfold occupies; vm_compute. repeat split; discriminate.
  - unfold in_file; vm_compute. reflexivity.
  - exists 112. vm_compute. repeat split; discriminate.
Qed.
