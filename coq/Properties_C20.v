(* Properties_C20.v — C20: validate() reports real conflicts, and only those. *)
From ElfioV Require Import Bytes Mem Stream SectionData Elfio Table Layout Writer Validate_proofs Layout_proofs Validate_writer.
Local Open Scope N_scope.

(* Two non-empty sections that occupy file space and share a file byte are
   always reported (any object with fewer than 2^16 sections and segments). *)
Theorem C20_overlap_reported :
  forall el i j a b,
    lenN (el_secs el) < 2 ^ 16 -> lenN (el_segs el) < 2 ^ 16 ->
    i < j -> nth_optN (el_secs el) i = Some a -> nth_optN (el_secs el) j = Some b ->
    occupies a -> occupies b -> in_file a -> in_file b -> file_overlap a b ->
    In (COverlap i j) (validate el).
Proof. exact validate_reports_overlap. Qed.
Print Assumptions C20_overlap_reported.

(* A loadable segment whose address disagrees with the address of the program
   section found at its file offset is always reported. *)
Theorem C20_skewed_segment_reported :
  forall el g sec,
    lenN (el_secs el) < 2 ^ 16 -> lenN (el_segs el) < 2 ^ 16 ->
    In g (el_segs el) -> p_type g = PT_LOAD -> 0 < p_filesz g ->
    find_prog_section (el_secs el) (p_offset g) = Some sec ->
    get_virtual_addr (p_offset g) sec <> p_vaddr g ->
    In (CSegAddr (g_index g) (s_index sec)) (validate el).
Proof. exact validate_reports_skew. Qed.
Print Assumptions C20_skewed_segment_reported.

(* Overlap complaints are never spurious: a complaint names two sections that
   occupy file space and do share a byte. *)
Theorem C20_overlap_complaints_are_real :
  forall el i j,
    lenN (el_secs el) < 2 ^ 16 -> lenN (el_segs el) < 2 ^ 16 ->
    (forall s, In s (el_secs el) -> in_file s) ->
    In (COverlap i j) (validate el) ->
    exists a b, i < j /\ nth_optN (el_secs el) i = Some a /\ nth_optN (el_secs el) j = Some b /\
                occupies a /\ occupies b /\ file_overlap a b.
Proof. exact validate_overlap_sound. Qed.
Print Assumptions C20_overlap_complaints_are_real.

(* No complaint at all when no pair is reported and every loadable segment agrees
   with its program section.  (That the writer's output meets these premises is
   Properties_C04 for the modelled layouts plus the correspondence run: partial.) *)
Theorem C20_consistent_accepted_partial :
  forall el,
    lenN (el_secs el) < 2 ^ 16 -> lenN (el_segs el) < 2 ^ 16 ->
    (forall i j a b, i < j -> nth_optN (el_secs el) i = Some a -> nth_optN (el_secs el) j = Some b ->
                     sections_overlap_reported a b = false) ->
    (forall g sec, In g (el_segs el) -> p_type g = PT_LOAD -> 0 < p_filesz g ->
                   find_prog_section (el_secs el) (p_offset g) = Some sec ->
                   get_virtual_addr (p_offset g) sec = p_vaddr g) ->
    validate el = [].
Proof. exact validate_clean. Qed.
Print Assumptions C20_consistent_accepted_partial.

(* what the writer lays out for an object without segments is accepted: after
   the layout step of save(), validate() has no complaint (sections of type
   SHT_NULL are empty, as is the section with index 0) *)
Theorem C20_accepts_writer_output_without_segments :
  forall el h0 bound,
    el_hdr el = Some h0 -> el_segs el = [] ->
    bound <= 2 ^ 63 -> Forall (fun s => bound <= 2 ^ xw (s_cls s)) (el_secs el) ->
    e_ehsize h0 + budget (el_secs el) + 16 < bound ->
    lenN (el_secs el) < 2 ^ 16 ->
    (forall s, In s (el_secs el) -> sh_type s = SHT_NULL -> sh_size s = 0) ->
    (forall s, In s (el_secs el) -> s_index s = 0 -> sh_size s = 0 \/ sh_type s = SHT_NOBITS) ->
    exists el', layout el = Ok (el', true) /\ validate el' = [].
Proof. exact validate_accepts_noseg_layout. Qed.
Print Assumptions C20_accepts_writer_output_without_segments.

(* the pair test is exact on sections that occupy file space *)
Theorem C20_pair_test_exact :
  forall a b, occupies a -> occupies b -> in_file a -> in_file b ->
    (sections_overlap_reported a b = true <-> file_overlap a b).
Proof. exact overlap_reported_iff. Qed.
Print Assumptions C20_pair_test_exact.

(* non-vacuity: a strictly contained section (none of whose ends the containing
   one's end tests see) and a skewed segment are both reported *)
Definition ex_sec (i ty off sz addr : N) : section :=
  with_index (with_addr (with_size (with_offset (with_type (new_section C64) ty) off) sz) addr) i.
Definition ex_el : elfio :=
  with_segs (with_secs (empty_elfio false)
     [ex_sec 0 0 0 0 0; ex_sec 1 SHT_PROGBITS 100 50 4096; ex_sec 2 SHT_STRTAB 110 10 0])
     [seg_set (seg_set (seg_set (seg_set (new_segment C64) GType PT_LOAD) GOffset 100) GFilesz 50) GVaddr 4097].
Example C20_example :
  validate ex_el = [COverlap 1 2; CSegAddr 0 1] /\
  occupies (ex_sec 1 SHT_PROGBITS 100 50 4096) /\ in_file (ex_sec 2 SHT_STRTAB 110 10 0) /\
  file_overlap (ex_sec 1 SHT_PROGBITS 100 50 4096) (ex_sec 2 SHT_STRTAB 110 10 0).
Proof.
  split; [vm_compute; reflexivity|]. split; [|split].
  - unfold occupies; vm_compute. repeat split; discriminate.
  - unfold in_file; vm_compute. reflexivity.
  - exists 112. vm_compute. repeat split; discriminate.
Qed.
