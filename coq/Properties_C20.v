(* Properties_C20.v — C20: validate() reports real conflicts, and only those. *)
From ElfioV Require Import Bytes Mem Stream SectionData Elfio Table Layout Writer Validate_proofs Layout_proofs Validate_writer Segment_proofs Validate_oneseg
     Loader Stream Strings Codec_proofs Ostream_proofs Reader_proofs Writer_proofs Oneseg_proofs Oneseg_writer Oneseg_members Reload_oneseg Validate_reload.
From Coq Require Import Sorted.
Local Open Scope N_scope.

(* Two non-empty sections that occupy file space and share a file byte are
   always reported (any object with fewer than 2^16 sections and segments). *)
Theorem C20_overlap_reported :
  forall el i j a b,
    lenN (el_secs el) < 2 ^ 16 -> lenN (el_segs el) < 2 ^ 16 ->
    i < j -> nth_optN (el_secs el) i = Some a -> nth_optN (el_secs el) j = Some b ->
    occupies a -> occupies b -> in_file a -> in_file b -> file_overlap a b ->
    In (COverlap i j) (validate el).
Proof. exact validate_reports_overlap. Qed.
Print Assumptions C20_overlap_reported.

(* A loadable segment whose address disagrees with the address of the program
   section found at its file offset is always reported. *)
Theorem C20_skewed_segment_reported :
  forall el g sec,
    lenN (el_secs el) < 2 ^ 16 -> lenN (el_segs el) < 2 ^ 16 ->
    In g (el_segs el) -> p_type g = PT_LOAD -> 0 < p_filesz g ->
    find_prog_section (el_secs el) (p_offset g) = Some sec ->
    get_virtual_addr (p_offset g) sec <> p_vaddr g ->
    In (CSegAddr (g_index g) (s_index sec)) (validate el).
Proof. exact validate_reports_skew. Qed.
Print Assumptions C20_skewed_segment_reported.

(* Overlap complaints are never spurious: a complaint names two sections that
   occupy file space and do share a byte. *)
Theorem C20_overlap_complaints_are_real :
  forall el i j,
    lenN (el_secs el) < 2 ^ 16 -> lenN (el_segs el) < 2 ^ 16 ->
    (forall s, In s (el_secs el) -> in_file s) ->
    In (COverlap i j) (validate el) ->
    exists a b, i < j /\ nth_optN (el_secs el) i = Some a /\ nth_optN (el_secs el) j = Some b /\
                occupies a /\ occupies b /\ file_overlap a b.
Proof. exact validate_overlap_sound. Qed.
Print Assumptions C20_overlap_complaints_are_real.

(* No complaint at all when no pair is reported and every loadable segment agrees
   with its program section.  (That the writer's output meets these premises is
   Properties_C04 for the modelled layouts plus the correspondence run: partial.) *)
Theorem C20_consistent_accepted_partial :
  forall el,
    lenN (el_secs el) < 2 ^ 16 -> lenN (el_segs el) < 2 ^ 16 ->
    (forall i j a b, i < j -> nth_optN (el_secs el) i = Some a -> nth_optN (el_secs el) j = Some b ->
                     sections_overlap_reported a b = false) ->
    (forall g sec, In g (el_segs el) -> p_type g = PT_LOAD -> 0 < p_filesz g ->
                   find_prog_section (el_secs el) (p_offset g) = Some sec ->
                   get_virtual_addr (p_offset g) sec = p_vaddr g) ->
    validate el = [].
Proof. exact validate_clean. Qed.
Print Assumptions C20_consistent_accepted_partial.

(* what the writer lays out for an object without segments is accepted: after
   the layout step of save(), validate() has no complaint (sections of type
   SHT_NULL are empty, as is the section with index 0) *)
Theorem C20_accepts_writer_output_without_segments :
  forall el h0 bound,
    el_hdr el = Some h0 -> el_segs el = [] ->
    bound <= 2 ^ 63 -> Forall (fun s => bound <= 2 ^ xw (s_cls s)) (el_secs el) ->
    e_ehsize h0 + budget (el_secs el) + 16 < bound ->
    lenN (el_secs el) < 2 ^ 16 ->
    (forall s, In s (el_secs el) -> sh_type s = SHT_NULL -> sh_size s = 0) ->
    (forall s, In s (el_secs el) -> s_index s = 0 -> sh_size s = 0 \/ sh_type s = SHT_NOBITS) ->
    exists el', layout el = Ok (el', true) /\ validate el' = [].
Proof. exact validate_accepts_noseg_layout. Qed.
Print Assumptions C20_accepts_writer_output_without_segments.

(* ... and for an object with one segment of automatically addressed allocated data members plus any sections
   outside it (the class of C04_layout_with_one_segment): the layout succeeds, no two sections are reported as
   overlapping, and the program section found at the segment's file offset is its first member, whose address
   is the segment's virtual address *)
Theorem C20_accepts_writer_output_with_one_segment :
  forall el h0 g bound ms,
    let idxs := g_sections g in
    let align := if 0 <? p_align g then p_align g else 1 in
    let secs := el_secs el in
    let pos0 := e_ehsize h0 + e_phentsize h0 in
    el_hdr el = Some h0 -> el_segs el = [g] -> lenN secs < 2 ^ 16 ->
    lenN idxs < 2 ^ 16 -> idxs <> [] -> g_offset_set g = false -> p_type g <> PT_PHDR -> NoDup idxs ->
    Forall2 (fun i s => nth_optN secs i = Some s) idxs ms ->
    Forall auto_member ms -> Forall (fun s => sh_addralign s <= p_align g) ms ->
    bound <= 2 ^ 63 -> Forall (fun s => bound <= 2 ^ xw (s_cls s)) secs -> bound <= 2 ^ xw (g_cls g) ->
    p_align g < 2 ^ 63 ->
    p_vaddr g + pos0 + align + mbudget ms + budget secs + 16 < bound ->
    (forall s, In s secs -> sh_type s = SHT_NULL -> sh_size s = 0) ->
    (forall s, In s secs -> s_index s = 0 -> sh_size s = 0 \/ sh_type s = SHT_NOBITS) ->
    exists el', layout el = Ok (el', true) /\ validate el' = [].
Proof. exact validate_accepts_oneseg_layout. Qed.
Print Assumptions C20_accepts_writer_output_with_one_segment.

(* non-vacuity: ELF32, a PT_LOAD segment at 0x8048004 (align 0x1000) holding two program sections, a free section behind:
   the layout succeeds and validate() has nothing to say about it (the object of C04_one_segment_example) *)
Definition ex1_ms (i al sz : N) : section :=
  with_index (with_flags (with_size (with_addralign (with_type (new_section C32) 1) al) sz) 2) i.
Definition ex1_seg : segment :=
  seg_add_section_index (seg_add_section_index (seg_set (seg_set (seg_set (new_segment C32) GType 1) GVaddr 134512644) GAlign 4096) 1 16) 2 4.
Example C20_one_segment_example :
  let fs (i : N) := with_index (with_size (with_addralign (with_type (new_section C32) 1) 1) 7) i in
  let el := with_segs (with_secs (with_hdr (empty_elfio false) (Some (new_header C32 LSB)))
                                 [ex1_ms 0 0 0; ex1_ms 1 16 5; ex1_ms 2 4 3; fs 3]) [ex1_seg] in
  exists el', layout el = Ok (el', true) /\ validate el' = [] /\ map p_offset (el_segs el') = [4100] /\
              Forall auto_member [ex1_ms 1 16 5; ex1_ms 2 4 3].
Proof.
  eexists. split; [vm_compute; reflexivity|]. split; [vm_compute; reflexivity|]. split; [vm_compute; reflexivity|].
  repeat constructor; vm_compute; discriminate.
Qed.

(* validate() reads nothing but header fields - of the sections: type, size, offset, address, index; of the segments:
   type, offset, file size, address, index - so it says the same about any two objects that report the same fields *)
Theorem C20_validate_reads_headers_only :
  forall el1 el2,
    Forall2 sec_alike (el_secs el1) (el_secs el2) -> Forall2 seg_alike (el_segs el1) (el_segs el2) ->
    validate el2 = validate el1.
Proof. exact validate_reads_headers_only. Qed.
Print Assumptions C20_validate_reads_headers_only.

(* ... hence the RELOADED form of the file saved from a one-segment object (the class above) is accepted as well: the
   sections and the segment that the two loader loops report for the saved file (C05_one_segment_survives_reload)
   form an object validate() has nothing to say about *)
Theorem C20_accepts_reloaded_writer_output_with_one_segment :
  forall junk el h0 g bound ms,
    let idxs := g_sections g in
    let align := if 0 <? p_align g then p_align g else 1 in
    let secs := el_secs el in
    let pos0 := e_ehsize h0 + e_phentsize h0 in
    el_hdr el = Some h0 -> el_segs el = [g] -> lenN secs < 2 ^ 16 ->
    lenN idxs < 2 ^ 16 -> idxs <> [] -> g_offset_set g = false -> p_type g <> PT_PHDR -> NoDup idxs ->
    Forall2 (fun i s => nth_optN secs i = Some s) idxs ms ->
    Forall auto_member ms -> Forall (fun s => sh_addralign s <= p_align g) ms ->
    bound <= 2 ^ 62 -> Forall (fun s => bound <= 2 ^ xw (s_cls s)) secs -> bound <= 2 ^ xw (g_cls g) ->
    bound <= 2 ^ xw (e_cls h0) -> p_align g < 2 ^ 63 ->
    p_vaddr g + pos0 + align + mbudget ms + budget secs + 16 + e_shentsize h0 * lenN secs < bound ->
    indexed_from 0 secs ->
    (forall s, In s secs -> s_index s = 0 -> csize s = 0) ->
    (forall s b, In s secs -> s_data s = Some b -> sh_size s <= lenN b) ->
    lenN (e_ident h0) = 16 -> e_ehsize h0 = ehdr_size (e_cls h0) ->
    (forall s, In s secs -> shdr_size (s_cls s) <= e_shentsize h0) ->
    phdr_size (g_cls g) <= e_phentsize h0 -> g_index g = 0 -> e_shentsize h0 = shdr_size (e_cls h0) ->
    p_type g <> PT_TLS -> Forall (fun s => sh_size s <> 0) ms ->
    (forall j s, ~ In j idxs -> nth_optN secs j = Some s ->
       is_tls s \/ (is_alloc s /\ sh_addr s < p_vaddr g) \/ (~ is_alloc s /\ (s_index s = 0 -> sh_offset s < pos0))) ->
    secs <> [] ->
    (forall s, In s secs -> sh_type s = SHT_NULL -> sh_size s = 0) ->
    (forall s, In s secs -> s_index s = 0 -> sh_size s = 0 \/ sh_type s = SHT_NOBITS) ->
    exists el' h' g',
      layout el = Ok (el', true) /\ el_hdr el' = Some h' /\ el_segs el' = [g'] /\ validate el' = [] /\
      let plan := oneseg_plan h' (el_secs el') (segments_plan (e_enc h') h' [g']) in
      (plan_small 0 plan -> phdr_wf g' ->
       (forall s, In s (el_secs el') -> s_cls s = e_cls h' /\ shdr_wf s) ->
       p_vaddr g + p_memsz g' < 2 ^ 64 -> StronglySorted N.lt idxs ->
       forall k f,
       let file := os_bytes (exec_plan (new_ostream None) plan) in
       exists st1 loaded st2 r,
         load_sections_loop junk (length secs) (open_istream k file) [] (e_cls h') (e_enc h') (e_shoff h') (e_shentsize h')
                            0 (e_shnum h') true [] [] = Ok (st1, rev loaded, []) /\
         load_segments_loop (S f) st1 [] loaded (e_enc h') (g_cls g') (e_phoff h') (e_phentsize h') 0 (e_phnum h') true [] [] =
           Ok (st2, [r], true, []) /\
         forall elr, el_secs elr = loaded -> el_segs elr = [r] -> validate elr = []).
Proof. exact validate_accepts_reloaded_oneseg. Qed.
Print Assumptions C20_accepts_reloaded_writer_output_with_one_segment.

(* the pair test is exact on sections that occupy file space *)
Theorem C20_pair_test_exact :
  forall a b, occupies a -> occupies b -> in_file a -> in_file b ->
    (sections_overlap_reported a b = true <-> file_overlap a b).
Proof. exact overlap_reported_iff. Qed.
Print Assumptions C20_pair_test_exact.

(* non-vacuity: a strictly contained section (none of whose ends the containing
   one's end tests see) and a skewed segment are both reported *)
Definition ex_sec (i ty off sz addr : N) : section :=
  with_index (with_addr (with_size (with_offset (with_type (new_section C64) ty) off) sz) addr) i.
Definition ex_el : elfio :=
  with_segs (with_secs (empty_elfio false)
     [ex_sec 0 0 0 0 0; ex_sec 1 SHT_PROGBITS 100 50 4096; ex_sec 2 SHT_STRTAB 110 10 0])
     [seg_set (seg_set (seg_set (seg_set (new_segment C64) GType PT_LOAD) GOffset 100) GFilesz 50) GVaddr 4097].
Example C20_example :
  validate ex_el = [COverlap 1 2; CSegAddr 0 1] /\
  occupies (ex_sec 1 SHT_PROGBITS 100 50 4096) /\ in_file (ex_sec 2 SHT_STRTAB 110 10 0) /\
  file_overlap (ex_sec 1 SHT_PROGBITS 100 50 4096) (ex_sec 2 SHT_STRTAB 110 10 0).
Proof.
  split; [vm_compute; reflexivity|]. split; [|split].
  - unfold occupies; vm_compute. repeat split; discriminate.
  - unfold in_file; vm_compute. reflexivity.
  - exists 112. vm_compute. repeat split; discriminate.
Qed.
