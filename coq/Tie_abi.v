(* Tie_abi.v — tie A: the model's record layouts, field orders, offsets and
   constants equal what /repo/elfio/elf_types.hpp declares now (Gen_abi.v is
   regenerated from the header on every run). *)
From Coq Require Import List NArith String.
From ElfioV Require Import Bytes Mem SectionData Elfio Table Accessors Loader Gen_abi.
Import ListNotations.
Local Open Scope string_scope.

(* the order in which the model's codecs list the fields (enc_sym, shdr_bytes,
   phdr_bytes, ehdr_bytes, enc_rel, dyn entries), with the model's widths *)
Definition ehdr_names := ["e_type"; "e_machine"; "e_version"; "e_entry"; "e_phoff"; "e_shoff"; "e_flags";
                          "e_ehsize"; "e_phentsize"; "e_phnum"; "e_shentsize"; "e_shnum"; "e_shstrndx"].
Definition shdr_names := ["sh_name"; "sh_type"; "sh_flags"; "sh_addr"; "sh_offset"; "sh_size"; "sh_link"; "sh_info";
                          "sh_addralign"; "sh_entsize"].
Definition phdr_names (c : cls) := match c with
  | C32 => ["p_type"; "p_offset"; "p_vaddr"; "p_paddr"; "p_filesz"; "p_memsz"; "p_flags"; "p_align"]
  | C64 => ["p_type"; "p_flags"; "p_offset"; "p_vaddr"; "p_paddr"; "p_filesz"; "p_memsz"; "p_align"] end.
Definition sym_names (c : cls) := match c with
  | C32 => ["st_name"; "st_value"; "st_size"; "st_info"; "st_other"; "st_shndx"]
  | C64 => ["st_name"; "st_info"; "st_other"; "st_shndx"; "st_value"; "st_size"] end.

Lemma tie_ehdr32 : gen_fields_Elf32_Ehdr = ("e_ident", 16%nat) :: combine ehdr_names (ehdr_layout C32). Proof. reflexivity. Qed.
Lemma tie_ehdr64 : gen_fields_Elf64_Ehdr = ("e_ident", 16%nat) :: combine ehdr_names (ehdr_layout C64). Proof. reflexivity. Qed.
Lemma tie_shdr32 : gen_fields_Elf32_Shdr = combine shdr_names (shdr_layout C32). Proof. reflexivity. Qed.
Lemma tie_shdr64 : gen_fields_Elf64_Shdr = combine shdr_names (shdr_layout C64). Proof. reflexivity. Qed.
Lemma tie_phdr32 : gen_fields_Elf32_Phdr = combine (phdr_names C32) (phdr_layout C32). Proof. reflexivity. Qed.
Lemma tie_phdr64 : gen_fields_Elf64_Phdr = combine (phdr_names C64) (phdr_layout C64). Proof. reflexivity. Qed.
Lemma tie_sym32 : gen_fields_Elf32_Sym = combine (sym_names C32) (sym_layout C32). Proof. reflexivity. Qed.
Lemma tie_sym64 : gen_fields_Elf64_Sym = combine (sym_names C64) (sym_layout C64). Proof. reflexivity. Qed.
Lemma tie_rel32 : gen_fields_Elf32_Rel = combine ["r_offset"; "r_info"] (rel_layout C32). Proof. reflexivity. Qed.
Lemma tie_rel64 : gen_fields_Elf64_Rel = combine ["r_offset"; "r_info"] (rel_layout C64). Proof. reflexivity. Qed.
Lemma tie_rela32 : gen_fields_Elf32_Rela = combine ["r_offset"; "r_info"; "r_addend"] (rela_layout C32). Proof. reflexivity. Qed.
Lemma tie_rela64 : gen_fields_Elf64_Rela = combine ["r_offset"; "r_info"; "r_addend"] (rela_layout C64). Proof. reflexivity. Qed.
Lemma tie_dyn32 : gen_fields_Elf32_Dyn = combine ["d_tag"; "d_un"] (dyn_layout C32). Proof. reflexivity. Qed.
Lemma tie_dyn64 : gen_fields_Elf64_Dyn = combine ["d_tag"; "d_un"] (dyn_layout C64). Proof. reflexivity. Qed.

Lemma tie_sizes :
  gen_sizeof_Elf32_Ehdr = ehdr_size C32 /\ gen_sizeof_Elf64_Ehdr = ehdr_size C64 /\
  gen_sizeof_Elf32_Shdr = shdr_size C32 /\ gen_sizeof_Elf64_Shdr = shdr_size C64 /\
  gen_sizeof_Elf32_Phdr = phdr_size C32 /\ gen_sizeof_Elf64_Phdr = phdr_size C64 /\
  gen_sizeof_Elf32_Sym = layout_size (sym_layout C32) /\ gen_sizeof_Elf64_Sym = layout_size (sym_layout C64) /\
  gen_sizeof_Elf32_Rel = layout_size (rel_layout C32) /\ gen_sizeof_Elf64_Rel = layout_size (rel_layout C64) /\
  gen_sizeof_Elf32_Rela = layout_size (rela_layout C32) /\ gen_sizeof_Elf64_Rela = layout_size (rela_layout C64) /\
  gen_sizeof_Elf32_Dyn = layout_size (dyn_layout C32) /\ gen_sizeof_Elf64_Dyn = layout_size (dyn_layout C64).
Proof. repeat split. Qed.

(* version records are read by the model at literal offsets *)
Fixpoint offset_of (name : string) (fields : list (string * nat)) (acc : nat) : option (nat * nat) :=
  match fields with
  | [] => None
  | (n, w) :: t => if String.eqb n name then Some (acc, w) else offset_of name t (acc + w)%nat
  end.
Lemma tie_verneed :
  gen_sizeof_Elfxx_Verneed = 16%N /\
  offset_of "vn_version" gen_fields_Elfxx_Verneed 0 = Some (0, 2)%nat /\
  offset_of "vn_file" gen_fields_Elfxx_Verneed 0 = Some (4, 4)%nat /\
  offset_of "vn_aux" gen_fields_Elfxx_Verneed 0 = Some (8, 4)%nat /\
  offset_of "vn_next" gen_fields_Elfxx_Verneed 0 = Some (12, 4)%nat.
Proof. repeat split. Qed.
Lemma tie_vernaux :
  gen_sizeof_Elfxx_Vernaux = 16%N /\
  offset_of "vna_hash" gen_fields_Elfxx_Vernaux 0 = Some (0, 4)%nat /\
  offset_of "vna_flags" gen_fields_Elfxx_Vernaux 0 = Some (4, 2)%nat /\
  offset_of "vna_other" gen_fields_Elfxx_Vernaux 0 = Some (6, 2)%nat /\
  offset_of "vna_name" gen_fields_Elfxx_Vernaux 0 = Some (8, 4)%nat.
Proof. repeat split. Qed.
Lemma tie_verdef :
  gen_sizeof_Elfxx_Verdef = 20%N /\
  offset_of "vd_flags" gen_fields_Elfxx_Verdef 0 = Some (2, 2)%nat /\
  offset_of "vd_ndx" gen_fields_Elfxx_Verdef 0 = Some (4, 2)%nat /\
  offset_of "vd_hash" gen_fields_Elfxx_Verdef 0 = Some (8, 4)%nat /\
  offset_of "vd_aux" gen_fields_Elfxx_Verdef 0 = Some (12, 4)%nat /\
  offset_of "vd_next" gen_fields_Elfxx_Verdef 0 = Some (16, 4)%nat.
Proof. repeat split. Qed.
Lemma tie_verdaux :
  gen_sizeof_Elfxx_Verdaux = 8%N /\ offset_of "vda_name" gen_fields_Elfxx_Verdaux 0 = Some (0, 4)%nat.
Proof. repeat split. Qed.

Local Open Scope N_scope.
Lemma tie_constants :
  gen_SHT_NULL = SHT_NULL /\ gen_SHT_PROGBITS = SHT_PROGBITS /\ gen_SHT_SYMTAB = SHT_SYMTAB /\ gen_SHT_STRTAB = SHT_STRTAB /\
  gen_SHT_RELA = SHT_RELA /\ gen_SHT_HASH = SHT_HASH /\ gen_SHT_DYNAMIC = SHT_DYNAMIC /\ gen_SHT_NOTE = SHT_NOTE /\
  gen_SHT_NOBITS = SHT_NOBITS /\ gen_SHT_REL = SHT_REL /\ gen_SHT_DYNSYM = SHT_DYNSYM /\ gen_SHT_GNU_HASH = SHT_GNU_HASH /\
  gen_DT_GNU_HASH = DT_GNU_HASH_c /\ gen_SHF_ALLOC = SHF_ALLOC /\ gen_SHF_TLS = SHF_TLS /\ gen_SHF_COMPRESSED = SHF_COMPRESSED /\
  gen_SHF_RPX_DEFLATE = SHF_RPX_DEFLATE /\ gen_PT_NULL = PT_NULL /\ gen_PT_LOAD = PT_LOAD /\ gen_PT_NOTE = PT_NOTE /\
  gen_PT_PHDR = PT_PHDR /\ gen_PT_TLS = PT_TLS /\ gen_STB_LOCAL = STB_LOCAL /\
  gen_DT_NULL = DT_NULL /\ gen_DT_NEEDED = DT_NEEDED /\ gen_DT_SONAME = DT_SONAME /\ gen_DT_RPATH = DT_RPATH /\
  gen_DT_SYMBOLIC = DT_SYMBOLIC /\ gen_DT_TEXTREL = DT_TEXTREL /\ gen_DT_BIND_NOW = DT_BIND_NOW /\ gen_DT_RUNPATH = DT_RUNPATH /\
  gen_DT_VERDEFNUM = DT_VERDEFNUM /\ gen_DT_VERNEEDNUM = DT_VERNEEDNUM /\
  gen_EI_NIDENT = 16 /\ gen_EI_CLASS = 4 /\ gen_EI_DATA = 5 /\ gen_EI_VERSION = 6 /\ gen_EI_OSABI = 7 /\ gen_EI_ABIVERSION = 8 /\
  gen_ELFCLASS32 = cls_byte C32 /\ gen_ELFCLASS64 = cls_byte C64 /\ gen_ELFDATA2LSB = enc_byte LSB /\ gen_ELFDATA2MSB = enc_byte MSB /\
  gen_EV_CURRENT = 1 /\ [gen_ELFMAG0; gen_ELFMAG1; gen_ELFMAG2; gen_ELFMAG3] = [127; 69; 76; 70].
Proof. repeat split. Qed.
