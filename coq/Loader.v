(* Loader.v — elfio::load( std::istream&, bool is_lazy ): elfio.hpp:186-225,
   547-690; elf_header_impl::load (elfio_header.hpp:138-144); section_impl::load
   (elfio_section.hpp:426-462); segment_impl::load (elfio_segment.hpp:285-310). *)
From ElfioV Require Import Bytes Mem Stream SectionData Strings Elfio Table.

Fixpoint map_res {A B} (f : A -> res B) (l : list A) : res (list B) :=
  match l with
  | [] => Ok []
  | x :: t => y <- f x ;; r <- map_res f t ;; Ok (y :: r)
  end.
Local Open Scope N_scope.

(* on-disk layouts (field widths in declaration order, after e_ident for the ELF header) *)
Definition ehdr_layout (c : cls) : list nat :=
  match c with
  | C32 => [2; 2; 4; 4; 4; 4; 4; 2; 2; 2; 2; 2; 2]%nat
  | C64 => [2; 2; 4; 8; 8; 8; 4; 2; 2; 2; 2; 2; 2]%nat
  end.
Definition shdr_layout (c : cls) : list nat :=
  match c with
  | C32 => [4; 4; 4; 4; 4; 4; 4; 4; 4; 4]%nat
  | C64 => [4; 4; 8; 8; 8; 8; 4; 4; 8; 8]%nat
  end.
Definition phdr_layout (c : cls) : list nat :=
  match c with
  | C32 => [4; 4; 4; 4; 4; 4; 4; 4]%nat     (* type offset vaddr paddr filesz memsz flags align *)
  | C64 => [4; 4; 8; 8; 8; 8; 8; 8]%nat     (* type flags offset vaddr paddr filesz memsz align *)
  end.

(* ---- raw struct images ---- *)
Definition ehdr_bytes (h : ehdr) : bytes :=
  e_ident h ++
  enc_fields (e_enc h) (ehdr_layout (e_cls h))
    [e_type h; e_machine h; e_version h; e_entry h; e_phoff h; e_shoff h; e_flags h;
     e_ehsize h; e_phentsize h; e_phnum h; e_shentsize h; e_shnum h; e_shstrndx h].

Definition ehdr_of_bytes (c : cls) (e : endian) (raw : bytes) : ehdr :=
  let v := dec_fields e (ehdr_layout c) (skipnN raw 16) in
  mkEhdr c e (firstnN raw 16)
         (nthN v 0 0) (nthN v 1 0) (nthN v 2 0) (nthN v 3 0) (nthN v 4 0) (nthN v 5 0) (nthN v 6 0)
         (nthN v 7 0) (nthN v 8 0) (nthN v 9 0) (nthN v 10 0) (nthN v 11 0) (nthN v 12 0).

Definition shdr_bytes (e : endian) (s : section) : bytes :=
  enc_fields e (shdr_layout (s_cls s))
    [sh_name s; sh_type s; sh_flags s; sh_addr s; sh_offset s; sh_size s; sh_link s; sh_info s;
     sh_addralign s; sh_entsize s].

Definition sec_with_raw (e : endian) (s : section) (raw : bytes) : section :=
  let v := dec_fields e (shdr_layout (s_cls s)) raw in
  with_raw_header s (nthN v 0 0) (nthN v 1 0) (nthN v 2 0) (nthN v 3 0) (nthN v 4 0) (nthN v 5 0)
                  (nthN v 6 0) (nthN v 7 0) (nthN v 8 0) (nthN v 9 0).

Definition phdr_bytes (e : endian) (g : segment) : bytes :=
  match g_cls g with
  | C32 => enc_fields e (phdr_layout C32)
             [p_type g; p_offset g; p_vaddr g; p_paddr g; p_filesz g; p_memsz g; p_flags g; p_align g]
  | C64 => enc_fields e (phdr_layout C64)
             [p_type g; p_flags g; p_offset g; p_vaddr g; p_paddr g; p_filesz g; p_memsz g; p_align g]
  end.

Definition seg_of_raw (e : endian) (g : segment) (raw : bytes) (ss : N) (lz : bool) : segment :=
  let v := dec_fields e (phdr_layout (g_cls g)) raw in
  match g_cls g with
  | C32 => seg_with_raw g (nthN v 0 0) (nthN v 6 0) (nthN v 1 0) (nthN v 2 0) (nthN v 3 0) (nthN v 4 0) (nthN v 5 0) (nthN v 7 0) ss lz
  | C64 => seg_with_raw g (nthN v 0 0) (nthN v 1 0) (nthN v 2 0) (nthN v 3 0) (nthN v 4 0) (nthN v 5 0) (nthN v 6 0) (nthN v 7 0) ss lz
  end.

(* a struct of [n] bytes whose first bytes were overwritten by a (possibly short) read *)
Definition fill_struct (default got : bytes) : bytes := got ++ skipnN default (lenN got).

(* is_sect_in_seg — elfio.hpp:599-610 *)
Definition is_sect_in_seg (sect_begin sect_size seg_begin seg_end : N) : bool :=
  (seg_begin <=? sect_begin) && (wrap64 (sect_begin + sect_size) <=? seg_end) && (sect_begin <? seg_end).

Section WithEnv.
  Variable junk : N -> N.

  (* position arithmetic of load_sections/load_segments:
     static_cast<std::streamoff>( offset ) + static_cast<std::streampos>( i ) * entry_size *)
  Definition table_pos (offset i entsize : N) : Z :=
    (to_signed64 offset + Z.of_N (i * entsize))%Z.

  (* section_impl::load *)
  Definition section_load (st : istream) (t : xlat) (enc : endian) (s : section) (pos : Z) (lazy : bool)
    : res (istream * section * list N) :=
    let '(st1, ss) :=
      if xlat_empty t then let st1 := seekg_end st in (st1, tellg_size st1)
      else (st, SIZE_MAX) in
    let st2 := seekg st1 (xlat_apply t pos) in
    let '(st3, got) := read st2 (shdr_size (s_cls s)) in
    if negb (lenN got =? shdr_size (s_cls s)) then
      (* the entry is not completely inside the stream (C17 fix): header = {}; return false -
         an empty section, no data request *)
      let s0 := sec_with_raw enc (with_stream_size s ss) (repeatN 0 (shdr_size (s_cls s))) in
      Ok (st3, with_load_flags s0 lazy (s_loaded s0) (s_can_load s0), [])
    else
    let s1 := sec_with_raw enc (with_stream_size s ss) (fill_struct (shdr_bytes enc s) got) in
    let s2 := with_load_flags s1 lazy (s_loaded s1) (s_can_load s1) in
    if lazy || s_loaded s2 then Ok (st3, s2, [])
    else
      '(sto, s3, al) <- sec_get_data junk (Some st3) t s2 ;;
      match sto with
      | Some st4 => Ok (st4, s3, al)
      | None => Fault NullDeref
      end.

  (* ---- compressed sections.  The library hands the buffer of a section flagged SHF_COMPRESSED / SHF_RPX_DEFLATE to the
     user's compression_interface, if the object has one.  The model fixes the interface to the one the correspondence
     harness installs (harness/elfio_harness.cpp, xor_compression): inflate/deflate XOR every byte with 0x5A and keep the
     length; inflate returns a buffer one byte longer (terminator) and nullptr when handed nullptr. ---- *)
  Definition codec_byte (b : N) : N := N.lxor b 90.
  Definition is_compressed (compr : bool) (s : section) : bool :=
    compr && (negb (N.land (sh_flags s) SHF_RPX_DEFLATE =? 0) || negb (N.land (sh_flags s) SHF_COMPRESSED =? 0)).
  (* section_impl::load, eager branch, after get_data(): inflate( data.get(), size ); the data pointer is replaced, the
     size set to what the interface reports (the same here), data_size is left as it was.  A lazy load never gets here. *)
  Definition inflate_step (compr lazy : bool) (s : section) : res section :=
    if lazy || negb (is_compressed compr s) then Ok s
    else match s_data s with
         | None => Ok s
         | Some b => d <- rd (Some b) 0 (sh_size s) ;; Ok (with_data s (Some (map codec_byte d ++ [0])) (s_data_size s))
         end.

  (* the loop of load_sections: sections are accumulated in reverse (the C++
     vector push_back is constant time; so is this) *)
  Fixpoint load_sections_loop (fuel : nat) (st : istream) (t : xlat) (c : cls) (enc : endian)
           (offset entsize : N) (i num : N) (lazy : bool) (racc : list section) (allocs : list N)
    : res (istream * list section * list N) :=
    match fuel with
    | O => Ok (st, racc, allocs)
    | S f =>
        if i <? num then
          let s0 := with_index (new_section c) (wrap16 i) in
          '(st1, s1, al) <- section_load st t enc s0 (table_pos offset i entsize) lazy ;;
          (* sec->set_address( sec->get_address() ) *)
          let s2 := with_addr s1 (sh_addr s1) in
          load_sections_loop f st1 t c enc offset entsize (i + 1) num lazy (s2 :: racc) (al ++ allocs)
        else Ok (st, racc, allocs)
    end.

  (* name resolution through e_shstrndx: the string section's data is
     requested for every section, but only the first request can change
     anything (it loads the data or marks it unloadable) *)
  Definition resolve_names (el : elfio) (shstrndx : N) (allocs : list N) : res (elfio * list N) :=
    match el_secs el with
    | [] => Ok (el, allocs)
    | _ =>
        match get_sec el shstrndx with
        | None => Ok (el, allocs)                       (* accessor over nullptr: every lookup is null *)
        | Some st =>
            '(sto, st1, al) <- sec_get_data junk (el_stream el) (el_xlat el) st ;;
            let el1 := with_stream (upd_sec el shstrndx st1) sto in
            secs <- map_res (fun si =>
                      r <- get_string_raw (s_data st1) (sh_size st1) (sh_name si) ;;
                      Ok (match r with Some nm => with_name si nm | None => si end)) (el_secs el1) ;;
            Ok (with_secs el1 secs, allocs ++ al)
        end
    end.

  Definition load_sections (st : istream) (el : elfio) (lazy : bool) : res (istream * elfio * list N) :=
    match el_hdr el with
    | None => Fault NullDeref
    | Some h =>
        let cb := nthN (e_ident h) 4 0 in
        let entsize := e_shentsize h in
        let num := e_shnum h in
        let offset := e_shoff h in
        if (negb (num =? 0) && (cb =? 2) && (entsize <? 64)) ||
           (negb (num =? 0) && (cb =? 1) && (entsize <? 40)) then Ok (st, el, [])
        else
          let c := if cb =? 2 then C64 else C32 in
          '(st1, racc, ral) <- load_sections_loop (N.to_nat num) st (el_xlat el) c (e_enc h) offset entsize 0 num lazy [] [] ;;
          (* the inflate step of each section's load(): it touches nothing but that section, so it is applied after the loop *)
          secs_i <- map_res (inflate_step (el_compr el) lazy) (rev_append racc []) ;;
          let el2 := with_stream (with_secs el secs_i) (Some st1) in
          let al := rev_append ral [] in
          let shstrndx := e_shstrndx h in
          if shstrndx =? 0 then Ok (st1, el2, al)
          else
            '(el3, al2) <- resolve_names el2 shstrndx al ;;
            match el_stream el3 with
            | Some st2 => Ok (st2, el3, al2)
            | None => Fault NullDeref
            end
    end.

  (* segment_impl::load *)
  Definition segment_load (st : istream) (t : xlat) (enc : endian) (g : segment) (pos : Z) (lazy : bool)
    : res (istream * segment * bool * list N) :=
    let '(st1, ss) :=
      if xlat_empty t then let st1 := seekg_end st in (st1, tellg_size st1)
      else (st, SIZE_MAX) in
    let st2 := seekg st1 (xlat_apply t pos) in
    let '(st3, got) := read st2 (phdr_size (g_cls g)) in
    let g1 := seg_of_raw enc g (fill_struct (phdr_bytes enc g) got) ss lazy in
    if lazy || g_loaded g1 then Ok (st3, g1, true, [])
    else
      '(sto, g2, ok, al) <- seg_load_data (Some st3) t g1 ;;
      match sto with
      | Some st4 => Ok (st4, g2, ok, al)
      | None => Fault NullDeref
      end.

  (* which sections belong to the segment — elfio.hpp:660-686 *)
  Definition seg_members (g : segment) (secs : list section) : list N :=
    let base := p_offset g in
    let eoff := wrap64 (base + p_filesz g) in
    let vbase := p_vaddr g in
    let vend := wrap64 (vbase + p_memsz g) in
    fold_left
      (fun acc s =>
         let inside :=
           if N.land (sh_flags s) SHF_ALLOC =? SHF_ALLOC
           then is_sect_in_seg (sh_addr s) (sh_size s) vbase vend
           else is_sect_in_seg (sh_offset s) (sh_size s) base eoff in
         let tls := N.land (sh_flags s) SHF_TLS =? SHF_TLS in
         if inside && negb (((p_type g =? PT_TLS) && negb tls) || (tls && negb (p_type g =? PT_TLS)))
         then acc ++ [s_index s] else acc)
      secs [].

  Fixpoint load_segments_loop (fuel : nat) (st : istream) (t : xlat) (secs : list section) (enc : endian) (c : cls)
           (offset entsize : N) (i num : N) (lazy : bool) (racc : list segment) (allocs : list N)
    : res (istream * list segment * bool * list N) :=
    match fuel with
    | O => Ok (st, racc, true, allocs)
    | S f =>
        if i <? num then
          let g0 := new_segment c in
          '(st1, g1, ok, al) <- segment_load st t enc g0 (table_pos offset i entsize) lazy ;;
          if negb ok || is_fail st1 then Ok (st1, racc, false, al ++ allocs)
          else
            let g2 := seg_with_index g1 (wrap16 i) in
            let g3 := fold_left (fun g idx => seg_add_section_index g idx 0) (seg_members g2 secs) g2 in
            load_segments_loop f st1 t secs enc c offset entsize (i + 1) num lazy (g3 :: racc) (al ++ allocs)
        else Ok (st, racc, true, allocs)
    end.

  Definition load_segments (st : istream) (el : elfio) (lazy : bool) : res (istream * elfio * bool * list N) :=
    match el_hdr el with
    | None => Fault NullDeref
    | Some h =>
        let cb := nthN (e_ident h) 4 0 in
        let entsize := e_phentsize h in
        let num := e_phnum h in
        let offset := e_phoff h in
        if (negb (num =? 0) && (cb =? 2) && (entsize <? 56)) ||
           (negb (num =? 0) && (cb =? 1) && (entsize <? 32)) then Ok (st, el, false, [])
        else
          let c := if cb =? 2 then C64 else C32 in
          '(st1, racc, ok, ral) <- load_segments_loop (N.to_nat num) st (el_xlat el) (el_secs el) (e_enc h) c
                                      offset entsize 0 num lazy [] [] ;;
          Ok (st1, with_segs el (rev_append racc []), ok, rev_append ral [])
    end.

  (* elfio::load( stream, is_lazy ) on a stream holding [content] *)
  Definition load (el : elfio) (kind : skind) (content : bytes) (lazy : bool)
    : res (elfio * bool * list N) :=
    let el0 := with_segs (with_secs el []) [] in
    let st0 := open_istream kind content in
    let t := el_xlat el in
    let st1 := seekg st0 (xlat_apply t 0%Z) in
    let '(st2, ident) := read st1 16 in
    let fail r := Ok (with_stream r (Some st2), false, []) in
    if negb (lenN ident =? 16) then fail el0
    else if negb ((nthN ident 0 0 =? 127) && (nthN ident 1 0 =? 69) && (nthN ident 2 0 =? 76) && (nthN ident 3 0 =? 70))
    then fail el0
    else
      let cb := nthN ident 4 0 in
      let db := nthN ident 5 0 in
      if negb ((cb =? 2) || (cb =? 1)) then fail el0
      else if negb ((db =? 1) || (db =? 2)) then fail el0
      else
        let c := if cb =? 2 then C64 else C32 in
        let e := if db =? 1 then LSB else MSB in
        let h0 := new_header c e in
        let st3 := seekg st2 (xlat_apply t 0%Z) in
        let '(st4, got) := read st3 (ehdr_size c) in
        let h1 := ehdr_of_bytes c e (fill_struct (ehdr_bytes h0) got) in
        let el1 := with_hdr el0 (Some h1) in
        if negb (lenN got =? ehdr_size c) then Ok (with_stream el1 (Some st4), false, [])
        else
          '(st5, el2, al1) <- load_sections st4 (with_stream el1 (Some st4)) lazy ;;
          '(st6, el3, ok, al2) <- load_segments st5 (with_stream el2 (Some st5)) lazy ;;
          Ok (with_stream el3 (Some st6), ok, al1 ++ al2).
End WithEnv.
