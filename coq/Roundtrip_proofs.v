(* Roundtrip_proofs.v — C05: what save() writes, load() reads back. *)
From ElfioV Require Import Bytes Mem Stream SectionData Strings Elfio Table Loader Layout Writer
     Load_proofs Data_proofs Codec_proofs Ostream_proofs Reader_proofs.
From Coq Require Import ZifyBool ZifyN ZifyNat.
Local Open Scope N_scope.

Lemma slice_full_len (l : bytes) off n (bs : bytes) : sliceN l off n = bs -> lenN bs = n -> 0 < n -> off + n <= lenN l.
Proof.
  intros H HL Hn. assert (E : lenN (sliceN l off n) = n) by (rewrite H; exact HL).
  unfold sliceN in E. rewrite lenN_firstnN, lenN_skipnN in E. lia.
Qed.

Section WithEnv.
  Variable junk : N -> N.

  (* a section header record written by a save is reported field by field by a
     load of the saved bytes *)
  Theorem written_section_header_reads_back os before after enc s (hpos : N) k idx lazy :
    stream_ok os -> good os ->
    plan_small (os_len os) (before ++ (hpos, shdr_bytes enc s) :: after) ->
    (forall w' i, In w' after -> in_range (hpos, shdr_bytes enc s) i = true -> in_range w' i = false) ->
    shdr_wf s -> hpos < 2 ^ 63 ->
    let content := os_bytes (exec_plan os (before ++ (hpos, shdr_bytes enc s) :: after)) in
    exists st' r al,
      section_load junk (open_istream k content) [] enc (with_index (new_section (s_cls s)) idx) (Z.of_N hpos) lazy = Ok (st', r, al) /\
      sh_name r = sh_name s /\ sh_type r = sh_type s /\ sh_flags r = sh_flags s /\ sh_addr r = sh_addr s /\
      sh_offset r = sh_offset s /\ sh_size r = sh_size s /\ sh_link r = sh_link s /\ sh_info r = sh_info s /\
      sh_addralign r = sh_addralign s /\ sh_entsize r = sh_entsize s /\ s_index r = idx.
  Proof.
    intros Hok Hg Hp Hdis Hwf H63. cbv zeta.
    pose proof (plan_slice_visible os before (hpos, shdr_bytes enc s) after Hok Hg Hp Hdis) as Hs. cbn [fst snd] in Hs.
    rewrite lenN_shdr_bytes in Hs.
    apply section_load_reports; try assumption; try reflexivity.
    cbn [is_content open_istream].
    apply (slice_full_len _ _ _ _ Hs); [apply lenN_shdr_bytes|destruct (s_cls s); cbn; lia].
  Qed.

  (* section data written by a save are the data a load of the saved bytes stores *)
  Theorem written_section_data_reads_back os before after (off : N) (d : bytes) k s :
    stream_ok os -> good os ->
    plan_small (os_len os) (before ++ (off, d) :: after) ->
    (forall w' i, In w' after -> in_range (off, d) i = true -> in_range w' i = false) ->
    let content := os_bytes (exec_plan os (before ++ (off, d) :: after)) in
    sh_offset s = off -> sh_size s = lenN d -> 0 < lenN d -> s_data s = None ->
    sh_type s <> SHT_NULL -> sh_type s <> SHT_NOBITS -> lenN content < 2 ^ 63 -> s_stream_size s = lenN content ->
    exists st1 s1,
      sec_load_data junk (Some (open_istream k content)) [] s = Ok (Some st1, s1, true, [sh_size s + 1]) /\
      s_data s1 = Some (d ++ [0]).
  Proof.
    intros Hok Hg Hp Hdis. cbv zeta. intros Ho Hz Hn Hd T1 T2 H63 Hss.
    pose proof (plan_slice_visible os before (off, d) after Hok Hg Hp Hdis) as Hs. cbn [fst snd] in Hs.
    set (content := os_bytes (exec_plan os (before ++ (off, d) :: after))) in *.
    assert (Hoff : sec_file_off [] s = off).
    { unfold sec_file_off. cbn [xlat_apply]. unfold of_signed64, to_signed64.
      pose proof (slice_full_len _ _ _ _ Hs eq_refl Hn) as Hin.
      rewrite Ho. rewrite N.mod_small by lia. destruct (N.ltb_spec off (2 ^ 63)); [|lia].
      rewrite Z.mod_small by lia. lia. }
    assert (Hl : sec_loadable [] (is_content (open_istream k content)) s).
    { unfold sec_loadable. cbn [is_content open_istream]. rewrite Hoff, Hz.
      pose proof (slice_full_len _ _ _ _ Hs eq_refl Hn). repeat split; auto; lia. }
    destruct (sec_load_data_complete junk (open_istream k content) [] s eq_refl eq_refl Hl) as (st1 & s1 & E & D & _).
    exists st1, s1. split; [exact E|]. rewrite D. cbn [is_content open_istream]. rewrite Hoff, Hz, Hs. reflexivity.
  Qed.
End WithEnv.

(* ---------- objects without segments: save, then load ---------- *)
From ElfioV Require Import Layout_proofs Writer_proofs.

Lemma indexed_nth l : forall i k s, indexed_from i l -> nth_optN l k = Some s -> s_index s = i + k.
Proof.
  induction l as [|x t IH]; intros i k s H Hn; cbn [nth_optN] in Hn; [discriminate|].
  cbn [indexed_from] in H. destruct H as [H1 H2]. destruct (N.eqb_spec k 0) as [->|Hk].
  - injection Hn as <-. lia.
  - rewrite (IH (i + 1) (k - 1) s H2 Hn). lia.
Qed.

Section NosegRoundtrip.
  Variable junk : N -> N.
  Variables (h : ehdr) (secs : list section) (pos' : N).
  Hypothesis Hchain : chain secs (e_ehsize h) pos'.
  Hypothesis Hidx : indexed_from 0 secs.
  Hypothesis Hsh : pos' <= e_shoff h.
  Hypothesis Hcls : forall s, In s secs -> s_cls s = e_cls h /\ shdr_wf s.
  Hypothesis Hes : e_shentsize h = shdr_size (e_cls h).
  Hypothesis Hnull : forall s, In s secs -> s_index s = 0 -> csize s = 0.
  Hypothesis Hident : lenN (e_ident h) = 16.
  Hypothesis Heh : e_ehsize h = ehdr_size (e_cls h).
  Hypothesis Hdata : forall s b, In s secs -> s_data s = Some b -> sh_size s <= lenN b.
  Hypothesis Hsmall : plan_small 0 (noseg_plan h secs).
  Hypothesis Hshoff : e_shoff h + lenN secs * e_shentsize h < 2 ^ 62.
  Hypothesis Hne : secs <> [].

  Let file := os_bytes (exec_plan (new_ostream None) (noseg_plan h secs)).

  Lemma Hes' : forall s, In s secs -> shdr_size (s_cls s) <= e_shentsize h.
  Proof. intros s Hs. destruct (Hcls s Hs) as [-> _]. rewrite Hes. lia. Qed.

  (* loading the section header table of the saved file (lazily) reports every
     section header that was put in, in order *)
  Theorem noseg_headers_read_back k :
    exists st' loaded,
      load_sections_loop junk (length secs) (open_istream k file) [] (e_cls h) (e_enc h) (e_shoff h) (e_shentsize h)
                         0 (lenN secs) true [] [] = Ok (st', rev loaded, []) /\
      is_fail st' = false /\ is_content st' = file /\ Forall2 (same_hdr) secs loaded.
  Proof.
    destruct (noseg_file_contents h secs pos' Hchain Hidx Hsh Hes' Hnull Hident Heh Hdata Hsmall) as (F0 & F1 & F2).
    fold file in F0, F1, F2.
    assert (Hslice : forall kk s, nth_optN secs kk = Some s ->
              sliceN file (e_shoff h + (0 + kk) * e_shentsize h) (shdr_size (e_cls h)) = shdr_bytes (e_enc h) s).
    { intros kk s Hn. assert (Hin : In s secs) by (rewrite nth_optN_nth_error in Hn; eapply nth_error_In; eauto).
      pose proof (indexed_nth _ _ _ _ Hidx Hn) as Hi. destruct (Hcls s Hin) as [Hc _].
      rewrite <- Hc, <- (F1 s Hin), Hi. f_equal. lia. }
    assert (Hlen : e_shoff h + (0 + lenN secs) * e_shentsize h <= lenN file).
    { assert (E : lenN secs <> 0) by (destruct secs; [contradiction|rewrite lenN_cons; lia]).
      destruct (nth_optN_some secs (lenN secs - 1) ltac:(lia)) as (s & Hn).
      pose proof (Hslice _ _ Hn) as Hs.
      assert (HL : lenN (shdr_bytes (e_enc h) s) = shdr_size (e_cls h)).
      { assert (Hin : In s secs) by (rewrite nth_optN_nth_error in Hn; eapply nth_error_In; eauto).
        destruct (Hcls s Hin) as [Hc _]. rewrite lenN_shdr_bytes, Hc. reflexivity. }
      pose proof (slice_full_len _ _ _ _ Hs HL ltac:(destruct (e_cls h); cbn; lia)) as Hb.
      rewrite Hes in *. nia. }
    assert (P1 : is_fail (open_istream k file) = false) by reflexivity.
    assert (P2 : st_inv (open_istream k file)) by reflexivity.
    assert (P3 : e_shoff h < 2 ^ 62) by lia.
    assert (P4 : shdr_size (e_cls h) <= e_shentsize h) by (rewrite Hes; lia).
    assert (P5 : e_shoff h + (0 + lenN secs) * e_shentsize h < 2 ^ 62) by (rewrite N.add_0_l; exact Hshoff).
    assert (P6 : Forall (fun s => s_cls s = e_cls h /\ shdr_wf s) secs) by (apply Forall_forall; intros s Hs; exact (Hcls s Hs)).
    assert (P7 : (length secs <= length secs)%nat) by lia.
    destruct (load_sections_loop_reports junk (e_enc h) (e_cls h) (e_shoff h) (e_shentsize h) secs (length secs)
                (open_istream k file) 0 [] [] P1 P2 P3 P4 P5 Hlen P6 Hslice P7) as (st' & loaded & E & Fl & _ & C & H2 & _).
    exists st', loaded. rewrite N.add_0_l in E. rewrite app_nil_r in E. auto.
  Qed.

  (* ... and a data request on such a loaded section stores the data that was put in *)
  Theorem noseg_data_read_back st s b r :
    In s secs -> csize s <> 0 -> s_data s = Some b ->
    same_hdr s r -> s_data r = None -> s_stream_size r = lenN file ->
    is_fail st = false -> st_inv st -> is_content st = file -> lenN file < 2 ^ 63 ->
    exists st1 s1,
      sec_load_data junk (Some st) [] r = Ok (Some st1, s1, true, [sh_size r + 1]) /\
      s_data s1 = Some (firstnN b (sh_size s) ++ [0]).
  Proof.
    intros Hin Hc Hd HS Dr SSr Hf Hi Hcon H63.
    destruct (noseg_file_contents h secs pos' Hchain Hidx Hsh Hes' Hnull Hident Heh Hdata Hsmall) as (_ & _ & F2).
    fold file in F2. specialize (F2 s b Hin Hc Hd).
    destruct HS as (_ & HT & _ & _ & HO & HZ & _).
    assert (Hcar : carries s = true /\ sh_size s <> 0).
    { unfold csize in Hc. destruct (carries s); [split; [reflexivity|exact Hc]|contradiction]. }
    destruct Hcar as [Hcar Hnz]. unfold carries in Hcar. apply andb_true_iff in Hcar. destruct Hcar as [T1 T2].
    apply negb_true_iff, N.eqb_neq in T1, T2.
    assert (HL : lenN (firstnN b (sh_size s)) = sh_size s) by (rewrite lenN_firstnN; pose proof (Hdata s b Hin Hd); lia).
    pose proof (slice_full_len _ _ _ _ F2 HL ltac:(lia)) as Hin_file.
    assert (Hoff : sec_file_off [] r = sh_offset s).
    { unfold sec_file_off. cbn [xlat_apply]. rewrite HO. unfold of_signed64, to_signed64.
      rewrite N.mod_small by lia. destruct (N.ltb_spec (sh_offset s) (2 ^ 63)); [|lia]. rewrite Z.mod_small by lia. lia. }
    assert (Hl : sec_loadable [] (is_content st) r).
    { unfold sec_loadable. rewrite Hcon, Hoff, HZ, HT, SSr, Dr. repeat split; auto; lia. }
    destruct (sec_load_data_complete junk st [] r Hf Hi Hl) as (st1 & s1 & E & D & _).
    exists st1, s1. split; [exact E|]. rewrite D, Hcon, Hoff, HZ, F2. reflexivity.
  Qed.
End NosegRoundtrip.

