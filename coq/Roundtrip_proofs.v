(* Roundtrip_proofs.v — C05: what save() writes, load() reads back. *)
From ElfioV Require Import Bytes Mem Stream SectionData Strings Elfio Table Loader Layout Writer
     Load_proofs Data_proofs Codec_proofs Ostream_proofs Reader_proofs.
From Coq Require Import ZifyBool ZifyN ZifyNat.
Local Open Scope N_scope.

Lemma slice_full_len (l : bytes) off n (bs : bytes) : sliceN l off n = bs -> lenN bs = n -> 0 < n -> off + n <= lenN l.
Proof.
  intros H HL Hn. assert (E : lenN (sliceN l off n) = n) by (rewrite H; exact HL).
  unfold sliceN in E. rewrite lenN_firstnN, lenN_skipnN in E. lia.
Qed.

Section WithEnv.
  Variable junk : N -> N.

  (* a section header record written by a save is reported field by field by a
     load of the saved bytes *)
  Theorem written_section_header_reads_back os before after enc s (hpos : N) k idx lazy :
    stream_ok os -> good os ->
    plan_small (os_len os) (before ++ (hpos, shdr_bytes enc s) :: after) ->
    (forall w' i, In w' after -> in_range (hpos, shdr_bytes enc s) i = true -> in_range w' i = false) ->
    shdr_wf s -> hpos < 2 ^ 63 ->
    let content := os_bytes (exec_plan os (before ++ (hpos, shdr_bytes enc s) :: after)) in
    exists st' r al,
      section_load junk (open_istream k content) [] enc (with_index (new_section (s_cls s)) idx) (Z.of_N hpos) lazy = Ok (st', r, al) /\
      sh_name r = sh_name s /\ sh_type r = sh_type s /\ sh_flags r = sh_flags s /\ sh_addr r = sh_addr s /\
      sh_offset r = sh_offset s /\ sh_size r = sh_size s /\ sh_link r = sh_link s /\ sh_info r = sh_info s /\
      sh_addralign r = sh_addralign s /\ sh_entsize r = sh_entsize s /\ s_index r = idx.
  Proof.
    intros Hok Hg Hp Hdis Hwf H63. cbv zeta.
    pose proof (plan_slice_visible os before (hpos, shdr_bytes enc s) after Hok Hg Hp Hdis) as Hs. cbn [fst snd] in Hs.
    rewrite lenN_shdr_bytes in Hs.
    apply section_load_reports; try assumption; try reflexivity.
    cbn [is_content open_istream].
    apply (slice_full_len _ _ _ _ Hs); [apply lenN_shdr_bytes|destruct (s_cls s); cbn; lia].
  Qed.

  (* section data written by a save are the data a load of the saved bytes stores *)
  Theorem written_section_data_reads_back os before after (off : N) (d : bytes) k s :
    stream_ok os -> good os ->
    plan_small (os_len os) (before ++ (off, d) :: after) ->
    (forall w' i, In w' after -> in_range (off, d) i = true -> in_range w' i = false) ->
    let content := os_bytes (exec_plan os (before ++ (off, d) :: after)) in
    sh_offset s = off -> sh_size s = lenN d -> 0 < lenN d -> s_data s = None ->
    sh_type s <> SHT_NULL -> sh_type s <> SHT_NOBITS -> lenN content < 2 ^ 63 -> s_stream_size s = lenN content ->
    exists st1 s1,
      sec_load_data junk (Some (open_istream k content)) [] s = Ok (Some st1, s1, true, [sh_size s + 1]) /\
      s_data s1 = Some (d ++ [0]).
  Proof.
    intros Hok Hg Hp Hdis. cbv zeta. intros Ho Hz Hn Hd T1 T2 H63 Hss.
    pose proof (plan_slice_visible os before (off, d) after Hok Hg Hp Hdis) as Hs. cbn [fst snd] in Hs.
    set (content := os_bytes (exec_plan os (before ++ (off, d) :: after))) in *.
    assert (Hoff : sec_file_off [] s = off).
    { unfold sec_file_off. cbn [xlat_apply]. unfold of_signed64, to_signed64.
      pose proof (slice_full_len _ _ _ _ Hs eq_refl Hn) as Hin.
      rewrite Ho. rewrite N.mod_small by lia. destruct (N.ltb_spec off (2 ^ 63)); [|lia].
      rewrite Z.mod_small by lia. lia. }
    assert (Hl : sec_loadable [] (is_content (open_istream k content)) s).
    { unfold sec_loadable. cbn [is_content open_istream]. rewrite Hoff, Hz.
      pose proof (slice_full_len _ _ _ _ Hs eq_refl Hn). repeat split; auto; lia. }
    destruct (sec_load_data_complete junk (open_istream k content) [] s eq_refl eq_refl Hl) as (st1 & s1 & E & D & _).
    exists st1, s1. split; [exact E|]. rewrite D. cbn [is_content open_istream]. rewrite Hoff, Hz, Hs. reflexivity.
  Qed.
End WithEnv.
