(* Properties_C02.v — C02: the reader reports what the ELF specification says is in the file. *)
From ElfioV Require Import Bytes Mem Stream SectionData Strings Strings_proofs Elfio Table Loader Load_proofs Data_proofs Codec_proofs Reader_proofs Reload_oneseg Segtable_proofs.
Local Open Scope N_scope.

(* ELF header: a file that begins with the gABI encoding of a header (either
   class, either byte order, every field over its full width) loads to an object
   reporting exactly that header; section and segment passes do not change it. *)
Theorem C02_header_reported :
  forall junk el k rest lazy h,
    xlat_empty (el_xlat el) = true -> ehdr_wf h ->
    nthN (e_ident h) 0 0 = 127 -> nthN (e_ident h) 1 0 = 69 -> nthN (e_ident h) 2 0 = 76 -> nthN (e_ident h) 3 0 = 70 ->
    nthN (e_ident h) 4 0 = cls_byte (e_cls h) -> nthN (e_ident h) 5 0 = enc_byte (e_enc h) ->
    exists el' ok al, load junk el k (ehdr_bytes h ++ rest) lazy = Ok (el', ok, al) /\ el_hdr el' = Some h.
Proof.
  intros junk el k rest lazy h Hx Hwf M0 M1 M2 M3 M4 M5.
  apply load_reports_header; [exact Hx|]. now apply parse_header_of_encoding.
Qed.
Print Assumptions C02_header_reported.

(* section headers: the table entry at a position is reported field by field *)
Theorem C02_section_header_reported :
  forall junk st enc c idx (pos : N) lazy s',
    is_fail st = false -> st_inv st -> pos < 2 ^ 63 -> pos + shdr_size c <= lenN (is_content st) ->
    s_cls s' = c -> shdr_wf s' ->
    sliceN (is_content st) pos (shdr_size c) = shdr_bytes enc s' ->
    exists st' r al,
      section_load junk st [] enc (with_index (new_section c) idx) (Z.of_N pos) lazy = Ok (st', r, al) /\
      sh_name r = sh_name s' /\ sh_type r = sh_type s' /\ sh_flags r = sh_flags s' /\ sh_addr r = sh_addr s' /\
      sh_offset r = sh_offset s' /\ sh_size r = sh_size s' /\ sh_link r = sh_link s' /\ sh_info r = sh_info s' /\
      sh_addralign r = sh_addralign s' /\ sh_entsize r = sh_entsize s' /\ s_index r = idx.
Proof. exact section_load_reports. Qed.
Print Assumptions C02_section_header_reported.

(* the whole section header table: [secs] encoded entry after entry (entry size es >= the header size, any filler
   between them) at e_shoff of the stream; the loop of load_sections reports, for every index, a section with exactly
   the encoded header fields, in table order, and leaves the stream good *)
Theorem C02_section_header_table_reported :
  forall junk enc c shoff es (secs : list section) fuel st i racc allocs,
    is_fail st = false -> st_inv st -> shoff < 2 ^ 62 -> shdr_size c <= es ->
    shoff + (i + lenN secs) * es < 2 ^ 62 -> shoff + (i + lenN secs) * es <= lenN (is_content st) ->
    Forall (fun s => s_cls s = c /\ shdr_wf s) secs ->
    (forall k s, nth_optN secs k = Some s -> sliceN (is_content st) (shoff + (i + k) * es) (shdr_size c) = shdr_bytes enc s) ->
    (length secs <= fuel)%nat ->
    exists st' loaded,
      load_sections_loop junk fuel st [] c enc shoff es i (i + lenN secs) true racc allocs = Ok (st', rev loaded ++ racc, allocs) /\
      is_fail st' = false /\ st_inv st' /\ is_content st' = is_content st /\
      Forall2 same_hdr secs loaded /\
      Forall (fun r => s_data r = None /\ s_stream_size r = lenN (is_content st) /\ s_cls r = c) loaded /\
      (forall k r, nth_optN loaded k = Some r -> s_index r = wrap16 (i + k)).
Proof. exact load_sections_loop_reports. Qed.
Print Assumptions C02_section_header_table_reported.

(* program headers: decoding the gABI encoding gives back every field *)
Theorem C02_program_header_codec :
  forall enc g0 g ss lz,
    g_cls g0 = g_cls g -> phdr_wf g ->
    let r := seg_of_raw enc g0 (phdr_bytes enc g) ss lz in
    p_type r = p_type g /\ p_flags r = p_flags g /\ p_offset r = p_offset g /\ p_vaddr r = p_vaddr g /\
    p_paddr r = p_paddr g /\ p_filesz r = p_filesz g /\ p_memsz r = p_memsz g /\ p_align r = p_align g.
Proof. exact phdr_roundtrip. Qed.
Print Assumptions C02_program_header_codec.

(* a program header table entry, through segment::load: the entry at [pos] of the stream holding the gABI encoding of a
   segment's fields (either class, either byte order, every field over its full width) is reported with exactly
   those fields *)
Theorem C02_program_header_entry_reported :
  forall st enc c (pos : N) g',
    is_fail st = false -> st_inv st -> pos < 2 ^ 63 -> pos + phdr_size c <= lenN (is_content st) ->
    g_cls g' = c -> phdr_wf g' ->
    sliceN (is_content st) pos (phdr_size c) = phdr_bytes enc g' ->
    exists st' r,
      segment_load st [] enc (new_segment c) (Z.of_N pos) true = Ok (st', r, true, []) /\
      is_fail st' = false /\ st_inv st' /\ is_content st' = is_content st /\
      same_phdr g' r /\ g_sections r = [] /\ g_cls r = c /\ g_data r = None.
Proof. exact (segment_load_reports_lazy (fun _ => 0)). Qed.
Print Assumptions C02_program_header_entry_reported.

(* ... and through the loop of load_segments (one entry): reported with those fields and with exactly the members
   the membership rule (C02_membership_rule) selects among the sections loaded before *)
Theorem C02_program_header_table_of_one_entry_reported :
  forall st enc c (phoff es : N) secs g' f,
    is_fail st = false -> st_inv st -> phoff < 2 ^ 62 -> phoff + phdr_size c <= lenN (is_content st) ->
    g_cls g' = c -> phdr_wf g' ->
    sliceN (is_content st) phoff (phdr_size c) = phdr_bytes enc g' ->
    exists st' r,
      load_segments_loop (S f) st [] secs enc c phoff es 0 1 true [] [] = Ok (st', [r], true, []) /\
      is_fail st' = false /\ is_content st' = is_content st /\
      same_phdr g' r /\ g_sections r = map wrap16 (seg_members g' secs) /\ g_cls r = c /\ g_index r = 0.
Proof. exact (load_segments_loop_single (fun _ => 0)). Qed.
Print Assumptions C02_program_header_table_of_one_entry_reported.

(* ... and the whole program header table, any number of entries (entry size es >= the record size): every segment
   is reported with the encoded fields and exactly the members the rule selects among the sections loaded before,
   in table order, and the loop ends "good" *)
Theorem C02_program_header_table_reported :
  forall enc c phoff es secs (segs : list segment) fuel st i racc allocs,
    is_fail st = false -> st_inv st -> phoff < 2 ^ 62 -> phdr_size c <= es ->
    phoff + (i + lenN segs) * es < 2 ^ 62 ->
    Forall (fun g => g_cls g = c /\ phdr_wf g) segs ->
    (forall k g, nth_optN segs k = Some g -> phoff + (i + k) * es + phdr_size c <= lenN (is_content st) /\
                                             sliceN (is_content st) (phoff + (i + k) * es) (phdr_size c) = phdr_bytes enc g) ->
    (length segs <= fuel)%nat ->
    exists st' loaded allocs',
      load_segments_loop fuel st [] secs enc c phoff es i (i + lenN segs) true racc allocs = Ok (st', rev loaded ++ racc, true, allocs') /\
      Forall2 (seg_reported secs) segs loaded.
Proof. exact (load_segments_loop_reports (fun _ => 0)). Qed.
Print Assumptions C02_program_header_table_reported.

(* names *)
Theorem C02_name_is_cstring_at_offset :
  forall (b : bytes) size idx nm,
    size <= lenN b -> get_string_raw (Some b) size idx = Ok (Some nm) ->
    idx + lenN nm < size /\ nul_free nm /\ sliceN (firstnN b size) idx (lenN nm + 1) = nm ++ [0].
Proof. exact (name_is_cstring_at_offset (fun _ => 0)). Qed.
Print Assumptions C02_name_is_cstring_at_offset.

(* data = the file's byte range (sections; segments alike in Properties_C17) *)
Theorem C02_section_data_is_file_range :
  forall junk st t s,
    is_fail st = false -> st_inv st -> sec_loadable t (is_content st) s ->
    exists st1 s1,
      sec_load_data junk (Some st) t s = Ok (Some st1, s1, true, [sh_size s + 1]) /\
      s_data s1 = Some (sliceN (is_content st) (sec_file_off t s) (sh_size s) ++ [0]).
Proof.
  intros junk st t s Hf Hi Hl. destruct (sec_load_data_complete junk st t s Hf Hi Hl) as (st1 & s1 & E & D & _). eauto.
Qed.
Print Assumptions C02_section_data_is_file_range.

(* membership: a section is reported in a segment exactly when the rule of
   elfio.hpp:660-686 holds, and that rule is "lies wholly inside" *)
Theorem C02_membership_rule :
  forall g secs, seg_members g secs = map s_index (filter (member_spec g) secs).
Proof. exact seg_members_exact. Qed.
Print Assumptions C02_membership_rule.

Theorem C02_inside_means_wholly_inside :
  forall b sz sb se, b + sz < 2 ^ 64 ->
    (is_sect_in_seg b sz sb se = true <-> (sb <= b /\ b + sz <= se /\ b < se)).
Proof. exact is_sect_in_seg_spec. Qed.
Print Assumptions C02_inside_means_wholly_inside.

(* non-vacuity *)
Definition ex_h : ehdr := hdr_set (hdr_set (new_header C64 MSB) HEntry 18446744073709551615) HMachine 65535.
Example C02_example :
  ehdr_wf ex_h /\ nthN (e_ident ex_h) 5 0 = enc_byte (e_enc ex_h) /\
  (exists el' al, load (fun _ => 0) (empty_elfio false) StringBuf (ehdr_bytes ex_h ++ [1; 2; 3]) true = Ok (el', true, al) /\
                  el_hdr el' = Some ex_h).
Proof.
  split; [unfold ehdr_wf, fw; vm_compute; repeat split; reflexivity|]. split; [reflexivity|].
  vm_compute. eexists _, _. split; reflexivity.
Qed.
