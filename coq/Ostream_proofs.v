(* Ostream_proofs.v — the output stream's piece list refines a flat byte
   string: a write replaces exactly the bytes of its range, padding adds zeros. *)
From ElfioV Require Import Bytes Mem Stream.
From Coq Require Import ZifyBool ZifyN ZifyNat.
Local Open Scope N_scope.

(* sorted, disjoint, inside [cur, len), lengths recorded correctly *)
Fixpoint pieces_ok (ps : list piece) (cur len : N) : Prop :=
  match ps with
  | [] => True
  | (o, l, d) :: rest => cur <= o /\ l = lenN d /\ 0 < l /\ o + l <= len /\ pieces_ok rest (o + l) len
  end.

Fixpoint covered (ps : list piece) (i : N) : bool :=
  match ps with
  | [] => false
  | (o, l, d) :: rest => ((o <=? i) && (i <? o + l)) || covered rest i
  end.

Fixpoint byte_at (ps : list piece) (i : N) : N :=
  match ps with
  | [] => 0
  | (o, l, d) :: rest => if (o <=? i) && (i <? o + l) then nthN d (i - o) 0 else byte_at rest i
  end.

Lemma pieces_ok_weaken ps cur cur' len len' : cur' <= cur -> len <= len' -> pieces_ok ps cur len -> pieces_ok ps cur' len'.
Proof.
  revert cur cur'; induction ps as [|[[o l] d] rest IH]; intros cur cur' Hc Hl H; cbn [pieces_ok] in *; [exact I|].
  destruct H as (H1 & H2 & H3 & H4 & H5). repeat split; try lia. eapply IH; [| |exact H5]; lia.
Qed.

Lemma not_covered_before ps cur len i : pieces_ok ps cur len -> i < cur -> covered ps i = false.
Proof.
  revert cur; induction ps as [|[[o l] d] rest IH]; intros cur H Hi; cbn [covered pieces_ok] in *; [reflexivity|].
  destruct H as (H1 & H2 & H3 & H4 & H5). rewrite (IH (o + l) H5 ltac:(lia)).
  destruct (N.leb_spec o i); [lia|]. reflexivity.
Qed.
Lemma not_covered_zero ps i : covered ps i = false -> byte_at ps i = 0.
Proof.
  induction ps as [|[[o l] d] rest IH]; cbn [covered byte_at]; [reflexivity|].
  intros H. apply orb_false_iff in H. destruct H as [H1 H2]. rewrite H1. auto.
Qed.
Lemma not_covered_after ps cur len i : pieces_ok ps cur len -> len <= i -> covered ps i = false.
Proof.
  revert cur; induction ps as [|[[o l] d] rest IH]; intros cur H Hi; cbn [covered pieces_ok] in *; [reflexivity|].
  destruct H as (H1 & H2 & H3 & H4 & H5). rewrite (IH (o + l) H5 Hi).
  destruct (N.ltb_spec i (o + l)); [lia|]. now rewrite andb_false_r.
Qed.

Lemma byte_at_app a b i : byte_at (a ++ b) i = if covered a i then byte_at a i else byte_at b i.
Proof.
  induction a as [|[[o l] d] rest IH]; cbn [app covered byte_at]; [reflexivity|].
  destruct ((o <=? i) && (i <? o + l)); cbn [orb]; [reflexivity|exact IH].
Qed.
Lemma covered_app a b i : covered (a ++ b) i = covered a i || covered b i.
Proof.
  induction a as [|[[o l] d] rest IH]; cbn [app covered]; [reflexivity|]. rewrite IH. now rewrite orb_assoc.
Qed.

(* ---- render ---- *)
Lemma lenN_render ps : forall cur len, pieces_ok ps cur len -> cur <= len -> lenN (render ps cur len) = len - cur.
Proof.
  induction ps as [|[[o l] d] rest IH]; intros cur len H Hc; cbn [render pieces_ok] in *.
  - apply lenN_repeatN.
  - destruct H as (H1 & H2 & H3 & H4 & H5). destruct (N.leb_spec len o); [lia|].
    rewrite !lenN_app, lenN_repeatN, lenN_firstnN, (IH _ _ H5) by lia. lia.
Qed.

Lemma nthN_app_lt {A} (a b : list A) n d : n < lenN a -> nthN (a ++ b) n d = nthN a n d.
Proof.
  revert n; induction a as [|x t IH]; intros n H; [cbn in H; lia|]. rewrite lenN_cons in H.
  cbn [app nthN]. destruct (N.eqb_spec n 0); [reflexivity|]. apply IH. lia.
Qed.
Lemma nthN_app_ge' {A} (a b : list A) n d : lenN a <= n -> nthN (a ++ b) n d = nthN b (n - lenN a) d.
Proof.
  revert n; induction a as [|x t IH]; intros n H; cbn [app].
  - cbn [lenN]. now rewrite N.sub_0_r.
  - rewrite lenN_cons in *. cbn [nthN]. destruct (N.eqb_spec n 0); [lia|]. rewrite IH by lia. f_equal. lia.
Qed.
Lemma nthN_repeatN {A} (x : A) n k d : k < n -> nthN (repeatN x n) k d = x.
Proof.
  intros H. rewrite nthN_nth, repeatN_repeat.
  rewrite (nth_indep _ d x) by (rewrite repeat_length; lia). apply nth_repeat.
Qed.
Lemma nthN_beyond {A} (l : list A) n d : lenN l <= n -> nthN l n d = d.
Proof. intros H. rewrite nthN_nth. apply nth_overflow. rewrite lenN_length in H. lia. Qed.
Lemma nthN_firstnN {A} (l : list A) n k d : k < n -> nthN (firstnN l n) k d = nthN l k d.
Proof.
  revert n k; induction l as [|x t IH]; intros n k H; cbn [firstnN]; [reflexivity|].
  destruct (N.eqb_spec n 0); [lia|]. cbn [nthN]. destruct (N.eqb_spec k 0); [reflexivity|]. apply IH. lia.
Qed.
Lemma nthN_skipnN {A} (l : list A) n k d : nthN (skipnN l n) k d = nthN l (n + k) d.
Proof.
  revert n k; induction l as [|x t IH]; intros n k; cbn [skipnN]; [reflexivity|].
  destruct (N.eqb_spec n 0) as [->|Hn]; [reflexivity|].
  rewrite IH. cbn [nthN]. destruct (N.eqb_spec (n + k) 0); [lia|]. f_equal. lia.
Qed.

Lemma nthN_render ps : forall cur len k, pieces_ok ps cur len -> cur <= len -> k < len - cur ->
  nthN (render ps cur len) k 0 = byte_at ps (cur + k).
Proof.
  induction ps as [|[[o l] d] rest IH]; intros cur len k H Hc Hk; cbn [render pieces_ok byte_at] in *.
  - now apply nthN_repeatN.
  - destruct H as (H1 & H2 & H3 & H4 & H5). destruct (N.leb_spec len o); [lia|].
    destruct (N.ltb_spec (cur + k) o) as [Hb|Hb].
    + rewrite nthN_app_lt by (rewrite lenN_repeatN; lia). rewrite nthN_repeatN by lia.
      destruct (N.leb_spec o (cur + k)); [lia|]. cbn [andb].
      symmetry. apply not_covered_zero. eapply not_covered_before; [exact H5|lia].
    + rewrite nthN_app_ge' by (rewrite lenN_repeatN; lia). rewrite lenN_repeatN.
      destruct (N.leb_spec o (cur + k)); [|lia]. cbn [andb].
      destruct (N.ltb_spec (cur + k) (o + l)) as [Hin|Hout].
      * rewrite nthN_app_lt by (rewrite lenN_firstnN; lia). rewrite nthN_firstnN by lia. f_equal. lia.
      * rewrite nthN_app_ge' by (rewrite lenN_firstnN; lia). rewrite lenN_firstnN.
        replace (N.min (len - o) (lenN d)) with l by lia.
        rewrite (IH (o + l) len) by (try assumption; lia). f_equal. lia.
Qed.

(* the flat view of a stream *)
Definition stream_ok (s : ostream) : Prop := pieces_ok (os_pieces s) 0 (os_len s).

Lemma lenN_os_bytes s : stream_ok s -> lenN (os_bytes s) = os_len s.
Proof. intros H. unfold os_bytes. rewrite (lenN_render _ 0 _ H) by lia. lia. Qed.

Lemma os_byte s i : stream_ok s -> nthN (os_bytes s) i 0 = byte_at (os_pieces s) i.
Proof.
  intros H. destruct (N.lt_ge_cases i (os_len s)) as [Hi|Hi].
  - unfold os_bytes. rewrite (nthN_render _ 0 _ i H) by lia. reflexivity.
  - rewrite nthN_beyond by (rewrite lenN_os_bytes; assumption).
    symmetry. apply not_covered_zero. eapply not_covered_after; eauto.
Qed.

(* ---- cutting ---- *)
Lemma pieces_ok_app a b cur mid len :
  pieces_ok a cur mid -> pieces_ok b mid len -> cur <= mid -> mid <= len -> pieces_ok (a ++ b) cur len.
Proof.
  revert cur; induction a as [|[[o l] d] rest IH]; intros cur Ha Hb Hc Hm; cbn [app pieces_ok] in *.
  - eapply pieces_ok_weaken; [| |exact Hb]; lia.
  - destruct Ha as (H1 & H2 & H3 & H4 & H5). repeat split; try lia. apply IH; auto.
Qed.

Lemma cut_before_ok pos ps : forall cur len, pieces_ok ps cur len -> pieces_ok (cut_before pos ps) cur pos.
Proof.
  induction ps as [|[[o l] d] rest IH]; intros cur len H; cbn [cut_before pieces_ok] in *; [exact I|].
  destruct H as (H1 & H2 & H3 & H4 & H5).
  destruct (N.leb_spec (o + l) pos).
  - cbn [pieces_ok]. repeat split; try lia. eapply IH; eauto.
  - destruct (N.ltb_spec o pos); [|exact I]. cbn [pieces_ok]. rewrite lenN_firstnN. repeat split; lia.
Qed.

Lemma cut_before_sem pos ps : forall cur len i, pieces_ok ps cur len -> i < pos ->
  covered (cut_before pos ps) i = covered ps i /\ byte_at (cut_before pos ps) i = byte_at ps i.
Proof.
  induction ps as [|[[o l] d] rest IH]; intros cur len i H Hi; cbn [cut_before covered byte_at pieces_ok] in *; [auto|].
  destruct H as (H1 & H2 & H3 & H4 & H5).
  destruct (N.leb_spec (o + l) pos).
  - cbn [covered byte_at]. destruct (IH _ _ i H5 Hi) as [-> ->]. auto.
  - assert (Hr : covered rest i = false) by (eapply not_covered_before; [exact H5|lia]).
    rewrite Hr, orb_false_r, (not_covered_zero _ _ Hr).
    destruct (N.ltb_spec o pos).
    + cbn [covered byte_at]. rewrite orb_false_r.
      destruct (N.leb_spec o i); cbn [andb]; [|auto].
      destruct (N.ltb_spec i (o + (pos - o))); destruct (N.ltb_spec i (o + l)); try lia. split; [reflexivity|].
      apply nthN_firstnN. lia.
    + cbn [covered byte_at]. destruct (N.leb_spec o i); [lia|]. auto.
Qed.

Lemma cut_after_ok e ps : forall cur len, pieces_ok ps cur len -> pieces_ok (cut_after e ps) (N.max cur e) len.
Proof.
  induction ps as [|[[o l] d] rest IH]; intros cur len H; cbn [cut_after pieces_ok] in *; [exact I|].
  destruct H as (H1 & H2 & H3 & H4 & H5).
  destruct (N.leb_spec (o + l) e).
  - eapply pieces_ok_weaken; [| |exact (IH _ _ H5)]; lia.
  - destruct (N.ltb_spec o e); cbn [pieces_ok].
    + rewrite lenN_skipnN. repeat split; try lia. replace (e + (o + l - e)) with (o + l) by lia. exact H5.
    + repeat split; try lia. exact H5.
Qed.

Lemma cut_after_sem e ps : forall cur len i, pieces_ok ps cur len -> e <= i ->
  covered (cut_after e ps) i = covered ps i /\ byte_at (cut_after e ps) i = byte_at ps i.
Proof.
  induction ps as [|[[o l] d] rest IH]; intros cur len i H Hi; cbn [cut_after covered byte_at pieces_ok] in *; [auto|].
  destruct H as (H1 & H2 & H3 & H4 & H5).
  destruct (N.leb_spec (o + l) e).
  - destruct (IH _ _ i H5 Hi) as [-> ->]. destruct (N.ltb_spec i (o + l)); [lia|]. rewrite andb_false_r. auto.
  - destruct (N.ltb_spec o e); cbn [covered byte_at]; [|auto].
    replace (e + (o + l - e)) with (o + l) by lia.
    destruct (N.leb_spec e i); [|lia]. destruct (N.leb_spec o i); [|lia]. cbn [andb].
    destruct (N.ltb_spec i (o + l)); cbn [orb]; [|auto]. split; [reflexivity|].
    rewrite nthN_skipnN. f_equal. lia.
Qed.

(* ---- put_piece ---- *)
Lemma put_piece_ok pos bs ps len :
  pieces_ok ps 0 len -> pieces_ok (put_piece pos bs ps) 0 (N.max len (pos + lenN bs)).
Proof.
  intros H. unfold put_piece. destruct (N.eqb_spec (lenN bs) 0) as [E|E].
  - rewrite E, N.add_0_r. eapply pieces_ok_weaken; [| |exact H]; lia.
  - apply pieces_ok_app with (mid := pos); [eapply cut_before_ok; eauto| |lia|lia].
    cbn [app pieces_ok]. repeat split; try lia.
    eapply pieces_ok_weaken; [| |exact (cut_after_ok (pos + lenN bs) ps 0 len H)]; lia.
Qed.

Lemma put_piece_sem pos bs ps len i :
  pieces_ok ps 0 len ->
  byte_at (put_piece pos bs ps) i =
    if (pos <=? i) && (i <? pos + lenN bs) then nthN bs (i - pos) 0 else byte_at ps i.
Proof.
  intros H. unfold put_piece. destruct (N.eqb_spec (lenN bs) 0) as [E|E].
  - rewrite E, N.add_0_r. destruct (N.leb_spec pos i); destruct (N.ltb_spec i pos); cbn [andb]; try reflexivity; lia.
  - rewrite byte_at_app. destruct (N.lt_ge_cases i pos) as [Hi|Hi].
    + destruct (cut_before_sem pos ps 0 len i H Hi) as [-> ->].
      destruct (N.leb_spec pos i); [lia|]. cbn [andb].
      destruct (covered ps i) eqn:Ec; [reflexivity|].
      cbn [app byte_at]. destruct (N.leb_spec pos i); [lia|]. cbn [andb].
      rewrite (not_covered_zero ps i Ec). apply not_covered_zero.
      eapply not_covered_before; [apply (cut_after_ok (pos + lenN bs) ps 0 len H)|lia].
    + rewrite (not_covered_after _ 0 pos i (cut_before_ok pos ps 0 len H) Hi).
      cbn [app byte_at]. destruct (N.leb_spec pos i); [|lia]. cbn [andb].
      destruct (N.ltb_spec i (pos + lenN bs)); [reflexivity|].
      now destruct (cut_after_sem (pos + lenN bs) ps 0 len i H ltac:(lia)) as [_ ->].
Qed.

(* ---- the stream operations on the flat view ---- *)
Definition good (s : ostream) : Prop := os_bad s = false /\ os_abort s = false /\ os_cap s = None.

Theorem write_flat s bs :
  stream_ok s -> good s ->
  let s' := write s bs in
  stream_ok s' /\ good s' /\ os_len s' = (if lenN bs =? 0 then os_len s else N.max (os_len s) (os_pos s + lenN bs)) /\
  forall i, nthN (os_bytes s') i 0 =
            if (os_pos s <=? i) && (i <? os_pos s + lenN bs) then nthN bs (i - os_pos s) 0 else nthN (os_bytes s) i 0.
Proof.
  intros Hok (Hb & Ha & Hc). cbv zeta. unfold write. rewrite Hb, Ha, Hc. cbn [orb].
  destruct (N.eqb_spec (lenN bs) 0) as [E|E].
  - split; [exact Hok|]. split; [repeat split; assumption|]. split; [reflexivity|]. intro i.
    rewrite E, N.add_0_r. destruct (N.leb_spec (os_pos s) i); destruct (N.ltb_spec i (os_pos s)); cbn [andb]; try reflexivity; lia.
  - match goal with |- stream_ok ?x /\ _ => assert (Hok' : stream_ok x) end.
    { unfold stream_ok. cbn. now apply put_piece_ok. }
    split; [exact Hok'|]. split; [repeat split; cbn; assumption|]. split; [reflexivity|]. intro i.
    rewrite (os_byte _ i Hok'), (os_byte s i Hok). cbn [os_pieces]. now apply put_piece_sem with (len := os_len s).
Qed.

Theorem adjust_flat s off :
  stream_ok s -> good s -> off < os_len s + 2147483648 ->
  let s' := adjust_stream_size s off in
  stream_ok s' /\ good s' /\ os_len s' = N.max (os_len s) off /\ os_pos s' = off /\
  forall i, nthN (os_bytes s') i 0 = nthN (os_bytes s) i 0.
Proof.
  intros Hok (Hb & Ha & Hc) Hoff. cbv zeta. unfold adjust_stream_size. rewrite Ha.
  unfold seekp_end, tellp. rewrite Hb. cbn [os_bad os_pos os_len].
  destruct (Z.ltb_spec (Z.of_N (os_len s)) (Z.of_N off)) as [Hlt|Hge]; cbn [andb].
  - assert (Hs : (2147483648 <=? Z.to_N (Z.of_N off - Z.of_N (os_len s))) = false) by (apply N.leb_gt; lia).
    rewrite Hs. unfold pad_to, seekp. cbn [os_bad os_abort os_cap os_pieces os_len orb]. rewrite Ha, Hc. cbn [orb os_bad].
    match goal with |- stream_ok ?x /\ _ => assert (Hok' : stream_ok x) end.
    { unfold stream_ok in *. cbn. eapply pieces_ok_weaken; [| |exact Hok]; lia. }
    split; [exact Hok'|]. split; [repeat split; cbn; assumption|]. split; [cbn; lia|]. split; [reflexivity|].
    intro i. rewrite (os_byte _ i Hok'), (os_byte s i Hok). reflexivity.
  - unfold seekp. cbn [os_bad os_pieces os_len os_cap os_abort].
    match goal with |- stream_ok ?x /\ _ => assert (Hok' : stream_ok x) by exact Hok end.
    split; [exact Hok'|]. split; [repeat split; cbn; assumption|]. split; [cbn; lia|]. split; [reflexivity|].
    intro i. rewrite (os_byte _ i Hok'), (os_byte s i Hok). reflexivity.
Qed.

(* ---- a whole write plan ---- *)
Definition in_range (w : N * bytes) (i : N) : bool := (fst w <=? i) && (i <? fst w + lenN (snd w)).
Definition plan_step (f : N -> N) (w : N * bytes) : N -> N :=
  fun i => if in_range w i then nthN (snd w) (i - fst w) 0 else f i.
Definition plan_bytes (p : list (N * bytes)) (base : N -> N) : N -> N := fold_left plan_step p base.
Definition plan_len (p : list (N * bytes)) (len0 : N) : N :=
  fold_left (fun l w => N.max l (fst w + lenN (snd w))) p len0.

Fixpoint plan_small (len : N) (p : list (N * bytes)) : Prop :=
  match p with
  | [] => True
  | w :: t => fst w < len + 2147483648 /\ plan_small (N.max len (fst w + lenN (snd w))) t
  end.

Lemma exec_write_flat s w :
  stream_ok s -> good s -> fst w < os_len s + 2147483648 ->
  let s' := exec_write s w in
  stream_ok s' /\ good s' /\ os_len s' = N.max (os_len s) (fst w + lenN (snd w)) /\
  forall i, nthN (os_bytes s') i 0 = plan_step (fun i => nthN (os_bytes s) i 0) w i.
Proof.
  intros Hok Hg Hs. cbv zeta. unfold exec_write.
  destruct (adjust_flat s (fst w) Hok Hg Hs) as (Ok1 & G1 & L1 & P1 & B1). cbv zeta in *.
  destruct (write_flat _ (snd w) Ok1 G1) as (Ok2 & G2 & L2 & B2). cbv zeta in *.
  split; [exact Ok2|]. split; [exact G2|]. split.
  - rewrite L2, L1, P1. destruct (N.eqb_spec (lenN (snd w)) 0) as [E|E]; [rewrite E|]; lia.
  - intro i. rewrite B2, P1, B1. reflexivity.
Qed.

Lemma fold_ext {A} (f g : N -> N) (step : (N -> N) -> A -> N -> N) (p : list A) :
  (forall f g w, (forall i, f i = g i) -> forall i, step f w i = step g w i) ->
  (forall i, f i = g i) -> forall i, fold_left step p f i = fold_left step p g i.
Proof.
  intros Hs. revert f g; induction p as [|w t IH]; intros f g H i; cbn [fold_left]; [apply H|].
  apply IH. now apply Hs.
Qed.

Theorem exec_plan_flat p : forall s,
  stream_ok s -> good s -> plan_small (os_len s) p ->
  let s' := exec_plan s p in
  stream_ok s' /\ good s' /\ os_len s' = plan_len p (os_len s) /\
  forall i, nthN (os_bytes s') i 0 = plan_bytes p (fun i => nthN (os_bytes s) i 0) i.
Proof.
  induction p as [|w t IH]; intros s Hok Hg Hp; cbv zeta; cbn [exec_plan fold_left plan_len plan_bytes].
  - auto.
  - destruct Hp as [Hw Ht].
    destruct (exec_write_flat s w Hok Hg Hw) as (Ok1 & G1 & L1 & B1). cbv zeta in *.
    fold (exec_plan (exec_write s w) t).
    destruct (IH (exec_write s w) Ok1 G1 ltac:(rewrite L1; exact Ht)) as (Ok2 & G2 & L2 & B2). cbv zeta in *.
    split; [exact Ok2|]. split; [exact G2|]. split.
    + rewrite L2, L1. reflexivity.
    + intro i. rewrite B2. unfold plan_bytes. apply fold_ext; [|exact B1].
      intros f g w0 Hfg j. unfold plan_step. destruct (in_range w0 j); auto.
Qed.

(* a planned write none of whose bytes is overwritten later appears verbatim *)
Lemma plan_bytes_untouched p : forall base i, (forall w, In w p -> in_range w i = false) -> plan_bytes p base i = base i.
Proof.
  induction p as [|w t IH]; intros base i H; cbn [plan_bytes fold_left]; [reflexivity|].
  fold (plan_bytes t (plan_step base w)). rewrite IH by (intros; apply H; now right).
  unfold plan_step. now rewrite (H w (or_introl eq_refl)).
Qed.

Theorem plan_write_visible before w after base i :
  in_range w i = true -> (forall w', In w' after -> in_range w' i = false) ->
  plan_bytes (before ++ w :: after) base i = nthN (snd w) (i - fst w) 0.
Proof.
  intros Hin Haft. unfold plan_bytes. rewrite fold_left_app. cbn [fold_left].
  fold (plan_bytes after (plan_step (fold_left plan_step before base) w)).
  rewrite plan_bytes_untouched by exact Haft. unfold plan_step. now rewrite Hin.
Qed.

Lemma new_ostream_ok : stream_ok (new_ostream None) /\ good (new_ostream None).
Proof. split; [exact I|repeat split]. Qed.

(* ---- from pointwise to slices ---- *)
Lemma nthN_ext (a b : bytes) : lenN a = lenN b -> (forall i, i < lenN a -> nthN a i 0 = nthN b i 0) -> a = b.
Proof.
  revert b; induction a as [|x t IH]; intros [|y u] HL H; cbn [lenN] in HL; try lia; [reflexivity|].
  rewrite !lenN_cons in *. f_equal.
  - specialize (H 0 ltac:(lia)). cbn in H. exact H.
  - apply IH; [lia|]. intros i Hi. specialize (H (i + 1) ltac:(lia)). cbn [nthN] in H.
    destruct (N.eqb_spec (i + 1) 0); [lia|]. now replace (i + 1 - 1) with i in H by lia.
Qed.

Lemma nthN_sliceN (l : bytes) off n i : i < n -> off + n <= lenN l -> nthN (sliceN l off n) i 0 = nthN l (off + i) 0.
Proof. intros Hi Hl. unfold sliceN. rewrite nthN_firstnN by exact Hi. apply nthN_skipnN. Qed.

(* the bytes of a planned write that no later write touches are found verbatim
   in the output, at its position *)
Theorem plan_slice_visible s before (w : N * bytes) after :
  stream_ok s -> good s -> plan_small (os_len s) (before ++ w :: after) ->
  (forall w' i, In w' after -> in_range w i = true -> in_range w' i = false) ->
  sliceN (os_bytes (exec_plan s (before ++ w :: after))) (fst w) (lenN (snd w)) = snd w.
Proof.
  intros Hok Hg Hp Hdis.
  destruct (exec_plan_flat (before ++ w :: after) s Hok Hg Hp) as (Ok' & _ & L' & B'). cbv zeta in *.
  assert (Hlen : fst w + lenN (snd w) <= os_len (exec_plan s (before ++ w :: after))).
  { rewrite L'. unfold plan_len. rewrite fold_left_app. cbn [fold_left].
    generalize (fold_left (fun l (w0 : N * bytes) => N.max l (fst w0 + lenN (snd w0))) before (os_len s)). intro l0.
    assert (G : forall (p : list (N * bytes)) l1, l1 <= fold_left (fun l (w0 : N * bytes) => N.max l (fst w0 + lenN (snd w0))) p l1).
    { induction p as [|x t IH]; intro l1; cbn [fold_left]; [apply N.le_refl|]. eapply N.le_trans; [|apply IH]. apply N.le_max_l. }
    eapply N.le_trans; [|apply G]. apply N.le_max_r. }
  apply nthN_ext.
  - unfold sliceN. rewrite lenN_firstnN, lenN_skipnN, lenN_os_bytes by exact Ok'. lia.
  - intros i Hi. unfold sliceN in Hi. rewrite lenN_firstnN, lenN_skipnN, lenN_os_bytes in Hi by exact Ok'.
    rewrite nthN_sliceN by (rewrite ?lenN_os_bytes by exact Ok'; lia).
    rewrite B'. rewrite plan_write_visible.
    + f_equal. lia.
    + unfold in_range. destruct (N.leb_spec (fst w) (fst w + i)); destruct (N.ltb_spec (fst w + i) (fst w + lenN (snd w))); try reflexivity; lia.
    + intros w' Hin. apply (Hdis w' (fst w + i) Hin).
      unfold in_range. destruct (N.leb_spec (fst w) (fst w + i)); destruct (N.ltb_spec (fst w + i) (fst w + lenN (snd w))); try reflexivity; lia.
Qed.
