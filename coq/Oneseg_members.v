(* Oneseg_members.v — C05/C02 for an object with one segment of automatically addressed members: the
   loader's membership rule (seg_members, = filter member_spec), applied to the segment and the sections
   as the writer's layout placed them, gives back exactly the member list the segment was saved with. *)
From ElfioV Require Import Bytes Mem Stream SectionData Strings Elfio Table Loader Layout Writer Codec_proofs
     Layout_proofs Segment_proofs Writer_proofs Oneseg_proofs Oneseg_writer Reader_proofs Roundtrip_proofs.
From Coq Require Import ZifyBool ZifyN ZifyNat.
Local Open Scope N_scope.

Definition is_alloc (s : section) : Prop := N.land (sh_flags s) SHF_ALLOC = SHF_ALLOC.
Definition is_tls (s : section) : Prop := N.land (sh_flags s) SHF_TLS = SHF_TLS.

Section Members.
  Variables (g g' : segment) (secs' : list section) (ss pos1 pos2 : N).
  Let idxs := g_sections g.
  Hypothesis Hm : mchain g ss secs' idxs ss pos1.
  Hypothesis Hf : chain (free_list [g'] 0 secs') pos1 pos2.
  Hypothesis Hg' : g_sections g' = idxs.
  Hypothesis Hlen : lenN idxs < 2 ^ 16.
  Hypothesis Hoff : p_offset g' = ss.
  Hypothesis Hva : p_vaddr g' = p_vaddr g.
  Hypothesis Hfs : p_filesz g' = pos1 - ss.
  Hypothesis Hms : p_filesz g' <= p_memsz g'.
  Hypothesis Hty : p_type g' <> PT_TLS.
  Hypothesis Hidx : indexed_from 0 secs'.
  Hypothesis Hr1 : p_vaddr g + p_memsz g' < 2 ^ 64.
  Hypothesis Hr2 : pos2 < 2 ^ 64.
  (* members: allocated, not thread-local, not empty *)
  Hypothesis Hmem : forall i s, In i idxs -> nth_optN secs' i = Some s -> is_alloc s /\ ~ is_tls s /\ sh_size s <> 0.
  (* the other sections: thread-local, or allocated below the segment, or not allocated (the null section
     with an offset before the segment) *)
  Hypothesis Hfree : forall j s, ~ In j idxs -> nth_optN secs' j = Some s ->
    is_tls s \/ (is_alloc s /\ sh_addr s < p_vaddr g) \/ (~ is_alloc s /\ (s_index s = 0 -> sh_offset s < ss)).

  Lemma member_spec_of_member i s : In i idxs -> nth_optN secs' i = Some s -> member_spec g' s = true.
  Proof.
    intros Hin Hs. destruct (Hmem i s Hin Hs) as (Ha & Ht & Hz).
    destruct (mchain_member _ _ _ _ _ _ i Hm Hin) as (s0 & S0 & S1 & S2 & _ & S4 & S5). rewrite Hs in S0. injection S0 as <-.
    pose proof (mchain_bounds _ _ _ _ _ _ Hm) as B1.
    unfold member_spec. unfold is_alloc in Ha. unfold is_tls in Ht. rewrite Ha, N.eqb_refl, Hva.
    destruct (N.eqb_spec (N.land (sh_flags s) SHF_TLS) SHF_TLS) as [E|_]; [contradiction|].
    destruct (N.eqb_spec (p_type g') PT_TLS) as [E|_]; [contradiction|]. cbn [negb andb orb]. rewrite Bool.andb_true_r.
    unfold wrap64 at 1, wrap. rewrite (N.mod_small (p_vaddr g + p_memsz g')) by exact Hr1.
    apply is_sect_in_seg_spec; lia.
  Qed.

  Lemma member_spec_of_free j s : ~ In j idxs -> nth_optN secs' j = Some s -> member_spec g' s = false.
  Proof.
    intros Hn Hs. unfold member_spec.
    destruct (Hfree j s Hn Hs) as [Ht|[(Ha & Hlt)|(Hna & H0)]].
    - unfold is_tls in Ht. rewrite Ht, N.eqb_refl. destruct (N.eqb_spec (p_type g') PT_TLS) as [E|_]; [contradiction|].
      cbn [negb andb orb]. apply Bool.andb_false_r.
    - unfold is_alloc in Ha. rewrite Ha, N.eqb_refl, Hva. unfold is_sect_in_seg.
      destruct (N.leb_spec (p_vaddr g) (sh_addr s)); [lia|]. reflexivity.
    - unfold is_alloc in Hna. destruct (N.eqb_spec (N.land (sh_flags s) SHF_ALLOC) SHF_ALLOC) as [E|_]; [contradiction|].
      rewrite Hoff, Hfs. pose proof (mchain_bounds _ _ _ _ _ _ Hm) as B1. pose proof (chain_bounds _ _ _ Hf) as B2.
      unfold wrap64 at 1, wrap. rewrite (N.mod_small (ss + (pos1 - ss))) by lia.
      unfold is_sect_in_seg.
      destruct (N.eq_dec (s_index s) 0) as [E0|E0].
      + specialize (H0 E0). destruct (N.leb_spec ss (sh_offset s)); [lia|]. reflexivity.
      + assert (Hfl : In s (free_list [g'] 0 secs')).
        { apply (free_list_In [g'] secs' 0 j s Hs). rewrite N.add_0_l. apply (free_iff g g' Hg' Hlen). exact Hn. }
        destruct (chain_member _ _ _ s Hf Hfl E0) as (C1 & _).
        destruct (N.ltb_spec (sh_offset s) (ss + (pos1 - ss))); [lia|]. rewrite Bool.andb_false_r. reflexivity.
  Qed.

  Theorem oneseg_member_rule j s : nth_optN secs' j = Some s -> (member_spec g' s = true <-> In j idxs).
  Proof.
    intros Hs. destruct (in_dec N.eq_dec j idxs) as [Hin|Hn].
    - split; [intros _; exact Hin|intros _; now apply (member_spec_of_member j)].
    - rewrite (member_spec_of_free j s Hn Hs). split; [discriminate|contradiction].
  Qed.

  (* what load() would report for the segment: exactly the saved members *)
  Theorem oneseg_members_reconstructed j : In j (seg_members g' secs') <-> In j idxs.
  Proof.
    rewrite seg_members_exact, in_map_iff. split.
    - intros (s & <- & Hin). apply filter_In in Hin. destruct Hin as [Hin Hsp].
      destruct (In_nth_optN _ _ Hin) as (k & Hk). pose proof (indexed_nth _ _ _ _ Hidx Hk) as E. rewrite N.add_0_l in E.
      rewrite E. now apply (oneseg_member_rule k s Hk).
    - intros Hin. destruct (mchain_member _ _ _ _ _ _ j Hm Hin) as (s & S0 & _).
      exists s. pose proof (indexed_nth _ _ _ _ Hidx S0) as E. rewrite N.add_0_l in E. split; [exact E|].
      apply filter_In. split; [now apply nth_optN_In with j|]. now apply (member_spec_of_member j).
  Qed.
End Members.

(* ---------- the order: load() lists the members by section index ---------- *)
From Coq Require Import Sorted.

Lemma sorted_ext : forall l1 l2 : list N, StronglySorted N.lt l1 -> StronglySorted N.lt l2 ->
  (forall x, In x l1 <-> In x l2) -> l1 = l2.
Proof.
  induction l1 as [|a l1 IH]; intros l2 S1 S2 H.
  - destruct l2 as [|b l2]; [reflexivity|]. exfalso. apply (proj2 (H b)). now left.
  - destruct l2 as [|b l2]; [exfalso; apply (proj1 (H a)); now left|].
    inversion S1 as [|? ? S1' F1]; subst. inversion S2 as [|? ? S2' F2]; subst.
    rewrite Forall_forall in F1, F2.
    assert (E : a = b).
    { destruct (proj1 (H a) (or_introl eq_refl)) as [E|Hin]; [now symmetry|].
      destruct (proj2 (H b) (or_introl eq_refl)) as [E|Hin']; [exact E|].
      specialize (F1 b Hin'). specialize (F2 a Hin). lia. }
    subst b. f_equal. apply IH; [assumption|assumption|]. intros x. split; intros Hx.
    + destruct (proj1 (H x) (or_intror Hx)) as [E|Hin]; [|exact Hin]. subst x. specialize (F1 a Hx). lia.
    + destruct (proj2 (H x) (or_intror Hx)) as [E|Hin]; [|exact Hin]. subst x. specialize (F2 a Hx). lia.
Qed.

Lemma members_sorted (f : section -> bool) : forall l i, indexed_from i l ->
  StronglySorted N.lt (map s_index (filter f l)) /\ Forall (fun x => i <= x) (map s_index (filter f l)).
Proof.
  induction l as [|s t IH]; intros i Hi; cbn [filter map]; [split; constructor|].
  cbn [indexed_from] in Hi. destruct Hi as [Hi1 Hi2]. destruct (IH _ Hi2) as [A B].
  assert (B' : Forall (fun x => i <= x) (map s_index (filter f t))).
  { eapply Forall_impl; [|exact B]. cbv beta. intros; lia. }
  destruct (f s); cbn [map]; [|split; assumption]. split.
  - constructor; [exact A|]. eapply Forall_impl; [|exact B]. cbv beta. intros; lia.
  - constructor; [lia|exact B'].
Qed.

Theorem seg_members_sorted g secs : indexed_from 0 secs -> StronglySorted N.lt (seg_members g secs).
Proof. intros H. rewrite seg_members_exact. exact (proj1 (members_sorted (member_spec g) secs 0 H)). Qed.

(* ... put together with the layout: for the object C04_layout_with_one_segment speaks about *)
Theorem oneseg_layout_members el h0 g bound ms :
  let idxs := g_sections g in
  let align := if 0 <? p_align g then p_align g else 1 in
  let secs := el_secs el in
  let pos0 := e_ehsize h0 + e_phentsize h0 in
  el_hdr el = Some h0 -> el_segs el = [g] -> lenN secs < 2 ^ 16 ->
  lenN idxs < 2 ^ 16 -> idxs <> [] -> g_offset_set g = false -> p_type g <> PT_PHDR -> NoDup idxs ->
  Forall2 (fun i s => nth_optN secs i = Some s) idxs ms ->
  Forall auto_member ms -> Forall (fun s => sh_addralign s <= p_align g) ms ->
  bound <= 2 ^ 64 -> Forall (fun s => bound <= 2 ^ xw (s_cls s)) secs -> bound <= 2 ^ xw (g_cls g) ->
  p_align g < 2 ^ 63 ->
  p_vaddr g + pos0 + align + mbudget ms + budget secs + 16 < bound ->
  indexed_from 0 secs -> p_type g <> PT_TLS -> Forall (fun s => sh_size s <> 0) ms ->
  (forall j s, ~ In j idxs -> nth_optN secs j = Some s ->
     is_tls s \/ (is_alloc s /\ sh_addr s < p_vaddr g) \/ (~ is_alloc s /\ (s_index s = 0 -> sh_offset s < pos0))) ->
  exists el' g',
    layout el = Ok (el', true) /\ el_segs el' = [g'] /\ g_sections g' = idxs /\ indexed_from 0 (el_secs el') /\
    (p_vaddr g + p_memsz g' < 2 ^ 64 ->
       (forall j, In j (seg_members g' (el_secs el')) <-> In j idxs) /\
       (StronglySorted N.lt idxs -> seg_members g' (el_secs el') = idxs)).
Proof.
  cbv zeta. intros Hh Hs Hnsec Hlen Hne Hos Hty Hnd HF Hauto Hdom Hb64 Hcls Hbg Hal Hbud Hidx Htls Hnz Hfree.
  destruct (layout_oneseg el h0 g bound ms Hh Hs Hnsec Hlen Hne Hos Hty Hnd HF Hauto Hdom Hb64 Hcls Hbg Hal Hbud)
    as (el' & g' & secs' & ss & pos1 & pos2 & L & Eh & Eg & Es & _ & _ & _ & S1 & S2 & S3 & G1 & G2 & G3 & G4 &
        (G5 & G6 & G7 & G8 & G9 & G10 & G11 & G12) & MC & MS & FR & Ln & CH & B1 & B2).
  assert (Hidx' : indexed_from 0 secs').
  { apply (indexed_relaid (el_secs el) secs'); [|exact Hidx].
    apply Forall2_of_nth; [exact Ln|]. intros j x Hj.
    destruct (in_dec N.eq_dec j (g_sections g)) as [Hin|Hnin].
    - destruct (Forall2_both_In _ _ _ _ j HF MS Hin) as (s & _ & P & (a & o & Q)). rewrite Hj in P. injection P as <-.
      exists (with_offset (with_addr x a) o). split; [exact Q|]. right; right. eauto.
    - destruct (FR j x Hnin Hj) as (s' & Hs' & K). exists s'. split; [exact Hs'|now apply keeps_relaid]. }
  exists el', g'. split; [exact L|]. split; [exact Eg|]. split; [exact G5|]. rewrite Es. split; [exact Hidx'|].
  intros Hr1.
  assert (Hiff : forall j, In j (seg_members g' secs') <-> In j (g_sections g)); [intro j|].
  2:{ split; [exact Hiff|]. intros Hsorted. apply sorted_ext; [now apply seg_members_sorted|exact Hsorted|exact Hiff]. }
  apply (oneseg_members_reconstructed g g' secs' ss pos1 pos2 MC CH G5 Hlen G1 G2 G3 G4); try assumption.
  - rewrite G8. exact Htls.
  - set (align := if 0 <? p_align g then p_align g else 1) in *. clearbody align. lia.
  - (* members *)
    intros i s Hin Hi.
    destruct (Forall2_both_In _ _ _ _ i HF MS Hin) as (s0 & Hs0 & P & (a & o & Q)). rewrite Hi in Q. injection Q as ->.
    rewrite Forall_forall in Hauto, Hnz. destruct (Hauto s0 Hs0) as (_ & _ & _ & _ & A5 & A6). specialize (Hnz s0 Hs0).
    unfold is_alloc, is_tls. cbn. repeat split; assumption.
  - (* the others *)
    intros k s Hn Hk.
    assert (Hlt : k < lenN (el_secs el)).
    { rewrite <- Ln. apply (nth_optN_lt _ _ _ Hk). }
    destruct (nth_optN_some (el_secs el) k Hlt) as (x & Hx).
    destruct (FR k x Hn Hx) as (s' & Hs' & K). rewrite Hk in Hs'. injection Hs' as <-.
    destruct (Hfree k x Hn Hx) as [T|[(A & Lt)|(NA & Z)]].
    + left. destruct K as [->|[_ ->]]; exact T.
    + right; left. destruct K as [->|[_ ->]]; split; assumption.
    + right; right. destruct K as [->|[Hi0 ->]]; (split; [exact NA|]).
      * intros E0. specialize (Z E0). lia.
      * intros E0. cbn in E0. contradiction.
Qed.
