(* Arrange_total.v — C18: arrange_local_symbols never faults on a loaded object
   whose symbol entries have the size of the symbol record, whatever the bytes. *)
From ElfioV Require Import Bytes Mem Stream SectionData Strings Elfio Table Accessors Loader Load_proofs Safety_proofs Arrange_proofs.
From Coq Require Import ZifyBool ZifyN ZifyNat Permutation.
Local Open Scope N_scope.

(* any buffer is a table of chunks followed by a tail *)
Definition norm (esz : N) (x : bytes) : bytes := firstnN (x ++ repeatN 0 esz) esz.
Lemma lenN_norm esz x : lenN (norm esz x) = esz.
Proof. unfold norm. rewrite lenN_firstnN, lenN_app, lenN_repeatN. lia. Qed.
Lemma norm_id esz x : lenN x = esz -> norm esz x = x.
Proof. intros H. unfold norm. now apply firstnN_app_exact. Qed.

Lemma chunks_exist esz (Hp : 0 < esz) : forall (n : nat) (b : bytes), N.of_nat n * esz <= lenN b ->
  exists es tl, b = concat (map (norm esz) es) ++ tl /\ lenN es = N.of_nat n.
Proof.
  induction n as [|n IH]; intros b H.
  - exists [], b. split; reflexivity.
  - assert (Hs : esz <= lenN b) by lia.
    destruct (IH (skipnN b esz)) as (es & tl & E & L); [rewrite lenN_skipnN; lia|].
    exists (firstnN b esz :: es), tl. split.
    + cbn [map concat]. rewrite norm_id by (rewrite lenN_firstnN; lia). rewrite <- app_assoc, <- E. symmetry. apply firstnN_skipnN.
    + rewrite lenN_cons, L. lia.
Qed.

Theorem arrange_loop_total c (b : bytes) count :
  let esz := layout_sz (sym_layout c) in
  count * esz <= lenN b -> count * esz < 2 ^ 64 ->
  exists p r log, arrange_loop (0 :: 0 :: b) (Some b) c esz count 1 [] = Ok (p, r, log) /\
                  exists b', p = Some b' /\ lenN b' = lenN b.
Proof.
  cbv zeta. intros Hc Hb.
  set (esz := layout_sz (sym_layout c)).
  assert (Hesz : esz = match c with C32 => 16 | C64 => 24 end) by (unfold esz; destruct c; reflexivity).
  assert (Hp : 0 < esz) by (rewrite Hesz; destruct c; lia).
  destruct (N.eq_dec count 0) as [->|Hnz].
  - (* an empty table: both scans stop at once *)
    cbn [arrange_loop scan_bind bind]. change (1 <? 0) with false. cbn [bind]. change (wrap64 (1 + 1) <? 0) with false.
    cbn [bind andb]. eexists _, _, _. split; [reflexivity|]. eauto.
  - destruct (chunks_exist esz Hp (N.to_nat count) b ltac:(lia)) as (es & tl & E & L).
    rewrite N2Nat.id in L.
    pose proof (arrange_loop_correct (norm esz) c (fun x => N.shiftr (nthN (norm esz x) (sym_info_off c) 0) 4 =? STB_LOCAL)
                  (lenN_norm esz) (fun x => eq_refl) es tl) as AC.
    fold esz in AC. unfold tbl in AC. rewrite <- E, L in AC.
    destruct AC as (es' & r & log & EQ & _ & L' & _); [lia| |].
    { exact Hb. }
    rewrite EQ. eexists _, r, log. split; [reflexivity|]. eexists. split; [reflexivity|].
    rewrite E, !lenN_app, !(lenN_concat_enc _ esz (lenN_norm esz)), L', L. reflexivity.
Qed.

Section ElLevel.
  Variable junk : N -> N.

  Lemma acls_same el el1 : same_shape el el1 -> acls el1 = acls el.
  Proof. intros (_ & H & _). unfold acls, class32, el_class_byte. now rewrite H. Qed.

  (* arrange_local_symbols on any loaded object: entries of the symbol record's size, any bytes *)
  Theorem arrange_local_symbols_total content k el symsec s0 :
    loaded_ok content k el -> get_sec el symsec = Some s0 ->
    sh_entsize s0 = layout_sz (sym_layout (acls el)) -> sh_size s0 < 2 ^ 64 ->
    exists el1 r log, arrange_local_symbols junk el symsec = Ok (el1, r, log).
  Proof.
    intros H Hg He Hs. unfold arrange_local_symbols.
    destruct (sec_data_total junk content k el symsec s0 H Hg) as (el1 & s1 & E & L & SH & G & B & HS).
    rewrite E. cbn [bind]. destruct (s_data s1) as [b|] eqn:Ed; [|eauto]. cbn in B.
    destruct (hdr_same_sizes _ _ HS) as (Z1 & Z2 & _).
    pose proof (get_symbols_num_bound el1 s1) as [N1 _].
    rewrite Z2, He, <- (acls_same el el1 SH).
    destruct (arrange_loop_total (acls el1) b (get_symbols_num el1 s1)) as (p & r & log & -> & _).
    { rewrite Z2, He, <- (acls_same el el1 SH) in N1. lia. }
    { rewrite Z2, He, <- (acls_same el el1 SH) in N1. lia. }
    cbn [bind]. rewrite G. eauto.
  Qed.
End ElLevel.
